(* TwoLevelCheckpointSchedule: the extracted Online machine driven by the client against the reference executor.
   The invariant of TLInv.v (blocks, passes, per-block potential) is transported along two bridges, as in MSBridge.v;
   the forward phase before finalisation, finalize and EndForward are proved directly. *)
From Coq Require Import ZArith List Lia Bool.
Require Import Actions BinomDef Binom2 NAdvance NAdv Multistage Online Exec Sched ExecFacts RunFacts.
Require TLInv Inst.
Import ListNotations.
Open Scope Z_scope.
Ltac Zify.zify_post_hook ::= Z.to_euclidean_division_equations.

(* ---------- what TLInv's executor does, action by action ---------- *)
Section TEXEC.
Variable N P bs : Z. Variable bst : storage.
Hypothesis bst_cp : bst = RAM \/ bst = DISK.
Notation texec := (TLInv.exec N P bs bst).
Notation pend := (TLInv.pend N P).
Lemma st_eqb_bst_work : TLInv.st_eqb bst WORK = false. Proof. destruct bst_cp as [-> | ->]; reflexivity. Qed.
Lemma st_eqb_bst_refl : TLInv.st_eqb bst bst = true. Proof. destruct bst_cp as [-> | ->]; reflexivity. Qed.

Lemma texec_fwd_work x n0 n1 wa x' : texec x (Forward n0 n1 false wa WORK) = Some x' ->
  TLInv.fwd x = Some n0 /\ n0 < n1 <= N - TLInv.rr x /\ (wa = true -> n1 = n0 + 1 /\ n1 = N - TLInv.rr x) /\
  x' = {| TLInv.fwd := Some n1; TLInv.wics := None; TLInv.wdeps := if wa then Some (n0, n1) else None; TLInv.bin := TLInv.bin x;
          TLInv.rr := TLInv.rr x; TLInv.done := TLInv.done x + (n1 - n0); TLInv.passes := TLInv.passes x |}.
Proof.
  cbn [TLInv.exec TLInv.st_eqb]. destruct (TLInv.fwd x) as [f|]; [|discriminate].
  destruct (Z.eqb_spec f n0), (Z.ltb_spec n0 n1), (Z.leb_spec n1 (N - TLInv.rr x)); cbn [andb negb orb]; try discriminate.
  destruct wa; cbn [andb negb].
  - destruct (Z.eqb_spec n1 (n0 + 1)), (Z.eqb_spec n1 (N - TLInv.rr x)); cbn [andb negb]; try discriminate.
    intros Hq; injection Hq as <-. subst f. repeat split; auto; lia.
  - intros Hq; injection Hq as <-. subst f. repeat split; auto; try lia; try discriminate.
Qed.
Lemma texec_fwd_bin x n0 n1 x' : texec x (Forward n0 n1 true false bst) = Some x' ->
  TLInv.fwd x = Some n0 /\ n0 < n1 <= N - TLInv.rr x /\ TLInv.lookup n0 (TLInv.bin x) = None /\ TLInv.is_periodb N P n0 = false /\
  TLInv.len (map fst (TLInv.bin x)) < bs /\
  x' = {| TLInv.fwd := Some n1; TLInv.wics := None; TLInv.wdeps := None; TLInv.bin := (n0, (n0, n1)) :: TLInv.bin x;
          TLInv.rr := TLInv.rr x; TLInv.done := TLInv.done x + (n1 - n0); TLInv.passes := TLInv.passes x |}.
Proof.
  cbn [TLInv.exec]. rewrite st_eqb_bst_work, st_eqb_bst_refl. destruct (TLInv.fwd x) as [f|]; [|discriminate].
  destruct (Z.eqb_spec f n0), (Z.ltb_spec n0 n1), (Z.leb_spec n1 (N - TLInv.rr x)); cbn [andb negb orb]; try discriminate.
  destruct (TLInv.lookup n0 (TLInv.bin x)); cbn [TLInv.isnone negb orb]; [discriminate|].
  destruct (TLInv.is_periodb N P n0); cbn [orb]; [discriminate|].
  destruct (Z.ltb_spec (TLInv.len (map fst (TLInv.bin x))) bs); cbn [negb]; [|discriminate].
  intros Hq; injection Hq as <-. subst f. repeat split; auto; lia.
Qed.
Lemma texec_rev x n1 n0 cl x' : texec x (Reverse n1 n0 cl) = Some x' ->
  n1 = N - TLInv.rr x /\ n0 = n1 - 1 /\ TLInv.covers (TLInv.wdeps x) n0 n1 = true /\
  x' = {| TLInv.fwd := TLInv.fwd x; TLInv.wics := TLInv.wics x; TLInv.wdeps := None; TLInv.bin := TLInv.bin x;
          TLInv.rr := TLInv.rr x + 1; TLInv.done := TLInv.done x; TLInv.passes := TLInv.passes x |}.
Proof.
  cbn [TLInv.exec]. destruct (Z.eqb_spec n1 (N - TLInv.rr x)), (Z.eqb_spec n0 (n1 - 1)), (TLInv.covers (TLInv.wdeps x) n0 n1);
    cbn [andb negb]; try discriminate.
  intros Hq; injection Hq as <-. repeat split; auto.
Qed.
(* a load: either a binomial checkpoint (kept in bin, storage bst) or a period checkpoint (DISK, Copy only) *)
Lemma texec_load x (mv : bool) n sg x' : texec x ((if mv then Move else Copy) n sg WORK) = Some x' ->
  TLInv.wics x = None /\ TLInv.wdeps x = None /\ n < N - TLInv.rr x /\
  ((exists b0, TLInv.lookup n (TLInv.bin x) = Some (n, b0) /\ sg = bst /\ N - TLInv.rr x <= b0 /\
      x' = {| TLInv.fwd := Some n; TLInv.wics := Some (n, b0); TLInv.wdeps := None;
              TLInv.bin := if mv then TLInv.remove n (TLInv.bin x) else TLInv.bin x;
              TLInv.rr := TLInv.rr x; TLInv.done := TLInv.done x; TLInv.passes := TLInv.passes x |})
   \/ (TLInv.lookup n (TLInv.bin x) = None /\ TLInv.is_periodb N P n = true /\ sg = DISK /\ mv = false /\ N - TLInv.rr x <= pend n /\
      x' = {| TLInv.fwd := Some n; TLInv.wics := Some (n, pend n); TLInv.wdeps := None; TLInv.bin := TLInv.bin x;
              TLInv.rr := TLInv.rr x; TLInv.done := TLInv.done x; TLInv.passes := TLInv.passes x |})).
Proof.
  intros He.
  assert (He' : (if negb (TLInv.isnone (TLInv.wics x) && TLInv.isnone (TLInv.wdeps x) && (n <? N - TLInv.rr x)) then None else
      match TLInv.lookup n (TLInv.bin x) with
      | Some (a0, b0) =>
        if negb (TLInv.st_eqb sg bst && (a0 =? n) && (N - TLInv.rr x <=? b0)) then None else
        Some {| TLInv.fwd := Some n; TLInv.wics := Some (a0, b0); TLInv.wdeps := None;
                TLInv.bin := if mv then TLInv.remove n (TLInv.bin x) else TLInv.bin x; TLInv.rr := TLInv.rr x; TLInv.done := TLInv.done x; TLInv.passes := TLInv.passes x |}
      | None =>
        if negb (TLInv.is_periodb N P n && TLInv.st_eqb sg DISK && (N - TLInv.rr x <=? pend n) && negb mv) then None else
        Some {| TLInv.fwd := Some n; TLInv.wics := Some (n, pend n); TLInv.wdeps := None; TLInv.bin := TLInv.bin x; TLInv.rr := TLInv.rr x; TLInv.done := TLInv.done x; TLInv.passes := TLInv.passes x |}
      end) = Some x') by (destruct mv; exact He).
  clear He. destruct (TLInv.wics x), (TLInv.wdeps x), (Z.ltb_spec n (N - TLInv.rr x)); cbn [TLInv.isnone andb negb] in He'; try discriminate.
  repeat split; auto.
  destruct (TLInv.lookup n (TLInv.bin x)) as [[a0 b0]|].
  - left. destruct (TLInv.st_eqb sg bst) eqn:Est, (Z.eqb_spec a0 n), (Z.leb_spec (N - TLInv.rr x) b0); cbn [andb negb] in He'; try discriminate.
    injection He' as <-. subst a0. exists b0. repeat split; auto.
    destruct sg, bst; cbn in Est; congruence.
  - right. destruct (TLInv.is_periodb N P n), (TLInv.st_eqb sg DISK) eqn:Est, (Z.leb_spec (N - TLInv.rr x) (pend n)), mv; cbn [andb negb] in He'; try discriminate.
    injection He' as <-. repeat split; auto. destruct sg; cbn in Est; congruence.
Qed.
Lemma texec_endrev x x' : texec x EndReverse = Some x' ->
  TLInv.rr x = N /\ TLInv.bin x = [] /\
  x' = {| TLInv.fwd := TLInv.fwd x; TLInv.wics := TLInv.wics x; TLInv.wdeps := TLInv.wdeps x; TLInv.bin := []; TLInv.rr := 0;
          TLInv.done := TLInv.done x; TLInv.passes := TLInv.passes x + 1 |}.
Proof.
  cbn [TLInv.exec]. destruct (Z.eqb_spec (TLInv.rr x) N), (TLInv.bin x); cbn [andb negb]; try discriminate.
  intros Hq; injection Hq as <-. auto.
Qed.
End TEXEC.

Definition n_after (a : action) (n : Z) : Z := match a with Forward _ n1 _ _ _ => n1 | Copy k _ _ | Move k _ _ => k | _ => n end.
Definition rev_clears (a : action) : Prop := match a with Reverse _ _ cl => cl = true | _ => True end.
Definition r_after (a : action) (r : Z) : Z := match a with Reverse _ _ _ => r + 1 | EndReverse => 0 | _ => r end.

(* ---------- (1) the extracted machine takes the step of the proved machine ---------- *)
Section MACH.
Variable N P bs : Z. Variable bst : storage. Variable tj : traj.
Hypothesis HN : 1 <= N. Hypothesis HP : 1 <= P. Hypothesis Hbs : 0 <= bs.
Hypothesis bst_cp : bst = RAM \/ bst = DISK.
Notation adv := (Inst.advC tj).
Notation tres := (TLInv.resume adv N P bs bst).

Definition pcT (q : Online.pc) : TLInv.pc :=
  match q with
  | PTOuter => TLInv.PTOuter | PTBlock a => TLInv.PTBlock a | PTAfterCopy a => TLInv.PTAfterCopy a | PTInner a => TLInv.PTInner a
  | PTAfterPush a b => TLInv.PTAfterPush a b | PTAdj a => TLInv.PTAdj a | PTRevAct a => TLInv.PTRevAct a
  | _ => TLInv.PTOuter end.
Definition is_pt (q : Online.pc) : bool :=
  match q with PTOuter | PTBlock _ | PTAfterCopy _ | PTInner _ | PTAfterPush _ _ | PTAdj _ | PTRevAct _ => true | _ => false end.
Definition ost (q : Online.pc) (n r : Z) (sn : list Z) : Online.st :=
  {| Online.k := KTwo P bs bst tj; Online.pcv := q; Online.b := {| Online.n_ := n; Online.r_ := r; Online.max_n_ := Some N |};
     Online.snaps := sn; Online.exh := false |}.
Definition tst (q : Online.pc) (n r : Z) (sn : list Z) : TLInv.st :=
  {| TLInv.pcv := pcT q; TLInv.n_ := n; TLInv.r_ := r; TLInv.snaps := sn |}.

Lemma nadv_ok m k : 1 <= m -> 1 <= k -> nadv m k tj = Ok (adv m k).
Proof. intros Hm Hk. unfold nadv. rewrite (Inst.advC_spec tj m k Hm Hk). reflexivity. Qed.

(* the extracted machine passes through PTAdj on its way out of PTInner, which costs one more unit of fuel *)
Definition need (q : Online.pc) : nat := match q with PTInner _ => 2 | PTAfterPush _ _ => 3 | _ => 1 end.
Lemma resume_agrees : forall f q n r sn t' a, is_pt q = true -> (need q <= f)%nat ->
  (forall n0s, q = PTAfterCopy n0s -> 1 <= N - r - n) ->
  tres f (tst q n r sn) = (t', TLInv.Act a) ->
  exists q' n' r' sn', Online.resume f (ost q n r sn) = (ost q' n' r' sn', Yield a) /\ t' = tst q' n' r' sn' /\ is_pt q' = true /\
                       n' = n_after a n /\ r' = r_after a r /\ rev_clears a.
Proof.
  induction f as [|f IH]; intros q n r sn t' a Hq Hf Hac Hres; [discriminate|].
  destruct q; cbn [is_pt] in Hq; try discriminate; cbn [TLInv.resume tst pcT TLInv.pcv TLInv.n_ TLInv.r_ TLInv.snaps] in Hres;
    cbn [Online.resume ost Online.k Online.pcv Online.b Online.n_ Online.r_ Online.max_n_ Online.snaps]; cbn [need] in Hf.
  - (* PTOuter *)
    destruct (Z.ltb_spec r N).
    + destruct (negb (r =? N - Z.min ((N - r - 1) / P * P + P) N)); [discriminate|].
      destruct f as [|f']; [discriminate|].
      apply (IH (PTBlock ((N - r - 1) / P * P)) n r [(N - r - 1) / P * P] t' a eq_refl); [cbn; lia|intros; discriminate|exact Hres].
    + destruct (negb (r =? N)); [discriminate|]. injection Hres as <- <-.
      exists PTOuter, n, 0, sn. repeat split; auto; try reflexivity; try (destruct (_ =? _); reflexivity); try (destruct (_ =? _); exact I); try exact I.
  - (* PTBlock *)
    destruct (Z.ltb_spec r (N - n0s)).
    + destruct sn as [|cp rest]; [discriminate|].
      destruct (Z.eqb_spec cp (N - r - 1)); injection Hres as <- <-.
      * exists (PTAdj n0s), cp, r, rest. repeat split; auto; try reflexivity; try (destruct (_ =? _); reflexivity); try (destruct (_ =? _); exact I); try exact I.
      * exists (PTAfterCopy n0s), cp, r, (cp :: rest). repeat split; auto; try reflexivity; try (destruct (_ =? _); reflexivity); try (destruct (_ =? _); exact I); try exact I.
    + destruct (negb (r =? N - n0s)); [discriminate|]. destruct sn; [|discriminate].
      destruct f as [|f']; [discriminate|].
      apply (IH PTOuter n r [] t' a eq_refl); [cbn; lia|intros; discriminate|exact Hres].
  - (* PTAfterCopy *)
    specialize (Hac n0s eq_refl).
    unfold TLInv.len in Hres. unfold len.
    destruct (Z.ltb_spec (bs + 1 - Z.of_nat (length sn) + 1) 1); [discriminate|]. injection Hres as <- <-.
    rewrite nadv_ok by lia.
    exists (PTInner n0s), (n + adv (N - r - n) (bs + 1 - Z.of_nat (length sn) + 1)), r, sn. repeat split; auto; try reflexivity; try (destruct (_ =? _); reflexivity); try (destruct (_ =? _); exact I); try exact I.
  - (* PTInner *)
    destruct (Z.ltb_spec n (N - r - 1)).
    + unfold TLInv.len in Hres. unfold len.
      destruct (Z.ltb_spec (bs + 1 - Z.of_nat (length sn)) 1); [discriminate|]. injection Hres as <- <-.
      rewrite nadv_ok by lia.
      exists (PTAfterPush n0s n), (n + adv (N - r - n) (bs + 1 - Z.of_nat (length sn))), r, sn. repeat split; auto; try reflexivity; try (destruct (_ =? _); reflexivity); try (destruct (_ =? _); exact I); try exact I.
    + destruct (negb (n =? N - r - 1)); [discriminate|]. injection Hres as <- <-.
      destruct f as [|f']; [lia|]. cbn [Online.resume set_pc Online.k Online.pcv Online.b Online.n_ Online.r_ Online.max_n_ Online.snaps Online.exh].
      exists (PTRevAct n0s), (n + 1), r, sn. repeat split; auto; try reflexivity; try (destruct (_ =? _); reflexivity); try (destruct (_ =? _); exact I); try exact I.
  - (* PTAfterPush *)
    unfold TLInv.len in Hres. unfold len.
    destruct (Z.geb_spec (Z.of_nat (length sn)) (bs + 1)); [discriminate|].
    apply (IH (PTInner n0s) n r (p :: sn) t' a eq_refl); [cbn; lia|intros; discriminate|exact Hres].
  - (* PTAdj *)
    injection Hres as <- <-. exists (PTRevAct n0s), (n + 1), r, sn. repeat split; auto; try reflexivity; try (destruct (_ =? _); reflexivity); try (destruct (_ =? _); exact I); try exact I.
  - (* PTRevAct *)
    injection Hres as <- <-. exists (PTBlock n0s), n, (r + 1), sn. repeat split; auto; try reflexivity; try (destruct (_ =? _); reflexivity); try (destruct (_ =? _); exact I); try exact I.
Qed.

(* ---------- (2) the stores ---------- *)
(* number of period checkpoints, and the DISK store written by the forward sweep (most recent first) *)
Definition Q : Z := (N + P - 1) / P.
Definition pcp (j : Z) : Z * cp := (j * P, {| cp_ics := Some (j * P, Z.min (j * P + P) N); cp_deps := None |}).
Fixpoint pst (j : nat) : store := match j with O => [] | S j' => pcp (Z.of_nat j') :: pst j' end.
Definition cpB (e : Z * (Z * Z)) : Z * cp := (fst e, {| cp_ics := Some (snd e); cp_deps := None |}).
Definition binpart (sg : storage) (bin : list (Z * (Z * Z))) : store := if st_eqb sg bst then map cpB bin else [].

Lemma Q_spec : 1 <= Q /\ (Q - 1) * P < N <= Q * P.
Proof. unfold Q. split; [apply Z.div_le_lower_bound; lia|]. split; nia. Qed.
Lemma pst_lookup j k : lookup k (pst j) = if (0 <=? k) && (k <? Z.of_nat j * P) && (k mod P =? 0) then Some (snd (pcp (k / P))) else None.
Proof.
  induction j as [|j IH]; cbn [pst lookup].
  - destruct (Z.leb_spec 0 k), (Z.ltb_spec k (Z.of_nat 0 * P)); cbn [andb]; try reflexivity; lia.
  - unfold pcp at 1. cbn [fst]. destruct (Z.eqb_spec k (Z.of_nat j * P)) as [->|Hne].
    + rewrite Z.mod_mul, Z.div_mul by lia. cbn [Z.eqb]. 
      destruct (Z.leb_spec 0 (Z.of_nat j * P)), (Z.ltb_spec (Z.of_nat j * P) (Z.of_nat (S j) * P)); cbn [andb]; try reflexivity; nia.
    + rewrite IH. destruct (Z.leb_spec 0 k); cbn [andb]; [|reflexivity].
      destruct (Z.eqb_spec (k mod P) 0) as [Hm|Hm]; rewrite ?andb_false_r; [|reflexivity]. rewrite !andb_true_r.
      destruct (Z.ltb_spec k (Z.of_nat j * P)), (Z.ltb_spec k (Z.of_nat (S j) * P)); try reflexivity; try nia.
      exfalso. assert (k / P = Z.of_nat j) by nia. nia.
Qed.
Lemma pst_len j : len (pst j) = Z.of_nat j.
Proof. unfold len. induction j as [|j IH]; cbn [pst length]; lia. Qed.
Lemma pst_period k : lookup k (pst (Z.to_nat Q)) =
  if TLInv.is_periodb N P k then Some {| cp_ics := Some (k, TLInv.pend N P k); cp_deps := None |} else None.
Proof.
  rewrite pst_lookup. unfold TLInv.is_periodb, TLInv.pend. pose proof Q_spec as [HQ1 HQ2].
  rewrite Z2Nat.id by lia.
  destruct (Z.leb_spec 0 k); cbn [andb]; [|reflexivity].
  destruct (Z.eqb_spec (k mod P) 0) as [Hm|Hm]; rewrite ?andb_false_r; [|reflexivity]. rewrite !andb_true_r.
  assert (Hk : k = k / P * P) by nia.
  destruct (Z.ltb_spec k (Q * P)), (Z.ltb_spec k N); try reflexivity; try nia.
  - unfold pcp. cbn [snd]. rewrite <- Hk. reflexivity.
  - exfalso. assert (k / P < Q) by nia. assert (k / P <= Q - 1) by lia. nia.
Qed.

Lemma lookup_app l1 l2 k : lookup k (l1 ++ l2) = match lookup k l1 with Some v => Some v | None => lookup k l2 end.
Proof. induction l1 as [|[k' v] l1 IH]; [reflexivity|]. cbn [app lookup]. destruct (k =? k'); [reflexivity|exact IH]. Qed.
Lemma remove_app_in l1 l2 k v : lookup k l1 = Some v -> remove k (l1 ++ l2) = remove k l1 ++ l2.
Proof.
  induction l1 as [|[k' v'] l1 IH]; [discriminate|]. cbn [app lookup remove]. destruct (k =? k'); [reflexivity|].
  intros H. cbn [app]. f_equal. apply IH. exact H.
Qed.
Lemma lookup_cpB bin k : lookup k (map cpB bin) = match TLInv.lookup k bin with Some rg => Some {| cp_ics := Some rg; cp_deps := None |} | None => None end.
Proof. induction bin as [|[k' rg] bin IH]; [reflexivity|]. cbn [map cpB lookup TLInv.lookup fst snd]. destruct (k =? k'); [reflexivity|exact IH]. Qed.
Lemma remove_cpB bin k : remove k (map cpB bin) = map cpB (TLInv.remove k bin).
Proof. induction bin as [|[k' rg] bin IH]; [reflexivity|]. cbn [map cpB remove TLInv.remove fst]. destruct (k =? k'); [reflexivity|]. cbn [map cpB]. f_equal. exact IH. Qed.

(* budgets handed to the executor: binomial_snapshots extra units in the binomial storage, one DISK checkpoint per period *)
Definition ptl : xparams :=
  {| xN := N; keep_all_deps := false; budget_ram := Some (if st_eqb RAM bst then bs else 0);
     budget_disk := Some (Q + (if st_eqb DISK bst then bs else 0)) |}.

Definition Rx (x : TLInv.xst) (X : xstate) : Prop :=
  fwd X = TLInv.fwd x /\ w_ics X = TLInv.wics x /\ w_deps X = TLInv.wdeps x /\ rr X = TLInv.rr x /\ seen_endfwd X = true /\
  ram X = binpart RAM (TLInv.bin x) /\ disk X = binpart DISK (TLInv.bin x) ++ pst (Z.to_nat Q) /\
  ram0 X = [] /\ disk0 X = sort_keys (keys (pst (Z.to_nat Q))) /\ fwd_total (cnt X) = TLInv.done x.

Lemma tlookup_remove l n k v : TLInv.lookup k (TLInv.remove n l) = Some v -> exists v', TLInv.lookup k l = Some v'.
Proof.
  induction l as [|[k0 v0] l IH]; [discriminate|]. cbn [TLInv.remove TLInv.lookup].
  destruct (n =? k0).
  - intros H. destruct (k =? k0); eauto.
  - cbn [TLInv.lookup]. destruct (k =? k0); eauto.
Qed.
Lemma binpart_nil sg : binpart sg [] = []. Proof. unfold binpart. destruct (st_eqb sg bst); reflexivity. Qed.
Lemma zlist_eqb_refl l : zlist_eqb l l = true.
Proof. induction l as [|x l IH]; [reflexivity|]. cbn. rewrite Z.eqb_refl, IH. reflexivity. Qed.
Lemma fwd_total_read c s : fwd_total (count_read c s) = fwd_total c. Proof. destruct s; reflexivity. Qed.
Lemma fwd_total_put c s n : fwd_total (count_put c s n) = fwd_total c. Proof. destruct s; reflexivity. Qed.
Lemma len_map {A B} (f : A -> B) l : len (map f l) = len l. Proof. unfold len. rewrite map_length. reflexivity. Qed.
Lemma len_app {A} (l1 l2 : list A) : len (l1 ++ l2) = len l1 + len l2. Proof. unfold len. rewrite app_length. lia. Qed.

(* positions named by the state are non-negative *)
Definition NNx (x : TLInv.xst) : Prop :=
  (forall v, TLInv.fwd x = Some v -> 0 <= v) /\ (forall a b, TLInv.wdeps x = Some (a, b) -> 0 <= a) /\
  (forall k v, TLInv.lookup k (TLInv.bin x) = Some v -> 0 <= k) /\ 0 <= TLInv.rr x.

Lemma sel_bst X x : Rx x X -> sel X bst = map cpB (TLInv.bin x) ++ (if st_eqb DISK bst then pst (Z.to_nat Q) else []).
Proof.
  intros (_ & _ & _ & _ & _ & Rram & Rdisk & _). unfold binpart in *.
  destruct bst_cp as [E|E]; rewrite E in *; cbn [sel st_eqb] in *; [rewrite Rram, app_nil_r; reflexivity|exact Rdisk].
Qed.
Lemma lookup_sel_bst X x k : Rx x X -> TLInv.is_periodb N P k = false ->
  lookup k (sel X bst) = match TLInv.lookup k (TLInv.bin x) with Some rg => Some {| cp_ics := Some rg; cp_deps := None |} | None => None end.
Proof.
  intros HR Hp. rewrite (sel_bst X x HR), lookup_app, lookup_cpB. destruct (TLInv.lookup k (TLInv.bin x)); [reflexivity|].
  destruct (st_eqb DISK bst); [|reflexivity]. rewrite pst_period, Hp. reflexivity.
Qed.

Lemma tl_exec_agrees x X a x' : Rx x X -> NNx x -> rev_clears a -> TLInv.exec N P bs bst x a = Some x' ->
  check ptl true false X a = None /\ Rx x' (apply ptl false X a) /\ NNx x'.
Proof.
  intros HR (NNf & NNw & NNb & NNr) Hcl Hex. pose proof HR as (Rf & Rwi & Rwd & Rrr & Rse & Rram & Rdisk & Rr0 & Rd0 & Rtot).
  destruct a as [n0 n1 wi wa sg|n1 n0 cl|n src dst|n src dst| |].
  - (* Forward *)
    destruct (st_eqb sg WORK) eqn:Ew.
    + assert (sg = WORK) by (destruct sg; cbn in Ew; congruence). subst sg.
      destruct wi.
      { exfalso. cbn [TLInv.exec TLInv.st_eqb] in Hex. destruct (TLInv.fwd x); [|discriminate]. destruct (negb _); discriminate. }
      destruct (texec_fwd_work N P bs bst x n0 n1 wa x' Hex) as (Hf & Hn & Hwa & ->).
      assert (Hn0 : 0 <= n0) by (apply NNf; exact Hf).
      assert (Hmin : Z.min n1 N = n1) by lia.
      split; [|split].
      * unfold check. cbn [xN ptl keep_all_deps]. rewrite Hmin, Rrr. unfold fwd_is. rewrite Rf, Hf.
        cbn [is_cp st_eqb andb orb negb can_put app].
        repeat (rewrite first_err_ok; [|bool_true; try lia; auto]).
        all: try reflexivity.
        destruct wa; [|reflexivity]. destruct (Hwa eq_refl) as [E1 E2]. rewrite <- E2, E1, !Z.eqb_refl. reflexivity.
      * unfold apply. cbn [xN ptl]. rewrite Hmin. cbn [st_eqb andb put is_cp]. unfold Rx.
        cbn [set_cnt set_work fwd w_ics w_deps rr seen_endfwd ram disk ram0 disk0 cnt count_fwd fwd_total TLInv.fwd TLInv.wics TLInv.wdeps TLInv.rr TLInv.bin TLInv.done].
        repeat split; auto; try congruence; lia.
      * unfold NNx. cbn [TLInv.fwd TLInv.wdeps TLInv.bin TLInv.rr]. repeat split; auto.
        -- intros v Hv; injection Hv as <-; lia.
        -- intros a b Hab. destruct wa; [injection Hab as <- <-; lia|discriminate].
    + destruct (st_eqb sg bst) eqn:Eb.
      * assert (sg = bst) by (destruct sg, bst; cbn in Eb; congruence). subst sg.
        destruct wi; [destruct wa|].
        { exfalso. cbn [TLInv.exec] in Hex. rewrite (st_eqb_bst_work bst bst_cp), (st_eqb_bst_refl bst bst_cp) in Hex.
          destruct (TLInv.fwd x); [|discriminate]. destruct (negb _); [discriminate|]. cbn [negb orb] in Hex. discriminate. }
        2:{ exfalso. cbn [TLInv.exec] in Hex. rewrite (st_eqb_bst_work bst bst_cp), (st_eqb_bst_refl bst bst_cp) in Hex.
          destruct (TLInv.fwd x); [|discriminate]. destruct (negb _); [discriminate|]. cbn [negb orb] in Hex. discriminate. }
        destruct (texec_fwd_bin N P bs bst bst_cp x n0 n1 x' Hex) as (Hf & Hn & Hlk & Hper & Hlen & ->).
        assert (Hn0 : 0 <= n0) by (apply NNf; exact Hf).
        assert (Hmin : Z.min n1 N = n1) by lia.
        assert (Hcp : is_cp bst = true) by (destruct bst_cp as [-> | ->]; reflexivity).
        assert (Hnw : st_eqb bst WORK = false) by (destruct bst_cp as [-> | ->]; reflexivity).
        assert (Hnn : st_eqb bst NONE = false) by (destruct bst_cp as [-> | ->]; reflexivity).
        pose proof (sel_bst X x HR) as Hsel.
        assert (Hlook : lookup n0 (sel X bst) = None) by (rewrite (lookup_sel_bst X x n0 HR Hper), Hlk; reflexivity).
        assert (Hbud : within (budget ptl bst) (len (sel X bst) + 1) = true).
        { rewrite Hsel. unfold TLInv.len in Hlen. rewrite map_length in Hlen.
          pose proof Q_spec as [HQ1 _]. pose proof (pst_len (Z.to_nat Q)) as Hpl. rewrite Z2Nat.id in Hpl by lia.
          unfold len in *. rewrite app_length, map_length.
          unfold ptl. destruct bst_cp as [E|E]; rewrite E; cbn [budget budget_ram budget_disk st_eqb within length]; apply Z.leb_le; lia. }
        split; [|split].
        -- unfold check. cbn [xN ptl keep_all_deps]. rewrite Hmin, Rrr. unfold fwd_is. rewrite Rf, Hf, Hcp, Hnw, Hnn.
           cbn [andb orb negb]. unfold can_put. rewrite Hcp, Hlook, Hbud. cbn [isnone app].
           repeat (rewrite first_err_ok; [|bool_true; try lia; auto]). reflexivity.
        -- unfold apply. cbn [xN ptl]. rewrite Hmin, Hnw. cbn [andb]. unfold put. rewrite Hcp. unfold Rx.
           cbn [TLInv.fwd TLInv.wics TLInv.wdeps TLInv.rr TLInv.bin TLInv.done]. unfold binpart in *.
           destruct bst_cp as [E|E]; rewrite E in *;
             cbn [set_cnt set_store set_work fwd w_ics w_deps rr seen_endfwd ram disk ram0 disk0 cnt sel st_eqb map cpB fst snd app] in *;
             repeat split; auto; try congruence; rewrite ?fwd_total_put; cbn [count_fwd fwd_total]; rewrite ?fwd_total_put; try lia.
           ++ rewrite Rram. reflexivity.
           ++ rewrite Rdisk. reflexivity.
        -- unfold NNx. cbn [TLInv.fwd TLInv.wdeps TLInv.bin TLInv.rr TLInv.lookup]. repeat split; auto.
           ++ intros v Hv; injection Hv as <-; lia.
           ++ discriminate.
           ++ intros k v. destruct (Z.eqb_spec k n0); [intros _; lia|apply NNb].
      * exfalso. cbn [TLInv.exec] in Hex. destruct (TLInv.fwd x); [|discriminate]. destruct (negb _); [discriminate|].
        assert (E1 : TLInv.st_eqb sg WORK = false) by (destruct sg; cbn in *; congruence).
        assert (E2 : TLInv.st_eqb sg bst = false) by (destruct sg, bst; cbn in *; congruence).
        rewrite E1, E2 in Hex. discriminate.
  - (* Reverse *)
    cbn [rev_clears] in Hcl. subst cl. destruct (texec_rev N P bs bst x n1 n0 true x' Hex) as (Hn1 & Hn0 & Hcov & ->).
    assert (Hwd : exists a b, TLInv.wdeps x = Some (a, b) /\ a <= n0 /\ n1 <= b).
    { unfold TLInv.covers in Hcov. destruct (TLInv.wdeps x) as [[a b]|]; [|discriminate]. exists a, b. split; [reflexivity|].
      apply andb_true_iff in Hcov. rewrite !Z.leb_le in Hcov. exact Hcov. }
    destruct Hwd as (a & b & Hwd & Ha & Hb). pose proof (NNw a b Hwd) as Ha0.
    split; [|split].
    + unfold check. cbn [xN ptl]. rewrite Rse, Rrr, Rwd, Hwd. cbn [covers].
      repeat (rewrite first_err_ok; [|bool_true; try lia; auto]). reflexivity.
    + unfold apply, set_rr, Rx. cbn [fwd w_ics w_deps rr seen_endfwd ram disk ram0 disk0 cnt TLInv.fwd TLInv.wics TLInv.wdeps TLInv.rr TLInv.bin TLInv.done].
      repeat split; auto; try congruence; try lia; try (destruct cl; reflexivity); try (rewrite Rrr; lia).
    + unfold NNx. cbn [TLInv.fwd TLInv.wdeps TLInv.bin TLInv.rr]. repeat split; auto; try discriminate; lia.
  - (* Copy *)
    destruct dst; try (exfalso; cbn [TLInv.exec] in Hex; discriminate).
    destruct (texec_load N P bs bst bst_cp x false n src x' Hex) as (Hwi & Hwd & Hn & [(b0 & Hlk & -> & Hb & ->)|(Hlk & Hper & -> & _ & Hb & ->)]).
    + (* a binomial checkpoint *)
      assert (Hn0 : 0 <= n) by (eapply NNb; exact Hlk).
      assert (Hper : TLInv.is_periodb N P n = false \/ True) by auto.
      assert (Hcp : is_cp bst = true) by (destruct bst_cp as [-> | ->]; reflexivity).
      assert (Hlook : lookup n (sel X bst) = Some {| cp_ics := Some (n, b0); cp_deps := None |}).
      { rewrite (sel_bst X x HR), lookup_app, lookup_cpB, Hlk. reflexivity. }
      split; [|split].
      * unfold check. cbn [xN ptl keep_all_deps]. rewrite Hcp, Rse, Rwi, Hwi, Rwd, Hwd, Rrr, Hlook.
        cbn [cp_ics cp_deps wlen isnone negb andb orb covers app].
        repeat (rewrite first_err_ok; [|bool_true; try lia; auto]).
        all: try reflexivity.
        all: try (right; bool_true; lia).
      * unfold apply. rewrite Hlook. cbn [cp_ics cp_deps].
        assert (Hr : (n <=? n) && (n <? b0) = true) by (bool_true; lia). rewrite Hr. unfold Rx.
        cbn [set_cnt set_work fwd w_ics w_deps rr seen_endfwd ram disk ram0 disk0 cnt TLInv.fwd TLInv.wics TLInv.wdeps TLInv.rr TLInv.bin TLInv.done].
        repeat split; auto; try congruence. rewrite fwd_total_read. exact Rtot.
      * unfold NNx. cbn [TLInv.fwd TLInv.wdeps TLInv.bin TLInv.rr]. repeat split; auto; try discriminate.
        intros v Hv; injection Hv as <-; lia.
    + (* a period checkpoint *)
      assert (Hn0 : 0 <= n) by (unfold TLInv.is_periodb in Hper; apply andb_true_iff in Hper; destruct Hper as [Hp _]; apply andb_true_iff in Hp; destruct Hp as [Hp _]; apply Z.leb_le in Hp; exact Hp).
      assert (HnN : n < N) by (unfold TLInv.is_periodb in Hper; apply andb_true_iff in Hper; destruct Hper as [Hp _]; apply andb_true_iff in Hp; destruct Hp as [_ Hp]; apply Z.ltb_lt in Hp; exact Hp).
      assert (Hlook : lookup n (sel X DISK) = Some {| cp_ics := Some (n, TLInv.pend N P n); cp_deps := None |}).
      { cbn [sel]. rewrite Rdisk, lookup_app. unfold binpart. destruct (st_eqb DISK bst).
        - rewrite lookup_cpB, Hlk, pst_period, Hper. reflexivity.
        - cbn [lookup]. rewrite pst_period, Hper. reflexivity. }
      assert (Hpe : n < TLInv.pend N P n) by (unfold TLInv.pend; lia).
      split; [|split].
      * unfold check. cbn [xN ptl keep_all_deps is_cp]. rewrite Rse, Rwi, Hwi, Rwd, Hwd, Rrr, Hlook.
        cbn [cp_ics cp_deps wlen isnone negb andb orb covers app].
        repeat (rewrite first_err_ok; [|bool_true; try lia; auto]).
        all: try reflexivity.
        all: try (right; bool_true; lia).
      * unfold apply. rewrite Hlook. cbn [cp_ics cp_deps].
        assert (Hr : (n <=? n) && (n <? TLInv.pend N P n) = true) by (bool_true; lia). rewrite Hr. unfold Rx.
        cbn [set_cnt set_work fwd w_ics w_deps rr seen_endfwd ram disk ram0 disk0 cnt TLInv.fwd TLInv.wics TLInv.wdeps TLInv.rr TLInv.bin TLInv.done].
        repeat split; auto; try congruence.
      * unfold NNx. cbn [TLInv.fwd TLInv.wdeps TLInv.bin TLInv.rr]. repeat split; auto; try discriminate.
        intros v Hv; injection Hv as <-; lia.
  - (* Move *)
    destruct dst; try (exfalso; cbn [TLInv.exec] in Hex; discriminate).
    destruct (texec_load N P bs bst bst_cp x true n src x' Hex) as (Hwi & Hwd & Hn & [(b0 & Hlk & -> & Hb & ->)|(_ & _ & _ & Hmv & _)]); [|discriminate].
    assert (Hn0 : 0 <= n) by (eapply NNb; exact Hlk).
    assert (Hcp : is_cp bst = true) by (destruct bst_cp as [-> | ->]; reflexivity).
    assert (Hlook : lookup n (sel X bst) = Some {| cp_ics := Some (n, b0); cp_deps := None |}).
    { rewrite (sel_bst X x HR), lookup_app, lookup_cpB, Hlk. reflexivity. }
    split; [|split].
    + unfold check. cbn [xN ptl keep_all_deps]. rewrite Hcp, Rse, Rwi, Hwi, Rwd, Hwd, Rrr, Hlook.
      cbn [cp_ics cp_deps wlen isnone negb andb orb covers app].
      repeat (rewrite first_err_ok; [|bool_true; try lia; auto]).
      all: try reflexivity.
      all: try (right; bool_true; lia).
    + unfold apply. rewrite Hlook. cbn [cp_ics cp_deps].
      assert (Hr : (n <=? n) && (n <? b0) = true) by (bool_true; lia). rewrite Hr. unfold Rx.
      assert (Hlc : lookup n (map cpB (TLInv.bin x)) = Some {| cp_ics := Some (n, b0); cp_deps := None |}) by (rewrite lookup_cpB, Hlk; reflexivity).
      unfold binpart in *.
      destruct bst_cp as [E|E]; rewrite E in *;
        cbn [set_cnt set_store set_work fwd w_ics w_deps rr seen_endfwd ram disk ram0 disk0 cnt sel st_eqb TLInv.fwd TLInv.wics TLInv.wdeps TLInv.rr TLInv.bin TLInv.done] in *;
        repeat split; auto; try congruence; rewrite ?fwd_total_read; try exact Rtot.
      * rewrite Rram, remove_cpB. reflexivity.
      * rewrite Rdisk, (remove_app_in _ _ _ _ Hlc), remove_cpB. reflexivity.
    + unfold NNx. cbn [TLInv.fwd TLInv.wdeps TLInv.bin TLInv.rr]. repeat split; auto; try discriminate.
      * intros v Hv; injection Hv as <-; lia.
      * intros k v Hkv. destruct (tlookup_remove _ _ _ _ Hkv) as [v' Hv']. eapply NNb; exact Hv'.
  - exfalso. cbn [TLInv.exec] in Hex. discriminate.
  - (* EndReverse *)
    destruct (texec_endrev N P bs bst x x' Hex) as (Hr & Hb & ->).
    split; [|split].
    + unfold check. cbn [xN ptl]. rewrite Rse, Rrr, Hr, Z.eqb_refl, Rram, Rdisk, Hb, !binpart_nil, Rr0, Rd0. cbn [app keys map sort_keys fold_right zlist_eqb andb].
      rewrite zlist_eqb_refl. reflexivity.
    + unfold apply, Rx. cbn [fwd w_ics w_deps rr seen_endfwd ram disk ram0 disk0 cnt TLInv.fwd TLInv.wics TLInv.wdeps TLInv.rr TLInv.bin TLInv.done].
      rewrite Hb in Rram, Rdisk. repeat split; auto; try congruence.
    + unfold NNx. cbn [TLInv.fwd TLInv.wdeps TLInv.bin TLInv.rr TLInv.lookup]. repeat split; auto; try discriminate; lia.
Qed.

Lemma texec_fwd_after x a x' n : TLInv.exec N P bs bst x a = Some x' -> TLInv.fwd x = Some n -> TLInv.fwd x' = Some (n_after a n).
Proof.
  intros Hex Hf. destruct a as [n0 n1 wi wa sg|n1 n0 cl|k src dst|k src dst| |]; cbn [TLInv.exec n_after] in *.
  - rewrite Hf in Hex.
    repeat match type of Hex with
    | (if ?b then _ else _) = _ => destruct b
    | None = _ => discriminate
    end; injection Hex as <-; reflexivity.
  - destruct (negb _); [discriminate|]. injection Hex as <-. exact Hf.
  - destruct dst; try discriminate. destruct (negb _); [discriminate|].
    destruct (TLInv.lookup k (TLInv.bin x)) as [[a0 b0]|]; (destruct (negb _); [discriminate|]); injection Hex as <-; reflexivity.
  - destruct dst; try discriminate. destruct (negb _); [discriminate|].
    destruct (TLInv.lookup k (TLInv.bin x)) as [[a0 b0]|]; (destruct (negb _); [discriminate|]); injection Hex as <-; reflexivity.
  - discriminate.
  - destruct (negb _); [discriminate|]. injection Hex as <-. exact Hf.
Qed.

Lemma Inv_rr d0 t x : TLInv.Inv (Inst.TC tj) N P bs d0 t x -> TLInv.rr x = TLInv.r_ t.
Proof.
  unfold TLInv.Inv, TLInv.InvCore, TLInv.norm. intros (H & _). destruct (TLInv.pcv t); exact H.
Qed.
Lemma Inv_aftercopy d0 q n r sn x n0s : TLInv.Inv (Inst.TC tj) N P bs d0 (tst q n r sn) x -> q = PTAfterCopy n0s -> 1 <= N - r - n.
Proof.
  intros H ->. unfold TLInv.Inv, TLInv.InvCore, TLInv.norm, tst in H. cbn [pcT TLInv.pcv TLInv.n_ TLInv.r_ TLInv.snaps] in H.
  destruct H as (_ & _ & H). cbn zeta in H. destruct H as (_ & _ & _ & _ & _ & Hn & _). lia.
Qed.

(* ---------- the monitored client, after EndForward ---------- *)
Definition tsched (o : Online.st) (stt : bool) : sched := {| ob := OOnline o; started := stt |}.
Inductive J : sched -> mon -> Prop :=
 | Jr q n r sn d0 x m stt : is_pt q = true -> mon_ok m -> TLInv.Inv (Inst.TC tj) N P bs d0 (tst q n r sn) x -> Rx x (mx m) -> NNx x ->
     TLInv.fwd x = Some n -> J (tsched (ost q n r sn) stt) m.

Lemma J_step sch m : J sch m -> mon_ok m -> good_step ptl J sch m.
Proof.
  intros HJ _. unfold good_step. inversion HJ as [q n r sn d0 x m0 stt Hq Hm HI HR HNN Hfw]; subst; clear HJ.
  pose proof (TLInv.step_ok (Inst.advC tj) (Inst.advC_range tj) (Inst.advC_one tj) (Inst.TC tj) (Inst.TC_1 tj) (Inst.TC_rec tj)
               N P bs bst HN HP Hbs bst_cp d0 (tst q n r sn) x 0%nat HI) as Hgood.
  unfold TLInv.Good in Hgood.
  destruct (TLInv.resume (Inst.advC tj) N P bs bst 4 (tst q n r sn)) as [t' o] eqn:Eres.
  destruct o as [a| |]; try contradiction. destruct Hgood as (x' & d0' & Hex & HI').
  destruct (resume_agrees 4 q n r sn t' a Hq ltac:(destruct q; cbn; lia) (fun n0s => Inv_aftercopy d0 q n r sn x n0s HI) Eres)
    as (q' & n' & r' & sn' & Hon & -> & Hq' & Hn' & Hr' & Hcl).
  unfold Sched.next, tsched. cbn [ob]. unfold Online.next. rewrite Hon.
  set (sch' := {| ob := OOnline (ost q' n' r' sn'); started := true |}).
  destruct (tl_exec_agrees x (mx m) a x' HR HNN Hcl Hex) as (Hchk & HR' & HNN').
  assert (Hexec : exec ptl (negb (isnone (get_max_n sch'))) (is_exhausted sch') (mx m) a = inl (apply ptl false (mx m) a))
    by (apply exec_ok; exact Hchk).
  pose proof (texec_fwd_after x a x' n Hex Hfw) as Hfw'. rewrite <- Hn' in Hfw'.
  pose proof (Inv_rr _ _ _ HI') as Hrr'. cbn [tst TLInv.r_] in Hrr'.
  pose proof HR' as (Rf & _ & _ & Rrr & _).
  destruct m as [X merr cnt0]. unfold mon_ok in Hm. cbn [merr_] in Hm. subst merr.
  rewrite (mon_step_ok ptl sch' a {| mx := X; merr_ := None; mcount := cnt0 |} _ eq_refl Hexec).
  - split; [reflexivity|]. apply (Jr q' n' r' sn' d0' x'); auto. reflexivity.
  - cbn [mx] in Rf |- *. rewrite Rf, Hfw'. cbn [get_max_n sch' ob ost Online.max_n_ Online.b isnone andb get_n Online.n_]. apply Z.eqb_refl.
  - cbn [get_r sch' ob ost Online.r_ Online.b]. cbn [mx] in Rrr |- *. rewrite Rrr. symmetry. exact Hrr'.
  - cbn [get_max_n sch' ob ost Online.max_n_ Online.b oz_ok xN ptl]. apply Z.eqb_refl.
Qed.

(* ---------- the forward sweep before finalisation: Q = ceil(N / P) periodic DISK checkpoints ---------- *)
Definition fsched (pc : Online.pc) (n : Z) (mx : option Z) (stt : bool) : sched :=
  {| ob := OOnline {| Online.k := KTwo P bs bst tj; Online.pcv := pc; Online.b := {| Online.n_ := n; Online.r_ := 0; Online.max_n_ := mx |};
                      Online.snaps := []; Online.exh := false |}; started := stt |}.
Definition xsweep (j : nat) (c : counters) : xstate :=
  {| fwd := Some (Z.min (Z.of_nat j * P) N); w_ics := None; w_deps := None; ram := []; disk := pst j; rr := 0; seen_endfwd := false;
     passes := 0; ram0 := []; disk0 := []; cnt := c |}.
Inductive Isw : nat -> sched -> mon -> Prop :=
 | Isw0 : Isw 0 (fsched PStart 0 None false) mon0
 | IswS j c cn : fwd_total c = Z.min (Z.of_nat (S j) * P) N ->
     Isw (S j) (fsched PFwd (Z.of_nat (S j) * P) None true) {| mx := xsweep (S j) c; merr_ := None; mcount := cn |}.

Lemma sweep_step j s m : Isw j s m -> Z.of_nat j < Q ->
  exists s' m' l, run_ops ptl s m [Next] = (s', m', [l]) /\ line_ok l /\ Isw (S j) s' m'.
Proof.
  intros HI Hj. pose proof Q_spec as [HQ1 HQ2].
  assert (HjN : Z.of_nat j * P < N) by nia.
  assert (Hgen : forall pc stt c cn, (pc = PStart \/ pc = PFwd) -> fwd_total c = Z.min (Z.of_nat j * P) N ->
     exists s' m' l, run_ops ptl (fsched pc (Z.of_nat j * P) None stt) {| mx := xsweep j c; merr_ := None; mcount := cn |} [Next] = (s', m', [l])
                     /\ line_ok l /\ Isw (S j) s' m').
  { intros pc stt c cn Hpc Hc. cbn [run_ops]. unfold Sched.next, fsched. cbn [ob]. unfold Online.next.
    set (a := Forward (Z.of_nat j * P) (Z.of_nat j * P + P) true false DISK).
    assert (Hres : Online.resume 4 {| Online.k := KTwo P bs bst tj; Online.pcv := pc; Online.b := {| Online.n_ := Z.of_nat j * P; Online.r_ := 0; Online.max_n_ := None |}; Online.snaps := []; Online.exh := false |}
              = ({| Online.k := KTwo P bs bst tj; Online.pcv := PFwd; Online.b := {| Online.n_ := Z.of_nat j * P + P; Online.r_ := 0; Online.max_n_ := None |}; Online.snaps := []; Online.exh := false |}, Yield a)).
    { destruct Hpc as [-> | ->]; reflexivity. }
    rewrite Hres. clear Hres.
    set (s' := {| ob := OOnline _; started := true |}).
    assert (HSj : Z.of_nat (S j) * P = Z.of_nat j * P + P) by lia.
    assert (Hmin : Z.min (Z.of_nat j * P) N = Z.of_nat j * P) by lia.
    assert (Hex : exec ptl (negb (isnone (get_max_n s'))) (is_exhausted s') (xsweep j c) a
                  = inl (xsweep (S j) (count_fwd (count_put c DISK (len (pst j) + 1)) (Z.min (Z.of_nat j * P + P) N - Z.of_nat j * P)))).
    { rewrite exec_ok.
      - unfold apply, a, xsweep. cbn [xN ptl]. cbn [st_eqb andb put is_cp set_work set_store set_cnt sel disk ram fwd w_ics w_deps rr seen_endfwd passes ram0 disk0 cnt pst].
        unfold pcp. rewrite HSj. reflexivity.
      - unfold check, a, xsweep. cbn [xN ptl keep_all_deps fwd rr]. change (get_max_n s') with (@None Z). cbn [isnone negb orb is_cp st_eqb andb].
        cbn [app can_put is_cp sel disk]. rewrite pst_lookup.
        assert (Hlk : (0 <=? Z.of_nat j * P) && (Z.of_nat j * P <? Z.of_nat j * P) && ((Z.of_nat j * P) mod P =? 0) = false).
        { destruct (Z.ltb_spec (Z.of_nat j * P) (Z.of_nat j * P)); [lia|]. rewrite andb_false_r. reflexivity. }
        rewrite Hlk. cbn [isnone budget ptl budget_disk within]. unfold fwd_is. cbn [fwd]. rewrite Hmin, pst_len.
        assert (Hnb : 0 <= (if st_eqb DISK bst then bs else 0)) by (destruct (st_eqb DISK bst); lia).
        repeat (rewrite first_err_ok; [|bool_true; try lia; auto]). reflexivity. }
    eexists s', _, _. split; [reflexivity|]. split; [exact Logic.I|].
    rewrite (mon_step_ok ptl s' a {| mx := xsweep j c; merr_ := None; mcount := cn |} _ eq_refl Hex).
    - subst s'. rewrite <- HSj. apply IswS. cbn [count_fwd fwd_total]. rewrite fwd_total_put, Hc, HSj. lia.
    - cbn [fwd xsweep]. change (get_max_n s') with (@None Z). cbn [isnone andb xN ptl]. subst s'. cbn [get_n ob Online.n_ Online.b].
      rewrite HSj. destruct (Z.eqb_spec (Z.min (Z.of_nat j * P + P) N) N); bool_true; lia.
    - reflexivity.
    - reflexivity. }
  inversion HI; subst.
  - assert (Hx0 : xsweep 0 c0 = x0) by (unfold xsweep, x0; cbn [Z.of_nat Z.mul pst]; rewrite Z.min_l by lia; reflexivity).
    pose proof (Hgen PStart false c0 0 ltac:(auto) ltac:(cbn; rewrite Z.min_l by lia; reflexivity)) as H.
    rewrite Hx0 in H. exact H.
  - apply (Hgen PFwd true c cn); [auto|assumption].
Qed.

Lemma sweep_phase : forall j, Z.of_nat j <= Q ->
  exists s m ls, run_ops ptl (fsched PStart 0 None false) mon0 (repeat Next j) = (s, m, ls) /\ Isw j s m /\ no_raise ls.
Proof.
  induction j as [|j IH]; intros Hj.
  - exists (fsched PStart 0 None false), mon0, []. repeat split; [constructor|constructor].
  - destruct (IH ltac:(lia)) as (s & m & ls & Hrun & HI & Hnr).
    destruct (sweep_step j s m HI ltac:(lia)) as (s' & m' & l & Hstep & Hl & HI').
    replace (S j) with (j + 1)%nat by lia. rewrite repeat_app. cbn [repeat].
    rewrite run_ops_app, Hrun, Hstep. eexists _, _, _. split; [reflexivity|]. split; [replace (j + 1)%nat with (S j) by lia; exact HI'|].
    apply Forall_app. split; [exact Hnr|]. constructor; [exact Hl|constructor].
Qed.

(* ---------- the canonical prefix: Q forward requests, finalize(N), the request that yields EndForward ---------- *)
Lemma canon_prefix : exists s1 m ls,
  run_ops ptl (fsched PStart 0 None false) mon0 (repeat Next (Z.to_nat Q) ++ [Fin N; Next]) = (s1, m, ls) /\
  s1 = tsched (ost PTOuter N 0 []) true /\ J s1 m /\ mon_ok m /\ no_raise ls.
Proof.
  pose proof Q_spec as [HQ1 HQ2].
  destruct (sweep_phase (Z.to_nat Q) ltac:(lia)) as (s & m & ls & Hrun & HI & Hnr).
  rewrite run_ops_app, Hrun.
  assert (HS : exists j, Z.to_nat Q = S j) by (exists (Nat.pred (Z.to_nat Q)); lia). destruct HS as [j Hj].
  rewrite Hj in HI. inversion HI as [|j0 c cn Hc0]; subst. clear HI.
  assert (HQj : Z.of_nat (S j) = Q) by lia. rewrite HQj in *.
  cbn [run_ops].
  assert (Hfin : finalize N (fsched PFwd (Q * P) None true) = (fsched PFwd N (Some N) true, None)).
  { unfold finalize, fsched. cbn [ob Online.b Online.k Online.pcv Online.snaps Online.exh started]. unfold Online.finalize.
    cbn [Online.max_n_ Online.n_ Online.r_]. destruct (Z.ltb_spec N 1); [lia|]. destruct (Z.geb_spec (Q * P) N); [|lia]. reflexivity. }
  rewrite Hfin.
  (* EndForward *)
  unfold Sched.next at 1. unfold fsched at 1. cbn [ob]. unfold Online.next.
  change (Online.resume 4 _) with
    ({| Online.k := KTwo P bs bst tj; Online.pcv := PTOuter; Online.b := {| Online.n_ := N; Online.r_ := 0; Online.max_n_ := Some N |}; Online.snaps := []; Online.exh := false |}, Yield EndForward).
  cbv beta iota zeta.
  set (s1 := {| ob := OOnline _; started := true |}).
  assert (Hmin : Z.min (Q * P) N = N) by lia.
  set (X1 := {| fwd := Some N; w_ics := None; w_deps := None; ram := []; disk := pst (S j); rr := 0; seen_endfwd := true;
                passes := 0; ram0 := []; disk0 := sort_keys (keys (pst (S j))); cnt := c |}).
  assert (Hex : exec ptl (negb (isnone (get_max_n s1))) (is_exhausted s1) (xsweep (S j) c) EndForward = inl X1).
  { rewrite exec_ok.
    - unfold apply, xsweep, X1. rewrite HQj, Hmin. reflexivity.
    - unfold check, xsweep. cbn [xN ptl seen_endfwd negb]. unfold fwd_is. cbn [fwd]. rewrite HQj, Hmin, Z.eqb_refl. reflexivity. }
  rewrite (mon_step_ok ptl s1 EndForward {| mx := xsweep (S j) c; merr_ := None; mcount := cn |} _ eq_refl Hex).
  2:{ cbn [fwd X1 get_max_n s1 ob Online.max_n_ Online.b isnone andb get_n Online.n_]. apply Z.eqb_refl. }
  2:{ reflexivity. }
  2:{ cbn [get_max_n s1 ob Online.max_n_ Online.b oz_ok xN ptl]. apply Z.eqb_refl. }
  (* the adjoint passes *)
  set (x1 := {| TLInv.fwd := Some N; TLInv.wics := None; TLInv.wdeps := None; TLInv.bin := []; TLInv.rr := 0; TLInv.done := N; TLInv.passes := 0 |}).
  assert (HJ : J s1 {| mx := X1; merr_ := None; mcount := cn + 1 |}).
  { subst s1. change (OOnline _) with (OOnline (ost PTOuter N 0 [])).
    apply (Jr PTOuter N 0 [] N x1 _ true); try reflexivity.
    - unfold TLInv.Inv, TLInv.InvCore, TLInv.norm, tst, x1. cbn [pcT TLInv.pcv TLInv.n_ TLInv.r_ TLInv.snaps TLInv.rr TLInv.bin TLInv.wics TLInv.wdeps TLInv.done].
      cbn zeta. repeat split; auto; lia.
    - unfold Rx, X1, x1. cbn [mx fwd w_ics w_deps rr seen_endfwd ram disk ram0 disk0 cnt TLInv.fwd TLInv.wics TLInv.wdeps TLInv.rr TLInv.bin TLInv.done].
      rewrite !binpart_nil, Hj. cbn [app]. repeat split; auto. rewrite Hc0, Hmin. reflexivity.
    - unfold NNx, x1. cbn [TLInv.fwd TLInv.wdeps TLInv.bin TLInv.rr TLInv.lookup]. repeat split; try discriminate; try lia.
      intros v Hv; injection Hv as <-; lia. }
  cbn [run_ops]. eexists _, _, _. split; [reflexivity|]. split; [reflexivity|]. split; [exact HJ|]. split; [reflexivity|].
  apply Forall_app. split; [exact Hnr|]. constructor; [exact Logic.I|]. constructor; [exact Logic.I|constructor].
Qed.

(* ---------- the whole client run: Q forward requests, finalize(N), then any number of requests (any number of passes) ---------- *)
Theorem twolevel_run : forall k,
  exists o0 m ls, run_case (PTwo P bs bst tj) ptl (repeat Next (Z.to_nat Q) ++ [Fin N] ++ repeat Next (S k)) = Ok (o0, m, ls)
                  /\ mon_ok m /\ no_raise ls.
Proof.
  intros k. unfold run_case, Sched.construct, Online.construct.
  destruct (Z.ltb_spec P 1); [lia|].
  assert (Hc : match bst with RAM | DISK => Ok (Online.mk (KTwo P bs bst tj) PStart 0 0 None [] false) | _ => Err ValueError end
               = Ok (Online.mk (KTwo P bs bst tj) PStart 0 0 None [] false)) by (destruct bst_cp as [-> | ->]; reflexivity).
  rewrite Hc. cbn [bind]. change {| ob := OOnline (Online.mk (KTwo P bs bst tj) PStart 0 0 None [] false); started := false |} with (fsched PStart 0 None false).
  destruct canon_prefix as (s1 & m1 & l1 & Hrun & _ & HJ & Hm1 & Hnr).
  replace (repeat Next (Z.to_nat Q) ++ [Fin N] ++ repeat Next (S k)) with ((repeat Next (Z.to_nat Q) ++ [Fin N; Next]) ++ repeat Next k) by (rewrite <- app_assoc; reflexivity).
  rewrite run_ops_app, Hrun.
  pose proof (run_nexts ptl J J_step k _ _ HJ Hm1) as Hr.
  destruct (run_ops ptl s1 m1 (repeat Next k)) as [[s2 m2] l2]. destruct Hr as (_ & Hm2 & Hl2).
  eexists _, _, _. split; [reflexivity|]. split; [exact Hm2|]. apply Forall_app. split; [exact Hnr|exact Hl2].
Qed.

(* ---------- C13, totals: forward steps per pass ---------- *)
Notation S1 := (bs + 1).
Notation Tc := (Inst.TC tj).
Notation blk := (TLInv.blk P).
Notation pendN := (TLInv.pend N P).
Fixpoint Wsum (fuel : nat) (h : Z) : Z :=
  match fuel with O => 0 | S f => if h <=? 0 then 0 else Tc (h - blk h) S1 + Wsum f (blk h) end.
Definition WS (h : Z) : Z := Wsum (Z.to_nat N) h.
Definition W : Z := WS N.                       (* the forward steps one adjoint pass spends: sum over the period blocks of T(L, b+1) *)

Lemma blk_lt h : 1 <= h -> 0 <= blk h < h.
Proof. intros Hh. unfold TLInv.blk. pose proof (Z.div_mod (h - 1) P ltac:(lia)). pose proof (Z.mod_pos_bound (h - 1) P ltac:(lia)).
  assert (0 <= (h - 1) / P) by (apply Z.div_pos; lia). nia. Qed.
Lemma Wsum_fuel : forall f f' h, (Z.to_nat h <= f)%nat -> (Z.to_nat h <= f')%nat -> Wsum f h = Wsum f' h.
Proof.
  induction f as [|f IH]; intros f' h Hf Hf'.
  - destruct f' as [|f']; [reflexivity|]. cbn [Wsum]. destruct (Z.leb_spec h 0); [reflexivity|lia].
  - destruct f' as [|f']; cbn [Wsum]; destruct (Z.leb_spec h 0); try reflexivity; try lia.
    pose proof (blk_lt h ltac:(lia)). rewrite (IH f' (blk h)) by lia. reflexivity.
Qed.
Lemma WS_0 : WS 0 = 0. Proof. unfold WS. destruct (Z.to_nat N); reflexivity. Qed.
Lemma WS_unfold h : 1 <= h <= N -> WS h = Tc (h - blk h) S1 + WS (blk h).
Proof.
  intros Hh. unfold WS. destruct (Z.to_nat N) as [|f] eqn:Ef; [lia|]. cbn [Wsum]. destruct (Z.leb_spec h 0); [lia|].
  pose proof (blk_lt h ltac:(lia)). rewrite (Wsum_fuel f (S f) (blk h)) by lia. reflexivity.
Qed.
Lemma blk_pend n0s : TLInv.is_period N P n0s -> blk (pendN n0s) = n0s /\ 1 <= pendN n0s <= N.
Proof.
  intros [Hn Hm]. unfold TLInv.blk, TLInv.pend.
  assert (Hq : n0s = P * (n0s / P)) by (apply Z_div_exact_full_2; lia).
  set (e := Z.min (n0s + P) N). assert (He : n0s + 1 <= e <= n0s + P /\ e <= N) by (unfold e; lia). split; [|lia].
  rewrite <- (Z.div_unique (e - 1) P (n0s / P) (e - 1 - n0s)); [lia|lia|lia].
Qed.

Definition Acct (d0 : Z) (t : TLInv.st) (x : TLInv.xst) : Prop :=
  d0 = N + TLInv.passes x * W + (W - WS (match TLInv.pcb (TLInv.pcv t) with Some n0s => pendN n0s | None => N - TLInv.r_ t end)).

Lemma acct_step d0 t x t' a x' : TLInv.Inv Tc N P bs d0 t x -> Acct d0 t x -> tres 4 t = (t', TLInv.Act a) -> TLInv.exec N P bs bst x a = Some x' ->
  Acct (d0 + TLInv.bonus Tc N P bs t) t' x'.
Proof.
  intros HI HA Hres Hex. pose proof (TLInv.resume_pcb adv (Inst.advC_range tj) (Inst.advC_one tj) Tc (Inst.TC_1 tj) (Inst.TC_rec tj) N P bs bst HN HP 4 t t' a Hres) as [Hpcb Her].
  pose proof (TLInv.exec_passes adv (Inst.advC_range tj) (Inst.advC_one tj) Tc (Inst.TC_1 tj) (Inst.TC_rec tj) N P bs bst HN HP x a x' Hex) as Hpass.
  unfold Acct in *. unfold TLInv.bonus, TLInv.S_. unfold TLInv.Inv, TLInv.InvCore, TLInv.norm in HI.
  destruct (TLInv.pcv t) as [|n0s|n0s|n0s|n0s p0|n0s|n0s] eqn:Epc; cbn [TLInv.pcb] in *.
  - (* between blocks *)
    destruct HI as (_ & Hr & HI). cbn zeta in HI. rewrite Epc in HI. destruct HI as (_ & _ & _ & Hbd & _).
    destruct (Z.ltb_spec (TLInv.r_ t) N) as [Hlt|Hge].
    + rewrite Hpcb. assert (Ha : a <> EndReverse) by (intros ->; specialize (Her eq_refl); lia).
      destruct (TLInv.block_start adv (Inst.advC_range tj) (Inst.advC_one tj) Tc (Inst.TC_1 tj) (Inst.TC_rec tj) N P bs HN HP (N - TLInv.r_ t) ltac:(lia) Hbd) as (_ & _ & Hpe). fold (TLInv.blk P (N - TLInv.r_ t)) in Hpe. rewrite Hpe.
      destruct a; try congruence; lia.
    + destruct Hpcb as (Ep' & -> & Hr0). rewrite Ep'. cbn [TLInv.pcb]. rewrite Hr0, Hpass.
      replace (N - TLInv.r_ t) with 0 in HA by lia. rewrite WS_0 in HA. replace (N - 0) with N by lia. fold W. lia.
  - (* PTBlock *)
    destruct HI as (_ & Hr & HI). cbn zeta in HI. rewrite Epc in HI. destruct HI as ((Hper & _ & _) & _ & _ & _ & Hn0 & _).
    destruct (blk_pend n0s Hper) as [Hbp Hpn].
    destruct (Z.ltb_spec (TLInv.r_ t) (N - n0s)) as [Hlt|Hge].
    + rewrite Hpcb. assert (Ha : a <> EndReverse) by (intros ->; specialize (Her eq_refl); destruct Hper; lia).
      destruct a; try congruence; lia.
    + assert (Hreq : TLInv.r_ t = N - n0s) by lia. rewrite (WS_unfold (pendN n0s) Hpn), Hbp in HA.
      destruct (Z.ltb_spec (TLInv.r_ t) N) as [Hlt|HgeN].
      * rewrite Hpcb. assert (Ha : a <> EndReverse) by (intros ->; specialize (Her eq_refl); lia).
        destruct Hper as [Hp0 Hpm].
        destruct (TLInv.block_start adv (Inst.advC_range tj) (Inst.advC_one tj) Tc (Inst.TC_1 tj) (Inst.TC_rec tj) N P bs HN HP (N - TLInv.r_ t) ltac:(lia) ltac:(right; rewrite Hreq; replace (N - (N - n0s)) with n0s by lia; exact Hpm)) as (_ & _ & Hpe).
        fold (TLInv.blk P (N - TLInv.r_ t)) in Hpe. rewrite Hpe. replace (N - TLInv.r_ t) with n0s by lia.
        destruct a; try congruence; lia.
      * destruct Hpcb as (Ep' & -> & Hr0). rewrite Ep'. cbn [TLInv.pcb]. rewrite Hr0, Hpass. assert (n0s = 0) by lia. subst n0s.
        rewrite WS_0 in HA. replace (N - 0) with N by lia. fold W. lia.
  - rewrite Hpcb. assert (Ha : a <> EndReverse) by (intros ->; specialize (Her eq_refl); destruct HI as (_ & Hr & HI); cbn zeta in HI; rewrite Epc in HI; destruct HI as ((Hper & _ & Hpe) & _ & _ & _ & _ & Hn & _); destruct Hper; lia).
    destruct a; try congruence; lia.
  - rewrite Hpcb. assert (Ha : a <> EndReverse) by (intros ->; specialize (Her eq_refl); destruct HI as (_ & Hr & HI); cbn zeta in HI; rewrite Epc in HI; destruct HI as ((Hper & _ & Hpe) & _ & _ & _ & Hn & _); destruct Hper; lia).
    destruct a; try congruence; lia.
  - rewrite Hpcb. assert (Ha : a <> EndReverse) by (intros ->; specialize (Her eq_refl); try rewrite Epc in HI; destruct HI as (_ & Hr & HI); cbn zeta in HI; cbn [TLInv.pcv TLInv.mk TLInv.n_ TLInv.r_] in HI; destruct HI as ((Hper & _ & Hpe) & _ & _ & _ & Hn & _); destruct Hper; cbn [TLInv.n_ TLInv.r_ TLInv.mk] in *; lia).
    destruct a; try congruence; lia.
  - rewrite Hpcb. assert (Ha : a <> EndReverse) by (intros ->; specialize (Her eq_refl); destruct HI as (_ & Hr & HI); cbn zeta in HI; rewrite Epc in HI; destruct HI as ((Hper & _ & Hpe) & _ & _ & Hn & Hn2 & _); destruct Hper; lia).
    destruct a; try congruence; lia.
  - rewrite Hpcb. assert (Ha : a <> EndReverse) by (intros ->; specialize (Her eq_refl); destruct HI as (_ & Hr & HI); cbn zeta in HI; rewrite Epc in HI; destruct HI as ((Hper & _ & Hpe) & _ & _ & Hn & Hn2 & _); destruct Hper; lia).
    destruct a; try congruence; lia.
Qed.

Lemma apply_passes p exh X a : passes (apply p exh X a) = passes X + (match a with EndReverse => 1 | _ => 0 end).
Proof.
  destruct a as [n0 n1 wi wa sg|n1 n0 cl|n src dst|n src dst| |]; cbn [apply]; try (cbn; lia).
  - unfold put. destruct (is_cp sg); cbn; lia.
  - destruct (lookup n (sel X src)); [|lia]. destruct dst; unfold put; cbn; try lia; destruct (is_cp _); cbn; lia.
  - destruct (lookup n (sel X src)); [|lia]. destruct dst; unfold put; cbn; try lia; destruct (is_cp _); cbn; lia.
Qed.

Inductive J2 : sched -> mon -> Prop :=
 | J2r q n r sn d0 x m stt : is_pt q = true -> mon_ok m -> TLInv.Inv (Inst.TC tj) N P bs d0 (tst q n r sn) x -> Rx x (mx m) -> NNx x ->
     TLInv.fwd x = Some n -> Acct d0 (tst q n r sn) x -> passes (mx m) = TLInv.passes x -> J2 (tsched (ost q n r sn) stt) m.

Lemma J2_step sch m : J2 sch m -> mon_ok m -> good_step ptl J2 sch m.
Proof.
  intros HJ _. unfold good_step. inversion HJ as [q n r sn d0 x m0 stt Hq Hm HI HR HNN Hfw HA HP2]; subst; clear HJ.
  pose proof (TLInv.step_okD (Inst.advC tj) (Inst.advC_range tj) (Inst.advC_one tj) (Inst.TC tj) (Inst.TC_1 tj) (Inst.TC_rec tj)
               N P bs bst HN HP Hbs bst_cp d0 (tst q n r sn) x 0%nat HI) as Hgood.
  unfold TLInv.GoodD in Hgood.
  destruct (TLInv.resume (Inst.advC tj) N P bs bst 4 (tst q n r sn)) as [t' o] eqn:Eres.
  destruct o as [a| |]; try contradiction. destruct Hgood as (x' & Hex & HI').
  pose proof (acct_step d0 _ x t' a x' HI HA Eres Hex) as HA'.
  destruct (resume_agrees 4 q n r sn t' a Hq ltac:(destruct q; cbn; lia) (fun n0s => Inv_aftercopy d0 q n r sn x n0s HI) Eres)
    as (q' & n' & r' & sn' & Hon & -> & Hq' & Hn' & Hr' & Hcl).
  unfold Sched.next, tsched. cbn [ob]. unfold Online.next. rewrite Hon.
  set (sch' := {| ob := OOnline (ost q' n' r' sn'); started := true |}).
  destruct (tl_exec_agrees x (mx m) a x' HR HNN Hcl Hex) as (Hchk & HR' & HNN').
  assert (Hexec : exec ptl (negb (isnone (get_max_n sch'))) (is_exhausted sch') (mx m) a = inl (apply ptl false (mx m) a))
    by (apply exec_ok; exact Hchk).
  pose proof (texec_fwd_after x a x' n Hex Hfw) as Hfw'. rewrite <- Hn' in Hfw'.
  pose proof (Inv_rr _ _ _ HI') as Hrr'. cbn [tst TLInv.r_] in Hrr'.
  pose proof HR' as (Rf & _ & _ & Rrr & _).
  pose proof (TLInv.exec_passes adv (Inst.advC_range tj) (Inst.advC_one tj) Tc (Inst.TC_1 tj) (Inst.TC_rec tj) N P bs bst HN HP x a x' Hex) as Hpass.
  destruct m as [X merr cnt0]. unfold mon_ok in Hm. cbn [merr_] in Hm. subst merr.
  rewrite (mon_step_ok ptl sch' a {| mx := X; merr_ := None; mcount := cnt0 |} _ eq_refl Hexec).
  - split; [reflexivity|]. apply (J2r q' n' r' sn' (d0 + TLInv.bonus Tc N P bs (tst q n r sn)) x'); auto; try reflexivity.
    cbn [mx] in *. rewrite apply_passes, Hpass, HP2. reflexivity.
  - cbn [mx] in Rf |- *. rewrite Rf, Hfw'. cbn [get_max_n sch' ob ost Online.max_n_ Online.b isnone andb get_n Online.n_]. apply Z.eqb_refl.
  - cbn [get_r sch' ob ost Online.r_ Online.b]. cbn [mx] in Rrr |- *. rewrite Rrr. symmetry. exact Hrr'.
  - cbn [get_max_n sch' ob ost Online.max_n_ Online.b oz_ok xN ptl]. apply Z.eqb_refl.
Qed.

(* between passes (the generator at the head of its `while True`, which it reaches only after EndForward / EndReverse) the
   reference executor has carried out N + passes * W forward steps: every adjoint pass costs exactly the sum of the per-block
   binomial optima *)
Theorem twolevel_totals : forall k,
  let '(s2, m, ls) := run_ops ptl (fsched PStart 0 None false) mon0 (repeat Next (Z.to_nat Q) ++ [Fin N] ++ repeat Next (S k)) in
  mon_ok m /\ no_raise ls /\
  (forall o, ob s2 = OOnline o -> Online.pcv o = PTOuter ->
     fwd_total (cnt (mx m)) = N + passes (mx m) * W + (W - WS (N - Online.r_ (Online.b o)))).
Proof.
  intros k. pose proof Q_spec as [HQ1 HQ2].
  destruct (sweep_phase (Z.to_nat Q) ltac:(lia)) as (s & m & ls & Hrun & HI & Hnr).
  rewrite run_ops_app, Hrun.
  assert (HS : exists j, Z.to_nat Q = S j) by (exists (Nat.pred (Z.to_nat Q)); lia). destruct HS as [j Hj].
  rewrite Hj in HI. inversion HI as [|j0 c cn Hc0]; subst. clear HI.
  assert (HQj : Z.of_nat (S j) = Q) by lia. rewrite HQj in *.
  change ([Fin N] ++ repeat Next (S k)) with (Fin N :: Next :: repeat Next k). cbn [run_ops].
  assert (Hfin : finalize N (fsched PFwd (Q * P) None true) = (fsched PFwd N (Some N) true, None)).
  { unfold finalize, fsched. cbn [ob Online.b Online.k Online.pcv Online.snaps Online.exh started]. unfold Online.finalize.
    cbn [Online.max_n_ Online.n_ Online.r_]. destruct (Z.ltb_spec N 1); [lia|]. destruct (Z.geb_spec (Q * P) N); [|lia]. reflexivity. }
  rewrite Hfin.
  (* EndForward *)
  unfold Sched.next at 1. unfold fsched at 1. cbn [ob]. unfold Online.next.
  change (Online.resume 4 _) with
    ({| Online.k := KTwo P bs bst tj; Online.pcv := PTOuter; Online.b := {| Online.n_ := N; Online.r_ := 0; Online.max_n_ := Some N |}; Online.snaps := []; Online.exh := false |}, Yield EndForward).
  cbv beta iota zeta.
  set (s1 := {| ob := OOnline _; started := true |}).
  assert (Hmin : Z.min (Q * P) N = N) by lia.
  set (X1 := {| fwd := Some N; w_ics := None; w_deps := None; ram := []; disk := pst (S j); rr := 0; seen_endfwd := true;
                passes := 0; ram0 := []; disk0 := sort_keys (keys (pst (S j))); cnt := c |}).
  assert (Hex : exec ptl (negb (isnone (get_max_n s1))) (is_exhausted s1) (xsweep (S j) c) EndForward = inl X1).
  { rewrite exec_ok.
    - unfold apply, xsweep, X1. rewrite HQj, Hmin. reflexivity.
    - unfold check, xsweep. cbn [xN ptl seen_endfwd negb]. unfold fwd_is. cbn [fwd]. rewrite HQj, Hmin, Z.eqb_refl. reflexivity. }
  rewrite (mon_step_ok ptl s1 EndForward {| mx := xsweep (S j) c; merr_ := None; mcount := cn |} _ eq_refl Hex).
  2:{ cbn [fwd X1 get_max_n s1 ob Online.max_n_ Online.b isnone andb get_n Online.n_]. apply Z.eqb_refl. }
  2:{ reflexivity. }
  2:{ cbn [get_max_n s1 ob Online.max_n_ Online.b oz_ok xN ptl]. apply Z.eqb_refl. }
  (* the adjoint passes *)
  set (x1 := {| TLInv.fwd := Some N; TLInv.wics := None; TLInv.wdeps := None; TLInv.bin := []; TLInv.rr := 0; TLInv.done := N; TLInv.passes := 0 |}).
  assert (HJ : J2 s1 {| mx := X1; merr_ := None; mcount := cn + 1 |}).
  { subst s1. change (OOnline _) with (OOnline (ost PTOuter N 0 [])).
    apply (J2r PTOuter N 0 [] N x1 _ true); try reflexivity.
    - unfold TLInv.Inv, TLInv.InvCore, TLInv.norm, tst, x1. cbn [pcT TLInv.pcv TLInv.n_ TLInv.r_ TLInv.snaps TLInv.rr TLInv.bin TLInv.wics TLInv.wdeps TLInv.done].
      cbn zeta. repeat split; auto; lia.
    - unfold Rx, X1, x1. cbn [mx fwd w_ics w_deps rr seen_endfwd ram disk ram0 disk0 cnt TLInv.fwd TLInv.wics TLInv.wdeps TLInv.rr TLInv.bin TLInv.done].
      rewrite !binpart_nil, Hj. cbn [app]. repeat split; auto. rewrite Hc0, Hmin. reflexivity.
    - unfold NNx, x1. cbn [TLInv.fwd TLInv.wdeps TLInv.bin TLInv.rr TLInv.lookup]. repeat split; try discriminate; try lia.
      intros v Hv; injection Hv as <-; lia.
    - unfold Acct, tst, x1. cbn [TLInv.pcv pcT TLInv.pcb TLInv.r_ TLInv.passes]. replace (N - 0) with N by lia. fold W. lia. }
  pose proof (run_nexts ptl J2 J2_step k _ _ HJ eq_refl) as Hr.
  destruct (run_ops ptl s1 _ (repeat Next k)) as [[s2 m2] l2]. destruct Hr as (HJ2 & Hm2 & Hl2).
  split; [exact Hm2|]. split.
  - apply Forall_app. split; [exact Hnr|]. constructor; [exact Logic.I|]. constructor; [exact Logic.I|exact Hl2].
  - intros o Ho Hpc. inversion HJ2 as [q n r sn d0 x m0 stt Hq Hm HI HR HNN Hfw HA HP2]; subst.
    unfold tsched in Ho. cbn [ob] in Ho. injection Ho as <-. cbn [ost Online.pcv Online.b Online.r_] in *. subst q.
    unfold Acct, tst in HA. cbn [TLInv.pcv pcT TLInv.pcb TLInv.r_] in HA.
    unfold TLInv.Inv, TLInv.InvCore, TLInv.norm, tst in HI. cbn [pcT TLInv.pcv TLInv.n_ TLInv.r_ TLInv.snaps] in HI.
    destruct HI as (_ & _ & HI). cbn zeta in HI. destruct HI as (_ & _ & _ & _ & Hd).
    destruct HR as (_ & _ & _ & _ & _ & _ & _ & _ & _ & Rtot). rewrite Rtot, Hd, HA, HP2. reflexivity.
Qed.
End MACH.
Print Assumptions twolevel_run.
Print Assumptions twolevel_totals.
