From Coq Require Import ZArith List Lia Bool.
Require Import Actions.
Import ListNotations.
Open Scope Z_scope.

Inductive out := Act (a : action) | Stop | Raise.

Section MS.
Variable adv : Z -> Z -> Z.               (* n_advance, already unwrapped *)
Hypothesis adv_range : forall m k, 2 <= m -> 1 <= k -> 1 <= adv m k <= m - 1.
Hypothesis adv_one : forall m, 2 <= m -> adv m 1 = m - 1.
Variable T : Z -> Z -> Z.               (* forward work of the recursion *)
Hypothesis T_1 : forall k, T 1 k = 1.
Hypothesis T_rec : forall m k, 2 <= m -> 1 <= k -> T m k = adv m k + T (m - adv m k) (k - 1) + T (adv m k) k.
Variable N : Z.  Variable S_ : Z.         (* max_n, total units *)
Hypothesis HN : 1 <= N.
Hypothesis HS : 2 <= N -> 1 <= S_.
Hypothesis HS0 : 0 <= S_.
Variable label : nat -> storage.
Hypothesis label_cp : forall d, label d = RAM \/ label d = DISK.

Inductive pc := PFwdLoop | PFwdLast | PEndFwd | PRevHead | PAfterCopy | PInner | PAdj | PRevAct | PDone.
Record st := { pcv : pc; n_ : Z; r_ : Z; snaps : list Z }.
Definition len (l : list Z) := Z.of_nat (length l).
Definition free (s : st) := S_ - len (snaps s).
Definition mk p n r sn := {| pcv := p; n_ := n; r_ := r; snaps := sn |}.

(* one resumption; n_advance's ValueError is rendered as Raise when k < 1 *)
Definition resume (s : st) : st * out :=
  match pcv s with
  | PFwdLoop =>
    if n_ s <? N - 1 then
      if free s <? 1 then (s, Raise) else
      let a := adv (N - n_ s) (free s) in
      (mk PFwdLoop (n_ s + a) (r_ s) (n_ s :: snaps s), Act (Forward (n_ s) (n_ s + a) true false (label (length (snaps s)))))
    else if negb (n_ s =? N - 1) then (s, Raise)
    else (mk PFwdLast (n_ s + 1) (r_ s) (snaps s), Act (Forward (n_ s) (n_ s + 1) false true WORK))
  | PFwdLast => (mk PEndFwd (n_ s) (r_ s) (snaps s), Act EndForward)
  | PEndFwd => (mk PRevHead (n_ s) (r_ s + 1) (snaps s), Act (Reverse (n_ s) (n_ s - 1) true))
  | PRevHead =>
    if r_ s <? N then
      match snaps s with
      | [] => (s, Raise)
      | cp :: rest =>
        if cp =? N - r_ s - 1 then (mk PAdj cp (r_ s) rest, Act (Move cp (label (length rest)) WORK))
        else (mk PAfterCopy cp (r_ s) (snaps s), Act (Copy cp (label (length rest)) WORK))
      end
    else if negb (r_ s =? N) then (s, Raise)
    else match snaps s with [] => (mk PDone (n_ s) (r_ s) [], Act EndReverse) | _ => (s, Raise) end
  | PAfterCopy =>
    if free s + 1 <? 1 then (s, Raise) else
    let a := adv (N - r_ s - n_ s) (free s + 1) in
    (mk PInner (n_ s + a) (r_ s) (snaps s), Act (Forward (n_ s) (n_ s + a) false false WORK))
  | PInner =>
    if n_ s <? N - r_ s - 1 then
      if free s <? 1 then (s, Raise) else
      let a := adv (N - r_ s - n_ s) (free s) in
      (mk PInner (n_ s + a) (r_ s) (n_ s :: snaps s), Act (Forward (n_ s) (n_ s + a) true false (label (length (snaps s)))))
    else if negb (n_ s =? N - r_ s - 1) then (s, Raise)
    else (mk PRevAct (n_ s + 1) (r_ s) (snaps s), Act (Forward (n_ s) (n_ s + 1) false true WORK))
  | PAdj => (mk PRevAct (n_ s + 1) (r_ s) (snaps s), Act (Forward (n_ s) (n_ s + 1) false true WORK))
  | PRevAct => (mk PRevHead (n_ s) (r_ s + 1) (snaps s), Act (Reverse (n_ s) (n_ s - 1) true))
  | PDone => (s, Stop)
  end.

(* ---- reference executor (subset of Exec.v relevant here) ---- *)
Record xst := { fwd : option Z; wics : option (Z*Z); wdeps : option (Z*Z);
                store : list (Z * (storage * (Z*Z)));  (* key, storage, ics range *)
                rr : Z; endfwd : bool; done : Z }.
Fixpoint lookup (k : Z) (l : list (Z * (storage * (Z*Z)))) :=
  match l with [] => None | (k', v) :: r => if k =? k' then Some v else lookup k r end.
Fixpoint remove (k : Z) (l : list (Z * (storage * (Z*Z)))) :=
  match l with [] => [] | (k', v) :: r => if k =? k' then r else (k', v) :: remove k r end.
Definition st_eqb (a b : storage) := match a, b with RAM,RAM | DISK,DISK | WORK,WORK | NONE,NONE => true | _,_ => false end.
Definition covers (o : option (Z*Z)) (a b : Z) := match o with Some (x, y) => (x <=? a) && (b <=? y) | None => false end.
Definition is_cp (s : storage) := match s with RAM | DISK => true | _ => false end.
Definition isnone {A} (o : option A) := match o with None => true | _ => false end.

Definition exec (x : xst) (a : action) : option xst :=
  match a with
  | Forward n0 n1 wi wa stg =>
    match fwd x with Some f =>
      if negb ((f =? n0) && (n0 <? n1) && (n1 <=? N - rr x)) then None else
      if is_cp stg then
        if negb (isnone (lookup n0 (store x))) || (wi && wa) || negb (wi || wa) then None else
        Some {| fwd := Some n1; wics := None; wdeps := None; store := (n0, (stg, (n0, n1))) :: store x; rr := rr x; endfwd := endfwd x; done := done x + (n1 - n0) |}
      else match stg with
      | WORK =>
        if wa && negb ((n1 =? n0 + 1) && (n1 =? N - rr x)) then None else
        Some {| fwd := Some n1; wics := if wi then Some (n0,n1) else None; wdeps := if wa then Some (n0,n1) else None;
                store := store x; rr := rr x; endfwd := endfwd x; done := done x + (n1 - n0) |}
      | _ => None
      end
    | None => None end
  | Reverse n1 n0 _ =>
    if negb (endfwd x && (n1 =? N - rr x) && (n0 <? n1) && covers (wdeps x) n0 n1) then None else
    Some {| fwd := fwd x; wics := wics x; wdeps := None; store := store x; rr := rr x + (n1 - n0); endfwd := true; done := done x |}
  | Copy n from WORK | Move n from WORK =>
    if negb (endfwd x && isnone (wics x) && isnone (wdeps x)) then None else
    match lookup n (store x) with
    | Some (stg, (a0, b0)) =>
      if negb (st_eqb stg from && (a0 =? n) && (n <? N - rr x) && (N - rr x <=? b0)) then None else
      Some {| fwd := Some n; wics := Some (a0, b0); wdeps := None;
              store := match a with Move _ _ _ => remove n (store x) | _ => store x end; rr := rr x; endfwd := true; done := done x |}
    | None => None end
  | Copy _ _ _ | Move _ _ _ => None
  | EndForward => if negb (negb (endfwd x) && match fwd x with Some f => f =? N | None => false end) then None else
      Some {| fwd := fwd x; wics := wics x; wdeps := wdeps x; store := store x; rr := rr x; endfwd := true; done := done x |}
  | EndReverse => if negb (endfwd x && (rr x =? N) && match store x with [] => true | _ => false end) then None else Some x
  end.

(* ---- the invariant ---- *)
(* the store mirrors the stack: same order, key p, range starts at p, label by depth,
   and ends chain: the entry above starts no later than this entry's end *)
Fixpoint mirror (sn : list Z) (stv : list (Z * (storage * (Z*Z)))) (above : Z) : Prop :=
  match sn, stv with
  | [], [] => True
  | p :: sn', (k, (lb, (a, e))) :: st' =>
      k = p /\ a = p /\ lb = label (length sn') /\ 0 <= p /\ p < above /\ above <= e /\ mirror sn' st' p
  | _, _ => False
  end.
(* mirror sn store lim:  top < lim <= e_top  *)
Definition bottom0 (sn : list Z) (h : Z) := 1 <= h -> sn <> [] /\ last sn 0 = 0.

Fixpoint segs (sn : list Z) (next : Z) : Z :=
  match sn with [] => 0 | p :: rest => T (next - p) (S_ - len rest) + segs rest p end.
Definition Phi (s : st) : Z :=
  match pcv s with
  | PFwdLoop => T (N - n_ s) (free s) + segs (snaps s) (n_ s)
  | PFwdLast | PEndFwd => segs (snaps s) (N - 1)
  | PRevHead | PAfterCopy => segs (snaps s) (N - r_ s)
  | PInner => T (N - r_ s - n_ s) (free s) + segs (snaps s) (n_ s)
  | PAdj => 1 + segs (snaps s) (n_ s)
  | PRevAct => segs (snaps s) (n_ s - 1)
  | PDone => 0
  end.

Definition Inv (s : st) (x : xst) : Prop :=
  done x + Phi s = T N S_ /\
  rr x = r_ s /\ len (snaps s) <= S_ /\ 0 <= r_ s <= N /\
  match pcv s with
  | PFwdLoop => r_ s = 0 /\ endfwd x = false /\ fwd x = Some (n_ s) /\ wics x = None /\ wdeps x = None
                /\ 0 <= n_ s <= N - 1 /\ (n_ s < N - 1 -> 1 <= free s)
                /\ (snaps s = [] -> n_ s = 0) /\ (snaps s <> [] -> last (snaps s) 0 = 0)
                /\ (snaps s = [] /\ store x = [] \/ snaps s <> [] /\ mirror (snaps s) (store x) (n_ s)
                    /\ exists p kv r1 r2, snaps s = p :: r1 /\ store x = (kv) :: r2 /\ snd (snd (snd kv)) = n_ s)
  | PFwdLast | PEndFwd => r_ s = 0 /\ n_ s = N /\ fwd x = Some N /\ wics x = None /\ wdeps x = Some (N-1, N)
                /\ endfwd x = (match pcv s with PEndFwd => true | _ => false end)
                /\ mirror (snaps s) (store x) (N-1) /\ bottom0 (snaps s) (N-1)
  | PRevHead => 1 <= r_ s /\ endfwd x = true /\ wics x = None /\ wdeps x = None
                /\ mirror (snaps s) (store x) (N - r_ s) /\ bottom0 (snaps s) (N - r_ s)
  | PAfterCopy => 1 <= r_ s /\ endfwd x = true /\ wdeps x = None /\ fwd x = Some (n_ s)
                /\ mirror (snaps s) (store x) (N - r_ s) /\ bottom0 (snaps s) (N - r_ s)
                /\ (exists r1, snaps s = n_ s :: r1) /\ n_ s < N - r_ s - 1
  | PInner => 1 <= r_ s /\ endfwd x = true /\ wics x = None /\ wdeps x = None /\ fwd x = Some (n_ s)
                /\ 0 <= n_ s <= N - r_ s - 1 /\ (n_ s < N - r_ s - 1 -> 1 <= free s)
                /\ mirror (snaps s) (store x) (n_ s) /\ bottom0 (snaps s) (N - r_ s) /\ snaps s <> []
  | PAdj => 1 <= r_ s /\ endfwd x = true /\ wdeps x = None /\ fwd x = Some (n_ s) /\ 0 <= n_ s /\ n_ s = N - r_ s - 1
                /\ mirror (snaps s) (store x) (n_ s) /\ bottom0 (snaps s) (n_ s)
  | PRevAct => 1 <= r_ s /\ endfwd x = true /\ wics x = None /\ wdeps x = Some (n_ s - 1, n_ s) /\ 1 <= n_ s /\ n_ s = N - r_ s
                /\ mirror (snaps s) (store x) (n_ s - 1) /\ bottom0 (snaps s) (n_ s - 1)
  | PDone => r_ s = N /\ snaps s = [] /\ store x = []
  end.

Lemma is_cp_label d : is_cp (label d) = true.
Proof. destruct (label_cp d) as [-> | ->]; reflexivity. Qed.
Lemma st_eqb_label d : st_eqb (label d) (label d) = true.
Proof. destruct (label_cp d) as [-> | ->]; reflexivity. Qed.

Ltac splits := repeat match goal with |- _ /\ _ => split end.
Ltac sim := cbn [pcv n_ r_ snaps mk fwd wics wdeps store rr endfwd done length].

Definition init_s := mk PFwdLoop 0 0 [].
Definition init_x := {| fwd := Some 0; wics := None; wdeps := None; store := []; rr := 0; endfwd := false; done := 0 |}.

Lemma inv_init : Inv init_s init_x.
Proof.
  unfold Inv, init_s, init_x, Phi, free, len; cbn. rewrite ?Z.sub_0_r. repeat split; try lia; auto; try congruence.
Qed.

Lemma mirror_weaken sn stv a b : mirror sn stv a -> (forall p, In p sn -> p < b) -> b <= a -> sn <> [] -> mirror sn stv b.
Proof.
  destruct sn as [|p sn]; [intros; congruence|]. destruct stv as [|[k [lb [a0 e]]] stv]; cbn; [tauto|].
  intros (?&?&?&?&?&?&?) Hlt ? _. specialize (Hlt p (or_introl eq_refl)). repeat split; auto; lia.
Qed.
Lemma mirror_lt sn stv a : mirror sn stv a -> forall p, In p sn -> 0 <= p < a.
Proof.
  revert stv a; induction sn as [|q sn IH]; intros stv a H p Hp; [destruct Hp|].
  destruct stv as [|[k [lb [a0 e]]] stv]; cbn in H; [tauto|]. destruct H as (?&?&?&?&?&?&Hm).
  destruct Hp as [->|Hp]; [lia|]. specialize (IH _ _ Hm p Hp). lia.
Qed.
Lemma mirror_len sn stv a : mirror sn stv a -> length sn = length stv.
Proof.
  revert stv a; induction sn as [|q sn IH]; intros [|[k [lb [a0 e]]] stv] a H; cbn in *; try tauto.
  destruct H as (?&?&?&?&?&?&Hm). f_equal; eauto.
Qed.
Lemma mirror_lookup_none sn stv a n : mirror sn stv a -> a <= n -> lookup n stv = None.
Proof.
  revert stv a; induction sn as [|q sn IH]; intros [|[k [lb [a0 e]]] stv] a H Hn; cbn in *; try tauto.
  destruct H as (->&?&?&?&?&?&Hm). destruct (Z.eqb_spec n q); [lia|]. eapply IH; eauto; lia.
Qed.


Ltac phi := unfold Phi; sim; cbn [segs]; unfold free, len in *; sim; cbn [length segs] in *; unfold len in *; rewrite ?T_1 in *; try lia.
Ltac bdestr :=
  repeat match goal with
  | |- context [?a =? ?b] => destruct (Z.eqb_spec a b); try lia
  | |- context [?a <? ?b] => destruct (Z.ltb_spec a b); try lia
  | |- context [?a <=? ?b] => destruct (Z.leb_spec a b); try lia
  end.
Ltac red_exec := cbv beta iota; cbn [isnone andb negb orb lookup remove covers is_cp fst snd].
Ltac fin_exec := red_exec; rewrite ?is_cp_label, ?st_eqb_label; red_exec; bdestr; red_exec; rewrite ?is_cp_label, ?st_eqb_label; red_exec; try reflexivity.

(* THE preservation theorem: a resumption never raises, the executor accepts the action, Inv is kept *)
Theorem step_ok s x : Inv s x ->
  match resume s with
  | (s', Act a) => exists x', exec x a = Some x' /\ Inv s' x'
  | (s', Stop) => pcv s = PDone
  | (_, Raise) => False
  end.
Proof.
  intros (HPhi & Hrr & Hlen & Hr & Hpc). unfold resume. unfold Phi in HPhi.
  destruct (pcv s) eqn:Epc.
  - (* PFwdLoop *)
    destruct Hpc as (Hr0 & Hef & Hf & Hwi & Hwd & Hn & Hfree & He0 & Hl0 & Hst).
    destruct (Z.ltb_spec (n_ s) (N-1)) as [Hlt|Hge].
    + specialize (Hfree Hlt). destruct (Z.ltb_spec (free s) 1); [lia|].
      pose proof (adv_range (N - n_ s) (free s) ltac:(lia) ltac:(lia)) as Ha.
      set (a := adv (N - n_ s) (free s)) in *.
      assert (Hlk : lookup (n_ s) (store x) = None).
      { destruct Hst as [[_ ->]|(Hne & Hm & _)]; [reflexivity|]. eapply mirror_lookup_none; eauto; lia. }
      eexists. split.
      * cbn [exec]. rewrite Hf, Hrr. red_exec. rewrite is_cp_label, Hlk. fin_exec.
      * unfold Inv; sim. split.
        { pose proof (T_rec (N - n_ s) (free s) ltac:(lia) ltac:(lia)) as HT. fold a in HT.
          unfold Phi; sim; cbn [segs]. unfold free, len in *; sim; cbn [length].
          replace (N - (n_ s + a)) with (N - n_ s - a) by lia.
          replace (S_ - Z.of_nat (S (length (snaps s)))) with (S_ - Z.of_nat (length (snaps s)) - 1) by lia.
          replace (n_ s + a - n_ s) with a by lia. lia. }
        unfold free, len in *; sim.
        splits; try lia; try congruence.
        -- intros Hlt'. destruct (Z.eq_dec (S_ - Z.of_nat (length (snaps s))) 1) as [E1|]; [|lia].
           unfold a in *. rewrite E1, adv_one in * by lia. lia.
        -- intros _. destruct (snaps s) as [|q sn] eqn:Es; [cbn; apply He0; reflexivity|].
           specialize (Hl0 ltac:(congruence)). cbn [last] in *. destruct sn; auto.
        -- right. split; [congruence|]. split.
           ++ cbn [mirror]. splits; try lia; try reflexivity.
              destruct Hst as [[-> ->]|(Hne & Hm & _)]; [exact I|]. exact Hm.
           ++ do 4 eexists. split; [reflexivity|]. split; [reflexivity|]. reflexivity.
    + destruct (Z.eqb_spec (n_ s) (N-1)) as [Heq|]; [|lia]. cbn [negb].
      eexists. split.
      * cbn [exec]. rewrite Hf, Hrr. fin_exec.
      * unfold Inv; sim. split.
        { replace (N - n_ s) with 1 in HPhi by lia. rewrite T_1 in HPhi. rewrite Heq in HPhi. phi. }
        splits; try lia; try congruence.
        -- f_equal; lia.
        -- f_equal. f_equal; lia.
        -- destruct Hst as [[-> ->]|(Hne & Hm & _)]; [exact I|]. now rewrite <- Heq.
        -- intros H1. destruct (snaps s) eqn:Es; [specialize (He0 eq_refl); lia|]. split; [congruence|apply Hl0; congruence].
  - (* PFwdLast *)
    destruct Hpc as (Hr0 & Hn & Hf & Hwi & Hwd & Hef & Hm & Hb).
    eexists. split.
    + cbn [exec]. rewrite Hef, Hf. fin_exec.
    + unfold Inv; sim. split; [phi|]. splits; auto; lia.
  - (* PEndFwd *)
    destruct Hpc as (Hr0 & Hn & Hf & Hwi & Hwd & Hef & Hm & Hb).
    eexists. split.
    + cbn [exec]. rewrite Hef, Hwd, Hrr. fin_exec.
    + unfold Inv; sim. split; [unfold Phi; sim; replace (N - (r_ s + 1)) with (N - 1) by lia; lia|]. splits; auto; try lia.
      * replace (N - (r_ s + 1)) with (N - 1) by lia. exact Hm.
      * replace (N - (r_ s + 1)) with (N - 1) by lia. exact Hb.
  - (* PRevHead *)
    destruct Hpc as (Hr1 & Hef & Hwi & Hwd & Hm & Hb).
    destruct (Z.ltb_spec (r_ s) N) as [Hlt|Hge].
    + destruct (Hb ltac:(lia)) as [Hne Hlast].
      destruct (snaps s) as [|cp rest] eqn:Es; [congruence|].
      destruct (store x) as [|[k [lb [a0 e]]] strest] eqn:Est; [cbn in Hm; tauto|].
      cbn [mirror] in Hm. destruct Hm as (-> & -> & -> & Hcp0 & Hcplt & Hcpe & Hm').
      destruct (Z.eqb_spec cp (N - r_ s - 1)) as [Heq|Hneq].
      * eexists. split.
        -- cbn [exec]. rewrite Hef, Hwi, Hwd, Est, Hrr. fin_exec.
        -- unfold Inv; sim. split.
           { cbn [segs] in HPhi. replace (N - r_ s - cp) with 1 in HPhi by lia. rewrite T_1 in HPhi. phi. }
           unfold len in *; cbn [length] in Hlen.
           splits; auto; try lia.
           ++ intros Hcp1. destruct rest as [|q rest']; [cbn in Hlast; lia|]. split; [congruence|]. exact Hlast.
      * eexists. split.
        -- cbn [exec]. rewrite Hef, Hwi, Hwd, Est, Hrr. fin_exec.
        -- unfold Inv; sim. split; [phi|]. splits; auto; try lia.
           ++ cbn [mirror]. splits; auto; lia.
           ++ eexists; reflexivity.
    + destruct (Z.eqb_spec (r_ s) N) as [Heq|]; [|lia]. cbn [negb].
      destruct (snaps s) as [|cp rest] eqn:Es.
      * destruct (store x) eqn:Est; [|cbn in Hm; tauto].
        eexists. split.
        -- cbn [exec]. rewrite Hef, Est, Hrr. fin_exec.
        -- unfold Inv; sim. split; [phi|]. splits; auto; lia.
      * exfalso. pose proof (mirror_lt _ _ _ Hm cp ltac:(now left)). lia.
  - (* PAfterCopy *)
    destruct Hpc as (Hr1 & Hef & Hwd & Hf & Hm & Hb & (r1 & Hsn) & Hlt).
    assert (Hfree : 0 <= free s) by (unfold free; lia).
    assert (Hn0 : 0 <= n_ s) by (pose proof (mirror_lt _ _ _ Hm (n_ s) ltac:(rewrite Hsn; now left)); lia).
    destruct (Z.ltb_spec (free s + 1) 1); [lia|].
    pose proof (adv_range (N - r_ s - n_ s) (free s + 1) ltac:(lia) ltac:(lia)) as Ha.
    set (a := adv (N - r_ s - n_ s) (free s + 1)) in *.
    eexists. split.
    + cbn [exec]. rewrite Hf, Hrr. fin_exec.
    + unfold Inv; sim. split.
      { pose proof (T_rec (N - r_ s - n_ s) (free s + 1) ltac:(lia) ltac:(lia)) as HT. fold a in HT.
        rewrite Hsn in HPhi. cbn [segs] in HPhi. unfold Phi; sim. rewrite Hsn. cbn [segs].
        unfold free, len in *; sim. rewrite Hsn in *. cbn [length] in *.
        replace (N - r_ s - (n_ s + a)) with (N - r_ s - n_ s - a) by lia.
        replace (n_ s + a - n_ s) with a by lia.
        replace (S_ - Z.of_nat (S (length r1)) + 1) with (S_ - Z.of_nat (length r1)) in HT by lia.
        replace (S_ - Z.of_nat (length r1) - 1) with (S_ - Z.of_nat (S (length r1))) in HT by lia.
        lia. }
      unfold free, len in *; sim. splits; auto; try lia.
      * intros Hlt'. destruct (Z.eq_dec (S_ - Z.of_nat (length (snaps s))) 0) as [E0|]; [|lia].
        unfold a in *. rewrite E0 in *. cbn [Z.add] in *. rewrite adv_one in * by lia. lia.
      * eapply mirror_weaken; eauto; [|lia|congruence].
        intros p Hp. rewrite Hsn in Hp, Hm. destruct Hp as [<-|Hp]; [lia|].
        destruct (store x) as [|[k [lb [a0 e]]] strest]; cbn in Hm; [tauto|].
        destruct Hm as (?&?&?&?&?&?&Hm'). pose proof (mirror_lt _ _ _ Hm' p Hp). lia.
      * congruence.
  - (* PInner *)
    destruct Hpc as (Hr1 & Hef & Hwi & Hwd & Hf & Hn & Hfree & Hm & Hb & Hne).
    destruct (Z.ltb_spec (n_ s) (N - r_ s - 1)) as [Hlt|Hge].
    + specialize (Hfree Hlt). destruct (Z.ltb_spec (free s) 1); [lia|].
      pose proof (adv_range (N - r_ s - n_ s) (free s) ltac:(lia) ltac:(lia)) as Ha.
      set (a := adv (N - r_ s - n_ s) (free s)) in *.
      eexists. split.
      * cbn [exec]. rewrite Hf, Hrr. red_exec.
        rewrite is_cp_label, (mirror_lookup_none _ _ _ (n_ s) Hm ltac:(lia)). fin_exec.
      * unfold Inv; sim. split.
        { pose proof (T_rec (N - r_ s - n_ s) (free s) ltac:(lia) ltac:(lia)) as HT. fold a in HT.
          unfold Phi; sim; cbn [segs]. unfold free, len in *; sim; cbn [length].
          replace (N - r_ s - (n_ s + a)) with (N - r_ s - n_ s - a) by lia.
          replace (S_ - Z.of_nat (S (length (snaps s)))) with (S_ - Z.of_nat (length (snaps s)) - 1) by lia.
          replace (n_ s + a - n_ s) with a by lia. lia. }
        unfold free, len in *; sim.
        splits; auto; try lia; try congruence.
        -- intros Hlt'. destruct (Z.eq_dec (S_ - Z.of_nat (length (snaps s))) 1) as [E1|]; [|lia].
           unfold a in *. rewrite E1, adv_one in * by lia. lia.
        -- cbn [mirror]. splits; auto; try lia.
        -- intros H1. destruct (Hb H1) as [Hne' Hl]. split; [congruence|].
           destruct (snaps s) as [|q sn] eqn:Es; [congruence|]. cbn [last] in *. destruct sn; auto.
    + destruct (Z.eqb_spec (n_ s) (N - r_ s - 1)) as [Heq|]; [|lia]. cbn [negb].
      eexists. split.
      * cbn [exec]. rewrite Hf, Hrr. fin_exec.
      * unfold Inv; sim. split.
        { replace (N - r_ s - n_ s) with 1 in HPhi by lia. rewrite T_1 in HPhi.
          unfold Phi; sim. replace (n_ s + 1 - 1) with (n_ s) by lia. lia. }
        splits; auto; try lia.
        -- f_equal. f_equal; lia.
        -- replace (n_ s + 1 - 1) with (n_ s) by lia. exact Hm.
        -- replace (n_ s + 1 - 1) with (n_ s) by lia. intros H1. apply Hb. lia.
  - (* PAdj *)
    destruct Hpc as (Hr1 & Hef & Hwd & Hf & Hn0 & Hn & Hm & Hb).
    eexists. split.
    + cbn [exec]. rewrite Hf, Hrr. fin_exec.
    + unfold Inv; sim. split; [unfold Phi; sim; replace (n_ s + 1 - 1) with (n_ s) by lia; lia|]. splits; auto; try lia.
      * f_equal. f_equal; lia.
      * replace (n_ s + 1 - 1) with (n_ s) by lia. exact Hm.
      * replace (n_ s + 1 - 1) with (n_ s) by lia. exact Hb.
  - (* PRevAct *)
    destruct Hpc as (Hr1 & Hef & Hwi & Hwd & Hn1 & Hn & Hm & Hb).
    eexists. split.
    + cbn [exec]. rewrite Hef, Hwd, Hrr. fin_exec.
    + unfold Inv; sim. split; [unfold Phi; sim; replace (N - (r_ s + 1)) with (n_ s - 1) by lia; lia|]. splits; auto; try lia.
      * replace (N - (r_ s + 1)) with (n_ s - 1) by lia. exact Hm.
      * replace (N - (r_ s + 1)) with (n_ s - 1) by lia. exact Hb.
  - reflexivity.
Qed.
Theorem done_total s x : Inv s x -> pcv s = PDone -> done x = T N S_.
Proof. intros (HPhi & _) Hpc. unfold Phi in HPhi. rewrite Hpc in HPhi. lia. Qed.
End MS.
Print Assumptions step_ok.
Print Assumptions done_total.
