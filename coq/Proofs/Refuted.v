(* The statements that are FALSE of the faithful model, with their witnesses (the known findings D8 of known_findings.json):
   each witness is evaluated inside Coq on the extracted model (vm_compute); replayed on the implementation it is the finding. *)
From Coq Require Import ZArith List Bool.
Require Import Actions Ops RevConv Exec Sched RunFacts Projections.
Import ListNotations.
Open Scope Z_scope.

Definition rev_params (N ram : Z) (disk : option Z) : xparams := {| xN := N; keep_all_deps := false; budget_ram := Some ram; budget_disk := disk |}.
(* the monitor's verdict on a complete case: the first error, if any *)
Definition first_err (r : res (obs * mon * list line)) : option merr :=
  match r with Ok (_, m, _) => match merr_ m with Some (e, _) => Some e | None => None end | Err _ => None end.
Definition completes (r : res (obs * mon * list line)) : bool :=
  match r with Ok (_, _, ls) => existsb (fun l => match l with LNext (Yield EndReverse) _ => true | _ => false end) ls | Err _ => false end.
Definition domain (N ram disk uf ub wd rd : Z) : Prop := 1 <= N /\ 1 <= ram /\ 0 <= disk /\ 0 < uf /\ 0 < ub /\ 0 <= wd /\ 0 <= rd.

(* C04 is false of HRevolve: HRevolve(4, 1, 1, uf=1, ub=1, wd=0, rd=1) runs to EndReverse with a checkpoint left on DISK *)
Theorem C04_hrevolve_refuted : exists N ram disk uf ub wd rd, domain N ram disk uf ub wd rd /\
  let r := run_case (PRev KHRevolve N ram disk uf ub wd rd) (rev_params N ram (Some disk)) [Run 1 1000] in
  first_err r = Some (MX E_leftover) /\ completes r = true.
Proof. exists 4, 1, 1, 1, 1, 0, 1. split; [unfold domain; repeat split; try reflexivity; discriminate|]. vm_compute. split; reflexivity. Qed.

(* ... of DiskRevolve (no disk budget is declared for it): DiskRevolve(4, 1, uf=1, ub=1, wd=0, rd=1) *)
Theorem C04_disk_revolve_refuted : exists N ram uf ub wd rd, domain N ram 0 uf ub wd rd /\
  let r := run_case (PRev KDiskRevolve N ram 0 uf ub wd rd) (rev_params N ram None) [Run 1 1000] in
  first_err r = Some (MX E_leftover) /\ completes r = true.
Proof. exists 4, 1, 1, 1, 0, 1. split; [unfold domain; repeat split; try reflexivity; discriminate|]. vm_compute. split; reflexivity. Qed.

(* ... and of PeriodicDiskRevolve *)
Theorem C04_periodic_refuted : exists N ram uf ub wd rd, domain N ram 0 uf ub wd rd /\
  let r := run_case (PRev KPeriodic N ram 0 uf ub wd rd) (rev_params N ram None) [Run 1 1000] in
  first_err r = Some (MX E_leftover) /\ completes r = true.
Proof. exists 4, 1, 1, 1, 0, 1. split; [unfold domain; repeat split; try reflexivity; discriminate|]. vm_compute. split; reflexivity. Qed.

(* C03 is false of HRevolve: HRevolve(11, 1, 2, uf=1, ub=1, wd=0, rd=1) holds three DISK checkpoints with two disk units *)
Theorem C03_hrevolve_refuted : exists N ram disk uf ub wd rd, domain N ram disk uf ub wd rd /\
  first_err (run_case (PRev KHRevolve N ram disk uf ub wd rd) (rev_params N ram (Some disk)) [Run 1 1000]) = Some (MX (E_budget DISK)).
Proof. exists 11, 1, 2, 1, 1, 0, 1. split; [unfold domain; repeat split; try reflexivity; discriminate|]. vm_compute. reflexivity. Qed.
Print Assumptions C04_hrevolve_refuted.
Print Assumptions C03_hrevolve_refuted.
