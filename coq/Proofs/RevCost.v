From Coq Require Import ZArith List Lia Bool.
Require Import RevBlk RevGen.
Import ListNotations.
Open Scope Z_scope.

(* forward steps asked for by an op list: the converter emits exactly one Forward n0 n1 per OF n0 n1 *)
Fixpoint work (ops : list op) : Z :=
  match ops with [] => 0 | OF a b :: r => (b - a) + work r | _ :: r => work r end.
Lemma work_app a b : work (a ++ b) = work a + work b.
Proof. induction a as [|o a IH]; cbn [app work]; [lia|]. destruct o; rewrite ?IH; lia. Qed.
Lemma work_shift s ops : work (shift s ops) = work ops.
Proof. induction ops as [|o ops IH]; cbn [shift map work]; [reflexivity|]. fold (shift s ops). destruct o; cbn [shift1 work]; rewrite IH; lia. Qed.
Lemma work_remove_wm ops : work (remove_useless_wm ops) = work ops.
Proof. destruct ops as [|[] ops]; reflexivity. Qed.

(* argmin is invariant under a positive affine map (uf > 0): the split does not depend on the costs *)
Lemma argmin_aux_affine u c : 0 < u -> forall l i best m, argmin_aux (map (fun x => u * x + c) l) i best (u * m + c) = argmin_aux l i best m.
Proof.
  intros Hu. induction l as [|x l IH]; intros i best m; cbn [map argmin_aux]; [reflexivity|].
  replace (u * x + c <=? u * m + c) with (x <=? m).
  - destruct (x <=? m); apply IH.
  - destruct (Z.leb_spec x m), (Z.leb_spec (u * x + c) (u * m + c)); try reflexivity; nia.
Qed.
Lemma argmin_affine u c l : 0 < u -> argmin (map (fun x => u * x + c) l) = argmin l.
Proof. intros Hu. destruct l as [|x l]; [reflexivity|]. unfold argmin. cbn [map]. exact (argmin_aux_affine u c Hu (x :: l) 0 0 x). Qed.

(* argmin returns an index at which the minimum is attained *)
Lemma argmin_aux_min : forall l i best m, 0 <= best < i ->
  let r := argmin_aux l i best m in
  (r = 1 + best /\ forall y, In y l -> m < y) \/
  (i <= r - 1 /\ exists x, nth_error l (Z.to_nat (r - 1 - i)) = Some x /\ x <= m /\ forall y, In y l -> x <= y).
Proof.
  induction l as [|x l IH]; intros i best m Hb; cbn zeta; cbn [argmin_aux].
  - left. split; [reflexivity|]. intros y [].
  - destruct (Z.leb_spec x m) as [Hle|Hgt].
    + destruct (IH (i + 1) i x ltac:(lia)) as [(Hr & Hall) | (Hi & y & Hy & Hyx & Hmin)].
      * right. rewrite Hr. split; [lia|]. exists x. replace (Z.to_nat (1 + i - 1 - i)) with 0%nat by lia. cbn [nth_error].
        split; [reflexivity|]. split; [lia|]. intros y [<-|Hy]; [lia|]. specialize (Hall y Hy). lia.
      * right. split; [lia|]. exists y.
        replace (Z.to_nat (argmin_aux l (i + 1) i x - 1 - i)) with (S (Z.to_nat (argmin_aux l (i + 1) i x - 1 - (i + 1)))) by lia.
        cbn [nth_error]. split; [exact Hy|]. split; [lia|]. intros z [<-|Hz]; [lia|auto].
    + destruct (IH (i + 1) best m ltac:(lia)) as [(Hr & Hall) | (Hi & y & Hy & Hym & Hmin)].
      * left. split; [exact Hr|]. intros z [<-|Hz]; [lia|auto].
      * right. split; [lia|]. exists y.
        replace (Z.to_nat (argmin_aux l (i + 1) best m - 1 - i)) with (S (Z.to_nat (argmin_aux l (i + 1) best m - 1 - (i + 1)))) by lia.
        cbn [nth_error]. split; [exact Hy|]. split; [lia|]. intros z [<-|Hz]; [lia|auto].
Qed.
Lemma argmin_min l : l <> [] -> exists x, nth_error l (Z.to_nat (argmin l - 1)) = Some x /\ forall y, In y l -> x <= y.
Proof.
  destruct l as [|x0 l]; [congruence|]. intros _. unfold argmin. cbn [argmin_aux]. rewrite Z.leb_refl. change (0 + 1) with 1.
  destruct (argmin_aux_min l 1 0 x0 ltac:(lia)) as [(Hr & Hall) | (Hi & y & Hy & Hyx & Hmin)].
  - rewrite Hr. exists x0. split; [reflexivity|]. intros y [<-|Hy]; [lia|]. specialize (Hall y Hy). lia.
  - exists y. replace (Z.to_nat (argmin_aux l 1 0 x0 - 1)) with (S (Z.to_nat (argmin_aux l 1 0 x0 - 1 - 1))) by lia.
    cbn [nth_error]. split; [exact Hy|]. intros z [<-|Hz]; [lia|auto].
Qed.

Lemma map_res_pure {A B} (f : A -> gres B) (g : A -> B) l : (forall x, In x l -> f x = GOk (g x)) -> map_res f l = GOk (map g l).
Proof.
  induction l as [|x l IH]; intros H; cbn [map_res map]; [reflexivity|].
  rewrite (H x (or_introl eq_refl)). cbn [gbind]. rewrite IH by (intros y Hy; apply H; right; exact Hy). reflexivity.
Qed.
Lemma in_zrange lo hi x : In x (zrange lo hi) <-> lo <= x < hi.
Proof.
  unfold zrange. rewrite in_map_iff. split.
  - intros (i & <- & Hi). apply in_seq in Hi. lia.
  - intros H. exists (Z.to_nat (x - lo)). split; [lia|]. apply in_seq. lia.
Qed.
Lemma nth_zrange lo hi k : (k < Z.to_nat (hi - lo))%nat -> nth_error (zrange lo hi) k = Some (lo + Z.of_nat k).
Proof.
  intros Hk. unfold zrange. rewrite nth_error_map. rewrite (proj2 (nth_error_Some _ _) ltac:(rewrite seq_length; lia)) || idtac.
  assert (H : nth_error (seq 0 (Z.to_nat (hi - lo))) k = Some k).
  { rewrite nth_error_nth' with (d := 0%nat) by (rewrite seq_length; lia). rewrite seq_nth by lia. reflexivity. }
  rewrite H. reflexivity.
Qed.

Lemma work_cm1_loop_gen : forall k l idx, idx = Z.of_nat k - 1 ->
  2 * work (cm1_loop k l idx) = Z.of_nat k * (Z.of_nat k + 1) + 2 * Z.of_nat k.
Proof.
  induction k as [|k IH]; intros l idx Hidx; [reflexivity|].
  cbn [cm1_loop]. rewrite !work_app. specialize (IH l (idx - 1) ltac:(lia)).
  assert (H1 : work (if idx =? l - 1 then [] else [ORM 0]) = 0) by (destruct (idx =? l - 1); reflexivity).
  assert (H2 : work (if idx + 1 =? 0 then [] else [OF 0 (idx + 1)]) = idx + 1).
  { destruct (Z.eqb_spec (idx + 1) 0); [lia|]. cbn [work]. lia. }
  rewrite H1, H2. cbn [work]. rewrite Nat2Z.inj_succ in *. lia.
Qed.
Lemma work_cm1_loop k l : 2 * work (cm1_loop k l (Z.of_nat k - 1)) = Z.of_nat k * (Z.of_nat k + 1) + 2 * Z.of_nat k.
Proof. apply work_cm1_loop_gen. reflexivity. Qed.

Section COST.
Variable uf ub : Z.
Hypothesis Huf : 0 < uf.
Variable opt0 : list (list Z).
Variable M L : Z.
Variable P : Z -> Z -> Z.                      (* the step-count DP *)
Hypothesis HO : forall m l, 0 <= m <= M -> 0 <= l <= L -> (1 <= m \/ l = 0) -> tget opt0 m l = GOk ((l + 1) * ub + uf * P m l).
Hypothesis P_0 : forall m, P m 0 = 0.
Hypothesis P_1 : forall m, 1 <= m -> P m 1 = 1.
Hypothesis P_c1 : forall l, 0 <= l -> 2 * P 1 l = l * (l + 1).
Hypothesis P_le : forall m l j, 2 <= m -> 2 <= l -> 1 <= j <= l - 1 -> P m l <= j + P (m - 1) (l - j) + P m (j - 1).
Hypothesis P_ex : forall m l, 2 <= m -> 2 <= l -> exists j, 1 <= j <= l - 1 /\ P m l = j + P (m - 1) (l - j) + P m (j - 1).

Theorem revolve_work : forall fuel l cm ops, revolve fuel opt0 uf l cm = GOk ops ->
  0 <= l <= L -> 0 <= cm <= M -> (1 <= l -> 1 <= cm) -> work ops = (l + 1) + P cm l.
Proof.
  induction fuel as [|f IH]; intros l cm ops H Hl Hcm Hcm1; [discriminate|].
  cbn [revolve] in H.
  destruct (Z.eqb_spec l 0) as [->|Hl0]. { injection H as <-. rewrite P_0. reflexivity. }
  destruct (Z.eqb_spec cm 0) as [->|Hcm0]; [discriminate|].
  destruct (Z.eqb_spec l 1) as [->|Hl1]. { injection H as <-. rewrite P_1 by lia. reflexivity. }
  destruct (Z.eqb_spec cm 1) as [->|Hcm1'].
  { injection H as <-. cbn [app work]. rewrite ?work_app. cbn [work].
    pose proof (work_cm1_loop (Z.to_nat l) l) as Hw. rewrite Z2Nat.id in Hw by lia.
    pose proof (P_c1 l ltac:(lia)). lia. }
  set (g := fun j => j + P (cm - 1) (l - j) + P cm (j - 1)).
  rewrite (map_res_pure _ (fun j => uf * g j + (l + 1) * ub)) in H.
  2:{ intros j Hj. apply in_zrange in Hj. rewrite (HO (cm - 1) (l - j)) by lia. rewrite (HO cm (j - 1)) by lia. cbn [gbind]. f_equal. unfold g. lia. }
  cbn [gbind] in H. rewrite <- (map_map g (fun x => uf * x + (l + 1) * ub)) in H.
  rewrite argmin_affine in H by exact Huf.
  set (cands := map g (zrange 1 l)) in *.
  assert (Hlen : length cands = Z.to_nat (l - 1)) by (unfold cands; rewrite map_length, zrange_length; reflexivity).
  assert (Hne : cands <> []) by (destruct cands; [cbn in Hlen; lia|congruence]).
  pose proof (argmin_bound cands Hne) as Hjb. rewrite Hlen in Hjb.
  destruct (argmin_min cands Hne) as (x & Hx & Hmin).
  set (j := argmin cands) in *.
  assert (Hxg : x = g j).
  { unfold cands in Hx. rewrite nth_error_map, nth_zrange in Hx by lia. unfold option_map in Hx. replace (1 + Z.of_nat (Z.to_nat (j - 1))) with j in Hx by lia. congruence. }
  assert (HP : P cm l = g j).
  { destruct (P_ex cm l ltac:(lia) ltac:(lia)) as (j0 & Hj0 & E0).
    assert (Hin0 : In (g j0) cands) by (unfold cands; apply in_map; apply in_zrange; lia).
    pose proof (Hmin _ Hin0). pose proof (P_le cm l j ltac:(lia) ltac:(lia) ltac:(lia)). unfold g in *. lia. }
  destruct (revolve f opt0 uf (l - j) (cm - 1)) as [s1|] eqn:E1; cbn [gbind] in H; [|discriminate].
  destruct (revolve f opt0 uf (j - 1) cm) as [s2|] eqn:E2; cbn [gbind] in H; [|discriminate].
  injection H as <-.
  cbn [app work]. rewrite !work_app, work_shift. cbn [app work]. rewrite work_remove_wm.
  rewrite (IH _ _ _ E1) by lia. rewrite (IH _ _ _ E2) by lia. rewrite HP. unfold g. lia.
Qed.
End COST.
Print Assumptions revolve_work.
