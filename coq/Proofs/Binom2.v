From Coq Require Import ZArith List Lia Arith.
Open Scope Z_scope.
Require Export BinomDef.
Lemma beta_0_l t : beta 0 t = 1. Proof. reflexivity. Qed.
Lemma beta_0_r s : beta s 0 = 1. Proof. destruct s; reflexivity. Qed.
Lemma beta_SS s t : beta (S s) (S t) = beta s (S t) + beta (S s) t. Proof. reflexivity. Qed.
Global Opaque beta.

Lemma beta_sym : forall s t, beta s t = beta t s.
Proof.
  induction s as [|s IHs]; intro t.
  - now rewrite beta_0_l, beta_0_r.
  - induction t as [|t IHt].
    + now rewrite beta_0_l, beta_0_r.
    + rewrite !beta_SS, IHt, (IHs (S t)). lia.
Qed.

(* A(s,t): (t+1) * beta s (t+1) = (s+t+1) * beta s t *)
Lemma beta_mul_t_aux : forall m s t, (s + t <= m)%nat ->
  (Z.of_nat t + 1) * beta s (S t) = (Z.of_nat s + Z.of_nat t + 1) * beta s t.
Proof.
  induction m as [|m IH]; intros s t Hm.
  - assert (s = 0%nat) by lia; assert (t = 0%nat) by lia; subst. rewrite !beta_0_l. lia.
  - destruct s as [|s]; [rewrite !beta_0_l; lia|].
    destruct t as [|t].
    + rewrite beta_SS, !beta_0_r.
      pose proof (IH s 0%nat ltac:(lia)) as H. rewrite beta_0_r in H.
      rewrite Nat2Z.inj_succ. cbn [Z.of_nat] in *. lia.
    + (* A(s, S t) and B(s, S t) = A(S t, s) via symmetry *)
      pose proof (IH s (S t) ltac:(lia)) as HA.
      pose proof (IH (S t) s ltac:(lia)) as HB.
      rewrite (beta_sym (S t) (S s)), (beta_sym (S t) s) in HB.
      rewrite (beta_SS s (S t)).
      rewrite !Nat2Z.inj_succ in *. nia.
Qed.
Lemma beta_mul_t s t :
  (Z.of_nat t + 1) * beta s (S t) = (Z.of_nat s + Z.of_nat t + 1) * beta s t.
Proof. apply (beta_mul_t_aux (s+t)); lia. Qed.
Lemma beta_mul_s s t :
  (Z.of_nat s + 1 + Z.of_nat t) * beta s t = (Z.of_nat s + 1) * beta (S s) t.
Proof.
  pose proof (beta_mul_t t s) as H. rewrite (beta_sym t (S s)), (beta_sym t s) in H. lia.
Qed.
Lemma div_exact a b c : 0 < c -> c * a = b -> b / c = a.
Proof. intros Hc <-. rewrite Z.mul_comm. apply Z.div_mul. lia. Qed.
Lemma update_exact s t : (beta s t * (Z.of_nat s + (Z.of_nat t + 1))) / (Z.of_nat t + 1) = beta s (S t).
Proof. apply div_exact; [lia|]. pose proof (beta_mul_t s t). lia. Qed.
(* b_sm1 = (b_s * s) / (s + t)  with s = S s' *)
Lemma down_exact s t : (beta (S s) t * (Z.of_nat s + 1)) / (Z.of_nat s + 1 + Z.of_nat t) = beta s t.
Proof. apply div_exact; [lia|]. pose proof (beta_mul_s s t). lia. Qed.
Print Assumptions down_exact.
