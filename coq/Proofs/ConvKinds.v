(* Operation objects of hrevolve_sequences as the converter sees them: a type name and an index (a pair or a single integer).
   kind_of / index_of read them off the model's operations; convert_spec is what Model/RevConv.v's conv_n0_st (plus the step
   n_1 of Forward / Backward) says _convert_action returns.  Gen/ConvertGen.v re-translates _convert_action from hrevolve.py on
   every run and proves the translation equal to convert_spec on every operation. *)
From Coq Require Import ZArith List Bool.
Require Import Actions Ops RevConv.
Open Scope Z_scope.

Inductive okind := KForward | KBackward | KRead | KWrite | KDiscard | KWrite_Forward | KDiscard_Forward
 | KWrite_Forward_memory | KDiscard_Forward_memory | KRead_disk | KWrite_disk | KDiscard_disk | KRead_memory | KWrite_memory | KDiscard_memory.
Definition okind_eqb (a b : okind) : bool :=
  match a, b with
  | KForward, KForward | KBackward, KBackward | KRead, KRead | KWrite, KWrite | KDiscard, KDiscard | KWrite_Forward, KWrite_Forward
  | KDiscard_Forward, KDiscard_Forward | KWrite_Forward_memory, KWrite_Forward_memory | KDiscard_Forward_memory, KDiscard_Forward_memory
  | KRead_disk, KRead_disk | KWrite_disk, KWrite_disk | KDiscard_disk, KDiscard_disk | KRead_memory, KRead_memory | KWrite_memory, KWrite_memory
  | KDiscard_memory, KDiscard_memory => true
  | _, _ => false end.
Inductive oindex := IPair (a b : Z) | IOne (i : Z).

Definition kind_of (o : op) : okind :=
  match o with
  | OF _ _ => KForward | OB _ _ => KBackward | OR _ _ => KRead | OW _ _ => KWrite | OD _ _ => KDiscard
  | OWF _ _ => KWrite_Forward | ODF _ _ => KDiscard_Forward | OWFM _ => KWrite_Forward_memory | ODFM _ => KDiscard_Forward_memory
  | ORD _ => KRead_disk | OWD _ => KWrite_disk | ODD _ => KDiscard_disk | ORM _ => KRead_memory | OWM _ => KWrite_memory | ODM _ => KDiscard_memory
  end.
Definition index_of (o : op) : oindex :=
  match o with
  | OF a b | OB a b | OR a b | OW a b | OD a b | OWF a b | ODF a b => IPair a b
  | ORM i | OWM i | ODM i | ORD i | OWD i | ODD i | OWFM i | ODFM i => IOne i
  end.
Definition n1_of (o : op) : option Z := match o with OF _ b | OB _ b => Some b | _ => None end.
Definition convert_spec (o : op) : res (okind * (Z * option Z * option storage)) :=
  do ns <- conv_n0_st o; Ok (kind_of o, (fst ns, n1_of o, snd ns)).
(* unpacking `a, b = index` of an integer index / binding a pair to one name: outside what the sequence generators produce *)
Definition unpack2 {A} (i : oindex) (f : Z -> Z -> res A) : res A := match i with IPair a b => f a b | IOne _ => Err TypeError end.
Definition unpack1 {A} (i : oindex) (f : Z -> res A) : res A := match i with IOne a => f a | IPair _ _ => Err TypeError end.
