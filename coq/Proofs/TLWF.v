(* C18, first sentence, TwoLevelCheckpointSchedule under EVERY history (requests, valid or rejected finalize calls at any point,
   Run loops): every yielded action is well formed.  Before finalisation the schedule only yields its period checkpoints; an
   accepted finalize(k) puts it in exactly the state of the canonical run for max_n = k (whatever was requested before), and
   from there the invariant J of TLBridge -- which needs some error-free monitor state, supplied by the canonical prefix --
   is kept by every request, so each action passes the executor's checks, the E_malformed ones included. *)
From Coq Require Import ZArith List Lia Bool.
Require Import Actions NAdvance Online Exec Sched RunFacts ExecBudget BasicProofs TLBridge OnlineWF.
Import ListNotations.
Open Scope Z_scope.

Lemma check_none_wf p kn ex x a : check p kn ex x a = None -> wf_action a = true.
Proof.
  destruct a as [n0 n1 wi wa sg|n1 n0 c|n src dst|n src dst| |]; cbn [check wf_action]; intros H; try reflexivity.
  - destruct ((0 <=? n0) && (n0 <? n1)); [|discriminate]. cbn [chk app first_err] in H.
    destruct (negb _); [reflexivity|discriminate].
  - destruct ((0 <=? n0) && (n0 <? n1)); [reflexivity|discriminate].
  - destruct (is_cp src && (0 <=? n)); [reflexivity|discriminate].
  - destruct (is_cp src && (0 <=? n)); [reflexivity|discriminate].
Qed.

Section TL.
Variable P bs : Z. Variable bst : storage. Variable tj : traj.
Hypothesis HP : 1 <= P.
Hypothesis Hbs : 0 <= bs.
Hypothesis bst_cp : bst = RAM \/ bst = DISK.

Definition fwd_state (pc0 : pc) (n : Z) (stt : bool) : sched := fsched P bs bst tj pc0 n None stt.
Definition fin_state (N : Z) (stt : bool) : sched := fsched P bs bst tj PFwd N (Some N) stt.
Definition HI (s : sched) : Prop :=
  (exists pc0 n stt, s = fwd_state pc0 n stt /\ 0 <= n /\ (pc0 = PStart /\ n = 0 \/ pc0 = PFwd)) \/
  (exists N stt, 1 <= N /\ s = fin_state N stt) \/
  (exists N m, 1 <= N /\ J N P bs bst tj s m /\ mon_ok m).

Lemma next_HI s : HI s -> HI (fst (Sched.next s)) /\ match snd (Sched.next s) with Yield a => wf_action a = true | _ => True end.
Proof.
  intros [(pc0 & n & stt & -> & Hn & Hpc)|[(N & stt & HN & ->)|(N & m & HN & HJ & Hm)]].
  - (* before finalisation: the next period checkpoint *)
    assert (E : Sched.next (fwd_state pc0 n stt) = (fwd_state PFwd (n + P) true, Yield (Forward n (n + P) true false DISK))).
    { destruct Hpc as [[-> ->]| ->]; reflexivity. }
    rewrite E. cbn [fst snd]. split.
    + left. exists PFwd, (n + P), true. split; [reflexivity|]. split; [lia|right; reflexivity].
    + cbn [wf_action is_cp st_eqb orb andb negb]. rewrite andb_true_r. apply andb_true_intro. split; [apply Z.leb_le|apply Z.ltb_lt]; lia.
  - (* right after an accepted finalize: EndForward, into the canonical reverse phase *)
    assert (E : Sched.next (fin_state N stt) = (tsched (ost N P bs bst tj PTOuter N 0 []) true, Yield EndForward)) by reflexivity.
    rewrite E. cbn [fst snd]. split; [|reflexivity]. right. right.
    destruct (canon_prefix N P bs bst tj HN HP Hbs) as (s1 & m & ls & _ & -> & HJ & Hm & _). exists N, m. auto.
  - pose proof (J_step N P bs bst tj HN HP Hbs bst_cp s m HJ Hm) as Hg. unfold good_step in Hg.
    destruct (Sched.next s) as [s' o]. cbn [fst snd]. destruct o as [a| |e]; [| |contradiction].
    + destruct Hg as [Hm' HJ']. split; [right; right; exists N; eexists; eauto|].
      destruct (mon_step_inv _ _ _ _ Hm') as (_ & Hc & _). eapply check_none_wf; eauto.
    + split; [right; right; exists N, m; auto|exact I].
Qed.

Lemma fin_HI kk s : HI s -> HI (fst (Sched.finalize kk s)).
Proof.
  intros [(pc0 & n & stt & -> & Hn & Hpc)|[(N & stt & HN & ->)|(N & m & HN & HJ & Hm)]].
  - unfold Sched.finalize, fwd_state, fsched. cbn [ob Online.b Online.k Online.pcv Online.snaps Online.exh started]. unfold Online.finalize. cbn [Online.max_n_ Online.n_ Online.r_].
    destruct (Z.ltb_spec kk 1); cbn [fst]; [left; exists pc0, n, stt; auto|].
    destruct (Z.geb_spec n kk); cbn [fst]; [|left; exists pc0, n, stt; auto].
    destruct Hpc as [[-> ->]| ->]; [lia|]. right. left. exists kk, stt. split; [lia|reflexivity].
  - right. left. exists N, stt. split; [exact HN|].
    unfold Sched.finalize, fin_state, fsched. cbn [ob Online.b Online.k Online.pcv Online.snaps Online.exh started]. unfold Online.finalize. cbn [Online.max_n_ Online.n_ Online.r_].
    destruct (kk <? 1); [reflexivity|]. destruct (negb (N =? kk) || negb (N =? kk)); reflexivity.
  - right. right. exists N, m. split; [exact HN|]. split; [|exact Hm].
    inversion HJ as [q n r sn d0 x m0 stt Hq Hm0 HIv HR HNN Hfw]; subst.
    replace (fst (Sched.finalize kk (tsched (ost N P bs bst tj q n r sn) stt))) with (tsched (ost N P bs bst tj q n r sn) stt); [exact HJ|].
    unfold Sched.finalize, tsched, ost. cbn [ob Online.b Online.k Online.pcv Online.snaps Online.exh started]. unfold Online.finalize. cbn [Online.max_n_ Online.n_ Online.r_].
    destruct (kk <? 1); [reflexivity|]. destruct (negb (n =? kk) || negb (N =? kk)); reflexivity.
Qed.

Theorem twolevel_wf_every_history p ops o0 m ls : run_case (PTwo P bs bst tj) p ops = Ok (o0, m, ls) -> Forall wf_line ls.
Proof.
  intros Hrun. unfold run_case, Sched.construct, Online.construct in Hrun.
  destruct (Z.ltb_spec P 1); [lia|].
  assert (Hc : match bst with RAM | DISK => Ok (Online.mk (KTwo P bs bst tj) PStart 0 0 None [] false) | _ => Err ValueError end
               = Ok (Online.mk (KTwo P bs bst tj) PStart 0 0 None [] false)) by (destruct bst_cp as [-> | ->]; reflexivity).
  rewrite Hc in Hrun. cbn [bind] in Hrun.
  pose proof (ops_wf HI next_HI fin_HI p ops {| ob := OOnline (Online.mk (KTwo P bs bst tj) PStart 0 0 None [] false); started := false |} mon0) as Hw.
  destruct (run_ops p _ mon0 ops) as [[s' m'] ls']. injection Hrun as _ _ <-. apply Hw.
  left. exists PStart, 0, false. split; [reflexivity|]. split; [lia|left; auto].
Qed.
End TL.
Print Assumptions twolevel_wf_every_history.
