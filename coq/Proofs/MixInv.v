From Coq Require Import ZArith List Lia Bool.
Require Import Actions.
Import ListNotations.
Open Scope Z_scope.

Inductive out := Act (a : action) | Stop | Raise.
Inductive kind := KFR | KAdj | KIcs.
Definition kind_eqb (a b : kind) := match a, b with KFR,KFR | KAdj,KAdj | KIcs,KIcs => true | _,_ => false end.

Section MIX.
(* the planner, abstractly: (kind, advance); C = cost it promises *)
Variable plan : Z -> Z -> kind * Z.
Variable C : Z -> Z -> Z.
Hypothesis plan_1 : forall k, plan 1 k = (KFR, 1).
Hypothesis plan_ge2 : forall m k, 2 <= m -> 1 <= k ->
  (fst (plan m k) = KIcs /\ 2 <= snd (plan m k) <= m - 1 /\ (2 <= k \/ snd (plan m k) = m - 1)) \/
  (fst (plan m k) = KAdj /\ snd (plan m k) = 1 /\ (2 <= k \/ m = 2)).
Hypothesis plan_2 : forall k, 1 <= k -> fst (plan 2 k) = KAdj.
Hypothesis C_1 : forall k, C 1 k = 1.
Hypothesis C_ics : forall m k, 2 <= m -> 1 <= k -> fst (plan m k) = KIcs ->
  C m k = snd (plan m k) + C (m - snd (plan m k)) (k - 1) + C (snd (plan m k)) k.
Hypothesis C_adj : forall m k, 2 <= m -> 1 <= k -> fst (plan m k) = KAdj -> C m k = 1 + C (m - 1) (k - 1).

Variable N : Z.  Variable S_ : Z.  Variable stg : storage.
Hypothesis HN : 1 <= N.
Hypothesis HS : 2 <= N -> 1 <= S_.
Hypothesis HS0 : 0 <= S_.
Hypothesis stg_cp : stg = RAM \/ stg = DISK.

(* generator (mixed.py:65-189), planner errors abstracted away *)
Inductive pc := PInner (stype : option kind) | PAfterAdj (n0 n1 : Z) | PAfterIcs (n0 n1 : Z) | PDoRev | PAfterRev | PDone.
Record st := { pcv : pc; n_ : Z; r_ : Z; snaps : list (kind * Z * Z) }.
Definition mk p n r sn := {| pcv := p; n_ := n; r_ := r; snaps := sn |}.
Definition len {A} (l : list A) := Z.of_nat (length l).
Definition in_snaps (n0 : Z) (sn : list (kind*Z*Z)) := existsb (fun e => snd (fst e) =? n0) sn.

Fixpoint resume (fuel : nat) (s : st) : st * out :=
  match fuel with O => (s, Raise) | S f =>
  match pcv s with
  | PAfterAdj n0 n1 => resume f (mk (PInner (Some KAdj)) (n_ s) (r_ s) ((KAdj, n0, n1) :: snaps s))
  | PAfterIcs n0 n1 =>
      if len (snaps s) >? S_ - 1 then (s, Raise)
      else resume f (mk (PInner (Some KIcs)) (n_ s) (r_ s) ((KIcs, n0, n1) :: snaps s))
  | PInner stype =>
    if n_ s <? N - r_ s then
      let n0 := n_ s in
      let reuse := in_snaps n0 (snaps s) in
      let k := S_ - len (snaps s) + (if reuse then 1 else 0) in
      if (k <? 1) && (2 <=? N - r_ s - n0) then (s, Raise) (* ValueError from the planner *) else
      let '(kd, adv) := plan (N - r_ s - n0) k in
      let n1 := adv + n0 in
      let bad := reuse && match snaps s with
                          | (k', p, e) :: _ => negb (kind_eqb k' kd && (p =? n0)) || (e <? n1)
                          | [] => true end in
      if bad then (s, Raise) else
      match kd with
      | KFR => if n1 >? n0 + 1 then (s, Raise) (* not produced by the planner; see DESIGN *)
               else if n1 <=? n0 then (s, Raise)
               else (mk (PInner (Some KFR)) (n_ s + 1) (r_ s) (snaps s), Act (Forward (n1 - 1) n1 false true WORK))
      | KAdj => if negb (n1 =? n0 + 1) then (s, Raise) else
                if reuse then (s, Raise) else
                if len (snaps s) >? S_ - 1 then (s, Raise) else
                (mk (PAfterAdj n0 n1) n1 (r_ s) (snaps s), Act (Forward n0 n1 false true stg))
      | KIcs => if n1 <=? n0 + 1 then (s, Raise) else
                if reuse then (mk (PInner (Some KIcs)) n1 (r_ s) (snaps s), Act (Forward n0 n1 false false WORK))
                else (mk (PAfterIcs n0 n1) n1 (r_ s) (snaps s), Act (Forward n0 n1 true false stg))
      end
    else if negb (n_ s =? N - r_ s) then (s, Raise)
    else if negb (match stype with None | Some KFR => true | _ => false end) then (s, Raise)
    else if r_ s =? 0 then (mk PDoRev (n_ s) (r_ s) (snaps s), Act EndForward)
    else resume f (mk PDoRev (n_ s) (r_ s) (snaps s))
  | PDoRev => (mk PAfterRev (n_ s) (r_ s + 1) (snaps s), Act (Reverse (N - (r_ s + 1) + 1) (N - (r_ s + 1)) true))
  | PAfterRev =>
    if r_ s =? N then
      (match snaps s with [] => (mk PDone (n_ s) (r_ s) [], Act EndReverse) | _ => (s, Raise) end)
    else match snaps s with
    | [] => (s, Raise)
    | (k, cp_n, _) :: rest =>
      if negb (kind_eqb k KIcs || kind_eqb k KAdj) then (s, Raise) else
      let kk := S_ - len (snaps s) + 1 in
      if (kk <? 1) && (2 <=? N - r_ s - cp_n) then (s, Raise) else
      let '(k2, _) := plan (N - r_ s - cp_n) kk in
      let del := negb (kind_eqb k k2) in
      let sn' := if del then rest else snaps s in
      match k with
      | KIcs => if cp_n + 1 >=? N - r_ s then (s, Raise) else
                (mk (PInner None) cp_n (r_ s) sn', Act ((if del then Move else Copy) cp_n stg WORK))
      | _ => if negb del || negb (cp_n + 1 =? N - r_ s) then (s, Raise) else
                (mk (PInner None) (cp_n + 1) (r_ s) sn', Act ((if del then Move else Copy) cp_n stg WORK))
      end
    end
  | PDone => (s, Stop)
  end end.

(* ---------- executor (single checkpoint storage stg, S_ units, two kinds of content) ---------- *)
Record xst := { fwd : option Z; wics : option (Z*Z); wdeps : option (Z*Z);
                store : list (Z * (kind * (Z*Z)));  (* most recent first *)
                rr : Z; endfwd : bool; done : Z }.
Fixpoint lookup (k : Z) (l : list (Z * (kind * (Z*Z)))) :=
  match l with [] => None | (k', v) :: r => if k =? k' then Some v else lookup k r end.
Fixpoint remove (k : Z) (l : list (Z * (kind * (Z*Z)))) :=
  match l with [] => [] | (k', v) :: r => if k =? k' then r else (k', v) :: remove k r end.
Definition st_eqb (a b : storage) := match a, b with RAM,RAM | DISK,DISK | WORK,WORK | NONE,NONE => true | _,_ => false end.
Definition isnone {A} (o : option A) := match o with None => true | _ => false end.
Definition covers (o : option (Z*Z)) (a b : Z) := match o with Some (x, y) => (x <=? a) && (b <=? y) | None => false end.

Definition exec (x : xst) (a : action) : option xst :=
  match a with
  | Forward n0 n1 wi wa sg =>
    match fwd x with
    | Some f =>
      if negb ((f =? n0) && (n0 <? n1) && (n1 <=? N - rr x)) then None else
      if st_eqb sg WORK then
        if wi || (wa && negb ((n1 =? n0 + 1) && (n1 =? N - rr x))) then None else
        Some {| fwd := Some n1; wics := None; wdeps := if wa then Some (n0, n1) else None; store := store x; rr := rr x;
                endfwd := endfwd x; done := done x + (n1 - n0) |}
      else if st_eqb sg stg then
        if negb (xorb wi wa) || negb (isnone (lookup n0 (store x))) || negb (len (store x) <? S_) || (wa && negb (n1 =? n0 + 1)) then None else
        Some {| fwd := Some n1; wics := None; wdeps := None;
                store := (n0, (if wi then KIcs else KAdj, (n0, n1))) :: store x; rr := rr x;
                endfwd := endfwd x; done := done x + (n1 - n0) |}
      else None
    | None => None
    end
  | Reverse n1 n0 _ =>
    if negb (endfwd x && (n1 =? N - rr x) && (n0 =? n1 - 1) && covers (wdeps x) n0 n1) then None else
    Some {| fwd := fwd x; wics := wics x; wdeps := None; store := store x; rr := rr x + 1; endfwd := true; done := done x |}
  | Copy n sg WORK | Move n sg WORK =>
    if negb (st_eqb sg stg && endfwd x && isnone (wics x) && isnone (wdeps x)) then None else
    match lookup n (store x) with
    | Some (kd, (a0, b0)) =>
      let st' := match a with Move _ _ _ => remove n (store x) | _ => store x end in
      if negb ((a0 =? n) && (n <? N - rr x)) then None else
      match kd with
      | KIcs => if negb (N - rr x <=? b0) then None else
                Some {| fwd := Some n; wics := Some (a0, b0); wdeps := None; store := st'; rr := rr x; endfwd := true; done := done x |}
      | KAdj => if negb ((b0 =? n + 1) && (n + 1 =? N - rr x)) then None else
                Some {| fwd := None; wics := None; wdeps := Some (a0, b0); store := st'; rr := rr x; endfwd := true; done := done x |}
      | KFR => None
      end
    | None => None
    end
  | Copy _ _ _ | Move _ _ _ => None
  | EndForward => if negb (negb (endfwd x) && match fwd x with Some f => f =? N | None => false end) then None else
      Some {| fwd := fwd x; wics := wics x; wdeps := wdeps x; store := store x; rr := rr x; endfwd := true; done := done x |}
  | EndReverse => if negb (endfwd x && (rr x =? N) && match store x with [] => true | _ => false end) then None else Some x
  end.

(* ---------- stack shape: entries tile [0, lim) ---------- *)
Definition enc (e : kind * Z * Z) : Z * (kind * (Z*Z)) := let '(k, p, q) := e in (p, (k, (p, q))).
Fixpoint WF (sn : list (kind*Z*Z)) (lim : Z) : Prop :=
  match sn with
  | [] => lim = 0
  | (k, p, e) :: rest =>
      0 <= p /\ p < lim /\ (k = KIcs -> 2 <= lim - p /\ lim <= e) /\ (k = KAdj -> lim = p + 1 /\ e = p + 1) /\ k <> KFR /\ WF rest p
  end.
Fixpoint segsC (sn : list (kind*Z*Z)) (lim : Z) : Z :=
  match sn with
  | [] => 0
  | (k, p, e) :: rest => (match k with KIcs => C (lim - p) (S_ - len rest) | _ => 0 end) + segsC rest p
  end.

Lemma WF_lim_nonneg sn lim : WF sn lim -> 0 <= lim.
Proof. destruct sn as [|[[k p] e] rest]; cbn; lia. Qed.
Lemma WF_lookup_none sn lim q : WF sn lim -> lim <= q -> lookup q (map enc sn) = None.
Proof.
  revert lim q; induction sn as [|[[k p] e] rest IH]; intros lim q H Hq; cbn [map enc lookup]; [reflexivity|].
  cbn [WF] in H. destruct H as (Hp & Hlt & _ & _ & _ & Hr).
  destruct (Z.eqb_spec q p); [lia|]. apply (IH p); [exact Hr|lia].
Qed.

(* ---------- executor spec lemmas ---------- *)
Lemma stg_not_work : st_eqb stg WORK = false. Proof. destruct stg_cp as [-> | ->]; reflexivity. Qed.
Lemma stg_refl : st_eqb stg stg = true. Proof. destruct stg_cp as [-> | ->]; reflexivity. Qed.

Lemma exec_fwd_work x n0 n1 wa : fwd x = Some n0 -> n0 < n1 -> n1 <= N - rr x ->
  (wa = true -> n1 = n0 + 1 /\ n1 = N - rr x) ->
  exec x (Forward n0 n1 false wa WORK) =
    Some {| fwd := Some n1; wics := None; wdeps := if wa then Some (n0, n1) else None; store := store x; rr := rr x;
            endfwd := endfwd x; done := done x + (n1 - n0) |}.
Proof.
  intros Hf H1 H2 H3. cbn [exec st_eqb]. rewrite Hf.
  replace ((n0 =? n0) && (n0 <? n1) && (n1 <=? N - rr x)) with true
    by (symmetry; rewrite !andb_true_iff, Z.eqb_eq, Z.ltb_lt, Z.leb_le; lia).
  cbn [negb orb]. destruct wa; cbn [andb]; [|reflexivity].
  destruct (H3 eq_refl). replace ((n1 =? n0 + 1) && (n1 =? N - rr x)) with true
    by (symmetry; rewrite andb_true_iff, !Z.eqb_eq; lia). reflexivity.
Qed.
Lemma exec_fwd_cp x n0 n1 (wi : bool) : fwd x = Some n0 -> n0 < n1 -> n1 <= N - rr x ->
  lookup n0 (store x) = None -> len (store x) < S_ -> (wi = false -> n1 = n0 + 1) ->
  exec x (Forward n0 n1 wi (negb wi) stg) =
    Some {| fwd := Some n1; wics := None; wdeps := None; store := (n0, (if wi then KIcs else KAdj, (n0, n1))) :: store x; rr := rr x;
            endfwd := endfwd x; done := done x + (n1 - n0) |}.
Proof.
  intros Hf H1 H2 H3 H4 H5. cbn [exec]. rewrite Hf, stg_not_work, stg_refl, H3.
  replace ((n0 =? n0) && (n0 <? n1) && (n1 <=? N - rr x)) with true
    by (symmetry; rewrite !andb_true_iff, Z.eqb_eq, Z.ltb_lt, Z.leb_le; lia).
  replace (len (store x) <? S_) with true by (symmetry; apply Z.ltb_lt; lia).
  destruct wi; cbn [negb xorb isnone orb andb]; [reflexivity|].
  replace (n1 =? n0 + 1) with true by (symmetry; apply Z.eqb_eq; apply H5; reflexivity). reflexivity.
Qed.
Lemma exec_rev x n1 n0 : endfwd x = true -> n1 = N - rr x -> n0 = n1 - 1 -> wdeps x = Some (n0, n1) ->
  exec x (Reverse n1 n0 true) =
    Some {| fwd := fwd x; wics := wics x; wdeps := None; store := store x; rr := rr x + 1; endfwd := true; done := done x |}.
Proof.
  intros He H1 H0 Hw. cbn [exec]. rewrite He, Hw. cbn [covers andb].
  replace ((n1 =? N - rr x) && (n0 =? n1 - 1) && ((n0 <=? n0) && (n1 <=? n1))) with true
    by (symmetry; rewrite !andb_true_iff, !Z.eqb_eq, !Z.leb_le; lia). reflexivity.
Qed.
Lemma exec_endfwd x : endfwd x = false -> fwd x = Some N ->
  exec x EndForward = Some {| fwd := fwd x; wics := wics x; wdeps := wdeps x; store := store x; rr := rr x; endfwd := true; done := done x |}.
Proof. intros He Hf. cbn [exec]. rewrite He, Hf, Z.eqb_refl. reflexivity. Qed.
Lemma exec_endrev x : endfwd x = true -> rr x = N -> store x = [] -> exec x EndReverse = Some x.
Proof. intros He Hr Hs. cbn [exec]. rewrite He, Hr, Hs, Z.eqb_refl. reflexivity. Qed.
Lemma exec_load_ics x n e (mv : bool) : endfwd x = true -> wics x = None -> wdeps x = None ->
  lookup n (store x) = Some (KIcs, (n, e)) -> n < N - rr x -> N - rr x <= e ->
  exec x ((if mv then Move else Copy) n stg WORK) =
    Some {| fwd := Some n; wics := Some (n, e); wdeps := None; store := if mv then remove n (store x) else store x; rr := rr x;
            endfwd := true; done := done x |}.
Proof.
  intros He Hi Hd Hl H1 H2. destruct mv; cbn [exec]; rewrite stg_refl, He, Hi, Hd, Hl; cbn [isnone andb negb];
  (replace ((n =? n) && (n <? N - rr x)) with true by (symmetry; rewrite andb_true_iff, Z.eqb_eq, Z.ltb_lt; lia));
  cbn [negb]; (replace (N - rr x <=? e) with true by (symmetry; apply Z.leb_le; lia)); reflexivity.
Qed.
Lemma exec_load_adj x n : endfwd x = true -> wics x = None -> wdeps x = None ->
  lookup n (store x) = Some (KAdj, (n, n + 1)) -> n + 1 = N - rr x ->
  exec x (Move n stg WORK) =
    Some {| fwd := None; wics := None; wdeps := Some (n, n + 1); store := remove n (store x); rr := rr x; endfwd := true; done := done x |}.
Proof.
  intros He Hi Hd Hl H1. cbn [exec]. rewrite stg_refl, He, Hi, Hd, Hl. cbn [isnone andb negb].
  replace ((n =? n) && (n <? N - rr x)) with true by (symmetry; rewrite andb_true_iff, Z.eqb_eq, Z.ltb_lt; lia).
  cbn [negb]. replace ((n + 1 =? n + 1) && (n + 1 =? N - rr x)) with true by (symmetry; rewrite andb_true_iff, !Z.eqb_eq; lia). reflexivity.
Qed.

(* ---------- the invariant ---------- *)
Definition free (s : st) := S_ - len (snaps s).
Definition InvCore (s : st) (x : xst) : Prop :=
  rr x = r_ s /\ 0 <= r_ s <= N /\ store x = map enc (snaps s) /\ len (snaps s) <= S_ /\
  let h := N - r_ s in
  match pcv s with
  | PInner stype =>
      endfwd x = negb (r_ s =? 0) /\
      ( (* A1: in a sweep at a fresh position *)
        (n_ s < h /\ in_snaps (n_ s) (snaps s) = false /\ WF (snaps s) (n_ s) /\ fwd x = Some (n_ s) /\ wdeps x = None /\
         (2 <= h - n_ s -> 1 <= free s) /\ done x + (C (h - n_ s) (free s) + segsC (snaps s) (n_ s)) = C N S_)
        \/ (* A2: just re-loaded a kept restart checkpoint *)
        (exists e rest, snaps s = (KIcs, n_ s, e) :: rest /\ WF (snaps s) h /\ fwd x = Some (n_ s) /\ wdeps x = None /\
         fst (plan (h - n_ s) (S_ - len rest)) = KIcs /\ stype = None /\ 1 <= r_ s /\
         done x + segsC (snaps s) h = C N S_)
        \/ (* A3: at the adjoint position, dependencies of step h-1 in WORK *)
        (n_ s = h /\ (stype = None \/ stype = Some KFR) /\ WF (snaps s) (h - 1) /\ wdeps x = Some (h - 1, h) /\ wics x = None /\
         1 <= h /\ (r_ s = 0 -> fwd x = Some h) /\ done x + segsC (snaps s) (h - 1) = C N S_) )
  | PAfterAdj _ _ | PAfterIcs _ _ => False (* never core states: see norm *)
  | PDoRev =>
      endfwd x = true /\ n_ s = h /\ WF (snaps s) (h - 1) /\ wdeps x = Some (h - 1, h) /\ wics x = None /\ 1 <= h /\
      done x + segsC (snaps s) (h - 1) = C N S_
  | PAfterRev =>
      endfwd x = true /\ 1 <= r_ s /\ WF (snaps s) h /\ wdeps x = None /\ wics x = None /\ done x + segsC (snaps s) h = C N S_
  | PDone => r_ s = N /\ snaps s = [] /\ done x = C N S_
  end.

(* the two pcs right after a checkpoint-writing Forward: the generator has not appended the entry yet *)
Definition norm (s : st) : st :=
  match pcv s with
  | PAfterAdj n0 n1 => mk (PInner (Some KAdj)) (n_ s) (r_ s) ((KAdj, n0, n1) :: snaps s)
  | PAfterIcs n0 n1 => mk (PInner (Some KIcs)) (n_ s) (r_ s) ((KIcs, n0, n1) :: snaps s)
  | _ => s
  end.
Definition Inv (s : st) (x : xst) : Prop := InvCore (norm s) x.

Definition init_s := mk (PInner None) 0 0 [].
Definition init_x := {| fwd := Some 0; wics := None; wdeps := None; store := []; rr := 0; endfwd := false; done := 0 |}.
Lemma inv_init : Inv init_s init_x.
Proof.
  unfold Inv, norm, InvCore, init_s, init_x, free, len. cbn.
  repeat match goal with |- _ /\ _ => split end; try lia; try reflexivity.
  left. rewrite !Z.sub_0_r. repeat match goal with |- _ /\ _ => split end; try lia; try reflexivity.
Qed.

Ltac splits := repeat match goal with |- _ /\ _ => split end.
Ltac fin := splits; auto; try lia; try (symmetry; apply negb_true_iff, Z.eqb_neq; lia).
Lemma in_snaps_WF sn lim q : WF sn lim -> lim <= q -> in_snaps q sn = false.
Proof.
  revert lim q; induction sn as [|[[k p] e] rest IH]; intros lim q H Hq; cbn [in_snaps existsb]; [reflexivity|].
  cbn [WF] in H. destruct H as (Hp & Hlt & _ & _ & _ & Hr). cbn [fst snd].
  destruct (Z.eqb_spec p q); [lia|]. cbn [orb]. apply (IH p); [exact Hr|lia].
Qed.
Lemma lookup_top k p e l : lookup p (enc (k, p, e) :: l) = Some (k, (p, e)).
Proof. cbn [enc lookup]. rewrite Z.eqb_refl. reflexivity. Qed.
Lemma remove_top k p e l : remove p (enc (k, p, e) :: l) = l.
Proof. cbn [enc remove]. rewrite Z.eqb_refl. reflexivity. Qed.
Lemma len_cons {A} (a : A) l : len (a :: l) = len l + 1.
Proof. unfold len. cbn [length]. lia. Qed.

Definition Good (x : xst) (r : st * out) (dead : Prop) : Prop :=
  match r with
  | (s', Act a) => exists x', exec x a = Some x' /\ Inv s' x'
  | (_, Stop) => dead
  | (_, Raise) => False
  end.

(* PDoRev *)
Lemma dorev_ok s x f : InvCore s x -> pcv s = PDoRev -> Good x (resume (S f) s) False.
Proof.
  intros (Hrr & Hr & Hst & Hlen & Hpc) Epc. cbn [resume]. rewrite Epc in *. cbn zeta in Hpc.
  destruct Hpc as (Hef & Hn & Hwf & Hwd & Hwi & Hh & HPhi). cbn [Good].
  eexists. split.
  - apply exec_rev; try assumption; try lia. rewrite Hwd. f_equal. f_equal; lia.
  - unfold Inv, norm, InvCore. cbn [pcv mk n_ r_ snaps rr store endfwd wdeps wics done]. cbn zeta.
    replace (N - (r_ s + 1)) with (N - r_ s - 1) by lia.
    splits; auto; try lia.
Qed.

(* PAfterRev: end of the pass, or load the top checkpoint (keep / delete decided by the planner) *)
Lemma afterrev_ok s x f : InvCore s x -> pcv s = PAfterRev -> Good x (resume (S f) s) False.
Proof.
  intros (Hrr & Hr & Hst & Hlen & Hpc) Epc. cbn [resume]. rewrite Epc in *. cbn zeta in Hpc.
  destruct Hpc as (Hef & Hr1 & Hwf & Hwd & Hwi & HPhi).
  destruct (Z.eqb_spec (r_ s) N) as [HrN|HrN].
  - (* r = N *)
    replace (N - r_ s) with 0 in Hwf by lia.
    destruct (snaps s) as [|[[k p] e] rest] eqn:Es; [|cbn [WF] in Hwf; lia].
    cbn [Good]. eexists. split; [apply exec_endrev; [assumption|lia|rewrite Hst; reflexivity]|].
    unfold Inv, norm, InvCore. cbn [pcv mk n_ r_ snaps]. cbn zeta. cbn [segsC] in HPhi.
    splits; auto; try lia.
  - destruct (snaps s) as [|[[k p] e] rest] eqn:Es; [cbn [WF] in Hwf; lia|].
    cbn [WF] in Hwf. destruct Hwf as (Hp0 & Hph & Hics & Hadj & Hnfr & Hwfr).
    rewrite len_cons in Hlen.
    assert (Hkk : S_ - len ((k, p, e) :: rest) + 1 = S_ - len rest) by (rewrite len_cons; lia).
    rewrite Hkk.
    destruct k; [congruence| |].
    + (* dependency checkpoint: remaining length is 1, planner says FORWARD_REVERSE, so it is deleted and moved *)
      destruct (Hadj eq_refl) as [Hh He]. subst e.
      cbn [kind_eqb orb negb].
      replace (N - r_ s - p) with 1 by lia. rewrite plan_1.
      replace ((S_ - len rest <? 1) && (2 <=? 1)) with false by (rewrite andb_false_r; reflexivity).
      cbn [kind_eqb negb orb]. replace (p + 1 =? N - r_ s) with true by (symmetry; apply Z.eqb_eq; lia). cbn [negb].
      cbn [Good]. eexists. split.
      * apply exec_load_adj; try assumption; try lia. rewrite Hst. cbn [map]. apply lookup_top.
      * unfold Inv, norm, InvCore. cbn [pcv mk n_ r_ snaps rr store endfwd wdeps wics done fwd]. cbn zeta.
        rewrite Hst. cbn [map]. rewrite remove_top.
        fin.
        right. right. cbn [segsC] in HPhi.
           replace (N - r_ s - 1) with p by lia. replace (N - r_ s) with (p + 1) by lia.
           splits; auto; try lia.
    + (* restart checkpoint *)
      destruct (Hics eq_refl) as [Hm He].
      cbn [kind_eqb orb negb].
      replace ((S_ - len rest <? 1) && (2 <=? N - r_ s - p)) with false
        by (symmetry; apply andb_false_iff; left; apply Z.ltb_ge; lia).
      destruct (plan (N - r_ s - p) (S_ - len rest)) as [k2 adv] eqn:Ep.
      pose proof (plan_ge2 (N - r_ s - p) (S_ - len rest) ltac:(lia) ltac:(lia)) as Hpl. rewrite Ep in Hpl. cbn [fst snd] in Hpl.
      replace (p + 1 >=? N - r_ s) with false by (symmetry; rewrite Z.geb_leb; apply Z.leb_gt; lia).
      destruct Hpl as [(-> & Hadv & Hk) | (-> & Hadv & Hk)]; cbn [kind_eqb negb].
      * (* kept: Copy *)
        cbn [Good]. eexists. split.
        -- apply (exec_load_ics x p e false); try assumption; try lia. rewrite Hst. cbn [map]. apply lookup_top.
        -- unfold Inv, norm, InvCore. cbn [pcv mk n_ r_ snaps rr store endfwd wdeps wics done fwd]. cbn zeta.
           rewrite len_cons. fin.
           right. left. exists e, rest. cbn [WF]. rewrite Ep. cbn [fst]. splits; auto; try lia.
      * (* type changes: Move, the unit is free again *)
        cbn [Good]. eexists. split.
        -- apply (exec_load_ics x p e true); try assumption; try lia. rewrite Hst. cbn [map]. apply lookup_top.
        -- unfold Inv, norm, InvCore. cbn [pcv mk n_ r_ snaps rr store endfwd wdeps wics done fwd]. cbn zeta.
           rewrite Hst. cbn [map]. rewrite remove_top. fin.
           left. unfold free. cbn [snaps]. cbn [segsC] in HPhi.
              splits; auto; try lia; [apply (in_snaps_WF _ p); [exact Hwfr|lia] | cbn [snaps mk]; lia].
Qed.

(* PInner: one planner decision, or the end of the sweep *)
Lemma inner_ok s x f stype : InvCore s x -> pcv s = PInner stype -> Good x (resume (S (S f)) s) False.
Proof.
  intros Hinv Epc. pose proof Hinv as (Hrr & Hr & Hst & Hlen & Hpc). rewrite Epc in Hpc. cbn zeta in Hpc.
  destruct Hpc as (Hef & [HA1 | [HA2 | HA3]]).
  - (* A1 : fresh position *)
    destruct HA1 as (Hlt & Hnot & Hwf & Hf & Hwd & Hfree & HPhi).
    cbn [resume]. rewrite Epc. replace (n_ s <? N - r_ s) with true by (symmetry; apply Z.ltb_lt; lia).
    rewrite Hnot. rewrite Z.add_0_r. fold (free s).
    pose proof (WF_lim_nonneg _ _ Hwf) as Hn0.
    assert (Hlk : lookup (n_ s) (store x) = None) by (rewrite Hst; apply (WF_lookup_none _ (n_ s)); [exact Hwf|lia]).
    destruct (Z.eq_dec (N - r_ s - n_ s) 1) as [Hm1|Hm1].
    + (* last step before the adjoint: FORWARD_REVERSE *)
      rewrite Hm1, plan_1. replace ((free s <? 1) && (2 <=? 1)) with false by (rewrite andb_false_r; reflexivity).
      cbn [andb]. replace (1 + n_ s >? n_ s + 1) with false by (symmetry; rewrite Z.gtb_ltb; apply Z.ltb_ge; lia).
      replace (1 + n_ s <=? n_ s) with false by (symmetry; apply Z.leb_gt; lia).
      replace (1 + n_ s - 1) with (n_ s) by lia.
      cbn [Good]. eexists. split.
      * apply (exec_fwd_work x (n_ s) (1 + n_ s) true); try assumption; try lia.
      * unfold Inv, norm, InvCore. cbn [pcv mk n_ r_ snaps rr store endfwd wdeps wics done fwd]. cbn zeta.
        rewrite Hm1, C_1 in HPhi.
        fin. right. right.
        replace (N - r_ s - 1) with (n_ s) by lia. replace (N - r_ s) with (1 + n_ s) by lia.
        splits; auto; try lia.
    + (* a checkpoint is written *)
      assert (Hm : 2 <= N - r_ s - n_ s) by lia. specialize (Hfree Hm).
      replace ((free s <? 1) && (2 <=? N - r_ s - n_ s)) with false
        by (symmetry; apply andb_false_iff; left; apply Z.ltb_ge; lia).
      destruct (plan (N - r_ s - n_ s) (free s)) as [kd adv] eqn:Ep.
      pose proof (plan_ge2 _ _ Hm Hfree) as Hpl. rewrite Ep in Hpl. cbn [fst snd] in Hpl.
      pose proof (C_ics _ _ Hm Hfree) as HCi. pose proof (C_adj _ _ Hm Hfree) as HCa. rewrite Ep in HCi, HCa. cbn [fst snd] in HCi, HCa.
      cbn [andb].
      destruct Hpl as [(-> & Hadv & Hk) | (-> & -> & Hk)].
      * (* restart checkpoint *)
        replace (adv + n_ s <=? n_ s + 1) with false by (symmetry; apply Z.leb_gt; lia).
        replace (len (snaps s) >? S_ - 1) with false in * by (symmetry; rewrite Z.gtb_ltb; apply Z.ltb_ge; unfold free in *; lia).
        cbn [Good]. eexists. split.
        -- apply (exec_fwd_cp x (n_ s) (adv + n_ s) true); try assumption; try lia; try discriminate.
           rewrite Hst. unfold len in *. rewrite map_length. unfold free, len in Hfree. lia.
        -- unfold Inv, norm, InvCore. cbn [pcv mk n_ r_ snaps rr store endfwd wdeps wics done fwd]. cbn zeta.
           rewrite len_cons, Hst. cbn [map enc]. unfold free in *. cbn [snaps mk]. rewrite len_cons.
           fin. left. cbn [WF segsC].
           splits; auto; try lia; try discriminate.
           ++ cbn [in_snaps existsb fst snd]. destruct (Z.eqb_spec (n_ s) (adv + n_ s)); [lia|]. cbn [orb].
              apply (in_snaps_WF _ (n_ s)); [exact Hwf|lia].
           ++ specialize (HCi eq_refl).
              replace (N - r_ s - (adv + n_ s)) with (N - r_ s - n_ s - adv) by lia.
              replace (S_ - (len (snaps s) + 1)) with (S_ - len (snaps s) - 1) by lia.
              replace (adv + n_ s - n_ s) with adv by lia. lia.
      * (* dependency checkpoint *)
        replace (1 + n_ s =? n_ s + 1) with true by (symmetry; apply Z.eqb_eq; lia). cbn [negb].
        replace (len (snaps s) >? S_ - 1) with false by (symmetry; rewrite Z.gtb_ltb; apply Z.ltb_ge; unfold free in *; lia).
        cbn [Good]. eexists. split.
        -- apply (exec_fwd_cp x (n_ s) (1 + n_ s) false); try assumption; try lia.
           rewrite Hst. unfold len in *. rewrite map_length. unfold free, len in Hfree. lia.
        -- unfold Inv, norm, InvCore. cbn [pcv mk n_ r_ snaps rr store endfwd wdeps wics done fwd]. cbn zeta.
           rewrite len_cons, Hst. cbn [map enc]. unfold free in *. cbn [snaps mk]. rewrite len_cons.
           fin. left. cbn [WF segsC].
           splits; auto; try lia; try discriminate.
           ++ cbn [in_snaps existsb fst snd]. destruct (Z.eqb_spec (n_ s) (1 + n_ s)); [lia|]. cbn [orb].
              apply (in_snaps_WF _ (n_ s)); [exact Hwf|lia].
           ++ specialize (HCa eq_refl).
              replace (N - r_ s - (1 + n_ s)) with (N - r_ s - n_ s - 1) by lia.
              replace (S_ - (len (snaps s) + 1)) with (S_ - len (snaps s) - 1) by lia. lia.
  - (* A2 : re-advance from a kept restart checkpoint *)
    destruct HA2 as (e & rest & Hsn & Hwf & Hf & Hwd & Hk & -> & Hr1 & HPhi).
    rewrite Hsn in Hwf, HPhi, Hlen, Hst. cbn [WF] in Hwf. destruct Hwf as (Hp0 & Hph & Hics & _ & _ & Hwfr).
    destruct (Hics eq_refl) as [Hm He]. rewrite len_cons in Hlen.
    cbn [resume]. rewrite Epc. replace (n_ s <? N - r_ s) with true by (symmetry; apply Z.ltb_lt; lia).
    rewrite Hsn. cbn [in_snaps existsb fst snd]. rewrite Z.eqb_refl. cbn [orb].
    replace (S_ - len ((KIcs, n_ s, e) :: rest) + 1) with (S_ - len rest) by (rewrite len_cons; lia).
    replace ((S_ - len rest <? 1) && (2 <=? N - r_ s - n_ s)) with false
      by (symmetry; apply andb_false_iff; left; apply Z.ltb_ge; lia).
    destruct (plan (N - r_ s - n_ s) (S_ - len rest)) as [kd adv] eqn:Ep. cbn [fst] in Hk. subst kd.
    pose proof (plan_ge2 (N - r_ s - n_ s) (S_ - len rest) ltac:(lia) ltac:(lia)) as Hpl. rewrite Ep in Hpl. cbn [fst snd] in Hpl.
    pose proof (C_ics (N - r_ s - n_ s) (S_ - len rest) ltac:(lia) ltac:(lia)) as HCi. rewrite Ep in HCi. cbn [fst snd] in HCi.
    destruct Hpl as [(_ & Hadv & Hkk) | (Hc & _)]; [|discriminate].
    cbn [kind_eqb andb negb orb]. rewrite ?Z.eqb_refl. cbn [negb orb andb].
    replace (e <? adv + n_ s) with false by (symmetry; apply Z.ltb_ge; lia).
    replace (adv + n_ s <=? n_ s + 1) with false by (symmetry; apply Z.leb_gt; lia).
    cbn [Good]. eexists. split.
    + apply (exec_fwd_work x (n_ s) (adv + n_ s) false); try assumption; try lia; discriminate.
    + unfold Inv, norm, InvCore. cbn [pcv mk n_ r_ snaps rr store endfwd wdeps wics done fwd]. cbn zeta.
      rewrite len_cons. unfold free. cbn [snaps mk]. rewrite len_cons.
      fin. left. cbn [WF segsC].
      splits; auto; try lia; try discriminate.
      * cbn [in_snaps existsb fst snd]. destruct (Z.eqb_spec (n_ s) (adv + n_ s)); [lia|]. cbn [orb].
        apply (in_snaps_WF _ (n_ s)); [exact Hwfr|lia].
      * specialize (HCi eq_refl). cbn [segsC] in HPhi.
        replace (N - r_ s - (adv + n_ s)) with (N - r_ s - n_ s - adv) by lia.
        replace (S_ - (len rest + 1)) with (S_ - len rest - 1) by lia.
        replace (adv + n_ s - n_ s) with adv by lia. lia.
  - (* A3 : sweep finished, at the adjoint position *)
    destruct HA3 as (Hn & Hstype & Hwf & Hwd & Hwi & Hh & Hf0 & HPhi).
    cbn [resume]. rewrite Epc. replace (n_ s <? N - r_ s) with false by (symmetry; apply Z.ltb_ge; lia).
    replace (n_ s =? N - r_ s) with true by (symmetry; apply Z.eqb_eq; lia). cbn [negb].
    replace (negb match stype with None | Some KFR => true | _ => false end) with false
      by (destruct Hstype as [-> | ->]; reflexivity).
    destruct (Z.eqb_spec (r_ s) 0) as [Hr0|Hr0].
    + cbn [Good]. eexists. split.
      * apply exec_endfwd; [rewrite Hef; reflexivity|]. rewrite (Hf0 Hr0). f_equal. lia.
      * unfold Inv, norm, InvCore. cbn [pcv mk n_ r_ snaps rr store endfwd wdeps wics done fwd]. cbn zeta.
        fin.
    + apply dorev_ok; [|reflexivity].
      unfold InvCore. cbn [pcv mk n_ r_ snaps]. cbn zeta. fin.
Qed.

Lemma resume_afteradj s f n0 n1 : pcv s = PAfterAdj n0 n1 ->
  resume (S (S f)) s = resume (S f) (mk (PInner (Some KAdj)) (n_ s) (r_ s) ((KAdj, n0, n1) :: snaps s)).
Proof. intros E. change (resume (S (S f)) s) with (match pcv s with PAfterAdj a b => resume (S f) (mk (PInner (Some KAdj)) (n_ s) (r_ s) ((KAdj, a, b) :: snaps s)) | _ => resume (S (S f)) s end) || idtac. remember (S f) as g. cbn [resume]. rewrite E. reflexivity. Qed.
Lemma resume_afterics s f n0 n1 : pcv s = PAfterIcs n0 n1 -> (len (snaps s) >? S_ - 1) = false ->
  resume (S (S f)) s = resume (S f) (mk (PInner (Some KIcs)) (n_ s) (r_ s) ((KIcs, n0, n1) :: snaps s)).
Proof. intros E G. remember (S f) as g. cbn [resume]. rewrite E, G. reflexivity. Qed.

Theorem step_ok s x f : Inv s x -> Good x (resume (S (S (S f))) s) (pcv s = PDone).
Proof.
  unfold Inv. intros Hinv. destruct (pcv s) eqn:Epc.
  - unfold norm in Hinv. rewrite Epc in Hinv.
    pose proof (inner_ok s x (S f) stype Hinv Epc) as H. destruct (resume (S (S (S f))) s) as [s' [a| |]]; cbn [Good] in *; try tauto.
  - (* PAfterAdj *)
    assert (Hn : norm s = mk (PInner (Some KAdj)) (n_ s) (r_ s) ((KAdj, n0, n1) :: snaps s)) by (unfold norm; rewrite Epc; reflexivity).
    rewrite (resume_afteradj s (S f) n0 n1 Epc). rewrite Hn in Hinv.
    pose proof (inner_ok _ x f (Some KAdj) Hinv eq_refl) as H.
    destruct (resume (S (S f)) _) as [s' [a| |]]; cbn [Good] in *; tauto.
  - (* PAfterIcs *)
    assert (Hn : norm s = mk (PInner (Some KIcs)) (n_ s) (r_ s) ((KIcs, n0, n1) :: snaps s)) by (unfold norm; rewrite Epc; reflexivity).
    rewrite Hn in Hinv.
    pose proof Hinv as (_ & _ & _ & Hlen & _). cbn [snaps mk] in Hlen. rewrite len_cons in Hlen.
    rewrite (resume_afterics s (S f) n0 n1 Epc) by (rewrite Z.gtb_ltb; apply Z.ltb_ge; lia).
    pose proof (inner_ok _ x f (Some KIcs) Hinv eq_refl) as H.
    destruct (resume (S (S f)) _) as [s' [a| |]]; cbn [Good] in *; tauto.
  - unfold norm in Hinv. rewrite Epc in Hinv.
    pose proof (dorev_ok s x (S (S f)) Hinv Epc) as H. destruct (resume (S (S (S f))) s) as [s' [a| |]]; cbn [Good] in *; tauto.
  - unfold norm in Hinv. rewrite Epc in Hinv.
    pose proof (afterrev_ok s x (S (S f)) Hinv Epc) as H. destruct (resume (S (S (S f))) s) as [s' [a| |]]; cbn [Good] in *; tauto.
  - cbn [resume]. rewrite Epc. cbn [Good]. reflexivity.
Qed.

Theorem done_total s x : Inv s x -> pcv s = PDone -> done x = C N S_ /\ store x = [].
Proof.
  unfold Inv, norm. intros H Epc. rewrite Epc in H. destruct H as (_ & _ & Hst & _ & Hpc). rewrite Epc in Hpc.
  destruct Hpc as (_ & Hsn & Hd). rewrite Hsn in Hst. split; assumption.
Qed.
(* where the generator stands after each kind of action (termination measure of the bridge) *)
Definition after_ok (a : action) (q : pc) : bool :=
  match a, q with
  | Forward _ _ _ _ _, PInner (Some _) | Forward _ _ _ _ _, PAfterAdj _ _ | Forward _ _ _ _ _, PAfterIcs _ _ => true
  | EndForward, PDoRev => true | Reverse _ _ _, PAfterRev => true
  | Copy _ _ _, PInner None | Move _ _ _, PInner None => true
  | EndReverse, PDone => true | _, _ => false end.
Lemma resume_pc : forall f s t a, resume f s = (t, Act a) -> after_ok a (pcv t) = true.
Proof.
  induction f as [|f IH]; intros s t a H; cbn [resume] in H; [discriminate|].
  destruct s as [q n r sn]. cbn [pcv n_ r_ snaps] in H.
  destruct q as [stype|n0 n1|n0 n1| | |];
    repeat match type of H with
    | context [match ?x with _ => _ end] => let E := fresh "E" in destruct x eqn:E
    | context [if ?x then _ else _] => let E := fresh "E" in destruct x eqn:E
    | context [let '(_, _) := ?x in _] => let E := fresh "E" in destruct x eqn:E
    end; try discriminate; try (injection H as <- <-; reflexivity); try (apply IH in H; exact H).
Qed.
Definition before_ok (a : action) (q : pc) : bool :=
  match a, q with
  | Forward _ _ _ _ _, PInner _ | Forward _ _ _ _ _, PAfterAdj _ _ | Forward _ _ _ _ _, PAfterIcs _ _ => true
  | EndForward, PInner _ | EndForward, PAfterAdj _ _ | EndForward, PAfterIcs _ _ => true
  | Reverse _ _ _, PDoRev | Reverse _ _ _, PInner _ | Reverse _ _ _, PAfterAdj _ _ | Reverse _ _ _, PAfterIcs _ _ => true
  | Copy _ _ _, PAfterRev | Move _ _ _, PAfterRev | EndReverse, PAfterRev => true
  | _, _ => false end.
Lemma resume_src : forall f s t a, resume f s = (t, Act a) -> before_ok a (pcv s) = true.
Proof.
  induction f as [|f IH]; intros s t a H; cbn [resume] in H; [discriminate|].
  destruct s as [q n r sn]. cbn [pcv n_ r_ snaps] in H.
  destruct q as [stype|n0 n1|n0 n1| | |];
    repeat match type of H with
    | context [match ?x with _ => _ end] => let E := fresh "E" in destruct x eqn:E
    | context [if ?x then _ else _] => let E := fresh "E" in destruct x eqn:E
    | context [let '(_, _) := ?x in _] => let E := fresh "E" in destruct x eqn:E
    end; try discriminate; try (injection H as <- <-; reflexivity);
    try (apply IH in H; cbn [mk pcv] in H; destruct a; cbn in *; congruence).
Qed.
End MIX.
Print Assumptions step_ok.
Print Assumptions done_total.
