(* C11: if an emitted action writes a checkpoint to RAM / DISK, or copies / moves one from or to it, then
   uses_storage_type of that storage is True -- for every state of the extracted objects (no invariant needed),
   classes None, SingleMemory, SingleDisk, TwoLevel, Multistage, Mixed. *)
From Coq Require Import ZArith List Lia Bool.
Require Import Actions NAdvance Multistage Mixed Online Ops RevConv Exec Sched.
Import ListNotations.
Open Scope Z_scope.

Definition touches (a : action) (sg : storage) : Prop :=
  is_cp sg = true /\
  match a with
  | Forward _ _ wi wa s => s = sg /\ (wi || wa) = true
  | Copy _ s d | Move _ s d => s = sg \/ d = sg
  | _ => False end.

(* ---- the online classes: every state ---- *)
Lemma online_resume_touch : forall f o o' a sg, Online.resume f o = (o', Yield a) -> touches a sg ->
  uses {| ob := OOnline o; started := true |} sg = UTrue /\ Online.k o' = Online.k o.
Proof.
  induction f as [|f IH]; intros o o' a sg H Ht; [discriminate|].
  destruct o as [kl q b sn e]. cbn [Online.resume Online.k Online.pcv Online.b] in H.
  destruct Ht as [Hcp Ht].
  destruct kl as [| |mv|P bs bst tj]; destruct q; cbn [uses ob Online.k];
    repeat match type of H with
    | (match ?x with _ => _ end) = _ => destruct x eqn:?
    | (if ?c then _ else _) = _ => destruct c eqn:?
    end;
    try discriminate;
    try (injection H as <- <-; cbn [touches Online.k set_pc upd] in *;
         repeat match goal with Hx : context [if ?c then _ else _] |- _ => destruct c end;
         repeat match goal with
         | Ht : _ /\ _ |- _ => destruct Ht
         | Ht : _ \/ _ |- _ => destruct Ht
         | Ht : False |- _ => contradiction
         end; subst; cbn in *; try discriminate;
         repeat match goal with |- context [st_eqb ?a ?b] => destruct a; cbn; try discriminate end; auto);
    try (destruct (IH _ _ _ sg H (conj Hcp Ht)) as [H1 H2]; split; [exact H1|exact H2]).
Qed.

(* ---- Multistage: the storage named is a label, and a label that occurs is counted ---- *)
Lemma count_pos_of_In sg l : In sg l -> 0 < count_st sg l.
Proof.
  unfold count_st. induction l as [|x l IH]; [contradiction|]. intros [->|H]; cbn [filter].
  - assert (E : st_eqb sg sg = true) by (destruct sg; reflexivity). rewrite E. cbn [length]. lia.
  - specialize (IH H). destruct (st_eqb sg x); cbn [length]; lia.
Qed.
Lemma label_In c d lb : label c d = Ok lb -> In lb (labels c).
Proof. unfold label. destruct (nth_error (labels c) d) eqn:E; [|discriminate]. intros H; injection H as <-. eapply nth_error_In; eassumption. Qed.
Lemma ms_resume_touch : forall f c s s' a sg, Multistage.resume f c s = (s', Yield a) -> touches a sg -> In sg (labels c).
Proof.
  induction f as [|f IH]; intros c s s' a sg H [Hcp Ht]; [discriminate|].
  cbn [Multistage.resume] in H.
  destruct (Multistage.pcv s);
    repeat match type of H with
    | (match ?x with _ => _ end) = _ => destruct x eqn:?
    | (if ?c then _ else _) = _ => destruct c eqn:?
    | (let (_, _) := ?x in _) = _ => destruct x eqn:?
    end; try discriminate;
    try (injection H as <- <-; cbn [touches] in Ht;
         repeat match goal with
         | Ht : _ /\ _ |- _ => destruct Ht
         | Ht : _ \/ _ |- _ => destruct Ht
         | Ht : False |- _ => contradiction
         end; subst; cbn in *; try discriminate; try (eapply label_In; eassumption));
    try (eapply IH; [eassumption|split; assumption]).
Qed.

(* ---- Mixed: the only checkpoint storage is the configured one ---- *)
Lemma mixed_resume_touch : forall f c s s' a sg, Mixed.resume f c s = (s', Yield a) -> touches a sg -> is_cp (Mixed.stg c) = true -> sg = Mixed.stg c.
Proof.
  induction f as [|f IH]; intros c s s' a sg H [Hcp Ht] Hc; [discriminate|].
  cbn [Mixed.resume] in H.
  destruct (Mixed.pcv s);
    repeat match type of H with
    | (match ?x with _ => _ end) = _ => destruct x eqn:?
    | (if ?c then _ else _) = _ => destruct c eqn:?
    | (let (_, _) := ?x in _) = _ => destruct x eqn:?
    end; try discriminate;
    try (injection H as <- <-; cbn [touches] in Ht;
         repeat match goal with Hx : context [if ?c then _ else _] |- _ => destruct c end;
         repeat match goal with
         | Ht : _ /\ _ |- _ => destruct Ht
         | Ht : _ \/ _ |- _ => destruct Ht
         | Ht : False |- _ => contradiction
         end; subst; cbn in *; try discriminate; try reflexivity; auto);
    try (eapply IH; [eassumption|split; assumption|assumption]).
Qed.

(* ---- the schedule object: if next() yields an action touching RAM / DISK then uses_storage_type of it is True,
        before and after (the answer never changes) ---- *)
Definition well_built (s : sched) : Prop :=
  match ob s with
  | OOnline _ => True
  | OMulti c _ ram disk => ram = count_st RAM (labels c) /\ disk = count_st DISK (labels c)
  | OMixed _ _ sg _ _ _ _ => is_cp sg = true
  | ORevF _ _ _ _ _ => False          (* Revolve family: not covered by this theorem *)
  end.
Theorem touch_implies_uses s s' a sg : well_built s -> Sched.next s = (s', Yield a) -> touches a sg ->
  uses s sg = UTrue /\ uses s' sg = UTrue.
Proof.
  unfold well_built, Sched.next. destruct s as [o stt]. cbn [ob]. destruct o as [o|c m ram disk|n sn sg0 tab plan m fin|? ? ? ? ?]; [| | |contradiction].
  - intros _ H Ht. unfold Online.next in H. destruct (Online.resume 4 o) as [o1 out] eqn:E.
    destruct out as [a0| |e0]; try (injection H as _ Hd; discriminate Hd). injection H as Hs Ha. subst a0 s'.
    destruct (online_resume_touch 4 o o1 a sg E Ht) as [Hu Hk].
    split; [exact Hu|]. cbn [uses ob] in *. rewrite Hk. exact Hu.
  - intros [-> ->] H Ht. unfold Multistage.next in H. destruct (Multistage.resume 3 c m) as [m1 out] eqn:E.
    destruct out as [a0| |e0]; try (injection H as _ Hd; discriminate Hd). injection H as Hs Ha. subst a0 s'.
    pose proof (ms_resume_touch 3 c m m1 a sg E Ht) as Hin. pose proof (count_pos_of_In sg _ Hin) as Hpos.
    destruct Ht as [Hcp _]. cbn [uses ob ub]. destruct sg; cbn in Hcp; try discriminate;
      (replace (0 <? _) with true by (symmetry; apply Z.ltb_lt; exact Hpos)); auto.
  - intros Hsg H Ht. destruct fin; [injection H as _ Hd; discriminate Hd|].
    set (planr := match plan with Some f => Ok f | None => _ end) in H. destruct planr as [f|e]; [|injection H as _ Hd; discriminate Hd].
    destruct (Mixed.resume 3 _ m) as [m1 out] eqn:E. injection H as Hs Ho. subst out s'.
    pose proof (mixed_resume_touch 3 _ m m1 a sg E Ht Hsg) as Heq. cbn [Mixed.stg] in Heq. subst sg.
    cbn [uses ob ub]. assert (E1 : st_eqb sg0 sg0 = true) by (destruct sg0; reflexivity). rewrite E1. auto.
Qed.
Print Assumptions touch_implies_uses.
