(* C16, streams: MixedCheckpointSchedule emits the same stream, and shows the same observations, on the tabulated and on the
   memoised code path -- for every N, every unit count, both storages and any number of requests, on the extracted model. *)
From Coq Require Import ZArith List Lia Bool.
Require Import Actions Mixed Exec Sched RunFacts MixBridge.
Import ListNotations.
Open Scope Z_scope.

Lemma mon_step_ext p s1 s2 a m : get_max_n s1 = get_max_n s2 -> is_exhausted s1 = is_exhausted s2 -> get_n s1 = get_n s2 -> get_r s1 = get_r s2 ->
  mon_step p s1 a m = mon_step p s2 a m.
Proof. intros H1 H2 H3 H4. unfold mon_step. rewrite H1, H2, H3, H4. reflexivity. Qed.

Section PATHS.
Variable N S_ : Z. Variable stg : storage.
Hypothesis stg_cp : stg = RAM \/ stg = DISK.
Notation p := (pmx N S_ stg).

Lemma sim_run t1 t2 f2 : PlOK N S_ f2 -> forall k f1 ms fin stt m, J N S_ stg t1 (xsched N S_ stg t1 f1 ms fin stt) m -> mon_ok m ->
  let '(_, m1, l1) := run_ops p (xsched N S_ stg t1 f1 ms fin stt) m (repeat Next k) in
  let '(_, m2, l2) := run_ops p (xsched2 N S_ stg t2 f2 ms fin stt) m (repeat Next k) in m1 = m2 /\ l1 = l2.
Proof.
  intros Hf2. induction k as [|k IH]; intros f1 ms fin stt m HJ Hm; cbn [repeat run_ops]; [split; reflexivity|].
  destruct (next_plan_indep N S_ stg t1 stg_cp _ m f2 t2 HJ Hf2) as (f1' & ms0 & fin0 & stt0 & ms' & fin' & o & Esch & Hn1 & Hn2).
  unfold xsched in Esch. injection Esch as <- <- <- <-.
  pose proof (J_step N S_ stg t1 stg_cp _ m HJ Hm) as Hgood. unfold good_step in Hgood.
  rewrite Hn1 in Hgood. rewrite Hn1, Hn2.
  set (s1' := xsched N S_ stg t1 f1 ms' fin' true) in *. set (s2' := xsched2 N S_ stg t2 f2 ms' fin' true).
  assert (Hobs : observe s1' = observe s2') by reflexivity.
  destruct o as [a| |e]; [| |contradiction].
  - destruct Hgood as [Hm' HJ']. rewrite (mon_step_ext p s2' s1' a m) by reflexivity.
    specialize (IH f1 ms' fin' true _ HJ' Hm').
    fold s1' in IH. fold s2' in IH.
    destruct (run_ops p s1' (mon_step p s1' a m) (repeat Next k)) as [[sa ma] la].
    destruct (run_ops p s2' (mon_step p s1' a m) (repeat Next k)) as [[sb mb] lb]. destruct IH as [-> ->]. rewrite Hobs. split; reflexivity.
  - specialize (IH f1 ms' fin' true _ Hgood Hm). fold s1' in IH. fold s2' in IH.
    destruct (run_ops p s1' m (repeat Next k)) as [[sa ma] la].
    destruct (run_ops p s2' m (repeat Next k)) as [[sb mb] lb]. destruct IH as [-> ->]. rewrite Hobs. split; reflexivity.
Qed.
End PATHS.

Theorem mixed_paths_same_stream N s sg k : 1 <= N -> 0 <= s -> (2 <= N -> 1 <= s) -> sg = RAM \/ sg = DISK ->
  run_case (PMixed N s sg true) (pmx N (Z.min s (N - 1)) sg) (repeat Next k) = run_case (PMixed N s sg false) (pmx N (Z.min s (N - 1)) sg) (repeat Next k).
Proof.
  intros HN Hs0 Hs Hsg. unfold run_case, Sched.construct, Mixed.construct.
  destruct (Z.ltb_spec s (Z.min 1 (N - 1))); [lia|].
  assert (Hc : match sg with RAM | DISK => if N <? 1 then Err ValueError else Ok (Z.min s (N - 1)) | _ => Err ValueError end = Ok (Z.min s (N - 1))).
  { destruct (Z.ltb_spec N 1); [lia|]. destruct Hsg as [-> | ->]; reflexivity. }
  rewrite Hc. cbn [bind]. set (S_ := Z.min s (N - 1)).
  fold (sch0 N S_ sg true). fold (sch0 N S_ sg false).
  destruct k as [|k]; [reflexivity|]. cbn [repeat run_ops].
  destruct (start_J N S_ sg true HN ltac:(unfold S_; lia) ltac:(unfold S_; lia) Hsg) as (ft & Hft & Hnt & HJt).
  destruct (start_J N S_ sg false HN ltac:(unfold S_; lia) ltac:(unfold S_; lia) Hsg) as (fm & Hfm & Hnm & HJm).
  rewrite Hnt, Hnm.
  pose proof (sim_run N S_ sg Hsg true false fm Hfm (S k) ft (st0) false false mon0 HJt eq_refl) as Hsim.
  cbn [repeat run_ops] in Hsim. change (xsched2 N S_ sg false fm st0 false false) with (xsched N S_ sg false fm st0 false false) in Hsim.
  destruct (Sched.next (xsched N S_ sg true ft st0 false false)) as [s1 o1].
  destruct (Sched.next (xsched N S_ sg false fm st0 false false)) as [s2 o2].
  destruct (run_ops (pmx N S_ sg) s1 _ (repeat Next k)) as [[sa ma] la].
  destruct (run_ops (pmx N S_ sg) s2 _ (repeat Next k)) as [[sb mb] lb].
  destruct Hsim as [-> ->]. reflexivity.
Qed.
Print Assumptions mixed_paths_same_stream.
