(* C07 for HRevolve, part 2: the op list the extracted hrevolve (hrevolve_aux / hrevolve_recurse, two levels, w0 = r0 = 0)
   produces costs exactly the table value it was built from:
       level 0:  aux / recurse with cmem memory slots        cost = val cmem l + (l+1) uf
       level 1:  aux with cmem disk slots                    cost = B cmem l   + (l+1) uf
                 recurse with cmem disk slots                cost = C cmem l   + (l+1) uf
   with B, C the H-Revolve recurrence of HRevTable (Bv / Cm).  cost is DiskCost.cost (uf per forward step, ub per Backward,
   wd per disk write, rd per disk read; memory reads and writes are free, as HRevolve passes w0 = r0 = 0).
   The table facts used are exactly HRevTable.hopt_values. *)
From Coq Require Import ZArith List Lia Bool.
Require Import Actions Ops HRevSeq RevBridge1 HRevBridge1 Opt0Table DiskCost HRevTotal HRevTable HRevGen.
Require RevBlk RevGen RevCost HRevBlk RevBridge5.
Import ListNotations.
Open Scope Z_scope.

Import RevBlk.

(* argmin over finite costs is RevSeq.argmin *)
Lemma cle_fin x y : cle (Fin x) (Fin y) = (x <=? y).
Proof. unfold cle, clt. destruct (Z.ltb_spec y x), (Z.leb_spec x y); try reflexivity; lia. Qed.
Lemma argmin_aux_fin : forall zs i b m, HRevSeq.argmin_aux (map Fin zs) i b (Fin m) = RevSeq.argmin_aux zs i b m.
Proof. induction zs as [|x r IH]; intros i b m; cbn [map HRevSeq.argmin_aux RevSeq.argmin_aux]; [reflexivity|]. rewrite cle_fin. destruct (x <=? m); apply IH. Qed.
Lemma argmin_fin zs : HRevSeq.argmin (map Fin zs) = RevSeq.argmin zs.
Proof. destruct zs as [|x r]; [reflexivity|]. unfold HRevSeq.argmin, RevSeq.argmin. cbn [map]. apply (argmin_aux_fin (x :: r)). Qed.

Lemma zmin_argmin' lm : lm <> [] -> nth_error lm (Z.to_nat (RevSeq.argmin lm - 1)) = Some (RevSeq.zmin_list lm 0).
Proof.
  intros Hne. rewrite RevBridge5.argmin_eq. destruct (RevCost.argmin_min lm Hne) as (x & Hx & Hmin). rewrite Hx. f_equal.
  pose proof (zmin_list_in lm 0 Hne) as Hin. pose proof (Hmin _ Hin). pose proof (zmin_list_le lm 0 x (nth_error_In _ _ Hx)). lia.
Qed.

(* the split the code takes realises the minimum of the candidate list *)
Lemma pick (g : Z -> Z) l : 2 <= l -> let zs := map g (zrange 1 l) in
  zs <> [] /\ 1 <= RevSeq.argmin zs <= l - 1 /\ g (RevSeq.argmin zs) = RevSeq.zmin_list zs 0.
Proof.
  intros Hl zs. assert (Hne : zs <> []) by (apply map_ne, zrange_ne; lia). split; [exact Hne|].
  assert (Hlen : length zs = Z.to_nat (l - 1)) by (unfold zs; rewrite map_length, zrange_length; reflexivity).
  assert (Hj : 1 <= RevSeq.argmin zs <= l - 1).
  { rewrite RevBridge5.argmin_eq. pose proof (RevGen.argmin_bound zs Hne). lia. }
  split; [exact Hj|]. pose proof (zmin_argmin' zs Hne) as Hz. unfold zs in Hz at 1. rewrite nth_error_map in Hz.
  change (zrange 1 l) with (RevGen.zrange 1 l) in Hz. rewrite RevCost.nth_zrange in Hz by lia. cbn [option_map] in Hz.
  replace (1 + Z.of_nat (Z.to_nat (RevSeq.argmin zs - 1))) with (RevSeq.argmin zs) in Hz by lia. congruence.
Qed.

Section HC.
Variable lmax c0 c1 uf ub wd rd : Z.
Hypothesis Hl : 0 <= lmax.
Hypothesis Hc0 : 1 <= c0.
Hypothesis Hc1 : 0 <= c1.
Hypothesis Huf : 0 < uf.
Hypothesis Hwd : 0 <= wd.
Hypothesis Hrd : 0 <= rd.
Variable T : tabs.
Hypothesis HT : get_hopt_table lmax c0 c1 0 wd 0 rd ub uf = Ok T.
Notation val := (Opt0Table.val uf ub).
Notation Cz := (fun m l => Cm uf ub wd rd c0 (Z.to_nat m) l).
Notation Bz := (fun m l => Bv uf ub rd c0 (Cm uf ub wd rd c0 (Z.to_nat (m - 1))) l).
Notation cost := (DiskCost.cost uf ub wd rd).
Notation p := {| c0v := c0; c1v := c1; w0v := 0; w1v := wd; r0v := 0; r1v := rd; ufv := uf; ubv := ub |}.

Let HV := hopt_values lmax c0 c1 uf ub wd rd Hl Hc0 Hc1 (Z.lt_le_incl _ _ Huf) Hwd T HT.

Lemma g0 l m : 0 <= l <= lmax -> 0 <= m <= c0 -> l = 0 \/ 1 <= m -> get (opt0 T) l m = Ok (Fin (val m l)) /\ get (optp0 T) l m = Ok (Fin (val m l)).
Proof. intros A B C. exact (proj1 (proj2 HV) l m A B C). Qed.
Lemma g1 l m : 0 <= l <= lmax -> 0 <= m <= c1 -> get (opt1 T) l m = Ok (Fin (Cz m l)).
Proof. intros A B. exact (proj1 (proj2 (proj2 HV)) l m A B I). Qed.
Lemma g1p l m : 0 <= l <= lmax -> 0 <= m <= c1 -> l <= 1 \/ 1 <= m -> get (optp1 T) l m = Ok (Fin (Bz m l)).
Proof. intros A B C. exact (proj2 (proj2 (proj2 HV)) l m A B C). Qed.

Lemma cost_adj o : cost (adj o) = uf + ub.
Proof. unfold DiskCost.cost, adj. cbn [RevCost.work nB nWD nRD]. lia. Qed.
Lemma cost_l1 wm : cost (wmop wm 0 ++ [OF 0 (0 + 1)] ++ adj (0 + 1) ++ tail0 0) = val 1 1 + (1 + 1) * uf.
Proof. rewrite val_1. destruct wm; unfold DiskCost.cost, wmop, adj, tail0; cbn [app RevCost.work nB nWD nRD]; lia. Qed.

Lemma cost_F a b : cost [OF a b] = uf * (b - a).
Proof. unfold DiskCost.cost. cbn [RevCost.work nB nWD nRD]. lia. Qed.
Lemma cost_cons_F a b r : cost (OF a b :: r) = uf * (b - a) + cost r.
Proof. unfold DiskCost.cost. cbn [RevCost.work nB nWD nRD]. lia. Qed.
Lemma cost_free o : match o with OF _ _ | OB _ _ | ORD _ | OWD _ => False | _ => True end -> forall r, cost (o :: r) = cost r.
Proof. intros Ho r. unfold DiskCost.cost. destruct o; try contradiction; cbn [RevCost.work nB nWD nRD]; reflexivity. Qed.
Lemma cost_tail0 o : cost (tail0 o) = uf + ub.
Proof. unfold DiskCost.cost, tail0. cbn [RevCost.work nB nWD nRD]. lia. Qed.
Lemma cost_nil : cost [] = 0.
Proof. unfold DiskCost.cost. cbn [RevCost.work nB nWD nRD]. lia. Qed.

(* ---- level 0 ---- *)
Lemma cost0 : forall f l cmem, 0 <= l <= lmax -> 0 <= cmem <= c0 ->
  (forall s, aux f p T l 0 cmem = Ok s -> exists s0, s = map injH s0 /\ Blk false 0 l cmem s0 /\ cost s0 = val cmem l + (l + 1) * uf /\ (l = 0 -> s0 = adj 0) /\ (1 <= l -> endsD s0)) /\
  (forall s, recurse f p T l 0 cmem = Ok s -> exists s0, s = map injH s0 /\ Blk true 0 l cmem s0 /\ cost s0 = val cmem l + (l + 1) * uf).
Proof.
  induction f as [|f IH]; intros l cmem Hll Hcm; [split; intros s H; discriminate|]. split; intros s H.
  - cbn [aux] in H.
    destruct (Z.eqb_spec cmem 0) as [->|Hc0']; [discriminate|].
    destruct (Z.eqb_spec l 0) as [->|Hl0].
    { injection H as <-. exists (adj 0). split; [reflexivity|]. split; [apply B0n|]. split; [rewrite cost_adj, val_0; lia|]. split; [reflexivity|lia]. }
    destruct (Z.eqb_spec l 1) as [->|Hl1].
    { unfold rvec in H. cbn [Z.eqb w0v r0v Z.add Z.ltb Z.compare] in H. injection H as <-.
      exists (wmop false 0 ++ [OF 0 (0 + 1)] ++ adj (0 + 1) ++ tail0 0). split; [reflexivity|]. split; [apply B1; lia|]. split; [rewrite cost_l1, !val_1; reflexivity|]. split; [lia|].
      intros _. exists ([OF 0 (0 + 1)] ++ adj (0 + 1) ++ [ORM 0; OWFM (0 + 1); OF 0 (0 + 1); OB (0 + 1) 0; ODFM (0 + 1)]). reflexivity. }
    cbn [Z.eqb andb] in H.
    destruct (Z.eqb_spec cmem 1) as [->|Hc1'].
    { injection H as <-.
      destruct (Z.to_nat l) as [|k] eqn:Ek; [lia|]. cbn [HRevSeq.cm1_loop].
      destruct (Z.eqb_spec (l - 1) (l - 1)); [|lia]. destruct (Z.eqb_spec (l - 1 + 1) 0); [lia|].
      cbn [app]. replace (l - 1 + 1) with l by lia. replace (l - 1 + 2) with (l + 1) by lia.
      replace (l - 1 - 1) with (Z.of_nat k - 1) by lia. rewrite cm1_rest by lia.
      replace k with (Z.to_nat (l - 1)) by lia.
      exists (wmop false 0 ++ [OF 0 (0 + l)] ++ adj (0 + l) ++ loop1 (Z.to_nat (l - 1)) 0 ++ tail0 0). split.
      { replace (0 + l) with l by lia. unfold adj, tail0. cbn [wmop app map injH]. rewrite map_app. reflexivity. }
      split; [apply Bc1; lia|]. split.
      { destruct (loop1_counts (Z.to_nat (l - 1)) 0) as (A & B & C & D). pose proof (P_c1 l ltac:(lia)) as HP.
        cbn [wmop app]. rewrite cost_cons_F, !cost_app, cost_adj, cost_tail0. unfold DiskCost.cost at 1. rewrite A, B, C. unfold Opt0Table.val. nia. }
      split; [lia|]. intros _.
      exists ([OF 0 (0 + l)] ++ adj (0 + l) ++ loop1 (Z.to_nat (l - 1)) 0 ++ [ORM 0; OWFM (0 + 1); OF 0 (0 + 1); OB (0 + 1) 0; ODFM (0 + 1)]).
      unfold tail0. cbn [wmop]. rewrite <- !app_assoc. reflexivity. }
    cbn [ufv r0v] in H.
    set (g := fun j => j * uf + val (cmem - 1) (l - j) + 0 + val cmem (j - 1)).
    match type of H with (do lm <- map_res ?F ?L; _) = _ => assert (Elm : map_res F L = Ok (map Fin (map g L))) end.
    { apply map_res_fin. intros j Hj. apply in_zrange in Hj.
      destruct (g0 (l - j) (cmem - 1) ltac:(lia) ltac:(lia) ltac:(lia)) as [-> _]. cbn [bind].
      destruct (g0 (j - 1) cmem ltac:(lia) ltac:(lia) ltac:(lia)) as [_ ->]. reflexivity. }
    rewrite Elm in H. cbn [bind] in H.
    destruct (g0 l 1 ltac:(lia) ltac:(lia) ltac:(lia)) as [_ E]. rewrite E in H. cbn [bind] in H. clear E.
    destruct (pick g l ltac:(lia)) as (Hne & Hj & Hg). rewrite cmin_list_fin in H by exact Hne. cbn [clt] in H.
    pose proof (val_rec uf ub (Z.lt_le_incl _ _ Huf) cmem l ltac:(lia) ltac:(lia)) as Hrec. fold g in Hrec.
    destruct (Z.ltb_spec (RevSeq.zmin_list (map g (zrange 1 l)) 0) (val 1 l)) as [Hlt|Hge].
    + rewrite argmin_fin in H. set (j := RevSeq.argmin (map g (zrange 1 l))) in *.
      destruct (recurse f p T (l - j) 0 (cmem - 1)) as [s1|] eqn:E1; cbn [bind] in H; [|discriminate].
      destruct (aux f p T (j - 1) 0 cmem) as [s2|] eqn:E2; cbn [bind] in H; [|discriminate].
      destruct (proj2 (IH (l - j) (cmem - 1) ltac:(lia) ltac:(lia)) s1 E1) as (s10 & -> & B1' & C1).
      destruct (proj1 (IH (j - 1) cmem ltac:(lia) ltac:(lia)) s2 E2) as (s20 & -> & B2' & C2 & Hz2 & He2).
      apply (RevGen.Blk_shift j) in B1'. rewrite shift_injH in H.
      assert (Hval : g j + (l + 1) * uf = val cmem l + (l + 1) * uf) by lia.
      destruct (Z.eq_dec (j - 1) 0) as [Ej|Ej].
      * pose proof (Hz2 Ej) as ->.
        assert (Hlast : last_op ([Ops.OF 0 j] ++ map injH (RevGen.shift j s10) ++ [OR 0 0] ++ map injH (adj 0)) = Some (ODF 0 (0 + 1))).
        { rewrite !last_op_app by (repeat apply app_ne_r; discriminate). reflexivity. }
        rewrite Hlast in H. cbn [is_discard] in H. injection H as <-.
        exists (wmop false 0 ++ [OF 0 (0 + j)] ++ RevGen.shift j s10 ++ [ORM 0] ++ (adj 0 ++ [ODM 0])). split.
        { cbn [wmop]. rewrite !map_app. cbn [map injH app]. replace (0 + j) with j by lia. rewrite <- ?app_assoc. reflexivity. }
        split; [apply Bsp; try lia; [exact B1'|rewrite Ej; apply B0]|]. split.
        { cbn [wmop app]. rewrite cost_cons_F, cost_app, cost_shift, C1, (cost_free (ORM 0) I), cost_app, cost_adj, (cost_free (ODM 0) I), cost_nil.
          rewrite cost_adj in C2. unfold g in Hval. lia. }
        split; [lia|]. intros _.
        exists ([OF 0 (0 + j)] ++ RevGen.shift j s10 ++ [ORM 0] ++ adj 0). cbn [wmop]. rewrite <- !app_assoc. reflexivity.
      * destruct (He2 ltac:(lia)) as [pre Hpre].
        assert (Hlast : last_op ([Ops.OF 0 j] ++ map injH (RevGen.shift j s10) ++ [OR 0 0] ++ map injH s20) = Some (OD 0 0)).
        { rewrite Hpre, map_app. cbn [map injH]. rewrite !last_op_app by (repeat apply app_ne_r; discriminate). reflexivity. }
        rewrite Hlast in H. cbn [is_discard] in H. injection H as <-.
        exists (wmop false 0 ++ [OF 0 (0 + j)] ++ RevGen.shift j s10 ++ [ORM 0] ++ s20). split.
        { cbn [wmop]. rewrite !map_app. cbn [map injH app]. replace (0 + j) with j by lia. reflexivity. }
        split; [apply Bsp; try lia; assumption|]. split.
        { cbn [wmop app]. rewrite cost_cons_F, cost_app, cost_shift, C1, (cost_free (ORM 0) I), C2.
          unfold g in Hval. lia. }
        split; [lia|]. intros _.
        exists ([OF 0 (0 + j)] ++ RevGen.shift j s10 ++ [ORM 0] ++ pre). cbn [wmop]. rewrite Hpre, <- !app_assoc. reflexivity.
    + destruct (proj1 (IH l 1 Hll ltac:(lia)) s H) as (s0 & -> & B & C & Hz & He).
      exists s0. split; [reflexivity|]. split; [apply (Blk_mono _ _ _ _ _ B); lia|]. split; [rewrite C; lia|]. split; assumption.
  - cbn [recurse] in H.
    destruct (Z.eqb_spec l 0) as [->|Hl0].
    { injection H as <-. exists (adj 0). split; [reflexivity|]. split; [apply B0n|]. rewrite cost_adj, val_0; lia. }
    cbn [Z.eqb andb] in H. destruct (Z.eqb_spec cmem 0) as [->|Hc0']; [discriminate|].
    destruct (Z.eqb_spec l 1) as [->|Hl1].
    { injection H as <-. exists (wmop true 0 ++ [OF 0 (0 + 1)] ++ adj (0 + 1) ++ tail0 0). split; [reflexivity|]. split; [apply B1; lia|]. rewrite cost_l1, !val_1. reflexivity. }
    destruct (aux f p T l 0 cmem) as [s1|] eqn:E1; cbn [bind] in H; [|discriminate]. injection H as <-.
    destruct (proj1 (IH l cmem Hll Hcm) s1 E1) as (s0 & -> & B & C & _).
    exists (OWM 0 :: s0). split; [reflexivity|]. split; [apply Blk_add_wm; [exact B|lia]|]. rewrite (cost_free (OWM 0) I). exact C.
Qed.

(* ---- level 1 ---- *)
(* the grammar HRevBlk.HB with a budget d of disk slots, and with every disk write followed by the Forward that stores it:
   a written disk checkpoint (DW) occupies one slot while the segment it starts is reversed; the right part of a split is planned
   with one slot fewer, the left part (mode MLd: its checkpoint is on disk already) re-uses the slot; a schedule need not use
   every slot (DWeak). *)
Import HRevBlk.
Inductive HBd : Z -> mode -> Z -> Z -> list op -> Prop :=
 | DZ d m o : m <> MPw -> HBd d m o 0 (adj o)
 | DMem d m o l ops : m <> MPw -> Blk true o l c0 ops -> HBd d m o l ops
 | D1 d o : 1 <= d -> HBd d MLd o 1 ([OF o (o + 1)] ++ adj (o + 1) ++ [ORD o] ++ adj o ++ [ODM o])
 | DSplit d o l j s1 s2 : 1 <= d -> 2 <= l -> 1 <= j <= l - 1 -> HBd (d - 1) MTop (o + j) (l - j) s1 -> HBd d MLd o (j - 1) s2 ->
     HBd d MLd o l ([OF o (o + j)] ++ s1 ++ [ORD o] ++ s2)
 | DW d o l j s1 s2 : 1 <= d -> 2 <= l -> 1 <= j <= l - 1 -> HBd (d - 1) MTop (o + j) (l - j) s1 -> HBd d MLd o (j - 1) s2 ->
     HBd d MTop o l (OWD o :: [OF o (o + j)] ++ s1 ++ [ORD o] ++ s2)
 | DWeak d m o l s : 0 <= d -> HBd d m o l s -> HBd (d + 1) m o l s.

Lemma HBd_HB d m o l s : HBd d m o l s -> HB c0 m o l s.
Proof.
  induction 1 as [d m o Hm|d m o l ops Hm HB|d o Hd|d o l j s1 s2 Hd Hl2 Hj _ IH1 _ IH2|d o l j s1 s2 Hd Hl2 Hj _ IH1 _ IH2|d m o l s Hd _ IH].
  - apply HZ; exact Hm. - apply HMem; exact HB. - apply H1. - apply HSplit; try assumption; discriminate.
  - apply HW. apply HSplit; try assumption; discriminate. - exact IH.
Qed.
Lemma HBd_shift k d m o l s : HBd d m o l s -> HBd d m (o + k) l (RevGen.shift k s).
Proof.
  induction 1 as [d m o Hm|d m o l ops Hm HB|d o Hd|d o l j s1 s2 Hd Hl2 Hj _ IH1 _ IH2|d o l j s1 s2 Hd Hl2 Hj _ IH1 _ IH2|d m o l s Hd _ IH].
  - rewrite RevGen.shift_adj. apply DZ; exact Hm.
  - apply DMem; [exact Hm|]. apply RevGen.Blk_shift. exact HB.
  - rewrite !RevGen.shift_app, !RevGen.shift_adj. cbn [RevGen.shift map RevGen.shift1]. replace (o + 1 + k) with (o + k + 1) by lia. apply D1; exact Hd.
  - rewrite !RevGen.shift_app. cbn [RevGen.shift map RevGen.shift1]. fold (RevGen.shift k s1). fold (RevGen.shift k s2).
    replace (o + j + k) with (o + k + j) by lia. apply DSplit; try assumption. replace (o + k + j) with (o + j + k) by lia. exact IH1.
  - change (OWD o :: [OF o (o + j)] ++ s1 ++ [ORD o] ++ s2) with ([OWD o; OF o (o + j)] ++ s1 ++ [ORD o] ++ s2).
    rewrite !RevGen.shift_app. cbn [RevGen.shift map RevGen.shift1]. fold (RevGen.shift k s1). fold (RevGen.shift k s2).
    replace (o + j + k) with (o + k + j) by lia. apply DW; try assumption. replace (o + k + j) with (o + j + k) by lia. exact IH1.
  - apply DWeak; assumption.
Qed.

Lemma Cz_S m l : 1 <= m -> Cz m l = Z.min (val c0 l) (wd + Bz m l).
Proof. intros Hm. cbv beta. replace (Z.to_nat m) with (S (Z.to_nat (m - 1))) at 1 by lia. reflexivity. Qed.
Lemma Cz_0 m : Cz m 0 = ub.
Proof. cbv beta. destruct (Z.to_nat m) as [|k]; cbn [Cm]; [apply val_0|]. rewrite val_0, Bv_0. lia. Qed.
Lemma Cz_1 m : Cz m 1 = uf + 2 * ub.
Proof. cbv beta. destruct (Z.to_nat m) as [|k]; cbn [Cm]; [apply val_1|]. rewrite val_1, Bv_1. lia. Qed.
Lemma cost_cons_WD o r : cost (OWD o :: r) = wd + cost r.
Proof. unfold DiskCost.cost. cbn [RevCost.work nB nWD nRD]. lia. Qed.
Lemma cost_cons_RD o r : cost (ORD o :: r) = rd + cost r.
Proof. unfold DiskCost.cost. cbn [RevCost.work nB nWD nRD]. lia. Qed.
Lemma aux_no_slot f l K : forall s, aux f p T l K 0 <> Ok s.
Proof. intros s. destruct f; cbn [aux]; discriminate. Qed.

Lemma cost1 : forall f l cmem, 0 <= l <= lmax -> 0 <= cmem <= c1 ->
  (forall s, aux f p T l 1 cmem = Ok s -> exists s0, s = map injH s0 /\ cost s0 = Bz cmem l + (l + 1) * uf /\ HBd cmem MLd 0 l s0 /\
      (2 <= l -> Bz cmem l < val c0 l -> exists j s1 s2, s0 = [OF 0 (0 + j)] ++ s1 ++ [ORD 0] ++ s2 /\ 1 <= j <= l - 1 /\
                                                       HBd (cmem - 1) MTop (0 + j) (l - j) s1 /\ HBd cmem MLd 0 (j - 1) s2)) /\
  (forall s, recurse f p T l 1 cmem = Ok s -> exists s0, s = map injH s0 /\ cost s0 = Cz cmem l + (l + 1) * uf /\ HBd cmem MTop 0 l s0).
Proof.
  induction f as [|f IH]; intros l cmem Hll Hcm; [split; intros s H; discriminate|]. split; intros s H.
  - cbn [aux] in H.
    destruct (Z.eqb_spec cmem 0) as [->|Hcm0]; [discriminate|].
    destruct (Z.eqb_spec l 0) as [->|Hl0].
    { injection H as <-. exists (adj 0). split; [reflexivity|]. split; [rewrite cost_adj, Bv_0; lia|].
      split; [apply DZ; discriminate|lia]. }
    destruct (Z.eqb_spec l 1) as [->|Hl1].
    { unfold rvec in H. cbn [Z.eqb w0v r0v r1v Z.add] in H.
      destruct (Z.ltb_spec 0 rd); injection H as <-.
      - exists (wmop true 0 ++ [OF 0 (0 + 1)] ++ adj (0 + 1) ++ tail0 0). split; [reflexivity|]. split; [rewrite cost_l1, val_1, Bv_1; reflexivity|].
        split; [apply DMem; [discriminate|apply B1; exact Hc0]|lia].
      - exists ([OF 0 (0 + 1)] ++ adj (0 + 1) ++ [ORD 0] ++ adj 0 ++ [ODM 0]). split; [reflexivity|]. split.
        { cbn [app]. rewrite cost_cons_F, cost_app, cost_adj, cost_cons_RD, cost_app, cost_adj, (cost_free (ODM 0) I), cost_nil, Bv_1. lia. }
        split; [apply D1; lia|lia]. }
    cbn [Z.eqb andb] in H. unfold hopt, hoptp, rvec, cvec in H. change (1 - 1) with 0 in H. cbn [Z.eqb ufv r1v c0v] in H.
    set (Cp := Cm uf ub wd rd c0 (Z.to_nat (cmem - 1))) in *.
    set (g := candH uf rd Cp (Bv uf ub rd c0 Cp) l).
    match type of H with (do lm <- map_res ?F ?L; _) = _ => assert (Elm : map_res F L = Ok (map Fin (map g L))) end.
    { apply map_res_fin. intros j Hj. apply in_zrange in Hj.
      rewrite (g1 (l - j) (cmem - 1)) by lia. cbn [bind]. rewrite (g1p (j - 1) cmem) by lia. reflexivity. }
    rewrite Elm in H. cbn [bind] in H.
    destruct (g0 l c0 ltac:(lia) ltac:(lia) ltac:(lia)) as [E _]. rewrite E in H. cbn [bind] in H. clear E.
    destruct (pick g l ltac:(lia)) as (Hne & Hj & Hg). rewrite cmin_list_fin in H by exact Hne. cbn [clt] in H.
    pose proof (Bv_unfold uf ub rd c0 Cp l ltac:(lia)) as Hrec. fold g in Hrec.
    destruct (Z.ltb_spec (RevSeq.zmin_list (map g (zrange 1 l)) 0) (val c0 l)) as [Hlt|Hge].
    + rewrite argmin_fin in H. set (j := RevSeq.argmin (map g (zrange 1 l))) in *.
      destruct (recurse f p T (l - j) 1 (cmem - 1)) as [s1|] eqn:E1; cbn [bind] in H; [|discriminate].
      destruct (aux f p T (j - 1) 1 cmem) as [s2|] eqn:E2; cbn [bind] in H; [|discriminate].
      destruct (proj2 (IH (l - j) (cmem - 1) ltac:(lia) ltac:(lia)) s1 E1) as (s10 & -> & C1 & G1).
      destruct (proj1 (IH (j - 1) cmem ltac:(lia) ltac:(lia)) s2 E2) as (s20 & -> & C2 & G2 & _).
      rewrite shift_injH in H. injection H as <-.
      exists ([OF 0 (0 + j)] ++ RevGen.shift j s10 ++ [ORD 0] ++ s20). split.
      { rewrite !map_app. cbn [map injH app]. replace (0 + j) with j by lia. reflexivity. }
      split.
      { cbn [app]. rewrite cost_cons_F, cost_app, cost_shift, C1, cost_cons_RD, C2. fold Cp.
        set (z := RevSeq.zmin_list _ 0) in *. unfold g, candH in Hg. lia. }
      apply (HBd_shift j) in G1.
      split; [apply DSplit; try lia; assumption|]. intros _ _. exists j, (RevGen.shift j s10), s20. repeat split; try lia; assumption.
    + destruct (proj2 (cost0 f l c0 Hll ltac:(lia)) s H) as (s0 & -> & B & C).
      exists s0. split; [reflexivity|]. split; [rewrite C; lia|]. split; [apply DMem; [discriminate|exact B]|]. intros _ Hb. lia.
  - cbn [recurse] in H.
    destruct (Z.eqb_spec l 0) as [->|Hl0].
    { injection H as <-. exists (adj 0). split; [reflexivity|]. split; [rewrite cost_adj, Cz_0; lia|apply DZ; discriminate]. }
    cbn [Z.eqb andb] in H.
    destruct (Z.eqb_spec l 1) as [->|Hl1].
    { injection H as <-. exists (wmop true 0 ++ [OF 0 (0 + 1)] ++ adj (0 + 1) ++ tail0 0). split; [reflexivity|].
      split; [rewrite cost_l1, val_1, Cz_1; reflexivity|]. apply DMem; [discriminate|]. apply B1. exact Hc0. }
    unfold hopt, hoptp, cvec, wvec in H. change (1 - 1) with 0 in H. cbn [Z.eqb w1v c0v] in H.
    destruct (g0 l c0 ltac:(lia) ltac:(lia) ltac:(lia)) as [E _]. rewrite E in H. clear E.
    destruct (Z.eq_dec cmem 0) as [->|Hcm0].
    + destruct (get (optp1 T) l 0) as [a|]; cbn [bind] in H; [|discriminate].
      destruct (clt _ _).
      * destruct (aux f p T l 1 0) as [s1|] eqn:E1; [|discriminate]. exfalso. exact (aux_no_slot _ _ _ _ E1).
      * destruct (proj2 (cost0 f l c0 Hll ltac:(lia)) s H) as (s0 & -> & B & C). exists s0. split; [reflexivity|]. split; [exact C|apply DMem; [discriminate|exact B]].
    + rewrite (g1p l cmem) in H by lia. cbn [bind cadd clt] in H. rewrite (Cz_S cmem l) by lia.
      destruct (Z.ltb_spec (wd + Bz cmem l) (val c0 l)) as [Hlt|Hge].
      * destruct (aux f p T l 1 cmem) as [s1|] eqn:E1; cbn [bind] in H; [|discriminate]. injection H as <-.
        destruct (proj1 (IH l cmem Hll Hcm) s1 E1) as (s0 & -> & C & _ & G).
        destruct (G ltac:(lia) ltac:(lia)) as (j & s1' & s2' & -> & Hj & G1 & G2).
        exists (OWD 0 :: [OF 0 (0 + j)] ++ s1' ++ [ORD 0] ++ s2'). split; [reflexivity|]. split; [rewrite cost_cons_WD, C; lia|]. apply DW; try lia; assumption.
      * destruct (proj2 (cost0 f l c0 Hll ltac:(lia)) s H) as (s0 & -> & B & C). exists s0. split; [reflexivity|]. split; [rewrite C; lia|apply DMem; [discriminate|exact B]].
Qed.

(* ---- the recurrence is a lower bound on the grammar ---- *)
Lemma zmin_map_mono (f g : Z -> Z) L : L <> [] -> (forall x, In x L -> f x <= g x) -> RevSeq.zmin_list (map f L) 0 <= RevSeq.zmin_list (map g L) 0.
Proof.
  intros Hne Hfg. pose proof (zmin_list_in (map g L) 0 (map_ne g L Hne)) as Hin. apply in_map_iff in Hin. destruct Hin as (x & Hx & HxL).
  rewrite <- Hx. pose proof (zmin_list_le (map f L) 0 (f x) (in_map f L x HxL)). specialize (Hfg x HxL). lia.
Qed.
Lemma Bv_le_cand Cp l j : 2 <= l -> 1 <= j <= l - 1 -> Bv uf ub rd c0 Cp l <= candH uf rd Cp (Bv uf ub rd c0 Cp) l j.
Proof.
  intros Hl2 Hj. rewrite Bv_unfold by lia.
  assert (Hin : In (candH uf rd Cp (Bv uf ub rd c0 Cp) l j) (map (candH uf rd Cp (Bv uf ub rd c0 Cp) l) (zrange 1 l))) by (apply in_map, Opt0Table.in_zrange'; lia).
  pose proof (zmin_list_le _ 0 _ Hin). lia.
Qed.
Lemma Bv_mono Cp Cp' : (forall l, Cp' l <= Cp l) -> forall n l, (Z.to_nat l <= n)%nat -> Bv uf ub rd c0 Cp' l <= Bv uf ub rd c0 Cp l.
Proof.
  intros Hle. induction n as [|n IH]; intros l Hn.
  - destruct (Z.le_gt_cases l 0) as [Hl0|Hl0]; [|lia]. unfold Bv. cbn [Bf]. destruct (Z.leb_spec l 0); [lia|lia].
  - destruct (Z.le_gt_cases l 1) as [Hl1|Hl1].
    { unfold Bv. cbn [Bf]. destruct (Z.leb_spec l 0); [lia|]. destruct (Z.eqb_spec l 1); [lia|lia]. }
    rewrite !Bv_unfold by lia.
    assert (RevSeq.zmin_list (map (candH uf rd Cp' (Bv uf ub rd c0 Cp') l) (zrange 1 l)) 0 <= RevSeq.zmin_list (map (candH uf rd Cp (Bv uf ub rd c0 Cp) l) (zrange 1 l)) 0).
    { apply zmin_map_mono; [apply zrange_ne; lia|]. intros j Hj. apply Opt0Table.in_zrange' in Hj. unfold candH.
      specialize (Hle (l - j)). specialize (IH (j - 1) ltac:(lia)). lia. }
    lia.
Qed.
Lemma Cm_le_val m l : Cm uf ub wd rd c0 m l <= val c0 l.
Proof. destruct m; cbn [Cm]; lia. Qed.
Lemma Cm_mono : forall m l, Cm uf ub wd rd c0 (S m) l <= Cm uf ub wd rd c0 m l.
Proof.
  induction m as [|m IH]; intros l; [apply Cm_le_val|].
  change (Cm uf ub wd rd c0 (S (S m)) l) with (Z.min (val c0 l) (wd + Bv uf ub rd c0 (Cm uf ub wd rd c0 (S m)) l)).
  change (Cm uf ub wd rd c0 (S m) l) with (Z.min (val c0 l) (wd + Bv uf ub rd c0 (Cm uf ub wd rd c0 m) l)).
  pose proof (Bv_mono _ _ IH (Z.to_nat l) l ltac:(lia)). lia.
Qed.
Lemma Cm_antitone : forall m m' l, (m <= m')%nat -> Cm uf ub wd rd c0 m' l <= Cm uf ub wd rd c0 m l.
Proof. intros m m' l Hmm. induction Hmm as [|m' _ IH]; [lia|]. pose proof (Cm_mono m' l). lia. Qed.
Lemma Bz_mono d l : 0 <= d -> Bz (d + 1) l <= Bz d l.
Proof.
  intros Hd. cbv beta. replace (d + 1 - 1) with d by lia. destruct (Z.eq_dec d 0) as [->|Hd0]; [reflexivity|].
  replace (Z.to_nat d) with (S (Z.to_nat (d - 1))) by lia. apply (Bv_mono _ _ (Cm_mono _) (Z.to_nat l)). lia.
Qed.
Lemma Cz_mono d l : 0 <= d -> Cz (d + 1) l <= Cz d l.
Proof. intros Hd. cbv beta. replace (Z.to_nat (d + 1)) with (S (Z.to_nat d)) by lia. apply Cm_mono. Qed.

Definition bound (m : mode) (d l : Z) : Z := match m with MTop => Cz d l | _ => Bz d l end.
Theorem HBd_cost_lb d m o l s : HBd d m o l s -> 0 <= d -> 0 <= l -> cost s >= bound m d l + (l + 1) * uf.
Proof.
  induction 1 as [d m o Hm|d m o l ops Hm HB|d o Hd|d o l j s1 s2 Hd Hl2 Hj _ IH1 _ IH2|d o l j s1 s2 Hd Hl2 Hj _ IH1 _ IH2|d m o l s Hd _ IH]; intros Hd0 Hl0.
  - rewrite cost_adj. destruct m; cbn [bound]; [rewrite Cz_0|congruence|rewrite Bv_0]; lia.
  - pose proof (Blk_cost_lb uf ub wd rd (Z.lt_le_incl _ _ Huf) _ _ _ _ _ HB) as Hlb.
    pose proof (Bv_le_val uf ub rd c0 (Cm uf ub wd rd c0 (Z.to_nat (d - 1))) l Hl0). pose proof (Cm_le_val (Z.to_nat d) l).
    destruct m; cbn [bound]; lia.
  - cbn [app bound]. rewrite cost_cons_F, cost_app, cost_adj, cost_cons_RD, cost_app, cost_adj, (cost_free (ODM o) I), cost_nil, Bv_1. lia.
  - specialize (IH1 ltac:(lia) ltac:(lia)). specialize (IH2 ltac:(lia) ltac:(lia)). cbn [bound] in IH1, IH2 |- *.
    pose proof (Bv_le_cand (Cm uf ub wd rd c0 (Z.to_nat (d - 1))) l j Hl2 Hj) as Hc. unfold candH in Hc.
    cbn [app]. rewrite cost_cons_F, cost_app, cost_cons_RD. lia.
  - specialize (IH1 ltac:(lia) ltac:(lia)). specialize (IH2 ltac:(lia) ltac:(lia)). cbn [bound] in IH1, IH2 |- *.
    pose proof (Bv_le_cand (Cm uf ub wd rd c0 (Z.to_nat (d - 1))) l j Hl2 Hj) as Hc. unfold candH in Hc.
    cbn [app]. rewrite cost_cons_WD, cost_cons_F, cost_app, cost_cons_RD, (Cz_S d l) by lia. lia.
  - specialize (IH Hd Hl0). pose proof (Bz_mono d l Hd). pose proof (Cz_mono d l Hd). destruct m; cbn [bound] in IH |- *; cbv beta in *; lia.
Qed.

End HC.

(* ---- top level ---- *)
Lemma injH_inj : forall a b, map injH a = map injH b -> a = b.
Proof.
  induction a as [|x a IHa]; intros [|y b] E; try discriminate; [reflexivity|]. cbn [map] in E. injection E as Exy E.
  f_equal; [|apply IHa; exact E]. destruct x, y; cbn in Exy; congruence.
Qed.
Lemma inj_inj : forall a b, map inj a = map inj b -> a = b.
Proof.
  induction a as [|x a IHa]; intros [|y b] E; try discriminate; [reflexivity|]. cbn [map] in E. injection E as Exy E.
  f_equal; [|apply IHa; exact E]. destruct x, y; cbn in Exy; congruence.
Qed.

(* the Disk-Revolve grammar is the sub-grammar in which the left part of every split is memory-only *)
Lemma DBlk_HBd cm o l s : DiskBlk.DBlk cm o l s -> forall d, l <= d -> HBd cm d HRevBlk.MTop o l s.
Proof.
  induction 1 as [o|o l ops HB|o l j s1 s2 Hl2 Hj _ IH1 HB2]; intros d Hd.
  - apply DZ. discriminate.
  - apply DMem; [discriminate|exact HB].
  - change ([OWD o; OF o (o + j)] ++ s1 ++ [ORD o] ++ s2) with (OWD o :: ([OF o (o + j)] ++ s1 ++ [ORD o] ++ s2)).
    apply DW; try lia; [apply IH1; lia|apply DMem; [discriminate|exact HB2]].
Qed.

Section TOPH.
Variable uf ub wd rd : Z.
Hypothesis Huf : 0 < uf.
Hypothesis Hwd : 0 <= wd.
Hypothesis Hrd : 0 <= rd.
Notation cost := (DiskCost.cost uf ub wd rd).
Notation val := (Opt0Table.val uf ub).

(* HRevolve: the list costs C(disk, l) + (l+1) uf, and no list of the grammar with that disk budget costs less *)
Theorem hrevolve_optimal l ram disk L : 0 <= l -> 1 <= ram -> 0 <= disk -> hrevolve l ram disk wd rd uf ub = Ok L ->
  exists L0, L = map injH L0 /\ HBd ram disk HRevBlk.MTop 0 l L0 /\
             cost L0 = Cm uf ub wd rd ram (Z.to_nat disk) l + (l + 1) * uf /\
             forall s, HBd ram disk HRevBlk.MTop 0 l s -> cost L0 <= cost s.
Proof.
  intros Hl Hram Hdisk H. unfold hrevolve in H. destruct (get_hopt_table l ram disk 0 wd 0 rd ub uf) as [T|] eqn:ET; cbn [bind] in H; [|discriminate].
  destruct (proj2 (cost1 l ram disk uf ub wd rd Hl Hram Hdisk Huf Hwd Hrd T ET _ l disk ltac:(lia) ltac:(lia)) L H) as (L0 & -> & HC & HG).
  exists L0. split; [reflexivity|]. split; [exact HG|]. split; [exact HC|]. intros s Hs.
  pose proof (HBd_cost_lb ram uf ub wd rd Huf Hwd Hrd _ _ _ _ _ Hs Hdisk Hl) as Hlb. cbn [bound] in Hlb. lia.
Qed.

(* more disk never costs more *)
Theorem hrevolve_more_disk l ram d d' s s' : 0 <= l -> 1 <= ram -> 0 <= d <= d' ->
  hrevolve l ram d wd rd uf ub = Ok (map injH s) -> hrevolve l ram d' wd rd uf ub = Ok (map injH s') -> cost s' <= cost s.
Proof.
  intros Hl Hram Hd H H'.
  destruct (hrevolve_optimal l ram d _ Hl Hram ltac:(lia) H) as (s0 & E0 & _ & C0 & _).
  destruct (hrevolve_optimal l ram d' _ Hl Hram ltac:(lia) H') as (s1 & E1 & _ & C1 & _).
  apply injH_inj in E0. apply injH_inj in E1. subst s0 s1. rewrite C0, C1.
  pose proof (Cm_antitone ram uf ub wd rd (Z.to_nat d) (Z.to_nat d') l ltac:(lia)). lia.
Qed.

(* HRevolve <= Revolve, and with l disk slots HRevolve <= DiskRevolve *)
Theorem hrevolve_le_revolve l ram disk sh sr : 0 <= l -> 1 <= ram -> 0 <= disk ->
  hrevolve l ram disk wd rd uf ub = Ok (map injH sh) -> RevSeq.revolve_top l ram uf ub = Ok (map inj sr) -> cost sh <= cost sr.
Proof.
  intros Hl Hram Hdisk Hh Hr.
  destruct (hrevolve_optimal l ram disk _ Hl Hram Hdisk Hh) as (s0 & E0 & _ & _ & Hopt).
  destruct (revolve_optimal uf ub wd rd Huf l ram _ Hl ltac:(lia) ltac:(lia) Hr) as (s1 & E1 & HB & _ & _).
  apply injH_inj in E0. apply inj_inj in E1. subst s0 s1. apply Hopt. apply DMem; [discriminate|exact HB].
Qed.
Theorem hrevolve_le_disk_revolve l ram disk sh sd : 0 <= l -> 1 <= ram -> l <= disk ->
  hrevolve l ram disk wd rd uf ub = Ok (map injH sh) -> RevSeq.disk_revolve_top l ram rd wd uf ub = Ok (map inj sd) -> cost sh <= cost sd.
Proof.
  intros Hl Hram Hdisk Hh Hd.
  destruct (hrevolve_optimal l ram disk _ Hl Hram ltac:(lia) Hh) as (s0 & E0 & _ & _ & Hopt).
  destruct (disk_revolve_optimal uf ub wd rd Huf l ram _ Hl Hram Hd) as (s1 & E1 & HD & _ & _).
  apply injH_inj in E0. apply inj_inj in E1. subst s0 s1. apply Hopt. apply DBlk_HBd; [exact HD|exact Hdisk].
Qed.
End TOPH.
Print Assumptions hrevolve_optimal.
Print Assumptions hrevolve_more_disk.
Print Assumptions hrevolve_le_revolve.
Print Assumptions hrevolve_le_disk_revolve.
