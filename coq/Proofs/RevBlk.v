From Coq Require Import ZArith List Lia Bool.
Require Import Actions.
Import ListNotations.
Open Scope Z_scope.

(* ---------- ops, actions ---------- *)
Inductive op := OF (a b : Z) | OB (a b : Z) | ORM (i : Z) | OWM (i : Z) | ODM (i : Z) | OWFM (i : Z) | ODFM (i : Z)
  | ORD (i : Z) | OWD (i : Z).      (* Read_disk / Write_disk: DiskRevolve and PeriodicDiskRevolve *)

Section CONV.
Variable N : Z.        (* max_n *)
Variable R : Z.        (* RAM budget *)

(* ---------- converter, structural form: prev op, current op, rest (look-ahead = nth 2 rest), absolute index i ---------- *)
Record cst := { n_ : Z; r_ : Z; snaps : list Z; w_st : option storage; w_ics : bool; w_adj : bool; w_n0 : option Z }.
Definition upd (c : cst) n r sn := {| n_ := n; r_ := r; snaps := sn; w_st := w_st c; w_ics := w_ics c; w_adj := w_adj c; w_n0 := w_n0 c |}.
Definition mem (x : Z) (l : list Z) := existsb (Z.eqb x) l.
Definition del (x : Z) (l : list Z) := filter (fun y => negb (y =? x)) l.

Definition conv1 (i : nat) (prev : option op) (o : op) (rest : list op) (c : cst) : (cst * list action) + exn :=
  match o with
  | OF n0 n1 =>
    if negb (n0 =? n_ c) then inr InvalidForwardStep else
    match prev with
    | None => inr IndexError
    | Some p =>
      match (match p with
             | OWM w => if negb (w =? n0) then inr InvalidActionIndex else
                        inl ({| n_ := n1; r_ := r_ c; snaps := if mem w (snaps c) then snaps c else w :: snaps c;
                                w_st := Some RAM; w_ics := true; w_adj := false; w_n0 := Some w |}, (true, false, RAM))
             | OWD w => if negb (w =? n0) then inr InvalidActionIndex else
                        inl ({| n_ := n1; r_ := r_ c; snaps := if mem w (snaps c) then snaps c else w :: snaps c;
                                w_st := Some DISK; w_ics := true; w_adj := false; w_n0 := Some w |}, (true, false, DISK))
             | OWFM w => if negb (w =? n1) then inr InvalidActionIndex else
                        inl ({| n_ := n1; r_ := r_ c; snaps := snaps c; w_st := Some WORK; w_ics := false; w_adj := true; w_n0 := Some w |}, (false, true, WORK))
             | OF a _ | OB a _ | ORM a | ODM a | ODFM a | ORD a =>
                        inl ({| n_ := n1; r_ := r_ c; snaps := snaps c; w_st := Some WORK; w_ics := false; w_adj := false; w_n0 := Some a |}, (false, false, WORK))
             end) with
      | inr e => inr e
      | inl (c2, (wi, wa, sg)) =>
        if n1 =? N then (if negb (r_ c2 =? 0) then inr InvalidReverseStep else inl (c2, [Forward n0 n1 wi wa sg; EndForward]))
        else inl (c2, [Forward n0 n1 wi wa sg])
      end
    end
  | OB n0 n1 =>
    if negb (n0 =? n_ c) then inr InvalidActionIndex else
    if negb (n0 =? N - r_ c) then inr InvalidForwardStep else
    inl (upd c (n_ c) (r_ c + 1) (snaps c), [Reverse n0 n1 true])
  | ORM n0 =>
    if n0 =? N - r_ c - 1 then
      if negb (mem n0 (snaps c)) then inr KeyError else inl (upd c n0 (r_ c) (del n0 (snaps c)), [Move n0 RAM WORK])
    else inl (upd c n0 (r_ c) (snaps c), [Copy n0 RAM WORK])
  | ORD n0 =>
    if n0 =? N - r_ c - 1 then
      if negb (mem n0 (snaps c)) then inr KeyError else inl (upd c n0 (r_ c) (del n0 (snaps c)), [Move n0 DISK WORK])
    else inl (upd c n0 (r_ c) (snaps c), [Copy n0 DISK WORK])
  | OWM n0 | OWD n0 => if negb (n0 =? n_ c) then inr InvalidActionIndex else inl (c, [])
  | OWFM n0 =>
    if negb (n0 =? n_ c + 1) then inr InvalidActionIndex else
    match nth_error rest 2 with
    | None => inr IndexError
    | Some d =>
      let dst := match d with ORM _ | OWM _ | ODM _ => Some RAM | OWFM _ | ODFM _ => Some WORK | ORD _ | OWD _ => Some DISK | _ => None end in
      let c' := {| n_ := n_ c; r_ := r_ c; snaps := snaps c; w_st := dst; w_ics := w_ics c; w_adj := w_adj c; w_n0 := w_n0 c |} in
      match d with
      | ODFM d0 => if d0 =? n0 then inl (c', []) else
                   match w_n0 c with None => inr UnboundLocalError | Some w => if negb (w =? n0) then inr InvalidActionIndex else inl (c', []) end
      | _ => match w_n0 c with None => inr UnboundLocalError | Some w => if negb (w =? n0) then inr InvalidActionIndex else inl (c', []) end
      end
    end
  | ODM _ => if Nat.ltb i 2 then inr InvalidRevolverAction else inl (c, [])
  | ODFM n0 => if negb (n0 =? n_ c) then inr InvalidActionIndex else inl (c, [])
  end.

(* run over a list; returns emitted actions and either the final state + last op, or the exception *)
Fixpoint conv (i : nat) (prev : option op) (c : cst) (ops : list op) : list action * ((cst * option op * nat) + exn) :=
  match ops with
  | [] => ([], inl (c, prev, i))
  | o :: rest =>
    match conv1 i prev o rest c with
    | inr e => ([], inr e)
    | inl (c', acts) => let '(acts', r) := conv (S i) (Some o) c' rest in (acts ++ acts', r)
    end
  end.

(* ---------- executor (RAM only, budget R) ---------- *)
Record xst := { fwd : option Z; wics : option (Z*Z); wdeps : option (Z*Z); store : list (Z * (Z*Z)); rr : Z; endfwd : bool }.
Fixpoint lookup (k : Z) (l : list (Z * (Z*Z))) := match l with [] => None | (k', v) :: r => if k =? k' then Some v else lookup k r end.
Fixpoint remove (k : Z) (l : list (Z * (Z*Z))) := match l with [] => [] | (k', v) :: r => if k =? k' then r else (k', v) :: remove k r end.
Definition covers (o : option (Z*Z)) (a b : Z) := match o with Some (x, y) => (x <=? a) && (b <=? y) | None => false end.
Definition isnone {A} (o : option A) := match o with None => true | _ => false end.
Definition exec (x : xst) (a : action) : option xst :=
  match a with
  | Forward n0 n1 wi wa RAM =>
    match fwd x with Some f =>
      if negb ((f =? n0) && (n0 <? n1) && (n1 <=? N - rr x) && isnone (lookup n0 (store x)) && wi && negb wa
               && (Z.of_nat (length (store x)) <? R)) then None else
      Some {| fwd := Some n1; wics := None; wdeps := None; store := (n0, (n0, n1)) :: store x; rr := rr x; endfwd := endfwd x |}
    | None => None end
  | Forward n0 n1 wi wa WORK =>
    match fwd x with Some f =>
      if negb ((f =? n0) && (n0 <? n1) && (n1 <=? N - rr x) && negb wi && (negb wa || ((n1 =? n0 + 1) && (n1 =? N - rr x)))) then None else
      Some {| fwd := Some n1; wics := None; wdeps := if wa then Some (n0, n1) else None; store := store x; rr := rr x; endfwd := endfwd x |}
    | None => None end
  | Forward _ _ _ _ _ => None
  | Reverse n1 n0 _ =>
    if negb (endfwd x && (n1 =? N - rr x) && (n0 <? n1) && covers (wdeps x) n0 n1) then None else
    Some {| fwd := fwd x; wics := wics x; wdeps := None; store := store x; rr := rr x + (n1 - n0); endfwd := true |}
  | Copy n RAM WORK | Move n RAM WORK =>
    if negb (endfwd x && isnone (wics x) && isnone (wdeps x)) then None else
    match lookup n (store x) with
    | Some (a0, b0) =>
      if negb ((a0 =? n) && (n <? N - rr x) && (N - rr x <=? b0)) then None else
      Some {| fwd := Some n; wics := Some (a0, b0); wdeps := None;
              store := match a with Move _ _ _ => remove n (store x) | _ => store x end; rr := rr x; endfwd := true |}
    | None => None end
  | Copy _ _ _ | Move _ _ _ => None
  | EndForward => if negb (negb (endfwd x) && match fwd x with Some f => f =? N | None => false end) then None else
      Some {| fwd := fwd x; wics := wics x; wdeps := wdeps x; store := store x; rr := rr x; endfwd := true |}
  | EndReverse => None
  end.
Fixpoint execs (x : xst) (l : list action) : option xst :=
  match l with [] => Some x | a :: r => match exec x a with Some x' => execs x' r | None => None end end.
Lemma execs_app x l1 l2 : execs x (l1 ++ l2) = match execs x l1 with Some x' => execs x' l2 | None => None end.
Proof. revert x; induction l1 as [|a l1 IH]; intro x; cbn; [reflexivity|]. destruct (exec x a); auto. Qed.

(* ---------- the grammar of revolve's op lists (offset o, l, cm; wm = leading Write_memory present) ---------- *)
Definition tail0 (o : Z) := [ORM o; OWFM (o+1); OF o (o+1); OB (o+1) o; ODFM (o+1); ODM o].
Definition adj (q : Z) := [OWFM (q+1); OF q (q+1); OB (q+1) q; ODFM (q+1)].
Definition wmop (wm : bool) (o : Z) := if wm then [OWM o] else [].
(* cm = 1: after the first sweep, for q = o+k, ..., o+1 : Read_memory o; Forward o -> q; adjoint step at q *)
Fixpoint loop1 (k : nat) (o : Z) : list op :=
  match k with O => [] | S k' => [ORM o; OF o (o + Z.of_nat k)] ++ adj (o + Z.of_nat k) ++ loop1 k' o end.
Inductive Blk : bool -> Z -> Z -> Z -> list op -> Prop :=
| B0 wm o cm : Blk wm o 0 cm (adj o ++ [ODM o])
| B0n wm o cm : Blk wm o 0 cm (adj o)              (* hrevolve's leaf: no trailing discard *)
| B1 wm o cm : 1 <= cm -> Blk wm o 1 cm (wmop wm o ++ [OF o (o+1)] ++ adj (o+1) ++ tail0 o)
| Bc1 wm o l cm : 2 <= l -> 1 <= cm -> Blk wm o l cm (wmop wm o ++ [OF o (o+l)] ++ adj (o+l) ++ loop1 (Z.to_nat (l-1)) o ++ tail0 o)   (* cm = 1 in revolve; hrevolve also falls back to it *)
| Bsp wm o l cm j s1 s2 : 2 <= l -> 2 <= cm -> 1 <= j <= l - 1 ->
    Blk true (o+j) (l-j) (cm-1) s1 -> Blk false o (j-1) cm s2 ->
    Blk wm o l cm (wmop wm o ++ [OF o (o+j)] ++ s1 ++ [ORM o] ++ s2).

(* ---------- relation between converter state and executor state at block entry / exit ---------- *)
Definition keys (x : xst) := map fst (store x).
(* ex: keys of checkpoints held elsewhere (on DISK, for the disk-revolve blocks); the converter's set also lists those *)
Variable ex : list Z.
Definition sameset (a b : list Z) := forall z, In z a <-> (In z b \/ In z ex).
(* all stored checkpoints below o are intact, ranges start at their key *)
Definition store_ok (x : xst) := NoDup (keys x) /\ forall p a b, lookup p (store x) = Some (a, b) -> a = p.

(* entry condition. have = cp at o already stored and loaded (block without leading WM, l >= 1) *)
Definition Entry (wm : bool) (o l cm : Z) (c : cst) (x : xst) : Prop :=
  let h := o + l + 1 in
  0 <= o /\ 0 <= l /\ h <= N /\ n_ c = o /\ r_ c = N - h /\ rr x = N - h /\ fwd x = Some o /\ wdeps x = None /\
  endfwd x = negb (h =? N) /\
  store_ok x /\
  (* the converter's set = RAM keys + external keys; when the block starts by writing o, a stale entry o may be listed *)
  (forall z, (wm = true -> 1 <= l -> z <> o) -> (In z (snaps c) <-> (In z (keys x) \/ In z ex))) /\
  (forall p, In p (keys x) -> p < o \/ (p = o /\ wm = false /\ 1 <= l)) /\
  (if wm || (l =? 0) then ~ In o (keys x) /\ Z.of_nat (length (store x)) + cm <= R
   else (exists e, lookup o (store x) = Some (o, e) /\ h <= e) /\ Z.of_nat (length (store x)) - 1 + cm <= R) /\
  (1 <= l -> 1 <= cm) /\ (forall p, In p ex -> p < o).

Definition Exit (o : Z) (c0 : cst) (x0 : xst) (c : cst) (x : xst) : Prop :=
  n_ c = o + 1 /\ r_ c = N - o /\ rr x = N - o /\ fwd x = Some (o + 1) /\ wdeps x = None /\ wics x = None /\ endfwd x = true /\
  store x = remove o (store x0) /\ sameset (snaps c) (keys x).


(* ---------- composition of runs (quantified over what follows, because of the look-ahead) ---------- *)
Definition Runs (i : nat) (prev : option op) (c : cst) (ops : list op) (acts : list action) (c' : cst) (lastop : op) : Prop :=
  forall post, conv i prev c (ops ++ post) =
     (acts ++ fst (conv (i + length ops) (Some lastop) c' post), snd (conv (i + length ops) (Some lastop) c' post)).

Lemma Runs_app i prev c l1 a1 c1 o1 l2 a2 c2 o2 :
  Runs i prev c l1 a1 c1 o1 -> Runs (i + length l1) (Some o1) c1 l2 a2 c2 o2 ->
  Runs i prev c (l1 ++ l2) (a1 ++ a2) c2 o2.
Proof.
  intros H1 H2 post. rewrite <- app_assoc, H1, H2. cbn [fst snd].
  rewrite app_length, Nat.add_assoc, app_assoc. reflexivity.
Qed.

(* one op *)
Lemma Runs_one i prev c o c' acts :
  (forall rest, conv1 i prev o rest c = inl (c', acts)) -> Runs i prev c [o] acts c' o.
Proof.
  intros H post. cbn [app conv]. rewrite H. destruct (conv (S i) (Some o) c' post) as [a2 r2] eqn:E.
  cbn [length]. replace (i + 1)%nat with (S i) by lia. rewrite E. reflexivity.
Qed.

Ltac splits := repeat match goal with |- _ /\ _ => split end.
Ltac bdestr :=
  repeat match goal with
  | |- context [?a =? ?b] => destruct (Z.eqb_spec a b); try lia
  | |- context [?a <? ?b] => destruct (Z.ltb_spec a b); try lia
  | |- context [?a <=? ?b] => destruct (Z.leb_spec a b); try lia
  end.

(* ---- the adjoint-step quadruple  WFM (q+1); F q (q+1); B (q+1) q; DFM (q+1) ---- *)
Definition adj_acts (q : Z) := [Forward q (q+1) false true WORK] ++ (if q + 1 =? N then [EndForward] else []) ++ [Reverse (q+1) q true].
Lemma adj_runs i prev c q : n_ c = q -> r_ c = N - q - 1 ->
  exists c', Runs i prev c (adj q) (adj_acts q) c' (ODFM (q+1)) /\ n_ c' = q + 1 /\ r_ c' = N - q /\ snaps c' = snaps c.
Proof.
  intros Hn Hr.
  exists {| n_ := q + 1; r_ := N - q - 1 + 1; snaps := snaps c; w_st := Some WORK; w_ics := false; w_adj := true; w_n0 := Some (q + 1) |}.
  split; [|split; [|split]].
  - intros post. unfold adj, adj_acts. cbn [app conv conv1 nth_error].
    rewrite Hn. replace (q + 1 =? q + 1) with true by (symmetry; apply Z.eqb_eq; lia). cbn [negb].
    replace (q + 1 =? q + 1) with true by (symmetry; apply Z.eqb_eq; lia).
    cbn [n_ r_ snaps negb]. replace (q =? q) with true by (symmetry; apply Z.eqb_eq; lia). cbn [negb].
    replace (q + 1 =? q + 1) with true by (symmetry; apply Z.eqb_eq; lia). cbn [negb].
    rewrite Hr.
    destruct (Z.eqb_spec (q + 1) N) as [HN|HN].
    + replace (N - q - 1 =? 0) with true by (symmetry; apply Z.eqb_eq; lia). cbn [negb n_ r_ snaps upd].
      replace (q + 1 =? q + 1) with true by (symmetry; apply Z.eqb_eq; lia). cbn [negb].
      replace (q + 1 =? N - (N - q - 1)) with true by (symmetry; apply Z.eqb_eq; lia). cbn [negb n_ r_ snaps upd].
      replace (q + 1 =? q + 1) with true by (symmetry; apply Z.eqb_eq; lia). cbn [negb].
      cbn [length]. replace (i + 4)%nat with (S (S (S (S i)))) by lia.
      unfold upd; cbn [n_ r_ snaps w_st w_ics w_adj w_n0].
      destruct (conv (S (S (S (S i)))) _ _ post) eqn:E. cbn [app fst snd]. reflexivity.
    + cbn [negb n_ r_ snaps upd].
      replace (q + 1 =? q + 1) with true by (symmetry; apply Z.eqb_eq; lia). cbn [negb].
      replace (q + 1 =? N - (N - q - 1)) with true by (symmetry; apply Z.eqb_eq; lia). cbn [negb n_ r_ snaps upd].
      replace (q + 1 =? q + 1) with true by (symmetry; apply Z.eqb_eq; lia). cbn [negb].
      cbn [length]. replace (i + 4)%nat with (S (S (S (S i)))) by lia.
      unfold upd; cbn [n_ r_ snaps w_st w_ics w_adj w_n0].
      destruct (conv (S (S (S (S i)))) _ _ post) eqn:E. cbn [app fst snd]. reflexivity.
  - cbn. lia.
  - cbn. lia.
  - cbn. reflexivity.
Qed.

(* ---- executor, one spec lemma per action kind ---- *)
Ltac tt := repeat match goal with |- context [if ?b then _ else _] => let E := fresh in destruct b eqn:E; try reflexivity end.
Lemma exec_fwd_work x n0 n1 wa : fwd x = Some n0 -> n0 < n1 -> n1 <= N - rr x ->
  (wa = true -> n1 = n0 + 1 /\ n1 = N - rr x) ->
  exec x (Forward n0 n1 false wa WORK) =
    Some {| fwd := Some n1; wics := None; wdeps := if wa then Some (n0, n1) else None; store := store x; rr := rr x; endfwd := endfwd x |}.
Proof.
  intros Hf H1 H2 H3. cbn [exec]. rewrite Hf.
  replace ((n0 =? n0) && (n0 <? n1) && (n1 <=? N - rr x) && negb false && (negb wa || (n1 =? n0 + 1) && (n1 =? N - rr x))) with true; [reflexivity|].
  symmetry. rewrite !andb_true_iff, Z.eqb_eq, Z.ltb_lt, Z.leb_le. repeat split; try lia.
  destruct wa; cbn; [|reflexivity]. destruct (H3 eq_refl). rewrite andb_true_iff, !Z.eqb_eq. lia.
Qed.
Lemma exec_fwd_ram x n0 n1 : fwd x = Some n0 -> n0 < n1 -> n1 <= N - rr x -> lookup n0 (store x) = None ->
  Z.of_nat (length (store x)) < R ->
  exec x (Forward n0 n1 true false RAM) =
    Some {| fwd := Some n1; wics := None; wdeps := None; store := (n0, (n0, n1)) :: store x; rr := rr x; endfwd := endfwd x |}.
Proof.
  intros Hf H1 H2 H3 H4. cbn [exec]. rewrite Hf, H3. cbn [isnone negb andb].
  replace ((n0 =? n0) && (n0 <? n1) && (n1 <=? N - rr x) && true && true && true && (Z.of_nat (length (store x)) <? R)) with true; [reflexivity|].
  symmetry. rewrite !andb_true_iff, Z.eqb_eq, !Z.ltb_lt, Z.leb_le. repeat split; lia.
Qed.
Lemma exec_rev x q : endfwd x = true -> q + 1 = N - rr x -> wdeps x = Some (q, q + 1) ->
  exec x (Reverse (q+1) q true) =
    Some {| fwd := fwd x; wics := wics x; wdeps := None; store := store x; rr := rr x + 1; endfwd := true |}.
Proof.
  intros He H1 Hw. cbn [exec]. rewrite He, Hw. cbn [covers andb].
  replace ((q + 1 =? N - rr x) && (q <? q + 1) && ((q <=? q) && (q + 1 <=? q + 1))) with true.
  - cbn [negb]. do 2 f_equal. lia.
  - symmetry. rewrite !andb_true_iff, Z.eqb_eq, Z.ltb_lt, !Z.leb_le. lia.
Qed.
Lemma exec_endfwd x : endfwd x = false -> fwd x = Some N ->
  exec x EndForward = Some {| fwd := fwd x; wics := wics x; wdeps := wdeps x; store := store x; rr := rr x; endfwd := true |}.
Proof. intros He Hf. cbn [exec]. rewrite He, Hf, Z.eqb_refl. reflexivity. Qed.
Lemma exec_load x n e (mv : bool) : endfwd x = true -> wics x = None -> wdeps x = None -> lookup n (store x) = Some (n, e) ->
  n < N - rr x -> N - rr x <= e ->
  exec x ((if mv then Move else Copy) n RAM WORK) =
    Some {| fwd := Some n; wics := Some (n, e); wdeps := None; store := if mv then remove n (store x) else store x; rr := rr x; endfwd := true |}.
Proof.
  intros He Hi Hd Hl H1 H2. destruct mv; cbn [exec]; rewrite He, Hi, Hd, Hl; cbn [isnone andb negb];
  (replace ((n =? n) && (n <? N - rr x) && (N - rr x <=? e)) with true;
   [reflexivity | symmetry; rewrite !andb_true_iff, Z.eqb_eq, Z.ltb_lt, Z.leb_le; lia]).
Qed.

Lemma adj_exec x q : fwd x = Some q -> rr x = N - q - 1 -> endfwd x = negb (q + 1 =? N) ->
  exists x', execs x (adj_acts q) = Some x' /\ fwd x' = Some (q+1) /\ rr x' = N - q /\ wdeps x' = None /\ wics x' = None
             /\ endfwd x' = true /\ store x' = store x.
Proof.
  intros Hf Hr He. unfold adj_acts. cbn [app execs].
  rewrite (exec_fwd_work x q (q+1) true) by (try assumption; try lia; intros _; lia).
  destruct (Z.eqb_spec (q+1) N) as [HN|HN]; cbn [app execs negb] in *.
  - rewrite exec_endfwd by (cbn; try assumption; f_equal; lia).
    rewrite (exec_rev _ q) by (cbn; try reflexivity; lia).
    eexists; split; [reflexivity|]. cbn. repeat split; lia.
  - rewrite (exec_rev _ q) by (cbn; try assumption; try reflexivity; lia).
    eexists; split; [reflexivity|]. cbn. repeat split; lia.
Qed.

(* single ops *)
Lemma run_wm i prev c o : n_ c = o -> Runs i prev c [OWM o] [] c (OWM o).
Proof. intros H. apply Runs_one. intros rest. cbn [conv1]. rewrite H. bdestr. reflexivity. Qed.
Lemma run_dm i prev c o : (2 <= i)%nat -> Runs i prev c [ODM o] [] c (ODM o).
Proof. intros H. apply Runs_one. intros rest. cbn [conv1]. destruct (Nat.ltb_spec i 2); [lia|reflexivity]. Qed.
Definition wr_state (c : cst) (o n1 : Z) :=
  {| n_ := n1; r_ := r_ c; snaps := if mem o (snaps c) then snaps c else o :: snaps c; w_st := Some RAM; w_ics := true; w_adj := false; w_n0 := Some o |}.
Lemma run_fwd_write i c o n1 : n_ c = o -> n1 <> N ->
  Runs i (Some (OWM o)) c [OF o n1] [Forward o n1 true false RAM] (wr_state c o n1) (OF o n1).
Proof. intros H HN. apply Runs_one. intros rest. cbn [conv1]. rewrite H. bdestr. reflexivity. Qed.
Definition is_plain (p : option op) := match p with Some (OF _ _) | Some (OB _ _) | Some (ORM _) | Some (ODM _) | Some (ODFM _) | Some (ORD _) => True | _ => False end.
Lemma run_fwd_plain i prev c o n1 : is_plain prev -> n_ c = o -> n1 <> N ->
  exists c', Runs i prev c [OF o n1] [Forward o n1 false false WORK] c' (OF o n1) /\ n_ c' = n1 /\ r_ c' = r_ c /\ snaps c' = snaps c.
Proof.
  intros Hp H HN. destruct prev as [[]|]; cbn in Hp; try tauto.
  all: eexists; split; [apply Runs_one; intros rest; cbn [conv1]; rewrite H; bdestr; reflexivity|cbn; auto].
Qed.
Lemma run_rm_move i prev c o : o = N - r_ c - 1 -> mem o (snaps c) = true ->
  Runs i prev c [ORM o] [Move o RAM WORK] (upd c o (r_ c) (del o (snaps c))) (ORM o).
Proof. intros H Hm. apply Runs_one. intros rest. cbn [conv1]. bdestr. rewrite Hm. reflexivity. Qed.
Lemma run_rm_copy i prev c o : o <> N - r_ c - 1 ->
  Runs i prev c [ORM o] [Copy o RAM WORK] (upd c o (r_ c) (snaps c)) (ORM o).
Proof. intros H. apply Runs_one. intros rest. cbn [conv1]. bdestr. reflexivity. Qed.

(* ---------- finite-map facts ---------- *)
Lemma lookup_none_iff st p : lookup p st = None <-> ~ In p (map fst st).
Proof.
  induction st as [|[k v] st IH]; cbn; [tauto|]. destruct (Z.eqb_spec p k); [subst; split; [discriminate|tauto]|].
  rewrite IH. split; [intros H [E|H']; [congruence|tauto]|tauto].
Qed.
Lemma lookup_remove_ne st o p : p <> o -> lookup p (remove o st) = lookup p st.
Proof.
  intros Hne. induction st as [|[k v] st IH]; cbn; [reflexivity|].
  destruct (Z.eqb_spec o k); [subst; destruct (Z.eqb_spec p k); [lia|reflexivity]|].
  cbn. destruct (Z.eqb_spec p k); [reflexivity|exact IH].
Qed.
Lemma keys_remove st o : NoDup (map fst st) -> forall z, In z (map fst (remove o st)) <-> In z (map fst st) /\ z <> o.
Proof.
  induction st as [|[k v] st IH]; intros Hnd z; cbn [map fst In remove]; [tauto|].
  inversion Hnd as [|? ? Hk Hnd']; subst. destruct (Z.eqb_spec o k) as [->|Hne].
  - split.
    + intros H. split; [right; exact H|]. intros ->. apply Hk. exact H.
    + intros [[E|H] Hz]; [congruence|exact H].
  - cbn [map fst In]. rewrite (IH Hnd' z). split.
    + intros [E|[H1 H2]]; [split; [left; exact E|congruence]|split; [right; exact H1|exact H2]].
    + intros [[E|H1] H2]; [left; exact E|right; split; assumption].
Qed.
Lemma nodup_remove st o : NoDup (map fst st) -> NoDup (map fst (remove o st)).
Proof.
  induction st as [|[k v] st IH]; intros Hnd; cbn; [constructor|].
  inversion Hnd as [|? ? Hk Hnd']; subst. destruct (Z.eqb_spec o k); [exact Hnd'|].
  cbn. constructor; [|auto]. intros H. apply (keys_remove st o Hnd' k) in H. tauto.
Qed.
Lemma remove_notin st o : ~ In o (map fst st) -> remove o st = st.
Proof.
  induction st as [|[k v] st IH]; cbn; [reflexivity|]. intros H. destruct (Z.eqb_spec o k); [exfalso; apply H; left; congruence|]. f_equal. apply IH. tauto.
Qed.
Lemma length_remove st o : In o (map fst st) -> Z.of_nat (length (remove o st)) = Z.of_nat (length st) - 1.
Proof.
  induction st as [|[k v] st IH]; cbn [map In remove length]; [tauto|]. intros H.
  destruct (Z.eqb_spec o k); [lia|]. cbn [length]. destruct H as [H|H]; [cbn in H; lia|]. specialize (IH H). lia.
Qed.
Lemma in_del o l z : In z (del o l) <-> In z l /\ z <> o.
Proof. unfold del. rewrite filter_In. destruct (Z.eqb_spec z o); cbn; intuition congruence. Qed.
Lemma mem_true_iff x l : mem x l = true <-> In x l.
Proof.
  unfold mem. rewrite existsb_exists. split; [intros (y & Hy & E); apply Z.eqb_eq in E; now subst|intros H; exists x; split; [auto|apply Z.eqb_refl]].
Qed.
Lemma lookup_some_in st p v : lookup p st = Some v -> In p (map fst st).
Proof. intros H. destruct (in_dec Z.eq_dec p (map fst st)); [auto|]. apply lookup_none_iff in n. congruence. Qed.

Lemma store_ok_remove x o st' : store_ok x -> st' = remove o (store x) ->
  NoDup (map fst st') /\ forall p a b, lookup p st' = Some (a, b) -> a = p.
Proof.
  intros [Hnd Hl] ->. split; [apply nodup_remove; exact Hnd|].
  intros p a b H. destruct (Z.eq_dec p o) as [->|Hne].
  - exfalso. assert (Hn : lookup o (remove o (store x)) = None).
    { apply lookup_none_iff. intros Hin. apply (keys_remove _ o Hnd o) in Hin. tauto. }
    congruence.
  - rewrite lookup_remove_ne in H by exact Hne. eauto.
Qed.

Lemma Runs_nil_app i prev c l a c' o : Runs i prev c l a c' o -> Runs i prev c ([] ++ l) ([] ++ a) c' o.
Proof. auto. Qed.

(* ---------- head of a block: [Write_memory o;] Forward o (o+j) ---------- *)
Lemma head_ok wm o j l cm i prev c x : Entry wm o l cm c x -> 1 <= l -> 1 <= j <= l -> (wm = false -> is_plain prev) ->
  exists c1 x1 a, Runs i prev c (wmop wm o ++ [OF o (o+j)]) [a] c1 (OF o (o+j)) /\ exec x a = Some x1 /\
     n_ c1 = o + j /\ r_ c1 = r_ c /\ rr x1 = rr x /\ fwd x1 = Some (o+j) /\ wdeps x1 = None /\ wics x1 = None /\ endfwd x1 = endfwd x /\
     store_ok x1 /\ sameset (snaps c1) (keys x1) /\
     (exists e, lookup o (store x1) = Some (o, e) /\ o + j <= e /\ (wm = false -> o + l + 1 <= e)) /\
     (forall p, In p (keys x1) -> p <= o) /\
     Z.of_nat (length (store x1)) - 1 + cm <= R /\ store x1 = (if wm then (o, (o, o+j)) :: store x else store x).
Proof.
  intros (Ho & Hl0 & Hh & Hn & Hr & Hrr & Hf & Hwd & Hef & [Hnd Hlk] & Hss & Hkeys & Hcp & Hcm & Hex) Hl Hj Hprev.
  assert (Hl0' : (l =? 0) = false) by (apply Z.eqb_neq; lia).
  assert (HjN : o + j <> N) by lia. unfold keys in *.
  destruct wm; cbn [orb] in Hcp; rewrite ?Hl0' in Hcp; cbn [wmop].
  - (* with Write_memory *)
    destruct Hcp as [Hnotin Hbud].
    exists (wr_state c o (o+j)), {| fwd := Some (o+j); wics := None; wdeps := None; store := (o, (o, o+j)) :: store x; rr := rr x; endfwd := endfwd x |},
           (Forward o (o+j) true false RAM).
    split; [|split].
    + change [Forward o (o + j) true false RAM] with ([] ++ [Forward o (o + j) true false RAM]).
      eapply Runs_app; [apply run_wm; exact Hn|]. apply run_fwd_write; assumption.
    + apply exec_fwd_ram; try assumption; try lia. apply lookup_none_iff. exact Hnotin.
    + unfold wr_state. cbn [n_ r_ snaps fwd wics wdeps store rr endfwd keys map fst].
      splits; auto; try lia.
      * split; unfold keys; cbn [store map fst lookup].
        -- constructor; assumption.
        -- intros p a b. destruct (Z.eqb_spec p o); [intros E; injection E as <- _; congruence|apply Hlk].
      * intros z. destruct (Z.eq_dec z o) as [->|Hzo].
        -- split; [intros _; left; left; reflexivity|intros _]. destruct (mem o (snaps c)) eqn:E; [apply mem_true_iff; exact E|left; reflexivity].
        -- specialize (Hss z (fun _ _ => Hzo)). assert (Hoz : o <> z) by congruence. destruct (mem o (snaps c)); cbn [In]; tauto.
      * exists (o + j). cbn [lookup]. rewrite Z.eqb_refl. split; [reflexivity|]. split; [lia|discriminate].
      * intros p [<-|Hp]; [lia|]. destruct (Hkeys p Hp) as [?|(? & ? & ?)]; [lia|discriminate].
      * cbn [length]. specialize (Hcm Hl). lia.
  - (* checkpoint at o already stored *)
    destruct Hcp as [(e & Hlo & He) Hbud].
    destruct (run_fwd_plain i prev c o (o+j) (Hprev eq_refl) Hn HjN) as (c1 & HR & Hn1 & Hr1 & Hs1).
    exists c1, {| fwd := Some (o+j); wics := None; wdeps := None; store := store x; rr := rr x; endfwd := endfwd x |},
           (Forward o (o+j) false false WORK).
    split; [exact HR|]. split; [rewrite (exec_fwd_work x o (o+j) false) by (try assumption; try lia; discriminate); reflexivity|].
    cbn [fwd wics wdeps store rr endfwd keys]. rewrite Hs1. splits; auto; try lia.
    + split; assumption.
    + intros z. apply Hss. discriminate.
    + exists e. split; [exact Hlo|]. split; [lia|intros _; lia].
    + intros p Hp. destruct (Hkeys p Hp) as [?|(? & ? & ?)]; lia.
Qed.

(* ---------- tail of a block: Read_memory o (a Move), last adjoint step, Discard_memory o ---------- *)
Lemma tail_ok o i prev c x e : r_ c = N - o - 1 -> rr x = N - o - 1 -> o + 1 < N -> endfwd x = true -> wics x = None -> wdeps x = None ->
  lookup o (store x) = Some (o, e) -> o + 1 <= e -> store_ok x -> sameset (snaps c) (keys x) -> (forall p, In p ex -> p < o) ->
  exists acts c' x', Runs i prev c (tail0 o) acts c' (ODM o) /\ execs x acts = Some x' /\
    n_ c' = o + 1 /\ r_ c' = N - o /\ rr x' = N - o /\ fwd x' = Some (o+1) /\ wdeps x' = None /\ wics x' = None /\ endfwd x' = true /\
    store x' = remove o (store x) /\ sameset (snaps c') (keys x').
Proof.
  intros Hr Hrr HoN Hef Hwi Hwd Hlo He [Hnd Hlk] Hss Hex. unfold keys in *.
  assert (Hin : In o (map fst (store x))) by (eapply lookup_some_in; eauto).
  assert (Hmem : mem o (snaps c) = true) by (apply mem_true_iff, Hss; left; exact Hin).
  pose (c1 := upd c o (r_ c) (del o (snaps c))).
  destruct (adj_runs (i + 1) (Some (ORM o)) c1 o eq_refl ltac:(cbn; lia)) as (c2 & HR2 & Hn2 & Hr2 & Hs2).
  pose (x1 := {| fwd := Some o; wics := Some (o, e); wdeps := None; store := remove o (store x); rr := rr x; endfwd := true |}).
  destruct (adj_exec x1 o eq_refl ltac:(cbn; lia)) as (x2 & HX2 & Hf2 & Hrr2 & Hwd2 & Hwi2 & Hef2 & Hst2).
  { cbn. symmetry. apply negb_true_iff, Z.eqb_neq. lia. }
  exists ([Move o RAM WORK] ++ adj_acts o ++ []), c2, x2. split; [|split].
  - change (tail0 o) with ([ORM o] ++ adj o ++ [ODM o]).
    eapply Runs_app; [apply run_rm_move; [lia|exact Hmem]|].
    eapply Runs_app; [exact HR2|]. apply run_dm. cbn [length adj]. lia.
  - rewrite app_nil_r. cbn [app execs].
    rewrite (exec_load x o e true) by (try assumption; lia). exact HX2.
  - cbn [r_ c1 upd] in Hr2. splits; auto; try lia.
    intros z. rewrite Hs2, Hst2. cbn [snaps c1 upd store x1]. rewrite in_del, (keys_remove _ o Hnd z). specialize (Hss z).
    destruct (Z.eq_dec z o) as [->|Hzo]; [split; [tauto|intros [H|H]; [tauto|apply Hex in H; lia]]|tauto].
Qed.

(* ---------- the cm = 1 loop ---------- *)
Lemma loop_ok : forall k o i prev c x e, 0 <= o ->
  r_ c = N - (o + Z.of_nat (S k)) - 1 -> rr x = N - (o + Z.of_nat (S k)) - 1 -> o + Z.of_nat (S k) + 1 < N ->
  endfwd x = true -> wics x = None -> wdeps x = None -> lookup o (store x) = Some (o, e) -> o + Z.of_nat (S k) + 1 <= e ->
  exists acts c' x', Runs i prev c (loop1 (S k) o) acts c' (ODFM (o + 1 + 1)) /\ execs x acts = Some x' /\
    r_ c' = N - o - 1 /\ rr x' = N - o - 1 /\ endfwd x' = true /\ wics x' = None /\ wdeps x' = None /\
    store x' = store x /\ snaps c' = snaps c.
Proof.
  induction k as [|k IH]; intros o i prev c x e Ho Hr Hrr HN Hef Hwi Hwd Hlo He.
  - (* one iteration: q = o+1 *)
    cbn [loop1]. rewrite app_nil_r. change (Z.of_nat 1) with 1 in *.
    pose (c1 := upd c o (r_ c) (snaps c)).
    destruct (run_fwd_plain (i + 1) (Some (ORM o)) c1 o (o + 1) I eq_refl ltac:(lia)) as (c2 & HR2 & Hn2 & Hr2 & Hs2).
    destruct (adj_runs (i + 1 + 1) (Some (OF o (o+1))) c2 (o+1) Hn2 ltac:(rewrite Hr2; cbn; lia)) as (c3 & HR3 & Hn3 & Hr3 & Hs3).
    pose (x1 := {| fwd := Some o; wics := Some (o, e); wdeps := None; store := store x; rr := rr x; endfwd := true |}).
    pose (x2 := {| fwd := Some (o+1); wics := None; wdeps := None; store := store x; rr := rr x; endfwd := true |}).
    destruct (adj_exec x2 (o+1) eq_refl ltac:(cbn; lia)) as (x3 & HX3 & Hf3 & Hrr3 & Hwd3 & Hwi3 & Hef3 & Hst3).
    { cbn. symmetry. apply negb_true_iff, Z.eqb_neq. lia. }
    exists ([Copy o RAM WORK] ++ [Forward o (o+1) false false WORK] ++ adj_acts (o+1)), c3, x3. split; [|split].
    + change ([ORM o; OF o (o + 1)] ++ adj (o + 1)) with ([ORM o] ++ [OF o (o+1)] ++ adj (o+1)).
      eapply Runs_app with (l1 := [ORM o]); [apply run_rm_copy; lia|]. eapply Runs_app with (l1 := [OF o (o+1)]); [exact HR2|exact HR3].
    + cbn [app execs]. rewrite (exec_load x o e false) by (try assumption; lia). fold x1.
      rewrite (exec_fwd_work x1 o (o+1) false) by (cbn; try reflexivity; try lia; discriminate). fold x2. exact HX3.
    + splits; auto; try lia. rewrite Hs3, Hs2. reflexivity.
  - (* q = o + S (S k), then the rest *)
    cbn [loop1]. fold (loop1 (S k) o). set (q := o + Z.of_nat (S (S k))) in *.
    pose (c1 := upd c o (r_ c) (snaps c)).
    destruct (run_fwd_plain (i + 1) (Some (ORM o)) c1 o q I eq_refl ltac:(lia)) as (c2 & HR2 & Hn2 & Hr2 & Hs2).
    destruct (adj_runs (i + 1 + 1) (Some (OF o q)) c2 q Hn2 ltac:(rewrite Hr2; cbn; lia)) as (c3 & HR3 & Hn3 & Hr3 & Hs3).
    pose (x1 := {| fwd := Some o; wics := Some (o, e); wdeps := None; store := store x; rr := rr x; endfwd := true |}).
    pose (x2 := {| fwd := Some q; wics := None; wdeps := None; store := store x; rr := rr x; endfwd := true |}).
    destruct (adj_exec x2 q eq_refl ltac:(cbn; lia)) as (x3 & HX3 & Hf3 & Hrr3 & Hwd3 & Hwi3 & Hef3 & Hst3).
    { cbn. symmetry. apply negb_true_iff, Z.eqb_neq. lia. }
    destruct (IH o (i + 1 + 1 + length (adj q))%nat (Some (ODFM (q+1))) c3 x3 e Ho) as (acts4 & c4 & x4 & HR4 & HX4 & Hr4 & Hrr4 & Hef4 & Hwi4 & Hwd4 & Hst4 & Hs4);
      try assumption; try (unfold q in *; lia).
    { rewrite Hst3. exact Hlo. }
    exists ([Copy o RAM WORK] ++ [Forward o q false false WORK] ++ adj_acts q ++ acts4), c4, x4. split; [|split].
    + change ([ORM o; OF o q] ++ adj q ++ loop1 (S k) o) with ([ORM o] ++ [OF o q] ++ adj q ++ loop1 (S k) o).
      eapply Runs_app with (l1 := [ORM o]); [apply run_rm_copy; unfold q; lia|].
      eapply Runs_app with (l1 := [OF o q]); [exact HR2|]. eapply Runs_app; [exact HR3|exact HR4].
    + cbn [app execs]. rewrite (exec_load x o e false) by (try assumption; unfold q in *; lia). fold x1.
      rewrite (exec_fwd_work x1 o q false) by (cbn; try reflexivity; try (unfold q; lia); discriminate).
      cbv beta iota. cbn [store rr endfwd x1]. fold x2.
      rewrite execs_app, HX3. exact HX4.
    + splits; auto; try lia. 
      * rewrite Hst4, Hst3. reflexivity.
      * rewrite Hs4, Hs3, Hs2. reflexivity.
Qed.

(* ---------- the block lemma ---------- *)
Theorem blk_ok : forall wm o l cm ops, Blk wm o l cm ops ->
  forall i prev c x, Entry wm o l cm c x -> (wm = false -> 1 <= l -> is_plain prev) ->
  exists acts c' x' lastop,
    Runs i prev c ops acts c' lastop /\ execs x acts = Some x' /\ Exit o c x c' x'.
Proof.
  induction 1 as [wm o cm | wm o cm | wm o cm Hcm | wm o l cm Hl Hcm1 | wm o l cm j s1 s2 Hl Hcm Hj Hb1 IH1 Hb2 IH2];
    intros i prev c x HE Hprev.
  2:{ (* l = 0, no trailing discard *)
    destruct HE as (Ho & _ & Hh & Hn & Hr & Hrr & Hf & Hwd & Hef & Hso & Hss & Hkeys & Hcp & _ & Hex).
    replace (o + 0 + 1) with (o + 1) in * by lia.
    rewrite orb_true_r in Hcp. destruct Hcp as [Hnotin Hbud].
    destruct (adj_runs i prev c o Hn ltac:(lia)) as (c1 & HR1 & Hn1 & Hr1 & Hs1).
    destruct (adj_exec x o Hf ltac:(lia) Hef) as (x1 & HX1 & Hf1 & Hrr1 & Hwd1 & Hwi1 & Hef1 & Hst1).
    exists (adj_acts o), c1, x1, (ODFM (o + 1)). split; [exact HR1|split; [exact HX1|]].
    unfold Exit. rewrite (remove_notin _ _ Hnotin), Hs1. splits; auto; try lia.
    unfold sameset, keys in *. rewrite Hst1. intros z. apply Hss. intros _ Hl0. lia. }
  - (* l = 0 *)
    destruct HE as (Ho & _ & Hh & Hn & Hr & Hrr & Hf & Hwd & Hef & Hso & Hss & Hkeys & Hcp & _ & Hex).
    replace (o + 0 + 1) with (o + 1) in * by lia.
    rewrite orb_true_r in Hcp. destruct Hcp as [Hnotin Hbud].
    destruct (adj_runs i prev c o Hn ltac:(lia)) as (c1 & HR1 & Hn1 & Hr1 & Hs1).
    destruct (adj_exec x o Hf ltac:(lia) Hef) as (x1 & HX1 & Hf1 & Hrr1 & Hwd1 & Hwi1 & Hef1 & Hst1).
    exists (adj_acts o ++ []), c1, x1, (ODM o). split; [|split].
    + eapply Runs_app; [exact HR1|]. apply run_dm. cbn [adj length]. lia.
    + rewrite app_nil_r. exact HX1.
    + unfold Exit. rewrite (remove_notin _ _ Hnotin), Hs1. splits; auto; try lia.
      unfold sameset, keys in *. rewrite Hst1. intros z. apply Hss. intros _ Hl0. lia.
  - (* l = 1 *)
    pose proof HE as HE0.
    destruct HE as (Ho & _ & Hh & Hn & Hr & Hrr & Hf & Hwd & Hef & Hso & Hss & Hkeys & Hcp & _ & Hex).
    replace (o + 1 + 1) with (o + 2) in * by lia.
    destruct (head_ok wm o 1 1 cm i prev c x HE0 ltac:(lia) ltac:(lia) ltac:(intros E; apply Hprev; [exact E|lia]))
      as (c1 & x1 & a & HR1 & HX1 & Hn1 & Hr1 & Hrr1 & Hf1 & Hwd1 & Hwi1 & Hef1 & Hso1 & Hss1 & (e & Hlo1 & He1 & _) & Hk1 & Hb1 & Hst1).
    destruct (adj_runs (i + length (wmop wm o ++ [OF o (o + 1)])) (Some (OF o (o+1))) c1 (o+1) Hn1 ltac:(lia)) as (c2 & HR2 & Hn2 & Hr2 & Hs2).
    destruct (adj_exec x1 (o+1) Hf1 ltac:(lia)) as (x2 & HX2 & Hf2 & Hrr2 & Hwd2 & Hwi2 & Hef2 & Hst2).
    { rewrite Hef1, Hef. f_equal. f_equal. lia. }
    destruct (tail_ok o (i + length (wmop wm o ++ [OF o (o + 1)]) + length (adj (o+1))) (Some (ODFM (o+1+1))) c2 x2 e)
      as (acts3 & c3 & x3 & HR3 & HX3 & Hn3 & Hr3 & Hrr3 & Hf3 & Hwd3 & Hwi3 & Hef3 & Hst3 & Hss3); try assumption; try lia.
    { rewrite Hst2. exact Hlo1. }
    { destruct Hso1 as [A B]. unfold store_ok, keys. rewrite Hst2. split; assumption. }
    { unfold sameset, keys in *. rewrite Hs2, Hst2. exact Hss1. }
    exists ([a] ++ adj_acts (o+1) ++ acts3), c3, x3, (ODM o). split; [|split].
    + rewrite app_assoc. eapply Runs_app; [exact HR1|]. eapply Runs_app; [exact HR2|exact HR3].
    + cbn [app execs]. rewrite HX1. rewrite execs_app, HX2. exact HX3.
    + unfold Exit. splits; auto; try lia.
      rewrite Hst3, Hst2, Hst1. destruct wm; [|reflexivity].
      cbn [remove]. rewrite Z.eqb_refl. symmetry. apply remove_notin.
      cbn [orb] in Hcp. tauto.
  - (* cm = 1, l >= 2 *)
    pose proof HE as HE0.
    destruct HE as (Ho & _ & Hh & Hn & Hr & Hrr & Hf & Hwd & Hef & Hso & Hss & Hkeys & Hcp & _ & Hex).
    destruct (head_ok wm o l l cm i prev c x HE0 ltac:(lia) ltac:(lia) ltac:(intros E; apply Hprev; [exact E|lia]))
      as (c1 & x1 & a & HR1 & HX1 & Hn1 & Hr1 & Hrr1 & Hf1 & Hwd1 & Hwi1 & Hef1 & Hso1 & Hss1 & (e & Hlo1 & He1 & _) & Hk1 & Hbud1 & Hst1).
    set (i1 := (i + length (wmop wm o ++ [OF o (o + l)]))%nat).
    destruct (adj_runs i1 (Some (OF o (o+l))) c1 (o+l) Hn1 ltac:(lia)) as (c2 & HR2 & Hn2 & Hr2 & Hs2).
    destruct (adj_exec x1 (o+l) Hf1 ltac:(lia)) as (x2 & HX2 & Hf2 & Hrr2 & Hwd2 & Hwi2 & Hef2 & Hst2).
    { rewrite Hef1, Hef. reflexivity. }
    destruct (Z.to_nat (l - 1)) as [|k] eqn:Ek; [lia|].
    assert (Hk : Z.of_nat (S k) = l - 1) by lia.
    destruct (loop_ok k o (i1 + length (adj (o+l)))%nat (Some (ODFM (o+l+1))) c2 x2 e Ho)
      as (acts3 & c3 & x3 & HR3 & HX3 & Hr3 & Hrr3 & Hef3 & Hwi3 & Hwd3 & Hst3 & Hs3); try assumption; try lia.
    { rewrite Hst2. exact Hlo1. }
    destruct (tail_ok o (i1 + length (adj (o+l)) + length (loop1 (S k) o))%nat (Some (ODFM (o+1+1))) c3 x3 e)
      as (acts4 & c4 & x4 & HR4 & HX4 & Hn4 & Hr4 & Hrr4 & Hf4 & Hwd4 & Hwi4 & Hef4 & Hst4 & Hss4); try assumption; try lia.
    { rewrite Hst3, Hst2. exact Hlo1. }
    { destruct Hso1 as [A B]. unfold store_ok, keys. rewrite Hst3, Hst2. split; assumption. }
    { unfold sameset, keys in *. rewrite Hs3, Hs2, Hst3, Hst2. exact Hss1. }
    exists ([a] ++ adj_acts (o+l) ++ acts3 ++ acts4), c4, x4, (ODM o). split; [|split].
    + rewrite app_assoc. eapply Runs_app; [exact HR1|]. eapply Runs_app; [exact HR2|]. eapply Runs_app; [exact HR3|exact HR4].
    + cbn [app execs]. rewrite HX1. rewrite execs_app, HX2. rewrite execs_app, HX3. exact HX4.
    + unfold Exit. splits; auto; try lia.
      rewrite Hst4, Hst3, Hst2, Hst1. destruct wm; [|reflexivity].
      cbn [remove]. rewrite Z.eqb_refl. symmetry. apply remove_notin.
      cbn [orb] in Hcp. replace (l =? 0) with false in Hcp by (symmetry; apply Z.eqb_neq; lia). tauto.
  - (* split *)
    pose proof HE as HE0.
    destruct HE as (Ho & _ & Hh & Hn & Hr & Hrr & Hf & Hwd & Hef & Hso & Hss & Hkeys & Hcp & Hcm1 & Hex).
    destruct (head_ok wm o j l cm i prev c x HE0 ltac:(lia) ltac:(lia) ltac:(intros E; apply Hprev; [exact E|lia]))
      as (c1 & x1 & a & HR1 & HX1 & Hn1 & Hr1 & Hrr1 & Hf1 & Hwd1 & Hwi1 & Hef1 & Hso1 & Hss1 & (e & Hlo1 & He1 & He1') & Hk1 & Hbud1 & Hst1).
    set (i1 := (i + length (wmop wm o ++ [OF o (o + j)]))%nat).
    (* right part: block at o+j *)
    destruct (IH1 i1 (Some (OF o (o+j))) c1 x1) as (acts2 & c2 & x2 & last2 & HR2 & HX2 & HEx2).
    { unfold Entry. replace (o + j + (l - j) + 1) with (o + l + 1) by lia. cbn [orb].
      splits; auto; try lia.
      - rewrite Hef1. exact Hef.
      - intros p Hp. left. specialize (Hk1 p Hp). lia.
      - intros Hin. specialize (Hk1 _ Hin). lia.
      - intros p Hp. specialize (Hex p Hp). lia. }
    { discriminate. }
    destruct HEx2 as (Hn2 & Hr2 & Hrr2 & Hf2 & Hwd2 & Hwi2 & Hef2 & Hst2 & Hss2).
    assert (Hst2' : store x2 = store x1).
    { rewrite Hst2. apply remove_notin. intros Hin. specialize (Hk1 _ Hin). lia. }
    set (i2 := (i1 + length s1)%nat).
    assert (Hfinal : forall st4, st4 = remove o (store x1) -> st4 = remove o (store x)).
    { intros st4 ->. rewrite Hst1. destruct wm; [|reflexivity]. cbn [remove]. rewrite Z.eqb_refl. symmetry. apply remove_notin.
      cbn [orb] in Hcp. tauto. }
    assert (Hso2 : store_ok x2) by (destruct Hso1; unfold store_ok, keys in *; rewrite Hst2'; split; assumption).
    destruct (Z.eq_dec j 1) as [->|Hj1].
    + (* j = 1: the checkpoint at o is moved, left block has l = 0 *)
      pose (c3 := upd c2 o (r_ c2) (del o (snaps c2))).
      pose (x3 := {| fwd := Some o; wics := Some (o, e); wdeps := None; store := remove o (store x2); rr := rr x2; endfwd := true |}).
      assert (Hin : In o (keys x2)) by (unfold keys; rewrite Hst2'; eapply lookup_some_in; eauto).
      destruct (IH2 (i2 + 1)%nat (Some (ORM o)) c3 x3) as (acts4 & c4 & x4 & last4 & HR4 & HX4 & HEx4).
      { unfold Entry. replace (1 - 1) with 0 by lia. replace (o + 0 + 1) with (o + 1) by lia. cbn [orb Z.eqb].
        destruct Hso2 as [Hnd2 Hlk2]. unfold keys in *.
        cbn [n_ r_ snaps c3 upd fwd wdeps endfwd store rr x3].
        splits; auto; try lia.
        - unfold store_ok, keys. cbn [store x3]. eapply store_ok_remove; [split; [exact Hnd2|exact Hlk2]|reflexivity].
        - intros z _. rewrite in_del, (keys_remove _ o Hnd2 z). specialize (Hss2 z).
          destruct (Z.eq_dec z o) as [->|Hzo]; [split; [tauto|intros [Hq|Hq]; [tauto|apply Hex in Hq; lia]]|tauto].
        - intros p Hp. apply (keys_remove _ o Hnd2 p) in Hp. destruct Hp as [Hp Hne]. rewrite Hst2' in Hp. specialize (Hk1 p Hp). left; lia.
        - intros Hp. apply (keys_remove _ o Hnd2 o) in Hp. tauto.
        - rewrite length_remove by exact Hin. rewrite Hst2'. lia. }
      { intros _ Hc. lia. }
      destruct HEx4 as (Hn4 & Hr4 & Hrr4 & Hf4 & Hwd4 & Hwi4 & Hef4 & Hst4 & Hss4).
      exists ([a] ++ acts2 ++ [Move o RAM WORK] ++ acts4), c4, x4, last4. split; [|split].
      * rewrite app_assoc. eapply Runs_app; [exact HR1|]. eapply Runs_app; [exact HR2|].
        eapply Runs_app; [apply run_rm_move; [lia|apply mem_true_iff, Hss2; left; exact Hin]|exact HR4].
      * cbn [app execs]. rewrite HX1. rewrite execs_app, HX2. cbn [app execs].
        rewrite (exec_load x2 o e true) by (try assumption; try lia; rewrite Hst2'; exact Hlo1). exact HX4.
      * unfold Exit. splits; auto; try lia.
        apply Hfinal. rewrite Hst4. cbn [store x3]. rewrite Hst2'.
        apply remove_notin. destruct Hso1 as [Hnd1 _]. intros Hp. apply (keys_remove _ o Hnd1 o) in Hp. tauto.
    + (* j >= 2: the checkpoint at o is copied, left block keeps it *)
      pose (c3 := upd c2 o (r_ c2) (snaps c2)).
      pose (x3 := {| fwd := Some o; wics := Some (o, e); wdeps := None; store := store x2; rr := rr x2; endfwd := true |}).
      destruct (IH2 (i2 + 1)%nat (Some (ORM o)) c3 x3) as (acts4 & c4 & x4 & last4 & HR4 & HX4 & HEx4).
      { unfold Entry. replace (o + (j - 1) + 1) with (o + j) by lia. cbn [orb].
        assert (Hj0 : (j - 1 =? 0) = false) by (apply Z.eqb_neq; lia). rewrite Hj0.
        unfold keys in *. cbn [n_ r_ snaps c3 upd fwd wdeps endfwd store rr x3].
        splits; auto; try lia.
        - intros p Hp. rewrite Hst2' in Hp. specialize (Hk1 p Hp). destruct (Z.eq_dec p o); [right; lia|left; lia].
        - exists e. rewrite Hst2'. split; [exact Hlo1|lia].
        - rewrite Hst2'. lia. }
      { intros _ _. exact I. }
      destruct HEx4 as (Hn4 & Hr4 & Hrr4 & Hf4 & Hwd4 & Hwi4 & Hef4 & Hst4 & Hss4).
      exists ([a] ++ acts2 ++ [Copy o RAM WORK] ++ acts4), c4, x4, last4. split; [|split].
      * rewrite app_assoc. eapply Runs_app; [exact HR1|]. eapply Runs_app; [exact HR2|].
        eapply Runs_app; [apply run_rm_copy; lia|exact HR4].
      * cbn [app execs]. rewrite HX1. rewrite execs_app, HX2. cbn [app execs].
        rewrite (exec_load x2 o e false) by (try assumption; try lia; rewrite Hst2'; exact Hlo1). exact HX4.
      * unfold Exit. splits; auto; try lia.
        apply Hfinal. rewrite Hst4. cbn [store x3]. rewrite Hst2'. reflexivity.
Qed.
End CONV.
Print Assumptions blk_ok.
