(* MultistageCheckpointSchedule, model regenerated from source: multi_prog_model is the program (generator language GenLang3)
   that harness/translate.py produces from MultistageCheckpointSchedule._iterator (the nested helper write(n) inlined);
   Gen/MultistageGen.v re-translates the current source on every run and proves the result equal to this term by conversion.
   This file proves that resuming that program request by request is, under EVERY history of next() and finalize(k) calls,
   observation for observation what the hand-written machine of Model/Multistage.v does. *)
From Coq Require Import ZArith List Bool Lia ZifyBool.
Require Import Actions NAdvance Online GenLang3.
Require Multistage NAdv.
Import ListNotations.
Open Scope Z_scope.
Notation nadv := Multistage.nadv.

Definition raiseR : stmt := SRaise RuntimeError.
Definition MRm1 : zexp := ZSub (ZSub ZMax ZR) (ZC 1).
Definition write_inl : stmt := SSeq (SIf (BGe ZLen ZTotal) raiseR SSkip) (SSeq (SListPush (ZL Ln0)) SSetCp).
Definition adv (ns dist : zexp) (rest : stmt) : stmt :=
  SSeq (SSetL Lns ns) (SSeq (SSetL Ln0 ZN) (SSeq (SSetL Ln1 (ZAdd (ZL Ln0) (ZNadv dist (ZL Lns)))) (SSeq (SAssert (BGt (ZL Ln1) (ZL Ln0))) (SSeq (SSetN (ZL Ln1)) rest)))).
Definition push_body (dist : zexp) : stmt := adv (ZSub ZTotal ZLen) dist (SSeq write_inl (SYield (AForward (ZL Ln0) (ZL Ln1) true false SCp))).
Definition fwd_c : bexp := BLt ZN (ZSub ZMax (ZC 1)).
Definition fwd_body : stmt := push_body (ZSub ZMax (ZL Ln0)).
Definition inner_c : bexp := BLt ZN MRm1.
Definition inner_body : stmt := push_body (ZSub (ZSub ZMax ZR) (ZL Ln0)).
Definition checkN : stmt := SIf (BNe ZN MRm1) raiseR SSkip.
Definition inner_loop : stmt := SSeq (SWhile inner_c inner_body) checkN.
Definition Brest : stmt := adv (ZAdd (ZSub ZTotal ZLen) (ZC 1)) (ZSub (ZSub ZMax ZR) (ZL Ln0)) (SSeq (SYield (AForward (ZL Ln0) (ZL Ln1) false false (SC WORK))) inner_loop).
Definition brB : stmt := SSeq (SSetN (ZL Lcp)) (SSeq (SYield (ACopy (ZL Lcp) SCp (SC WORK))) Brest).
Definition brA : stmt := SSeq SListPop (SSeq (SSetN (ZL Lcp)) (SYield (AMove (ZL Lcp) SCp (SC WORK)))).
Definition rev_act : stmt := SSeq (SSetR (ZAdd ZR (ZC 1))) (SYield (AReverse ZN (ZSub ZN (ZC 1)) true)).
Definition adj : stmt := SSeq (SSetN (ZAdd ZN (ZC 1))) (SSeq (SYield (AForward (ZSub ZN (ZC 1)) ZN false true (SC WORK))) rev_act).
Definition rev_c : bexp := BLt ZR ZMax.
Definition rev_body : stmt := SSeq (SIf (BEq ZLen (ZC 0)) raiseR SSkip) (SSeq (SSetL Lcp ZTop) (SSeq SSetCp (SSeq (SIf (BEq (ZL Lcp) MRm1) brA brB) adj))).
Definition tail : stmt := SSeq (SIf (BNe ZR ZMax) raiseR SSkip) (SSeq (SIf (BNe ZLen (ZC 0)) raiseR SSkip) (SSeq (SSetX true) (SYield AEndReverse))).
Definition rev_part : stmt := SSeq (SWhile rev_c rev_body) tail.
Definition r2 : stmt := SSeq (SSetR (ZAdd ZR (ZC 1))) (SSeq (SYield (AReverse ZN (ZSub ZN (ZC 1)) true)) rev_part).
Definition r1 : stmt := SSeq (SYield AEndForward) r2.
Definition after_fwd : stmt :=
  SSeq (SIf (BNe ZN (ZSub ZMax (ZC 1))) raiseR SSkip) (SSeq (SSetN (ZAdd ZN (ZC 1))) (SSeq (SYield (AForward (ZSub ZN (ZC 1)) ZN false true (SC WORK))) r1)).
Definition multi_prog_model : stmt := SSeq SListNew (SSeq (SIf BMaxIsNone raiseR SSkip) (SSeq (SWhile fwd_c fwd_body) after_fwd)).

Definition ENC : list frame := [FLoop rev_c rev_body; FS tail].

Module M := Multistage.
Definition cfg3 (c : M.cfg) : cfg := {| total := M.total c; labels := M.labels c; trj := M.tr c |}.
Definition Rk (p : M.pc) (g : gst) (K : list frame) : Prop :=
  match p with
  | M.PFwdLoop => gx g = false /\ ((gsn g = [] /\ K = [FS multi_prog_model]) \/ K = [FLoop fwd_c fwd_body; FS after_fwd])
  | M.PFwdLast => gx g = false /\ K = [FS r1]
  | M.PEndFwd => gx g = false /\ K = [FS r2]
  | M.PRevHead => gx g = false /\ (K = [FS rev_part] \/ K = ENC)
  | M.PAfterCopy => gx g = false /\ K = FS Brest :: FS adj :: ENC /\ (forall m, max_n_ (gb g) = Some m -> n_ (gb g) <> m - r_ (gb g) - 1)
  | M.PInner => gx g = false /\ (K = FS inner_loop :: FS adj :: ENC \/ K = FLoop inner_c inner_body :: FS checkN :: FS adj :: ENC)
  | M.PAdj => gx g = false /\ K = FS adj :: ENC
  | M.PRevAct => gx g = false /\ K = FS rev_act :: ENC
  | M.PDone | M.PFinished => K = []
  end.
Definition good (c : M.cfg) (s : M.st) (g : gst) (K : list frame) : Prop :=
  gb g = {| n_ := M.n_ s; r_ := M.r_ s; max_n_ := Some (M.max_n c) |} /\ gx g = M.exhausted s /\ gsn g = M.snaps s /\ Rk (M.pcv s) g K.
Definition FUEL : nat := 120.

Lemma nadv_pos x y tr a : nadv x y tr = Ok a -> x <> 1 -> 1 <= a.
Proof.
  unfold M.nadv. intros H Hx. destruct (n_advance x y tr) as [a'| |] eqn:E; try discriminate. injection H as <-.
  destruct (Z.ltb_spec x 1) as [Hlt|Hge]; [unfold n_advance in E; destruct (Z.ltb_spec x 1); [discriminate|lia]|].
  destruct (Z.leb_spec y 0) as [Hy|Hy]; [unfold n_advance in E; destruct (Z.ltb_spec x 1); [lia|]; destruct (Z.leb_spec y 0); [discriminate|lia]|].
  destruct (NAdv.n_advance_spec x y tr Hge ltac:(lia)) as (a0 & E0 & _ & H2 & _). rewrite E in E0. injection E0 as <-. lia.
Qed.
Lemma nadv_units x y tr a : nadv x y tr = Ok a -> 1 <= y.
Proof.
  unfold M.nadv. intros H. destruct (n_advance x y tr) as [a'| |] eqn:E; try discriminate. unfold n_advance in E.
  destruct (x <? 1); [discriminate|]. destruct (Z.leb_spec y 0); [discriminate|lia].
Qed.
Lemma len_cons_ne0 (x : Z) l : (len (x :: l) =? 0) = false.
Proof. unfold len. cbn [length]. apply Z.eqb_neq. lia. Qed.
Lemma len_nil_eq0 : (len (@nil Z) =? 0) = true. Proof. reflexivity. Qed.
Lemma len_cons (x : Z) l : len (x :: l) = len l + 1.
Proof. unfold len. cbn [length]. lia. Qed.
Lemma label_none (c : M.cfg) (l : list Z) : nth_error (M.labels c) (length l) = None -> M.total c <= len l.
Proof. intros H. apply nth_error_None in H. unfold M.total, len. lia. Qed.

Lemma run_S f c K g : run (S f) c K g =
  match K with
  | [] => (([], g), StopIteration)
  | FLoop t body :: K' =>
      match beval c t g with Err e => (([], g), Raise e) | Ok true => run f c (FS body :: FLoop t body :: K') g | Ok false => run f c K' g end
  | FS s :: K' =>
      match s with
      | SSkip => run f c K' g
      | SSeq a b => run f c (FS a :: FS b :: K') g
      | SIf t a b => match beval c t g with Err e => (([], g), Raise e) | Ok true => run f c (FS a :: K') g | Ok false => run f c (FS b :: K') g end
      | SWhile t body => run f c (FLoop t body :: K') g
      | SSetN e => match zeval c e g with Err e => (([], g), Raise e) | Ok v => run f c K' (set_n g v) end
      | SSetR e => match zeval c e g with Err e => (([], g), Raise e) | Ok v => run f c K' (set_r g v) end
      | SSetL x e => match zeval c e g with Err e => (([], g), Raise e) | Ok v => run f c K' (set_l g x (Some v)) end
      | SSetX v => run f c K' (set_x g v)
      | SListNew => run f c K' (set_sn g [])
      | SSetCp => match label_at c g with Err e => (([], g), Raise e) | Ok v => run f c K' (set_cp g v) end
      | SListPop => match gsn g with _ :: r => run f c K' (set_sn g r) | [] => (([], g), Raise IndexError) end
      | SListPush e => match zeval c e g with Err e => (([], g), Raise e) | Ok v => run f c K' (set_sn g (v :: gsn g)) end
      | SAssert t => match beval c t g with Err e => (([], g), Raise e) | Ok true => run f c K' g | Ok false => (([], g), Raise AssertionError) end
      | SYield a => match aeval c a g with Err e => (([], g), Raise e) | Ok act => ((K', g), Yield act) end
      | SRaise e => (([], g), Raise e)
      end
  end.
Proof. reflexivity. Qed.

Ltac arith_opaque := cbv - [Z.add Z.sub Z.mul Z.div Z.min Z.eqb Z.ltb Z.gtb Z.geb Z.leb M.nadv len nth_error length M.total M.max_n M.labels M.tr].
Ltac small0 E := cbn [beval zeval cmp2 bind aeval seval set_n set_r set_l set_sn set_x set_cp label_at gb gx gsn gl gcp n_ r_ max_n_ total labels trj cfg3 loc_eqb negb
                        fwd_c inner_c rev_c MRm1 raiseR] in E.
Ltac small E := small0 E; repeat (progress (repeat match goal with H : ?L ?x = Some _ |- _ => rewrite H in E end); small0 E).
Ltac expose E :=
  match type of E with
  | run _ _ ENC _ = _ => unfold ENC in E
  | run _ _ (FS ?h :: _) _ = _ =>
      first [ unfold h in E
            | match h with ?f _ _ _ => unfold f in E end
            | match h with ?f _ => unfold f in E end ]
  end.
Ltac step E := match type of E with run _ _ _ _ = _ => idtac end; repeat expose E; rewrite run_S in E; small E.
Ltac decide1 E :=
  match type of E with
  | context [len (?x :: ?l) =? 0] => rewrite (len_cons_ne0 x l) in E
  | context [len [] =? 0] => rewrite len_nil_eq0 in E
  | context [?x =? ?x] => rewrite (Z.eqb_refl x) in E
  end.
Ltac split1 E :=
  match type of E with
  | (if negb ?x then _ else _) = _ => destruct x eqn:?
  | (if ?x then _ else _) = _ => destruct x eqn:?
  | match nadv ?a ?b ?t with _ => _ end = _ => destruct (nadv a b t) eqn:?
  | context [match nadv ?a ?b ?t with _ => _ end] => destruct (nadv a b t) eqn:?
  | context [bind (nadv ?a ?b ?t) _] => destruct (nadv a b t) eqn:?
  | match nth_error ?l ?i with _ => _ end = _ => destruct (nth_error l i) eqn:?
  | context [match nth_error ?l ?i with _ => _ end] => destruct (nth_error l i) eqn:?
  end.
Ltac drive E := repeat (first [decide1 E; small E | split1 E; small E | step E]).
Ltac use_hyps := repeat match goal with H : ?t = _ |- context [?t] => rewrite H end.
Ltac fin1 :=
  match goal with
  | |- ?x = ?x => reflexivity
  | |- _ <> _ => discriminate
  | |- _ = _ -> False => discriminate
  | |- _ \/ _ => first [left; reflexivity | right; reflexivity | left; split; reflexivity]
  | |- @eq outcome _ _ => first [reflexivity | repeat f_equal; lia]
  | |- @eq base _ _ => first [reflexivity | f_equal; lia]
  | |- @eq (list Z) _ _ => first [reflexivity | repeat f_equal; lia]
  | |- @eq (option Z) _ _ => first [reflexivity | assumption | f_equal; lia]
  | |- @eq bool _ _ => reflexivity
  | |- @eq (list frame) _ _ => reflexivity
  | |- forall _, Some _ = Some _ -> _ => let H := fresh in intros ? H ?; injection H as <-; lia
  | _ => assumption
  end.
Ltac fin := repeat match goal with |- _ /\ _ => split end; try fin1.
Ltac facts :=
  repeat match goal with
  | H : nadv ?x ?y ?t = Ok ?a |- _ =>
      lazymatch goal with
      | _ : 1 <= y |- _ => fail
      | _ => pose proof (nadv_units x y t a H)
      end
  end;
  repeat match goal with
  | H : nadv ?x ?y ?t = Ok ?a |- _ =>
      lazymatch goal with
      | _ : 1 <= a |- _ => fail
      | _ => assert (1 <= a) by (apply (nadv_pos x y t a H); lia)
      end
  end;
  repeat match goal with
  | H : nth_error (M.labels ?c) (length ?l) = None |- _ => apply label_none in H
  end;
  rewrite ?len_cons in *.
Ltac close := arith_opaque; use_hyps; arith_opaque; rewrite ?Z.eqb_refl; fin; try (exfalso; facts; lia).

#[local] Strategy opaque [run].

Section STEP.
Variable c : M.cfg.
Definition step_ok (s : M.st) (g : gst) (K : list frame) : Prop :=
  good c (fst (M.next c s)) (snd (fst (run FUEL (cfg3 c) K g))) (fst (fst (run FUEL (cfg3 c) K g))) /\ snd (run FUEL (cfg3 c) K g) = snd (M.next c s).

Ltac prelude :=
  let HR := fresh "HR" in
  intros s g K Hpc; destruct s as [pc0 n r sn ex], g as [gb0 gx0 gsn0 L cp0]; cbn [M.pcv] in Hpc; subst pc0;
  unfold step_ok, good; cbn [M.pcv M.n_ M.r_ M.snaps M.exhausted gb gx gsn]; intros (-> & -> & -> & HR);
  destruct (run FUEL (cfg3 c) K {| gb := {| n_ := n; r_ := r; max_n_ := Some (M.max_n c) |}; gx := ex; gsn := sn; gl := L; gcp := cp0 |}) as [[K' g'] o] eqn:E; cbn [fst snd];
  unfold FUEL in E; cbn [Rk] in HR; cbn [gb gx gl gsn max_n_ n_ r_] in HR.

Lemma step_PFwdLoop : forall s g K, M.pcv s = M.PFwdLoop -> good c s g K -> step_ok s g K.
Proof. prelude. destruct HR as [-> [[-> ->] | ->]]; drive E; injection E as <- <- <-; close. Qed.
Lemma step_PFwdLast : forall s g K, M.pcv s = M.PFwdLast -> good c s g K -> step_ok s g K.
Proof. prelude. destruct HR as [-> ->]; drive E; injection E as <- <- <-; close. Qed.
Lemma step_PEndFwd : forall s g K, M.pcv s = M.PEndFwd -> good c s g K -> step_ok s g K.
Proof. prelude. destruct HR as [-> ->]; drive E; injection E as <- <- <-; close. Qed.
Lemma step_PRevHead : forall s g K, M.pcv s = M.PRevHead -> good c s g K -> step_ok s g K.
Proof. prelude. destruct HR as [-> [-> | ->]]; destruct sn as [|cp sn]; drive E; injection E as <- <- <-; close. Qed.
Lemma step_PAfterCopy : forall s g K, M.pcv s = M.PAfterCopy -> good c s g K -> step_ok s g K.
Proof. prelude. destruct HR as (-> & -> & Hne). specialize (Hne _ eq_refl). drive E; injection E as <- <- <-; close. Qed.
Lemma step_PInner : forall s g K, M.pcv s = M.PInner -> good c s g K -> step_ok s g K.
Proof. prelude. destruct HR as [-> [-> | ->]]; drive E; injection E as <- <- <-; close. Qed.
Lemma step_PAdj : forall s g K, M.pcv s = M.PAdj -> good c s g K -> step_ok s g K.
Proof. prelude. destruct HR as [-> ->]; drive E; injection E as <- <- <-; close. Qed.
Lemma step_PRevAct : forall s g K, M.pcv s = M.PRevAct -> good c s g K -> step_ok s g K.
Proof. prelude. destruct HR as [-> ->]; drive E; injection E as <- <- <-; close. Qed.
Lemma step_PDone : forall s g K, M.pcv s = M.PDone -> good c s g K -> step_ok s g K.
Proof. prelude. subst K. drive E. injection E as <- <- <-. close. Qed.
Lemma step_PFinished : forall s g K, M.pcv s = M.PFinished -> good c s g K -> step_ok s g K.
Proof. prelude. subst K. drive E. injection E as <- <- <-. close. Qed.

Theorem multi_step s g K : good c s g K -> step_ok s g K.
Proof.
  intros H. destruct (M.pcv s) eqn:Ep;
    eauto using step_PFwdLoop, step_PFwdLast, step_PEndFwd, step_PRevHead, step_PAfterCopy, step_PInner, step_PAdj, step_PRevAct, step_PDone, step_PFinished.
Qed.
End STEP.

(* ---- every history, against the schedule object of Model/Sched.v ---- *)
Require Import Sched.
Fixpoint srun_ops (s : Sched.sched) (ops : list Online.op) : list Online.obs :=
  match ops with
  | [] => []
  | Online.Next :: rest => let '(s', o) := Sched.next s in
      ONext o (Sched.get_n s') (Sched.get_r s') (Sched.get_max_n s') (Sched.is_exhausted s') :: srun_ops s' rest
  | Online.Fin kk :: rest => let '(s', e) := Sched.finalize kk s in
      OFin e (Sched.get_n s') (Sched.get_r s') (Sched.get_max_n s') (Sched.is_exhausted s') :: srun_ops s' rest
  end.
Fixpoint grun_ops_f (fuel : nat) (c : cfg) (K : list frame) (g : gst) (ops : list Online.op) : list Online.obs :=
  match ops with
  | [] => []
  | Online.Next :: rest => let '((K', g'), o) := run fuel c K g in
      ONext o (n_ (gb g')) (r_ (gb g')) (max_n_ (gb g')) (gx g') :: grun_ops_f fuel c K' g' rest          (* is_exhausted: `return self._exhausted` *)
  | Online.Fin kk :: rest => let '(g', e) := gfinalize kk g in
      OFin e (n_ (gb g')) (r_ (gb g')) (max_n_ (gb g')) (gx g') :: grun_ops_f fuel c K g' rest
  end.
Definition grun_ops := grun_ops_f FUEL.

Theorem multi_history c ram disk : forall ops ms g K b, good c ms g K ->
  grun_ops (cfg3 c) K g ops = srun_ops {| ob := OMulti c ms ram disk; started := b |} ops.
Proof.
  induction ops as [|o ops IH]; intros ms g K b HG; [reflexivity|]. destruct o as [|kk]; unfold grun_ops in *; cbn [grun_ops_f srun_ops].
  - destruct (multi_step c ms g K HG) as [HG' Ho].
    destruct (run FUEL (cfg3 c) K g) as [[K' g'] o] eqn:Er. cbn [Sched.next ob]. destruct (M.next c ms) as [ms' o'] eqn:En. cbn [fst snd] in *. subst o'.
    destruct HG' as (Hb & Hx & Hs & HR). rewrite Hb, Hx. cbn [Sched.get_n Sched.get_r Sched.get_max_n Sched.is_exhausted ob n_ r_ max_n_]. f_equal.
    apply IH. repeat split; assumption.
  - destruct HG as (Hb & Hx & Hs & HR). unfold gfinalize, Sched.finalize. cbn [ob]. rewrite Hb.
    cbn [Sched.get_n Sched.get_max_n ob]. unfold Online.finalize. cbn [n_ r_ max_n_].
    destruct (kk <? 1); [|destruct (negb (M.n_ ms =? kk) || negb (M.max_n c =? kk))];
      cbn [gb gx Sched.get_n Sched.get_r Sched.get_max_n Sched.is_exhausted ob n_ r_ max_n_]; rewrite Hx; f_equal;
      apply IH; repeat split; cbn [gb gx gsn]; try assumption;
      (destruct (M.pcv ms); cbn [Rk gb gx gsn n_ r_ max_n_] in HR |- *; rewrite ?Hb, ?Hx in HR; cbn [n_ r_ max_n_] in HR; exact HR).
Qed.

Definition g_init (n : Z) : gst := {| gb := {| n_ := 0; r_ := 0; max_n_ := Some n |}; gx := false; gsn := []; gl := fun _ => None; gcp := None |}.
Theorem multi_from_start n ram disk tj ops s : Sched.construct (PMulti n ram disk tj) = Ok s ->
  exists c, Multistage.construct n ram disk tj = Ok c /\ grun_ops (cfg3 c) [FS multi_prog_model] (g_init n) ops = srun_ops s ops.
Proof.
  cbn [Sched.construct]. destruct (Multistage.construct n ram disk tj) as [c|e] eqn:Ec; cbn [bind]; [|discriminate]. intros H. injection H as <-.
  exists c. split; [reflexivity|]. apply multi_history.
  assert (Hn : M.max_n c = n).
  { unfold Multistage.construct in Ec. destruct (n <? 1); [discriminate|]. destruct (Z.min ram (n - 1) =? 0); [injection Ec as <-; reflexivity|].
    destruct (Z.min disk (n - 1) =? 0); [injection Ec as <-; reflexivity|]. destruct (Multistage.allocate n ram disk tj); cbn [bind] in Ec; [|discriminate]. injection Ec as <-. reflexivity. }
  unfold good, g_init, M.init. cbn. rewrite Hn. repeat split; auto.
Qed.
Print Assumptions multi_step.
Print Assumptions multi_from_start.
