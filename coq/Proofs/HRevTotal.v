(* HRevolve: the constructor's computation is total on the documented domain (max_n >= 1, snapshots_in_ram >= 1,
   snapshots_on_disk >= 0, any costs): get_hopt_table never indexes out of range, hrevolve_aux is never called without a
   slot (the column m = 0 of optp[1] stays infinite for l >= 2, so hrevolve_recurse never writes to disk without a disk
   slot), and the fuel 4 l + 8 of the extracted recursion suffices. *)
From Coq Require Import ZArith List Lia Bool.
Require Import Actions Ops HRevSeq.
Import ListNotations.
Open Scope Z_scope.

(* ---- lists ---- *)
Lemma upd_list_some {A} : forall (l : list A) i v, (i < length l)%nat -> exists l', upd_list l i v = Some l'.
Proof.
  induction l as [|x l IH]; intros i v Hi; [cbn in Hi; lia|]. destruct i as [|i]; cbn [upd_list]; [eauto|].
  destruct (IH i v ltac:(cbn in Hi; lia)) as [l' ->]. eauto.
Qed.
Lemma upd_list_length {A} : forall (l : list A) i v l', upd_list l i v = Some l' -> length l' = length l.
Proof.
  induction l as [|x l IH]; intros i v l' H; [destruct i; discriminate|]. destruct i as [|i]; cbn [upd_list] in H.
  - injection H as <-. reflexivity.
  - destruct (upd_list l i v) as [r|] eqn:E; [|discriminate]. injection H as <-. cbn [length]. f_equal. eapply IH; eauto.
Qed.
Lemma nth_upd_eq {A} : forall (l : list A) i v l', upd_list l i v = Some l' -> nth_error l' i = Some v.
Proof.
  induction l as [|x l IH]; intros i v l' H; [destruct i; discriminate|]. destruct i as [|i]; cbn [upd_list] in H.
  - injection H as <-. reflexivity.
  - destruct (upd_list l i v) as [r|] eqn:E; [|discriminate]. injection H as <-. cbn [nth_error]. eapply IH; eauto.
Qed.
Lemma nth_upd_ne {A} : forall (l : list A) i v l' j, upd_list l i v = Some l' -> j <> i -> nth_error l' j = nth_error l j.
Proof.
  induction l as [|x l IH]; intros i v l' j H Hne; [destruct i; discriminate|]. destruct i as [|i]; cbn [upd_list] in H.
  - injection H as <-. destruct j; [congruence|reflexivity].
  - destruct (upd_list l i v) as [r|] eqn:E; [|discriminate]. injection H as <-. destruct j as [|j]; [reflexivity|]. cbn [nth_error]. eapply IH; eauto.
Qed.
Lemma Forall_upd {A} (P : A -> Prop) : forall (l : list A) i v l', upd_list l i v = Some l' -> Forall P l -> P v -> Forall P l'.
Proof.
  induction l as [|x l IH]; intros i v l' H Hl Hv; [destruct i; discriminate|]. inversion Hl; subst. destruct i as [|i]; cbn [upd_list] in H.
  - injection H as <-. constructor; assumption.
  - destruct (upd_list l i v) as [r|] eqn:E; [|discriminate]. injection H as <-. constructor; [assumption|]. eapply IH; eauto.
Qed.
Lemma in_zrange lo hi j : In j (zrange lo hi) -> lo <= j < hi.
Proof. unfold zrange. intros H. apply in_map_iff in H. destruct H as (i & <- & Hi). apply in_seq in Hi. lia. Qed.
Lemma map_res_total {A B} (f : A -> res B) l : (forall x, In x l -> exists y, f x = Ok y) -> exists ys, map_res f l = Ok ys.
Proof.
  induction l as [|x l IH]; intros H; cbn [map_res]; [eauto|]. destruct (H x (or_introl eq_refl)) as [y ->]. cbn [bind].
  destruct (IH (fun z Hz => H z (or_intror Hz))) as [ys ->]. cbn [bind]. eauto.
Qed.

(* ---- tables ---- *)
Definition Dim (t : tab) (rows cols : Z) : Prop := Z.of_nat (length t) = rows /\ Forall (fun r => Z.of_nat (length r) = cols) t.
Lemma mk_dim lmax c : 0 <= lmax -> 0 <= c -> Dim (mk lmax c) (lmax + 1) (c + 1).
Proof.
  intros H1 H2. unfold Dim, mk. rewrite repeat_length. split; [lia|]. apply Forall_forall. intros r Hr. apply repeat_spec in Hr. subst r. rewrite repeat_length. lia.
Qed.
Lemma get_ok t rows cols l m : Dim t rows cols -> 0 <= l < rows -> 0 <= m < cols -> exists v, get t l m = Ok v.
Proof.
  intros [Hr Hc] Hl Hm. unfold get. destruct (Z.ltb_spec l 0); [lia|]. destruct (Z.ltb_spec m 0); [lia|]. cbn [orb].
  destruct (nth_error t (Z.to_nat l)) as [row|] eqn:E; [|apply nth_error_None in E; lia].
  rewrite Forall_forall in Hc. specialize (Hc row (nth_error_In _ _ E)).
  destruct (nth_error row (Z.to_nat m)) as [v|] eqn:E2; [eauto|apply nth_error_None in E2; lia].
Qed.
Lemma set_ok t rows cols l m v : Dim t rows cols -> 0 <= l < rows -> 0 <= m < cols ->
  exists t', set t l m v = Ok t' /\ Dim t' rows cols /\ (forall l' m', (l' <> l \/ m' <> m) -> get t' l' m' = get t l' m').
Proof.
  intros [Hr Hc] Hl Hm. unfold set. destruct (Z.ltb_spec l 0); [lia|]. destruct (Z.ltb_spec m 0); [lia|]. cbn [orb].
  destruct (nth_error t (Z.to_nat l)) as [row|] eqn:E; [|apply nth_error_None in E; lia].
  pose proof Hc as Hc'. rewrite Forall_forall in Hc'. specialize (Hc' row (nth_error_In _ _ E)).
  destruct (upd_list_some row (Z.to_nat m) v ltac:(lia)) as [row' Er]. rewrite Er.
  destruct (upd_list_some t (Z.to_nat l) row' ltac:(lia)) as [t' Et]. rewrite Et.
  exists t'. split; [reflexivity|]. split.
  - split; [rewrite (upd_list_length _ _ _ _ Et); exact Hr|]. eapply Forall_upd; eauto. cbn. rewrite (upd_list_length _ _ _ _ Er). exact Hc'.
  - intros l' m' Hne. unfold get. destruct ((l' <? 0) || (m' <? 0)) eqn:Eo; [reflexivity|]. apply orb_false_iff in Eo. destruct Eo as [E1 E2].
    apply Z.ltb_ge in E1. apply Z.ltb_ge in E2.
    destruct (Nat.eq_dec (Z.to_nat l') (Z.to_nat l)) as [Hel|Hnl].
    + rewrite Hel, (nth_upd_eq _ _ _ _ Et), E. rewrite (nth_upd_ne _ _ _ _ (Z.to_nat m') Er); [reflexivity|]. lia.
    + rewrite (nth_upd_ne _ _ _ _ _ Et Hnl). reflexivity.
Qed.
Lemma mk_get lmax c l m : 0 <= l <= lmax -> 0 <= m <= c -> get (mk lmax c) l m = Ok Inf.
Proof.
  intros Hl Hm. unfold get, mk. destruct (Z.ltb_spec l 0); [lia|]. destruct (Z.ltb_spec m 0); [lia|]. cbn [orb].
  rewrite nth_error_repeat by lia. rewrite nth_error_repeat by lia. reflexivity.
Qed.

(* ---- loops ---- *)
Lemma for_inv {S} (Inv : S -> Prop) (f : Z -> S -> res S) : forall cnt lo s,
  (forall i s0, lo <= i < lo + Z.of_nat cnt -> Inv s0 -> exists s', f i s0 = Ok s' /\ Inv s') -> Inv s ->
  exists s', for_ lo cnt s f = Ok s' /\ Inv s'.
Proof.
  induction cnt as [|cnt IH]; intros lo s Hf Hs; cbn [for_]; [eauto|].
  destruct (Hf lo s ltac:(lia) Hs) as (s1 & -> & H1). cbn [bind]. apply IH; [|exact H1]. intros i s0 Hi. apply Hf. lia.
Qed.
Lemma range_inv {S} (Inv : S -> Prop) (f : Z -> S -> res S) lo hi s :
  (forall i s0, lo <= i < hi -> Inv s0 -> exists s', f i s0 = Ok s' /\ Inv s') -> Inv s ->
  exists s', range_for lo hi s f = Ok s' /\ Inv s'.
Proof. intros Hf Hs. unfold range_for. apply for_inv; [|exact Hs]. intros i s0 Hi. apply Hf. lia. Qed.

Section TAB.
Variable lmax c0 c1 : Z.
Hypothesis Hl : 0 <= lmax.
Hypothesis Hc0 : 0 <= c0.
Hypothesis Hc0' : 2 <= lmax -> 1 <= c0.
Hypothesis Hc1 : 0 <= c1.
Definition Inv (T : tabs) : Prop :=
  Dim (optp0 T) (lmax + 1) (c0 + 1) /\ Dim (opt0 T) (lmax + 1) (c0 + 1) /\ Dim (optp1 T) (lmax + 1) (c1 + 1) /\ Dim (opt1 T) (lmax + 1) (c1 + 1) /\
  (forall l, 2 <= l <= lmax -> get (optp1 T) l 0 = Ok Inf).

Lemma upd0 T l m v1 v2 : Inv T -> 0 <= l <= lmax -> 0 <= m <= c0 ->
  exists a b, set (opt0 T) l m v2 = Ok a /\ set (optp0 T) l m v1 = Ok b /\ Inv {| optp0 := b; opt0 := a; optp1 := optp1 T; opt1 := opt1 T |}.
Proof.
  intros (D1 & D2 & D3 & D4 & C) H1 H2.
  destruct (set_ok _ _ _ l m v2 D2 ltac:(lia) ltac:(lia)) as (a & Ea & Da & _).
  destruct (set_ok _ _ _ l m v1 D1 ltac:(lia) ltac:(lia)) as (b & Eb & Db & _).
  exists a, b. repeat split; auto; try apply Da; try apply Db; try apply D3; try apply D4.
Qed.
Lemma upd1 T l m v1 v2 : Inv T -> 0 <= l <= lmax -> 0 <= m <= c1 -> (l < 2 \/ 1 <= m) ->
  exists a b, set (opt1 T) l m v2 = Ok a /\ set (optp1 T) l m v1 = Ok b /\ Inv {| optp0 := optp0 T; opt0 := opt0 T; optp1 := b; opt1 := a |}.
Proof.
  intros (D1 & D2 & D3 & D4 & C) H1 H2 H3.
  destruct (set_ok _ _ _ l m v2 D4 ltac:(lia) ltac:(lia)) as (a & Ea & Da & _).
  destruct (set_ok _ _ _ l m v1 D3 ltac:(lia) ltac:(lia)) as (b & Eb & Db & Ob).
  exists a, b. split; [exact Ea|]. split; [exact Eb|]. unfold Inv. cbn [optp0 opt0 optp1 opt1].
  split; [exact D1|]. split; [exact D2|]. split; [exact Db|]. split; [exact Da|].
  intros l' Hl'. rewrite Ob by lia. apply C. exact Hl'.
Qed.
Lemma upd1a T l m v : Inv T -> 0 <= l <= lmax -> 0 <= m <= c1 ->
  exists a, set (opt1 T) l m v = Ok a /\ Inv {| optp0 := optp0 T; opt0 := opt0 T; optp1 := optp1 T; opt1 := a |}.
Proof.
  intros (D1 & D2 & D3 & D4 & C) H1 H2.
  destruct (set_ok _ _ _ l m v D4 ltac:(lia) ltac:(lia)) as (a & Ea & Da & _).
  exists a. split; [exact Ea|]. unfold Inv. cbn [optp0 opt0 optp1 opt1]. auto.
Qed.
Lemma g_optp0 T l m : Inv T -> 0 <= l <= lmax -> 0 <= m <= c0 -> exists v, get (optp0 T) l m = Ok v.
Proof. intros (D1 & _) H1 H2. eapply get_ok; eauto; lia. Qed.
Lemma g_opt0 T l m : Inv T -> 0 <= l <= lmax -> 0 <= m <= c0 -> exists v, get (opt0 T) l m = Ok v.
Proof. intros (_ & D2 & _) H1 H2. eapply get_ok; eauto; lia. Qed.
Lemma g_optp1 T l m : Inv T -> 0 <= l <= lmax -> 0 <= m <= c1 -> exists v, get (optp1 T) l m = Ok v.
Proof. intros (_ & _ & D3 & _) H1 H2. eapply get_ok; eauto; lia. Qed.
Lemma g_opt1 T l m : Inv T -> 0 <= l <= lmax -> 0 <= m <= c1 -> exists v, get (opt1 T) l m = Ok v.
Proof. intros (_ & _ & _ & D4 & _) H1 H2. eapply get_ok; eauto; lia. Qed.

Theorem hopt_table_total w0 w1 r0 r1 ub uf : exists T, get_hopt_table lmax c0 c1 w0 w1 r0 r1 ub uf = Ok T /\ Inv T.
Proof.
  unfold get_hopt_table.
  set (T0 := {| optp0 := mk lmax c0; opt0 := mk lmax c0; optp1 := mk lmax c1; opt1 := mk lmax c1 |}).
  assert (I0 : Inv T0).
  { unfold Inv, T0. cbn [optp0 opt0 optp1 opt1]. repeat split; try (apply mk_dim; lia). intros l Hl'. apply mk_get; lia. }
  (* each stage keeps Inv *)
  Ltac stage H := match goal with |- exists T, (do T1 <- range_for ?lo ?hi ?s ?f; _) = Ok T /\ _ =>
    let T1 := fresh "T" in let E := fresh "E" in let I1 := fresh "I" in
    destruct (range_inv Inv f lo hi s) as (T1 & E & I1); [|exact H|rewrite E; cbn [bind]; clear E] end.
  stage I0.
  { intros m T Hm HI. destruct (upd0 T 0 m (Fin ub) (Fin ub) HI ltac:(lia) ltac:(lia)) as (a & b & -> & -> & HI'). cbn [bind]. eauto. }
  stage I.
  { intros m T' Hm HI. destruct (Z.eqb_spec m 0); cbn [orb]; [eauto|]. destruct (Z.ltb_spec lmax 1); [eauto|].
    destruct (upd0 T' 1 m (Fin (uf + 2 * ub + r0)) (cadd (Fin w0) (Fin (uf + 2 * ub + r0))) HI ltac:(lia) ltac:(lia)) as (a & b & Ea & Eb & HI').
    cbn zeta. rewrite Eb. cbn [bind]. rewrite Ea. cbn [bind]. eauto. }
  stage I1.
  { intros m T' Hm HI. destruct (upd1 T' 0 m (Fin ub) (Fin ub) HI ltac:(lia) ltac:(lia) ltac:(lia)) as (a & b & -> & -> & HI'). cbn [bind]. eauto. }
  stage I2.
  { intros m T' Hm HI. destruct (Z.ltb_spec lmax 1); [eauto|].
    destruct (upd1 T' 1 m (Fin (uf + 2 * ub + r0)) (cadd (Fin w0) (Fin (uf + 2 * ub + r0))) HI ltac:(lia) ltac:(lia) ltac:(lia)) as (a & b & Ea & Eb & HI').
    cbn zeta. rewrite Eb. cbn [bind]. rewrite Ea. cbn [bind]. eauto. }
  stage I3.
  { intros l T' Hl' HI. set (v := Fin ((l + 1) * ub + l * (l + 1) / 2 * uf + l * r0)).
    destruct (upd0 T' l 1 v (cadd (Fin w0) v) HI ltac:(lia) ltac:(lia)) as (a & b & Ea & Eb & HI').
    cbn zeta. fold v. rewrite Eb. cbn [bind]. rewrite Ea. cbn [bind]. eauto. }
  stage I4.
  { intros m T' Hm HI. apply range_inv; [|exact HI]. intros l T'' Hl' HI2.
    destruct (map_res_total (fun j => do x <- get (opt0 T'') (l - j) (m - 1); do y <- get (optp0 T'') (j - 1) m; Ok (cadd (cadd (cadd (Fin (j * uf)) x) (Fin r0)) y)) (zrange 1 l)) as [cands ->].
    { intros j Hj. apply in_zrange in Hj. destruct (g_opt0 T'' (l - j) (m - 1) HI2 ltac:(lia) ltac:(lia)) as [x ->]. cbn [bind].
      destruct (g_optp0 T'' (j - 1) m HI2 ltac:(lia) ltac:(lia)) as [y ->]. cbn [bind]. eauto. }
    cbn [bind]. destruct (g_optp0 T'' l 1 HI2 ltac:(lia) ltac:(lia)) as [lst ->]. cbn [bind]; cbn zeta.
    set (v := cmin_list (cands ++ [lst]) Inf).
    destruct (upd0 T'' l m v (cadd (Fin w0) v) HI2 ltac:(lia) ltac:(lia)) as (a & b & Ea & Eb & HI'). rewrite Eb. cbn [bind]. rewrite Ea. cbn [bind]. eauto. }
  stage I5.
  { intros l T' Hl' HI. destruct (g_opt0 T' l c0 HI ltac:(lia) ltac:(lia)) as [x ->]. cbn [bind].
    destruct (upd1a T' l 0 x HI ltac:(lia) ltac:(lia)) as (a & -> & HI'). cbn [bind]. eauto. }
  apply range_inv; [|exact I6]. intros m T' Hm HI. apply range_inv; [|exact HI]. intros l T'' Hl' HI2.
  destruct (g_opt0 T'' l c0 HI2 ltac:(lia) ltac:(lia)) as [low ->]. cbn [bind].
  destruct (map_res_total (fun j => do x <- get (opt1 T'') (l - j) (m - 1); do y <- get (optp1 T'') (j - 1) m; Ok (cadd (cadd (cadd (Fin (j * uf)) x) (Fin r1)) y)) (zrange 1 l)) as [cands ->].
  { intros j Hj. apply in_zrange in Hj. destruct (g_opt1 T'' (l - j) (m - 1) HI2 ltac:(lia) ltac:(lia)) as [x ->]. cbn [bind].
    destruct (g_optp1 T'' (j - 1) m HI2 ltac:(lia) ltac:(lia)) as [y ->]. cbn [bind]. eauto. }
  cbn [bind]; cbn zeta. set (v := cmin_list (low :: cands) Inf).
  destruct (upd1 T'' l m v (cmin low (cadd (Fin w1) v)) HI2 ltac:(lia) ltac:(lia) ltac:(lia)) as (a & b & Ea & Eb & HI'). rewrite Eb. cbn [bind]. rewrite Ea. cbn [bind]. eauto.
Qed.
End TAB.
Print Assumptions hopt_table_total.

(* ---- the recursion ---- *)
Require Import HRevGen.
Require RevBridge5.
Section REC.
Variable p : hp.
Variable T : tabs.
Variable lmax : Z.
Hypothesis Hl : 0 <= lmax.
Hypothesis Hc0 : 1 <= c0v p.
Hypothesis Hc1 : 0 <= c1v p.
Hypothesis HI : Inv lmax (c0v p) (c1v p) T.
Hypothesis Hcv : cvec p 0 = c0v p.

Lemma aux01_total f l : 0 <= l <= lmax -> (1 <= f)%nat -> exists s, aux f p T l 0 1 = Ok s.
Proof.
  intros Hl' Hf. destruct f as [|f]; [lia|]. cbn [aux]. change (1 =? 0) with false. cbv iota.
  destruct (l =? 0); [eauto|]. destruct (l =? 1); [eauto|]. change ((0 =? 0) && (1 =? 1)) with true. cbv iota. eauto.
Qed.

Lemma rec_total : forall f : nat,
  (forall l cm, 0 <= l <= lmax -> 1 <= cm <= c0v p -> 2 * l + 1 <= Z.of_nat f -> exists s, aux f p T l 0 cm = Ok s) /\
  (forall l cm, 0 <= l <= lmax -> 1 <= cm <= c0v p -> 2 * l + 2 <= Z.of_nat f -> exists s, recurse f p T l 0 cm = Ok s) /\
  (forall l cm, 0 <= l <= lmax -> 1 <= cm <= c1v p -> 2 * l + 3 <= Z.of_nat f -> exists s, aux f p T l 1 cm = Ok s) /\
  (forall l cm, 0 <= l <= lmax -> 0 <= cm <= c1v p -> 2 * l + 4 <= Z.of_nat f -> exists s, recurse f p T l 1 cm = Ok s).
Proof.
  induction f as [|f (IA0 & IR0 & IA1 & IR1)]; [repeat split; intros; lia|].
  split; [|split; [|split]]; intros l cm Hl' Hcm Hf.
  - (* aux, K = 0 *)
    cbn [aux]. destruct (Z.eqb_spec cm 0); [lia|]. destruct (Z.eqb_spec l 0); [eauto|]. destruct (Z.eqb_spec l 1); [eauto|]. cbn [Z.eqb andb].
    destruct (Z.eqb_spec cm 1); [eauto|].
    destruct (map_res_total (fun j => do x <- get (opt0 T) (l - j) (cm - 1); do y <- get (optp0 T) (j - 1) cm; Ok (cadd (cadd (cadd (Fin (j * ufv p)) x) (Fin (r0v p))) y)) (zrange 1 l)) as [lm Elm].
    { intros j Hj. apply in_zrange in Hj. destruct (g_opt0 lmax (c0v p) (c1v p) T (l - j) (cm - 1) HI ltac:(lia) ltac:(lia)) as [x ->]. cbn [bind].
      destruct (g_optp0 lmax (c0v p) (c1v p) T (j - 1) cm HI ltac:(lia) ltac:(lia)) as [y ->]. cbn [bind]. eauto. }
    rewrite Elm. cbn [bind]. destruct (g_optp0 lmax (c0v p) (c1v p) T l 1 HI ltac:(lia) ltac:(lia)) as [ref ->]. cbn [bind].
    destruct (clt (cmin_list lm Inf) ref).
    + assert (Hlen : length lm = Z.to_nat (l - 1)) by (rewrite (RevBridge5.map_res_length _ _ _ Elm), zrange_length; reflexivity).
      assert (Hj : 1 <= HRevSeq.argmin lm <= l - 1).
      { pose proof (argmin_bound lm) as Hb. destruct lm; [cbn in Hlen; lia|]. specialize (Hb ltac:(congruence)). lia. }
      destruct (IR0 (l - HRevSeq.argmin lm) (cm - 1) ltac:(lia) ltac:(lia) ltac:(lia)) as [s1 ->]. cbn [bind].
      destruct (IA0 (HRevSeq.argmin lm - 1) cm ltac:(lia) ltac:(lia) ltac:(lia)) as [s2 ->]. cbn [bind]. destruct (is_discard _); eauto.
    + apply aux01_total; lia.
  - (* recurse, K = 0 *)
    cbn [recurse]. destruct (Z.eqb_spec l 0); [eauto|]. cbn [Z.eqb andb]. destruct (Z.eqb_spec cm 0); [lia|]. destruct (Z.eqb_spec l 1); [eauto|].
    destruct (IA0 l cm Hl' Hcm ltac:(lia)) as [s ->]. cbn [bind]. eauto.
  - (* aux, K = 1 *)
    cbn [aux]. destruct (Z.eqb_spec cm 0); [lia|]. destruct (Z.eqb_spec l 0); [eauto|]. destruct (Z.eqb_spec l 1); [eauto|]. cbn [Z.eqb andb].
    unfold hopt, hoptp, rvec. change (1 - 1) with 0. cbn [Z.eqb]. rewrite Hcv.
    destruct (map_res_total (fun j => do x <- get (opt1 T) (l - j) (cm - 1); do y <- get (optp1 T) (j - 1) cm; Ok (cadd (cadd (cadd (Fin (j * ufv p)) x) (Fin (r1v p))) y)) (zrange 1 l)) as [lm Elm].
    { intros j Hj. apply in_zrange in Hj. destruct (g_opt1 lmax (c0v p) (c1v p) T (l - j) (cm - 1) HI ltac:(lia) ltac:(lia)) as [x ->]. cbn [bind].
      destruct (g_optp1 lmax (c0v p) (c1v p) T (j - 1) cm HI ltac:(lia) ltac:(lia)) as [y ->]. cbn [bind]. eauto. }
    rewrite Elm. cbn [bind]. destruct (g_opt0 lmax (c0v p) (c1v p) T l (c0v p) HI ltac:(lia) ltac:(lia)) as [ref ->]. cbn [bind].
    destruct (clt (cmin_list lm Inf) ref).
    + assert (Hlen : length lm = Z.to_nat (l - 1)) by (rewrite (RevBridge5.map_res_length _ _ _ Elm), zrange_length; reflexivity).
      assert (Hj : 1 <= HRevSeq.argmin lm <= l - 1).
      { pose proof (argmin_bound lm) as Hb. destruct lm; [cbn in Hlen; lia|]. specialize (Hb ltac:(congruence)). lia. }
      destruct (IR1 (l - HRevSeq.argmin lm) (cm - 1) ltac:(lia) ltac:(lia) ltac:(lia)) as [s1 ->]. cbn [bind].
      destruct (IA1 (HRevSeq.argmin lm - 1) cm ltac:(lia) ltac:(lia) ltac:(lia)) as [s2 ->]. cbn [bind]. eauto.
    + apply IR0; lia.
  - (* recurse, K = 1 *)
    cbn [recurse]. destruct (Z.eqb_spec l 0); [eauto|]. cbn [Z.eqb andb]. destruct (Z.eqb_spec l 1); [eauto|].
    unfold hopt, hoptp. change (1 - 1) with 0. cbn [Z.eqb]. rewrite Hcv.
    destruct (g_opt0 lmax (c0v p) (c1v p) T l (c0v p) HI ltac:(lia) ltac:(lia)) as [b Eb].
    destruct (Z.eq_dec cm 0) as [->|Hcm0].
    + destruct HI as (_ & _ & _ & _ & C0). rewrite (C0 l ltac:(lia)). cbn [bind]. rewrite Eb. cbn [bind cadd clt]. destruct (wvec p 1); cbn [cadd clt]; apply IR0; lia.
    + destruct (g_optp1 lmax (c0v p) (c1v p) T l cm HI ltac:(lia) ltac:(lia)) as [a ->]. cbn [bind]. rewrite Eb. cbn [bind].
      destruct (clt _ b); [|apply IR0; lia].
      destruct (IA1 l cm Hl' ltac:(lia) ltac:(lia)) as [s ->]. cbn [bind]. eauto.
Qed.
End REC.

Theorem hrevolve_total l ram disk wd rd uf ub : 0 <= l -> 0 <= ram -> (1 <= l -> 1 <= ram) -> 0 <= disk -> exists L, hrevolve l ram disk wd rd uf ub = Ok L.
Proof.
  intros Hl Hram0 Hram Hdisk. unfold hrevolve.
  destruct (hopt_table_total l ram disk Hl Hram0 ltac:(lia) Hdisk 0 wd 0 rd ub uf) as (T & -> & HI). cbn [bind].
  set (p := {| c0v := ram; c1v := disk; w0v := 0; w1v := wd; r0v := 0; r1v := rd; ufv := uf; ubv := ub |}).
  destruct (Z.eq_dec l 0) as [->|Hl0].
  - (* a single step: the recursion returns at once *)
    change (Z.to_nat (4 * 0 + 8)) with 8%nat. cbn [recurse Z.eqb]. eauto.
  - apply (proj2 (proj2 (proj2 (rec_total p T l ltac:(cbn [c0v p]; lia) HI eq_refl (Z.to_nat (4 * l + 8)))))); cbn [c1v p]; lia.
Qed.
Print Assumptions hrevolve_total.
