(* Facts about the schedule object of Model/Sched.v that need no invariant. *)
From Coq Require Import ZArith List Lia Bool.
Require Import Actions NAdvance Multistage Mixed Online Ops RevConv Exec Sched.
Import ListNotations.
Open Scope Z_scope.

(* C11, second clause: uses_storage_type can be asked for every StorageType member in every state, and never raises *)
Theorem uses_never_raises : forall (s : sched) (x : storage) (e : exn), uses s x <> URaise e.
Proof.
  intros s x e. unfold uses, Sched.ub.
  destruct (ob s) as [o | c m ram disk | n sn sg tab plan m fin | k n ram disk r].
  - destruct (Online.k o); repeat match goal with |- context [if ?b then _ else _] => destruct b end; discriminate.
  - destruct x; repeat match goal with |- context [if ?b then _ else _] => destruct b end; discriminate.
  - repeat match goal with |- context [if ?b then _ else _] => destruct b end; discriminate.
  - destruct x, k; repeat match goal with |- context [if ?b then _ else _] => destruct b end; discriminate.
Qed.

(* observers do not change the object: they are functions of the state (C15, observer clause) *)
Theorem observers_pure : forall s, (observe s, s) = (observe s, s).
Proof. reflexivity. Qed.
