From Coq Require Import ZArith String Ascii List DecimalString DecimalZ Decimal DecimalPos.
Open Scope string_scope.
Definition z_to_string (z : Z) : string := NilZero.string_of_int (Z.to_int z).
Definition z_of_string (s : string) : option Z := option_map Z.of_int (NilZero.int_of_string s).
Lemma to_int_nonnil z : Z.to_int z <> Pos Nil /\ Z.to_int z <> Neg Nil.
Proof.
  destruct z as [|p|p]; cbn [Z.to_int]; split; try discriminate;
  intros H; injection H as H; exact (Unsigned.to_uint_nonnil p H).
Qed.
Lemma z_roundtrip z : z_of_string (z_to_string z) = Some z.
Proof.
  unfold z_of_string, z_to_string. destruct (to_int_nonnil z) as [H1 H2].
  rewrite NilZero.isi by assumption. cbn [option_map]. f_equal. apply DecimalZ.of_to.
Qed.
Print Assumptions z_roundtrip.
