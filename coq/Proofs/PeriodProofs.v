(* C19: the forward sweep of periodic_disk_revolve writes disk checkpoints exactly at 0, m, 2m, ... while more than m steps remain. *)
From Coq Require Import ZArith List Lia Bool.
Require Import Actions BinomDef Ops RevSeq.
Import ListNotations.
Open Scope Z_scope.

(* the ops of the sweep, as a closed form *)
Fixpoint sweep (cnt : nat) (ct mx : Z) : list op :=
  match cnt with O => [] | S c => [OWD ct; OF ct (ct + mx)] ++ sweep c (ct + mx) mx end.

Lemma per_fwd_spec : forall cnt l mx ct, 0 < mx ->
  l - ct <= Z.of_nat cnt * mx ->
  let k := Z.to_nat (Z.max 0 ((l - ct - 1) / mx)) in
  per_fwd cnt l mx ct = (sweep k ct mx, ct + Z.of_nat k * mx).
Proof.
  induction cnt as [|cnt IH]; intros l mx ct Hmx Hb k.
  - cbn [per_fwd]. assert (l - ct <= 0) by lia.
    assert ((l - ct - 1) / mx < 0) by (apply Z.div_lt_upper_bound; lia).
    subst k. replace (Z.max 0 ((l - ct - 1) / mx)) with 0 by lia. cbn. f_equal. lia.
  - cbn [per_fwd]. destruct (Z.gtb_spec (l - ct) mx) as [Hgt|Hle].
    + specialize (IH l mx (ct + mx) Hmx ltac:(lia)). cbn zeta in IH. rewrite IH.
      assert (Hq : (l - ct - 1) / mx = (l - (ct + mx) - 1) / mx + 1).
      { replace (l - ct - 1) with ((l - (ct + mx) - 1) + 1 * mx) by lia. rewrite Z.div_add by lia. reflexivity. }
      assert (Hnn : 0 <= (l - (ct + mx) - 1) / mx) by (apply Z.div_pos; lia).
      subst k. rewrite Hq.
      replace (Z.max 0 ((l - (ct + mx) - 1) / mx + 1)) with (Z.succ (Z.max 0 ((l - (ct + mx) - 1) / mx))) by lia.
      rewrite Z2Nat.inj_succ by lia. cbn [sweep]. f_equal. rewrite Nat2Z.inj_succ. lia.
    + assert ((l - ct - 1) / mx <= 0).
      { destruct (Z.le_gt_cases (l - ct - 1) (-1)).
        - assert ((l - ct - 1) / mx < 0) by (apply Z.div_lt_upper_bound; lia). lia.
        - rewrite Z.div_small by lia. lia. }
      subst k. replace (Z.max 0 ((l - ct - 1) / mx)) with 0 by lia. cbn. f_equal. lia.
Qed.

(* positions of the disk writes of the sweep: j * mx for j < k *)
Fixpoint wd_positions (ops : list op) : list Z :=
  match ops with [] => [] | OWD i :: r => i :: wd_positions r | _ :: r => wd_positions r end.
Lemma sweep_positions : forall k ct mx, wd_positions (sweep k ct mx) = map (fun j => ct + Z.of_nat j * mx) (seq 0 k).
Proof.
  induction k as [|k IH]; intros ct mx; [reflexivity|].
  cbn [sweep app wd_positions]. rewrite IH. cbn [seq map]. f_equal; [lia|].
  rewrite <- seq_shift, map_map. apply map_ext. intros j. rewrite Nat2Z.inj_succ. lia.
Qed.

(* C19_writes: with period m = mx > 0 and l = N - 1, the sweep writes to disk exactly at 0, m, 2m, ..., (k-1) m where
   k = max 0 ((l - 1) / m), i.e. at every multiple j*m with l - j*m > m *)
Theorem periodic_sweep_writes : forall l mx, 0 < mx -> 0 <= l ->
  let k := Z.to_nat (Z.max 0 ((l - 1) / mx)) in
  wd_positions (fst (per_fwd (Z.to_nat l) l mx 0)) = map (fun j => Z.of_nat j * mx) (seq 0 k) /\
  (forall j, (j < k)%nat <-> l - Z.of_nat j * mx > mx).
Proof.
  intros l mx Hmx Hl k.
  pose proof (per_fwd_spec (Z.to_nat l) l mx 0 Hmx) as H. cbn zeta in H.
  rewrite Z.sub_0_r in H. rewrite H.
  2:{ rewrite Z2Nat.id by lia. nia. }
  cbn [fst]. split; [rewrite sweep_positions; apply map_ext; intros; lia|].
  intros j. subst k.
  assert (Hq : 0 <= (l - 1) / mx \/ (l - 1) / mx < 0) by lia.
  split; intros Hj.
  - assert (Z.of_nat j < Z.max 0 ((l - 1) / mx)) by lia.
    assert (Z.of_nat j + 1 <= (l - 1) / mx) by lia.
    assert ((Z.of_nat j + 1) * mx <= l - 1).
    { etransitivity; [apply Z.mul_le_mono_nonneg_r; [lia|eassumption]|]. rewrite Z.mul_comm. apply Z.mul_div_le. lia. }
    lia.
  - assert ((Z.of_nat j + 1) * mx <= l - 1) by lia.
    assert (Z.of_nat j + 1 <= (l - 1) / mx) by (apply Z.div_le_lower_bound; lia).
    lia.
Qed.

(* C19_period: the period is beta cm t* for the least t with beta (cm+1) t * uf > wd + rd (closed form; independent of N) *)
Lemma mxrr_t_spec : forall fuel cm t uf wrd, 0 < uf ->
  (forall t', (t' < t)%nat -> beta (S cm) t' * uf <= wrd) ->
  (wrd / uf + 2 <= Z.of_nat fuel + Z.of_nat t) ->
  let t1 := mxrr_t fuel cm t uf wrd in
  (t <= t1)%nat /\ (forall t', (t' < t1)%nat -> beta (S cm) t' * uf <= wrd) /\ beta (S cm) t1 * uf > wrd.
Proof.
  induction fuel as [|f IH]; intros cm t uf wrd Huf Hlt Hf t1.
  - cbn [mxrr_t] in t1. subst t1. split; [lia|]. split; [exact Hlt|].
    (* beta (S cm) t >= t + 1 > wrd / uf + 1, so beta * uf > wrd *)
    assert (Hb : Z.of_nat t + 1 <= beta (S cm) t).
    { clear. induction t as [|t IHt]; [destruct cm; cbn; lia|].
      change (beta (S cm) (S t)) with (beta cm (S t) + beta (S cm) t).
      assert (0 < beta cm (S t)).
      { clear. revert t. induction cm as [|cm IHc]; intro t; [cbn; lia|].
        induction t as [|t IHt]; [change (beta (S cm) 1) with (beta cm 1 + beta (S cm) 0); specialize (IHc 0%nat); destruct cm; cbn in *; lia|].
        change (beta (S cm) (S (S t))) with (beta cm (S (S t)) + beta (S cm) (S t)). specialize (IHc (S t)). lia. }
      rewrite Nat2Z.inj_succ. lia. }
    assert (wrd / uf + 1 < beta (S cm) t) by lia.
    assert (wrd < (wrd / uf + 1) * uf).
    { pose proof (Z.mod_pos_bound wrd uf Huf). pose proof (Z.div_mod wrd uf ltac:(lia)). nia. }
    nia.
  - cbn [mxrr_t] in t1. destruct (Z.leb_spec (beta (S cm) t * uf) wrd) as [Hle|Hgt].
    + specialize (IH cm (S t) uf wrd Huf). cbn zeta in IH.
      destruct IH as (H1 & H2 & H3).
      { intros t' Ht'. destruct (Nat.eq_dec t' t) as [->|]; [exact Hle|apply Hlt; lia]. }
      { rewrite !Nat2Z.inj_succ in *. lia. }
      subst t1. split; [lia|]. split; assumption.
    + subst t1. split; [lia|]. split; [exact Hlt|lia].
Qed.
Theorem periodic_period_closed_form : forall cm uf rd wd, 0 < uf -> 0 <= wd + rd -> 0 <= cm ->
  exists t, mxrr cm uf rd wd = beta (Z.to_nat cm) t /\
            beta (S (Z.to_nat cm)) t * uf > wd + rd /\
            (forall t', (t' < t)%nat -> beta (S (Z.to_nat cm)) t' * uf <= wd + rd).
Proof.
  intros cm uf rd wd Huf Hw Hcm. unfold mxrr.
  pose proof (mxrr_t_spec (Z.to_nat ((wd + rd) / uf + 2)) (Z.to_nat cm) 0 uf (wd + rd) Huf) as H. cbn zeta in H.
  destruct H as (_ & H2 & H3).
  - intros t' Ht'. lia.
  - assert (0 <= (wd + rd) / uf) by (apply Z.div_pos; lia). rewrite Z2Nat.id by lia. lia.
  - eexists. split; [reflexivity|]. split; assumption.
Qed.
