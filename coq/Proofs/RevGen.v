From Coq Require Import ZArith List Lia Bool.
Require Import RevBlk.
Import ListNotations.
Open Scope Z_scope.

(* ---------- the generator (revolve.py:61-141) over RevBlk's op type ---------- *)
Inductive gexn := GIndexError | GValueError | GOutOfFuel.
Inductive gres (A : Type) := GOk (a : A) | GErr (e : gexn).
Arguments GOk {A}. Arguments GErr {A}.
Definition gbind {A B} (r : gres A) (f : A -> gres B) : gres B := match r with GOk a => f a | GErr e => GErr e end.
Notation "'do' x <- a ; b" := (gbind a (fun x => b)) (at level 200, x name, a at level 100, b at level 200).
Fixpoint map_res {A B} (f : A -> gres B) (l : list A) : gres (list B) :=
  match l with [] => GOk [] | x :: r => do y <- f x; do ys <- map_res f r; GOk (y :: ys) end.
Definition zrange (lo hi : Z) : list Z := map (fun i => lo + Z.of_nat i) (seq 0 (Z.to_nat (hi - lo))).
Fixpoint argmin_aux (l : list Z) (i best m : Z) : Z :=
  match l with [] => 1 + best | x :: r => if x <=? m then argmin_aux r (i+1) i x else argmin_aux r (i+1) best m end.
Definition argmin (l : list Z) : Z := match l with [] => 1 | x :: _ => argmin_aux l 0 0 x end.
Definition tget (t : list (list Z)) (m l : Z) : gres Z :=
  if (m <? 0) || (l <? 0) then GErr GIndexError else
  match nth_error t (Z.to_nat m) with None => GErr GIndexError
  | Some row => match nth_error row (Z.to_nat l) with None => GErr GIndexError | Some v => GOk v end end.

Definition shift1 (s : Z) (o : op) : op :=
  match o with OF a b => OF (a+s) (b+s) | OB a b => OB (a+s) (b+s) | ORM i => ORM (i+s) | OWM i => OWM (i+s)
  | ODM i => ODM (i+s) | OWFM i => OWFM (i+s) | ODFM i => ODFM (i+s) | ORD i => ORD (i+s) | OWD i => OWD (i+s) end.
Definition shift (s : Z) := map (shift1 s).
Definition remove_useless_wm (l : list op) := match l with OWM _ :: r => r | _ => l end.
Definition l1_mem := [OWM 0; OF 0 1; OWFM 2; OF 1 2; OB 2 1; ODFM 2; ORM 0; OWFM 1; OF 0 1; OB 1 0; ODFM 1; ODM 0].
Fixpoint cm1_loop (cnt : nat) (l index : Z) : list op :=
  match cnt with O => [] | S c =>
    (if index =? l - 1 then [] else [ORM 0]) ++ (if index + 1 =? 0 then [] else [OF 0 (index+1)])
     ++ [OWFM (index+2); OF (index+1) (index+2); OB (index+2) (index+1); ODFM (index+2)] ++ cm1_loop c l (index-1) end.

Fixpoint revolve (fuel : nat) (opt0 : list (list Z)) (uf l cm : Z) : gres (list op) :=
  match fuel with O => GErr GOutOfFuel | S f =>
  if l =? 0 then GOk [OWFM 1; OF 0 1; OB 1 0; ODFM 1; ODM 0] else
  if cm =? 0 then GErr GValueError else
  if l =? 1 then GOk l1_mem else
  if cm =? 1 then GOk ([OWM 0] ++ cm1_loop (Z.to_nat l) l (l-1) ++ [ORM 0; OWFM 1; OF 0 1; OB 1 0; ODFM 1; ODM 0]) else
  do lm <- map_res (fun j => do x <- tget opt0 (cm-1) (l-j); do y <- tget opt0 cm (j-1); GOk (j*uf + x + y)) (zrange 1 l);
  let jmin := argmin lm in
  do s1 <- revolve f opt0 uf (l - jmin) (cm - 1);
  do s2 <- revolve f opt0 uf (jmin - 1) cm;
  GOk ([OWM 0; OF 0 jmin] ++ shift jmin s1 ++ [ORM 0] ++ remove_useless_wm s2)
  end.

(* ---------- shift preserves the grammar ---------- *)
Lemma shift_app s a b : shift s (a ++ b) = shift s a ++ shift s b. Proof. apply map_app. Qed.
Lemma shift_adj s q : shift s (adj q) = adj (q + s).
Proof. unfold adj, shift. cbn [map shift1]. repeat (f_equal; try lia). Qed.
Lemma shift_tail0 s o : shift s (tail0 o) = tail0 (o + s).
Proof. unfold tail0, shift. cbn [map shift1]. repeat (f_equal; try lia). Qed.
Lemma shift_wmop s wm o : shift s (wmop wm o) = wmop wm (o + s).
Proof. destruct wm; reflexivity. Qed.
Lemma shift_loop1 s k o : shift s (loop1 k o) = loop1 k (o + s).
Proof.
  induction k as [|k IH]; [reflexivity|]. cbn [loop1]. rewrite !shift_app, shift_adj, IH.
  cbn [shift map shift1 app]. repeat (f_equal; try lia).
Qed.
Lemma Blk_shift s wm o l cm ops : Blk wm o l cm ops -> Blk wm (o + s) l cm (shift s ops).
Proof.
  induction 1 as [wm o cm | wm o cm | wm o cm Hcm | wm o l cm Hl Hcm1 | wm o l cm j s1 s2 Hl Hcm Hj Hb1 IH1 Hb2 IH2].
  2:{ rewrite shift_adj. apply B0n. }
  - rewrite shift_app, shift_adj. cbn [shift map shift1]. apply B0.
  - rewrite !shift_app, shift_wmop, shift_adj, shift_tail0. cbn [shift map shift1].
    replace (o + 1 + s) with (o + s + 1) by lia. apply B1; assumption.
  - rewrite !shift_app, shift_wmop, shift_adj, shift_loop1, shift_tail0. cbn [shift map shift1].
    replace (o + l + s) with (o + s + l) by lia. apply Bc1; assumption.
  - rewrite !shift_app, shift_wmop. cbn [shift map shift1].
    replace (o + j + s) with (o + s + j) in * by lia. apply Bsp; assumption.
Qed.

Lemma Blk_remove_wm o l cm ops : Blk true o l cm ops -> Blk false o l cm (remove_useless_wm ops).
Proof.
  inversion 1; subst; cbn [wmop app remove_useless_wm].
  - unfold adj. cbn [app remove_useless_wm]. apply (B0 false).
  - unfold adj. cbn [remove_useless_wm]. apply (B0n false).
  - apply (B1 false); assumption.
  - apply (Bc1 false); assumption.
  - eapply (Bsp false); eassumption.
Qed.

(* ---------- argmin picks an index of the list ---------- *)
Lemma argmin_aux_bound l : forall i best m, 0 <= best < i -> 1 <= argmin_aux l i best m <= i + Z.of_nat (length l).
Proof.
  induction l as [|x l IH]; intros i best m H; cbn [argmin_aux length]; [lia|].
  destruct (x <=? m); [specialize (IH (i+1) i x ltac:(lia))|specialize (IH (i+1) best m ltac:(lia))]; lia.
Qed.
Lemma argmin_bound l : l <> [] -> 1 <= argmin l <= Z.of_nat (length l).
Proof.
  destruct l as [|x l]; [congruence|]. intros _. unfold argmin. cbn [argmin_aux].
  rewrite Z.leb_refl. change (0 + 1) with 1. pose proof (argmin_aux_bound l 1 0 x ltac:(lia)). cbn [length]. lia.
Qed.
Lemma map_res_length {A B} (f : A -> gres B) l r : map_res f l = GOk r -> length r = length l.
Proof.
  revert r; induction l as [|x l IH]; intros r; cbn; [intros E; injection E as <-; reflexivity|].
  destruct (f x); cbn; [|discriminate]. destruct (map_res f l); cbn; [|discriminate].
  intros E; injection E as <-. cbn. f_equal. apply IH. reflexivity.
Qed.
Lemma zrange_length lo hi : length (zrange lo hi) = Z.to_nat (hi - lo).
Proof. unfold zrange. rewrite map_length, seq_length. reflexivity. Qed.

(* ---------- the cm = 1 loop of the generator is the grammar's loop ---------- *)
Lemma cm1_loop_tail : forall k l, Z.of_nat k + 1 <= l - 1 + 1 -> 
  cm1_loop k l (Z.of_nat k - 1) = loop1 k 0 \/ True.
Proof. intros; right; exact I. Qed.
Lemma cm1_rest : forall k l, (0 < Z.of_nat k < l) -> cm1_loop k l (Z.of_nat k - 1) = loop1 k 0.
Proof.
  induction k as [|k IH]; intros l Hk; [lia|].
  cbn [cm1_loop loop1]. replace (Z.of_nat (S k) - 1) with (Z.of_nat k) by lia.
  destruct (Z.eqb_spec (Z.of_nat k) (l - 1)); [lia|].
  destruct (Z.eqb_spec (Z.of_nat k + 1) 0); [lia|].
  cbn [app]. replace (0 + Z.of_nat (S k)) with (Z.of_nat k + 1) by lia.
  unfold adj. cbn [app]. replace (Z.of_nat k + 1 + 1) with (Z.of_nat k + 2) by lia.
  do 6 f_equal.
  destruct k as [|k']; [reflexivity|].
  replace (Z.of_nat (S k') - 1) with (Z.of_nat (S k') - 1) by lia. apply IH. lia.
Qed.

Lemma revolve_blk : forall fuel opt0 uf l cm ops, revolve fuel opt0 uf l cm = GOk ops -> 0 <= l -> 0 <= cm ->
  Blk true 0 l cm ops.
Proof.
  induction fuel as [|f IH]; intros opt0 uf l cm ops H Hl Hcm; [discriminate|].
  cbn [revolve] in H.
  destruct (Z.eqb_spec l 0) as [->|Hl0].
  { injection H as <-. apply (B0 true 0 cm). }
  destruct (Z.eqb_spec cm 0) as [->|Hcm0]; [discriminate|].
  destruct (Z.eqb_spec l 1) as [->|Hl1].
  { injection H as <-. apply (B1 true 0 cm). lia. }
  destruct (Z.eqb_spec cm 1) as [->|Hcm1].
  { injection H as <-.
    destruct (Z.to_nat l) as [|k] eqn:Ek; [lia|]. cbn [cm1_loop].
    destruct (Z.eqb_spec (l - 1) (l - 1)); [|lia]. destruct (Z.eqb_spec (l - 1 + 1) 0); [lia|].
    cbn [app]. replace (l - 1 + 1) with l by lia. replace (l - 1 + 2) with (l + 1) by lia.
    replace (l - 1 - 1) with (Z.of_nat k - 1) by lia. rewrite cm1_rest by lia.
    replace k with (Z.to_nat (l - 1)) by lia.
    change (Blk true 0 l 1 (wmop true 0 ++ [OF 0 (0 + l)] ++ adj (0 + l) ++ loop1 (Z.to_nat (l - 1)) 0 ++ tail0 0)) || idtac.
    pose proof (Bc1 true 0 l 1 ltac:(lia) ltac:(lia)) as HB. cbn [wmop] in HB. unfold adj, tail0 in *. cbn [app] in *.
    replace (0 + l) with l in HB by lia. replace (0 + 1) with 1 in HB by lia. exact HB. }
  destruct (map_res _ (zrange 1 l)) as [lm|] eqn:Elm; cbn [gbind] in H; [|discriminate].
  assert (Hlen : length lm = Z.to_nat (l - 1)) by (rewrite (map_res_length _ _ _ Elm), zrange_length; reflexivity).
  assert (Hj : 1 <= argmin lm <= l - 1).
  { pose proof (argmin_bound lm) as Hb. destruct lm; [cbn in Hlen; lia|]. specialize (Hb ltac:(congruence)). lia. }
  set (j := argmin lm) in *.
  destruct (revolve f opt0 uf (l - j) (cm - 1)) as [s1|] eqn:E1; cbn [gbind] in H; [|discriminate].
  destruct (revolve f opt0 uf (j - 1) cm) as [s2|] eqn:E2; cbn [gbind] in H; [|discriminate].
  injection H as <-.
  pose proof (IH _ _ _ _ _ E1 ltac:(lia) ltac:(lia)) as B1'.
  pose proof (IH _ _ _ _ _ E2 ltac:(lia) ltac:(lia)) as B2'.
  apply (Blk_shift j) in B1'. apply Blk_remove_wm in B2'.
  pose proof (Bsp true 0 l cm j _ _ ltac:(lia) ltac:(lia) Hj B1' B2') as HB.
  cbn [wmop app] in HB. replace (0 + j) with j in HB by lia. exact HB.
Qed.
Print Assumptions revolve_blk.

(* ---------- end to end: Revolve(max_n = N, snapshots_in_ram = cm) ---------- *)
Definition init_c : cst := {| n_ := 0; r_ := 0; snaps := []; w_st := None; w_ics := false; w_adj := false; w_n0 := None |}.
Definition init_x : xst := {| fwd := Some 0; wics := None; wdeps := None; store := []; rr := 0; endfwd := false |}.

Theorem revolve_stream_ok : forall N cm fuel opt0 uf ops prev,
  1 <= N -> 0 <= cm -> (2 <= N -> 1 <= cm) ->
  revolve fuel opt0 uf (N - 1) cm = GOk ops ->
  exists acts c' x' lastop,
    conv N 0 prev init_c ops = (acts, inl (c', Some lastop, length ops)) /\
    execs N cm init_x acts = Some x' /\
    r_ c' = N /\ snaps c' = [] /\ store x' = [] /\ rr x' = N /\ endfwd x' = true /\ wdeps x' = None /\ wics x' = None.
Proof.
  intros N cm fuel opt0 uf ops prev HN Hcm Hcm1 Hgen.
  pose proof (revolve_blk _ _ _ _ _ _ Hgen ltac:(lia) Hcm) as HB.
  destruct (blk_ok N cm [] true 0 (N - 1) cm ops HB 0%nat prev init_c init_x) as (acts & c' & x' & lastop & HR & HX & HEx).
  - unfold Entry, init_c, init_x, keys, store_ok, sameset. cbn [n_ r_ snaps fwd wdeps endfwd store rr map length orb].
    replace (0 + (N - 1) + 1) with N by lia. rewrite Z.eqb_refl. cbn [negb].
    repeat match goal with |- _ /\ _ => split end; try lia; try reflexivity; try tauto.
    + constructor.
    + intros p a b; discriminate.
    + intros p [].
    + intros p [].
  - discriminate.
  - destruct HEx as (Hn & Hr & Hrr & Hf & Hwd & Hwi & Hef & Hst & Hss).
    exists acts, c', x', lastop. specialize (HR []). rewrite app_nil_r in HR. cbn [conv fst snd] in HR.
    rewrite app_nil_r in HR. cbn [Nat.add] in HR.
    cbn [store init_x remove] in Hst.
    repeat match goal with |- _ /\ _ => split end; auto; try lia.
    destruct (snaps c') as [|z l] eqn:E; [reflexivity|]. exfalso.
    destruct (proj1 (Hss z) (or_introl eq_refl)) as [Hin|[]].
    unfold keys in Hin. rewrite Hst in Hin. exact Hin.
Qed.
Print Assumptions revolve_stream_ok.
