(* C11 for HRevolve (snapshots_in_ram >= 1, snapshots_on_disk >= 0), every history: an action that touches RAM or DISK finds
   uses_storage_type of it True.  With a disk slot both are reported used at every observation; without one the op list is a
   memory-only block (the infinite column of optp[1]: HRevTotal), and the converter then never names DISK. *)
From Coq Require Import ZArith List Lia Bool.
Require Import Actions Ops HRevSeq RevConv Exec Sched RunFacts UsesProofs ExecBudget RevBridge1 HRevBridge1 HRevGen HRevTotal.
Require RevBlk.
Import ListNotations.
Open Scope Z_scope.

(* ---- a property of every yielded action, along any history ---- *)
Section ACT.
Variable I : sched -> Prop.
Variable Q : action -> Prop.
Hypothesis Hn : forall s, I s -> I (fst (Sched.next s)) /\ match snd (Sched.next s) with Yield a => Q a | _ => True end.
Hypothesis Hf : forall kk s, I s -> I (fst (Sched.finalize kk s)).
Definition act_line (l : line) : Prop := match l with LNext (Yield a) _ => Q a | _ => True end.
Lemma loop_act p : forall lim k s m, I s -> let '(s', _, ls) := run_loop p lim k s m in I s' /\ Forall act_line ls.
Proof.
  induction lim as [|lim IH]; intros k s m HI; cbn [run_loop]; [split; [exact HI|constructor]|].
  destruct (Hn s HI) as [HI' Hw]. destruct (Sched.next s) as [s1 o]. cbn [fst snd] in *. destruct o as [a| |e].
  - destruct (_ <=? 0); [split; [exact HI'|constructor; [exact Hw|constructor]]|].
    specialize (IH (match a with EndReverse => k - 1 | _ => k end) s1 (mon_step p s1 a m) HI').
    destruct (run_loop p lim _ s1 _) as [[s2 m2] l2]. destruct IH as [A B]. split; [exact A|constructor; [exact Hw|exact B]].
  - split; [exact HI'|constructor; [exact Logic.I|constructor]].
  - split; [exact HI'|constructor; [exact Logic.I|constructor]].
Qed.
Lemma ops_act p : forall ops s m, I s -> let '(s', _, ls) := run_ops p s m ops in I s' /\ Forall act_line ls.
Proof.
  induction ops as [|o ops IH]; intros s m HI; cbn [run_ops]; [split; [exact HI|constructor]|]. destruct o as [|kk|kk lim].
  - destruct (Hn s HI) as [HI' Hw]. destruct (Sched.next s) as [s1 o]. cbn [fst snd] in *.
    specialize (IH s1 (match o with Yield a => mon_step p s1 a m | _ => m end) HI').
    destruct (run_ops p s1 _ ops) as [[s2 m2] l2]. destruct IH as [A B]. split; [exact A|constructor; [destruct o; [exact Hw|exact Logic.I..]|exact B]].
  - pose proof (Hf kk s HI) as HI'. destruct (Sched.finalize kk s) as [s1 e]. cbn [fst] in HI'. specialize (IH s1 m HI').
    destruct (run_ops p s1 m ops) as [[s2 m2] l2]. destruct IH as [A B]. split; [exact A|constructor; [exact Logic.I|exact B]].
  - pose proof (loop_act p lim kk s m HI) as HL. destruct (run_loop p lim kk s m) as [[s1 m1] l1]. destruct HL as [HI1 HL].
    specialize (IH s1 m1 HI1). destruct (run_ops p s1 m1 ops) as [[s2 m2] l2]. destruct IH as [A B]. split; [exact A|apply Forall_app; auto].
Qed.
End ACT.

(* ---- the converter names DISK only for disk operations ---- *)
Definition nodisk (o : Ops.op) : Prop := match o with OR k _ | OW k _ | OD k _ => k = 0 | ORD _ | OWD _ | ODD _ => False | _ => True end.
Definition nd (a : action) : Prop := ~ touches a DISK.
Lemma nth_nodisk L i o : Forall nodisk L -> nth_error L i = Some o -> nodisk o.
Proof. intros H E. rewrite Forall_forall in H. apply H. eapply nth_error_In; eauto. Qed.
Lemma last_nodisk L o : Forall nodisk L -> last_op L = Some o -> nodisk o.
Proof. intros H E. unfold last_op in E. destruct (rev L) as [|x r] eqn:Er; [discriminate|]. injection E as <-. rewrite Forall_forall in H. apply H. apply in_rev. rewrite Er. left; reflexivity. Qed.
Lemma conv_n0_nodisk o n s : nodisk o -> conv_n0_st o = Ok (n, Some s) -> s <> DISK.
Proof.
  destruct o; cbn [nodisk conv_n0_st]; intros H E; try (repeat match type of E with context [if ?b then _ else _] => destruct b end; discriminate);
    try (subst; cbn in E; injection E as _ <-; discriminate); try contradiction; try (injection E as _ <-; discriminate).
Qed.
Lemma conv1_nodisk N L i c c' acts : Forall nodisk L -> conv1 N L i c = Ok (c', acts) -> Forall nd acts.
Proof.
  intros HL H. unfold conv1 in H. destruct (nth_error L i) as [o|] eqn:Eo; [|discriminate].
  pose proof (nth_nodisk L i o HL Eo) as Hno.
  destruct (conv_n0_st o) as [[n0 sg]|] eqn:En; cbn [bind] in H; [|discriminate].
  assert (Hact : forall n1 wi wa s, s <> DISK -> nd (Forward n0 n1 wi wa s)) by (intros n1 wi wa s Hs [_ [E _]]; congruence).
  assert (Hld : forall (mv : bool) s, s <> DISK -> nd ((if mv then Move else Copy) n0 s WORK)) by (intros [|] s Hs [_ [E|E]]; congruence).
  destruct o as [a b|a b|k j|k j|k j|k j|k j|j|j|j|j|j|j|j|j].
  - (* OF *)
    destruct (negb _); [discriminate|].
    destruct (match i with O => last_op L | S j => nth_error L j end) as [prev|] eqn:Ep; [|discriminate].
    assert (Hnp : nodisk prev) by (destruct i; [eapply last_nodisk; eauto|eapply nth_nodisk; eauto]).
    destruct (conv_n0_st prev) as [[w ws]|] eqn:Epn; cbn [bind] in H; [|discriminate].
    assert (Hws : forall s, ws = Some s -> s <> DISK) by (intros s ->; eapply conv_n0_nodisk; eauto).
    assert (Hout : forall c2 : cst, (match w_storage c2 with Some s => s | None => NONE end) <> DISK ->
       (if b =? N then if negb (r_ c2 =? 0) then Err InvalidReverseStep else Ok (c2, [Forward n0 b (write_ics c2) (adj_deps c2) match w_storage c2 with Some s => s | None => NONE end; EndForward])
        else Ok (c2, [Forward n0 b (write_ics c2) (adj_deps c2) match w_storage c2 with Some s => s | None => NONE end])) = Ok (c', acts) -> Forall nd acts).
    { intros c2 Hs E. destruct (b =? N); [destruct (negb (r_ c2 =? 0)); [discriminate|]|]; injection E as <- <-; repeat constructor; try (apply Hact; exact Hs); intros [_ []]. }
    match type of H with (do c2 <- ?M; _) = _ => destruct M as [c2|] eqn:Ec2; cbn [bind] in H; [|discriminate] end.
    assert (Hs2 : w_storage c2 = ws \/ w_storage c2 = Some WORK).
    { destruct prev; try (destruct (negb _); [discriminate|]); injection Ec2 as <-; cbn [w_storage upd]; auto. }
    apply (Hout c2); [|exact H]. destruct Hs2 as [-> | ->]; [destruct ws as [s|]; [apply Hws; reflexivity|discriminate]|discriminate].
  - destruct (negb _); [discriminate|]. destruct (negb _); [discriminate|]. injection H as <- <-. repeat constructor. intros [_ []].
  - (* OR *)
    cbn [nodisk] in Hno. subst k. cbn [conv_n0_st lvl Z.eqb bind] in En. injection En as <- <-.
    destruct (_ =? _); [destruct (negb _); [discriminate|]|]; injection H as <- <-; repeat constructor; [apply (Hld true)|apply (Hld false)]; discriminate.
  - destruct (negb _); [discriminate|]. injection H as <- <-. constructor.
  - destruct (Nat.ltb i 2); [discriminate|]. injection H as <- <-. constructor.
  - (* OWF *)
    destruct (negb _); [discriminate|]. destruct (nth_error L (i + 3)) as [d|]; [|discriminate].
    destruct (conv_n0_st d) as [[d0 dst]|]; cbn [bind] in H; [|discriminate].
    destruct (_ && _ && _); [injection H as <- <-; constructor|]. destruct (w_n0 c); [|discriminate]. destruct (negb _); [discriminate|]. injection H as <- <-. constructor.
  - destruct (negb _); [discriminate|]. injection H as <- <-. constructor.
  - cbn [conv_n0_st] in En. injection En as <- <-.
    destruct (_ =? _); [destruct (negb _); [discriminate|]|]; injection H as <- <-; repeat constructor; [apply (Hld true)|apply (Hld false)]; discriminate.
  - destruct (negb _); [discriminate|]. injection H as <- <-. constructor.
  - destruct (Nat.ltb i 2); [discriminate|]. injection H as <- <-. constructor.
  - contradiction.
  - contradiction.
  - contradiction.
  - destruct (negb _); [discriminate|]. destruct (nth_error L (i + 3)) as [d|]; [|discriminate].
    destruct (conv_n0_st d) as [[d0 dst]|]; cbn [bind] in H; [|discriminate].
    destruct (_ && _ && _); [injection H as <- <-; constructor|]. destruct (w_n0 c); [|discriminate]. destruct (negb _); [discriminate|]. injection H as <- <-. constructor.
  - destruct (negb _); [discriminate|]. injection H as <- <-. constructor.
Qed.

(* ---- the step machine over a disk-free op list never yields an action touching DISK ---- *)
Definition RI (r : rst) : Prop := Forall nodisk (ops r) /\ Forall nd (pend r).
Lemma nd_endrev : nd EndReverse. Proof. intros [_ []]. Qed.
Lemma advance_nodisk N : forall fuel r, RI r -> RI (fst (advance fuel N r)) /\ match snd (advance fuel N r) with Yield a => nd a | _ => True end.
Proof.
  induction fuel as [|f IH]; intros r [Ho Hp]; cbn [advance]; [cbn; split; [split; [exact Ho|constructor]|exact I]|].
  destruct (Nat.ltb (idx r) (length (ops r))).
  - destruct (conv1 N (ops r) (idx r) (cs r)) as [[c' acts]|e] eqn:Ec; [|cbn; split; [split; [exact Ho|constructor]|exact I]].
    pose proof (conv1_nodisk N _ _ _ _ _ Ho Ec) as Ha.
    destruct acts as [|a rest]; [apply IH; split; [exact Ho|constructor]|].
    cbn [fst snd]. inversion Ha; subst. split; [split; assumption|assumption].
  - destruct (negb _); cbn [fst snd fin ops pend]; (split; [split; [exact Ho|constructor]|]); [exact I|apply nd_endrev].
Qed.
Lemma next_nodisk N r : RI r -> RI (fst (RevConv.next N r)) /\ match snd (RevConv.next N r) with Yield a => nd a | _ => True end.
Proof.
  intros [Ho Hp]. unfold RevConv.next. destruct (finished r); [cbn; split; [split; assumption|exact I]|].
  destruct (pend r) as [|a rest] eqn:Ep; [apply advance_nodisk; split; [exact Ho|rewrite Ep; constructor]|].
  cbn [fst snd ops pend]. inversion Hp; subst. split; [split; assumption|assumption].
Qed.

(* ---- without a disk slot hrevolve produces a memory-only block ---- *)
Lemma injH_nodisk s0 : Forall (fun o => match o with RevBlk.ORD _ | RevBlk.OWD _ => False | _ => True end) s0 -> Forall nodisk (map injH s0).
Proof. intros H. apply Forall_map. eapply Forall_impl; [|exact H]. intros []; cbn; intros; try tauto; auto. Qed.
Lemma Blk_nodisk wm o l cm s : RevBlk.Blk wm o l cm s -> Forall (fun o => match o with RevBlk.ORD _ | RevBlk.OWD _ => False | _ => True end) s.
Proof.
  assert (Hadj : forall q, Forall (fun o => match o with RevBlk.ORD _ | RevBlk.OWD _ => False | _ => True end) (RevBlk.adj q)) by (intros q; unfold RevBlk.adj; repeat constructor).
  assert (Hloop : forall k q, Forall (fun o => match o with RevBlk.ORD _ | RevBlk.OWD _ => False | _ => True end) (RevBlk.loop1 k q)).
  { induction k as [|k IHk]; intros q; cbn [RevBlk.loop1]; [constructor|]. repeat (apply Forall_app; split); auto; repeat constructor. }
  induction 1; repeat (apply Forall_app; split); auto; try (destruct wm; unfold RevBlk.wmop, RevBlk.tail0; repeat constructor); repeat constructor.
Qed.
Theorem hrevolve_no_disk_slot l ram wd rd uf ub L : 0 <= l -> 1 <= ram -> hrevolve l ram 0 wd rd uf ub = Ok L -> Forall nodisk L.
Proof.
  intros Hl Hram H. unfold hrevolve in H.
  destruct (hopt_table_total l ram 0 Hl ltac:(lia) ltac:(lia) ltac:(lia) 0 wd 0 rd ub uf) as (T & ET & HI). rewrite ET in H. cbn [bind] in H.
  set (p := {| c0v := ram; c1v := 0; w0v := 0; w1v := wd; r0v := 0; r1v := rd; ufv := uf; ubv := ub |}) in *.
  destruct (Z.to_nat (4 * l + 8)) as [|f] eqn:Ef; [lia|]. cbn [recurse] in H.
  destruct (Z.eqb_spec l 0) as [->|Hl0]; [injection H as <-; repeat constructor|].
  cbn [Z.eqb andb] in H. destruct (Z.eqb_spec l 1) as [->|Hl1]; [injection H as <-; repeat constructor|].
  unfold hopt, hoptp in H. change (1 - 1) with 0 in H. cbn [Z.eqb] in H.
  destruct HI as (_ & _ & _ & _ & C0). rewrite (C0 l ltac:(lia)) in H. cbn [bind] in H.
  destruct (get (opt0 T) l (cvec p 0)) as [b|]; cbn [bind] in H; [|discriminate].
  change (cadd (HRevSeq.Fin (wvec p 1)) Inf) with Inf in H. cbn [clt] in H.
  destruct (proj2 (gen0 p T eq_refl eq_refl f l (cvec p 0) Hl ltac:(cbn; lia)) L H) as (s0 & -> & B).
  apply injH_nodisk. eapply Blk_nodisk; eauto.
Qed.

(* ---- C11 for HRevolve ---- *)
Theorem hrev_touch_uses N ram disk uf ub0 wd rd p ops o0 m ls : 1 <= N -> 1 <= ram -> 0 <= disk ->
  run_case (PRev KHRevolve N ram disk uf ub0 wd rd) p ops = Ok (o0, m, ls) -> Forall touch_uses_line ls.
Proof.
  intros HN Hram Hdisk Hrun.
  unfold run_case in Hrun. destruct (Sched.construct (PRev KHRevolve N ram disk uf ub0 wd rd)) as [s|e] eqn:Ec; [|discriminate]. cbn [bind] in Hrun.
  destruct (run_ops p s mon0 ops) as [[s' m'] ls'] eqn:Er. injection Hrun as _ _ <-.
  cbn [Sched.construct] in Ec. unfold RevConv.construct in Ec.
  destruct (sequence KHRevolve N ram disk uf ub0 wd rd) as [L|] eqn:EL; cbn [bind] in Ec; [|discriminate].
  destruct (N <? 1); [discriminate|]. destruct (ram <? Z.min 1 (N - 1)); [discriminate|]. cbn [bind] in Ec. injection Ec as <-.
  set (I := fun sc : sched => exists r, ob sc = ORevF KHRevolve N ram disk r /\ (disk = 0 -> RI r)).
  assert (HI0 : I {| ob := ORevF KHRevolve N ram disk (init_r L); started := false |}).
  { eexists; split; [reflexivity|]. intros ->. split; [|constructor]. cbn [RevConv.ops init_r].
    change (sequence KHRevolve N ram 0 uf ub0 wd rd) with (hrevolve (N - 1) ram 0 wd rd uf ub0) in EL. apply (hrevolve_no_disk_slot (N - 1) ram wd rd uf ub0 L); [lia|exact Hram|exact EL]. }
  (* the observations *)
  pose proof (ops_obs I (fun ob => o_ur ob = UTrue /\ o_ud ob = Sched.ub (0 <? disk))
    ltac:(intros sc (r & Hr & HR); unfold Sched.next; rewrite Hr; destruct (RevConv.next N r) as [r' o] eqn:En; exists r'; split; [reflexivity|];
          intros Hd; pose proof (next_nodisk N r (HR Hd)) as Hn; rewrite En in Hn; exact (proj1 Hn))
    ltac:(intros kk sc (r & Hr & HR); unfold Sched.finalize; rewrite Hr; exists r; split; [|exact HR]; destruct (kk <? 1); [exact Hr|]; cbn [fst]; destruct (get_max_n sc); [destruct (_ || _)|]; exact Hr)
    ltac:(intros sc (r & Hr & _); unfold observe, uses; cbn [o_ur o_ud]; rewrite Hr; split; [destruct (Z.ltb_spec 0 ram); [reflexivity|lia]|reflexivity])
    p ops _ mon0 HI0) as Hobs.
  (* the actions *)
  pose proof (ops_act I (fun a => disk = 0 -> nd a)
    ltac:(intros sc (r & Hr & HR); unfold Sched.next; rewrite Hr; pose proof (fun Hd => next_nodisk N r (HR Hd)) as Hn; destruct (RevConv.next N r) as [r' o];
          cbn [fst snd] in *; split; [exists r'; split; [reflexivity|intros Hd; exact (proj1 (Hn Hd))]|destruct o; auto; intros Hd; exact (proj2 (Hn Hd))])
    ltac:(intros kk sc (r & Hr & HR); unfold Sched.finalize; rewrite Hr; exists r; split; [|exact HR]; destruct (kk <? 1); [exact Hr|]; cbn [fst]; destruct (get_max_n sc); [destruct (_ || _)|]; exact Hr)
    p ops _ mon0 HI0) as Hact.
  rewrite Er in Hobs, Hact. destruct Hobs as [_ Hobs]. destruct Hact as [_ Hact].
  rewrite Forall_forall in *. intros l Hl. specialize (Hobs l Hl). specialize (Hact l Hl).
  destruct l as [o ob0|e ob0]; [|exact Logic.I]. destruct o as [a| |e]; try exact Logic.I. cbn [touch_uses_line obs_line act_line] in *.
  intros sg Hsg. destruct Hobs as [H1 H2]. destruct sg; auto. rewrite H2.
  destruct (Z.ltb_spec 0 disk); [reflexivity|]. exfalso. apply (Hact ltac:(lia)). exact Hsg.
Qed.
Print Assumptions hrev_touch_uses.
