(* The tabulated planner of Model/Mixed.v (a list of lists, as the numpy array) simulates the bounded-function table of
   TabEq.v, so C16_table transfers to the extracted model: every entry equals the memoised planner's. *)
From Coq Require Import ZArith List Lia Bool.
Require Import Actions Mixed MixDP.
Require TabEq.
Import ListNotations.
Open Scope Z_scope.

Definition dec (c : option plan_t) : plan_t := match c with Some v => v | None => (KNone, 0, -1) end.
Lemma snd_dec c : snd (dec c) = TabEq.cell_cost c.
Proof. destruct c as [[[k a] c]|]; reflexivity. Qed.

(* list-table t represents function-table T *)
Definition R (t : table) (T : TabEq.table) : Prop :=
  length t = Z.to_nat (TabEq.dimn T + 1) /\ Forall (fun row => length row = Z.to_nat (TabEq.dims T + 1)) t /\
  0 <= TabEq.dimn T /\ 0 <= TabEq.dims T /\
  forall a b, 0 <= a <= TabEq.dimn T -> 0 <= b <= TabEq.dims T -> tget t a b = Ok (dec (TabEq.cells T a b)).

Lemma upd_list_length {A} (l : list A) i v : length (upd_list l i v) = length l.
Proof. revert i; induction l as [|x l IH]; intros [|i]; cbn; auto. Qed.
Lemma upd_list_nth_same {A} (l : list A) i v : (i < length l)%nat -> nth_error (upd_list l i v) i = Some v.
Proof. revert i; induction l as [|x l IH]; intros [|i] H; cbn in *; try lia; [reflexivity|apply IH; lia]. Qed.
Lemma upd_list_nth_other {A} (l : list A) i j v : i <> j -> nth_error (upd_list l i v) j = nth_error l j.
Proof. revert i j; induction l as [|x l IH]; intros [|i] [|j] H; cbn; auto; try congruence. Qed.

Lemma tget_in t T a b : R t T -> 0 <= a <= TabEq.dimn T -> 0 <= b <= TabEq.dims T ->
  tget t a b = Ok (dec (TabEq.cells T a b)) /\ TabEq.tget T a b = Ok (TabEq.cells T a b).
Proof.
  intros (_ & _ & _ & _ & H) Ha Hb. split; [apply H; assumption|].
  unfold TabEq.tget. replace ((0 <=? a) && (a <=? TabEq.dimn T) && (0 <=? b) && (b <=? TabEq.dims T)) with true; [reflexivity|].
  symmetry. rewrite !andb_true_iff, !Z.leb_le. lia.
Qed.
Lemma tset_R t T a b v : R t T -> 0 <= a <= TabEq.dimn T -> 0 <= b <= TabEq.dims T -> R (tset t a b v) (TabEq.tset T a b v).
Proof.
  intros (Hl & Hr & Hn & Hs & H) Ha Hb. unfold tset.
  destruct (nth_error t (Z.to_nat a)) as [row|] eqn:Erow.
  2:{ apply nth_error_None in Erow. lia. }
  assert (Hrow : length row = Z.to_nat (TabEq.dims T + 1)).
  { rewrite Forall_forall in Hr. apply Hr. eapply nth_error_In; eassumption. }
  unfold R, TabEq.tset. cbn [TabEq.dimn TabEq.dims TabEq.cells].
  split; [rewrite upd_list_length; exact Hl|]. split.
  - apply Forall_forall. intros r Hin. apply In_nth_error in Hin. destruct Hin as [j Hj].
    destruct (Nat.eq_dec (Z.to_nat a) j) as [<-|Hne].
    + rewrite upd_list_nth_same in Hj by lia. injection Hj as <-. rewrite upd_list_length. exact Hrow.
    + rewrite upd_list_nth_other in Hj by exact Hne. rewrite Forall_forall in Hr. apply Hr. eapply nth_error_In; eassumption.
  - split; [exact Hn|]. split; [exact Hs|]. intros a' b' Ha' Hb'. unfold tget.
    destruct (Z.ltb_spec a' 0), (Z.ltb_spec b' 0); cbn [orb]; try lia.
    destruct (Z.eq_dec a' a) as [->|Hna].
    + rewrite upd_list_nth_same by lia. rewrite Z.eqb_refl. cbn [andb].
      destruct (Z.eqb_spec b' b) as [->|Hnb].
      * rewrite upd_list_nth_same by lia. reflexivity.
      * rewrite upd_list_nth_other by lia. specialize (H a b' Ha Hb'). unfold tget in H.
        destruct (Z.ltb_spec a 0), (Z.ltb_spec b' 0); cbn [orb] in H; try lia. rewrite Erow in H. exact H.
    + rewrite upd_list_nth_other by lia. replace (a' =? a) with false by (symmetry; apply Z.eqb_neq; lia). cbn [andb].
      specialize (H a' b' Ha' Hb'). unfold tget in H.
      destruct (Z.ltb_spec a' 0), (Z.ltb_spec b' 0); cbn [orb] in H; try lia. exact H.
Qed.
Lemma tset_dims T a b v : TabEq.dimn (TabEq.tset T a b v) = TabEq.dimn T /\ TabEq.dims (TabEq.tset T a b v) = TabEq.dims T.
Proof. split; reflexivity. Qed.

(* loops: if the abstract loop succeeds, so does the concrete one, with a related result (D = the dimensions are n, s) *)
Section SIM.
Variable n s : Z.
Definition D (T : TabEq.table) : Prop := TabEq.dimn T = n /\ TabEq.dims T = s.
Lemma loop_sim lo hi f F :
  (forall j t T T', lo <= j < hi -> R t T -> D T -> F j T = Ok T' -> exists t', f j t = Ok t' /\ R t' T' /\ D T') ->
  forall cnt i t T T', lo <= i -> i + Z.of_nat cnt <= hi -> R t T -> D T -> TabEq.loopS cnt i T F = Ok T' ->
  exists t', loop cnt i t f = Ok t' /\ R t' T' /\ D T'.
Proof.
  intros Hsim. induction cnt as [|cnt IH]; intros i t T T' Hlo Hhi HR HD H; cbn [TabEq.loopS loop] in *.
  - injection H as <-. eauto.
  - destruct (F i T) as [T1|e] eqn:EF; cbn [bind] in H; [|discriminate].
    destruct (Hsim i t T T1 ltac:(lia) HR HD EF) as (t1 & Ef & HR1 & HD1). rewrite Ef. cbn [bind].
    apply (IH (i + 1) t1 T1 T'); try assumption; lia.
Qed.

Lemma set_sim t T a b v : R t T -> D T -> 0 <= a <= n -> 0 <= b <= s ->
  R (tset t a b v) (TabEq.tset T a b v) /\ D (TabEq.tset T a b v).
Proof. intros HR [Hn Hs] Ha Hb. split; [apply tset_R; [exact HR|lia|lia]|split; cbn; assumption]. Qed.
Lemma get_sim t T a b : R t T -> D T -> 0 <= a <= n -> 0 <= b <= s ->
  tget t a b = Ok (dec (TabEq.cells T a b)) /\ TabEq.tget T a b = Ok (TabEq.cells T a b).
Proof. intros HR [Hn Hs] Ha Hb. apply tget_in; [exact HR|lia|lia]. Qed.

(* the innermost loop body (one candidate split i for entry (ni, si)) *)
Definition inner_body (ni si i : Z) (t : table) : res table :=
  do a <- tget t i si; do b <- tget t (ni - i) (si - 1);
  if negb ((snd a >? 0) && (snd b >? 0)) then Err RuntimeError else
  let m1 := i + snd a + snd b in
  do cur <- tget t ni si;
  if (snd cur <? 0) || (m1 <=? snd cur) then Ok (tset t ni si (KIcs, i, m1)) else Ok t.
Lemma inner_sim ni si i t T T' : 2 <= ni <= n -> 2 <= si <= s -> 2 <= i < ni -> R t T -> D T -> TabEq.inner ni si i T = Ok T' ->
  exists t', inner_body ni si i t = Ok t' /\ R t' T' /\ D T'.
Proof.
  intros Hni Hsi Hi HR HD H. unfold TabEq.inner in H. unfold inner_body.
  destruct (get_sim t T i si HR HD ltac:(lia) ltac:(lia)) as [G1 G1'].
  destruct (get_sim t T (ni - i) (si - 1) HR HD ltac:(lia) ltac:(lia)) as [G2 G2'].
  destruct (get_sim t T ni si HR HD ltac:(lia) ltac:(lia)) as [G3 G3'].
  rewrite G1', G2' in H. cbn [bind] in H. rewrite G1, G2. cbn [bind]. rewrite !snd_dec.
  destruct (negb _); [discriminate|]. rewrite G3' in H. cbn [bind] in H. cbn zeta. rewrite G3. cbn [bind]. rewrite snd_dec.
  destruct ((TabEq.cell_cost (TabEq.cells T ni si) <? 0) || _); injection H as <-.
  - eexists. split; [reflexivity|]. apply set_sim; auto; lia.
  - eexists. split; [reflexivity|]. auto.
Qed.

(* one table entry (ni, si): the body of the n_i loop *)
Definition row_body (si ni : Z) (t : table) : res table :=
    if ni <=? si + 1 then Ok (tset t ni si (KAdj, 1, ni)) else
    if si =? 1 then Ok (tset t ni si (KIcs, ni - 1, ni*(ni+1)/2 - 1)) else
    do t <- loop (Z.to_nat (ni - 2)) 2 t (inner_body ni si);
    do cur <- tget t ni si;
    if snd cur <? 0 then Err RuntimeError else
    do a <- tget t (ni - 1) (si - 1);
    if negb (snd a >? 0) then Err RuntimeError else
    let m1 := 1 + snd a in
    if m1 <? snd cur then Ok (tset t ni si (KAdj, 1, m1)) else Ok t.

Lemma row_sim si ni t T T' : 1 <= si <= s -> 2 <= ni <= n -> R t T -> D T -> TabEq.row si ni T = Ok T' ->
  exists t', row_body si ni t = Ok t' /\ R t' T' /\ D T'.
Proof.
  intros Hsi Hni HR HD H. unfold TabEq.row in H. unfold row_body.
  destruct (ni <=? si + 1).
  { injection H as <-. eexists. split; [reflexivity|]. apply set_sim; auto; lia. }
  destruct (Z.eqb_spec si 1) as [E1|E1].
  { injection H as <-. eexists. split; [reflexivity|]. apply set_sim; auto; lia. }
  destruct (TabEq.loopS (Z.to_nat (ni - 2)) 2 T (TabEq.inner ni si)) as [T1|e] eqn:EL; cbn [bind] in H; [|discriminate].
  destruct (loop_sim 2 ni (inner_body ni si) (TabEq.inner ni si) (fun i t0 T0 T0' Hi HR0 HD0 HF => inner_sim ni si i t0 T0 T0' Hni ltac:(lia) Hi HR0 HD0 HF)
              (Z.to_nat (ni - 2)) 2 t T T1 ltac:(lia) ltac:(lia) HR HD EL) as (t1 & El & HR1 & HD1).
  rewrite El. cbn [bind].
  destruct (get_sim t1 T1 ni si HR1 HD1 ltac:(lia) ltac:(lia)) as [G3 G3'].
  destruct (get_sim t1 T1 (ni - 1) (si - 1) HR1 HD1 ltac:(lia) ltac:(lia)) as [G4 G4'].
  rewrite G3' in H. cbn [bind] in H. rewrite G3. cbn [bind]. rewrite snd_dec.
  destruct (TabEq.cell_cost (TabEq.cells T1 ni si) <? 0); [discriminate|].
  rewrite G4' in H. cbn [bind] in H. rewrite G4. cbn [bind]. rewrite snd_dec.
  destruct (negb _); [discriminate|]. cbn zeta.
  destruct (1 + TabEq.cell_cost (TabEq.cells T1 (ni - 1) (si - 1)) <? TabEq.cell_cost (TabEq.cells T1 ni si)); injection H as <-.
  - eexists. split; [reflexivity|]. apply set_sim; auto; lia.
  - eexists. split; [reflexivity|]. auto.
Qed.

Lemma tabulate_unfold : tabulate n s =
  (let t0 : table := repeat (repeat (KNone, 0, -1) (Z.to_nat (s+1))) (Z.to_nat (n+1)) in
   do t1 <- (if n <? 1 then Err IndexError else loop (Z.to_nat (s+1)) 0 t0 (fun si t => Ok (tset t 1 si (KFR, 1, 1))));
   loop (Z.to_nat s) 1 t1 (fun si t => loop (Z.to_nat (n - 1)) 2 t (row_body si))).
Proof. reflexivity. Qed.

Lemma R_init : 1 <= n -> 0 <= s ->
  R (repeat (repeat (KNone, 0, -1) (Z.to_nat (s+1))) (Z.to_nat (n+1))) {| TabEq.dimn := n; TabEq.dims := s; TabEq.cells := fun _ _ => None |}.
Proof.
  intros Hn Hs. unfold R. cbn [TabEq.dimn TabEq.dims TabEq.cells dec].
  split; [apply repeat_length|]. split.
  - apply Forall_forall. intros r Hr. apply repeat_spec in Hr. subst r. apply repeat_length.
  - split; [lia|]. split; [lia|]. intros a b Ha Hb. unfold tget.
    destruct (Z.ltb_spec a 0), (Z.ltb_spec b 0); cbn [orb]; try lia.
    rewrite nth_error_repeat by lia. rewrite nth_error_repeat by lia. reflexivity.
Qed.

(* C16 on the extracted tabulated planner: it succeeds, and every entry (1 <= ni <= n, 1 <= si <= s) is the memoised planner's plan *)
Theorem tabulate_planC : 1 <= n -> 0 <= s ->
  exists t, tabulate n s = Ok t /\ forall ni si, 1 <= ni <= n -> (1 <= si <= s \/ ni = 1 /\ 0 <= si <= s) -> tget t ni si = Ok (planC ni si).
Proof.
  intros Hn Hs. destruct (TabEq.C16_table n s Hn Hs) as (T & HT & Hcells).
  rewrite tabulate_unfold. cbn zeta. unfold TabEq.tabulate in HT.
  destruct (Z.ltb_spec n 1); [lia|].
  set (T0 := {| TabEq.dimn := n; TabEq.dims := s; TabEq.cells := fun _ _ => None |}) in *.
  destruct (TabEq.loopS (Z.to_nat (s + 1)) 0 T0 (fun si t => Ok (TabEq.tset t 1 si (KFR, 1, 1)))) as [T1|e] eqn:E1; cbn [bind] in HT; [|discriminate].
  destruct (loop_sim 0 (s + 1) (fun si t => Ok (tset t 1 si (KFR, 1, 1))) (fun si t => Ok (TabEq.tset t 1 si (KFR, 1, 1)))
              ltac:(intros j t0 T0' T0'' Hj HR0 HD0 HF; injection HF as <-; eexists; split; [reflexivity|]; apply set_sim; auto; lia)
              (Z.to_nat (s + 1)) 0 _ T0 T1 ltac:(lia) ltac:(lia) (R_init Hn Hs) ltac:(split; reflexivity) E1) as (t1 & El1 & HR1 & HD1).
  rewrite El1. cbn [bind].
  destruct (loop_sim 1 (s + 1) (fun si t => loop (Z.to_nat (n - 1)) 2 t (row_body si)) (fun si t => TabEq.loopS (Z.to_nat (n - 1)) 2 t (TabEq.row si))
              ltac:(intros si t0 T0' T0'' Hsi HR0 HD0 HF;
                    exact (loop_sim 2 (n + 1) (row_body si) (TabEq.row si)
                             (fun ni ta Ta Ta' Hni HRa HDa HFa => row_sim si ni ta Ta Ta' ltac:(lia) ltac:(lia) HRa HDa HFa)
                             (Z.to_nat (n - 1)) 2 t0 T0' T0'' ltac:(lia) ltac:(lia) HR0 HD0 HF))
              (Z.to_nat s) 1 t1 T1 T ltac:(lia) ltac:(lia) HR1 HD1 HT) as (t2 & El2 & HR2 & HD2).
  exists t2. split; [exact El2|]. intros ni si Hni Hsi.
  destruct HD2 as [Dn Ds]. destruct (get_sim t2 T ni si HR2 (conj Dn Ds) ltac:(lia) ltac:(lia)) as [G _].
  rewrite G, (Hcells ni si Hni Hsi). reflexivity.
Qed.
End SIM.
Print Assumptions tabulate_planC.
