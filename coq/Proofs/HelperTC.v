(* optimal_steps_binomial, as translated from the source (HelperGenSpec.osb_shape; Gen/HelperGen.v proves the translation equal
   to it on every run), returns TC n s on its whole domain -- the number of forward steps the Multistage and Revolve run theorems
   (C05_multistage_forward_total, C05_revolve_forward_total) establish for the streams, = n + the Griewank-Walther closed form. *)
From Coq Require Import ZArith List Lia Bool.
Require Import Actions BinomDef Binom2 NAdvance NAdv GW2 BinomDP Inst Opt0Table RevolveGW HelperGenSpec.
Open Scope Z_scope.

Theorem osb_is_TC (tr : traj) (f : nat) (n s : Z) : 1 <= n -> (1 <= s \/ n = 1 /\ 0 <= s) -> (Z.to_nat n <= f)%nat ->
  osb_shape f n s = BinomDP.Ok (Inst.TC tr n s).
Proof.
  intros Hn Hs Hf. rewrite (osb_value f n s Hn Hf ltac:(lia)). f_equal.
  destruct Hs as [Hs|[-> Hs]].
  - pose proof (TC_E tr (Z.to_nat n) (Z.to_nat s) ltac:(lia) ltac:(lia)) as H. unfold E in H. rewrite !Z2Nat.id in H by lia. lia.
  - pose proof (E_1 (Z.to_nat s)) as H. unfold E in H. change (Z.of_nat 1) with 1 in H. rewrite Z2Nat.id in H by lia. rewrite H. reflexivity.
Qed.
Print Assumptions osb_is_TC.

(* ... and so does the model of the helper the extracted driver evaluates and the correspondence compares with the implementation
   (Binomial.optimal_steps_binomial: cache_step with the dictionary explicit, started empty) *)
Require Binomial HelperCoh.
Theorem model_osb_is_TC (tr : traj) (n s : Z) : 1 <= n -> (1 <= s \/ n = 1 /\ 0 <= s) ->
  Binomial.optimal_steps_binomial n s = Actions.Ok (Inst.TC tr n s).
Proof.
  intros Hn Hs. rewrite (HelperCoh.optimal_steps_binomial_value n s Hn ltac:(lia)).
  pose proof (osb_is_TC tr (Z.to_nat n) n s Hn Hs ltac:(lia)) as H. rewrite (osb_value (Z.to_nat n) n s Hn ltac:(lia) ltac:(lia)) in H.
  injection H as H. rewrite H. reflexivity.
Qed.
Print Assumptions model_osb_is_TC.
