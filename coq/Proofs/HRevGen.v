(* HRevolve, generator: the op list produced by the extracted hrevolve (hrevolve_aux / hrevolve_recurse, K = 2 levels) is, up
   to the renaming injH of the generic operations, a list of the grammar HRevBlk.HB; the level-0 calls produce RevBlk.Blk
   blocks.  Nothing is assumed about the cost tables: whatever split the tables select, the result is in the grammar. *)
From Coq Require Import ZArith List Lia Bool.
Require Import Actions Ops HRevSeq RevBridge1 HRevBridge1.
Require RevBlk RevGen HRevBlk RevBridge5.
Import ListNotations.
Open Scope Z_scope.

Import RevBlk.
Notation HB := HRevBlk.HB.

(* ---- small facts ---- *)
Lemma Blk_mono wm o l cm ops : Blk wm o l cm ops -> forall cm', cm <= cm' -> Blk wm o l cm' ops.
Proof.
  induction 1 as [wm o cm|wm o cm|wm o cm Hcm|wm o l cm Hl Hcm|wm o l cm j s1 s2 Hl Hcm Hj B1 IH1 B2 IH2]; intros cm' Hle.
  - apply B0. - apply B0n. - apply B1; lia. - apply Bc1; lia.
  - apply Bsp; try lia; [apply IH1; lia|apply IH2; lia].
Qed.
Lemma Blk_add_wm o l cm s : Blk false o l cm s -> 1 <= l -> Blk true o l cm (OWM o :: s).
Proof.
  inversion 1; subst; intros Hl; try lia; cbn [wmop app].
  - apply (B1 true); assumption.
  - apply (Bc1 true); assumption.
  - eapply (Bsp true); eassumption.
Qed.
Lemma shift_injH s l : Ops.shift s (map injH l) = map injH (RevGen.shift s l).
Proof. unfold Ops.shift, RevGen.shift. rewrite !map_map. apply map_ext. intros []; reflexivity. Qed.
Lemma HB_shift c0 s m o l ops : HB c0 m o l ops -> HB c0 m (o + s) l (RevGen.shift s ops).
Proof.
  induction 1 as [m o Hm|m o l ops HBk|o|m o l j s1 s2 Hm Hl Hj H1 IH1 H2 IH2|o l s0 H IH].
  - rewrite RevGen.shift_adj. apply HRevBlk.HZ. exact Hm.
  - apply HRevBlk.HMem. apply RevGen.Blk_shift. exact HBk.
  - rewrite !RevGen.shift_app, !RevGen.shift_adj. cbn [RevGen.shift map RevGen.shift1].
    replace (o + 1 + s) with (o + s + 1) by lia. apply HRevBlk.H1.
  - rewrite !RevGen.shift_app. cbn [RevGen.shift map RevGen.shift1]. replace (o + j + s) with (o + s + j) in * by lia.
    apply HRevBlk.HSplit; assumption.
  - cbn [RevGen.shift map RevGen.shift1]. apply HRevBlk.HW. exact IH.
Qed.

Lemma argmin_aux_bound l : forall i best m, 0 <= best < i -> 1 <= HRevSeq.argmin_aux l i best m <= i + Z.of_nat (length l).
Proof.
  induction l as [|x l IH]; intros i best m H; cbn [HRevSeq.argmin_aux length]; [lia|].
  destruct (cle x m); [specialize (IH (i+1) i x ltac:(lia))|specialize (IH (i+1) best m ltac:(lia))]; lia.
Qed.
Lemma cle_refl x : cle x x = true.
Proof. unfold cle, clt. destruct x; [rewrite Z.ltb_irrefl|]; reflexivity. Qed.
Lemma argmin_bound l : l <> [] -> 1 <= HRevSeq.argmin l <= Z.of_nat (length l).
Proof.
  destruct l as [|x l]; [congruence|]. intros _. unfold HRevSeq.argmin. cbn [HRevSeq.argmin_aux].
  rewrite cle_refl. change (0 + 1) with 1. pose proof (argmin_aux_bound l 1 0 x ltac:(lia)). cbn [length]. lia.
Qed.
Lemma zrange_length lo hi : length (zrange lo hi) = Z.to_nat (hi - lo).
Proof. unfold zrange. rewrite map_length, seq_length. reflexivity. Qed.
Lemma last_op_snoc (l : list Ops.op) x : last_op (l ++ [x]) = Some x.
Proof. unfold last_op. rewrite rev_app_distr. reflexivity. Qed.
Lemma last_op_app (a b : list Ops.op) : b <> [] -> last_op (a ++ b) = last_op b.
Proof.
  intros Hb. unfold last_op. rewrite rev_app_distr. destruct (rev b) as [|x r] eqn:E; [|reflexivity].
  apply (f_equal (@rev _)) in E. rewrite rev_involutive in E. contradiction.
Qed.
Lemma app_ne_r {A} (c d : list A) : d <> [] -> c ++ d <> [].
Proof. intros Hd E. apply app_eq_nil in E. tauto. Qed.

(* the cm = 1 loop *)
Lemma cm1_rest : forall k l, (0 < Z.of_nat k < l) -> HRevSeq.cm1_loop k l (Z.of_nat k - 1) = map injH (loop1 k 0).
Proof.
  induction k as [|k IH]; intros l Hk; [lia|].
  cbn [HRevSeq.cm1_loop loop1]. replace (Z.of_nat (S k) - 1) with (Z.of_nat k) by lia.
  destruct (Z.eqb_spec (Z.of_nat k) (l - 1)); [lia|].
  destruct (Z.eqb_spec (Z.of_nat k + 1) 0); [lia|].
  cbn [app]. replace (0 + Z.of_nat (S k)) with (Z.of_nat k + 1) by lia.
  unfold adj. cbn [app map injH]. replace (Z.of_nat k + 1 + 1) with (Z.of_nat k + 2) by lia.
  do 6 f_equal.
  destruct k as [|k']; [reflexivity|]. apply IH. lia.
Qed.

Section GEN.
Variable p : hp.
Variable T : tabs.
Hypothesis Hw0 : w0v p = 0.
Hypothesis Hr0 : r0v p = 0.
Notation c0 := (c0v p).
Hypothesis Hc0 : 1 <= c0.

Definition endsD (s0 : list op) : Prop := exists pre, s0 = pre ++ [ODM 0].

(* ---- level 0 ---- *)
Lemma gen0 : forall f l cmem, 0 <= l -> 0 <= cmem ->
  (forall s, aux f p T l 0 cmem = Ok s -> exists s0, s = map injH s0 /\ Blk false 0 l cmem s0 /\ (l = 0 -> s0 = adj 0) /\ (1 <= l -> endsD s0)) /\
  (forall s, recurse f p T l 0 cmem = Ok s -> exists s0, s = map injH s0 /\ Blk true 0 l cmem s0).
Proof.
  induction f as [|f IH]; intros l cmem Hl Hcm; [split; intros s H; discriminate|]. split; intros s H.
  - cbn [aux] in H.
    destruct (Z.eqb_spec cmem 0) as [->|Hc0']; [discriminate|].
    destruct (Z.eqb_spec l 0) as [->|Hl0].
    { injection H as <-. exists (adj 0). split; [reflexivity|]. split; [apply B0n|]. split; [reflexivity|lia]. }
    destruct (Z.eqb_spec l 1) as [->|Hl1].
    { unfold rvec in H. cbn [Z.eqb] in H. rewrite Hw0, Hr0 in H. cbn [Z.add Z.ltb Z.compare] in H. injection H as <-.
      exists (wmop false 0 ++ [OF 0 (0 + 1)] ++ adj (0 + 1) ++ tail0 0). split; [reflexivity|]. split; [apply B1; lia|]. split; [lia|].
      intros _. exists ([OF 0 (0 + 1)] ++ adj (0 + 1) ++ [ORM 0; OWFM (0 + 1); OF 0 (0 + 1); OB (0 + 1) 0; ODFM (0 + 1)]). reflexivity. }
    cbn [Z.eqb andb] in H.
    destruct (Z.eqb_spec cmem 1) as [->|Hc1].
    { injection H as <-.
      destruct (Z.to_nat l) as [|k] eqn:Ek; [lia|]. cbn [HRevSeq.cm1_loop].
      destruct (Z.eqb_spec (l - 1) (l - 1)); [|lia]. destruct (Z.eqb_spec (l - 1 + 1) 0); [lia|].
      cbn [app]. replace (l - 1 + 1) with l by lia. replace (l - 1 + 2) with (l + 1) by lia.
      replace (l - 1 - 1) with (Z.of_nat k - 1) by lia. rewrite cm1_rest by lia.
      replace k with (Z.to_nat (l - 1)) by lia.
      exists (wmop false 0 ++ [OF 0 (0 + l)] ++ adj (0 + l) ++ loop1 (Z.to_nat (l - 1)) 0 ++ tail0 0). split.
      { replace (0 + l) with l by lia. unfold adj, tail0. cbn [wmop app map injH]. rewrite map_app. reflexivity. }
      split; [apply Bc1; lia|]. split; [lia|]. intros _.
      exists ([OF 0 (0 + l)] ++ adj (0 + l) ++ loop1 (Z.to_nat (l - 1)) 0 ++ [ORM 0; OWFM (0 + 1); OF 0 (0 + 1); OB (0 + 1) 0; ODFM (0 + 1)]).
      unfold tail0. cbn [wmop]. rewrite <- !app_assoc. reflexivity. }
    destruct (map_res _ (zrange 1 l)) as [lm|] eqn:Elm; cbn [bind] in H; [|discriminate].
    destruct (get (optp0 T) l 1) as [ref|]; cbn [bind] in H; [|discriminate].
    destruct (clt (cmin_list lm Inf) ref).
    + assert (Hlen : length lm = Z.to_nat (l - 1)) by (rewrite (RevBridge5.map_res_length _ _ _ Elm), zrange_length; reflexivity).
      assert (Hj : 1 <= HRevSeq.argmin lm <= l - 1).
      { pose proof (argmin_bound lm) as Hb. destruct lm; [cbn in Hlen; lia|]. specialize (Hb ltac:(congruence)). lia. }
      set (j := HRevSeq.argmin lm) in *.
      destruct (recurse f p T (l - j) 0 (cmem - 1)) as [s1|] eqn:E1; cbn [bind] in H; [|discriminate].
      destruct (aux f p T (j - 1) 0 cmem) as [s2|] eqn:E2; cbn [bind] in H; [|discriminate].
      destruct (proj2 (IH (l - j) (cmem - 1) ltac:(lia) ltac:(lia)) s1 E1) as (s10 & -> & B1').
      destruct (proj1 (IH (j - 1) cmem ltac:(lia) ltac:(lia)) s2 E2) as (s20 & -> & B2' & Hz2 & He2).
      apply (RevGen.Blk_shift j) in B1'. rewrite shift_injH in H.
      destruct (Z.eq_dec (j - 1) 0) as [Ej|Ej].
      * (* the left part is a single step: the discard is appended here *)
        pose proof (Hz2 Ej) as ->.
        assert (Hlast : last_op ([Ops.OF 0 j] ++ map injH (RevGen.shift j s10) ++ [OR 0 0] ++ map injH (adj 0)) = Some (ODF 0 (0 + 1))).
        { rewrite !last_op_app by (repeat apply app_ne_r; discriminate). reflexivity. }
        rewrite Hlast in H. cbn [is_discard] in H. injection H as <-.
        exists (wmop false 0 ++ [OF 0 (0 + j)] ++ RevGen.shift j s10 ++ [ORM 0] ++ (adj 0 ++ [ODM 0])). split.
        { cbn [wmop]. rewrite !map_app. cbn [map injH app]. replace (0 + j) with j by lia. rewrite <- ?app_assoc. reflexivity. }
        split; [apply Bsp; try lia; [exact B1'|rewrite Ej; apply B0]|]. split; [lia|]. intros _.
        exists ([OF 0 (0 + j)] ++ RevGen.shift j s10 ++ [ORM 0] ++ adj 0). cbn [wmop]. rewrite <- !app_assoc. reflexivity.
      * destruct (He2 ltac:(lia)) as [pre Hpre].
        assert (Hlast : last_op ([Ops.OF 0 j] ++ map injH (RevGen.shift j s10) ++ [OR 0 0] ++ map injH s20) = Some (OD 0 0)).
        { rewrite Hpre, map_app. cbn [map injH]. rewrite !last_op_app by (repeat apply app_ne_r; discriminate). reflexivity. }
        rewrite Hlast in H. cbn [is_discard] in H. injection H as <-.
        exists (wmop false 0 ++ [OF 0 (0 + j)] ++ RevGen.shift j s10 ++ [ORM 0] ++ s20). split.
        { cbn [wmop]. rewrite !map_app. cbn [map injH app]. replace (0 + j) with j by lia. reflexivity. }
        split; [apply Bsp; try lia; assumption|]. split; [lia|]. intros _.
        exists ([OF 0 (0 + j)] ++ RevGen.shift j s10 ++ [ORM 0] ++ pre). cbn [wmop]. rewrite Hpre, <- !app_assoc. reflexivity.
    + destruct (proj1 (IH l 1 Hl ltac:(lia)) s H) as (s0 & -> & B & Hz & He).
      exists s0. split; [reflexivity|]. split; [apply (Blk_mono _ _ _ _ _ B); lia|]. split; assumption.
  - cbn [recurse] in H.
    destruct (Z.eqb_spec l 0) as [->|Hl0].
    { injection H as <-. exists (adj 0). split; [reflexivity|apply B0n]. }
    cbn [Z.eqb andb] in H. destruct (Z.eqb_spec cmem 0) as [->|Hc0']; [discriminate|].
    destruct (Z.eqb_spec l 1) as [->|Hl1].
    { injection H as <-. exists (wmop true 0 ++ [OF 0 (0 + 1)] ++ adj (0 + 1) ++ tail0 0). split; [reflexivity|apply B1; lia]. }
    destruct (aux f p T l 0 cmem) as [s1|] eqn:E1; cbn [bind] in H; [|discriminate]. injection H as <-.
    destruct (proj1 (IH l cmem Hl Hcm) s1 E1) as (s0 & -> & B & _).
    exists (OWM 0 :: s0). split; [reflexivity|]. apply Blk_add_wm; [exact B|lia].
Qed.

(* ---- level 1 ---- *)
Hypothesis Hc0p : cvec p 0 = c0.
Lemma gen1 : forall f l cmem, 0 <= l ->
  (forall s, aux f p T l 1 cmem = Ok s -> exists s0, s = map injH s0 /\
      forall m, m <> HRevBlk.MTop -> (m = HRevBlk.MPw -> 2 <= l) -> HB c0 m 0 l s0) /\
  (forall s, recurse f p T l 1 cmem = Ok s -> exists s0, s = map injH s0 /\ HB c0 HRevBlk.MTop 0 l s0).
Proof.
  induction f as [|f IH]; intros l cmem Hl; [split; intros s H; discriminate|]. split; intros s H.
  - cbn [aux] in H.
    destruct (cmem =? 0); [discriminate|].
    destruct (Z.eqb_spec l 0) as [->|Hl0].
    { injection H as <-. exists (adj 0). split; [reflexivity|]. intros m Hm Hm2. apply HRevBlk.HZ. intros ->. specialize (Hm2 eq_refl). lia. }
    destruct (Z.eqb_spec l 1) as [->|Hl1].
    { unfold rvec in H. cbn [Z.eqb] in H. rewrite Hw0, Hr0 in H. cbn [Z.add] in H.
      destruct (0 <? r1v p); injection H as <-.
      - exists (wmop true 0 ++ [OF 0 (0 + 1)] ++ adj (0 + 1) ++ tail0 0). split; [reflexivity|]. intros m _ _. apply HRevBlk.HMem. apply B1. exact Hc0.
      - exists ([OF 0 (0 + 1)] ++ adj (0 + 1) ++ [ORD 0] ++ adj 0 ++ [ODM 0]). split; [reflexivity|]. intros m Hm Hm2.
        destruct m; [congruence|specialize (Hm2 eq_refl); lia|apply HRevBlk.H1]. }
    cbn [Z.eqb andb] in H. unfold hopt, hoptp, rvec in H. change (1 - 1) with 0 in H. cbn [Z.eqb] in H.
    destruct (map_res _ (zrange 1 l)) as [lm|] eqn:Elm; cbn [bind] in H; [|discriminate].
    destruct (get (opt0 T) l (cvec p 0)) as [ref|]; cbn [bind] in H; [|discriminate].
    destruct (clt (cmin_list lm Inf) ref).
    + assert (Hlen : length lm = Z.to_nat (l - 1)) by (rewrite (RevBridge5.map_res_length _ _ _ Elm), zrange_length; reflexivity).
      assert (Hj : 1 <= HRevSeq.argmin lm <= l - 1).
      { pose proof (argmin_bound lm) as Hb. destruct lm; [cbn in Hlen; lia|]. specialize (Hb ltac:(congruence)). lia. }
      set (j := HRevSeq.argmin lm) in *.
      destruct (recurse f p T (l - j) 1 (cmem - 1)) as [s1|] eqn:E1; cbn [bind] in H; [|discriminate].
      destruct (aux f p T (j - 1) 1 cmem) as [s2|] eqn:E2; cbn [bind] in H; [|discriminate].
      destruct (proj2 (IH (l - j) (cmem - 1) ltac:(lia)) s1 E1) as (s10 & -> & B1').
      destruct (proj1 (IH (j - 1) cmem ltac:(lia)) s2 E2) as (s20 & -> & B2').
      apply (HB_shift c0 j) in B1'. rewrite shift_injH in H. injection H as <-.
      exists ([OF 0 (0 + j)] ++ RevGen.shift j s10 ++ [ORD 0] ++ s20). split.
      { rewrite !map_app. cbn [map injH app]. replace (0 + j) with j by lia. reflexivity. }
      intros m Hm _. apply HRevBlk.HSplit; try lia; try assumption. apply B2'; [discriminate|discriminate].
    + destruct (proj2 (gen0 f l (cvec p 0) Hl ltac:(rewrite Hc0p; lia)) s H) as (s0 & -> & B).
      exists s0. split; [reflexivity|]. intros m _ _. apply HRevBlk.HMem. rewrite <- Hc0p. exact B.
  - cbn [recurse] in H.
    destruct (Z.eqb_spec l 0) as [->|Hl0].
    { injection H as <-. exists (adj 0). split; [reflexivity|apply HRevBlk.HZ; discriminate]. }
    cbn [Z.eqb andb] in H.
    destruct (Z.eqb_spec l 1) as [->|Hl1].
    { injection H as <-. exists (wmop true 0 ++ [OF 0 (0 + 1)] ++ adj (0 + 1) ++ tail0 0). split; [reflexivity|]. apply HRevBlk.HMem. apply B1. exact Hc0. }
    unfold hopt, hoptp in H. change (1 - 1) with 0 in H. cbn [Z.eqb] in H.
    destruct (get (optp1 T) l cmem) as [a|]; cbn [bind] in H; [|discriminate].
    destruct (get (opt0 T) l (cvec p 0)) as [b|]; cbn [bind] in H; [|discriminate].
    destruct (clt _ b).
    + destruct (aux f p T l 1 cmem) as [s1|] eqn:E1; cbn [bind] in H; [|discriminate]. injection H as <-.
      destruct (proj1 (IH l cmem Hl) s1 E1) as (s0 & -> & B).
      exists (OWD 0 :: s0). split; [reflexivity|]. apply HRevBlk.HW. apply B; [discriminate|intros _; lia].
    + destruct (proj2 (gen0 f l (cvec p 0) Hl ltac:(rewrite Hc0p; lia)) s H) as (s0 & -> & B).
      exists s0. split; [reflexivity|]. apply HRevBlk.HMem. rewrite <- Hc0p. exact B.
Qed.
End GEN.

Theorem hrevolve_grammar l ram disk wd rd uf ub L : 0 <= l -> 1 <= ram -> hrevolve l ram disk wd rd uf ub = Ok L ->
  exists L0, L = map injH L0 /\ HB ram HRevBlk.MTop 0 l L0.
Proof.
  intros Hl Hram H. unfold hrevolve in H. destruct (get_hopt_table l ram disk 0 wd 0 rd ub uf) as [T|]; cbn [bind] in H; [|discriminate].
  exact (proj2 (gen1 {| c0v := ram; c1v := disk; w0v := 0; w1v := wd; r0v := 0; r1v := rd; ufv := uf; ubv := ub |} T eq_refl eq_refl Hram eq_refl _ l disk Hl) L H).
Qed.
Print Assumptions hrevolve_grammar.
