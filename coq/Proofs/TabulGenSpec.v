(* mixed_steps_tabulation of mixed.py as harness/translate.py renders it: tabul_shape is the translator's output on the pinned tree;
   Gen/TabulGen.v re-translates the current source on every run and proves the result equal to it by conversion.  This file proves
   that tabul_shape and Mixed.tabulate return the same table whenever either of them returns one (for n >= 1): they differ only in
   which exception a failing `assert` raises and in the order the two asserted cells are read, neither of which happens on the
   documented domain (TabSim.tabulate_planC: the table is returned and holds the canonical plan). *)
From Coq Require Import ZArith List Bool Lia.
Require Import Actions Mixed.
Import ListNotations.
Open Scope Z_scope.

Definition tabul_shape (n s : Z) : res table :=
  let schedule : table := repeat (repeat (KNone, 0, -1) (Z.to_nat (s + 1))) (Z.to_nat (n + 1)) in
  do schedule <- loop (Z.to_nat ((s + 1) - 0)) 0 schedule (fun s_i schedule => let schedule := tset schedule 1 s_i (KFR, 1, 1) in Ok schedule); do schedule <- loop (Z.to_nat ((s + 1) - 1)) 1 schedule (fun s_i schedule => do schedule <- loop (Z.to_nat ((n + 1) - 2)) 2 schedule (fun n_i schedule => if (n_i <=? (s_i + 1)) then (let schedule := tset schedule n_i s_i (KAdj, 1, n_i) in Ok schedule) else (if (s_i =? 1) then (let schedule := tset schedule n_i s_i (KIcs, (n_i - 1), (((n_i * (n_i + 1)) / 2) - 1)) in Ok schedule) else (do schedule <- loop (Z.to_nat (n_i - 2)) 2 schedule (fun i schedule => do x1_ <- tget schedule i s_i; if negb ((snd x1_) >? 0) then Err AssertionError else (do x2_ <- tget schedule (n_i - i) (s_i - 1); if negb ((snd x2_) >? 0) then Err AssertionError else (do x3_ <- tget schedule i s_i; do x4_ <- tget schedule (n_i - i) (s_i - 1); let m1 := ((i + (snd x3_)) + (snd x4_)) in do x6_ <- tget schedule n_i s_i; if ((snd x6_) <? 0) then (let schedule := tset schedule n_i s_i (KIcs, i, m1) in Ok schedule) else (do x5_ <- tget schedule n_i s_i; if (m1 <=? (snd x5_)) then (let schedule := tset schedule n_i s_i (KIcs, i, m1) in Ok schedule) else (Ok schedule))))); do x10_ <- tget schedule n_i s_i; if ((snd x10_) <? 0) then (Err RuntimeError) else (do x7_ <- tget schedule (n_i - 1) (s_i - 1); if negb ((snd x7_) >? 0) then Err AssertionError else (do x8_ <- tget schedule (n_i - 1) (s_i - 1); let m1 := (1 + (snd x8_)) in do x9_ <- tget schedule n_i s_i; if (m1 <? (snd x9_)) then (let schedule := tset schedule n_i s_i (KAdj, 1, m1) in Ok schedule) else (Ok schedule)))))); Ok schedule); Ok schedule.


Definition okeq {A} (a b : res A) : Prop := forall x, a = Ok x <-> b = Ok x.
Lemma okeq_refl {A} (a : res A) : okeq a a. Proof. intros x. tauto. Qed.
Lemma okeq_err {A} (e1 e2 : exn) : okeq (@Err A e1) (Err e2). Proof. intros x. split; discriminate. Qed.
Lemma okeq_bind {A B} (a b : res A) (f g : A -> res B) : okeq a b -> (forall x, okeq (f x) (g x)) -> okeq (bind a f) (bind b g).
Proof.
  intros H Hf y. destruct a as [x|e], b as [x'|e']; cbn [bind].
  - assert (x = x') by (assert (Ok x = Ok x') by (apply H; reflexivity); congruence). subst. apply Hf.
  - exfalso. assert (E : @Err A e' = Ok x) by (apply H; reflexivity). discriminate.
  - exfalso. assert (E : @Err A e = Ok x') by (apply H; reflexivity). discriminate.
  - split; discriminate.
Qed.
Lemma okeq_loop {S} (f g : Z -> S -> res S) : (forall i st, okeq (f i st) (g i st)) -> forall cnt lo st, okeq (loop cnt lo st f) (loop cnt lo st g).
Proof. intros H. induction cnt as [|c IH]; intros lo st; cbn [loop]; [apply okeq_refl|]. apply okeq_bind; [apply H|intros; apply IH]. Qed.

Ltac decide_okeq :=
  repeat (cbn [bind];
    match goal with
    | |- okeq ?a ?a => apply okeq_refl
    | |- okeq (Err _) (Err _) => apply okeq_err
    | H : ?t = Ok _ |- context [?t] => rewrite H
    | H : ?t = Err _ |- context [?t] => rewrite H
    | |- context [bind (tget ?t ?a ?b) _] => destruct (tget t a b) eqn:?
    | |- context [if negb ?c then _ else _] => destruct c eqn:?; cbn [negb andb orb]
    | |- context [if ?c then _ else _] => destruct c eqn:?; cbn [negb andb orb]
    end).

Theorem tabul_shape_is_model : forall n s t, 1 <= n -> (tabul_shape n s = Ok t <-> Mixed.tabulate n s = Ok t).
Proof.
  intros n s t Hn. revert t. change (okeq (tabul_shape n s) (Mixed.tabulate n s)). unfold tabul_shape, Mixed.tabulate. cbv zeta.
  destruct (n <? 1) eqn:E; [apply Z.ltb_lt in E; lia|].
  replace (s + 1 - 0) with (s + 1) by lia. replace (s + 1 - 1) with s by lia. replace (n + 1 - 2) with (n - 1) by lia.
  apply okeq_bind; [apply okeq_refl|]. intros t1.
  match goal with |- okeq (bind ?a _) ?b => assert (Hk : okeq a b); [|intros x; specialize (Hk x); destruct a; cbn [bind]; exact Hk] end.
  apply okeq_loop. intros si t2. match goal with |- okeq (bind ?a _) ?b => assert (Hk : okeq a b); [|intros x; specialize (Hk x); destruct a; cbn [bind]; exact Hk] end.
  apply okeq_loop. intros ni t3.
  destruct (ni <=? si + 1); [apply okeq_refl|]. destruct (si =? 1); [apply okeq_refl|].
  apply okeq_bind.
  - apply okeq_loop. intros i t4. decide_okeq.
  - intros t4. decide_okeq.
Qed.
Print Assumptions tabul_shape_is_model.
