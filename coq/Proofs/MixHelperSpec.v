(* optimal_steps_mixed (mixed.py, behind cache_step), in the shape harness/translate.py reads it out of the source: a running
   minimum m = 1 + f(n-1, s-1); for i in range(2, n): m = min(m, i + f(i, s) + f(n-i, s-1)).
   osm_of_memo: whenever the memoised planner mixed_step_memoization(n, s) (Mixed.memo, itself re-translated: Gen/MemoGen.v)
   returns a plan, optimal_steps_mixed(n, s) returns that plan's cost -- for every fuel and argument; osm_value: on the whole
   domain that is MixDP.C n s, the number of forward steps C06_mixed_forward_total establishes for the stream.
   Gen/MixHelperGen.v re-translates the source on every run and proves the translation equal to osm_shape by conversion. *)
From Coq Require Import ZArith List Lia Bool.
Require Import Actions Mixed MixDP MemoGenSpec.
Import ListNotations.
Open Scope Z_scope.

Fixpoint osm_shape (fuel : nat) (n s : Z) : res Z :=
  match fuel with O => Err OutOfFuel | S f =>
  let s := Z.min s (n - 1) in
  if n <=? 0 then Err ValueError else
  if (s <? Z.min 1 (n - 1)) || (s >? n - 1) then Err ValueError else
  if n <=? s + 1 then Ok n else
  if s =? 1 then Ok (n * (n + 1) / 2 - 1) else
  do m <- (do x <- osm_shape f (n - 1) (s - 1); Ok (1 + x));
  do m <- py_for (Z.to_nat (n - 2)) 2
            (fun i m => do v <- (do x <- osm_shape f i s; do y <- osm_shape f (n - i) (s - 1); Ok (i + x + y)); Ok (Z.min m v)) m;
  Ok m
  end.

Definition mo (m : option plan_t) (z : Z) : Z := match m with None => z | Some (_, _, c) => Z.min z c end.

Lemma loops_rel : forall cnt i0 F G m r acc,
  for_i cnt i0 F m = Ok r -> (forall j c, F j = Ok c -> G j = Ok c) ->
  exists v, py_for cnt i0 (fun i m => do v <- G i; Ok (Z.min m v)) acc = Ok v /\ v <= acc /\
            (forall z, mo r z <= mo m z) /\ (forall z, Z.min (mo m z) v = Z.min (mo r z) acc).
Proof.
  induction cnt as [|cnt IH]; intros i0 F G m r acc H HFG; cbn [for_i py_for] in *.
  - injection H as <-. exists acc. split; [reflexivity|]. split; [lia|]. split; intros; lia.
  - destruct (F i0) as [m1|] eqn:E; cbn [bind] in H; [|discriminate]. rewrite (HFG _ _ E). cbn [bind].
    destruct (IH _ _ G _ _ (Z.min acc m1) H HFG) as (v & Hv & Hle & Hmo & Heq).
    exists v. split; [exact Hv|]. split; [lia|].
    assert (Hm' : forall z, mo (match m with None => Some (KIcs, i0, m1) | Some (_, _, c0) => if m1 <=? c0 then Some (KIcs, i0, m1) else m end) z
                            = Z.min (mo m z) m1).
    { intros z. destruct m as [[[k0 j0] c0]|]; cbn [mo]; [|reflexivity]. destruct (Z.leb_spec m1 c0); cbn [mo]; lia. }
    split.
    + intros z. specialize (Hmo z). rewrite Hm' in Hmo. lia.
    + intros z. specialize (Hmo z). specialize (Heq z). rewrite Hm' in Hmo, Heq. lia.
Qed.

Theorem osm_of_memo : forall f n s p, memo f n s = Ok p -> osm_shape f n s = Ok (snd p).
Proof.
  induction f as [|f IH]; intros n s p H; [discriminate|]. cbn [memo osm_shape] in *. cbn zeta in *.
  set (s' := Z.min s (n - 1)) in *.
  destruct (n <=? 0); [discriminate|]. destruct ((s' <? Z.min 1 (n - 1)) || (s' >? n - 1)) eqn:Ev; [discriminate|].
  apply orb_false_iff in Ev. destruct Ev as [Ev1 Ev2]. apply Z.ltb_ge in Ev1. rewrite Z.gtb_ltb in Ev2. apply Z.ltb_ge in Ev2.
  destruct (Z.eqb_spec n 1) as [E1|E1].
  { injection H as <-. subst n. replace (1 <=? s' + 1) with true by (symmetry; apply Z.leb_le; unfold s' in *; lia). reflexivity. }
  destruct (n <=? s' + 1); [injection H as <-; reflexivity|].
  destruct (s' =? 1); [injection H as <-; reflexivity|].
  destruct (for_i _ 2 _ None) as [r|] eqn:Ef; cbn [bind] in H; [|discriminate].
  destruct r as [[[k i] c0]|]; [|discriminate].
  destruct (memo f (n - 1) (s' - 1)) as [a|] eqn:Ea; cbn [bind] in H; [|discriminate].
  rewrite (IH _ _ _ Ea). cbn [bind].
  destruct (loops_rel _ _ _ (fun i => do x <- osm_shape f i s'; do y <- osm_shape f (n - i) (s' - 1); Ok (i + x + y)) _ _ (1 + snd a) Ef)
    as (v & Hv & Hle & _ & Heq).
  { intros j c Hj. cbv beta in Hj. destruct (memo f j s') as [x|] eqn:Ex; cbn [bind] in Hj; [|discriminate].
    destruct (memo f (n - j) (s' - 1)) as [y|] eqn:Ey; cbn [bind] in Hj; [|discriminate].
    rewrite (IH _ _ _ Ex), (IH _ _ _ Ey). cbn [bind]. exact Hj. }
  rewrite Hv. cbn [bind]. f_equal.
  specialize (Heq (Z.max v (Z.max c0 (1 + snd a)))). cbn [mo] in Heq.
  destruct (Z.ltb_spec (1 + snd a) c0); injection H as <-.
  - change (v = 1 + snd a). lia.
  - change (v = c0). lia.
Qed.

Theorem osm_value f n s : 1 <= n -> (Z.to_nat n <= f)%nat -> Z.min 1 (n - 1) <= s -> osm_shape f n s = Ok (C n s).
Proof. intros Hn Hf Hs. unfold C. apply osm_of_memo. apply memo_planC; assumption. Qed.
Theorem osm_rejects f n s : n <= 0 \/ s < Z.min 1 (n - 1) -> osm_shape (S f) n s = Err ValueError.
Proof.
  intros H. cbn [osm_shape]. destruct (Z.leb_spec n 0); [reflexivity|].
  destruct H as [H|H]; [lia|].
  replace (Z.min s (n - 1) <? Z.min 1 (n - 1)) with true by (symmetry; apply Z.ltb_lt; lia). reflexivity.
Qed.
Print Assumptions osm_of_memo.
Print Assumptions osm_value.
Print Assumptions osm_rejects.
