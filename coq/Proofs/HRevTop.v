(* HRevolve, unconditional: the constructor is total on the documented domain (HRevTotal), so the run theorems of HRevRun
   hold on the whole documented domain: max_n >= 1, snapshots_in_ram >= 0 (>= 1 when max_n >= 2), snapshots_on_disk >= 0, every cost vector. *)
From Coq Require Import ZArith List Lia Bool.
Require Import Actions Ops HRevSeq RevConv Exec Sched RunFacts DiskBridge3 DiskRun HRevRun HRevTotal.
Import ListNotations.
Open Scope Z_scope.

Theorem hrevolve_sequence_total N ram disk uf ub wd rd : 1 <= N -> 0 <= ram -> (2 <= N -> 1 <= ram) -> 0 <= disk -> exists L, sequence KHRevolve N ram disk uf ub wd rd = Ok L.
Proof. intros HN Hram Hram1 Hd. exact (hrevolve_total (N - 1) ram disk wd rd uf ub ltac:(lia) Hram ltac:(lia) Hd). Qed.

Theorem hrevolve_run_total N ram disk uf ub wd rd k : 1 <= N -> 0 <= ram -> (2 <= N -> 1 <= ram) -> 0 <= disk ->
  exists o0 m ls, run_case (PRev KHRevolve N ram disk uf ub wd rd) (disk_xparams N ram) (repeat Next k) = Ok (o0, m, ls) /\
    no_raise ls /\ DiskBridge3.leftover_or_ok m.
Proof.
  intros HN Hram Hram1 Hd. destruct (hrevolve_sequence_total N ram disk uf ub wd rd HN Hram Hram1 Hd) as [L HL].
  exact (hrevolve_run N ram disk uf ub wd rd L k HN Hram Hram1 HL).
Qed.
Print Assumptions hrevolve_run_total.

Theorem hrevolve_terminates_total N ram disk uf ub wd rd : 1 <= N -> 0 <= ram -> (2 <= N -> 1 <= ram) -> 0 <= disk ->
  exists L K, sequence KHRevolve N ram disk uf ub wd rd = Ok L /\ forall k, (K <= k)%nat ->
  let '(s', m, ls) := run_ops (disk_xparams N ram) {| ob := ORevF KHRevolve N ram disk (init_r L); started := false |} mon0 (repeat Next k) in
  no_raise ls /\ DiskBridge3.leftover_or_ok m /\ is_exhausted s' = true.
Proof.
  intros HN Hram Hram1 Hd. destruct (hrevolve_sequence_total N ram disk uf ub wd rd HN Hram Hram1 Hd) as [L HL].
  destruct (hrevolve_terminates N ram disk uf ub wd rd L HN Hram Hram1 HL) as [K HK]. exists L, K. split; [exact HL|exact HK].
Qed.
Print Assumptions hrevolve_terminates_total.
