(* C18, first sentence, for the three basic online classes under EVERY history: whatever the order of requests, finalize
   calls (valid or rejected) and Run loops, every action that NoneCheckpointSchedule, SingleMemoryStorageSchedule or
   SingleDiskStorageSchedule yields is well formed (integral 0 <= n0 < n1 for Forward / Reverse, storage consistent with what
   is written, RAM/DISK source and a step >= 0 for Copy / Move). *)
From Coq Require Import ZArith List Lia Bool.
Require Import Actions Online Exec Sched RunFacts.
Import ListNotations.
Open Scope Z_scope.

Definition wf_action (a : action) : bool :=
  match a with
  | Forward n0 n1 wi wa sg => (0 <=? n0) && (n0 <? n1) && negb ((is_cp sg && negb (wi || wa)) || (st_eqb sg NONE && (wi || wa)))
  | Reverse n1 n0 _ => (0 <=? n0) && (n0 <? n1)
  | Copy n src _ | Move n src _ => is_cp src && (0 <=? n)
  | EndForward | EndReverse => true
  end.
(* the executor never reports E_malformed for such an action *)
Lemma wf_not_malformed p kn ex x a : wf_action a = true -> check p kn ex x a <> Some E_malformed.
Proof.
  destruct a as [n0 n1 wi wa sg|n1 n0 c|n src dst|n src dst| |]; cbn [wf_action check]; intros H.
  - apply andb_prop in H as [H1 H2]. rewrite H1, H2. cbn [first_err chk app]. 
    repeat match goal with |- context [chk ?b ?e] => destruct b; cbn [chk first_err app] end; try discriminate.
    unfold can_put. repeat match goal with |- context [if ?b then _ else _] => destruct b end; cbn [first_err chk app]; try discriminate;
    repeat match goal with |- context [chk ?b ?e] => destruct b; cbn [chk first_err app] end; discriminate.
  - rewrite H. cbn [first_err chk]. repeat match goal with |- context [chk ?b ?e] => destruct b; cbn [chk first_err app] end; discriminate.
  - rewrite H. cbn [first_err chk app]. repeat match goal with |- context [chk ?b ?e] => destruct b; cbn [chk first_err app] end; try discriminate.
    destruct (lookup n (sel x src)) as [[? ?]|]; destruct dst; cbn [first_err chk app];
    repeat match goal with |- context [chk ?b ?e] => destruct b; cbn [chk first_err app] end; try discriminate;
    unfold can_put; repeat match goal with |- context [if ?b then _ else _] => destruct b end; cbn [first_err chk app]; try discriminate;
    repeat match goal with |- context [chk ?b ?e] => destruct b; cbn [chk first_err app] end; discriminate.
  - rewrite H. cbn [first_err chk app]. repeat match goal with |- context [chk ?b ?e] => destruct b; cbn [chk first_err app] end; try discriminate.
    destruct (lookup n (sel x src)) as [[? ?]|]; destruct dst; cbn [first_err chk app];
    repeat match goal with |- context [chk ?b ?e] => destruct b; cbn [chk first_err app] end; try discriminate;
    unfold can_put; repeat match goal with |- context [if ?b then _ else _] => destruct b end; cbn [first_err chk app]; try discriminate;
    repeat match goal with |- context [chk ?b ?e] => destruct b; cbn [chk first_err app] end; discriminate.
  - repeat match goal with |- context [chk ?b ?e] => destruct b; cbn [chk first_err app] end; discriminate.
  - repeat match goal with |- context [chk ?b ?e] => destruct b; cbn [chk first_err app] end; discriminate.
Qed.

Definition wf_line (l : line) : Prop := match l with LNext (Yield a) _ => wf_action a = true | _ => True end.

(* ---- the rule: an invariant kept by next and finalize, under which next yields well-formed actions only ---- *)
Section GEN.
Variable I : sched -> Prop.
Hypothesis Hn : forall s, I s -> I (fst (Sched.next s)) /\ match snd (Sched.next s) with Yield a => wf_action a = true | _ => True end.
Hypothesis Hf : forall kk s, I s -> I (fst (Sched.finalize kk s)).
Lemma loop_wf p : forall lim k s m, I s -> let '(s', _, ls) := run_loop p lim k s m in I s' /\ Forall wf_line ls.
Proof.
  induction lim as [|lim IH]; intros k s m HI; cbn [run_loop]; [split; [exact HI|constructor]|].
  destruct (Hn s HI) as [HI' Hw]. destruct (Sched.next s) as [s1 o]. cbn [fst snd] in *. destruct o as [a| |e].
  - destruct (_ <=? 0); [split; [exact HI'|constructor; [exact Hw|constructor]]|].
    specialize (IH (match a with EndReverse => k - 1 | _ => k end) s1 (mon_step p s1 a m) HI').
    destruct (run_loop p lim _ s1 _) as [[s2 m2] l2]. destruct IH as [A B]. split; [exact A|constructor; [exact Hw|exact B]].
  - split; [exact HI'|constructor; [exact Logic.I|constructor]].
  - split; [exact HI'|constructor; [exact Logic.I|constructor]].
Qed.
Lemma ops_wf p : forall ops s m, I s -> let '(s', _, ls) := run_ops p s m ops in I s' /\ Forall wf_line ls.
Proof.
  induction ops as [|o ops IH]; intros s m HI; cbn [run_ops]; [split; [exact HI|constructor]|]. destruct o as [|kk|kk lim].
  - destruct (Hn s HI) as [HI' Hw]. destruct (Sched.next s) as [s1 o]. cbn [fst snd] in *.
    specialize (IH s1 (match o with Yield a => mon_step p s1 a m | _ => m end) HI').
    destruct (run_ops p s1 _ ops) as [[s2 m2] l2]. destruct IH as [A B]. split; [exact A|constructor; [destruct o; [exact Hw|exact Logic.I..]|exact B]].
  - pose proof (Hf kk s HI) as HI'. destruct (Sched.finalize kk s) as [s1 e]. cbn [fst] in HI'. specialize (IH s1 m HI').
    destruct (run_ops p s1 m ops) as [[s2 m2] l2]. destruct IH as [A B]. split; [exact A|constructor; [exact Logic.I|exact B]].
  - pose proof (loop_wf p lim kk s m HI) as HL. destruct (run_loop p lim kk s m) as [[s1 m1] l1]. destruct HL as [HI1 HL].
    specialize (IH s1 m1 HI1). destruct (run_ops p s1 m1 ops) as [[s2 m2] l2]. destruct IH as [A B]. split; [exact A|apply Forall_app; auto].
Qed.
End GEN.

(* ---- the invariant of the three basic classes ---- *)
Definition basic (kl : kls) : Prop := match kl with KTwo _ _ _ _ => False | _ => True end.
Definition BInv (o : Online.st) : Prop :=
  basic (Online.k o) /\ 0 <= Online.n_ (Online.b o) /\
  (forall m, Online.max_n_ (Online.b o) = Some m -> 1 <= m) /\
  match Online.pcv o with PDiskAfterLoad n1 n0 => n1 = n0 + 1 /\ 0 <= n0 | _ => True end.
Definition SI (s : sched) : Prop := exists o, ob s = OOnline o /\ BInv o.

Lemma maxsize_pos : 0 < maxsize. Proof. reflexivity. Qed.

Lemma resume_binv : forall fuel o, BInv o ->
  BInv (fst (Online.resume fuel o)) /\ match snd (Online.resume fuel o) with Yield a => wf_action a = true | _ => True end.
Proof.
  induction fuel as [|f IH]; intros o HI; [cbn; auto|].
  destruct HI as (Hk & Hn & Hm & Hpc). destruct o as [kl pc0 [n r mo] sn ex]. cbn [Online.k Online.pcv Online.b Online.n_ Online.r_ Online.max_n_] in *.
  pose proof maxsize_pos as Hms.
  destruct kl as [| |mv|? ? ? ?]; [| | |contradiction]; destruct pc0; cbn [Online.resume Online.k Online.pcv Online.b Online.n_ Online.r_ Online.max_n_ set_pc upd].
  all: try (destruct mo as [m|]; [pose proof (Hm m eq_refl)|]).
  all: try (apply IH; unfold BInv; cbn; repeat split; auto; intros; discriminate).
  all: repeat match goal with |- context [if ?b then _ else _] => let E := fresh "E" in destruct b eqn:E end.
  all: cbn [fst snd]; unfold BInv; cbn [Online.k Online.pcv Online.b Online.n_ Online.r_ Online.max_n_ wf_action is_cp st_eqb negb andb orb basic].
  all: try (repeat split; auto; fail).
  all: rewrite ?Z.ltb_lt, ?Z.eqb_eq, ?Z.gtb_ltb in *.
  all: repeat split; auto; try lia; try (intros ? [= <-]; lia); try (intros; discriminate).
  all: try (apply andb_true_intro; split; [apply Z.leb_le|apply Z.ltb_lt]; lia).
  all: try (apply Z.leb_le; lia).
  all: unfold upd; cbn [Online.k Online.pcv Online.b Online.n_ Online.r_ Online.max_n_]; lia.
Qed.

Lemma next_binv o : BInv o -> BInv (fst (Online.next o)) /\ match snd (Online.next o) with Yield a => wf_action a = true | _ => True end.
Proof.
  intros HI. unfold Online.next. destruct (resume_binv 4 o HI) as [A B]. destruct (Online.resume 4 o) as [o' out]. cbn [fst snd] in *.
  destruct out; cbn [fst snd]; auto; (split; [|exact Logic.I]); destruct A as (A1 & A2 & A3 & A4); unfold BInv, set_pc; cbn; auto.
Qed.
Lemma fin_binv kk o : BInv o -> BInv {| Online.k := Online.k o; Online.pcv := Online.pcv o; Online.b := fst (Online.finalize kk (Online.b o)); Online.snaps := Online.snaps o; Online.exh := Online.exh o |}.
Proof.
  intros (A1 & A2 & A3 & A4). unfold BInv, Online.finalize. cbn [Online.k Online.pcv Online.b].
  destruct (Z.ltb_spec kk 1); cbn [fst]; [auto|]. destruct (Online.max_n_ (Online.b o)) as [m|] eqn:Em.
  - destruct (_ || _); cbn [fst]; rewrite ?Em; auto.
  - destruct (Online.n_ (Online.b o) >=? kk); cbn [fst Online.n_ Online.max_n_]; rewrite ?Em; repeat split; auto; try lia; try (intros ? [= <-]; lia); intros; discriminate.
Qed.

Theorem basic_wf_every_history pr p ops o0 m ls : pr = PNone \/ pr = PMem \/ (exists mv, pr = PDisk mv) ->
  run_case pr p ops = Ok (o0, m, ls) -> Forall wf_line ls.
Proof.
  intros Hpr Hrun. unfold run_case in Hrun. destruct (Sched.construct pr) as [s|e] eqn:Ec; [|discriminate]. cbn [bind] in Hrun.
  destruct (run_ops p s mon0 ops) as [[s' m'] ls'] eqn:Er. injection Hrun as _ _ <-.
  assert (HI0 : SI s).
  { destruct Hpr as [->|[->|[mv ->]]]; cbn in Ec; injection Ec as <-; eexists; (split; [reflexivity|]); unfold BInv; cbn; repeat split; auto; try lia; intros; discriminate. }
  pose proof (ops_wf SI
    ltac:(intros sc (o & Ho & HB); unfold Sched.next; rewrite Ho; destruct (next_binv o HB) as [A B]; destruct (Online.next o) as [o' out]; cbn [fst snd] in *;
          split; [exists o'; split; [reflexivity|exact A]|exact B])
    ltac:(intros kk sc (o & Ho & HB); unfold Sched.finalize; rewrite Ho; pose proof (fin_binv kk o HB) as A; destruct (Online.finalize kk (Online.b o)) as [b' e];
          cbn [fst] in *; eexists; split; [reflexivity|exact A])
    p ops s mon0 HI0) as H.
  rewrite Er in H. exact (proj2 H).
Qed.
Print Assumptions basic_wf_every_history.
