(* C05 for Revolve: the step-count DP of get_opt_0_table (Opt0Table.P, minimum over first splits 1 .. l-1) is the
   Griewank-Walther optimum E (l+1) m (BinomDP.E, the model of optimal_extra_steps); hence Revolve and Multistage carry out the
   same number of forward steps  N + E N s = TC N s. *)
From Coq Require Import ZArith List Lia Bool.
Require Import Actions BinomDef Binom2 NAdvance NAdv GW2 BinomDP Inst Opt0Table.
Open Scope Z_scope.

Lemma beta_ge_t s t : (1 <= s)%nat -> Z.of_nat t + 1 <= beta s t.
Proof.
  intros Hs. induction t as [|t IH]; [rewrite beta_0_r; lia|].
  destruct s as [|s]; [lia|]. rewrite beta_SS. pose proof (beta_mono_s_le 0 s (S t) ltac:(lia)) as H. rewrite beta_0_l in H. lia.
Qed.
Lemma seg_exists s n : (1 <= s)%nat -> 1 <= n -> exists t, betam s t <= n <= beta s t.
Proof.
  intros Hs Hn.
  assert (H : forall T, n <= beta s T -> exists t, betam s t <= n <= beta s t).
  { induction T as [|T IH]; intros HT.
    - exists 0%nat. cbn [betam]. lia.
    - destruct (Z.le_gt_cases n (beta s T)) as [Hle|Hgt]; [apply IH; exact Hle|]. exists (S T). cbn [betam]. lia. }
  apply (H (Z.to_nat n)). pose proof (beta_ge_t s (Z.to_nat n) Hs). lia.
Qed.

Section GWREV.
Variable tr : traj.
Notation advC := (Inst.advC tr).
Notation TC := (Inst.TC tr).

Lemma TC_E n k : (1 <= n)%nat -> (1 <= k)%nat -> TC (Z.of_nat n) (Z.of_nat k) = Z.of_nat n + E n k.
Proof.
  intros Hn Hk. destruct (Nat.eq_dec n 1) as [->|Hn1]; [rewrite E_1; reflexivity|].
  destruct (seg_exists (Nat.min k (n - 1)) (Z.of_nat n) ltac:(lia) ltac:(lia)) as [t Ht].
  exact (proj1 (C05_chain tr n k t ltac:(lia) Hk Ht)).
Qed.

Lemma advC_le n k : 3 <= n -> 2 <= k -> advC n k <= n - 2.
Proof.
  intros Hn Hk. destruct (n_advance_spec n k tr ltac:(lia) ltac:(lia)) as (a & Ha & _ & Hr & _ & Hfull & Hreg).
  unfold Inst.advC. rewrite Ha. set (s := Z.max (Z.min k (n - 1)) 1) in *.
  destruct (Z.eq_dec s (n - 1)) as [Es|Es].
  - rewrite (Hfull ltac:(lia) Es ltac:(lia)). lia.
  - destruct (Hreg ltac:(lia)) as (sn & tn & Hsn & Htn & _ & (_ & Hna & _)).
    assert (H2 : 2 <= beta (sn - 1) (tn - 1)).
    { pose proof (beta_mono_s_le 1 (sn - 1) (tn - 1) ltac:(lia)). pose proof (beta_mono_t_le 1 1 (tn - 1) ltac:(lia)).
      change (beta 1 1) with 2 in *. lia. }
    lia.
Qed.

(* E along the schedule's own split *)
Lemma E_adv n k : (3 <= n)%nat -> (2 <= k)%nat ->
  let a := advC (Z.of_nat n) (Z.of_nat k) in E n k = a + E (Z.to_nat (Z.of_nat n - a)) (k - 1) + E (Z.to_nat a) k.
Proof.
  intros Hn Hk a.
  pose proof (Inst.advC_range tr (Z.of_nat n) (Z.of_nat k) ltac:(lia) ltac:(lia)) as Ha. fold a in Ha.
  pose proof (TC_E n k ltac:(lia) ltac:(lia)) as H0.
  rewrite (Inst.TC_rec tr (Z.of_nat n) (Z.of_nat k)) in H0 by lia. fold a in H0.
  pose proof (TC_E (Z.to_nat (Z.of_nat n - a)) (k - 1) ltac:(lia) ltac:(lia)) as H1.
  pose proof (TC_E (Z.to_nat a) k ltac:(lia) ltac:(lia)) as H2.
  rewrite Z2Nat.id in H1, H2 by lia. rewrite Nat2Z.inj_sub in H1 by lia. change (Z.of_nat 1) with 1 in H1. lia.
Qed.
End GWREV.

Lemma EC_min n s s' : Z.min s (n - 1) = Z.min s' (n - 1) -> EC n s = EC n s'.
Proof. intros H. rewrite (EC_clampZ n s), (EC_clampZ n s'), H. reflexivity. Qed.

Theorem P_eq_E : forall l m, (1 <= m)%nat -> P (Z.of_nat m) (Z.of_nat l) = E (S l) m.
Proof.
  induction l as [l IH] using lt_wf_ind. intros m Hm.
  destruct l as [|l]; [rewrite P_0, E_1; reflexivity|].
  destruct (Nat.eq_dec m 1) as [->|Hm1].
  { pose proof (P_c1 (Z.of_nat (S l)) ltac:(lia)). pose proof (E_s1 (S (S l)) ltac:(lia)). change (Z.of_nat 1) with 1 in *. lia. }
  destruct l as [|l].
  { change (Z.of_nat 1) with 1. rewrite P_1. rewrite (E_clamp 2 m) by lia. pose proof (E_s1 2 ltac:(lia)). change (Z.of_nat 2) with 2 in *. cbn [Nat.sub]. lia. }
  set (L := S (S l)). set (n := S L).
  apply Z.le_antisymm.
  - (* P <= E, through the schedule's split *)
    pose proof (E_adv TMaximum n m ltac:(unfold n, L; lia) ltac:(lia)) as HE. cbn zeta in HE.
    set (a := Inst.advC TMaximum (Z.of_nat n) (Z.of_nat m)) in *.
    pose proof (Inst.advC_range TMaximum (Z.of_nat n) (Z.of_nat m) ltac:(unfold n, L; lia) ltac:(lia)) as Ha. fold a in Ha.
    pose proof (advC_le TMaximum (Z.of_nat n) (Z.of_nat m) ltac:(unfold n, L; lia) ltac:(lia)) as Ha2. fold a in Ha2.
    pose proof (P_le (Z.of_nat m) (Z.of_nat L) a ltac:(lia) ltac:(unfold L; lia) ltac:(unfold n, L in *; lia)) as HP.
    replace (Z.of_nat m - 1) with (Z.of_nat (m - 1)) in HP by lia.
    replace (Z.of_nat L - a) with (Z.of_nat (Z.to_nat (Z.of_nat L - a))) in HP by (unfold n, L in *; lia).
    replace (a - 1) with (Z.of_nat (Z.to_nat (a - 1))) in HP by lia.
    rewrite (IH (Z.to_nat (Z.of_nat L - a)) ltac:(unfold n, L in *; lia) (m - 1)%nat ltac:(lia)) in HP.
    rewrite (IH (Z.to_nat (a - 1)) ltac:(unfold n, L in *; lia) m ltac:(lia)) in HP.
    replace (S (Z.to_nat (Z.of_nat L - a))) with (Z.to_nat (Z.of_nat n - a)) in HP by (unfold n, L in *; lia).
    replace (S (Z.to_nat (a - 1))) with (Z.to_nat a) in HP by lia.
    fold n. lia.
  - (* E <= P: every split of P is a split of E *)
    destruct (P_ex (Z.of_nat m) (Z.of_nat L) ltac:(lia) ltac:(unfold L; lia)) as (j & Hj & ->).
    replace (Z.of_nat m - 1) with (Z.of_nat (m - 1)) by lia.
    replace (Z.of_nat L - j) with (Z.of_nat (Z.to_nat (Z.of_nat L - j))) by lia.
    replace (j - 1) with (Z.of_nat (Z.to_nat (j - 1))) by lia.
    rewrite (IH (Z.to_nat (Z.of_nat L - j)) ltac:(lia) (m - 1)%nat ltac:(lia)).
    rewrite (IH (Z.to_nat (j - 1)) ltac:(lia) m ltac:(lia)).
    set (s := Nat.min m (n - 1)).
    assert (HEs : E n m = E n s) by (unfold E; apply EC_min; unfold s; lia).
    fold n. rewrite HEs.
    pose proof (E_le n s (Z.to_nat j) ltac:(unfold s, n, L; lia) ltac:(unfold s; lia) ltac:(unfold n, L in *; lia)) as Hle.
    rewrite Z2Nat.id in Hle by lia.
    assert (H1 : E (Z.to_nat j) s = E (S (Z.to_nat (j - 1))) m).
    { replace (S (Z.to_nat (j - 1))) with (Z.to_nat j) by lia. unfold E. apply EC_min. unfold s, n, L in *. lia. }
    assert (H2 : E (n - Z.to_nat j) (s - 1) = E (S (Z.to_nat (Z.of_nat L - j))) (m - 1)).
    { replace (S (Z.to_nat (Z.of_nat L - j))) with (n - Z.to_nat j)%nat by (unfold n, L in *; lia). unfold E. apply EC_min. unfold s, n, L in *. lia. }
    lia.
Qed.
Print Assumptions P_eq_E.
