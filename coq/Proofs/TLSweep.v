(* C13, first clause: before finalisation TwoLevelCheckpointSchedule emits exactly
   Forward(k * period, (k+1) * period, write_ics = True, write_adj_deps = False, DISK) for k = 0, 1, 2, ... -- for ever. *)
From Coq Require Import ZArith List Lia Bool.
Require Import Actions NAdvance Multistage Online.
Import ListNotations.
Open Scope Z_scope.

Definition sweep_obs (P : Z) (i : nat) : obs :=
  ONext (Yield (Forward (Z.of_nat i * P) ((Z.of_nat i + 1) * P) true false DISK)) ((Z.of_nat i + 1) * P) 0 None false.

Lemma sweep_from P bs bst tr : forall j i0 pc0 st, (pc0 = PStart \/ pc0 = PFwd) ->
  st = {| k := KTwo P bs bst tr; pcv := pc0; b := {| n_ := Z.of_nat i0 * P; r_ := 0; max_n_ := None |}; snaps := []; exh := false |} ->
  run_ops st (repeat Next j) = map (sweep_obs P) (seq i0 j).
Proof.
  induction j as [|j IH]; intros i0 pc0 st Hpc ->; [reflexivity|]. cbn [repeat run_ops seq map].
  assert (Hn : Online.next {| k := KTwo P bs bst tr; pcv := pc0; b := {| n_ := Z.of_nat i0 * P; r_ := 0; max_n_ := None |}; snaps := []; exh := false |} =
               ({| k := KTwo P bs bst tr; pcv := PFwd; b := {| n_ := Z.of_nat i0 * P + P; r_ := 0; max_n_ := None |}; snaps := []; exh := false |},
                Yield (Forward (Z.of_nat i0 * P) (Z.of_nat i0 * P + P) true false DISK))).
  { destruct Hpc as [-> | ->]; reflexivity. }
  rewrite Hn. cbn [b n_ r_ max_n_ Online.is_exhausted k]. unfold sweep_obs at 1.
  replace ((Z.of_nat i0 + 1) * P) with (Z.of_nat i0 * P + P) by lia. f_equal.
  apply (IH (S i0) PFwd); [right; reflexivity|]. f_equal. f_equal. lia.
Qed.

Theorem twolevel_sweep P bs bst tr st j : Online.construct (KTwo P bs bst tr) = Ok st ->
  run_ops st (repeat Next j) = map (sweep_obs P) (seq 0 j).
Proof.
  intros Hc. cbn [Online.construct] in Hc. destruct (P <? 1); [discriminate|].
  apply (sweep_from P bs bst tr j 0%nat PStart); [left; reflexivity|].
  destruct bst; try discriminate; injection Hc as <-; reflexivity.
Qed.
Print Assumptions twolevel_sweep.
