(* MultistageCheckpointSchedule, end to end on the extracted model: for every N, every RAM/DISK split, both trajectories
   and any number of requests, the client run against the reference executor with the declared budgets meets no executor
   error (C01 C02 C03 C04 C12 C18), n / r / max_n agree with the execution (C08) and nothing raises. *)
From Coq Require Import ZArith List Lia Bool.
Require Import Actions NAdvance Multistage Exec Sched ExecFacts RunFacts AllocProofs MSBridge.
Require Inst.
Import ListNotations.
Open Scope Z_scope.

Definition ms_params (N ram disk : Z) : xparams :=
  {| xN := N; keep_all_deps := false; budget_ram := Some (Z.min ram (N - 1)); budget_disk := Some (Z.min disk (N - 1)) |}.

Theorem multistage_run N ram disk tj c k : 1 <= N -> 0 <= ram -> 0 <= disk -> (2 <= N -> 1 <= ram + disk) ->
  Multistage.construct N ram disk tj = Ok c ->
  exists o0 m ls, run_case (PMulti N ram disk tj) (ms_params N ram disk) (repeat Next k) = Ok (o0, m, ls) /\ mon_ok m /\ no_raise ls /\
     (* forward steps executed once the schedule is exhausted: the work of the binomial recursion *)
     (forall s1, fst (fst (run_ops (ms_params N ram disk) {| ob := OMulti c Multistage.init (count_st RAM (labels c)) (count_st DISK (labels c)); started := false |} mon0 (repeat Next k))) = s1 ->
        is_exhausted s1 = true -> fwd_total (cnt (mx m)) = Inst.TC tj N (total c)).
Proof.
  intros HN Hram Hdisk Hunits Hc.
  destruct (construct_labels N ram disk tj c HN Hram Hdisk Hc) as (HmaxN & Htr & Hlab & Htot & Hcr & Hcd).
  unfold run_case, Sched.construct. rewrite Hc. cbn [bind].
  pose proof (multistage_cfg_run c (Z.min ram (N - 1)) (Z.min disk (N - 1))) as H.
  rewrite HmaxN in H. specialize (H HN).
  assert (HS : 2 <= N -> 1 <= total c) by (intros; rewrite Htot; lia).
  specialize (H HS Hlab Hcr Hcd (count_st RAM (labels c)) (count_st DISK (labels c)) k).
  unfold pms in H. rewrite HmaxN in H. unfold msched in H. unfold ms_params.
  destruct (run_ops _ _ mon0 (repeat Next k)) as [[s' m'] ls]. destruct H as (H1 & H2 & H3).
  eexists _, _, _. split; [reflexivity|]. split; [assumption|]. split; [assumption|].
  intros s1 <-. cbn [fst]. rewrite <- Htr. exact H3.
Qed.
Print Assumptions multistage_run.

(* C09 on the same runs: is_running is True after every request and is_exhausted becomes True exactly with EndReverse
   (and stays True on the StopIterations after it). *)
Theorem multistage_flags N ram disk tj c k : 1 <= N -> 0 <= ram -> 0 <= disk -> (2 <= N -> 1 <= ram + disk) ->
  Multistage.construct N ram disk tj = Ok c ->
  exists o0 m ls, run_case (PMulti N ram disk tj) (ms_params N ram disk) (repeat Next k) = Ok (o0, m, ls) /\
     Forall (line_fl (flag_rule is_endrev)) ls.
Proof.
  intros HN Hram Hdisk Hunits Hc.
  destruct (construct_labels N ram disk tj c HN Hram Hdisk Hc) as (HmaxN & Htr & Hlab & Htot & Hcr & Hcd).
  unfold run_case, Sched.construct. rewrite Hc. cbn [bind].
  pose proof (multistage_cfg_flags c (Z.min ram (N - 1)) (Z.min disk (N - 1))) as H.
  rewrite HmaxN in H. specialize (H HN).
  assert (HS : 2 <= N -> 1 <= total c) by (intros; rewrite Htot; lia).
  specialize (H HS Hlab Hcr Hcd (count_st RAM (labels c)) (count_st DISK (labels c)) k).
  unfold pms in H. rewrite HmaxN in H. unfold msched in H. unfold ms_params.
  destruct (run_ops _ _ mon0 (repeat Next k)) as [[s' m'] ls].
  eexists _, _, _. split; [reflexivity|]. exact H.
Qed.
Print Assumptions multistage_flags.
