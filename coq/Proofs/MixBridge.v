(* MixedCheckpointSchedule: the extracted machine (Model/Mixed.v, either planner path) driven by the client against the
   reference executor.  The invariant + cost potential of MixInv.v is transported along two bridges, as in MSBridge.v. *)
From Coq Require Import ZArith List Lia Bool.
Require Import Actions Mixed MixDP Exec Sched ExecFacts RunFacts.
Require MixInv MemoCoh TabSim.
Import ListNotations.
Open Scope Z_scope.

(* ---------- the planner of MixDP.v as the abstract planner of MixInv.v ---------- *)
Definition k3 (k : kind) : MixInv.kind := match k with KAdj => MixInv.KAdj | KIcs => MixInv.KIcs | _ => MixInv.KFR end.
Definition plan3 (m k : Z) : MixInv.kind * Z := if m =? 1 then (MixInv.KFR, 1) else (k3 (fst (plan m k)), snd (plan m k)).
Definition C3 (m k : Z) : Z := if m =? 1 then 1 else C m k.

Lemma plan3_1 k : plan3 1 k = (MixInv.KFR, 1). Proof. reflexivity. Qed.
Lemma C3_1 k : C3 1 k = 1. Proof. reflexivity. Qed.
Lemma C3_C m k : 1 <= m -> (1 <= k \/ m = 1 /\ 0 <= k) -> C3 m k = C m k.
Proof.
  intros Hm Hk. unfold C3. destruct (Z.eqb_spec m 1) as [->|]; [|reflexivity].
  symmetry. apply (proj2 (plan_1 k ltac:(lia))).
Qed.
Lemma plan3_ge2 m k : 2 <= m -> 1 <= k ->
  (fst (plan3 m k) = MixInv.KIcs /\ 2 <= snd (plan3 m k) <= m - 1 /\ (2 <= k \/ snd (plan3 m k) = m - 1)) \/
  (fst (plan3 m k) = MixInv.KAdj /\ snd (plan3 m k) = 1 /\ (2 <= k \/ m = 2)).
Proof.
  intros Hm Hk. unfold plan3. destruct (Z.eqb_spec m 1); [lia|]. cbn [fst snd].
  destruct (plan_ge2 m k Hm Hk) as [(E & H)|(E & H)]; rewrite E; cbn [k3]; auto.
Qed.
Lemma plan3_2 k : 1 <= k -> fst (plan3 2 k) = MixInv.KAdj.
Proof. intros Hk. unfold plan3. cbn [Z.eqb Pos.eqb fst]. rewrite (plan_2 k Hk). reflexivity. Qed.
Lemma fst_plan3 m k : 2 <= m -> 1 <= k ->
  (fst (plan3 m k) = MixInv.KIcs <-> fst (plan m k) = KIcs) /\ (fst (plan3 m k) = MixInv.KAdj <-> fst (plan m k) = KAdj) /\ snd (plan3 m k) = snd (plan m k).
Proof.
  intros Hm Hk. unfold plan3. destruct (Z.eqb_spec m 1); [lia|]. cbn [fst snd].
  destruct (plan_ge2 m k Hm Hk) as [(E & _)|(E & _)]; rewrite E; cbn [k3]; repeat split; auto; discriminate.
Qed.
Lemma C3_ics m k : 2 <= m -> 1 <= k -> fst (plan3 m k) = MixInv.KIcs ->
  C3 m k = snd (plan3 m k) + C3 (m - snd (plan3 m k)) (k - 1) + C3 (snd (plan3 m k)) k.
Proof.
  intros Hm Hk E. destruct (fst_plan3 m k Hm Hk) as (H1 & _ & H3). rewrite H3.
  destruct (plan_ge2 m k Hm Hk) as [(E1 & Hr & Hk2)|(E1 & _)]; [|apply H1 in E; congruence].
  rewrite (C3_C m k) by lia. rewrite (C_ics m k Hm Hk E1).
  rewrite (C3_C (snd (plan m k)) k) by lia.
  rewrite (C3_C (m - snd (plan m k)) (k - 1)); [reflexivity|lia|].
  destruct Hk2 as [Hk2|Hk2]; [left; lia|right; lia].
Qed.
Lemma C3_adj m k : 2 <= m -> 1 <= k -> fst (plan3 m k) = MixInv.KAdj -> C3 m k = 1 + C3 (m - 1) (k - 1).
Proof.
  intros Hm Hk E. destruct (fst_plan3 m k Hm Hk) as (_ & H2 & _).
  destruct (plan_ge2 m k Hm Hk) as [(E1 & _)|(E1 & _ & Hk2)]; [apply H2 in E; congruence|].
  rewrite (C3_C m k) by lia. rewrite (C_adj m k Hm Hk E1).
  rewrite (C3_C (m - 1) (k - 1)); [reflexivity|lia|].
  destruct Hk2 as [Hk2|Hk2]; [left; lia|right; lia].
Qed.

Definition rev_clears (a : action) : Prop := match a with Reverse _ _ cl => cl = true | _ => True end.

(* ---------- (1) the extracted machine takes the step of the proved machine ---------- *)
Section MACH.
Variable N S_ : Z. Variable stg : storage.
Variable pl : Z -> Z -> res plan_t.                 (* the planner the object holds: memo_warm or a table lookup *)
Hypothesis stg_cp : stg = RAM \/ stg = DISK.
(* the planner is correct on every sub-problem the iterator can ask for *)
Hypothesis Hpl : forall m k, 1 <= m <= N -> (1 <= k \/ m = 1 /\ 0 <= k) -> k <= S_ -> pl m k = Ok (planC m k).
Definition cfgM : Mixed.cfg := {| max_n := N; snapshots := S_; Mixed.stg := stg; Mixed.plan := pl |}.
Notation mres := (MixInv.resume plan3 N S_ stg).

Definition okk (k : kind) : bool := match k with KFR | KAdj | KIcs => true | _ => false end.
Definition cpk (k : kind) : bool := match k with KAdj | KIcs => true | _ => false end.
Definition e3 (e : kind * Z * Z) : MixInv.kind * Z * Z := (k3 (fst (fst e)), snd (fst e), snd e).
Definition pcM (q : Mixed.pc) : MixInv.pc :=
  match q with
  | Mixed.PInner KNone => MixInv.PInner None | Mixed.PInner k => MixInv.PInner (Some (k3 k))
  | Mixed.PAfterAdj a b => MixInv.PAfterAdj a b | Mixed.PAfterIcs a b => MixInv.PAfterIcs a b
  | Mixed.PDoRev => MixInv.PDoRev | Mixed.PAfterRev => MixInv.PAfterRev | Mixed.PDone => MixInv.PDone
  | Mixed.PFR2 _ => MixInv.PDone end.
Definition pc_ok (q : Mixed.pc) : bool := match q with Mixed.PInner k => okk k || kind_eqb k KNone | Mixed.PFR2 _ => false | _ => true end.
Definition toM (q : Mixed.pc) (n r : Z) (sn : list (kind * Z * Z)) : MixInv.st :=
  {| MixInv.pcv := pcM q; MixInv.n_ := n; MixInv.r_ := r; MixInv.snaps := map e3 sn |}.
Definition mst (q : Mixed.pc) (n r : Z) (sn : list (kind * Z * Z)) (e : bool) : Mixed.st :=
  {| Mixed.pcv := q; Mixed.n_ := n; Mixed.r_ := r; Mixed.snaps := sn; Mixed.exhausted := e |}.
Definition stack_ok (sn : list (kind * Z * Z)) : Prop := Forall (fun e => cpk (fst (fst e)) = true) sn.

Lemma in_snaps_e3 n0 sn : MixInv.in_snaps n0 (map e3 sn) = in_snaps n0 sn.
Proof. unfold MixInv.in_snaps, in_snaps. induction sn as [|[[k p] e] sn IH]; [reflexivity|]. cbn [map e3 existsb fst snd]. rewrite IH. reflexivity. Qed.
Lemma len_e3 (sn : list (kind * Z * Z)) : MixInv.len (map e3 sn) = len sn.
Proof. unfold MixInv.len, len. rewrite map_length. reflexivity. Qed.
Lemma kind_eqb_k3 a b : okk a = true -> okk b = true -> MixInv.kind_eqb (k3 a) (k3 b) = kind_eqb a b.
Proof. destruct a, b; cbn; intros; try discriminate; reflexivity. Qed.
Lemma planC_kind m k : 1 <= m -> (1 <= k \/ m = 1 /\ 0 <= k) -> okk (fst (fst (planC m k))) = true /\ plan3 m k = (k3 (fst (fst (planC m k))), snd (fst (planC m k))).
Proof.
  intros Hm Hk. unfold plan3. destruct (Z.eqb_spec m 1) as [->|Hne].
  - pose proof (proj1 (plan_1 k ltac:(lia))) as H1. unfold plan in H1. destruct (planC 1 k) as [[kk a] c]. cbn [fst snd] in *. injection H1 as -> ->. auto.
  - unfold plan. destruct (plan_ge2 m k ltac:(lia) ltac:(lia)) as [(E & _)|(E & _)]; unfold plan in E; destruct (planC m k) as [[kk a] c]; cbn [fst snd] in *; subst kk; auto.
Qed.

Definition n_afterM (a : action) (n : Z) : Z :=
  match a with Forward _ n1 _ _ _ => n1 | Copy k _ _ | Move k _ _ => n (* set by the caller: restart or dependency checkpoint *) | _ => n end.

Lemma resume_agrees : forall f q n r sn e t' a, pc_ok q = true -> stack_ok sn ->
  len sn + (match q with Mixed.PAfterAdj _ _ | Mixed.PAfterIcs _ _ => 1 | _ => 0 end) <= S_ -> 0 <= r -> 0 <= n ->
  (q = Mixed.PAfterRev -> forall k p e0 rest, sn = (k, p, e0) :: rest -> 0 <= p < N - r) ->
  mres f (toM q n r sn) = (t', MixInv.Act a) ->
  exists q' n' r' sn' e', Mixed.resume f cfgM (mst q n r sn e) = (mst q' n' r' sn' e', Yield a) /\ t' = toM q' n' r' sn' /\
     pc_ok q' = true /\ stack_ok sn' /\ e' = (match a with EndReverse => true | _ => false end) /\ (e' = true <-> q' = Mixed.PDone) /\
     r' = (match a with Reverse _ _ _ => r + 1 | _ => r end) /\ n' = (match a with Forward _ n1 _ _ _ => n1 | Copy k _ _ | Move k _ _ => n' | _ => n end) /\
     (forall k s1 s2, a = Copy k s1 s2 \/ a = Move k s1 s2 -> q = Mixed.PAfterRev /\ exists kk e0 rest, sn = (kk, k, e0) :: rest /\ (kk = KIcs -> n' = k) /\ (kk = KAdj -> n' = k + 1)) /\ rev_clears a.
Proof.
  induction f as [|f IH]; intros q n r sn e t' a Hq Hsn Hlen Hr Hn0 Htop Hres; [discriminate|].
  unfold toM in Hres.
  destruct q as [stype|n1|n0 n1|n0 n1| | |]; cbn [pc_ok] in Hq; try discriminate; cbv iota beta in Hlen;
    cbn [Mixed.resume mst cfgM Mixed.pcv Mixed.n_ Mixed.r_ Mixed.snaps max_n snapshots Mixed.stg Mixed.plan].
  - (* PInner *)
    assert (Hpcm : pcM (Mixed.PInner stype) = MixInv.PInner (match stype with KNone => None | k => Some (k3 k) end)) by (destruct stype; reflexivity).
    rewrite Hpcm in Hres. cbn [MixInv.resume MixInv.pcv MixInv.n_ MixInv.r_ MixInv.snaps] in Hres. clear Hpcm.
    rewrite in_snaps_e3, len_e3 in Hres.
    destruct (Z.ltb_spec n (N - r)) as [Hlt|Hge].
    + set (reuse := in_snaps n sn) in *.
      set (k := S_ - len sn + (if reuse then 1 else 0)) in *.
      destruct ((k <? 1) && (2 <=? N - r - n)) eqn:Eg; [discriminate|].
      assert (Hk : 1 <= k \/ (N - r - n = 1 /\ 0 <= k)).
      { apply andb_false_iff in Eg. destruct Eg as [Eg|Eg]; [apply Z.ltb_ge in Eg; left; exact Eg|apply Z.leb_gt in Eg; right; split; [lia|unfold k; destruct reuse; lia]]. }
      assert (HkS : k <= S_).
      { unfold k, reuse. destruct (in_snaps n sn) eqn:Ei; [|unfold len; lia]. destruct sn; [discriminate|]. unfold len. cbn [length]. lia. }
      rewrite (Hpl (N - r - n) k ltac:(lia) Hk HkS).
      destruct (planC_kind (N - r - n) k ltac:(lia) Hk) as [Hokk Hp3]. rewrite Hp3 in Hres.
      destruct (planC (N - r - n) k) as [[kd adv] cst]. cbn [fst snd] in *.
      (* the re-use check *)
      assert (Hbad : (reuse && match map e3 sn with
                               | (k', p, e0) :: _ => negb (MixInv.kind_eqb k' (k3 kd) && (p =? n)) || (e0 <? adv + n)
                               | [] => true end)
                   = (reuse && match sn with
                               | (k', p, e0) :: _ => negb (kind_eqb k' kd && (p =? n)) || (e0 <? adv + n)
                               | [] => true end)).
      { destruct sn as [|[[k' p] e0] rest]; [reflexivity|]. cbn [map e3 fst snd].
        inversion Hsn as [|? ? Hk' _]; subst. cbn [fst] in Hk'.
        rewrite kind_eqb_k3; [reflexivity|destruct k'; cbn in *; congruence|exact Hokk]. }
      rewrite Hbad in Hres. clear Hbad.
      destruct (reuse && _); [discriminate|].
      destruct kd; cbn [okk] in Hokk; try discriminate; cbn [k3] in Hres.
      * (* FORWARD_REVERSE *)
        destruct (Z.gtb_spec (adv + n) (n + 1)); [discriminate|]. destruct (Z.leb_spec (adv + n) n); [discriminate|].
        injection Hres as <- <-.
        exists (Mixed.PInner KFR), (n + 1), r, sn, false. repeat split; auto; try discriminate; try lia; try (match goal with Hx : (_ = Copy _ _ _) \/ _ |- _ => destruct Hx as [Hx|Hx]; discriminate Hx end).
      * (* WRITE_ADJ_DEPS *)
        destruct (negb (adv + n =? n + 1)); [discriminate|]. destruct reuse; [discriminate|].
        rewrite ?len_e3 in Hres. destruct (len sn >? S_ - 1); [discriminate|]. injection Hres as <- <-.
        exists (Mixed.PAfterAdj n (adv + n)), (adv + n), r, sn, false. repeat split; auto; try discriminate; try lia; try (match goal with Hx : (_ = Copy _ _ _) \/ _ |- _ => destruct Hx as [Hx|Hx]; discriminate Hx end).
      * (* WRITE_ICS *)
        destruct (Z.leb_spec (adv + n) (n + 1)); [discriminate|].
        destruct reuse; injection Hres as <- <-.
        -- exists (Mixed.PInner KIcs), (adv + n), r, sn, false. repeat split; auto; try discriminate; try lia; try (match goal with Hx : (_ = Copy _ _ _) \/ _ |- _ => destruct Hx as [Hx|Hx]; discriminate Hx end).
        -- exists (Mixed.PAfterIcs n (adv + n)), (adv + n), r, sn, false. repeat split; auto; try discriminate; try lia; try (match goal with Hx : (_ = Copy _ _ _) \/ _ |- _ => destruct Hx as [Hx|Hx]; discriminate Hx end).
    + destruct (negb (n =? N - r)); [discriminate|].
      assert (Hst : negb (match (match stype with KNone => None | k => Some (k3 k) end) with None | Some MixInv.KFR => true | _ => false end)
                    = negb (kind_eqb stype KNone || kind_eqb stype KFR)).
      { destruct stype; cbn in *; try reflexivity; discriminate. }
      rewrite Hst in Hres. destruct (negb (kind_eqb stype KNone || kind_eqb stype KFR)); [discriminate|].
      destruct (Z.eqb_spec r 0).
      * injection Hres as <- <-. exists Mixed.PDoRev, n, r, sn, false. repeat split; auto; try discriminate; try lia; try (match goal with Hx : (_ = Copy _ _ _) \/ _ |- _ => destruct Hx as [Hx|Hx]; discriminate Hx end).
      * destruct f as [|f']; [discriminate|].
        destruct (IH Mixed.PDoRev n r sn false t' a eq_refl Hsn ltac:(cbv iota beta; lia) Hr Hn0 ltac:(intros; discriminate) Hres)
          as (q' & n' & r' & sn' & e' & H1 & H2 & H3 & H4 & H5 & H6 & H7 & H8 & H9 & H10).
        exists q', n', r', sn', e'. do 8 (split; [assumption|]). split; [|exact H10].
        intros k0 sa sb Hx. destruct (H9 k0 sa sb Hx) as [Habs _]. discriminate.
  - (* PAfterAdj *)
    cbn [pcM MixInv.resume MixInv.pcv MixInv.n_ MixInv.r_ MixInv.snaps] in Hres.
    destruct f as [|f']; [discriminate|].
    destruct (IH (Mixed.PInner KAdj) n r ((KAdj, n0, n1) :: sn) false t' a eq_refl) as (q' & n' & r' & sn' & e' & H1 & H2 & H3 & H4 & H5 & H6 & H7 & H8 & H9 & H10); try assumption.
    + constructor; [reflexivity|exact Hsn].
    + unfold len in *. cbn [length]. lia.
    + intros; discriminate.
    + exists q', n', r', sn', e'. do 8 (split; [assumption|]). split; [|exact H10].
      intros k0 sa sb Hx. destruct (H9 k0 sa sb Hx) as [Habs _]. discriminate.
  - (* PAfterIcs *)
    cbn [pcM MixInv.resume MixInv.pcv MixInv.n_ MixInv.r_ MixInv.snaps] in Hres. rewrite len_e3 in Hres.
    destruct (len sn >? S_ - 1); [discriminate|].
    destruct f as [|f']; [discriminate|].
    destruct (IH (Mixed.PInner KIcs) n r ((KIcs, n0, n1) :: sn) false t' a eq_refl) as (q' & n' & r' & sn' & e' & H1 & H2 & H3 & H4 & H5 & H6 & H7 & H8 & H9 & H10); try assumption.
    + constructor; [reflexivity|exact Hsn].
    + unfold len in *. cbn [length]. lia.
    + intros; discriminate.
    + exists q', n', r', sn', e'. do 8 (split; [assumption|]). split; [|exact H10].
      intros k0 sa sb Hx. destruct (H9 k0 sa sb Hx) as [Habs _]. discriminate.
  - (* PDoRev *)
    cbn [pcM MixInv.resume MixInv.pcv MixInv.n_ MixInv.r_ MixInv.snaps] in Hres.
    injection Hres as <- <-. exists Mixed.PAfterRev, n, (r + 1), sn, false. repeat split; auto; try discriminate; try lia; try (match goal with Hx : (_ = Copy _ _ _) \/ _ |- _ => destruct Hx as [Hx|Hx]; discriminate Hx end).
  - (* PAfterRev *)
    cbn [pcM MixInv.resume MixInv.pcv MixInv.n_ MixInv.r_ MixInv.snaps] in Hres.
    destruct (Z.eqb_spec r N).
    + destruct sn as [|x sn0]; cbn [map] in Hres; [|discriminate]. injection Hres as <- <-. cbn [length Nat.eqb negb].
      exists Mixed.PDone, n, r, [], true. repeat split; auto; try discriminate; try lia; try (match goal with Hx : (_ = Copy _ _ _) \/ _ |- _ => destruct Hx as [Hx|Hx]; discriminate Hx end).
    + destruct sn as [|[[k cp_n] e0] rest]; cbn [map e3 fst snd] in Hres; [discriminate|].
      inversion Hsn as [|? ? Hk Hrest]; subst. cbn [fst] in Hk.
      destruct (Htop eq_refl k cp_n e0 rest eq_refl) as [Hcp0 Hcp].
      assert (Hkk : MixInv.kind_eqb (k3 k) MixInv.KIcs || MixInv.kind_eqb (k3 k) MixInv.KAdj = (kind_eqb k KIcs || kind_eqb k KAdj)) by (destruct k; reflexivity).
      rewrite Hkk in Hres. destruct (negb (kind_eqb k KIcs || kind_eqb k KAdj)); [discriminate|].
      change (e3 (k, cp_n, e0) :: map e3 rest) with (map e3 ((k, cp_n, e0) :: rest)) in Hres. rewrite !len_e3 in Hres.
      set (kk := S_ - len ((k, cp_n, e0) :: rest) + 1) in *.
      assert (Hkk1 : 1 <= kk <= S_) by (unfold kk, len in *; cbn [length] in *; lia).
      destruct ((kk <? 1) && (2 <=? N - r - cp_n)); [discriminate|].
      rewrite (Hpl (N - r - cp_n) kk ltac:(lia) ltac:(lia) ltac:(lia)).
      destruct (planC_kind (N - r - cp_n) kk ltac:(lia) ltac:(lia)) as [Hokk Hp3]. rewrite Hp3 in Hres.
      destruct (planC (N - r - cp_n) kk) as [[k2 adv] cst]. cbn [fst snd] in *.
      rewrite kind_eqb_k3 in Hres by (destruct k; cbn in *; congruence).
      destruct k; cbn [cpk] in Hk; try discriminate; cbn [k3] in Hres.
      * (* a dependency checkpoint *)
        destruct (negb (negb (kind_eqb KAdj k2)) || negb (cp_n + 1 =? N - r)); [discriminate|].
        destruct (negb (kind_eqb KAdj k2)) eqn:Edel; injection Hres as <- <-.
        -- exists (Mixed.PInner KNone), (cp_n + 1), r, rest, false. repeat split; auto; try discriminate; try lia.
           all: match goal with Hx : _ \/ _ |- _ => destruct Hx as [Hx|Hx]; try discriminate Hx; injection Hx as <- _ _ end; exists KAdj, e0, rest; split; [reflexivity|split; [discriminate|reflexivity]].
        -- exists (Mixed.PInner KNone), (cp_n + 1), r, ((KAdj, cp_n, e0) :: rest), false. repeat split; auto; try discriminate; try lia.
           all: match goal with Hx : _ \/ _ |- _ => destruct Hx as [Hx|Hx]; try discriminate Hx; injection Hx as <- _ _ end; exists KAdj, e0, rest; split; [reflexivity|split; [discriminate|reflexivity]].
      * (* a restart checkpoint *)
        destruct (cp_n + 1 >=? N - r); [discriminate|].
        destruct (negb (kind_eqb KIcs k2)) eqn:Edel; injection Hres as <- <-.
        -- exists (Mixed.PInner KNone), cp_n, r, rest, false. repeat split; auto; try discriminate; try lia.
           all: match goal with Hx : _ \/ _ |- _ => destruct Hx as [Hx|Hx]; try discriminate Hx; injection Hx as <- _ _ end; exists KIcs, e0, rest; split; [reflexivity|split; [reflexivity|discriminate]].
        -- exists (Mixed.PInner KNone), cp_n, r, ((KIcs, cp_n, e0) :: rest), false. repeat split; auto; try discriminate; try lia.
           all: match goal with Hx : _ \/ _ |- _ => destruct Hx as [Hx|Hx]; try discriminate Hx; injection Hx as <- _ _ end; exists KIcs, e0, rest; split; [reflexivity|split; [reflexivity|discriminate]].
Qed.
End MACH.

(* ---------- (2) the executors ---------- *)
Section XEXEC.
Variable N S_ : Z. Variable stg : storage.
Hypothesis stg_cp : stg = RAM \/ stg = DISK.
Notation mexec := (MixInv.exec N S_ stg).

Definition encX (e : Z * (MixInv.kind * (Z * Z))) : Z * cp :=
  (fst e, match fst (snd e) with MixInv.KIcs => {| cp_ics := Some (snd (snd e)); cp_deps := None |}
                                | _ => {| cp_ics := None; cp_deps := Some (snd (snd e)) |} end).
Definition other (s : storage) : storage := match s with RAM => DISK | _ => RAM end.
Definition pmx : xparams :=
  {| xN := N; keep_all_deps := false; budget_ram := Some (if st_eqb RAM stg then S_ else 0); budget_disk := Some (if st_eqb DISK stg then S_ else 0) |}.
Definition RxM (x : MixInv.xst) (X : xstate) : Prop :=
  fwd X = MixInv.fwd x /\ w_ics X = MixInv.wics x /\ w_deps X = MixInv.wdeps x /\ rr X = MixInv.rr x /\ seen_endfwd X = MixInv.endfwd x /\
  sel X stg = map encX (MixInv.store x) /\ sel X (other stg) = [] /\ fwd_total (cnt X) = MixInv.done x.

Lemma lookup_encX st k : lookup k (map encX st) = match MixInv.lookup k st with Some v => Some (snd (encX (k, v))) | None => None end.
Proof. induction st as [|[k' v] st IH]; [reflexivity|]. cbn [map encX lookup MixInv.lookup fst snd]. destruct (k =? k'); [reflexivity|exact IH]. Qed.
Lemma remove_encX st k : remove k (map encX st) = map encX (MixInv.remove k st).
Proof. induction st as [|[k' v] st IH]; [reflexivity|]. cbn [map encX remove MixInv.remove fst]. destruct (k =? k'); [reflexivity|]. cbn [map]. f_equal. exact IH. Qed.
Lemma stg_sel X l : sel (set_store X stg l) stg = l /\ sel (set_store X stg l) (other stg) = sel X (other stg).
Proof. destruct stg_cp as [-> | ->]; cbn; auto. Qed.
Lemma mst_eqb_work : MixInv.st_eqb stg WORK = false. Proof. destruct stg_cp as [-> | ->]; reflexivity. Qed.
Lemma mst_eqb_refl : MixInv.st_eqb stg stg = true. Proof. destruct stg_cp as [-> | ->]; reflexivity. Qed.
Lemma fwd_total_read c s : fwd_total (count_read c s) = fwd_total c. Proof. destruct s; reflexivity. Qed.
Lemma fwd_total_put c s n : fwd_total (count_put c s n) = fwd_total c. Proof. destruct s; reflexivity. Qed.
Lemma sel_set_cnt X c s : sel (set_cnt X c) s = sel X s. Proof. destruct s; reflexivity. Qed.
Lemma sel_set_work X f a b s : sel (set_work X f a b) s = sel X s. Proof. destruct s; reflexivity. Qed.

(* positions named by the state are non-negative *)
Definition NNm (x : MixInv.xst) : Prop :=
  (forall v, MixInv.fwd x = Some v -> 0 <= v) /\ (forall a b, MixInv.wdeps x = Some (a, b) -> 0 <= a) /\
  (forall k v, MixInv.lookup k (MixInv.store x) = Some v -> 0 <= k) /\ 0 <= MixInv.rr x.
Lemma mlookup_remove l n k v : MixInv.lookup k (MixInv.remove n l) = Some v -> exists v', MixInv.lookup k l = Some v'.
Proof.
  induction l as [|[k0 v0] l IH]; [discriminate|]. cbn [MixInv.remove MixInv.lookup].
  destruct (n =? k0).
  - intros H. destruct (k =? k0); eauto.
  - cbn [MixInv.lookup]. destruct (k =? k0); eauto.
Qed.

Lemma mix_exec_agrees x X a x' exh : RxM x X -> NNm x -> rev_clears a -> (a = EndReverse -> exh = true) -> mexec x a = Some x' ->
  check pmx true exh X a = None /\ RxM x' (apply pmx exh X a) /\ NNm x' /\
  (* where the forward state stands afterwards *)
  MixInv.fwd x' = (match a with Forward _ n1 _ _ _ => Some n1
                   | Copy k _ _ | Move k _ _ => match MixInv.lookup k (MixInv.store x) with Some (MixInv.KIcs, _) => Some k | _ => None end
                   | _ => MixInv.fwd x end).
Proof.
  intros HR (NNf & NNw & NNb & NNr) Hcl Hexh Hex. pose proof HR as (Rf & Rwi & Rwd & Rrr & Rse & Rsel & Roth & Rtot).
  assert (Hcp : is_cp stg = true) by (destruct stg_cp as [-> | ->]; reflexivity).
  assert (Hnw : st_eqb stg WORK = false) by (destruct stg_cp as [-> | ->]; reflexivity).
  assert (Hnn : st_eqb stg NONE = false) by (destruct stg_cp as [-> | ->]; reflexivity).
  assert (Hbud : budget pmx stg = Some S_) by (unfold pmx; destruct stg_cp as [E|E]; rewrite E; reflexivity).
  destruct a as [n0 n1 wi wa sg|n1 n0 cl|n src dst|n src dst| |].
  - (* Forward *)
    cbn [MixInv.exec] in Hex. destruct (MixInv.fwd x) as [f|] eqn:Hf; [|discriminate].
    destruct (Z.eqb_spec f n0), (Z.ltb_spec n0 n1), (Z.leb_spec n1 (N - MixInv.rr x)); cbn [andb negb] in Hex; try discriminate.
    subst f. assert (Hn0 : 0 <= n0) by (apply NNf; reflexivity). assert (Hmin : Z.min n1 N = n1) by lia.
    destruct (MixInv.st_eqb sg WORK) eqn:Ew.
    + assert (sg = WORK) by (destruct sg; cbn in Ew; congruence). subst sg.
      destruct wi; cbn [orb] in Hex; [discriminate|].
      destruct wa; cbn [andb negb] in Hex.
      * destruct (Z.eqb_spec n1 (n0 + 1)), (Z.eqb_spec n1 (N - MixInv.rr x)); cbn [andb negb] in Hex; try discriminate.
        injection Hex as <-. split; [|split; [|split]].
        -- unfold check. cbn [xN pmx keep_all_deps]. rewrite Hmin, Rrr. unfold fwd_is. rewrite Rf, ?Hf.
           cbn [is_cp st_eqb andb orb negb can_put app].
           repeat (rewrite first_err_ok; [|bool_true; try lia; auto]). reflexivity.
        -- unfold apply. cbn [xN pmx]. rewrite Hmin. cbn [st_eqb andb put is_cp]. unfold RxM.
           cbn [set_cnt set_work fwd w_ics w_deps rr seen_endfwd cnt count_fwd fwd_total MixInv.fwd MixInv.wics MixInv.wdeps MixInv.rr MixInv.endfwd MixInv.store MixInv.done].
           repeat split; auto; try congruence; try lia;
             try (destruct stg_cp as [-> | ->]; cbn [sel set_work ram disk other]; assumption).
        -- unfold NNm. cbn [MixInv.fwd MixInv.wdeps MixInv.store MixInv.rr]. repeat split; auto.
           ++ intros v Hv; injection Hv as <-; lia.
           ++ intros a b Hab; injection Hab as <- <-; lia.
        -- reflexivity.
      * injection Hex as <-. split; [|split; [|split]].
        -- unfold check. cbn [xN pmx keep_all_deps]. rewrite Hmin, Rrr. unfold fwd_is. rewrite Rf, ?Hf.
           cbn [is_cp st_eqb andb orb negb can_put app].
           repeat (rewrite first_err_ok; [|bool_true; try lia; auto]). reflexivity.
        -- unfold apply. cbn [xN pmx]. rewrite Hmin. cbn [st_eqb andb put is_cp]. unfold RxM.
           cbn [set_cnt set_work fwd w_ics w_deps rr seen_endfwd cnt count_fwd fwd_total MixInv.fwd MixInv.wics MixInv.wdeps MixInv.rr MixInv.endfwd MixInv.store MixInv.done].
           repeat split; auto; try congruence; try lia;
             try (destruct stg_cp as [-> | ->]; cbn [sel set_work ram disk other]; assumption).
        -- unfold NNm. cbn [MixInv.fwd MixInv.wdeps MixInv.store MixInv.rr]. repeat split; auto; try discriminate.
           intros v Hv; injection Hv as <-; lia.
        -- reflexivity.
    + destruct (MixInv.st_eqb sg stg) eqn:Eb; [|discriminate].
      assert (sg = stg) by (destruct sg, stg; cbn in Eb; congruence). subst sg.
      destruct (MixInv.lookup n0 (MixInv.store x)) eqn:Hlk; cbn [MixInv.isnone negb orb] in Hex;
        [destruct (negb (xorb wi wa)); discriminate|].
      destruct (xorb wi wa) eqn:Exor; cbn [negb orb] in Hex; [|discriminate].
      destruct (Z.ltb_spec (MixInv.len (MixInv.store x)) S_); cbn [negb orb] in Hex; [|discriminate].
      assert (Hwa : wa = true -> n1 = n0 + 1).
      { intros ->. destruct (Z.eqb_spec n1 (n0 + 1)); [assumption|]. cbn in Hex. discriminate. }
      assert (Hex' : x' = {| MixInv.fwd := Some n1; MixInv.wics := None; MixInv.wdeps := None;
                             MixInv.store := (n0, (if wi then MixInv.KIcs else MixInv.KAdj, (n0, n1))) :: MixInv.store x; MixInv.rr := MixInv.rr x;
                             MixInv.endfwd := MixInv.endfwd x; MixInv.done := MixInv.done x + (n1 - n0) |}).
      { destruct wa; [destruct (Z.eqb_spec n1 (n0 + 1)); cbn in Hex; [|discriminate]|cbn in Hex]; injection Hex as <-; reflexivity. }
      clear Hex. subst x'.
      assert (Hlook : lookup n0 (sel X stg) = None) by (rewrite Rsel, lookup_encX, Hlk; reflexivity).
      assert (Hlen : len (sel X stg) = MixInv.len (MixInv.store x)) by (rewrite Rsel; unfold len, MixInv.len; rewrite map_length; reflexivity).
      split; [|split; [|split]].
      * unfold check. cbn [xN pmx keep_all_deps]. rewrite Hmin, Rrr. unfold fwd_is. rewrite Rf, ?Hf, Hcp, Hnw, Hnn.
        cbn [andb orb negb]. unfold can_put. rewrite Hcp, Hlook, Hbud, Hlen. cbn [isnone app within].
        repeat (rewrite first_err_ok; [|bool_true; try lia; auto]).
        all: try reflexivity.
        all: try (destruct wi, wa; cbn in *; try discriminate; try reflexivity; try (rewrite (Hwa eq_refl), Z.eqb_refl; reflexivity)).
      * unfold apply. cbn [xN pmx]. rewrite Hmin, Hnw. cbn [andb]. unfold put. rewrite Hcp. unfold RxM.
        cbn [set_cnt set_work fwd w_ics w_deps rr seen_endfwd cnt MixInv.fwd MixInv.wics MixInv.wdeps MixInv.rr MixInv.endfwd MixInv.store MixInv.done].
        destruct (stg_sel (set_work X (Some n1) None None) ((n0, {| cp_ics := if wi then Some (n0, n1) else None; cp_deps := if wa then Some (n0, n1) else None |}) :: sel (set_work X (Some n1) None None) stg)) as [S1 S2].
        repeat split; auto; try congruence.
        -- rewrite !sel_set_cnt, S1, sel_set_work, Rsel. cbn [map encX fst snd].
           destruct wi, wa; cbn in Exor; try discriminate; reflexivity.
        -- rewrite !sel_set_cnt, S2, sel_set_work. exact Roth.
        -- cbn [count_fwd fwd_total]. rewrite fwd_total_put. cbn [set_work cnt]. lia.
      * unfold NNm. cbn [MixInv.fwd MixInv.wdeps MixInv.store MixInv.rr MixInv.lookup]. repeat split; auto; try discriminate.
        -- intros v Hv; injection Hv as <-; lia.
        -- intros k v. destruct (Z.eqb_spec k n0); [intros _; lia|apply NNb].
      * reflexivity.
  - (* Reverse *)
    cbn [rev_clears] in Hcl. subst cl. cbn [MixInv.exec] in Hex.
    destruct (MixInv.endfwd x) eqn:He, (Z.eqb_spec n1 (N - MixInv.rr x)), (Z.eqb_spec n0 (n1 - 1)), (MixInv.covers (MixInv.wdeps x) n0 n1) eqn:Hcov;
      cbn [andb negb] in Hex; try discriminate. injection Hex as <-.
    assert (Hwd : exists a b, MixInv.wdeps x = Some (a, b) /\ a <= n0 /\ n1 <= b).
    { unfold MixInv.covers in Hcov. destruct (MixInv.wdeps x) as [[a b]|]; [|discriminate]. exists a, b. split; [reflexivity|].
      apply andb_true_iff in Hcov. rewrite !Z.leb_le in Hcov. exact Hcov. }
    destruct Hwd as (a & b & Hwd & Ha & Hb). pose proof (NNw a b Hwd) as Ha0.
    split; [|split; [|split]].
    + unfold check. cbn [xN pmx]. rewrite Rse, Rrr, Rwd, Hwd. cbn [covers].
      repeat (rewrite first_err_ok; [|bool_true; try lia; auto]). reflexivity.
    + unfold apply, set_rr, RxM. cbn [fwd w_ics w_deps rr seen_endfwd cnt MixInv.fwd MixInv.wics MixInv.wdeps MixInv.rr MixInv.endfwd MixInv.store MixInv.done].
      repeat split; auto; try congruence; try lia;
        try (destruct stg_cp as [E|E]; rewrite E in *; cbn [sel other ram disk] in *; assumption).
    + unfold NNm. cbn [MixInv.fwd MixInv.wdeps MixInv.store MixInv.rr]. repeat split; auto; try discriminate; lia.
    + reflexivity.
  - (* Copy *)
    destruct dst; try (exfalso; cbn [MixInv.exec] in Hex; discriminate).
    cbn [MixInv.exec] in Hex.
    destruct (MixInv.st_eqb src stg) eqn:Es, (MixInv.endfwd x) eqn:He, (MixInv.wics x) eqn:Hwi, (MixInv.wdeps x) eqn:Hwd; cbn [MixInv.isnone andb negb] in Hex; try discriminate.
    assert (src = stg) by (destruct src, stg; cbn in Es; congruence). subst src.
    destruct (MixInv.lookup n (MixInv.store x)) as [[kd [a0 b0]]|] eqn:Hlk; [|discriminate].
    destruct (Z.eqb_spec a0 n), (Z.ltb_spec n (N - MixInv.rr x)); cbn [andb negb] in Hex; try discriminate. subst a0.
    assert (Hn0 : 0 <= n) by (eapply NNb; exact Hlk).
    assert (Hlook : lookup n (sel X stg) = Some (snd (encX (n, (kd, (n, b0)))))) by (rewrite Rsel, lookup_encX, Hlk; reflexivity).
    destruct kd; cbn [encX fst snd] in Hlook.
    + discriminate.
    + (* a dependency checkpoint *)
      destruct (Z.eqb_spec b0 (n + 1)), (Z.eqb_spec (n + 1) (N - MixInv.rr x)); cbn [andb negb] in Hex; try discriminate. injection Hex as <-. subst b0.
      split; [|split; [|split]].
      * unfold check. cbn [xN pmx keep_all_deps]. rewrite Hcp, Rse, Rwi, Rwd, Rrr, Hlook.
        cbn [cp_ics cp_deps wlen isnone negb andb orb covers app].
        repeat (rewrite first_err_ok; [|bool_true; try lia; auto]).
        all: try reflexivity.
        all: try (bool_true; lia).
      * unfold apply. rewrite Hlook. cbn [cp_ics cp_deps]. unfold RxM.
        cbn [set_cnt set_work fwd w_ics w_deps rr seen_endfwd cnt MixInv.fwd MixInv.wics MixInv.wdeps MixInv.rr MixInv.endfwd MixInv.store MixInv.done].
        rewrite !sel_set_work, !sel_set_cnt. repeat split; auto; try congruence. rewrite fwd_total_read. exact Rtot.
      * unfold NNm. cbn [MixInv.fwd MixInv.wdeps MixInv.store MixInv.rr]. repeat split; auto; try discriminate.
        intros a b Hab; injection Hab as <- <-; lia.
      * rewrite ?Hlk. reflexivity.
    + (* a restart checkpoint *)
      destruct (Z.leb_spec (N - MixInv.rr x) b0); cbn [negb] in Hex; [|discriminate]. injection Hex as <-.
      split; [|split; [|split]].
      * unfold check. cbn [xN pmx keep_all_deps]. rewrite Hcp, Rse, Rwi, Rwd, Rrr, Hlook.
        cbn [cp_ics cp_deps wlen isnone negb andb orb covers app].
        repeat (rewrite first_err_ok; [|bool_true; try lia; auto]).
        all: try reflexivity.
        all: try (right; bool_true; lia).
      * unfold apply. rewrite Hlook. cbn [cp_ics cp_deps].
        assert (Hr : (n <=? n) && (n <? b0) = true) by (bool_true; lia). rewrite Hr. unfold RxM.
        cbn [set_cnt set_work fwd w_ics w_deps rr seen_endfwd cnt MixInv.fwd MixInv.wics MixInv.wdeps MixInv.rr MixInv.endfwd MixInv.store MixInv.done].
        rewrite !sel_set_work, !sel_set_cnt. repeat split; auto; try congruence. rewrite fwd_total_read. exact Rtot.
      * unfold NNm. cbn [MixInv.fwd MixInv.wdeps MixInv.store MixInv.rr]. repeat split; auto; try discriminate.
        intros v Hv; injection Hv as <-; lia.
      * rewrite ?Hlk. reflexivity.
  - (* Move *)
    destruct dst; try (exfalso; cbn [MixInv.exec] in Hex; discriminate).
    cbn [MixInv.exec] in Hex.
    destruct (MixInv.st_eqb src stg) eqn:Es, (MixInv.endfwd x) eqn:He, (MixInv.wics x) eqn:Hwi, (MixInv.wdeps x) eqn:Hwd; cbn [MixInv.isnone andb negb] in Hex; try discriminate.
    assert (src = stg) by (destruct src, stg; cbn in Es; congruence). subst src.
    destruct (MixInv.lookup n (MixInv.store x)) as [[kd [a0 b0]]|] eqn:Hlk; [|discriminate].
    destruct (Z.eqb_spec a0 n), (Z.ltb_spec n (N - MixInv.rr x)); cbn [andb negb] in Hex; try discriminate. subst a0.
    assert (Hn0 : 0 <= n) by (eapply NNb; exact Hlk).
    assert (Hlook : lookup n (sel X stg) = Some (snd (encX (n, (kd, (n, b0)))))) by (rewrite Rsel, lookup_encX, Hlk; reflexivity).
    destruct (stg_sel X (remove n (sel X stg))) as [S1 S2].
    assert (NNb' : forall k v, MixInv.lookup k (MixInv.remove n (MixInv.store x)) = Some v -> 0 <= k).
    { intros k v Hkv. destruct (mlookup_remove _ _ _ _ Hkv) as [v' Hv']. eapply NNb; exact Hv'. }
    destruct kd; cbn [encX fst snd] in Hlook.
    + discriminate.
    + destruct (Z.eqb_spec b0 (n + 1)), (Z.eqb_spec (n + 1) (N - MixInv.rr x)); cbn [andb negb] in Hex; try discriminate. injection Hex as <-. subst b0.
      split; [|split; [|split]].
      * unfold check. cbn [xN pmx keep_all_deps]. rewrite Hcp, Rse, Rwi, Rwd, Rrr, Hlook.
        cbn [cp_ics cp_deps wlen isnone negb andb orb covers app].
        repeat (rewrite first_err_ok; [|bool_true; try lia; auto]).
        all: try reflexivity.
        all: try (bool_true; lia).
      * unfold apply. rewrite Hlook. cbn [cp_ics cp_deps]. unfold RxM.
        cbn [set_cnt set_work fwd w_ics w_deps rr seen_endfwd cnt MixInv.fwd MixInv.wics MixInv.wdeps MixInv.rr MixInv.endfwd MixInv.store MixInv.done].
        rewrite !sel_set_work, !sel_set_cnt, S1, S2, Rsel, remove_encX. repeat split; auto; try congruence.
        rewrite fwd_total_read. cbn [set_store cnt]. exact Rtot.
      * unfold NNm. cbn [MixInv.fwd MixInv.wdeps MixInv.store MixInv.rr]. repeat split; auto; try discriminate.
        intros a b Hab; injection Hab as <- <-; lia.
      * rewrite ?Hlk. reflexivity.
    + destruct (Z.leb_spec (N - MixInv.rr x) b0); cbn [negb] in Hex; [|discriminate]. injection Hex as <-.
      split; [|split; [|split]].
      * unfold check. cbn [xN pmx keep_all_deps]. rewrite Hcp, Rse, Rwi, Rwd, Rrr, Hlook.
        cbn [cp_ics cp_deps wlen isnone negb andb orb covers app].
        repeat (rewrite first_err_ok; [|bool_true; try lia; auto]).
        all: try reflexivity.
        all: try (right; bool_true; lia).
      * unfold apply. rewrite Hlook. cbn [cp_ics cp_deps].
        assert (Hr : (n <=? n) && (n <? b0) = true) by (bool_true; lia). rewrite Hr. unfold RxM.
        cbn [set_cnt set_work fwd w_ics w_deps rr seen_endfwd cnt MixInv.fwd MixInv.wics MixInv.wdeps MixInv.rr MixInv.endfwd MixInv.store MixInv.done].
        rewrite !sel_set_work, !sel_set_cnt, S1, S2, Rsel, remove_encX. repeat split; auto; try congruence.
        rewrite fwd_total_read. cbn [set_store cnt]. exact Rtot.
      * unfold NNm. cbn [MixInv.fwd MixInv.wdeps MixInv.store MixInv.rr]. repeat split; auto; try discriminate.
        intros v Hv; injection Hv as <-; lia.
      * rewrite ?Hlk. reflexivity.
  - (* EndForward *)
    cbn [MixInv.exec] in Hex. destruct (MixInv.endfwd x) eqn:He; cbn [negb andb] in Hex; [discriminate|].
    destruct (MixInv.fwd x) as [f|] eqn:Hf; [|discriminate]. destruct (Z.eqb_spec f N); [|discriminate]. injection Hex as <-. subst f.
    split; [|split; [|split]].
    + unfold check. cbn [xN pmx]. unfold fwd_is. rewrite Rse, Rf, Z.eqb_refl. reflexivity.
    + unfold apply, RxM. cbn [fwd w_ics w_deps rr seen_endfwd cnt MixInv.fwd MixInv.wics MixInv.wdeps MixInv.rr MixInv.endfwd MixInv.store MixInv.done].
      repeat split; auto; try congruence;
        try (destruct stg_cp as [E|E]; rewrite E in *; cbn [sel other ram disk] in *; assumption).
    + unfold NNm. cbn [MixInv.fwd MixInv.wdeps MixInv.store MixInv.rr]. repeat split; auto.
    + reflexivity.
  - (* EndReverse *)
    cbn [MixInv.exec] in Hex. destruct (MixInv.endfwd x) eqn:He, (Z.eqb_spec (MixInv.rr x) N), (MixInv.store x) eqn:Hst; cbn [negb andb] in Hex; try discriminate.
    injection Hex as <-. rewrite (Hexh eq_refl).
    assert (Hram : ram X = [] /\ disk X = []).
    { cbn [map] in Rsel. destruct stg_cp as [E|E]; rewrite E in *; cbn [sel other] in *; auto. }
    destruct Hram as [Hram Hdisk].
    split; [|split; [|split]].
    + unfold check. cbn [xN pmx]. rewrite Rse, Rrr, e, Z.eqb_refl, Hram, Hdisk. reflexivity.
    + unfold apply, RxM. cbn [fwd w_ics w_deps rr seen_endfwd cnt].
      repeat split; auto; try congruence;
        try (destruct stg_cp as [E|E]; rewrite E in *; cbn [sel other ram disk] in *; rewrite ?Hst; assumption).
    + unfold NNm. rewrite Hst. repeat split; auto.
    + reflexivity.
Qed.
End XEXEC.

(* ---------- the monitored client ---------- *)
Section RUN.
Variable N S_ : Z. Variable stg : storage. Variable tab : bool.
Hypothesis HN : 1 <= N. Hypothesis HS : 2 <= N -> 1 <= S_. Hypothesis HS0 : 0 <= S_.
Hypothesis stg_cp : stg = RAM \/ stg = DISK.
Notation MInv := (MixInv.Inv plan3 C3 N S_).
Notation pmxN := (pmx N S_ stg).
Definition PlOK (f : Z -> Z -> res plan_t) : Prop := forall m k, 1 <= m <= N -> (1 <= k \/ m = 1 /\ 0 <= k) -> k <= S_ -> f m k = Ok (planC m k).

Definition xsched (f : Z -> Z -> res plan_t) (m : Mixed.st) (fin stt : bool) : sched :=
  {| ob := OMixed N S_ stg tab (Some f) m fin; started := stt |}.
Inductive J : sched -> mon -> Prop :=
 | Jrun f q n r sn stt m x : PlOK f -> pc_ok q = true -> q <> Mixed.PDone -> stack_ok sn -> mon_ok m -> MInv (toM q n r sn) x ->
     RxM stg x (mx m) -> NNm x -> (forall v, MixInv.fwd x = Some v -> v = n) -> 0 <= n ->
     J (xsched f (mst q n r sn false) false stt) m
 | Jdone f ms fin stt m : (fin = true \/ Mixed.pcv ms = Mixed.PDone) -> Mixed.exhausted ms = true -> mon_ok m -> fwd_total (cnt (mx m)) = C3 N S_ ->
     J (xsched f ms fin stt) m.

(* facts read off the invariant *)
Lemma Inv_facts q n r sn x : MInv (toM q n r sn) x -> pc_ok q = true ->
  MixInv.rr x = r /\ 0 <= r <= N /\
  len sn + (match q with Mixed.PAfterAdj _ _ | Mixed.PAfterIcs _ _ => 1 | _ => 0 end) <= S_ /\
  (q = Mixed.PAfterRev -> MixInv.store x = map MixInv.enc (map e3 sn) /\ forall k p e0 rest, sn = (k, p, e0) :: rest -> 0 <= p < N - r).
Proof.
  intros HI Hq. unfold MixInv.Inv, MixInv.InvCore, MixInv.norm, toM in HI. cbn [MixInv.pcv MixInv.n_ MixInv.r_ MixInv.snaps] in HI.
  destruct q as [stype|n1|n0 n1|n0 n1| | |]; cbn [pc_ok] in Hq; try discriminate.
  - assert (Hp : pcM (Mixed.PInner stype) = MixInv.PInner (match stype with KNone => None | k => Some (k3 k) end)) by (destruct stype; reflexivity).
    rewrite Hp in HI. cbn [MixInv.mk MixInv.pcv MixInv.n_ MixInv.r_ MixInv.snaps] in HI. destruct HI as (H1 & H2 & _ & H4 & _).
    unfold MixInv.len in H4; rewrite map_length in H4; unfold len. repeat split; auto; try lia; intros; discriminate.
  - cbn [pcM MixInv.mk MixInv.pcv MixInv.n_ MixInv.r_ MixInv.snaps] in HI. destruct HI as (H1 & H2 & _ & H4 & _).
    unfold MixInv.len in H4. cbn [length] in H4. rewrite map_length in H4. unfold len. repeat split; auto; try lia; intros; discriminate.
  - cbn [pcM MixInv.mk MixInv.pcv MixInv.n_ MixInv.r_ MixInv.snaps] in HI. destruct HI as (H1 & H2 & _ & H4 & _).
    unfold MixInv.len in H4. cbn [length] in H4. rewrite map_length in H4. unfold len. repeat split; auto; try lia; intros; discriminate.
  - cbn [pcM MixInv.mk MixInv.pcv MixInv.n_ MixInv.r_ MixInv.snaps] in HI. destruct HI as (H1 & H2 & _ & H4 & _). unfold MixInv.len in H4; rewrite map_length in H4; unfold len. repeat split; auto; try lia; intros; discriminate.
  - cbn [pcM MixInv.mk MixInv.pcv MixInv.n_ MixInv.r_ MixInv.snaps] in HI. destruct HI as (H1 & H2 & H3 & H4 & H5). unfold MixInv.len in H4; rewrite map_length in H4; unfold len. cbn zeta in H5. destruct H5 as (_ & _ & Hwf & _).
    repeat split; auto; try lia.
    all: match goal with Hs : _ = _ :: _ |- _ => rewrite Hs in Hwf; cbn [map e3 fst snd MixInv.WF] in Hwf; lia end.
  - cbn [pcM MixInv.mk MixInv.pcv MixInv.n_ MixInv.r_ MixInv.snaps] in HI. destruct HI as (H1 & H2 & _ & H4 & _). unfold MixInv.len in H4; rewrite map_length in H4; unfold len. repeat split; auto; try lia; intros; discriminate.
Qed.

Lemma J_step sch m : J sch m -> mon_ok m -> good_step pmxN J sch m.
Proof.
  intros HJ _. unfold good_step. inversion HJ as [f q n r sn stt m0 x Hf Hq Hnd Hsn Hm HI HR HNN Hfw Hn0|f ms fin stt m0 Hfin Hexd Hm Htot]; subst; clear HJ.
  - pose proof (MixInv.step_ok plan3 C3 plan3_1 plan3_ge2 C3_1 C3_ics C3_adj N S_ stg stg_cp (toM q n r sn) x 0%nat HI) as Hgood.
    unfold MixInv.Good in Hgood.
    destruct (MixInv.resume plan3 N S_ stg 3 (toM q n r sn)) as [t' o] eqn:Eres.
    destruct o as [a| |]; [| |contradiction].
    2:{ (* Stop only from PDone *) exfalso. unfold toM in Hgood. cbn [MixInv.pcv] in Hgood. destruct q as [stype| | | | | |]; cbn [pcM pc_ok] in *; try discriminate; try congruence.
        destruct stype; discriminate. }
    destruct Hgood as (x' & Hex & HI').
    destruct (Inv_facts q n r sn x HI Hq) as (Hrr & Hr & Hlen & Htop).
    destruct (resume_agrees N S_ stg f Hf 3 q n r sn false t' a Hq Hsn Hlen ltac:(lia) Hn0 (fun E => proj2 (Htop E)) Eres)
      as (q' & n' & r' & sn' & e' & Hon & -> & Hq' & Hsn' & He' & Hed & Hr' & Hn' & Hload & Hcl).
    unfold Sched.next, xsched. cbn [ob]. change {| Mixed.max_n := N; Mixed.snapshots := S_; Mixed.stg := stg; Mixed.plan := f |} with (cfgM N S_ stg f).
    rewrite Hon.
    set (sch' := {| ob := OMixed N S_ stg tab (Some f) (mst q' n' r' sn' e') false; started := true |}).
    destruct (mix_exec_agrees N S_ stg stg_cp x (mx m) a x' (is_exhausted sch') HR HNN Hcl) as (Hchk & HR' & HNN' & Hfx'); [|exact Hex|].
    { intros ->. subst sch'. cbn [is_exhausted ob mst Mixed.exhausted]. exact He'. }
    assert (Hexec : exec pmxN (negb (isnone (get_max_n sch'))) (is_exhausted sch') (mx m) a = inl (apply pmxN (is_exhausted sch') (mx m) a))
      by (apply exec_ok; exact Hchk).
    destruct (Inv_facts q' n' r' sn' x' HI' Hq') as (Hrr' & _).
    pose proof HR' as (Rf & _ & _ & Rrr & _).
    destruct m as [X merr cnt0]. unfold mon_ok in Hm. cbn [merr_] in Hm. subst merr. cbn [mx] in *.
    (* where the forward stands afterwards *)
    assert (Hfw' : forall v, MixInv.fwd x' = Some v -> v = n').
    { rewrite Hfx'. destruct a as [a0 a1 ? ? ?|? ? ?|k0 s1 s2|k0 s1 s2| |]; try (rewrite Hn'; exact Hfw).
      - intros v Hv; injection Hv as <-. symmetry. exact Hn'.
      - destruct (Hload k0 s1 s2 (or_introl eq_refl)) as (Eq & kk & e0 & rest & -> & Hi & _).
        destruct (Htop Eq) as [Hst _]. rewrite Hst. cbn [map e3 MixInv.enc fst snd MixInv.lookup]. rewrite Z.eqb_refl.
        inversion Hsn as [|? ? Hk _]; subst. cbn [fst] in Hk.
        destruct kk; cbn in Hk; try discriminate; cbn [k3]; try (intros v Hv; discriminate Hv). intros v Hv; injection Hv as <-. symmetry. apply Hi. reflexivity.
      - destruct (Hload k0 s1 s2 (or_intror eq_refl)) as (Eq & kk & e0 & rest & -> & Hi & _).
        destruct (Htop Eq) as [Hst _]. rewrite Hst. cbn [map e3 MixInv.enc fst snd MixInv.lookup]. rewrite Z.eqb_refl.
        inversion Hsn as [|? ? Hk _]; subst. cbn [fst] in Hk.
        destruct kk; cbn in Hk; try discriminate; cbn [k3]; try (intros v Hv; discriminate Hv). intros v Hv; injection Hv as <-. symmetry. apply Hi. reflexivity. }
    assert (Hn0' : 0 <= n').
    { destruct a as [a0 a1 ? ? ?|? ? ?|k0 s1 s2|k0 s1 s2| |]; try (rewrite Hn'; exact Hn0).
      - rewrite Hn'. destruct HNN' as (NNf' & _). apply NNf'. rewrite Hfx'. reflexivity.
      - destruct (Hload k0 s1 s2 (or_introl eq_refl)) as (Eq & kk & e0 & rest & -> & Hi & Ha).
        destruct (proj2 (Htop Eq) kk k0 e0 rest eq_refl). inversion Hsn as [|? ? Hk _]; subst. cbn [fst] in Hk.
        destruct kk; cbn in Hk; try discriminate; [rewrite (Ha eq_refl)|rewrite (Hi eq_refl)]; lia.
      - destruct (Hload k0 s1 s2 (or_intror eq_refl)) as (Eq & kk & e0 & rest & -> & Hi & Ha).
        destruct (proj2 (Htop Eq) kk k0 e0 rest eq_refl). inversion Hsn as [|? ? Hk _]; subst. cbn [fst] in Hk.
        destruct kk; cbn in Hk; try discriminate; [rewrite (Ha eq_refl)|rewrite (Hi eq_refl)]; lia. }
    rewrite (mon_step_ok pmxN sch' a {| mx := X; merr_ := None; mcount := cnt0 |} _ eq_refl Hexec).
    + split; [reflexivity|].
      destruct e' eqn:Ee.
      * (* EndReverse: done *)
        apply Jdone; [right; apply Hed; reflexivity|reflexivity|reflexivity|].
        cbn [mx]. destruct HR' as (_ & _ & _ & _ & _ & _ & _ & Rtot). rewrite Rtot.
        apply (MixInv.done_total plan3 C3 N S_ _ x' HI'). unfold toM. cbn [MixInv.pcv]. rewrite (proj1 Hed eq_refl). reflexivity.
      * apply (Jrun f q' n' r' sn' true _ x'); auto; try reflexivity.
        intros Hp. apply Hed in Hp. discriminate.
    + rewrite Rf. cbn [get_max_n sch' ob isnone andb get_n mst Mixed.n_].
      destruct (MixInv.fwd x') as [v|] eqn:Ev; [|reflexivity]. rewrite (Hfw' v eq_refl). apply Z.eqb_refl.
    + cbn [get_r sch' ob mst Mixed.r_]. rewrite Rrr. symmetry. exact Hrr'.
    + cbn [get_max_n sch' ob oz_ok xN pmx]. apply Z.eqb_refl.
  - (* finished *)
    unfold Sched.next, xsched. cbn [ob]. destruct fin.
    + apply Jdone; auto.
    + destruct Hfin as [Hfin|Hfin]; [discriminate|].
      destruct ms as [q n r sn e]. cbn [Mixed.pcv] in Hfin. subst q. cbn [Mixed.resume Mixed.pcv].
      apply Jdone; auto.
Qed.

(* C09 flags on the Mixed machine *)
Definition is_endrev (a : action) : bool := match a with EndReverse => true | _ => false end.
Lemma J_flags sch m : J sch m -> flag_rule is_endrev (fst (Sched.next sch)) (snd (Sched.next sch)).
Proof.
  intros HJ. split; [apply next_started|].
  inversion HJ as [f q n r sn stt m0 x Hf Hq Hnd Hsn Hm HI HR HNN Hfw Hn0|f ms fin stt m0 Hfin Hexd Hm Htot]; subst; clear HJ.
  - pose proof (MixInv.step_ok plan3 C3 plan3_1 plan3_ge2 C3_1 C3_ics C3_adj N S_ stg stg_cp (toM q n r sn) x 0%nat HI) as Hgood.
    unfold MixInv.Good in Hgood.
    destruct (MixInv.resume plan3 N S_ stg 3 (toM q n r sn)) as [t' o] eqn:Eres.
    destruct o as [a| |]; [| |contradiction].
    2:{ exfalso. unfold toM in Hgood. cbn [MixInv.pcv] in Hgood. destruct q as [stype| | | | | |]; cbn [pcM pc_ok] in *; try discriminate; try congruence.
        destruct stype; discriminate. }
    destruct (Inv_facts q n r sn x HI Hq) as (Hrr & Hr & Hlen & Htop).
    destruct (resume_agrees N S_ stg f Hf 3 q n r sn false t' a Hq Hsn Hlen ltac:(lia) Hn0 (fun E => proj2 (Htop E)) Eres)
      as (q' & n' & r' & sn' & e' & Hon & _ & _ & _ & He' & _).
    unfold Sched.next, xsched. cbn [ob]. change {| Mixed.max_n := N; Mixed.snapshots := S_; Mixed.stg := stg; Mixed.plan := f |} with (cfgM N S_ stg f).
    rewrite Hon. cbn [fst snd is_exhausted ob mst Mixed.exhausted]. rewrite He'. destruct a; reflexivity.
  - unfold Sched.next, xsched. cbn [ob]. destruct fin.
    + cbn [fst snd is_exhausted ob]. exact Hexd.
    + destruct Hfin as [Hfin|Hfin]; [discriminate|].
      destruct ms as [q n r sn e]. cbn [Mixed.pcv] in Hfin. subst q. cbn [Mixed.resume Mixed.pcv fst snd is_exhausted ob]. exact Hexd.
Qed.

(* both planner paths are correct on every sub-problem the iterator asks for *)
Lemma PlOK_memo : PlOK (memo_warm N S_).
Proof. intros m k Hm Hk _. apply MemoCoh.memo_warm_planC; lia. Qed.

Definition sch0 : sched := {| ob := OMixed N S_ stg tab None (Mixed.mk (Mixed.PInner KNone) 0 0 [] false) false; started := false |}.

Theorem mixed_cfg_run : forall k,
  let '(s', m, ls) := run_ops pmxN sch0 mon0 (repeat Next k) in
  mon_ok m /\ no_raise ls /\ (is_exhausted s' = true -> fwd_total (cnt (mx m)) = C3 N S_).
Proof.
  intros k.
  (* the planner the object fixes at its first next() *)
  assert (Hf : exists f, PlOK f /\ Sched.next sch0 = Sched.next (xsched f (Mixed.mk (Mixed.PInner KNone) 0 0 [] false) false false)).
  { destruct tab eqn:Et.
    - destruct (TabSim.tabulate_planC N S_ HN HS0) as (t & Ht & Hcells).
      exists (tget t). split; [intros m kk Hm Hk HkS; apply Hcells; lia|].
      unfold Sched.next, sch0, xsched. cbn [ob]. rewrite Et, Ht. reflexivity.
    - exists (memo_warm N S_). split; [exact PlOK_memo|].
      unfold Sched.next, sch0, xsched. cbn [ob]. rewrite Et. reflexivity. }
  destruct Hf as (f & Hf & Hnext).
  set (sch1 := xsched f (Mixed.mk (Mixed.PInner KNone) 0 0 [] false) false false) in *.
  assert (HJ0 : J sch1 mon0).
  { apply (Jrun f (Mixed.PInner KNone) 0 0 [] false mon0 MixInv.init_x); try reflexivity; try discriminate; try lia.
    - exact Hf.
    - constructor.
    - exact (MixInv.inv_init plan3 C3 N S_ HN HS HS0).
    - unfold RxM, x0, MixInv.init_x, mon0. cbn [mx fwd w_ics w_deps rr seen_endfwd cnt c0 fwd_total MixInv.fwd MixInv.wics MixInv.wdeps MixInv.rr MixInv.endfwd MixInv.store MixInv.done map].
      repeat split; auto; destruct stg_cp as [E|E]; rewrite E; reflexivity.
    - unfold NNm, MixInv.init_x. cbn [MixInv.fwd MixInv.wdeps MixInv.store MixInv.rr MixInv.lookup]. repeat split; try discriminate; try lia.
      intros v Hv; injection Hv as <-; lia.
    - intros v Hv. cbn in Hv. injection Hv as <-. reflexivity. }
  assert (Hsame : run_ops pmxN sch0 mon0 (repeat Next k) = run_ops pmxN sch1 mon0 (repeat Next k) \/ k = O).
  { destruct k as [|k]; [right; reflexivity|left]. cbn [repeat run_ops]. rewrite Hnext. reflexivity. }
  destruct Hsame as [-> | ->].
  - pose proof (run_nexts pmxN J J_step k _ _ HJ0 eq_refl) as H.
    destruct (run_ops pmxN sch1 mon0 (repeat Next k)) as [[s' m'] ls]. destruct H as (HJ & H1 & H2).
    split; [assumption|]. split; [assumption|].
    intros He. inversion HJ as [f0 q n r sn stt m0 x Hf0 Hq Hnd Hsn Hm HI HR HNN Hfw Hn0|f0 ms fin stt m0 Hfin Hexd Hm Htot]; subst.
    + cbn [is_exhausted xsched ob mst Mixed.exhausted] in He. discriminate.
    + exact Htot.
  - cbn [repeat run_ops]. repeat split; [constructor|]. intros He. cbn in He. discriminate.
Qed.
Theorem mixed_cfg_flags : forall k,
  let '(_, _, ls) := run_ops pmxN sch0 mon0 (repeat Next k) in Forall (line_fl (flag_rule is_endrev)) ls.
Proof.
  intros k.
  assert (Hf : exists f, PlOK f /\ Sched.next sch0 = Sched.next (xsched f (Mixed.mk (Mixed.PInner KNone) 0 0 [] false) false false)).
  { destruct tab eqn:Et.
    - destruct (TabSim.tabulate_planC N S_ HN HS0) as (t & Ht & Hcells).
      exists (tget t). split; [intros m kk Hm Hk HkS; apply Hcells; lia|].
      unfold Sched.next, sch0, xsched. cbn [ob]. rewrite Et, Ht. reflexivity.
    - exists (memo_warm N S_). split; [exact PlOK_memo|].
      unfold Sched.next, sch0, xsched. cbn [ob]. rewrite Et. reflexivity. }
  destruct Hf as (f & Hf & Hnext).
  set (sch1 := xsched f (Mixed.mk (Mixed.PInner KNone) 0 0 [] false) false false) in *.
  assert (HJ0 : J sch1 mon0).
  { apply (Jrun f (Mixed.PInner KNone) 0 0 [] false mon0 MixInv.init_x); try reflexivity; try discriminate; try lia.
    - exact Hf.
    - constructor.
    - exact (MixInv.inv_init plan3 C3 N S_ HN HS HS0).
    - unfold RxM, x0, MixInv.init_x, mon0. cbn [mx fwd w_ics w_deps rr seen_endfwd cnt c0 fwd_total MixInv.fwd MixInv.wics MixInv.wdeps MixInv.rr MixInv.endfwd MixInv.store MixInv.done map].
      repeat split; auto; destruct stg_cp as [E|E]; rewrite E; reflexivity.
    - unfold NNm, MixInv.init_x. cbn [MixInv.fwd MixInv.wdeps MixInv.store MixInv.rr MixInv.lookup]. repeat split; try discriminate; try lia.
      intros v Hv; injection Hv as <-; lia.
    - intros v Hv. cbn in Hv. injection Hv as <-. reflexivity. }
  assert (Hsame : run_ops pmxN sch0 mon0 (repeat Next k) = run_ops pmxN sch1 mon0 (repeat Next k) \/ k = O).
  { destruct k as [|k]; [right; reflexivity|left]. cbn [repeat run_ops]. rewrite Hnext. reflexivity. }
  destruct Hsame as [-> | ->].
  - pose proof (run_nexts_fl pmxN J (flag_rule is_endrev) (fun s m HJ Hm => conj (J_step s m HJ Hm) (J_flags s m HJ)) k _ _ HJ0 eq_refl) as H.
    destruct (run_ops pmxN sch1 mon0 (repeat Next k)) as [[s' m'] ls]. destruct H as (_ & _ & _ & H). exact H.
  - cbn [repeat run_ops]. constructor.
Qed.
(* C16, streams: the next step does not depend on which correct planner the object holds (nor on the path flag) *)
Lemma k3_inj a b : cpk a = true -> cpk b = true -> k3 a = k3 b -> a = b.
Proof. destruct a, b; cbn; congruence. Qed.
Lemma e3_inj_list : forall s1 s2, stack_ok s1 -> stack_ok s2 -> map e3 s1 = map e3 s2 -> s1 = s2.
Proof.
  induction s1 as [|[[k1 p1] e1] s1 IH]; intros [|[[k2 p2] e2] s2] H1 H2 H; cbn [map] in H; try discriminate; [reflexivity|].
  inversion H1; inversion H2; subst. injection H as Hk <- <- Hr. cbn [fst] in *. rewrite (k3_inj k1 k2) by assumption. f_equal. apply IH; assumption.
Qed.
Lemma toM_inj q1 n1 r1 s1 q2 n2 r2 s2 : pc_ok q1 = true -> pc_ok q2 = true -> stack_ok s1 -> stack_ok s2 ->
  toM q1 n1 r1 s1 = toM q2 n2 r2 s2 -> q1 = q2 /\ n1 = n2 /\ r1 = r2 /\ s1 = s2.
Proof.
  intros Hq1 Hq2 Hs1 Hs2 H. unfold toM in H. injection H as Hq -> -> Hs. rewrite (e3_inj_list s1 s2 Hs1 Hs2 Hs). repeat split; auto.
  destruct q1 as [k1| | | | | |], q2 as [k2| | | | | |]; cbn [pc_ok] in Hq1, Hq2; try discriminate; cbn [pcM] in Hq;
    try (destruct k1; discriminate); try (destruct k2; discriminate); try congruence.
  destruct k1, k2; cbn in Hq1, Hq2, Hq; try discriminate; congruence.
Qed.

Definition xsched2 (t2 : bool) (f : Z -> Z -> res plan_t) (m : Mixed.st) (fin stt : bool) : sched :=
  {| ob := OMixed N S_ stg t2 (Some f) m fin; started := stt |}.
Lemma next_plan_indep sch m f2 t2 : J sch m -> PlOK f2 ->
  exists f1 ms fin stt ms' fin' o, sch = xsched f1 ms fin stt /\
    Sched.next sch = (xsched f1 ms' fin' true, o) /\ Sched.next (xsched2 t2 f2 ms fin stt) = (xsched2 t2 f2 ms' fin' true, o).
Proof.
  intros HJ Hf2.
  inversion HJ as [f q n r sn stt0 m0 x Hf Hq Hnd Hsn Hm HI HR HNN Hfw Hn0|f ms0 fin0 stt0 m0 Hfin Hexd Hm Htot]; subst.
  - pose proof (MixInv.step_ok plan3 C3 plan3_1 plan3_ge2 C3_1 C3_ics C3_adj N S_ stg stg_cp (toM q n r sn) x 0%nat HI) as Hgood.
    unfold MixInv.Good in Hgood.
    destruct (MixInv.resume plan3 N S_ stg 3 (toM q n r sn)) as [t' o] eqn:Eres.
    destruct o as [a| |]; [| |contradiction].
    2:{ exfalso. unfold toM in Hgood. cbn [MixInv.pcv] in Hgood. destruct q as [stype| | | | | |]; cbn [pcM pc_ok] in *; try discriminate; try congruence.
        destruct stype; discriminate. }
    destruct (Inv_facts q n r sn x HI Hq) as (Hrr & Hr & Hlen & Htop).
    destruct (resume_agrees N S_ stg f Hf 3 q n r sn false t' a Hq Hsn Hlen ltac:(lia) Hn0 (fun E => proj2 (Htop E)) Eres)
      as (q1 & n1 & r1 & sn1 & e1 & Hon1 & Ht1 & Hq1 & Hsn1 & He1 & _).
    destruct (resume_agrees N S_ stg f2 Hf2 3 q n r sn false t' a Hq Hsn Hlen ltac:(lia) Hn0 (fun E => proj2 (Htop E)) Eres)
      as (q2 & n2 & r2 & sn2 & e2 & Hon2 & Ht2 & Hq2 & Hsn2 & He2 & _).
    rewrite Ht1 in Ht2. destruct (toM_inj _ _ _ _ _ _ _ _ Hq1 Hq2 Hsn1 Hsn2 Ht2) as (<- & <- & <- & <-). rewrite <- He1 in He2. subst e2.
    exists f, (mst q n r sn false), false, stt0, (mst q1 n1 r1 sn1 e1), false, (Yield a). split; [reflexivity|].
    unfold Sched.next, xsched, xsched2. cbn [ob].
    change {| Mixed.max_n := N; Mixed.snapshots := S_; Mixed.stg := stg; Mixed.plan := f |} with (cfgM N S_ stg f).
    change {| Mixed.max_n := N; Mixed.snapshots := S_; Mixed.stg := stg; Mixed.plan := f2 |} with (cfgM N S_ stg f2).
    rewrite Hon1, Hon2. split; reflexivity.
  - unfold Sched.next, xsched, xsched2. cbn [ob]. destruct fin0.
    + exists f, ms0, true, stt0, ms0, true, StopIteration. repeat split; reflexivity.
    + destruct Hfin as [Hfin|Hfin]; [discriminate|]. destruct ms0 as [q n r sn e]. cbn [Mixed.pcv] in Hfin. subst q.
      exists f, (Mixed.mk Mixed.PDone n r sn e), false, stt0, (Mixed.mk Mixed.PDone n r sn e), true, StopIteration. repeat split; reflexivity.
Qed.
(* the object after its first request has fixed a correct planner, and starts in the invariant *)
Definition st0 : Mixed.st := Mixed.mk (Mixed.PInner KNone) 0 0 [] false.
Lemma start_J : exists f, PlOK f /\ Sched.next sch0 = Sched.next (xsched f st0 false false) /\ J (xsched f st0 false false) mon0.
Proof.
  assert (Hf : exists f, PlOK f /\ Sched.next sch0 = Sched.next (xsched f st0 false false)).
  { destruct tab eqn:Et.
    - destruct (TabSim.tabulate_planC N S_ HN HS0) as (t & Ht & Hcells).
      exists (tget t). split; [intros m kk Hm Hk HkS; apply Hcells; lia|].
      unfold Sched.next, sch0, xsched. cbn [ob]. rewrite Et, Ht. reflexivity.
    - exists (memo_warm N S_). split; [exact PlOK_memo|].
      unfold Sched.next, sch0, xsched. cbn [ob]. rewrite Et. reflexivity. }
  destruct Hf as (f & Hf & Hnext). exists f. split; [exact Hf|]. split; [exact Hnext|].
  apply (Jrun f (Mixed.PInner KNone) 0 0 [] false mon0 MixInv.init_x); try reflexivity; try discriminate; try lia.
  - exact Hf.
  - constructor.
  - exact (MixInv.inv_init plan3 C3 N S_ HN HS HS0).
  - unfold RxM, x0, MixInv.init_x, mon0. cbn [mx fwd w_ics w_deps rr seen_endfwd cnt c0 fwd_total MixInv.fwd MixInv.wics MixInv.wdeps MixInv.rr MixInv.endfwd MixInv.store MixInv.done map].
    repeat split; auto; destruct stg_cp as [E|E]; rewrite E; reflexivity.
  - unfold NNm, MixInv.init_x. cbn [MixInv.fwd MixInv.wdeps MixInv.store MixInv.rr MixInv.lookup]. repeat split; try discriminate; try lia.
    intros v Hv; injection Hv as <-; lia.
  - intros v Hv. cbn in Hv. injection Hv as <-. reflexivity.
Qed.
(* ---- termination (C02 / C09): a measure on (r, pc, n) that every yielded action decreases ---- *)
Definition inner (q : Mixed.pc) (n r : Z) : Z :=
  match q with Mixed.PAfterRev => N + 2 | Mixed.PDoRev | Mixed.PDone | Mixed.PFR2 _ => 0 | _ => N - r - n + 1 end.
Definition muS (sch : sched) : Z :=
  match ob sch with OMixed _ _ _ _ _ ms _ => (N - Mixed.r_ ms) * (N + 3) + inner (Mixed.pcv ms) (Mixed.n_ ms) (Mixed.r_ ms) | _ => 0 end.
Definition inner_like (q : Mixed.pc) : bool := match q with Mixed.PInner _ | Mixed.PAfterAdj _ _ | Mixed.PAfterIcs _ _ => true | _ => false end.
Lemma Inv_n_le q n r sn x : MInv (toM q n r sn) x -> pc_ok q = true -> inner_like q = true -> n <= N - r.
Proof.
  intros HI Hok Hq. unfold MixInv.Inv, MixInv.InvCore, MixInv.norm, toM in HI. cbn [MixInv.pcv MixInv.n_ MixInv.r_ MixInv.snaps] in HI.
  destruct q as [stype|a b|a b| | | |]; cbn [inner_like] in Hq; try discriminate.
  - assert (Hp : pcM (Mixed.PInner stype) = MixInv.PInner (match stype with KNone => None | k => Some (k3 k) end)) by (destruct stype; reflexivity).
    rewrite Hp in HI. cbn [MixInv.mk MixInv.pcv MixInv.n_ MixInv.r_ MixInv.snaps] in HI.
    destruct HI as (_ & _ & _ & _ & _ & [H|[H|H]]).
    + destruct H as (H & _); lia.
    + destruct H as (e & rest & Hs & Hwf & _). rewrite Hs in Hwf. cbn [MixInv.WF] in Hwf. lia.
    + destruct H as (H & _); lia.
  - cbn [pcM MixInv.mk MixInv.pcv MixInv.n_ MixInv.r_ MixInv.snaps] in HI.
    destruct HI as (_ & _ & _ & _ & _ & [H|[H|H]]).
    + destruct H as (H & _); lia.
    + destruct H as (e & rest & Hs & Hwf & _). rewrite Hs in Hwf. cbn [MixInv.WF] in Hwf. lia.
    + destruct H as (H & _); lia.
  - cbn [pcM MixInv.mk MixInv.pcv MixInv.n_ MixInv.r_ MixInv.snaps] in HI.
    destruct HI as (_ & _ & _ & _ & _ & [H|[H|H]]).
    + destruct H as (H & _); lia.
    + destruct H as (e & rest & Hs & Hwf & _). rewrite Hs in Hwf. cbn [MixInv.WF] in Hwf. lia.
    + destruct H as (H & _); lia.
Qed.
Lemma mexec_fwd x n0 n1 wi wa sg x' : MixInv.exec N S_ stg x (Forward n0 n1 wi wa sg) = Some x' -> MixInv.fwd x = Some n0 /\ n0 < n1.
Proof.
  cbn [MixInv.exec]. destruct (MixInv.fwd x) as [f|]; [|discriminate].
  destruct (Z.eqb_spec f n0), (Z.ltb_spec n0 n1); cbn [andb negb]; try discriminate. intros _. subst. auto.
Qed.
Lemma pcM_inner_like q : pc_ok q = true ->
  (match pcM q with MixInv.PInner (Some _) | MixInv.PAfterAdj _ _ | MixInv.PAfterIcs _ _ => True | _ => False end -> inner_like q = true) /\
  (pcM q = MixInv.PDoRev -> q = Mixed.PDoRev) /\ (pcM q = MixInv.PAfterRev -> q = Mixed.PAfterRev) /\
  (pcM q = MixInv.PInner None -> q = Mixed.PInner KNone) /\ (pcM q = MixInv.PDone -> q = Mixed.PDone).
Proof.
  destruct q as [k| | | | | |]; cbn [pc_ok pcM inner_like]; intros H; try discriminate; repeat split; try tauto; try discriminate; try reflexivity.
  all: destruct k; cbn in *; try discriminate; try tauto; reflexivity.
Qed.
Lemma muS_nonneg sch m : J sch m -> is_exhausted sch = false -> 0 <= muS sch.
Proof.
  intros HJ He. inversion HJ as [f q n r sn stt m0 x Hf Hq Hnd Hsn Hm HI HR HNN Hfw Hn0|f ms fin stt m0 Hfin Hexd Hm Htot]; subst.
  - destruct (Inv_facts q n r sn x HI Hq) as (_ & Hr & _).
    unfold muS, xsched. cbn [ob mst Mixed.r_ Mixed.pcv Mixed.n_].
    assert (Hin : 0 <= inner q n r).
    { destruct (inner_like q) eqn:El.
      - pose proof (Inv_n_le q n r sn x HI Hq El). destruct q; cbn [inner_like] in El; try discriminate; cbn [inner]; lia.
      - destruct q; cbn [inner_like] in El; try discriminate; cbn [inner]; lia. }
    nia.
  - cbn in He. congruence.
Qed.
Lemma muS_dec sch m : J sch m -> is_exhausted sch = false -> muS (fst (Sched.next sch)) < muS sch.
Proof.
  intros HJ He. inversion HJ as [f q n r sn stt m0 x Hf Hq Hnd Hsn Hm HI HR HNN Hfw Hn0|f ms fin stt m0 Hfin Hexd Hm Htot]; subst; [|cbn in He; congruence].
  pose proof (MixInv.step_ok plan3 C3 plan3_1 plan3_ge2 C3_1 C3_ics C3_adj N S_ stg stg_cp (toM q n r sn) x 0%nat HI) as Hgood.
  unfold MixInv.Good in Hgood.
  destruct (MixInv.resume plan3 N S_ stg 3 (toM q n r sn)) as [t' o] eqn:Eres.
  destruct o as [a| |]; [| |contradiction].
  2:{ exfalso. unfold toM in Hgood. cbn [MixInv.pcv] in Hgood. destruct q as [stype| | | | | |]; cbn [pcM pc_ok] in *; try discriminate; try congruence.
      destruct stype; discriminate. }
  destruct Hgood as (x' & Hex & HI').
  destruct (Inv_facts q n r sn x HI Hq) as (Hrr & Hr & Hlen & Htop).
  destruct (resume_agrees N S_ stg f Hf 3 q n r sn false t' a Hq Hsn Hlen ltac:(lia) Hn0 (fun E => proj2 (Htop E)) Eres)
    as (q' & n' & r' & sn' & e' & Hon & Ht' & Hq' & Hsn' & He' & Hed & Hr' & Hn' & Hload & Hcl).
  pose proof (MixInv.resume_pc plan3 N S_ stg 3 _ _ _ Eres) as Hpc. rewrite Ht' in Hpc. unfold toM in Hpc. cbn [MixInv.pcv] in Hpc.
  pose proof (MixInv.resume_src plan3 N S_ stg 3 _ _ _ Eres) as Hsrc. unfold toM in Hsrc. cbn [MixInv.pcv] in Hsrc.
  destruct (pcM_inner_like q' Hq') as (Pin & Pdo & Paf & Pno & Pdn).
  destruct (pcM_inner_like q Hq) as (Qin & Qdo & Qaf & Qno & Qdn).
  unfold Sched.next, xsched. cbn [ob]. change {| Mixed.max_n := N; Mixed.snapshots := S_; Mixed.stg := stg; Mixed.plan := f |} with (cfgM N S_ stg f).
  rewrite Hon. unfold muS. cbn [fst ob mst Mixed.r_ Mixed.pcv Mixed.n_].
  (* the source state is inner-like unless stated otherwise *)
  assert (Hsrc_in : forall b, MixInv.before_ok a (pcM q) = true -> (match a with Forward _ _ _ _ _ | EndForward => true | _ => false end) = b -> b = true -> inner_like q = true).
  { intros b Hb Hab ->. destruct a; try discriminate; destruct (pcM q) as [[k|]| | | | |] eqn:Ep; cbn in Hb; try discriminate;
      destruct q as [kk| | | | | |]; cbn [pcM pc_ok inner_like] in *; try reflexivity; try discriminate; destruct kk; discriminate. }
  destruct a as [n0 n1 wi wa sg|n1 n0 cl|k s1 s2|k s1 s2| |].
  - (* Forward *)
    destruct (mexec_fwd x n0 n1 wi wa sg x' Hex) as [Hfx Hlt]. pose proof (Hfw n0 Hfx) as En. subst n0. subst r' n'.
    pose proof (Hsrc_in true Hsrc eq_refl eq_refl) as Hil.
    assert (Hil' : inner_like q' = true) by (apply Pin; destruct (pcM q') as [[k|]| | | | |]; cbn in Hpc; try discriminate; exact I).
    destruct q; cbn [inner_like] in Hil; try discriminate; destruct q'; cbn [inner_like] in Hil'; try discriminate; cbn [inner]; lia.
  - (* Reverse *)
    subst r' n'. assert (Hq'r : q' = Mixed.PAfterRev) by (apply Paf; destruct (pcM q') as [[k|]| | | | |]; cbn in Hpc; try discriminate; reflexivity).
    subst q'. cbn [inner].
    assert (Hin : 0 <= inner q n r).
    { destruct (inner_like q) eqn:El.
      - pose proof (Inv_n_le q n r sn x HI Hq El). destruct q; cbn [inner_like] in El; try discriminate; cbn [inner]; lia.
      - destruct q; cbn [inner_like] in El; try discriminate; cbn [inner]; lia. }
    nia.
  - (* Copy *)
    subst r'. destruct (Hload k s1 s2 (or_introl eq_refl)) as (Eq & kk & e0 & rest & Esn & Hi & Ha). subst q.
    assert (Hq'n : q' = Mixed.PInner KNone) by (apply Pno; destruct (pcM q') as [[k0|]| | | | |]; cbn in Hpc; try discriminate; reflexivity).
    subst q'. cbn [inner]. destruct (proj2 (Htop eq_refl) kk k e0 rest Esn).
    assert (0 <= n') by (subst sn; inversion Hsn as [|? ? Hk _]; subst; cbn [fst] in Hk; destruct kk; cbn in Hk; try discriminate; [rewrite (Ha eq_refl)|rewrite (Hi eq_refl)]; lia).
    lia.
  - (* Move *)
    subst r'. destruct (Hload k s1 s2 (or_intror eq_refl)) as (Eq & kk & e0 & rest & Esn & Hi & Ha). subst q.
    assert (Hq'n : q' = Mixed.PInner KNone) by (apply Pno; destruct (pcM q') as [[k0|]| | | | |]; cbn in Hpc; try discriminate; reflexivity).
    subst q'. cbn [inner]. destruct (proj2 (Htop eq_refl) kk k e0 rest Esn).
    assert (0 <= n') by (subst sn; inversion Hsn as [|? ? Hk _]; subst; cbn [fst] in Hk; destruct kk; cbn in Hk; try discriminate; [rewrite (Ha eq_refl)|rewrite (Hi eq_refl)]; lia).
    lia.
  - (* EndForward *)
    subst r' n'. pose proof (Hsrc_in true Hsrc eq_refl eq_refl) as Hil.
    assert (Hq'd : q' = Mixed.PDoRev) by (apply Pdo; destruct (pcM q') as [[k0|]| | | | |]; cbn in Hpc; try discriminate; reflexivity).
    subst q'. cbn [inner]. pose proof (Inv_n_le q n r sn x HI Hq Hil). destruct q; cbn [inner_like] in Hil; try discriminate; cbn [inner]; lia.
  - (* EndReverse *)
    subst r' n'. assert (Hq'd : q' = Mixed.PDone) by (apply Pdn; destruct (pcM q') as [[k0|]| | | | |]; cbn in Hpc; try discriminate; reflexivity).
    subst q'. cbn [inner].
    assert (Hqa : q = Mixed.PAfterRev) by (apply Qaf; destruct (pcM q) as [[k0|]| | | | |]; cbn in Hsrc; try discriminate; reflexivity).
    subst q. cbn [inner]. lia.
Qed.
Lemma exh_stays sch m : J sch m -> is_exhausted sch = true -> is_exhausted (fst (Sched.next sch)) = true.
Proof. intros HJ He. pose proof (J_flags sch m HJ) as [_ Hfl]. destruct (snd (Sched.next sch)) as [a| |e] eqn:Eo.
  - inversion HJ as [f q n r sn stt m0 x Hf Hq Hnd Hsn Hm HI HR HNN Hfw Hn0|f ms fin stt m0 Hfin Hexd Hm Htot]; subst; [cbn in He; discriminate|].
    unfold Sched.next, xsched in Eo |- *. cbn [ob] in Eo |- *. destruct fin; [cbn in Eo; discriminate|].
    destruct Hfin as [Hfin|Hfin]; [discriminate|]. destruct ms as [q n r sn e]. cbn [Mixed.pcv] in Hfin. subst q. cbn in Eo. discriminate.
  - exact Hfl.
  - inversion HJ as [f q n r sn stt m0 x Hf Hq Hnd Hsn Hm HI HR HNN Hfw Hn0|f ms fin stt m0 Hfin Hexd Hm Htot]; subst; [cbn in He; discriminate|].
    unfold Sched.next, xsched in Eo |- *. cbn [ob] in Eo |- *. destruct fin; [cbn in Eo; discriminate|].
    destruct Hfin as [Hfin|Hfin]; [discriminate|]. destruct ms as [q n r sn e0]. cbn [Mixed.pcv] in Hfin. subst q. cbn in Eo. discriminate.
Qed.

Theorem mixed_cfg_terminates : forall k, N * (N + 3) + N + 1 < Z.of_nat k ->
  let '(s', m, _) := run_ops pmxN sch0 mon0 (repeat Next k) in is_exhausted s' = true /\ fwd_total (cnt (mx m)) = C3 N S_.
Proof.
  intros k Hk. destruct (start_J) as (f & Hf & Hnext & HJ0).
  destruct k as [|k]; [lia|].
  assert (Hsame : run_ops pmxN sch0 mon0 (repeat Next (S k)) = run_ops pmxN (xsched f st0 false false) mon0 (repeat Next (S k))).
  { cbn [repeat run_ops]. rewrite Hnext. reflexivity. }
  rewrite Hsame.
  pose proof (run_nexts_fin pmxN J muS is_exhausted J_step muS_nonneg muS_dec exh_stays (S k) _ _ HJ0 eq_refl) as Hfin.
  pose proof (run_nexts pmxN J J_step (S k) _ _ HJ0 eq_refl) as Hrun.
  destruct (run_ops pmxN (xsched f st0 false false) mon0 (repeat Next (S k))) as [[s' m'] ls]. cbn [fst] in Hfin.
  destruct Hrun as (HJ & _ & _).
  assert (He : is_exhausted s' = true).
  { apply Hfin. right. unfold muS, xsched, st0. cbn [ob Mixed.mk Mixed.r_ Mixed.pcv Mixed.n_ inner]. nia. }
  split; [exact He|].
  inversion HJ as [f0 q n r sn stt m0 x Hf0 Hq Hnd Hsn Hm HI HR HNN Hfw Hn0|f0 ms fin stt m0 Hfin' Hexd Hm Htot]; subst.
  - cbn in He. discriminate.
  - exact Htot.
Qed.
End RUN.

(* MixedCheckpointSchedule, end to end: both storages, both planner paths, every N and every unit count *)
Theorem mixed_run N s sg (tab : bool) k : 1 <= N -> 0 <= s -> (2 <= N -> 1 <= s) -> sg = RAM \/ sg = DISK ->
  exists o0 m ls, run_case (PMixed N s sg tab) (pmx N (Z.min s (N - 1)) sg) (repeat Next k) = Ok (o0, m, ls) /\ mon_ok m /\ no_raise ls.
Proof.
  intros HN Hs0 Hs Hsg. unfold run_case, Sched.construct, Mixed.construct.
  destruct (Z.ltb_spec s (Z.min 1 (N - 1))); [lia|].
  assert (Hc : match sg with RAM | DISK => if N <? 1 then Err ValueError else Ok (Z.min s (N - 1)) | _ => Err ValueError end = Ok (Z.min s (N - 1))).
  { destruct (Z.ltb_spec N 1); [lia|]. destruct Hsg as [-> | ->]; reflexivity. }
  rewrite Hc. cbn [bind].
  pose proof (mixed_cfg_run N (Z.min s (N - 1)) sg tab HN ltac:(lia) ltac:(lia) Hsg k) as Hrun. unfold sch0 in Hrun.
  destruct (run_ops _ _ mon0 (repeat Next k)) as [[s' m'] ls]. destruct Hrun as (H1 & H2 & _).
  eexists _, _, _. split; [reflexivity|]. split; assumption.
Qed.
Print Assumptions mixed_run.

Theorem mixed_flags N s sg (tab : bool) k : 1 <= N -> 0 <= s -> (2 <= N -> 1 <= s) -> sg = RAM \/ sg = DISK ->
  exists o0 m ls, run_case (PMixed N s sg tab) (pmx N (Z.min s (N - 1)) sg) (repeat Next k) = Ok (o0, m, ls) /\
     Forall (line_fl (flag_rule is_endrev)) ls.
Proof.
  intros HN Hs0 Hs Hsg. unfold run_case, Sched.construct, Mixed.construct.
  destruct (Z.ltb_spec s (Z.min 1 (N - 1))); [lia|].
  assert (Hc : match sg with RAM | DISK => if N <? 1 then Err ValueError else Ok (Z.min s (N - 1)) | _ => Err ValueError end = Ok (Z.min s (N - 1))).
  { destruct (Z.ltb_spec N 1); [lia|]. destruct Hsg as [-> | ->]; reflexivity. }
  rewrite Hc. cbn [bind].
  pose proof (mixed_cfg_flags N (Z.min s (N - 1)) sg tab HN ltac:(lia) ltac:(lia) Hsg k) as Hrun. unfold sch0 in Hrun.
  destruct (run_ops _ _ mon0 (repeat Next k)) as [[s' m'] ls].
  eexists _, _, _. split; [reflexivity|]. exact Hrun.
Qed.
Print Assumptions mixed_flags.

(* C02 / C06 / C09: the stream is complete: within N (N + 3) + N + 2 requests the schedule is exhausted, and by then the
   reference executor has carried out exactly C N S forward steps *)
Theorem mixed_terminates N s sg (tab : bool) k : 1 <= N -> 0 <= s -> (2 <= N -> 1 <= s) -> sg = RAM \/ sg = DISK ->
  N * (N + 3) + N + 1 < Z.of_nat k ->
  let '(s', m, _) := run_ops (pmx N (Z.min s (N - 1)) sg) (sch0 N (Z.min s (N - 1)) sg tab) mon0 (repeat Next k) in
  is_exhausted s' = true /\ fwd_total (cnt (mx m)) = C3 N (Z.min s (N - 1)).
Proof. intros HN Hs0 Hs Hsg Hk. exact (mixed_cfg_terminates N (Z.min s (N - 1)) sg tab HN ltac:(lia) ltac:(lia) Hsg k Hk). Qed.
Print Assumptions mixed_terminates.
