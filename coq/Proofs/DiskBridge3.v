(* DiskRevolve / PeriodicDiskRevolve, bridge 3: RevBridge3.v again, over the RAM + DISK executor of DiskBlk.v.  The last action,
   EndReverse, is accepted iff no dead checkpoint is left on DISK; otherwise the monitor records E_leftover there (finding D8)
   and nothing else ever goes wrong. *)
From Coq Require Import ZArith List Lia Bool.
Require Import Actions Ops RevConv Exec Sched ExecFacts RunFacts MSBridge OnlineFlags RevBridge1 RevBridge2 DiskBridge2.
Require RevBlk DiskBlk MSPot MSTerm RevBridge3.
Import ListNotations.
Open Scope Z_scope.

Ltac brk H := repeat match type of H with
  | context [match ?x with _ => _ end] => let E := fresh "E" in destruct x eqn:E
  | context [if ?x then _ else _] => let E := fresh "E" in destruct x eqn:E
  end.

Notation dxst := DiskBlk.dxst.
Notation mxx := DiskBlk.mx.
(* the converter's view of the position agrees with the executor's *)
Definition agree (c : cst) (X : dxst) : Prop := RevBridge3.agree c (mxx X).
Definition WD (X : dxst) : Prop := RevBridge3.WD (mxx X).
Fixpoint AgP (N R : Z) (c : cst) (X : dxst) (p : list action) : Prop :=
  match p with [] => agree c X | a :: rest => forall X1, DiskBlk.dexec N R X a = Some X1 -> agree c X1 /\ AgP N R c X1 rest end.

(* the two disk actions move the position like their memory twins *)
Lemma dexec_cases N R X a X1 : DiskBlk.dexec N R X a = Some X1 ->
  (exists x1, RevBlk.exec N R (mxx X) a = Some x1 /\ mxx X1 = x1) \/
  (exists n0 n1 wi wa, a = Forward n0 n1 wi wa DISK /\ RevBlk.fwd (mxx X1) = Some n1 /\ RevBlk.rr (mxx X1) = RevBlk.rr (mxx X) /\ RevBlk.wdeps (mxx X1) = None) \/
  (exists n, (a = Copy n DISK WORK \/ a = Move n DISK WORK) /\ RevBlk.fwd (mxx X1) = Some n /\ RevBlk.rr (mxx X1) = RevBlk.rr (mxx X) /\ RevBlk.wdeps (mxx X1) = None).
Proof.
  intros H. destruct X as [x dk].
  destruct a as [n0 n1 wi wa sg|n1 n0 cl|n src dst|n src dst| |]; cbn [DiskBlk.dexec DiskBlk.mx DiskBlk.dk] in H.
  - destruct sg; try (destruct (RevBlk.exec N R x _) as [x1|] eqn:E; [|discriminate]; injection H as <-; left; eauto).
    destruct (RevBlk.fwd x); [|discriminate]. destruct (negb _); [discriminate|]. injection H as <-. right; left. eexists _, _, _, _. cbn. auto.
  - destruct (RevBlk.exec N R x _) as [x1|] eqn:E; [|discriminate]; injection H as <-; left; eauto.
  - destruct src; try (destruct (RevBlk.exec N R x _) as [x1|] eqn:E; [|discriminate]; injection H as <-; left; eauto).
    destruct dst; try (destruct (RevBlk.exec N R x _) as [x1|] eqn:E; [|discriminate]; injection H as <-; left; eauto).
    destruct (negb _); [discriminate|]. destruct (RevBlk.lookup n dk) as [[a0 b0]|]; [|discriminate]. destruct (negb _); [discriminate|].
    injection H as <-. right; right. exists n. cbn. auto.
  - destruct src; try (destruct (RevBlk.exec N R x _) as [x1|] eqn:E; [|discriminate]; injection H as <-; left; eauto).
    destruct dst; try (destruct (RevBlk.exec N R x _) as [x1|] eqn:E; [|discriminate]; injection H as <-; left; eauto).
    destruct (negb _); [discriminate|]. destruct (RevBlk.lookup n dk) as [[a0 b0]|]; [|discriminate]. destruct (negb _); [discriminate|].
    injection H as <-. right; right. exists n. cbn. auto.
  - destruct (RevBlk.exec N R x _) as [x1|] eqn:E; [|discriminate]; injection H as <-; left; eauto.
  - destruct (RevBlk.exec N R x _) as [x1|] eqn:E; [|discriminate]; injection H as <-; left; eauto.
Qed.
Lemma dexec_WD N R X a X1 : DiskBlk.dexec N R X a = Some X1 -> WD X -> WD X1.
Proof.
  intros H Hw. unfold WD in *. destruct (dexec_cases N R X a X1 H) as [(x1 & He & <-)|[(n0 & n1 & wi & wa & _ & _ & _ & Hd)|(n & _ & _ & _ & Hd)]].
  - eapply RevBridge3.exec_WD; eauto.
  - intros a0 b0 E. rewrite Hd in E. discriminate.
  - intros a0 b0 E. rewrite Hd in E. discriminate.
Qed.
Lemma dexec_fwd_pos N R X n0 n1 wi wa sg X1 : DiskBlk.dexec N R X (Forward n0 n1 wi wa sg) = Some X1 -> RevBlk.fwd (mxx X1) = Some n1 /\ RevBlk.rr (mxx X1) = RevBlk.rr (mxx X).
Proof.
  intros H. destruct (dexec_cases N R X _ X1 H) as [(x1 & He & <-)|[(a & b & c & d & E & Hf & Hr & _)|(n & [E|E] & _)]]; try discriminate.
  - eapply RevBridge3.exec_fwd_pos; eauto.
  - injection E as -> -> -> ->. auto.
Qed.
Lemma dexec_endfwd_pos N R X X1 : DiskBlk.dexec N R X EndForward = Some X1 -> RevBlk.fwd (mxx X1) = RevBlk.fwd (mxx X) /\ RevBlk.rr (mxx X1) = RevBlk.rr (mxx X).
Proof.
  intros H. destruct (dexec_cases N R X _ X1 H) as [(x1 & He & <-)|[(a & b & c & d & E & _)|(n & [E|E] & _)]]; try discriminate.
  eapply RevBridge3.exec_endfwd_pos; eauto.
Qed.
Lemma dexec_load_pos N R X (a : action) n s d X1 : a = Copy n s d \/ a = Move n s d -> DiskBlk.dexec N R X a = Some X1 -> RevBlk.fwd (mxx X1) = Some n /\ RevBlk.rr (mxx X1) = RevBlk.rr (mxx X).
Proof.
  intros Ha H. destruct (dexec_cases N R X _ X1 H) as [(x1 & He & <-)|[(a0 & b & c & d0 & E & _)|(n' & E & Hf & Hr & _)]].
  - eapply RevBridge3.exec_load_pos; eauto.
  - destruct Ha as [-> | ->]; discriminate.
  - assert (n' = n) by (destruct Ha as [-> | ->], E as [E|E]; congruence). subst. auto.
Qed.
Lemma dexec_rev_pos N R X n1 n0 cl X1 : DiskBlk.dexec N R X (Reverse n1 n0 cl) = Some X1 -> WD X -> RevBlk.fwd (mxx X1) = RevBlk.fwd (mxx X) /\ RevBlk.rr (mxx X1) = RevBlk.rr (mxx X) + 1.
Proof.
  intros H Hw. destruct (dexec_cases N R X _ X1 H) as [(x1 & He & <-)|[(a & b & c & d & E & _)|(n & [E|E] & _)]]; try discriminate.
  eapply RevBridge3.exec_rev_pos; eauto.
Qed.

Lemma conv1_agree N R L i c c1 l (x : dxst) : conv1 N L i c = Ok (c1, l) -> agree c x -> WD x -> AgP N R c1 x l.
Proof.
  unfold conv1. intros H [Hf Hr] Hw.
  destruct (nth_error L i) as [o|]; [|discriminate]. destruct (conv_n0_st o) as [[n0 sg]|e] eqn:Ec; [|discriminate]. cbn [bind] in H.
  destruct o as [a b|a b|k j|k j|k j|k j|k j|j|j|j|j|j|j|j|j].
  - (* OF *)
    destruct (negb (n0 =? n_ c)); [discriminate|].
    destruct (match i with O => last_op L | S j => nth_error L j end) as [pv|]; [|discriminate].
    destruct (conv_n0_st pv) as [[w ws]|]; [|discriminate]. cbn [bind] in H.
    match type of H with (do c2 <- ?M; _) = _ => destruct M as [c2|] eqn:E2; [|discriminate] end. cbn [bind] in H.
    assert (Hc2 : n_ c2 = b /\ r_ c2 = r_ c) by (destruct pv; brk E2; try discriminate; injection E2 as <-; split; reflexivity).
    destruct Hc2 as [Hn2 Hr2].
    destruct (b =? N).
    + destruct (negb (r_ c2 =? 0)); [discriminate|]. injection H as <- <-. cbn [AgP].
      intros x1 Hx1. destruct (dexec_fwd_pos _ _ _ _ _ _ _ _ _ Hx1) as [F1 R1].
      assert (A1 : agree c2 x1) by (split; [rewrite F1, Hn2; reflexivity|rewrite R1, Hr2; exact Hr]).
      split; [exact A1|]. intros x2 Hx2. destruct (dexec_endfwd_pos _ _ _ _ Hx2) as [F2 R2].
      assert (A2 : agree c2 x2) by (destruct A1; split; congruence). split; exact A2.
    + injection H as <- <-. cbn [AgP]. intros x1 Hx1. destruct (dexec_fwd_pos _ _ _ _ _ _ _ _ _ Hx1) as [F1 R1].
      assert (A1 : agree c2 x1) by (split; [rewrite F1, Hn2; reflexivity|rewrite R1, Hr2; exact Hr]). split; exact A1.
  - (* OB *)
    brk H; try discriminate. injection H as <- <-. cbn [AgP]. intros x1 Hx1. destruct (dexec_rev_pos _ _ _ _ _ _ _ Hx1 Hw) as [F1 R1].
    assert (A1 : agree (upd c (n_ c) (r_ c + 1) (snaps c) (w_storage c) (write_ics c) (adj_deps c) (w_n0 c)) x1) by (split; cbn [upd n_ r_]; [congruence|lia]).
    split; exact A1.
  - brk H; try discriminate; injection H as <- <-; cbn [AgP]; intros x1 Hx1;
      (destruct (dexec_load_pos _ _ _ _ _ _ _ _ (or_introl eq_refl) Hx1) as [F1 R1] || destruct (dexec_load_pos _ _ _ _ _ _ _ _ (or_intror eq_refl) Hx1) as [F1 R1]);
      (assert (A1 : agree (upd c n0 (r_ c) (snaps c) (w_storage c) (write_ics c) (adj_deps c) (w_n0 c)) x1) by (split; cbn [upd n_ r_]; congruence) ||
       assert (A1 : agree (upd c n0 (r_ c) (filter (fun x => negb (x =? n0)) (snaps c)) (w_storage c) (write_ics c) (adj_deps c) (w_n0 c)) x1) by (split; cbn [upd n_ r_]; congruence));
      split; exact A1.
  - brk H; try discriminate; injection H as <- <-; split; assumption.
  - brk H; try discriminate; injection H as <- <-; split; assumption.
  - unfold bind in H; brk H; try discriminate; injection H as <- <-; split; assumption.
  - brk H; try discriminate; injection H as <- <-; split; assumption.
  - brk H; try discriminate; injection H as <- <-; cbn [AgP]; intros x1 Hx1;
      (destruct (dexec_load_pos _ _ _ _ _ _ _ _ (or_introl eq_refl) Hx1) as [F1 R1] || destruct (dexec_load_pos _ _ _ _ _ _ _ _ (or_intror eq_refl) Hx1) as [F1 R1]);
      (assert (A1 : agree (upd c n0 (r_ c) (snaps c) (w_storage c) (write_ics c) (adj_deps c) (w_n0 c)) x1) by (split; cbn [upd n_ r_]; congruence) ||
       assert (A1 : agree (upd c n0 (r_ c) (filter (fun x => negb (x =? n0)) (snaps c)) (w_storage c) (write_ics c) (adj_deps c) (w_n0 c)) x1) by (split; cbn [upd n_ r_]; congruence));
      split; exact A1.
  - brk H; try discriminate; injection H as <- <-; split; assumption.
  - brk H; try discriminate; injection H as <- <-; split; assumption.
  - brk H; try discriminate; injection H as <- <-; cbn [AgP]; intros x1 Hx1;
      (destruct (dexec_load_pos _ _ _ _ _ _ _ _ (or_introl eq_refl) Hx1) as [F1 R1] || destruct (dexec_load_pos _ _ _ _ _ _ _ _ (or_intror eq_refl) Hx1) as [F1 R1]);
      (assert (A1 : agree (upd c n0 (r_ c) (snaps c) (w_storage c) (write_ics c) (adj_deps c) (w_n0 c)) x1) by (split; cbn [upd n_ r_]; congruence) ||
       assert (A1 : agree (upd c n0 (r_ c) (filter (fun x => negb (x =? n0)) (snaps c)) (w_storage c) (write_ics c) (adj_deps c) (w_n0 c)) x1) by (split; cbn [upd n_ r_]; congruence));
      split; exact A1.
  - brk H; try discriminate; injection H as <- <-; split; assumption.
  - discriminate.
  - unfold bind in H; brk H; try discriminate; injection H as <- <-; split; assumption.
  - brk H; try discriminate; injection H as <- <-; split; assumption.
Qed.

Notation conv1_clears := RevBridge3.conv1_clears.

Section RUN.
Variable N R : Z.
Hypothesis HR : 0 <= R.
Variable L : list Ops.op.
Variable kd : rkind. Variable oram odisk : Z.       (* the fields of the object that the run does not depend on *)
Variable T : Z.                                      (* the forward steps of the whole stream *)
Variable Wt Rt : Z.                                  (* its writes to DISK and its loads from DISK *)
Notation sumflen := RevBridge3.sumflen.
Notation rstate := (RevBridge3.rstate L).
Notation rdone := (RevBridge3.rdone L).
Notation pDp := (DiskBridge2.pD N R).

Definition sumdw (l : list action) : Z := fold_right (fun a s => DiskBridge2.dwa a + s) 0 l.
Definition sumdr (l : list action) : Z := fold_right (fun a s => DiskBridge2.dra a + s) 0 l.
Definition Cn (wc rc : Z) (X : xstate) : Prop := disk_writes (cnt X) = wc /\ disk_reads (cnt X) = rc.
Definition Fut (i : nat) (c : cst) (p : list action) (x : dxst) (d wc rc : Z) : Prop :=
  exists acts cf xf, convI N (length L - i) L i c = (acts, inl cf) /\ DiskBlk.dexecs N R x (p ++ acts) = Some xf /\ d + sumflen (p ++ acts) = T /\
    wc + sumdw (p ++ acts) = Wt /\ rc + sumdr (p ++ acts) = Rt /\
    snaps cf = [] /\ RevBlk.store (mxx xf) = [] /\ RevBlk.rr (mxx xf) = N /\ RevBlk.endfwd (mxx xf) = true.
Definition rsched (r : rst) (stt : bool) : sched := {| ob := ORevF kd N oram odisk r; started := stt |}.
Definition leftover_or_ok (m : mon) : Prop := mon_ok m \/ exists i, merr_ m = Some (MX E_leftover, i).
Inductive J : sched -> mon -> Prop :=
 | Jrun i c p x d wc rc stt m : (i <= length L)%nat -> mon_ok m -> DiskBridge2.RxD d x (mx m) -> Cn wc rc (mx m) -> RevBridge2.NN R (mxx x) -> DiskBridge2.NNd (DiskBlk.dk x) -> WD x ->
     AgP N R c x p -> Forall RevBridge2.rev_clears p -> Fut i c p x d wc rc -> J (rsched (rstate i c p) stt) m
 | Jdone i c stt m : leftover_or_ok m -> fwd_total (cnt (mx m)) = T -> Cn Wt Rt (mx m) -> J (rsched (rdone i c) stt) m.

(* one emitted action against the monitor *)
Lemma emit_ok i' c' rest x d a x1 m sch' :
  sch' = rsched (rstate i' c' rest) true ->
  mon_ok m -> DiskBridge2.RxD d x (mx m) -> RevBridge2.NN R (mxx x) -> DiskBridge2.NNd (DiskBlk.dk x) -> RevBridge2.rev_clears a -> DiskBlk.dexec N R x a = Some x1 -> agree c' x1 ->
  exists m', mon_step pDp sch' a m = m' /\ mon_ok m' /\ DiskBridge2.RxD (d + MSTerm.flen a) x1 (mx m') /\ RevBridge2.NN R (mxx x1) /\ DiskBridge2.NNd (DiskBlk.dk x1) /\
    forall wc rc, Cn wc rc (mx m) -> Cn (wc + DiskBridge2.dwa a) (rc + DiskBridge2.dra a) (mx m').
Proof.
  intros -> Hm HRx HNN HNd Hcl Hex [Af Ar].
  set (sch' := rsched (rstate i' c' rest) true).
  destruct (DiskBridge2.dexec_agrees N R HR d x (mx m) a x1 (is_exhausted sch') HRx HNN HNd Hcl Hex) as (Hchk & HRx' & HNN' & HNd').
  assert (Hexec : exec pDp (negb (isnone (get_max_n sch'))) (is_exhausted sch') (mx m) a = inl (apply pDp (is_exhausted sch') (mx m) a)) by (apply exec_ok; exact Hchk).
  exists {| mx := apply pDp (is_exhausted sch') (mx m) a; merr_ := None; mcount := mcount m + 1 |}. split; [|split; [|split; [exact HRx'|split; [exact HNN'|split; [exact HNd'|]]]]].
  3:{ intros wc rc [Hw Hr]. destruct (DiskBridge2.dexec_counts N R x a x1 (mx m) (is_exhausted sch') Hex Hchk) as [Cw Cr]. unfold Cn. cbn [mx]. split; lia. }
  - apply (mon_step_ok pDp sch' a m _ Hm Hexec).
    + destruct HRx' as ((Rf & _) & _). cbn [fwd set_store] in Rf. rewrite Rf. cbn [toMS MSPot.fwd]. rewrite Af. cbn [get_max_n sch' rsched ob isnone andb].
      unfold get_n. cbn [sch' rsched ob cs RevBridge3.rstate]. apply Z.eqb_refl.
    + destruct HRx' as ((_ & _ & _ & Rr & _) & _). cbn [rr set_store] in Rr. rewrite Rr. cbn [toMS MSPot.rr]. rewrite Ar. reflexivity.
    + cbn [get_max_n sch' rsched ob oz_ok]. apply Z.eqb_refl.
  - reflexivity.
Qed.

Lemma dexecs_cons x a l xf : DiskBlk.dexecs N R x (a :: l) = Some xf -> exists x1, DiskBlk.dexec N R x a = Some x1 /\ DiskBlk.dexecs N R x1 l = Some xf.
Proof. cbn [DiskBlk.dexecs]. destruct (DiskBlk.dexec N R x a) as [x1|]; [|discriminate]. intros H. exists x1. auto. Qed.

(* every step keeps the invariant; the only error the monitor can ever record is E_leftover at the final EndReverse *)
Definition step2 (s : sched) (m : mon) : Prop :=
  match Sched.next s with
  | (s', Yield a) => J s' (mon_step pDp s' a m)
  | (s', StopIteration) => J s' m
  | (_, Raise _) => False end.
Lemma J_step sch m : J sch m -> step2 sch m.
Proof.
  intros HJ. unfold step2.
  inversion HJ as [i c p x d wc rc stt m0 Hi Hm HRx HCn HNN HNd HWD HAg Hcl HFut|i c stt m0 Hm Htot HCd]; subst; clear HJ.
  - destruct p as [|a rest].
    + unfold Sched.next, rsched. cbn [ob]. unfold RevConv.next. cbn [RevBridge3.rstate finished pend ops idx].
      change {| ops := L; idx := i; cs := c; pend := []; exhausted := false; finished := false |} with (rstate i c []).
      destruct HFut as (acts & cf & xf & Hconv & Hexs & HT & HW & HRd & Hsn & Hst & Hrr & Hef). cbn [app] in Hexs, HT, HW, HRd. cbn [AgP] in HAg.
      pose proof (RevBridge3.advance_spec N L (fun c => agree c x)
                    (fun i0 c0 c1 HP E => conv1_agree N R L i0 c0 c1 [] x E HP HWD)
                    (S (length L - i)) i c acts cf ltac:(lia) Hi HAg Hconv) as Hadv.
      destruct acts as [|a tl].
      * destruct Hadv as [HPcf Hadv]. rewrite Hadv, Hsn. cbn [length Nat.eqb negb].
        cbn [DiskBlk.dexecs] in Hexs. injection Hexs as <-.
        set (sch' := {| ob := ORevF kd N oram odisk (rdone (length L) cf); started := true |}).
        destruct HRx as [HRx Hdk]. pose proof HRx as (Rf & Rwi & Rwd & Rrr & Rse & Rram & Rdisk & Rtot).
        cbn [fwd w_ics w_deps rr seen_endfwd ram disk cnt set_store toMS MSPot.fwd MSPot.wics MSPot.wdeps MSPot.rr MSPot.endfwd MSPot.done MSPot.store] in Rf, Rwi, Rwd, Rrr, Rse, Rram, Rtot.
        assert (Hram : ram (mx m) = []) by (rewrite Rram, Hst; reflexivity).
        assert (Hchk : check pDp true true (mx m) EndReverse = match disk (mx m) with [] => None | _ => Some E_leftover end).
        { unfold check. cbn [xN DiskBridge2.pD]. rewrite Rse, Hef, Rrr, Hrr, Z.eqb_refl, Hram. cbn [chk first_err]. destruct (disk (mx m)); reflexivity. }
        destruct (disk (mx m)) as [|e0 dd] eqn:Ed.
        -- (* clean *)
           assert (Hexec : exec pDp (negb (isnone (get_max_n sch'))) (is_exhausted sch') (mx m) EndReverse = inl (apply pDp true (mx m) EndReverse)) by (apply exec_ok; exact Hchk).
           rewrite (mon_step_ok pDp sch' EndReverse m _ Hm Hexec).
           ++ apply (Jdone (length L) cf true); [left; reflexivity| |].
              ** cbn [mx apply cnt]. unfold sumflen in HT. cbn [fold_right] in HT. lia.
              ** destruct HCn as [Cw Cr]. unfold Cn, sumdw, sumdr in *. cbn [fold_right] in HW, HRd. cbn [mx apply cnt]. split; lia.
           ++ cbn [apply fwd]. rewrite Rf. destruct HPcf as [Af Ar]. unfold RevBridge3.agree in Af. rewrite Af.
              cbn [get_max_n sch' ob isnone andb]. unfold get_n. cbn [sch' ob cs RevBridge3.rdone]. apply Z.eqb_refl.
           ++ cbn [apply rr]. rewrite Rrr. destruct HPcf as [Af Ar]. rewrite Ar. reflexivity.
           ++ cbn [get_max_n sch' ob oz_ok xN DiskBridge2.pD]. apply Z.eqb_refl.
        -- (* a dead checkpoint is left on DISK: E_leftover, recorded at this action *)
           unfold mon_step. unfold mon_ok in Hm. rewrite Hm. unfold exec.
           change (is_exhausted sch') with true. change (negb (isnone (get_max_n sch'))) with true. rewrite Hchk.
           apply (Jdone (length L) cf true); [right; eexists; reflexivity| |].
           ++ cbn [mx]. unfold sumflen in HT. cbn [fold_right] in HT. lia.
           ++ destruct HCn as [Cw Cr]. unfold Cn, sumdw, sumdr in *. cbn [fold_right] in HW, HRd. cbn [mx]. split; lia.
      * destruct Hadv as (i' & c0 & c' & rest & acts' & Hadv & [Hii' Hi'] & Htl & Hconv' & HP0 & Hc1). rewrite Hadv.
        destruct (dexecs_cons x a tl xf Hexs) as (x1 & Hex1 & Hexs1).
        pose proof (conv1_agree N R L (i' - 1) c0 c' (a :: rest) x Hc1 HP0 HWD) as HAg'. cbn [AgP] in HAg'. destruct (HAg' x1 Hex1) as [HA1 HAr].
        pose proof (conv1_clears N L (i' - 1) c0 c' (a :: rest) Hc1) as Hcl'. apply Forall_cons_iff in Hcl'. destruct Hcl' as [Hcla Hclr]. rewrite Htl in Hexs1, HT, HW, HRd.
        destruct (emit_ok i' c' rest x d a x1 m _ eq_refl Hm HRx HNN HNd Hcla Hex1 HA1) as (m' & Hms & Hm' & HRx' & HNN' & HNd' & HCn').
        unfold rsched in Hms. rewrite Hms.
        apply (Jrun i' c' rest x1 (d + MSTerm.flen a) (wc + DiskBridge2.dwa a) (rc + DiskBridge2.dra a) true m' Hi' Hm' HRx' (HCn' wc rc HCn) HNN' HNd' (dexec_WD N R x a x1 Hex1 HWD) HAr Hclr).
        exists acts', cf, xf. unfold sumflen, sumdw, sumdr in *. cbn [fold_right] in HT, HW, HRd. repeat split; try assumption; lia.
    + unfold Sched.next, rsched. cbn [ob]. unfold RevConv.next. cbn [RevBridge3.rstate finished pend ops idx cs exhausted].
      change {| ops := L; idx := i; cs := c; pend := rest; exhausted := false; finished := false |} with (rstate i c rest).
      destruct HFut as (acts & cf & xf & Hconv & Hexs & HT & HW & HRd & Hfin). cbn [app] in Hexs, HT, HW, HRd.
      destruct (dexecs_cons x a (rest ++ acts) xf Hexs) as (x1 & Hex1 & Hexs1).
      cbn [AgP] in HAg. destruct (HAg x1 Hex1) as [HA1 HAr]. apply Forall_cons_iff in Hcl. destruct Hcl as [Hcla Hclr].
      destruct (emit_ok i c rest x d a x1 m _ eq_refl Hm HRx HNN HNd Hcla Hex1 HA1) as (m' & Hms & Hm' & HRx' & HNN' & HNd' & HCn').
      unfold rsched in Hms. rewrite Hms.
      apply (Jrun i c rest x1 (d + MSTerm.flen a) (wc + DiskBridge2.dwa a) (rc + DiskBridge2.dra a) true m' Hi Hm' HRx' (HCn' wc rc HCn) HNN' HNd' (dexec_WD N R x a x1 Hex1 HWD) HAr Hclr).
      exists acts, cf, xf. unfold sumflen, sumdw, sumdr in *. cbn [fold_right] in HT, HW, HRd. split; [exact Hconv|]. split; [exact Hexs1|]. split; [lia|]. split; [lia|]. split; [lia|exact Hfin].
  - unfold Sched.next, rsched. cbn [ob]. unfold RevConv.next. cbn [RevBridge3.rdone finished]. apply (Jdone i c true); assumption.
Qed.

Lemma run_nexts2 : forall k s m, J s m -> let '(s', m', ls) := run_ops pDp s m (repeat Next k) in J s' m' /\ no_raise ls.
Proof.
  induction k as [|k IH]; intros s m HJ; cbn [repeat run_ops]; [split; [exact HJ|constructor]|].
  pose proof (J_step s m HJ) as Hs. unfold step2 in Hs. destruct (Sched.next s) as [s' o]. destruct o as [a| |e]; [| |contradiction].
  - specialize (IH s' _ Hs). destruct (run_ops pDp s' _ (repeat Next k)) as [[s2 m2] ls]. destruct IH as [A B]. split; [exact A|constructor; [exact I|exact B]].
  - specialize (IH s' _ Hs). destruct (run_ops pDp s' m (repeat Next k)) as [[s2 m2] ls]. destruct IH as [A B]. split; [exact A|constructor; [exact I|exact B]].
Qed.
Lemma J_verdict s m : J s m -> leftover_or_ok m.
Proof. intros HJ. inversion HJ; subst; [left; assumption|assumption]. Qed.

(* ---- termination: the op list is finite (two requests per op at most) ---- *)
Notation muS := (RevBridge3.muS L).
Lemma muS_nonneg sch m : J sch m -> 0 <= muS sch.
Proof. intros HJ. inversion HJ; subst; unfold RevBridge3.muS, rsched; cbn [ob RevBridge3.rstate RevBridge3.rdone finished idx pend]; lia. Qed.
Lemma muS_dec sch m : J sch m -> is_exhausted sch = false -> muS (fst (Sched.next sch)) < muS sch.
Proof.
  intros HJ He. inversion HJ as [i c p x d wc rc stt m0 Hi Hm HRx HCn HNN HNd HWD HAg Hcl HFut|i c stt m0 Hm Htot HCd]; subst; [|cbn in He; discriminate].
  unfold Sched.next, rsched. cbn [ob]. unfold RevConv.next. cbn [RevBridge3.rstate finished pend ops idx].
  destruct p as [|a rest].
  - change {| ops := L; idx := i; cs := c; pend := []; exhausted := false; finished := false |} with (rstate i c []).
    destruct HFut as (acts & cf & xf & Hconv & Hexs & HT & _ & _ & Hsn & _). cbn [AgP] in HAg.
    pose proof (RevBridge3.advance_spec N L (fun c => agree c x) (fun i0 c0 c1 HP E => conv1_agree N R L i0 c0 c1 [] x E HP HWD)
                  (S (length L - i)) i c acts cf ltac:(lia) Hi HAg Hconv) as Hadv.
    destruct acts as [|a tl].
    + destruct Hadv as [_ Hadv]. rewrite Hadv, Hsn. cbn [length Nat.eqb negb fst]. unfold RevBridge3.muS. cbn [ob RevBridge3.rdone RevBridge3.rstate finished idx pend length]. lia.
    + destruct Hadv as (i' & c0 & c' & rest & acts' & Hadv & [Hii' Hi'] & _ & _ & _ & Hc1). rewrite Hadv. cbn [fst].
      pose proof (RevBridge3.conv1_len N L _ _ _ _ Hc1) as Hl. cbn [length] in Hl.
      unfold RevBridge3.muS. cbn [ob RevBridge3.rstate finished idx pend length]. lia.
  - cbn [fst]. unfold RevBridge3.muS. cbn [ob RevBridge3.rstate finished idx pend length]. lia.
Qed.
Lemma exh_stays sch m : J sch m -> is_exhausted sch = true -> is_exhausted (fst (Sched.next sch)) = true.
Proof.
  intros HJ He. inversion HJ as [i c p x d wc rc stt m0 Hi Hm HRx HCn HNN HNd HWD HAg Hcl HFut|i c stt m0 Hm Htot HCd]; subst; [cbn in He; discriminate|].
  unfold Sched.next, rsched. cbn [ob]. unfold RevConv.next. cbn [RevBridge3.rdone finished fst ob is_exhausted RevConv.exhausted]. reflexivity.
Qed.
Lemma run_nexts2_fin : forall k s m, J s m -> (is_exhausted s = true \/ muS s < Z.of_nat k) ->
  is_exhausted (fst (fst (run_ops pDp s m (repeat Next k)))) = true.
Proof.
  induction k as [|k IH]; intros s m HJ Hk; cbn [repeat run_ops].
  - destruct Hk as [Hk|Hk]; [exact Hk|]. pose proof (muS_nonneg s m HJ). lia.
  - pose proof (J_step s m HJ) as Hs. unfold step2 in Hs.
    assert (Hk' : is_exhausted (fst (Sched.next s)) = true \/ muS (fst (Sched.next s)) < Z.of_nat k).
    { destruct (is_exhausted s) eqn:Ef; [left; exact (exh_stays s m HJ Ef)|]. destruct Hk as [Hk|Hk]; [discriminate|].
      right. pose proof (muS_dec s m HJ Ef). lia. }
    destruct (Sched.next s) as [s' o]. cbn [fst] in Hk'. destruct o as [a| |e]; [| |contradiction].
    + specialize (IH s' _ Hs Hk'). destruct (run_ops pDp s' _ (repeat Next k)) as [[s2 m2] ls]. exact IH.
    + specialize (IH s' m Hs Hk'). destruct (run_ops pDp s' m (repeat Next k)) as [[s2 m2] ls]. exact IH.
Qed.
End RUN.
