(* C14, last clause, the glue: the weights allocate_snapshots computes from its dry run are the per-position access counts of
   the stream, so the number of accesses that name DISK in the stream of a configuration c is lsum DISK (labels c) w -- and
   with AllocMin.alloc_min_disk the constructed schedule has the fewest DISK accesses among all labellings with as many
   RAM positions. *)
From Coq Require Import ZArith List Lia Bool.
Require Import Actions NAdvance Multistage AllocProofs AllocMin SplitProofs AllocTotal.
Import ListNotations.
Open Scope Z_scope.

Definition hit (L : list storage) (st : storage) (i : nat) : Z :=
  match nth_error L i with Some l => if st_eqb st l then 1 else 0 | None => 0 end.
Lemma lsum_bump st : forall L w i, length L = length w -> lsum st L (bump w i) = lsum st L w + hit L st i.
Proof.
  induction L as [|l L IH]; intros [|x w] i Hl; cbn [length] in Hl; try lia.
  - destruct i; reflexivity.
  - destruct i as [|i]; cbn [bump lsum].
    + unfold hit. cbn [nth_error]. destruct (st_eqb st l); lia.
    + rewrite (IH w i) by lia. unfold hit. cbn [nth_error]. lia.
Qed.

(* accesses, by stack position, following the depth exactly as weigh does *)
Fixpoint wacc (L : list storage) (st : storage) (acts : list outcome) (depth : Z) : Z :=
  match acts with
  | [] => 0
  | Yield (Forward _ _ true _ _) :: r => hit L st (Z.to_nat (depth + 1)) + wacc L st r (depth + 1)
  | Yield (Copy _ _ _) :: r => hit L st (Z.to_nat depth) + wacc L st r depth
  | Yield (Move _ _ t) :: r => hit L st (Z.to_nat depth) + wacc L st r (match t with WORK => depth - 1 | _ => depth end)
  | _ :: r => wacc L st r depth
  end.
Lemma weigh_lsum L st : forall acts d w0 w d', weigh acts d w0 = Ok (w, d') -> length L = length w0 -> lsum st L w = lsum st L w0 + wacc L st acts d.
Proof.
  induction acts as [|o acts IH]; intros d w0 w d' H Hl; cbn [weigh wacc] in *.
  - injection H as <- _. lia.
  - destruct o as [a| |e]; [|eauto|discriminate].
    destruct a as [n0 n1 wi wa sg|? ? ?|n s1 s2|n s1 s2| |]; try (eapply IH; eassumption).
    + destruct wi; [|eauto]. destruct (_ >=? _); [discriminate|].
      rewrite (IH _ _ _ _ H) by (rewrite bump_length; exact Hl). rewrite lsum_bump by exact Hl. lia.
    + destruct (d <? 0); [discriminate|]. rewrite (IH _ _ _ _ H) by (rewrite bump_length; exact Hl). rewrite lsum_bump by exact Hl. lia.
    + destruct (d <? 0); [discriminate|]. rewrite (IH _ _ _ _ H) by (rewrite bump_length; exact Hl). rewrite lsum_bump by exact Hl. lia.
Qed.

(* wacc does not look at the storages named *)
Lemma wacc_erase L st : forall a1 a2 d, map erase_out a1 = map erase_out a2 -> wacc L st a1 d = wacc L st a2 d.
Proof.
  induction a1 as [|o1 a1 IH]; intros [|o2 a2] d H; cbn [map] in H; try discriminate; [reflexivity|].
  injection H as Ho Hr. specialize (IH a2).
  destruct o1 as [x| |e1], o2 as [y| |e2]; cbn [erase_out] in Ho; try discriminate; cbn [wacc]; auto.
  injection Ho as Ho.
  destruct x as [? ? wi1 ? ?|? ? ?|? ? t1|? ? t1| |], y as [? ? wi2 ? ?|? ? ?|? ? t2|? ? t2| |]; cbn [erase] in Ho; try discriminate; cbn [wacc]; auto.
  - injection Ho as _ _ -> _ _. destruct wi2; auto. rewrite (IH (d + 1) Hr). reflexivity.
  - rewrite (IH d Hr). reflexivity.
  - injection Ho as _ _ Ht. assert (Hw : (match t1 with WORK => d - 1 | _ => d end) = (match t2 with WORK => d - 1 | _ => d end)) by (destruct t1, t2; cbn in Ht; congruence).
    rewrite Hw, (IH _ Hr). reflexivity.
Qed.

(* the accesses of a stream that name storage st *)
Definition names (st : storage) (o : outcome) : Z :=
  match o with
  | Yield (Forward _ _ true _ sg) | Yield (Copy _ sg _) | Yield (Move _ sg _) => if st_eqb st sg then 1 else 0
  | _ => 0 end.
Definition nacc (st : storage) (acts : list outcome) : Z := fold_right (fun o s => names st o + s) 0 acts.

Lemma next_position c s s' a : Multistage.next c s = (s', Yield a) ->
  match a with
  | Forward n0 _ true _ sg => nth_error (labels c) (length (snaps s)) = Some sg
  | Copy cp sg _ | Move cp sg _ => exists rest, snaps s = cp :: rest /\ nth_error (labels c) (length rest) = Some sg
  | _ => True end.
Proof.
  unfold Multistage.next. destruct (Multistage.resume 3 c s) as [s1 o] eqn:E. destruct o; intros H; try discriminate.
  injection H as <- <-. pose proof (ms_position_storage 3 c s s1 a0 E) as Hp. unfold label in Hp.
  destruct a0 as [n0 n1 wi wa sg|? ? ?|cp sg d|cp sg d| |]; auto.
  - destruct wi; auto. destruct Hp as [Hp _]. destruct (nth_error (labels c) (length (snaps s))); [injection Hp as ->; reflexivity|discriminate].
  - destruct Hp as (rest & Hs & Hp). exists rest. split; [exact Hs|]. destruct (nth_error (labels c) (length rest)); [injection Hp as ->; reflexivity|discriminate].
  - destruct Hp as (rest & Hs & Hp). exists rest. split; [exact Hs|]. destruct (nth_error (labels c) (length rest)); [injection Hp as ->; reflexivity|discriminate].
Qed.

Lemma run_nacc c st : forall fuel s, nacc st (run fuel c s) = wacc (labels c) st (run fuel c s) (len (snaps s) - 1).
Proof.
  induction fuel as [|f IH]; intros s; cbn [run]; [reflexivity|].
  destruct (Multistage.next c s) as [s' o] eqn:En. destruct o as [a| |e]; [|reflexivity|reflexivity].
  pose proof (next_position c s s' a En) as Hp. pose proof (next_stack c s s' a En) as Hst.
  cbn [nacc fold_right]. fold (nacc st (run f c s')). rewrite IH. unfold len in *.
  destruct a as [n0 n1 wi wa sg|n1 n0 cl|k src dst|k src dst| |]; cbn [names wacc stack_rel] in *.
  - destruct wi.
    + destruct Hst as [Hl _]. rewrite Hl. replace (Z.of_nat (length (snaps s)) - 1 + 1) with (Z.of_nat (length (snaps s))) by lia.
      rewrite Nat2Z.id. unfold hit. rewrite Hp. replace (Z.of_nat (S (length (snaps s))) - 1) with (Z.of_nat (length (snaps s))) by lia. reflexivity.
    + rewrite Hst. lia.
  - rewrite Hst. lia.
  - destruct Hp as (rest & Hs & Hn). destruct Hst as [Hst _]. rewrite Hst, Hs. cbn [length].
    replace (Z.to_nat (Z.of_nat (S (length rest)) - 1)) with (length rest) by lia. unfold hit. rewrite Hn. reflexivity.
  - destruct Hp as (rest & Hs & Hn). destruct Hst as [-> [cp Hst]]. rewrite Hs in Hst. injection Hst as _ <-. rewrite Hs. cbn [length].
    replace (Z.to_nat (Z.of_nat (S (length rest)) - 1)) with (length rest) by lia. unfold hit. rewrite Hn.
    replace (Z.of_nat (S (length rest)) - 1 - 1) with (Z.of_nat (length rest) - 1) by lia. reflexivity.
  - rewrite Hst. lia.
  - rewrite Hst. lia.
Qed.

(* the DISK accesses of the stream of any configuration, from the weights of the dry run *)
Theorem disk_accesses_are_weights c c0 fuel w d' st :
  max_n c = max_n c0 -> tr c = tr c0 -> length (labels c) = length (labels c0) ->
  Forall (fun l => l = RAM \/ l = DISK) (labels c) -> Forall (fun l => l = RAM \/ l = DISK) (labels c0) ->
  weigh (run fuel c0 init) (-1) (repeat 0 (length (labels c0))) = Ok (w, d') ->
  nacc st (run fuel c init) = lsum st (labels c) w.
Proof.
  intros Hn Ht Hl Hf Hf0 Hw. rewrite run_nacc. change (len (snaps init) - 1) with (-1).
  rewrite (wacc_erase (labels c) st (run fuel c init) (run fuel c0 init) (-1) (C14_labels_only c c0 Hn Ht Hl Hf Hf0 fuel init)).
  rewrite (weigh_lsum (labels c) st _ _ _ _ _ Hw) by (rewrite repeat_length; exact Hl).
  assert (Hz : forall L n, lsum st L (repeat 0 n) = 0).
  { induction L as [|l L IH]; intros [|n]; cbn [repeat lsum]; try reflexivity. rewrite IH. destruct (st_eqb st l); reflexivity. }
  rewrite Hz. lia.
Qed.
Print Assumptions disk_accesses_are_weights.

Lemma bump_nonneg : forall w i, Forall (fun x => 0 <= x) w -> Forall (fun x => 0 <= x) (bump w i).
Proof. induction w as [|x w IH]; intros [|i] H; cbn [bump]; auto; inversion H; subst; constructor; auto; lia. Qed.
Lemma weigh_nonneg : forall acts d w0 w d', weigh acts d w0 = Ok (w, d') -> Forall (fun x => 0 <= x) w0 -> Forall (fun x => 0 <= x) w.
Proof.
  induction acts as [|o acts IH]; intros d w0 w d' H Hw; cbn [weigh] in H.
  - injection H as <- _. exact Hw.
  - destruct o as [a| |e]; [|eauto|discriminate].
    destruct a as [n0 n1 wi wa sg|? ? ?|n s1 s2|n s1 s2| |]; try (eapply IH; eassumption).
    + destruct wi; [|eauto]. destruct (_ >=? _); [discriminate|]. eapply IH; [exact H|apply bump_nonneg; exact Hw].
    + destruct (d <? 0); [discriminate|]. eapply IH; [exact H|apply bump_nonneg; exact Hw].
    + destruct (d <? 0); [discriminate|]. eapply IH; [exact H|apply bump_nonneg; exact Hw].
Qed.
Lemma nacc_nonneg st acts : 0 <= nacc st acts.
Proof. induction acts as [|o acts IH]; cbn [nacc fold_right]; [lia|]. fold (nacc st acts). assert (0 <= names st o); [|lia].
  destruct o as [a| |]; cbn; try lia. destruct a as [? ? [|] ? sg|? ? ?|? sg ?|? sg ?| |]; try lia; destruct (st_eqb st sg); lia. Qed.
Lemma lsum_all_other st st' : st <> st' -> forall n w, lsum st (repeat st' n) w = 0.
Proof. intros Hne. induction n as [|n IH]; intros [|x w]; cbn [repeat lsum]; try reflexivity. rewrite IH. destruct st, st'; cbn; congruence. Qed.

(* MultistageCheckpointSchedule(N, ram, disk): among all streams the machine produces with the same N, trajectory and number of
   stack positions, and at most min(ram, N-1) positions labelled RAM, the constructed one has the fewest accesses (writes plus
   loads) naming DISK *)
Theorem multistage_min_disk N ram disk tj c c' : 1 <= N -> 0 <= ram -> 0 <= disk -> Multistage.construct N ram disk tj = Ok c ->
  max_n c' = N -> tr c' = tj -> length (labels c') = length (labels c) -> Forall (fun l => l = RAM \/ l = DISK) (labels c') ->
  count_st RAM (labels c') <= Z.min ram (N - 1) ->
  nacc DISK (run (fuel_for N) c init) <= nacc DISK (run (fuel_for N) c' init).
Proof.
  intros HN Hram Hdisk Hc Hn' Ht' Hl' Hf' Hr'.
  destruct (construct_labels N ram disk tj c HN Hram Hdisk Hc) as (HmaxN & Htr & Hlab & Htot & Hcr & Hcd).
  unfold construct in Hc. destruct (Z.ltb_spec N 1); [lia|].
  set (ram' := Z.min ram (N - 1)) in *. set (disk' := Z.min disk (N - 1)) in *.
  destruct (Z.eqb_spec ram' 0) as [E0|E0]; [|destruct (Z.eqb_spec disk' 0) as [E1|E1]].
  - (* no RAM unit: every labelling allowed is all DISK *)
    injection Hc as <-. cbn [labels max_n tr] in *.
    assert (Hsame : labels c' = repeat DISK (Z.to_nat disk')).
    { assert (Hnr : forall l, In l (labels c') -> l = DISK).
      { intros l Hl. rewrite Forall_forall in Hf'. destruct (Hf' l Hl) as [->|]; [|assumption]. exfalso.
        unfold count_st in Hr'. assert (In RAM (filter (st_eqb RAM) (labels c'))) by (apply filter_In; split; [exact Hl|reflexivity]).
        destruct (filter (st_eqb RAM) (labels c')); [contradiction|]. cbn [length] in Hr'. lia. }
      rewrite repeat_length in Hl'. rewrite <- Hl'. clear -Hnr. induction (labels c') as [|l L IH]; [reflexivity|]. cbn [length repeat].
      rewrite (Hnr l (or_introl eq_refl)). f_equal. apply IH. intros x Hx. apply Hnr. right. exact Hx. }
    destruct c' as [n' L' t']. cbn [labels max_n tr] in *. subst. lia.
  - (* no DISK unit: the constructed stream names DISK nowhere *)
    injection Hc as <-.
    pose proof (disk_accesses_are_weights) as Hglue.
    assert (H0 : nacc DISK (run (fuel_for N) {| max_n := N; labels := repeat RAM (Z.to_nat ram'); tr := tj |} init) = 0).
    { rewrite run_nacc. set (cc := {| max_n := N; labels := repeat RAM (Z.to_nat ram'); tr := tj |}). cbn [labels cc].
      assert (Hh : forall i, hit (repeat RAM (Z.to_nat ram')) DISK i = 0).
      { intros i. unfold hit. destruct (nth_error (repeat RAM (Z.to_nat ram')) i) as [l|] eqn:E; [|reflexivity]. apply nth_error_In in E. apply repeat_spec in E. subst. reflexivity. }
      generalize (len (snaps init) - 1). generalize (run (fuel_for N) cc init). clear -Hh.
      induction l as [|o l IH]; intros d; cbn [wacc]; [reflexivity|].
      destruct o as [a| |]; auto. destruct a as [? ? [|] ? ?|? ? ?|? ? ?|? ? ?| |]; rewrite ?Hh, ?IH; auto. }
    rewrite H0. apply nacc_nonneg.
  - (* both kinds of unit: allocate_snapshots *)
    unfold allocate in Hc. fold ram' disk' in Hc.
    set (sn := Z.min (ram' + disk') (N - 1)) in *.
    set (c0 := {| max_n := N; labels := repeat DISK (Z.to_nat sn); tr := tj |}) in *.
    destruct (weigh (run (fuel_for N) c0 init) (-1) (repeat 0 (Z.to_nat sn))) as [[w d]|e] eqn:Ew; cbn [bind] in Hc; [|discriminate].
    injection Hc as <-. cbn [max_n tr labels snd] in *.
    change (map _ (seq 0 (length w))) with (alloc_labels w (Z.to_nat ram')) in *.
    pose proof (weigh_length _ _ _ _ _ Ew) as Hlw. rewrite repeat_length in Hlw.
    destruct (alloc_labels_facts w (Z.to_nat ram')) as (F1 & F2 & _).
    assert (Hl0 : length (labels c0) = Z.to_nat sn) by (cbn [labels c0]; apply repeat_length).
    assert (Hf0 : Forall (fun l => l = RAM \/ l = DISK) (labels c0)) by (cbn [labels c0]; apply AllocProofs.Forall_repeat; auto).
    assert (Ew' : weigh (run (fuel_for N) c0 init) (-1) (repeat 0 (length (labels c0))) = Ok (w, d)) by (rewrite Hl0; exact Ew).
    set (cA := {| max_n := N; labels := alloc_labels w (Z.to_nat ram'); tr := tj |}).
    rewrite (disk_accesses_are_weights cA c0 (fuel_for N) w d DISK eq_refl eq_refl ltac:(cbn [labels cA]; rewrite F2, Hl0; exact Hlw) F1 Hf0 Ew').
    rewrite (disk_accesses_are_weights c' c0 (fuel_for N) w d DISK Hn' Ht' ltac:(rewrite Hl'; cbn [labels]; rewrite F2, Hl0; exact Hlw) Hf' Hf0 Ew').
    cbn [labels cA]. apply alloc_min_disk.
    + apply (weigh_nonneg _ _ _ _ _ Ew). apply AllocProofs.Forall_repeat. lia.
    + rewrite Hl'. exact F2.
    + exact Hf'.
    + unfold count_st in Hr'. lia.
Qed.
Print Assumptions multistage_min_disk.
