(* TwoLevelCheckpointSchedule, model regenerated from source: two_prog_model is the program (generator language GenLang2) that
   harness/translate.py produces from TwoLevelCheckpointSchedule._iterator; Gen/TwoLevelGen.v re-translates the current source on
   every run and proves the result equal to this term by conversion.  This file proves that resuming that program request by
   request is, under EVERY history of next() and finalize(k) calls, observation for observation what the hand-written machine of
   Online.v (class KTwo) does. *)
From Coq Require Import ZArith List Bool Lia ZifyBool.
Require Import Actions NAdvance Multistage Online GenLang2.
Require NAdv.
Import ListNotations.
Open Scope Z_scope.

Definition raiseR : stmt := SRaise RuntimeError.
Definition MRm1 : zexp := ZSub (ZSub ZMax ZR) (ZC 1).
Definition fwd_body : stmt :=
  SSeq (SIf BMaxNotNone raiseR SSkip) (SSeq (SSetL Ln0 ZN) (SSeq (SSetL Ln1 (ZAdd (ZL Ln0) ZPeriod)) (SSeq (SSetN (ZL Ln1))
    (SYield (AForward (ZL Ln0) (ZL Ln1) true false (SC DISK)))))).
Definition adv_seq (ns : zexp) (y : aexp) (rest : stmt) : stmt :=
  SSeq (SSetL Lns ns) (SSeq (SSetL Ln0 ZN) (SSeq (SSetL Ln1 (ZAdd (ZL Ln0) (ZNadv (ZSub (ZSub ZMax ZR) (ZL Ln0)) (ZL Lns))))
    (SSeq (SAssert (BGt (ZL Ln1) (ZL Ln0))) (SSeq (SSetN (ZL Ln1)) (SSeq (SYield y) rest))))).
Definition after_push : stmt := SSeq (SIf (BGe ZLen (ZAdd ZBs (ZC 1))) raiseR SSkip) (SListPush (ZL Ln0)).
Definition W : stmt := adv_seq (ZSub (ZAdd ZBs (ZC 1)) ZLen) (AForward (ZL Ln0) (ZL Ln1) true false SBst) after_push.
Definition checkN : stmt := SIf (BNe ZN MRm1) raiseR SSkip.
Definition inner_loop : stmt := SSeq (SWhile (BLt ZN MRm1) W) checkN.
Definition Brest : stmt := adv_seq (ZAdd (ZSub (ZAdd ZBs (ZC 1)) ZLen) (ZC 1)) (AForward (ZL Ln0) (ZL Ln1) false false (SC WORK)) inner_loop.
Definition brB : stmt :=
  SSeq (SSetN (ZL Lcp)) (SSeq (SIf (BEq (ZL Lcp) (ZL Ln0s)) (SYield (ACopy (ZL Lcp) (SC DISK) (SC WORK))) (SYield (ACopy (ZL Lcp) SBst (SC WORK)))) Brest).
Definition brA : stmt :=
  SSeq SListPop (SSeq (SSetN (ZL Lcp)) (SIf (BEq (ZL Lcp) (ZL Ln0s)) (SYield (ACopy (ZL Lcp) (SC DISK) (SC WORK))) (SYield (AMove (ZL Lcp) SBst (SC WORK))))).
Definition rev_act : stmt := SSeq (SSetR (ZAdd ZR (ZC 1))) (SYield (AReverse ZN (ZSub ZN (ZC 1)) true)).
Definition adj : stmt := SSeq (SSetN (ZAdd ZN (ZC 1))) (SSeq (SYield (AForward (ZSub ZN (ZC 1)) ZN false true (SC WORK))) rev_act).
Definition inner : stmt := SSeq (SIf (BEq ZLen (ZC 0)) raiseR SSkip) (SSeq (SSetL Lcp ZTop) (SSeq (SIf (BEq (ZL Lcp) MRm1) brA brB) adj)).
Definition block_c : bexp := BLt ZR (ZSub ZMax (ZL Ln0s)).
Definition block_tail : stmt := SSeq (SIf (BNe ZR (ZSub ZMax (ZL Ln0s))) raiseR SSkip) (SIf (BNe ZLen (ZC 0)) raiseR SSkip).
Definition blockloop : stmt :=
  SSeq (SSetL Ln MRm1) (SSeq (SSetL Ln0s (ZMul (ZDiv (ZL Ln) ZPeriod) ZPeriod)) (SSeq (SSetL Ln1s (ZMin (ZAdd (ZL Ln0s) ZPeriod) ZMax))
    (SSeq (SIf (BNe ZR (ZSub ZMax (ZL Ln1s))) raiseR SSkip) (SSeq (SDel [Ln; Ln1s]) (SSeq (SListInit (ZL Ln0s)) (SSeq (SWhile block_c inner) block_tail)))))).
Definition outer_tail : stmt := SSeq (SIf (BNe ZR ZMax) raiseR SSkip) (SSeq (SSetR (ZC 0)) (SYield AEndReverse)).
Definition outer : stmt := SSeq (SWhile (BLt ZR ZMax) blockloop) outer_tail.
Definition rest : stmt := SSeq (SYield AEndForward) (SWhile BTrue outer).
Definition two_prog_model : stmt := SSeq (SWhile BMaxIsNone fwd_body) rest.

Definition ENC : list frame := [FLoop block_c inner; FS block_tail; FLoop (BLt ZR ZMax) blockloop; FS outer_tail; FLoop BTrue outer].
Definition cfg_of (p bs : Z) (st : storage) (tr : traj) : cfg := {| period := p; bsn := bs; bst := st; trj := tr |}.

Definition hasmax (g : gst) : Prop := max_n_ (gb g) <> None.
Definition Rk (p : pc) (g : gst) (K : list frame) : Prop :=
  match p with
  | PStart => gsn g = [] /\ K = [FS two_prog_model]
  | PFwd => gsn g = [] /\ K = [FLoop BMaxIsNone fwd_body; FS rest]
  | PFinished => K = []
  | PTOuter => hasmax g /\ (K = [FS (SWhile BTrue outer)] \/ K = [FLoop BTrue outer])
  | PTBlock n0s => hasmax g /\ gl g Ln0s = Some n0s /\ K = ENC
  | PTAdj n0s => hasmax g /\ gl g Ln0s = Some n0s /\ K = FS adj :: ENC
  | PTRevAct n0s => hasmax g /\ gl g Ln0s = Some n0s /\ K = FS rev_act :: ENC
  | PTAfterCopy n0s => hasmax g /\ gl g Ln0s = Some n0s /\ K = FS Brest :: FS adj :: ENC /\
                       (forall m, max_n_ (gb g) = Some m -> n_ (gb g) <> m - r_ (gb g) - 1)
  | PTInner n0s => hasmax g /\ gl g Ln0s = Some n0s /\ K = FS inner_loop :: FS adj :: ENC
  | PTAfterPush n0s q => hasmax g /\ gl g Ln0s = Some n0s /\ gl g Ln0 = Some q /\
                         K = FS after_push :: FLoop (BLt ZN MRm1) W :: FS checkN :: FS adj :: ENC
  | _ => False
  end.
Definition FUEL : nat := 120.

Lemma nadv_pos x y tr a : nadv x y tr = Ok a -> x <> 1 -> 1 <= a.
Proof.
  unfold nadv. intros H Hx. destruct (n_advance x y tr) as [a'| |] eqn:E; try discriminate. injection H as <-.
  destruct (Z.ltb_spec x 1) as [Hlt|Hge]; [unfold n_advance in E; destruct (Z.ltb_spec x 1); [discriminate|lia]|].
  destruct (Z.leb_spec y 0) as [Hy|Hy]; [unfold n_advance in E; destruct (Z.ltb_spec x 1); [lia|]; destruct (Z.leb_spec y 0); [discriminate|lia]|].
  destruct (NAdv.n_advance_spec x y tr Hge ltac:(lia)) as (a0 & E0 & _ & H2 & _). rewrite E in E0. injection E0 as <-. lia.
Qed.
Lemma len_cons_ne0 (x : Z) l : (len (x :: l) =? 0) = false.
Proof. unfold len. cbn [length]. apply Z.eqb_neq. lia. Qed.

Lemma run_S f c K g : run (S f) c K g =
  match K with
  | [] => (([], g), StopIteration)
  | FLoop t body :: K' =>
      match beval c t g with Err e => (([], g), Raise e) | Ok true => run f c (FS body :: FLoop t body :: K') g | Ok false => run f c K' g end
  | FS s :: K' =>
      match s with
      | SSkip => run f c K' g
      | SSeq a b => run f c (FS a :: FS b :: K') g
      | SIf t a b => match beval c t g with Err e => (([], g), Raise e) | Ok true => run f c (FS a :: K') g | Ok false => run f c (FS b :: K') g end
      | SWhile t body => run f c (FLoop t body :: K') g
      | SSetN e => match zeval c e g with Err e => (([], g), Raise e) | Ok v => run f c K' (set_n g v) end
      | SSetR e => match zeval c e g with Err e => (([], g), Raise e) | Ok v => run f c K' (set_r g v) end
      | SSetL x e => match zeval c e g with Err e => (([], g), Raise e) | Ok v => run f c K' (set_l g x (Some v)) end
      | SDel xs => run f c K' (fold_left (fun g x => set_l g x None) xs g)
      | SListInit e => match zeval c e g with Err e => (([], g), Raise e) | Ok v => run f c K' (set_sn g [v]) end
      | SListPop => match gsn g with _ :: r => run f c K' (set_sn g r) | [] => (([], g), Raise IndexError) end
      | SListPush e => match zeval c e g with Err e => (([], g), Raise e) | Ok v => run f c K' (set_sn g (v :: gsn g)) end
      | SAssert t => match beval c t g with Err e => (([], g), Raise e) | Ok true => run f c K' g | Ok false => (([], g), Raise AssertionError) end
      | SYield a => match aeval c a g with Err e => (([], g), Raise e) | Ok act => ((K', g), Yield act) end
      | SRaise e => (([], g), Raise e)
      end
  end.
Proof. reflexivity. Qed.

Ltac arith_opaque := cbv - [Z.add Z.sub Z.mul Z.div Z.min Z.eqb Z.ltb Z.gtb Z.geb Z.leb nadv len].
Ltac small0 E := cbn [beval zeval cmp2 bind aeval seval set_n set_r set_l set_sn gb gsn gl n_ r_ max_n_ period bsn bst trj cfg_of fold_left loc_eqb negb
                        block_c MRm1 raiseR] in E.
Ltac small E := small0 E; repeat (progress (repeat match goal with H : ?L ?x = Some _ |- _ => rewrite H in E end); small0 E).
(* the statement at the head of the suspended generator, one level unfolded (the pieces of the program stay folded otherwise) *)
Ltac expose E :=
  match type of E with
  | run _ _ ENC _ = _ => unfold ENC in E
  | run _ _ (FS ?h :: _) _ = _ =>
      first [ unfold h in E
            | match h with ?f _ _ _ => unfold f in E end ]
  end.
(* one statement of the interpreter; the suspended calls of run stay folded *)
Ltac step E := match type of E with run _ _ _ _ = _ => idtac end; repeat expose E; rewrite run_S in E; small E.
Lemma len_nil_eq0 : (len (@nil Z) =? 0) = true. Proof. reflexivity. Qed.
Ltac decide1 E :=
  match type of E with
  | context [len (?x :: ?l) =? 0] => rewrite (len_cons_ne0 x l) in E
  | context [len [] =? 0] => rewrite len_nil_eq0 in E
  | context [?x =? ?x] => rewrite (Z.eqb_refl x) in E
  end.
Ltac split1 E :=
  match type of E with
  | (if negb ?x then _ else _) = _ => destruct x eqn:?
  | (if ?x then _ else _) = _ => destruct x eqn:?
  | match nadv ?a ?b ?t with _ => _ end = _ => destruct (nadv a b t) eqn:?
  | context [match nadv ?a ?b ?t with _ => _ end] => destruct (nadv a b t) eqn:?
  | context [bind (nadv ?a ?b ?t) _] => destruct (nadv a b t) eqn:?
  end.
Ltac drive E := repeat (first [decide1 E; small E | split1 E; small E | step E]).
Ltac use_hyps := repeat match goal with H : ?t = _ |- context [?t] => rewrite H end.
Ltac fin1 :=
  match goal with
  | |- ?x = ?x => reflexivity
  | |- _ <> _ => discriminate
  | |- _ = _ -> False => discriminate
  | |- _ \/ _ => first [left; reflexivity | right; reflexivity]
  | |- @eq outcome _ _ => first [reflexivity | repeat f_equal; lia]
  | |- @eq base _ _ => first [reflexivity | f_equal; lia]
  | |- @eq (list Z) _ _ => first [reflexivity | repeat f_equal; lia]
  | |- @eq (option Z) _ _ => first [reflexivity | assumption | f_equal; lia]
  | |- @eq kls _ _ => reflexivity
  | |- @eq (list frame) _ _ => reflexivity
  | |- forall _, Some _ = Some _ -> _ => let H := fresh in intros ? H ?; injection H as <-; lia
  | _ => assumption
  end.
Ltac fin := repeat match goal with |- _ /\ _ => split end; try fin1.
Ltac nadv_facts :=
  repeat match goal with
  | H : nadv ?x ?y ?t = Ok ?a |- _ =>
      lazymatch goal with
      | _ : 1 <= a |- _ => fail
      | _ => assert (1 <= a) by (apply (nadv_pos x y t a H); lia)
      end
  end.
Ltac close := arith_opaque; use_hyps; arith_opaque; rewrite ?Z.eqb_refl; fin; try (exfalso; nadv_facts; lia).

(* the kernel, too, must not unfold suspended calls of the interpreter when it re-checks the symbolic execution *)
#[local] Strategy opaque [run].

Section STEP.
Variables (p bs : Z) (st : storage) (tr : traj).
Let c := cfg_of p bs st tr.
Let kk := KTwo p bs st tr.

Definition good (s : Online.st) (g : gst) (K : list frame) : Prop := k s = kk /\ gb g = b s /\ gsn g = snaps s /\ Rk (pcv s) g K.

Definition step_ok (s : Online.st) (g : gst) (K : list frame) : Prop :=
  good (fst (Online.next s)) (snd (fst (run FUEL c K g))) (fst (fst (run FUEL c K g))) /\ snd (run FUEL c K g) = snd (Online.next s).

Ltac prelude pcx :=
  let HR := fresh "HR" in
  intros s g K Hpc; destruct s as [c0 pc0 [n r mx] sn ex], g as [gb0 gsn0 L]; cbn [pcv] in Hpc; subst pc0;
  unfold step_ok, good; cbn [k pcv b snaps gb gsn]; intros (-> & -> & -> & HR);
  destruct (run FUEL c K {| gb := {| n_ := n; r_ := r; max_n_ := mx |}; gsn := sn; gl := L |}) as [[K' g'] o] eqn:E; cbn [fst snd];
  unfold FUEL, c in E; cbn [Rk] in HR; unfold hasmax in HR; cbn [gb gl gsn max_n_ n_ r_] in HR.

Lemma step_PStart : forall s g K, pcv s = PStart -> good s g K -> step_ok s g K.
Proof. prelude PStart. destruct HR as [-> ->]. destruct mx as [m|]; drive E; injection E as <- <- <-; close. Qed.
Lemma step_PFwd : forall s g K, pcv s = PFwd -> good s g K -> step_ok s g K.
Proof. prelude PFwd. destruct HR as [-> ->]. destruct mx as [m|]; drive E; injection E as <- <- <-; close. Qed.
Lemma step_PFinished : forall s g K, pcv s = PFinished -> good s g K -> step_ok s g K.
Proof. prelude PFinished. subst K. drive E. injection E as <- <- <-. close. Qed.
Lemma step_PTOuter : forall s g K, pcv s = PTOuter -> good s g K -> step_ok s g K.
Proof. prelude PTOuter. destruct HR as [Hm HK]. destruct mx as [m|]; [clear Hm|congruence]. destruct HK as [-> | ->]; drive E; injection E as <- <- <-; close. Qed.
Lemma step_PTBlock n0s : forall s g K, pcv s = PTBlock n0s -> good s g K -> step_ok s g K.
Proof. prelude PTBlock. destruct HR as (Hm & HL & ->). destruct mx as [m|]; [clear Hm|congruence]. destruct sn as [|cp sn]; drive E; injection E as <- <- <-; close. Qed.
Lemma step_PTAfterCopy n0s : forall s g K, pcv s = PTAfterCopy n0s -> good s g K -> step_ok s g K.
Proof.
  prelude PTAfterCopy. destruct HR as (Hm & HL & -> & Hne). destruct mx as [m|]; [clear Hm|congruence]. specialize (Hne m eq_refl).
  drive E; injection E as <- <- <-; close.
Qed.
Lemma step_PTInner n0s : forall s g K, pcv s = PTInner n0s -> good s g K -> step_ok s g K.
Proof. prelude PTInner. destruct HR as (Hm & HL & ->). destruct mx as [m|]; [clear Hm|congruence]. drive E; injection E as <- <- <-; close. Qed.
Lemma step_PTAfterPush n0s q : forall s g K, pcv s = PTAfterPush n0s q -> good s g K -> step_ok s g K.
Proof. prelude PTAfterPush. destruct HR as (Hm & HL & HL0 & ->). destruct mx as [m|]; [clear Hm|congruence]. drive E; injection E as <- <- <-; close. Qed.
Lemma step_PTAdj n0s : forall s g K, pcv s = PTAdj n0s -> good s g K -> step_ok s g K.
Proof. prelude PTAdj. destruct HR as (Hm & HL & ->). destruct mx as [m|]; [clear Hm|congruence]. drive E; injection E as <- <- <-; close. Qed.
Lemma step_PTRevAct n0s : forall s g K, pcv s = PTRevAct n0s -> good s g K -> step_ok s g K.
Proof. prelude PTRevAct. destruct HR as (Hm & HL & ->). destruct mx as [m|]; [clear Hm|congruence]. drive E; injection E as <- <- <-; close. Qed.

Theorem two_step s g K : good s g K -> step_ok s g K.
Proof.
  intros H. destruct (pcv s) eqn:Ep;
    eauto using step_PStart, step_PFwd, step_PFinished, step_PTOuter, step_PTBlock, step_PTAfterCopy, step_PTInner, step_PTAfterPush, step_PTAdj, step_PTRevAct;
    exfalso; destruct H as (_ & _ & _ & HR); rewrite Ep in HR; exact HR.
Qed.
End STEP.

(* ---- every history ---- *)
Lemma finalize_fixed kk bb : max_n_ bb <> None -> fst (finalize kk bb) = bb.
Proof.
  unfold finalize. destruct (kk <? 1); [reflexivity|]. destruct (max_n_ bb) as [m|]; [|congruence]. intros _.
  destruct (negb (n_ bb =? kk) || negb (m =? kk)); reflexivity.
Qed.

Fixpoint grun_ops_f (fuel : nat) (c : cfg) (K : list frame) (g : gst) (ops : list op) : list obs :=
  match ops with
  | [] => []
  | Next :: rest => let '((K', g'), o) := run fuel c K g in
      ONext o (n_ (gb g')) (r_ (gb g')) (max_n_ (gb g')) false :: grun_ops_f fuel c K' g' rest      (* is_exhausted: `return False` *)
  | Fin kk :: rest => let '(g', e) := gfinalize kk g in
      OFin e (n_ (gb g')) (r_ (gb g')) (max_n_ (gb g')) false :: grun_ops_f fuel c K g' rest
  end.
Definition grun_ops := grun_ops_f FUEL.

Section HIST.
Variables (p bs : Z) (st : storage) (tr : traj).
Notation c := (cfg_of p bs st tr).

Theorem two_history : forall ops s g K, good p bs st tr s g K -> grun_ops c K g ops = run_ops s ops.
Proof.
  induction ops as [|o ops IH]; intros s g K HG; [reflexivity|]. destruct o as [|kk]; unfold grun_ops in *; cbn [grun_ops_f run_ops].
  - destruct (two_step p bs st tr s g K HG) as [HG' Ho].
    destruct (run FUEL c K g) as [[K' g'] o] eqn:Er. destruct (next s) as [s' o'] eqn:En. cbn [fst snd] in *. subst o'.
    destruct HG' as (Hk & Hb & Hs & HR). rewrite Hb.
    assert (Hex : is_exhausted s' = false) by (unfold is_exhausted; rewrite Hk; reflexivity). rewrite Hex. f_equal.
    apply IH. repeat split; assumption.
  - destruct HG as (Hk & Hb & Hs & HR). unfold gfinalize. rewrite Hb. destruct (finalize kk (b s)) as [b' e] eqn:Ef. cbn [gb].
    set (s' := {| k := k s; pcv := pcv s; b := b'; snaps := snaps s; exh := exh s |}).
    assert (Hex : is_exhausted s' = false) by (unfold is_exhausted, s'; cbn [k]; rewrite Hk; reflexivity). rewrite Hex. f_equal.
    apply IH. unfold good, s'. cbn [k pcv b snaps gb gsn]. repeat split; try assumption.
    assert (Hfix : max_n_ (b s) <> None -> b' = b s) by (intros H; pose proof (finalize_fixed kk (b s) H) as H'; rewrite Ef in H'; exact H').
    destruct (pcv s); cbn [Rk] in HR |- *; try exact HR; unfold hasmax in *; cbn [gb gl gsn] in *; rewrite Hb in HR;
      try (destruct HR as [Hm HR']; rewrite (Hfix Hm); rewrite <- Hb; split; [rewrite Hb; exact Hm|]; try rewrite Hb; exact HR').
Qed.

Definition g_init : gst := {| gb := {| n_ := 0; r_ := 0; max_n_ := None |}; gsn := []; gl := fun _ => None |}.
Theorem two_from_start ops s : construct (KTwo p bs st tr) = Ok s -> grun_ops c [FS two_prog_model] g_init ops = run_ops s ops.
Proof.
  intros Hc. apply two_history. cbn [construct] in Hc. destruct (p <? 1); [discriminate|].
  assert (Hs : s = mk (KTwo p bs st tr) PStart 0 0 None [] false) by (destruct st; try discriminate; injection Hc as <-; reflexivity).
  subst s. unfold good. cbn. auto.
Qed.
End HIST.
Print Assumptions two_step.
Print Assumptions two_from_start.
