(* Working lemmas about the reference executor (Model/Exec.v) and the monitored client (Model/Sched.v). *)
From Coq Require Import ZArith List Lia Bool.
Require Import Actions Exec.
Import ListNotations.
Open Scope Z_scope.

Lemma first_err_ok b e l : b = true -> first_err (chk b e :: l) = first_err l.
Proof. intros ->. reflexivity. Qed.
Lemma first_err_app_none l1 l2 : first_err l1 = None -> first_err (l1 ++ l2) = first_err l2.
Proof. induction l1 as [|[e|] l1 IH]; cbn; intros H; [reflexivity|discriminate|auto]. Qed.
Lemma first_err_nil : first_err [] = None. Proof. reflexivity. Qed.

Lemma exec_ok p k e x a : check p k e x a = None -> exec p k e x a = inl (apply p e x a).
Proof. unfold exec. intros ->. reflexivity. Qed.
Lemma exec_inl p k e x a x' : exec p k e x a = inl x' -> check p k e x a = None /\ x' = apply p e x a.
Proof. unfold exec. destruct (check p k e x a); [discriminate|]. intros H; injection H as <-. auto. Qed.

(* discharge `check ... = None` goals: peel the requirement list one by one *)
Ltac chk_step := first [ rewrite first_err_ok | rewrite first_err_nil ].
Ltac bool_true := repeat match goal with
  | |- _ && _ = true => apply andb_true_intro; split
  | |- negb _ = true => apply negb_true_iff
  | |- _ || _ = true => apply orb_true_iff
  | |- (_ <=? _) = true => apply Z.leb_le
  | |- (_ <? _) = true => apply Z.ltb_lt
  | |- (_ =? _) = true => apply Z.eqb_eq
  | |- (_ <=? _) = false => apply Z.leb_gt
  | |- (_ <? _) = false => apply Z.ltb_ge
  | |- (_ =? _) = false => apply Z.eqb_neq
  end.

Lemma lookup_remove_other k k' l : k <> k' -> lookup k (remove k' l) = lookup k l.
Proof.
  intros Hn. induction l as [|[k0 v] l IH]; [reflexivity|]. cbn [remove lookup].
  destruct (Z.eqb_spec k' k0) as [->|Hk'].
  - destruct (Z.eqb_spec k k0); [congruence|reflexivity].
  - cbn [lookup]. destruct (Z.eqb_spec k k0); [reflexivity|exact IH].
Qed.
Lemma len_cons {A} (a : A) l : len (a :: l) = len l + 1.
Proof. unfold len. cbn [length]. lia. Qed.
Lemma len_nil {A} : len (@nil A) = 0. Proof. reflexivity. Qed.
Lemma len_nonneg {A} (l : list A) : 0 <= len l. Proof. unfold len. lia. Qed.
