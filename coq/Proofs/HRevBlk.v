(* HRevolve (two levels: RAM = level 0, DISK = level 1), structural level.  The grammar of hrevolve's op lists at level 1
   (hrevolve_aux / hrevolve_recurse with K = 1; their K = 0 calls produce RevBlk.Blk blocks) and the block lemma over the
   executor of DiskBlk (RAM store with budget R, unbounded DISK store).
   A disk checkpoint can be loaded several times (each left part re-reads it); its last load is a Move only when the step to
   reverse is the checkpoint's own -- when the last use is a memory-only block it stays on DISK (finding D8). *)
From Coq Require Import ZArith List Lia Bool.
Require Import Actions RevBlk DiskBlk.
Import ListNotations.
Open Scope Z_scope.

Section HREV.
Variable N R c0 : Z.

(* MTop: hrevolve_recurse (nothing at o yet);  MPw: hrevolve_aux right after Write_disk o (the next Forward writes it);
   MLd: hrevolve_aux right after Read_disk o *)
Inductive mode := MTop | MPw | MLd.
Inductive HB : mode -> Z -> Z -> list op -> Prop :=
 | HZ m o : m <> MPw -> HB m o 0 (adj o)
 | HMem m o l ops : Blk true o l c0 ops -> HB m o l ops
 | H1 o : HB MLd o 1 ([OF o (o + 1)] ++ adj (o + 1) ++ [ORD o] ++ adj o ++ [ODM o])
 | HSplit m o l j s1 s2 : m <> MTop -> 2 <= l -> 1 <= j <= l - 1 -> HB MTop (o + j) (l - j) s1 -> HB MLd o (j - 1) s2 ->
     HB m o l ([OF o (o + j)] ++ s1 ++ [ORD o] ++ s2)
 | HW o l s : HB MPw o l s -> HB MTop o l (OWD o :: s).

Notation dexec := (DiskBlk.dexec N R).
Notation dexecs := (DiskBlk.dexecs N R).
Definition Sset (ex : list Z) (c : cst) (x : xst) : Prop := forall z, In z (snaps c) <-> In z (keys x) \/ In z ex.

Definition HEntry (m : mode) (ex : list Z) (o l : Z) (prev : option op) (c : cst) (X : dxst) : Prop :=
  let x := mx X in let h := o + l + 1 in
  0 <= o /\ 0 <= l /\ h <= N /\ n_ c = o /\ r_ c = N - h /\ rr x = N - h /\ fwd x = Some o /\ wdeps x = None /\
  endfwd x = negb (h =? N) /\
  store_ok x /\ (forall p, In p (keys x) -> p < o) /\ Z.of_nat (length (store x)) + c0 <= R /\
  dk_ok (dk X) /\ (forall p, In p ex -> p < o) /\
  match m with
  | MTop => wics x = None /\ Sset ex c x /\ (forall p, In p (dkeys X) -> p < o \/ h <= p)
  | MPw => wics x = None /\ Sset ex c x /\ (forall p, In p (dkeys X) -> p < o \/ h <= p) /\ prev = Some (OWD o)
  | MLd => is_plain prev /\ exists e, wics x = Some (o, e) /\ h <= e /\
           if l =? 0 then Sset ex c x /\ (forall p, In p (dkeys X) -> p < o \/ h <= p)
           else Sset (o :: ex) c x /\ lookup o (dk X) = Some (o, e) /\ (forall p, In p (dkeys X) -> p < o \/ h <= p \/ p = o)
  end.
Definition HExit (ex : list Z) (o : Z) (X0 : dxst) (c : cst) (X : dxst) : Prop :=
  let x := mx X in
  n_ c = o + 1 /\ r_ c = N - o /\ rr x = N - o /\ fwd x = Some (o + 1) /\ wdeps x = None /\ wics x = None /\ endfwd x = true /\
  store x = store (mx X0) /\ Sset ex c x /\
  dk_ok (dk X) /\ (forall p, p < o -> lookup p (dk X) = lookup p (dk X0)) /\ (forall p, In p (dkeys X) -> In p (dkeys X0) \/ o <= p).

Lemma dk_ok_cons d o b : dk_ok d -> ~ In o (map fst d) -> dk_ok ((o, (o, b)) :: d).
Proof.
  intros [Hnd Hlk] Hni. split; cbn [map fst lookup].
  - constructor; assumption.
  - intros p a b'. destruct (Z.eqb_spec p o); [intros E; injection E as <- _; congruence|apply Hlk].
Qed.
Lemma lookup_remove_eq d o : NoDup (map fst d) -> lookup o (remove o d) = None.
Proof. intros Hnd. apply lookup_none_iff. intros Hin. apply (keys_remove d o Hnd) in Hin. lia. Qed.
Lemma dk_ok_remove d o : dk_ok d -> dk_ok (remove o d).
Proof.
  intros [Hnd Hlk]. split; [apply nodup_remove; exact Hnd|]. intros p a b H.
  destruct (Z.eq_dec p o) as [->|Hne]; [rewrite (lookup_remove_eq d o Hnd) in H; discriminate|].
  rewrite lookup_remove_ne in H by exact Hne. eapply Hlk; eauto.
Qed.
Lemma eqb_t a b : a = b -> (a =? b) = true. Proof. intros ->. apply Z.eqb_refl. Qed.

(* the read of the disk checkpoint at o, as an executor step *)
Lemma dexec_read x d o e (mv : bool) : endfwd x = true -> wics x = None -> wdeps x = None -> lookup o d = Some (o, e) ->
  o < N - rr x -> N - rr x <= e ->
  dexec {| mx := x; dk := d |} ((if mv then Move else Copy) o DISK WORK) =
    Some {| mx := {| fwd := Some o; wics := Some (o, e); wdeps := None; store := store x; rr := rr x; endfwd := true |};
            dk := if mv then remove o d else d |}.
Proof.
  intros He Hi Hd Hl H1 H2. destruct mv; cbn [DiskBlk.dexec mx dk]; rewrite He, Hi, Hd, Hl; cbn [isnone andb negb];
  (replace ((o =? o) && (o <? N - rr x) && (N - rr x <=? e)) with true;
   [reflexivity | symmetry; rewrite !andb_true_iff, Z.eqb_eq, Z.ltb_lt, Z.leb_le; lia]).
Qed.

Theorem hblk_ok : forall m o l ops, HB m o l ops ->
  forall ex i prev c X, HEntry m ex o l prev c X ->
  exists acts c' X' lastop, Runs N i prev c ops acts c' lastop /\ dexecs X acts = Some X' /\ HExit ex o X c' X'.
Proof.
  induction 1 as [m o Hm|m o l ops HB|o|m o l j s1 s2 Hm Hl Hj HB1 IH1 HB2 IH2|o l s HB IH]; intros ex i prev c X HE.
  - (* l = 0: one adjoint step *)
    destruct X as [x d]. unfold HEntry in HE. cbn [mx dk] in HE.
    destruct HE as (Ho & _ & Hh & Hn & Hr & Hrr & Hf & Hwd & Hef & Hso & Hkx & Hbud & Hdk & Hex & Hmode).
    replace (o + 0 + 1) with (o + 1) in * by lia.
    assert (Hss : Sset ex c x /\ (forall p, In p (map fst d) -> p < o \/ o + 1 <= p)).
    { destruct m; [destruct Hmode as (_ & A & B); auto|congruence|destruct Hmode as (_ & e & _ & _ & A)]. cbn [Z.eqb] in A. exact A. }
    destruct Hss as [Hss Hrange].
    destruct (adj_runs N i prev c o Hn ltac:(lia)) as (c1 & HR1 & Hn1 & Hr1 & Hs1).
    destruct (adj_exec N R x o Hf ltac:(lia) Hef) as (x1 & HX1 & Hf1 & Hrr1 & Hwd1 & Hwi1 & Hef1 & Hst1).
    exists (adj_acts N o), c1, {| mx := x1; dk := d |}, (ODFM (o + 1)). split; [exact HR1|]. split; [apply lift_execs; exact HX1|].
    unfold HExit, dkeys. cbn [mx dk]. repeat split; auto; try lia; try apply Hdk.
    all: try (intros Hz; rewrite Hs1 in Hz; unfold keys; rewrite Hst1; apply Hss; exact Hz).
    all: try (intros Hz; rewrite Hs1; unfold keys in Hz; rewrite Hst1 in Hz; apply Hss; exact Hz).
  - (* a memory-only block *)
    destruct X as [x d]. unfold HEntry in HE. cbn [mx dk] in HE.
    destruct HE as (Ho & Hl0 & Hh & Hn & Hr & Hrr & Hf & Hwd & Hef & Hso & Hkx & Hbud & Hdk & Hex & Hmode).
    assert (Hset : forall z, (true = true -> 1 <= l -> z <> o) -> (In z (snaps c) <-> In z (keys x) \/ In z ex)).
    { intros z Hz. destruct m; [destruct Hmode as (_ & A & _); apply A|destruct Hmode as (_ & A & _); apply A|].
      destruct Hmode as (_ & e & _ & _ & A). destruct (Z.eqb_spec l 0) as [El|El]; [destruct A as [A _]; apply A|].
      destruct A as (A & _). specialize (Hz eq_refl ltac:(lia)). specialize (A z). cbn [In] in A. assert (o <> z) by congruence. tauto. }
    assert (Hc0 : 1 <= l -> 1 <= c0) by (intros Hl1; inversion HB; subst; lia).
    destruct (blk_ok N R ex true o l c0 ops HB i prev c x) as (acts & c' & x' & lastop & HR & HX & HEx).
    { unfold Entry. cbn [orb]. repeat match goal with |- _ /\ _ => split end; auto; try lia.
      all: try (intros p Hp; left; apply Hkx; exact Hp).
      all: try (intros Hin; specialize (Hkx o Hin); lia). }
    { discriminate. }
    destruct HEx as (Hn' & Hr' & Hrr' & Hf' & Hwd' & Hwi' & Hef' & Hst' & Hss').
    exists acts, c', {| mx := x'; dk := d |}, lastop. split; [exact HR|]. split; [apply lift_execs; exact HX|].
    unfold HExit, dkeys. cbn [mx dk]. repeat split; auto.
    + rewrite Hst'. apply remove_notin. intros Hin. specialize (Hkx o Hin). lia.
    + apply Hss'.
    + apply Hss'.
    + apply Hdk.
    + apply Hdk.
  - (* l = 1 from the loaded disk checkpoint: forward one step, reverse step o+1, read again (Move), reverse step o *)
    destruct X as [x d]. unfold HEntry in HE. cbn [mx dk] in HE.
    destruct HE as (Ho & _ & Hh & Hn & Hr & Hrr & Hf & Hwd & Hef & Hso & Hkx & Hbud & Hdk & Hex & Hpl & e & Hwi & He & Hmode).
    replace (o + 1 + 1) with (o + 2) in * by lia. change (1 =? 0) with false in Hmode. destruct Hmode as (Hss & Hlo & Hrange).
    destruct (run_fwd_plain N i prev c o (o + 1) Hpl Hn ltac:(lia)) as (c1 & HR1 & Hn1 & Hr1 & Hs1).
    set (x1 := {| fwd := Some (o + 1); wics := None; wdeps := None; store := store x; rr := rr x; endfwd := endfwd x |}).
    assert (HX1 : exec N R x (Forward o (o + 1) false false WORK) = Some x1) by (rewrite (exec_fwd_work N R x o (o + 1) false Hf) by (try lia; discriminate); reflexivity).
    destruct (adj_runs N (i + 1) (Some (OF o (o + 1))) c1 (o + 1) Hn1 ltac:(lia)) as (c2 & HR2 & Hn2 & Hr2 & Hs2).
    destruct (adj_exec N R x1 (o + 1) eq_refl ltac:(cbn [rr x1]; lia)) as (x2 & HX2 & Hf2 & Hrr2 & Hwd2 & Hwi2 & Hef2 & Hst2).
    { cbn [endfwd x1]. rewrite Hef. f_equal. f_equal. lia. }
    assert (Hin2 : In o (snaps c2)) by (rewrite Hs2, Hs1; apply Hss; right; left; reflexivity).
    set (c3 := upd c2 o (r_ c2) (del o (snaps c2))).
    set (x3 := {| fwd := Some o; wics := Some (o, e); wdeps := None; store := store x2; rr := rr x2; endfwd := true |}).
    assert (HX3 : dexec {| mx := x2; dk := d |} (Move o DISK WORK) = Some {| mx := x3; dk := remove o d |}).
    { apply (dexec_read x2 d o e true); auto; lia. }
    destruct (adj_runs N (i + 1 + 4 + 1) (Some (ORD o)) c3 o eq_refl ltac:(cbn [r_ c3 upd]; lia)) as (c4 & HR4 & Hn4 & Hr4 & Hs4).
    destruct (adj_exec N R x3 o eq_refl ltac:(cbn [rr x3]; lia)) as (x4 & HX4 & Hf4 & Hrr4 & Hwd4 & Hwi4 & Hef4 & Hst4).
    { cbn [endfwd x3]. symmetry. apply negb_true_iff, Z.eqb_neq. lia. }
    exists ([Forward o (o + 1) false false WORK] ++ adj_acts N (o + 1) ++ [Move o DISK WORK] ++ adj_acts N o ++ []), c4, {| mx := x4; dk := remove o d |}, (ODM o).
    split; [|split].
    + eapply Runs_app; [exact HR1|]. eapply Runs_app; [exact HR2|]. eapply (Runs_app N _ _ _ [ORD o]); [apply run_rd_move; [lia|apply mem_true_iff; exact Hin2]|].
      eapply Runs_app; [exact HR4|]. apply run_dm. cbn [length adj]. lia.
    + cbn [app DiskBlk.dexecs]. replace (dexec {| mx := x; dk := d |} (Forward o (o + 1) false false WORK)) with (Some {| mx := x1; dk := d |}).
      2:{ symmetry. cbn [DiskBlk.dexec mx dk]. rewrite HX1. reflexivity. }
      rewrite dexecs_app, (lift_execs N R _ _ d _ HX2). cbn [app DiskBlk.dexecs]. rewrite HX3. rewrite app_nil_r. apply lift_execs. exact HX4.
    + unfold HExit, dkeys. cbn [mx dk]. destruct Hdk as [Hnd Hlk]. repeat split; auto; try lia.
      * rewrite Hst4. cbn [store x3]. rewrite Hst2. reflexivity.
      * intros Hz. rewrite Hs4 in Hz. cbn [snaps c3 upd] in Hz. apply in_del in Hz. destruct Hz as [Hz Hne]. rewrite Hs2, Hs1 in Hz.
        apply Hss in Hz. unfold keys. rewrite Hst4. cbn [store x3]. rewrite Hst2. cbn [store x1]. cbn [In] in Hz. destruct Hz as [Hz|[Hz|Hz]]; [left; exact Hz|congruence|right; exact Hz].
      * intros Hz. rewrite Hs4. cbn [snaps c3 upd]. apply in_del. unfold keys in Hz. rewrite Hst4 in Hz. cbn [store x3] in Hz. rewrite Hst2 in Hz. cbn [store x1] in Hz.
        split; [rewrite Hs2, Hs1; apply Hss; cbn [In]; tauto|]. destruct Hz as [Hz|Hz]; [specialize (Hkx z Hz)|specialize (Hex z Hz)]; lia.
      * apply nodup_remove. exact Hnd.
      * apply (dk_ok_remove d o (conj Hnd Hlk)).
      * intros p Hp. apply lookup_remove_ne. lia.
      * intros p Hp. apply (keys_remove d o Hnd) in Hp. left. tauto.
  - (* split *)
    destruct X as [x d]. unfold HEntry in HE. cbn [mx dk] in HE.
    destruct HE as (Ho & Hl0 & Hh & Hn & Hr & Hrr & Hf & Hwd & Hef & Hso & Hkx & Hbud & Hdk & Hex & Hmode).
    set (h := o + l + 1) in *.
    (* A: the first Forward -- writes the disk checkpoint (MPw) or just advances (MLd) *)
    assert (HA : exists a c1 d1 e1,
       Runs N i prev c [OF o (o + j)] [a] c1 (OF o (o + j)) /\
       dexec {| mx := x; dk := d |} a = Some {| mx := {| fwd := Some (o + j); wics := None; wdeps := None; store := store x; rr := rr x; endfwd := endfwd x |}; dk := d1 |} /\
       n_ c1 = o + j /\ r_ c1 = r_ c /\ Sset (o :: ex) c1 x /\ dk_ok d1 /\ lookup o d1 = Some (o, e1) /\ h <= e1 + (if match m with MPw => true | _ => false end then l - j + 1 else 0) /\ o + j <= e1 /\
       (forall p, In p (map fst d1) -> p < o \/ h <= p \/ p = o) /\ (forall p, p < o -> lookup p d1 = lookup p d) /\ (forall p, In p (map fst d1) -> In p (map fst d) \/ o <= p)).
    { destruct m; [congruence| |].
      - destruct Hmode as (Hwi & Hss & Hrange & ->).
        assert (Hod : ~ In o (map fst d)) by (intros Hin; destruct (Hrange o Hin); unfold h in *; lia).
        exists (Forward o (o + j) true false DISK), (dwr_state c o (o + j)), ((o, (o, o + j)) :: d), (o + j).
        split; [apply run_fwd_dwrite; [exact Hn|unfold h in *; lia]|]. split.
        { cbn [DiskBlk.dexec mx dk]. rewrite Hf. rewrite (proj2 (lookup_none_iff d o) Hod). cbn [isnone negb andb].
          replace ((o =? o) && (o <? o + j) && (o + j <=? N - rr x)) with true; [reflexivity|].
          symmetry. rewrite !andb_true_iff, Z.eqb_eq, Z.ltb_lt, Z.leb_le. unfold h in *. lia. }
        split; [reflexivity|]. split; [reflexivity|]. split.
        { intros z. cbn [snaps dwr_state]. specialize (Hss z). cbn [In]. destruct (mem o (snaps c)) eqn:E.
          - apply mem_true_iff in E. destruct (Z.eq_dec z o) as [->|]; [tauto|]. assert (o <> z) by congruence. tauto.
          - cbn [In]. tauto. }
        split; [apply dk_ok_cons; assumption|]. split; [cbn [lookup]; rewrite Z.eqb_refl; reflexivity|]. split; [unfold h; lia|]. split; [lia|].
        split; [intros p Hp; cbn [map fst In] in Hp; destruct Hp as [Hp|Hp]; [right; right; lia|destruct (Hrange p Hp); tauto]|]. split.
        { intros p Hp. cbn [lookup]. destruct (Z.eqb_spec p o); [lia|reflexivity]. }
        { intros p Hp. cbn [map fst In] in Hp. destruct Hp as [Hp|Hp]; [right; lia|left; exact Hp]. }
      - destruct Hmode as (Hpl & e & Hwi & He & Hmode). replace (l =? 0) with false in Hmode by (symmetry; apply Z.eqb_neq; lia).
        destruct Hmode as (Hss & Hlo & Hrange).
        destruct (run_fwd_plain N i prev c o (o + j) Hpl Hn ltac:(unfold h in *; lia)) as (c1 & HR1 & Hn1 & Hr1 & Hs1).
        exists (Forward o (o + j) false false WORK), c1, d, e. split; [exact HR1|]. split.
        { cbn [DiskBlk.dexec mx dk]. rewrite (exec_fwd_work N R x o (o + j) false Hf) by (unfold h in *; try lia; discriminate). reflexivity. }
        split; [exact Hn1|]. split; [exact Hr1|]. split; [intros z; rewrite Hs1; apply Hss|]. split; [exact Hdk|]. split; [exact Hlo|]. split; [lia|]. split; [unfold h in *; lia|].
        split; [exact Hrange|]. split; [reflexivity|]. intros p Hp. left. exact Hp. }
    destruct HA as (a & c1 & d1 & e1 & HR1 & HX1 & Hn1 & Hr1 & Hss1 & Hdk1 & Hlo1 & _ & He1 & Hrange1 & Hpres1 & Hkeys1).
    set (x1 := {| fwd := Some (o + j); wics := None; wdeps := None; store := store x; rr := rr x; endfwd := endfwd x |}) in *.
    (* B: everything above o + j *)
    destruct (IH1 (o :: ex) (i + 1)%nat (Some (OF o (o + j))) c1 {| mx := x1; dk := d1 |}) as (acts2 & c2 & X2 & last2 & HR2 & HX2 & HEx2).
    { unfold HEntry. cbn [mx dk x1 fwd wdeps endfwd store rr wics keys]. replace (o + j + (l - j) + 1) with h by (unfold h; lia).
      repeat match goal with |- _ /\ _ => split end; auto; try lia.
      - intros p Hp. specialize (Hkx p Hp). lia.
      - intros p [<-|Hp]; [lia|specialize (Hex p Hp); lia].
      - unfold dkeys. cbn [dk]. intros p Hp. destruct (Hrange1 p Hp) as [?|[?|?]]; lia. }
    destruct X2 as [x2 d2]. unfold HExit, dkeys in HEx2. cbn [mx dk x1 store] in HEx2.
    destruct HEx2 as (Hn2 & Hr2 & Hrr2 & Hf2 & Hwd2 & Hwi2 & Hef2 & Hst2 & Hss2 & Hdk2 & Hpres2 & Hkeys2).
    assert (Hlo2 : lookup o d2 = Some (o, e1)) by (rewrite Hpres2 by lia; exact Hlo1).
    assert (Hin2 : In o (snaps c2)) by (apply Hss2; right; left; reflexivity).
    assert (Hnk : ~ In o (keys x2)) by (unfold keys; rewrite Hst2; intros Hin; specialize (Hkx o Hin); lia).
    assert (Hrange2 : forall p, In p (map fst d2) -> p < o \/ o + j <= p \/ p = o).
    { intros p Hp. destruct (Hkeys2 p Hp) as [Hp1|?]; [|lia]. destruct (Hrange1 p Hp1) as [?|[?|?]]; unfold h in *; lia. }
    (* C + D: read the checkpoint at o again, then the part below o + j *)
    assert (HD : forall (mv : bool) c3, n_ c3 = o -> r_ c3 = N - (o + j) ->
       (if mv then j = 1 /\ Sset ex c3 x2 else 2 <= j /\ Sset (o :: ex) c3 x2) ->
       exists acts4 c4 X4 last4, Runs N (i + 1 + length s1 + 1) (Some (ORD o)) c3 s2 acts4 c4 last4 /\
         dexecs {| mx := {| fwd := Some o; wics := Some (o, e1); wdeps := None; store := store x2; rr := rr x2; endfwd := true |}; dk := if mv then remove o d2 else d2 |} acts4 = Some X4 /\
         HExit ex o {| mx := x2; dk := if mv then remove o d2 else d2 |} c4 X4).
    { intros mv c3 Hn3 Hr3 Hmv.
      destruct (IH2 ex (i + 1 + length s1 + 1)%nat (Some (ORD o)) c3
                  {| mx := {| fwd := Some o; wics := Some (o, e1); wdeps := None; store := store x2; rr := rr x2; endfwd := true |}; dk := if mv then remove o d2 else d2 |})
        as (acts4 & c4 & X4 & last4 & HR4 & HX4 & HEx4).
      - unfold HEntry. cbn [mx dk fwd wdeps endfwd store rr wics keys]. replace (o + (j - 1) + 1) with (o + j) by lia. rewrite Hst2.
        repeat match goal with |- _ /\ _ => split end; auto; try lia.
        all: try (symmetry; apply negb_true_iff, Z.eqb_neq; unfold h in *; lia).
        + destruct mv; [apply dk_ok_remove|]; exact Hdk2.
        + exact I.
        + exists e1. split; [reflexivity|]. split; [lia|]. destruct mv.
          * destruct Hmv as [-> Hs3]. change (1 - 1 =? 0) with true. split; [intros z; specialize (Hs3 z); unfold keys in *; cbn [store]; rewrite Hst2 in Hs3; exact Hs3|].
            unfold dkeys. cbn [dk]. intros p Hp. apply (keys_remove d2 o (proj1 Hdk2)) in Hp. destruct Hp as [Hp Hne]. destruct (Hrange2 p Hp) as [?|[?|?]]; lia.
          * destruct Hmv as [Hj2 Hs3]. replace (j - 1 =? 0) with false by (symmetry; apply Z.eqb_neq; lia).
            split; [intros z; specialize (Hs3 z); unfold keys in *; cbn [store]; rewrite Hst2 in Hs3; exact Hs3|]. split; [exact Hlo2|].
            unfold dkeys. cbn [dk]. intros p Hp. destruct (Hrange2 p Hp) as [?|[?|?]]; lia.
      - exists acts4, c4, X4, last4. split; [exact HR4|]. split; [exact HX4|].
        unfold HExit in *. cbn [mx dk store] in *. exact HEx4. }
    destruct (Z.eq_dec j 1) as [->|Hj1].
    + (* the read is the last use of the checkpoint: Move *)
      set (c3 := upd c2 o (r_ c2) (del o (snaps c2))).
      destruct (HD true c3) as (acts4 & c4 & X4 & last4 & HR4 & HX4 & HEx4); [reflexivity|cbn [r_ c3 upd]; lia| |].
      { split; [reflexivity|]. intros z. cbn [snaps c3 upd]. rewrite in_del. specialize (Hss2 z). cbn [In] in Hss2.
        destruct (Z.eq_dec z o) as [->|Hzo]; [split; [tauto|intros [Hz|Hz]; [tauto|specialize (Hex o Hz); lia]]|]. assert (o <> z) by congruence. tauto. }
      exists ([a] ++ acts2 ++ [Move o DISK WORK] ++ acts4), c4, X4, last4. split; [|split].
      * eapply Runs_app; [exact HR1|]. eapply Runs_app; [exact HR2|].
        eapply (Runs_app N _ _ _ [ORD o]); [apply run_rd_move; [lia|apply mem_true_iff; exact Hin2]|]. exact HR4.
      * cbn [app DiskBlk.dexecs]. rewrite HX1. rewrite dexecs_app, HX2. cbn [app DiskBlk.dexecs].
        rewrite (dexec_read x2 d2 o e1 true) by (auto; lia). exact HX4.
      * destruct X4 as [x4 d4]. unfold HExit, dkeys in *. cbn [mx dk store] in *.
        destruct HEx4 as (A1 & A2 & A3 & A4 & A5 & A6 & A7 & A8 & A9 & A10 & A11 & A12).
        repeat match goal with |- _ /\ _ => split end; auto; try lia.
        -- rewrite A8. exact Hst2.
        -- intros p Hp. rewrite A11 by exact Hp. rewrite lookup_remove_ne by lia. rewrite Hpres2 by lia. apply Hpres1. exact Hp.
        -- intros p Hp. destruct (A12 p Hp) as [Hp1|?]; [|right; lia]. apply (keys_remove d2 o (proj1 Hdk2)) in Hp1. destruct Hp1 as [Hp1 _].
           destruct (Hkeys2 p Hp1) as [Hp2|?]; [|right; lia]. exact (Hkeys1 p Hp2).
    + (* the checkpoint is needed again: Copy *)
      set (c3 := upd c2 o (r_ c2) (snaps c2)).
      destruct (HD false c3) as (acts4 & c4 & X4 & last4 & HR4 & HX4 & HEx4); [reflexivity|cbn [r_ c3 upd]; lia| |].
      { split; [lia|]. intros z. cbn [snaps c3 upd]. apply Hss2. }
      exists ([a] ++ acts2 ++ [Copy o DISK WORK] ++ acts4), c4, X4, last4. split; [|split].
      * eapply Runs_app; [exact HR1|]. eapply Runs_app; [exact HR2|].
        eapply (Runs_app N _ _ _ [ORD o]); [apply run_rd_copy; lia|]. exact HR4.
      * cbn [app DiskBlk.dexecs]. rewrite HX1. rewrite dexecs_app, HX2. cbn [app DiskBlk.dexecs].
        rewrite (dexec_read x2 d2 o e1 false) by (auto; lia). exact HX4.
      * destruct X4 as [x4 d4]. unfold HExit, dkeys in *. cbn [mx dk store] in *.
        destruct HEx4 as (A1 & A2 & A3 & A4 & A5 & A6 & A7 & A8 & A9 & A10 & A11 & A12).
        repeat match goal with |- _ /\ _ => split end; auto; try lia.
        -- rewrite A8. exact Hst2.
        -- intros p Hp. rewrite A11 by exact Hp. rewrite Hpres2 by lia. apply Hpres1. exact Hp.
        -- intros p Hp. destruct (A12 p Hp) as [Hp1|?]; [|right; lia].
           destruct (Hkeys2 p Hp1) as [Hp2|?]; [|right; lia]. exact (Hkeys1 p Hp2).
  - (* Write_disk o, then the block that writes it with its first Forward *)
    destruct (IH ex (i + 1)%nat (Some (OWD o)) c X) as (acts & c' & X' & lastop & HR & HX & HEx).
    { unfold HEntry in *. destruct HE as (A1 & A2 & A3 & A4 & A5 & A6 & A7 & A8 & A9 & A10 & A11 & A12 & A13 & A14 & A15 & A16 & A17).
      repeat match goal with |- _ /\ _ => split end; auto. }
    exists acts, c', X', lastop. split; [|split; [exact HX|exact HEx]].
    change (OWD o :: s) with ([OWD o] ++ s). change acts with ([] ++ acts). eapply Runs_app; [apply run_wd|exact HR].
    unfold HEntry in HE. tauto.
Qed.
End HREV.
Print Assumptions hblk_ok.
