(* The three basic schedule classes, model regenerated from source: none_prog_model / mem_prog_model / disk_prog_model are the
   programs (in the deep-embedded generator language GenLang) that harness/translate.py produces from the _iterator methods of
   NoneCheckpointSchedule, SingleMemoryStorageSchedule and SingleDiskStorageSchedule -- Gen/BasicGen.v re-translates the current
   source on every run and proves the result equal to these terms by conversion.  This file proves that running those programs
   (GenLang.run: resume the suspended generator to its next yield / exception / end; finalize = the base-class method on the
   attributes) is, under EVERY history of next() and finalize(k) calls, observation for observation what the hand-written model
   Online.v does -- so every theorem stated on Online.next / Online.run_ops for these classes is a theorem about the translated
   source. *)
From Coq Require Import ZArith List Bool Lia.
Require Import Actions Online GenLang.
Import ListNotations.
Open Scope Z_scope.

Definition fwd_body (step : zexp) (wa : bool) (sg : storage) : stmt :=
  SSeq (SSetL false ZN) (SSeq (SSetL true (ZAdd (ZL false) step)) (SSeq (SSetN (ZL true)) (SYield (AForward (ZL false) (ZL true) false wa sg)))).
Definition guard : stmt := SIf BMaxNotNone (SRaise RuntimeError) SSkip.

(* NoneCheckpointSchedule._iterator *)
Definition none_rest : stmt := SSeq (SSetExh true) (SYield AEndForward).
Definition none_prog_model : stmt := SSeq guard (SSeq (SWhile BMaxIsNone (fwd_body ZMaxsize false NONE)) none_rest).

(* SingleMemoryStorageSchedule._iterator *)
Definition mem_if : stmt :=
  SIf (BEq ZR (ZC 0)) (SSeq (SSetR ZMax) (SYield (AReverse ZMax (ZC 0) false)))
      (SIf (BEq ZR ZMax) (SSeq (SSetR (ZC 0)) (SYield AEndReverse)) (SRaise RuntimeError)).
Definition mem_rest : stmt := SSeq (SYield AEndForward) (SWhile BTrue mem_if).
Definition mem_prog_model : stmt := SSeq guard (SSeq (SWhile BMaxIsNone (fwd_body ZMaxsize true WORK)) mem_rest).

(* SingleDiskStorageSchedule._iterator *)
Definition disk_after_load : stmt := SSeq (SSetR (ZSub ZMax (ZL false))) (SYield (AReverse (ZL true) (ZL false) true)).
Definition disk_inner : stmt :=
  SSeq (SSetL true (ZSub ZMax ZR)) (SSeq (SSetL false (ZSub (ZL true) (ZC 1))) (SSeq (SSetN (ZL false))
    (SSeq (SIf BMove (SYield (AMove ZN DISK WORK)) (SYield (ACopy ZN DISK WORK))) disk_after_load))).
Definition disk_after_er : stmt := SIf BMove SBreak SSkip.
Definition disk_tail : stmt :=
  SSeq (SIf (BGt ZR ZMax) (SRaise RuntimeError) SSkip) (SSeq (SIf BMove (SSetExh true) (SSetR (ZC 0))) (SSeq (SYield AEndReverse) disk_after_er)).
Definition disk_outer : stmt := SSeq (SWhile (BLt ZR ZMax) disk_inner) disk_tail.
Definition disk_rest : stmt := SSeq (SYield AEndForward) (SWhile BTrue disk_outer).
Definition disk_prog_model : stmt := SSeq guard (SSeq (SWhile BMaxIsNone (fwd_body (ZC 1) true DISK)) disk_rest).

(* ---- the correspondence of states ---- *)
Definition mv_of (c : kls) : bool := match c with KDisk mv => mv | _ => false end.
Definition gof (s : st) (la lb : option Z) : gst := {| gb := b s; gx := exh s; gmv := mv_of (k s); l0 := la; l1 := lb |}.
Definition has_max (g : gst) : Prop := max_n_ (gb g) <> None.

Definition prog_of (c : kls) : stmt := match c with KNone_ => none_prog_model | KMem => mem_prog_model | _ => disk_prog_model end.
Definition Rk (c : kls) (p : pc) (g : gst) (K : list frame) : Prop :=
  match c, p with
  | (KNone_ | KMem | KDisk _), PStart => K = [FS (prog_of c)]
  | (KNone_ | KMem | KDisk _), PFinished => K = [] \/ (gmv g = true /\ K = [FS disk_after_er; FLoop BTrue disk_outer])
  | KNone_, PFwd => K = [FLoop BMaxIsNone (fwd_body ZMaxsize false NONE); FS none_rest]
  | KMem, PFwd => K = [FLoop BMaxIsNone (fwd_body ZMaxsize true WORK); FS mem_rest]
  | KMem, PMemRev => has_max g /\ (K = [FS (SWhile BTrue mem_if)] \/ K = [FLoop BTrue mem_if])
  | KDisk _, PFwd => K = [FLoop BMaxIsNone (fwd_body (ZC 1) true DISK); FS disk_rest]
  | KDisk _, PDiskLoop => has_max g /\ (K = [FS (SWhile BTrue disk_outer)] \/ K = [FLoop (BLt ZR ZMax) disk_inner; FS disk_tail; FLoop BTrue disk_outer]
                                        \/ (gmv g = false /\ K = [FS disk_after_er; FLoop BTrue disk_outer]))
  | KDisk _, PDiskAfterLoad n1 n0 => has_max g /\ l0 g = Some n0 /\ l1 g = Some n1 /\
                                     K = [FS disk_after_load; FLoop (BLt ZR ZMax) disk_inner; FS disk_tail; FLoop BTrue disk_outer]
  | _, _ => False
  end.
Definition basic (c : kls) : Prop := match c with KTwo _ _ _ _ => False | _ => True end.

Definition FUEL : nat := 40.

(* one request *)
Theorem basic_step s la lb K : basic (k s) -> Rk (k s) (pcv s) (gof s la lb) K ->
  exists K' la' lb', run FUEL K (gof s la lb) = ((K', gof (fst (Online.next s)) la' lb'), snd (Online.next s)) /\
                     k (fst (Online.next s)) = k s /\ Rk (k s) (pcv (fst (Online.next s))) (gof (fst (Online.next s)) la' lb') K'.
Proof.
  destruct s as [c p [n r mx] sn ex]. cbn [k pcv]. intros Hb HR.
  destruct c as [| |mv|]; cbn [basic] in Hb; try contradiction; clear Hb;
  destruct p; cbn [Rk] in HR; try contradiction.
  all: unfold has_max, gof in HR; cbn [gb gmv l0 l1 max_n_ b k mv_of] in HR.
  all: repeat match goal with
       | H : _ /\ _ |- _ => destruct H
       | H : _ \/ _ |- _ => destruct H
       end; subst.
  all: try match goal with H : false = true |- _ => discriminate H end.
  all: try match goal with H : true = false |- _ => discriminate H end.
  all: destruct mx as [m|]; try (exfalso; match goal with H : None <> None |- _ => apply H; reflexivity end).
  all: cbv - [Z.add Z.sub Z.eqb Z.ltb Z.gtb maxsize];
       repeat match goal with
       | |- context [?a =? ?b] => destruct (a =? b) eqn:?
       | |- context [?a <? ?b] => destruct (a <? b) eqn:?
       | |- context [?a >? ?b] => destruct (a >? b) eqn:?
       | |- context [if ?c then _ else _] => is_var c; destruct c
       end.
  all: try (eexists _, _, _; split; [reflexivity|]; split; [reflexivity|]; intuition (auto; congruence)).
Qed.

(* every history *)
Definition gexh (c : kls) (g : gst) : bool := match c with KMem => false | _ => gx g end.     (* is_exhausted: `return False` / `return self._exhausted` *)
Fixpoint grun_ops_f (fuel : nat) (c : kls) (K : list frame) (g : gst) (ops : list op) : list obs :=
  match ops with
  | [] => []
  | Next :: rest => let '((K', g'), o) := run fuel K g in
      ONext o (n_ (gb g')) (r_ (gb g')) (max_n_ (gb g')) (gexh c g') :: grun_ops_f fuel c K' g' rest
  | Fin kk :: rest => let '(g', e) := gfinalize kk g in
      OFin e (n_ (gb g')) (r_ (gb g')) (max_n_ (gb g')) (gexh c g') :: grun_ops_f fuel c K g' rest
  end.
Definition grun_ops := grun_ops_f FUEL.

Lemma finalize_keeps_max kk bb : max_n_ bb <> None -> max_n_ (fst (finalize kk bb)) <> None.
Proof.
  unfold finalize. destruct (kk <? 1); [auto|]. destruct (max_n_ bb) as [m|] eqn:E; [|congruence]. intros _.
  destruct (negb (n_ bb =? kk) || negb (m =? kk)); cbn [fst]; rewrite E; discriminate.
Qed.
Lemma exh_agrees s la lb : basic (k s) -> gexh (k s) (gof s la lb) = is_exhausted s.
Proof. unfold gexh, is_exhausted, gof. destruct (k s); cbn; intros H; try contradiction; reflexivity. Qed.

Theorem basic_history : forall ops s la lb K, basic (k s) -> Rk (k s) (pcv s) (gof s la lb) K -> grun_ops (k s) K (gof s la lb) ops = run_ops s ops.
Proof.
  induction ops as [|o ops IH]; intros s la lb K Hb HR; [reflexivity|]. destruct o as [|kk]; unfold grun_ops in *; cbn [grun_ops_f run_ops].
  - destruct (basic_step s la lb K Hb HR) as (K' & la' & lb' & Hrun & Hk & HR').
    rewrite Hrun. destruct (next s) as [s' o] eqn:En. cbn [fst snd] in *.
    rewrite <- Hk, exh_agrees by (rewrite Hk; exact Hb). cbn [gof gb]. f_equal. rewrite <- Hk in HR'. apply IH; [rewrite Hk; exact Hb|exact HR'].
  - destruct s as [c p bb sn ex]. cbn [k pcv] in *. unfold gfinalize, gof. cbn [gb gx gmv l0 l1 b exh k]. destruct (finalize kk bb) as [b' e] eqn:Ef.
    set (s' := {| k := c; pcv := p; b := b'; snaps := sn; exh := ex |}).
    change {| gb := b'; gx := ex; gmv := mv_of c; l0 := la; l1 := lb |} with (gof s' la lb).
    change c with (k s') at 1 2. rewrite exh_agrees by exact Hb. cbn [gof gb s' b]. f_equal. apply (IH s' la lb K Hb).
    assert (Hmax : max_n_ bb <> None -> max_n_ b' <> None).
    { intros H. pose proof (finalize_keeps_max kk bb H) as H'. rewrite Ef in H'. exact H'. }
    unfold s', gof, has_max in *. cbn [k pcv b exh gb gmv l0 l1] in *.
    destruct c as [| |mv|]; cbn [basic] in Hb; try contradiction; destruct p; cbn [Rk] in HR |- *; try exact HR; cbn [gb gmv l0 l1 mv_of] in *; intuition auto.
Qed.

(* from construction: the objects the classes build *)
Definition g_init (c : kls) : gst := {| gb := {| n_ := 0; r_ := 0; max_n_ := None |}; gx := false; gmv := mv_of c; l0 := None; l1 := None |}.
Theorem basic_from_start c ops s : basic c -> construct c = Ok s -> grun_ops c [FS (prog_of c)] (g_init c) ops = run_ops s ops.
Proof.
  intros Hb Hc. destruct c as [| |mv|]; cbn [basic] in Hb; try contradiction; cbn [construct] in Hc; injection Hc as <-.
  - exact (basic_history ops (mk KNone_ PStart 0 0 None [] false) None None _ I eq_refl).
  - exact (basic_history ops (mk KMem PStart 0 0 None [] false) None None _ I eq_refl).
  - exact (basic_history ops (mk (KDisk mv) PStart 0 0 None [] false) None None _ I eq_refl).
Qed.
Print Assumptions basic_step.
Print Assumptions basic_from_start.
