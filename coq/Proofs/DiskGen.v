(* DiskRevolve, generator: the extracted disk_revolve (Model/RevSeq.v) produces op lists of the grammar DiskBlk.DBlk (through
   inj), and on the tables computed by the extracted get_opt_0_table / get_opt_inf_table it never fails. *)
From Coq Require Import ZArith List Lia Bool.
Require Import Actions Ops RevSeq RevBridge1 RevBridge5 RevBridge6.
Require RevBlk RevGen DiskBlk.
Import ListNotations.
Open Scope Z_scope.

Lemma shift_adj' s q : RevGen.shift s (RevBlk.adj q) = RevBlk.adj (q + s).
Proof. apply RevGen.shift_adj. Qed.
Lemma DBlk_shift cm s o l ops : DiskBlk.DBlk cm o l ops -> DiskBlk.DBlk cm (o + s) l (RevGen.shift s ops).
Proof.
  induction 1 as [o|o l ops HB|o l j s1 s2 Hl Hj HD IH HB].
  - rewrite RevGen.shift_adj. apply DiskBlk.DZero.
  - apply DiskBlk.DMem. apply RevGen.Blk_shift. exact HB.
  - rewrite !RevGen.shift_app. cbn [RevGen.shift map RevGen.shift1 app].
    replace (o + j + s) with (o + s + j) by lia.
    change (RevBlk.OWD (o + s) :: RevBlk.OF (o + s) (o + s + j) :: RevGen.shift s s1 ++ RevBlk.ORD (o + s) :: RevGen.shift s s2)
      with ([RevBlk.OWD (o + s); RevBlk.OF (o + s) (o + s + j)] ++ RevGen.shift s s1 ++ [RevBlk.ORD (o + s)] ++ RevGen.shift s s2).
    apply DiskBlk.DSplit; auto.
    + replace (o + s + j) with (o + j + s) by lia. exact IH.
    + apply RevGen.Blk_shift. exact HB.
Qed.

Lemma disk_grammar : forall fuel t ti uf rd wd l cm ops, disk_revolve fuel t ti uf rd wd l cm = Ok ops -> 0 <= l -> 1 <= cm ->
  exists ops0, ops = map inj ops0 /\ DiskBlk.DBlk cm 0 l ops0.
Proof.
  induction fuel as [|f IH]; intros t ti uf rd wd l cm ops H Hl Hcm; [discriminate|]. cbn [disk_revolve] in H.
  destruct (Z.eqb_spec l 0) as [->|Hl0].
  { injection H as <-. exists (RevBlk.adj 0). split; [reflexivity|apply DiskBlk.DZero]. }
  destruct (Z.eqb_spec l 1) as [->|Hl1].
  { destruct (Z.eqb_spec cm 0); [lia|]. injection H as <-.
    exists (RevBlk.wmop true 0 ++ [RevBlk.OF 0 (0+1)] ++ RevBlk.adj (0+1) ++ RevBlk.tail0 0). split; [reflexivity|]. apply DiskBlk.DMem. apply (RevBlk.B1 true 0 cm). lia. }
  destruct (map_res _ (zrange 1 l)) as [lm|] eqn:Elm; cbn [bind] in H; [|discriminate].
  destruct lm as [|y lm'] eqn:Elmm; [discriminate|]. rewrite <- Elmm in *.
  destruct (tget t cm l) as [o|] eqn:Eo; cbn [bind] in H; [|discriminate].
  destruct (zmin_list lm 0 <? o).
  - assert (Hlen : length lm = Z.to_nat (l - 1)) by (rewrite (map_res_length _ _ _ Elm); unfold zrange; rewrite map_length, seq_length; reflexivity).
    assert (Hj : 1 <= argmin lm <= l - 1).
    { rewrite argmin_eq. pose proof (RevGen.argmin_bound lm) as Hb. specialize (Hb ltac:(rewrite Elmm; discriminate)). lia. }
    set (j := argmin lm) in *.
    destruct (disk_revolve f t ti uf rd wd (l - j) cm) as [s1|] eqn:E1; cbn [bind] in H; [|discriminate].
    destruct (revolve _ t uf (j - 1) cm) as [s2|] eqn:E2; cbn [bind] in H; [|discriminate]. injection H as <-.
    destruct (IH _ _ _ _ _ _ _ _ E1 ltac:(lia) Hcm) as (s10 & -> & D1).
    destruct (revolve_grammar _ _ _ _ _ _ E2 ltac:(lia) ltac:(lia)) as (s20 & -> & B2).
    apply (DBlk_shift cm j) in D1.
    pose proof (DiskBlk.DSplit cm 0 l j _ _ ltac:(lia) Hj D1 B2) as HD. replace (0 + j) with j in HD by lia.
    eexists. split; [|exact HD]. rewrite shift_inj. cbn [map app inj]. rewrite ?map_app. cbn [map app inj]. reflexivity.
  - destruct (revolve_grammar _ _ _ _ _ _ H Hl ltac:(lia)) as (ops0 & -> & HB). exists ops0. split; [reflexivity|apply DiskBlk.DMem; exact HB].
Qed.

(* ---- totality ---- *)
Lemma inf_ext_ok t lmax cmax cm uf rd wd : Dims t lmax cmax -> 1 <= cm <= cmax ->
  forall cnt lcur tab, Z.of_nat (length tab) = lcur -> 2 <= lcur -> lcur + Z.of_nat cnt <= lmax + 1 ->
  exists r, inf_ext cnt lcur t cm uf rd wd tab = Ok r /\ Z.of_nat (length r) = lcur + Z.of_nat cnt.
Proof.
  intros HD Hcm. induction cnt as [|cnt IH]; intros lcur tab Ht H2 Hb; cbn [inf_ext]; [exists tab; split; [reflexivity|lia]|].
  destruct (map_res_ok (fun j => do x <- lget tab (lcur - j); do y <- tget t cm (j - 1); Ok (wd + j * uf + x + rd + y)) (zrange 1 lcur)) as [cands ->].
  { intros j Hj. apply in_zrange in Hj. destruct (lget_ok tab (lcur - j) ltac:(lia)) as [x ->].
    destruct (tget_ok t lmax cmax cm (j - 1) HD Hcm ltac:(lia)) as [y ->]. eexists; reflexivity. }
  cbn [bind]. destruct (tget_ok t lmax cmax cm lcur HD Hcm ltac:(lia)) as [o ->]. cbn [bind].
  destruct (IH (lcur + 1) (tab ++ [Z.min o (zmin_list cands 0)])) as (r & Hr & Hlen); try lia.
  { rewrite app_length. cbn [length]. lia. }
  exists r. split; [exact Hr|lia].
Qed.
Lemma optinf_ok t lmax cmax cm uf ub rd wd : 0 <= lmax -> Dims t lmax cmax -> 1 <= cm <= cmax ->
  exists ti, get_opt_inf_table lmax cm uf ub rd wd t = Ok ti /\ lmax + 1 <= Z.of_nat (length ti).
Proof.
  intros Hl HD Hcm. unfold get_opt_inf_table.
  destruct (Z.le_gt_cases lmax 1) as [Hle|Hgt].
  - replace (Z.to_nat (lmax - 1)) with 0%nat by lia. cbn [inf_ext]. eexists; split; [reflexivity|]. cbn [length]. lia.
  - destruct (inf_ext_ok t lmax cmax cm uf rd wd HD Hcm (Z.to_nat (lmax - 1)) 2 [ub; if cm =? 0 then wd + uf + 2 * ub + rd else uf + 2 * ub] eq_refl ltac:(lia) ltac:(lia)) as (r & -> & Hlen).
    exists r. split; [reflexivity|lia].
Qed.

Lemma disk_total t ti lmax cmax cm uf rd wd : Dims t lmax cmax -> 1 <= cm <= cmax -> lmax + 1 <= Z.of_nat (length ti) ->
  forall fuel l, 0 <= l <= lmax -> (Z.to_nat l < fuel)%nat -> exists ops, disk_revolve fuel t ti uf rd wd l cm = Ok ops.
Proof.
  intros HD Hcm Hti. induction fuel as [|f IH]; intros l Hl Hf; [lia|]. cbn [disk_revolve].
  destruct (Z.eqb_spec l 0); [eexists; reflexivity|]. destruct (Z.eqb_spec l 1); [destruct (cm =? 0); eexists; reflexivity|].
  destruct (map_res_ok (fun j => do x <- lget ti (l - j); do y <- tget t cm (j - 1); Ok (wd + j * uf + x + rd + y)) (zrange 1 l)) as [lm Elm].
  { intros j Hj. apply in_zrange in Hj. destruct (lget_ok ti (l - j) ltac:(lia)) as [x ->].
    destruct (tget_ok t lmax cmax cm (j - 1) HD Hcm ltac:(lia)) as [y ->]. eexists; reflexivity. }
  rewrite Elm. cbn [bind].
  assert (Hlen : length lm = Z.to_nat (l - 1)) by (rewrite (map_res_length _ _ _ Elm); unfold zrange; rewrite map_length, seq_length; reflexivity).
  destruct lm as [|y lm'] eqn:Elmm; [cbn in Hlen; lia|]. rewrite <- Elmm in *.
  destruct (tget_ok t lmax cmax cm l HD Hcm ltac:(lia)) as [o ->]. cbn [bind].
  destruct (zmin_list lm 0 <? o).
  - assert (Hj : 1 <= argmin lm <= l - 1).
    { rewrite argmin_eq. pose proof (RevGen.argmin_bound lm) as Hb. specialize (Hb ltac:(rewrite Elmm; discriminate)). lia. }
    destruct (IH (l - argmin lm) ltac:(lia) ltac:(lia)) as [s1 ->]. cbn [bind].
    destruct (revolve_total t lmax cmax uf HD (Z.to_nat (2 * l + 4)) (argmin lm - 1) cm ltac:(lia) ltac:(lia) ltac:(lia) ltac:(lia)) as [s2 ->]. cbn [bind].
    eexists; reflexivity.
  - apply (revolve_total t lmax cmax uf HD); lia.
Qed.

Theorem disk_revolve_top_total l cm rd wd uf ub : 0 <= l -> 1 <= cm -> exists ops, disk_revolve_top l cm rd wd uf ub = Ok ops.
Proof.
  intros Hl Hcm. unfold disk_revolve_top. destruct (opt0_ok l cm uf ub Hl) as (t & -> & HD). cbn [bind].
  destruct (optinf_ok t l cm cm uf ub rd wd Hl HD ltac:(lia)) as (ti & -> & Hti). cbn [bind].
  apply (disk_total t ti l cm cm uf rd wd HD ltac:(lia) Hti); lia.
Qed.
