(* HRevolve, end to end on the extracted model: every max_n >= 1, every RAM count >= 1, any disk count and cost vector for
   which the constructor returns (its dynamic program is not proved total here): the monitored client (budgets RAM =
   snapshots_in_ram, DISK unbounded) meets no error before the final EndReverse, nothing raises, the schedule concludes, and
   the only error that can be recorded at the end is E_leftover (finding D8).  The DISK budget itself is refuted for
   HRevolve (Refuted.C03_hrevolve_refuted), hence the unbounded DISK store of the executor parameters here. *)
From Coq Require Import ZArith List Lia Bool.
Require Import Actions Ops HRevSeq RevConv Exec Sched ExecFacts RunFacts MSBridge RevBridge1 RevBridge2 RevBridge3 RevBridge4 DiskBridge2 DiskBridge3 DiskRun HRevBridge1 HRevGen.
Require RevBlk RevGen RevCost DiskBlk HRevBlk MSPot MSTerm.
Import ListNotations.
Open Scope Z_scope.

Lemma HB_wf c0 m o l ops : HRevBlk.HB c0 m o l ops -> Forall wf ops.
Proof.
  assert (Hadj : forall q, Forall wf (RevBlk.adj q)) by (intros q; unfold RevBlk.adj; repeat constructor; cbn; lia).
  induction 1 as [m o Hm|m o l ops HBk|o|m o l j s1 s2 Hm Hl Hj H1 IH1 H2 IH2|o l s0 H IH].
  - apply Hadj.
  - eapply Blk_wf; eauto.
  - repeat (apply Forall_app; split); auto; repeat constructor; cbn; lia.
  - repeat (apply Forall_app; split); auto; repeat constructor; cbn; lia.
  - constructor; [exact I|exact IH].
Qed.
Lemma HB_nonempty c0 m o l ops : HRevBlk.HB c0 m o l ops -> ops <> [].
Proof. induction 1 as [m o Hm|m o l ops HBk|o|m o l j s1 s2 Hm Hl Hj H1 IH1 H2 IH2|o l s0 H IH]; try discriminate. eapply Blk_nonempty; eauto. Qed.

(* every Write_Forward has its Discard_Forward three ops on *)
Lemma okq_single o : (match o with RevBlk.OWFM _ => False | _ => True end) -> okq [o].
Proof. intros H. apply okq_nowfm. constructor; [exact H|constructor]. Qed.
Lemma okq_tail0 q : okq (RevBlk.tail0 q).
Proof. change (RevBlk.tail0 q) with ([RevBlk.ORM q] ++ RevBlk.adj q ++ [RevBlk.ODM q]). repeat apply okq_app; try apply okq_adj; apply okq_single; exact I. Qed.
Lemma okq_loop1 : forall k q, okq (RevBlk.loop1 k q).
Proof.
  induction k as [|k IH]; intros q; cbn [RevBlk.loop1]; [intros [|i] a H; discriminate|].
  change [RevBlk.ORM q; RevBlk.OF q (q + Z.of_nat (S k))] with ([RevBlk.ORM q] ++ [RevBlk.OF q (q + Z.of_nat (S k))]).
  repeat apply okq_app; try apply okq_adj; try apply IH; apply okq_single; exact I.
Qed.
Lemma okq_wmop b q : okq (RevBlk.wmop b q).
Proof. destruct b; [apply okq_single; exact I|intros [|i] a H; discriminate]. Qed.
Lemma Blk_okq wm o l cm ops : RevBlk.Blk wm o l cm ops -> okq ops.
Proof.
  induction 1; repeat apply okq_app; try apply okq_adj; try apply okq_tail0; try apply okq_loop1; try apply okq_wmop; try assumption; apply okq_single; exact I.
Qed.
Lemma HB_okq c0 m o l ops : HRevBlk.HB c0 m o l ops -> okq ops.
Proof.
  induction 1 as [m o Hm|m o l ops HBk|o|m o l j s1 s2 Hm Hl Hj H1 IH1 H2 IH2|o l s0 H IH].
  - apply okq_adj.
  - eapply Blk_okq; eauto.
  - repeat apply okq_app; try apply okq_adj; apply okq_single; exact I.
  - repeat apply okq_app; try assumption; apply okq_single; exact I.
  - change (RevBlk.OWD o :: s0) with ([RevBlk.OWD o] ++ s0). apply okq_app; [apply okq_single; exact I|exact IH].
Qed.

Lemma hrev_J0 N ram disk L0 : 1 <= N -> 0 <= ram -> HRevBlk.HB ram HRevBlk.MTop 0 (N - 1) L0 ->
  exists prev acts r, prevop L0 0 = Some prev /\ RevBlk.conv N 0 (Some prev) RevGen.init_c L0 = (acts, inl r) /\
    DiskBridge3.J N ram (map injH L0) KHRevolve ram disk (RevBridge3.sumflen acts) (DiskBridge3.sumdw acts) (DiskBridge3.sumdr acts)
      {| ob := ORevF KHRevolve N ram disk (init_r (map injH L0)); started := false |} mon0.
Proof.
  intros HN Hram HB. set (L := map injH L0).
  pose proof (HB_nonempty _ _ _ _ _ HB) as Hne.
  assert (Hprev : exists prev, prevop L0 0 = Some prev).
  { unfold prevop. destruct (rev L0) as [|z r] eqn:E; [|eauto]. apply (f_equal (@rev _)) in E. rewrite rev_involutive in E. contradiction. }
  destruct Hprev as [prev Hprev].
  set (X0 := {| DiskBlk.mx := RevGen.init_x; DiskBlk.dk := [] |}).
  destruct (HRevBlk.hblk_ok N ram ram HRevBlk.MTop 0 (N - 1) L0 HB [] 0%nat (Some prev) RevGen.init_c X0) as (acts & c' & X' & lastop & HR & HX & HEx).
  { unfold HRevBlk.HEntry, X0, DiskBlk.dkeys, HRevBlk.Sset, RevGen.init_c, RevGen.init_x, RevBlk.keys, RevBlk.store_ok, DiskBlk.dk_ok.
    cbn [DiskBlk.mx DiskBlk.dk map RevBlk.n_ RevBlk.r_ RevBlk.snaps RevBlk.fwd RevBlk.wdeps RevBlk.wics RevBlk.endfwd RevBlk.store RevBlk.rr length].
    replace (0 + (N - 1) + 1) with N by lia. rewrite Z.eqb_refl. cbn [negb].
    repeat match goal with |- _ /\ _ => split end; try lia; try reflexivity; try (intros p a b; discriminate); try (intros p []; fail); try tauto; try constructor. }
  destruct HEx as (Hn & Hr & Hrr & Hf & Hwd & Hwi & Hef & Hst & Hss & _). cbn [DiskBlk.mx DiskBlk.dk X0 RevGen.init_x RevBlk.store] in Hst.
  specialize (HR []). rewrite app_nil_r in HR. cbn [RevBlk.conv fst snd] in HR. rewrite app_nil_r in HR. cbn [Nat.add] in HR.
  pose proof (conv_linkH N L0 [] prev RevGen.init_c acts c' (Some lastop) (length L0) (HB_wf _ _ _ _ _ HB) (HB_okq _ _ _ _ _ HB) (fun _ => Hprev) HR) as Hlink.
  cbn [app length] in Hlink.
  assert (Hsn : RevBlk.snaps c' = []).
  { destruct (RevBlk.snaps c') as [|z l] eqn:E; [reflexivity|]. exfalso.
    destruct (proj1 (Hss z) ltac:(rewrite E; left; reflexivity)) as [Hin|[]]. unfold RevBlk.keys in Hin. rewrite Hst in Hin. exact Hin. }
  exists prev, acts, (c', Some lastop, length L0). split; [exact Hprev|]. split; [exact HR|].
  apply (DiskBridge3.Jrun N ram L KHRevolve ram disk (RevBridge3.sumflen acts) (DiskBridge3.sumdw acts) (DiskBridge3.sumdr acts) 0%nat init_c [] X0 0 0 0 false mon0).
  - lia.
  - reflexivity.
  - unfold RxD, X0. cbn [DiskBlk.mx DiskBlk.dk map]. split; [|reflexivity]. unfold Rx, toMS, RevGen.init_x, mon0, x0. cbn. repeat split; reflexivity.
  - split; reflexivity.
  - unfold NN, X0, RevGen.init_x. cbn. repeat split; try lia; try discriminate. intros f Hf0; injection Hf0 as <-; lia.
  - intros k0 v Hk. cbn in Hk. discriminate.
  - intros a b Hd. cbn in Hd. discriminate.
  - cbn [DiskBridge3.AgP]. split; reflexivity.
  - constructor.
  - exists acts, (cmap c'), X'. unfold L. rewrite map_length, Nat.sub_0_r. cbn [app]. repeat split; auto; try lia.
Qed.

(* the op list under the whole documented domain: for max_n = 1 the recursion returns the single step at once, whatever the unit counts *)
Lemma hrev_seq N ram disk uf ub wd rd L : 1 <= N -> 0 <= ram -> (2 <= N -> 1 <= ram) -> sequence KHRevolve N ram disk uf ub wd rd = Ok L ->
  exists L0, L = map injH L0 /\ HRevBlk.HB ram HRevBlk.MTop 0 (N - 1) L0.
Proof.
  intros HN Hram Hram1 HL. change (sequence KHRevolve N ram disk uf ub wd rd) with (hrevolve (N - 1) ram disk wd rd uf ub) in HL.
  destruct (Z.eq_dec N 1) as [->|HN1].
  - change (1 - 1) with 0 in *. unfold hrevolve in HL. destruct (get_hopt_table 0 ram disk 0 wd 0 rd ub uf) as [T|]; cbn [bind] in HL; [|discriminate].
    change (Z.to_nat (4 * 0 + 8)) with 8%nat in HL. cbn [recurse Z.eqb] in HL. injection HL as <-.
    exists (RevBlk.adj 0). split; [reflexivity|apply HRevBlk.HZ; discriminate].
  - exact (hrevolve_grammar (N - 1) ram disk wd rd uf ub _ ltac:(lia) ltac:(lia) HL).
Qed.

Theorem hrevolve_run N ram disk uf ub wd rd L k : 1 <= N -> 0 <= ram -> (2 <= N -> 1 <= ram) -> sequence KHRevolve N ram disk uf ub wd rd = Ok L ->
  exists o0 m ls, run_case (PRev KHRevolve N ram disk uf ub wd rd) (disk_xparams N ram) (repeat Next k) = Ok (o0, m, ls) /\
    no_raise ls /\ DiskBridge3.leftover_or_ok m.
Proof.
  intros HN Hram Hram1 HL.
  destruct (hrev_seq N ram disk uf ub wd rd L HN Hram Hram1 HL) as (L0 & -> & HB).
  unfold run_case, Sched.construct, RevConv.construct. rewrite HL. cbn [bind].
  destruct (Z.ltb_spec N 1); [lia|]. destruct (Z.ltb_spec ram (Z.min 1 (N - 1))); [lia|]. cbn [bind].
  destruct (hrev_J0 N ram disk L0 HN Hram HB) as (prev & acts & r & _ & _ & HJ0).
  pose proof (DiskBridge3.run_nexts2 N ram ltac:(lia) (map injH L0) KHRevolve ram disk _ _ _ k _ _ HJ0) as Hrun.
  change (DiskBridge2.pD N ram) with (disk_xparams N ram) in Hrun.
  destruct (run_ops (disk_xparams N ram) _ mon0 (repeat Next k)) as [[s' m'] ls]. destruct Hrun as [HJ Hnr].
  eexists _, _, _. split; [reflexivity|]. split; [exact Hnr|]. exact (DiskBridge3.J_verdict _ _ _ _ _ _ _ _ _ _ _ HJ).
Qed.
Print Assumptions hrevolve_run.

Theorem hrevolve_terminates N ram disk uf ub wd rd L : 1 <= N -> 0 <= ram -> (2 <= N -> 1 <= ram) -> sequence KHRevolve N ram disk uf ub wd rd = Ok L ->
  exists K, forall k, (K <= k)%nat ->
  let '(s', m, ls) := run_ops (disk_xparams N ram) {| ob := ORevF KHRevolve N ram disk (init_r L); started := false |} mon0 (repeat Next k) in
  no_raise ls /\ DiskBridge3.leftover_or_ok m /\ is_exhausted s' = true.
Proof.
  intros HN Hram Hram1 HL.
  destruct (hrev_seq N ram disk uf ub wd rd L HN Hram Hram1 HL) as (L0 & -> & HB).
  exists (2 * length L0 + 2)%nat. intros k Hk.
  destruct (hrev_J0 N ram disk L0 HN Hram HB) as (prev & acts & r & _ & _ & HJ0).
  pose proof (DiskBridge3.run_nexts2 N ram ltac:(lia) (map injH L0) KHRevolve ram disk _ _ _ k _ _ HJ0) as Hrun.
  pose proof (DiskBridge3.run_nexts2_fin N ram ltac:(lia) (map injH L0) KHRevolve ram disk _ _ _ k _ _ HJ0) as Hfin.
  change (DiskBridge2.pD N ram) with (disk_xparams N ram) in Hrun, Hfin.
  destruct (run_ops (disk_xparams N ram) _ mon0 (repeat Next k)) as [[s' m'] ls]. destruct Hrun as [HJ Hnr]. cbn [fst] in Hfin.
  split; [exact Hnr|]. split; [exact (DiskBridge3.J_verdict _ _ _ _ _ _ _ _ _ _ _ HJ)|]. apply Hfin. right.
  unfold RevBridge3.muS. cbn [ob init_r finished idx pend length]. rewrite map_length. lia.
Qed.
Print Assumptions hrevolve_terminates.
