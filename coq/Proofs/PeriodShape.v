(* C19, the whole sequence: for every l >= 0 the extracted periodic_disk_revolve(l, cm, rd, wd, uf, ub) is
       sweep ++ revolve(last segment) ++ (read + revolve(one period)) per disk checkpoint, last to first
   with the period mx = mxrr cm uf rd wd, which does not depend on l.  Disk writes happen only in the sweep, at
   0, mx, ..., (k-1) mx (exactly while more than mx steps remain); every disk checkpoint is read exactly once, in the reverse
   order; the pieces in between are the outputs of the memory-only `revolve` (the generator of the Revolve class, for which
   C07 is proved) and contain no disk operation. *)
From Coq Require Import ZArith List Lia Bool.
Require Import Actions Ops RevSeq RevBridge1 RevBridge5 RevBridge6 DiskGen PeriodGen.
Require RevBlk RevGen DiskBlk PeriodProofs.
Import ListNotations.
Open Scope Z_scope.

Definition mem_only (o : op) : Prop := match o with ORD _ | OWD _ => False | _ => True end.
Fixpoint rd_positions (ops : list op) : list Z :=
  match ops with [] => [] | ORD i :: r => i :: rd_positions r | _ :: r => rd_positions r end.
Notation wd_positions := PeriodProofs.wd_positions.

Lemma wd_app a b : wd_positions (a ++ b) = wd_positions a ++ wd_positions b.
Proof. induction a as [|x a IH]; [reflexivity|]. destruct x; cbn [app PeriodProofs.wd_positions]; rewrite ?IH; reflexivity. Qed.
Lemma rd_app a b : rd_positions (a ++ b) = rd_positions a ++ rd_positions b.
Proof. induction a as [|x a IH]; [reflexivity|]. destruct x; cbn [app rd_positions]; rewrite ?IH; reflexivity. Qed.
Lemma mem_only_wd l : Forall mem_only l -> wd_positions l = [].
Proof. induction 1 as [|x l Hx _ IH]; [reflexivity|]. destruct x; cbn [PeriodProofs.wd_positions]; try exact IH; contradiction. Qed.
Lemma mem_only_rd l : Forall mem_only l -> rd_positions l = [].
Proof. induction 1 as [|x l Hx _ IH]; [reflexivity|]. destruct x; cbn [rd_positions]; try exact IH; contradiction. Qed.

(* memory-only blocks contain no disk operation *)
Lemma adj_mem q : Forall mem_only (map inj (RevBlk.adj q)).
Proof. unfold RevBlk.adj. repeat constructor. Qed.
Lemma loop1_mem : forall k o, Forall mem_only (map inj (RevBlk.loop1 k o)).
Proof.
  induction k as [|k IH]; intros o; cbn [RevBlk.loop1 map]; [constructor|].
  rewrite !map_app. repeat (apply Forall_app; split); try apply adj_mem; try apply IH. repeat constructor.
Qed.
Lemma Blk_mem wm o l cm s : RevBlk.Blk wm o l cm s -> Forall mem_only (map inj s).
Proof.
  induction 1 as [wm o cm|wm o cm|wm o cm H|wm o l cm H H'|wm o l cm j s1 s2 H1 H2 H3 B1 IH1 B2 IH2]; rewrite ?map_app;
    repeat (apply Forall_app; split); try apply adj_mem; try apply loop1_mem; try assumption;
    try (destruct wm; unfold RevBlk.wmop, RevBlk.tail0; repeat constructor); repeat constructor.
Qed.
Lemma shift_mem ct s : Forall mem_only s -> Forall mem_only (shift ct s).
Proof. unfold shift. intros H. apply Forall_map. eapply Forall_impl; [|exact H]. intros []; cbn; auto. Qed.

Section SHAPE.
Variable mx : Z.
Variable rv : list RevBlk.op.
Hypothesis Hrv : Forall mem_only (map inj rv).

Lemma fwk_wd : forall k ct0, wd_positions (map inj (fwk mx k ct0)) = map (fun j => ct0 + Z.of_nat j * mx) (seq 0 k).
Proof.
  induction k as [|k IH]; intros ct0; [reflexivity|]. cbn [fwk map app inj PeriodProofs.wd_positions]. rewrite IH. cbn [seq map]. f_equal; [lia|].
  rewrite <- seq_shift, map_map. apply map_ext. intros j. rewrite Nat2Z.inj_succ. lia.
Qed.
Lemma fwk_rd : forall k ct0, rd_positions (map inj (fwk mx k ct0)) = [].
Proof. induction k as [|k IH]; intros ct0; [reflexivity|]. cbn [fwk map app inj rd_positions]. apply IH. Qed.
Lemma bkdown_wd : forall k, wd_positions (map inj (bkdown mx rv k 0)) = [].
Proof.
  induction k as [|k IH]; [reflexivity|]. cbn [bkdown]. rewrite !map_app, !wd_app, IH. cbn [map inj PeriodProofs.wd_positions app].
  rewrite <- shift_inj. rewrite (mem_only_wd _ (shift_mem _ _ Hrv)). reflexivity.
Qed.
Lemma bkdown_rd : forall k, rd_positions (map inj (bkdown mx rv k 0)) = map (fun j => Z.of_nat j * mx) (rev (seq 0 k)).
Proof.
  induction k as [|k IH]; [reflexivity|]. cbn [bkdown]. rewrite !map_app, !rd_app, IH. cbn [map inj rd_positions app].
  rewrite <- shift_inj. rewrite (mem_only_rd _ (shift_mem _ _ Hrv)). cbn [app].
  rewrite seq_S, rev_app_distr. cbn [rev app map Nat.add]. try (f_equal; lia).
Qed.
End SHAPE.

Theorem periodic_shape l cm rd wd uf ub : 0 <= l -> 1 <= cm ->
  let mx := mxrr cm uf rd wd in
  exists (k : nat) t (s0 rv : list op),
    (* the sequence *)
    periodic_top l cm rd wd uf ub = Ok (fst (per_fwd (Z.to_nat l) l mx 0) ++ shift (Z.of_nat k * mx) s0 ++
                                        flat_map (fun j => [ORD (Z.of_nat j * mx)] ++ shift (Z.of_nat j * mx) rv) (rev (seq 0 k)), mx) /\
    (* k = number of disk checkpoints: written while more than mx steps remain *)
    (forall j, (j < k)%nat <-> l - Z.of_nat j * mx > mx) /\ 0 <= l - Z.of_nat k * mx <= Z.max mx 0 /\
    (* the segments are reversed by the memory-only generator, on the opt_0 table *)
    get_opt_0_table (mx + 1) cm uf ub = Ok t /\
    revolve (Z.to_nat (2 * l + 4)) t uf (l - Z.of_nat k * mx) cm = Ok s0 /\
    ((0 < k)%nat -> revolve (Z.to_nat (2 * mx + 4)) t uf (mx - 1) cm = Ok rv) /\
    Forall mem_only s0 /\ Forall mem_only rv /\
    (* consequently: disk writes only in the sweep, at 0, mx, ..., (k-1) mx; each disk checkpoint read once, last first *)
    forall ops, periodic_top l cm rd wd uf ub = Ok (ops, mx) ->
      wd_positions ops = map (fun j => Z.of_nat j * mx) (seq 0 k) /\
      rd_positions ops = map (fun j => Z.of_nat j * mx) (rev (seq 0 k)) /\
      wd_positions (skipn (2 * k) ops) = [].
Proof.
  intros Hl Hcm mx. pose proof (mxrr_pos cm uf rd wd) as Hmx. fold mx in Hmx.
  destruct (periodic_top_total l cm rd wd uf ub Hl Hcm) as [ops0 Htop]. fold mx in Htop.
  pose proof Htop as H. unfold periodic_top in H. fold mx in H. replace (Z.max mx mx) with mx in H by lia.
  destruct (get_opt_0_table (mx + 1) cm uf ub) as [t|] eqn:Et; cbn [bind] in H; [|discriminate].
  destruct (per_fwd (Z.to_nat l) l mx 0) as [fw ct] eqn:Ef.
  destruct (revolve _ t uf (l - ct) cm) as [s|] eqn:Es; cbn [bind] in H; [|discriminate].
  destruct (per_back (Z.to_nat l) t uf mx cm ct) as [bk|] eqn:Eb; cbn [bind] in H; [|discriminate].
  injection H as Hops.
  destruct (PeriodGen.per_fwd_spec mx l Hmx _ _ _ _ Ef ltac:(lia)) as (k & Hct & Hfw & Hlev & Hend). cbn [Z.add] in Hct.
  assert (Hct0 : 0 <= l - ct) by (destruct k; [lia|specialize (Hlev k ltac:(lia)); nia]).
  assert (Hk : (k <= Z.to_nat l)%nat) by (destruct k; [lia|specialize (Hlev k ltac:(lia)); nia]).
  destruct (revolve_grammar _ _ _ _ _ _ Es Hct0 ltac:(lia)) as (s0 & -> & Bs).
  (* the per-period block *)
  assert (Hrvx : exists rv, ((0 < k)%nat -> revolve (Z.to_nat (2 * mx + 4)) t uf (mx - 1) cm = Ok (map inj rv)) /\ Forall mem_only (map inj rv) /\
                            bk = map inj (bkdown mx rv k 0)).
  { destruct k as [|k].
    - exists []. split; [lia|]. split; [constructor|]. subst ct. cbn [Z.of_nat Z.mul] in Eb.
      destruct (Z.to_nat l); cbn [per_back] in Eb; [injection Eb as <-; reflexivity|destruct (Z.gtb_spec 0 0); [lia|injection Eb as <-; reflexivity]].
    - destruct (Z.to_nat l) as [|cnt] eqn:El; [lia|]. pose proof Eb as Eb'. cbn [per_back] in Eb'.
      destruct (Z.gtb_spec ct 0); [|nia]. destruct (revolve (Z.to_nat (2 * mx + 4)) t uf (mx - 1) cm) as [rvm|] eqn:Er; [|discriminate].
      destruct (revolve_grammar _ _ _ _ _ _ Er ltac:(lia) ltac:(lia)) as (rv & -> & Brv). exists rv. split; [reflexivity|].
      split; [eapply Blk_mem; exact Brv|]. rewrite Hct, (per_back_spec t uf mx cm rv Hmx Er (S k) _ Hk) in Eb. congruence. }
  destruct Hrvx as (rv & Hrv & Mrv & Hbk).
  assert (Ms0 : Forall mem_only (map inj s0)) by (eapply Blk_mem; exact Bs).
  assert (Hflat : forall kk, map inj (bkdown mx rv kk 0) = flat_map (fun j => [ORD (Z.of_nat j * mx)] ++ shift (Z.of_nat j * mx) (map inj rv)) (rev (seq 0 kk))).
  { set (f := fun j : nat => [ORD (Z.of_nat j * mx)] ++ shift (Z.of_nat j * mx) (map inj rv)).
    induction kk as [|kk IH]; [reflexivity|]. rewrite seq_S, rev_app_distr.
    change (rev [(0 + kk)%nat] ++ rev (seq 0 kk)) with (kk :: rev (seq 0 kk)).
    change (flat_map f (kk :: rev (seq 0 kk))) with (f kk ++ flat_map f (rev (seq 0 kk))). rewrite <- IH. unfold f. cbn [bkdown].
    rewrite !map_app, shift_inj. cbn [map inj app]. replace (0 + Z.of_nat kk * mx) with (Z.of_nat kk * mx) by lia. reflexivity. }
  exists k, t, (map inj s0), (map inj rv).
  assert (Hseq : ops0 = fw ++ shift (Z.of_nat k * mx) (map inj s0) ++ map inj (bkdown mx rv k 0)) by (rewrite <- Hops, Hbk, Hct; reflexivity).
  split; [rewrite Htop, Hseq, Hflat; cbn [fst]; reflexivity|].
  split.
  { intros j. split; intros Hj.
    - specialize (Hlev j Hj). lia.
    - destruct (Nat.lt_ge_cases j k) as [|Hge]; [assumption|]. exfalso. assert (Z.of_nat k * mx <= Z.of_nat j * mx) by nia. lia. }
  split; [lia|]. split; [reflexivity|]. split; [rewrite <- Hct; exact Es|]. split; [exact Hrv|]. split; [exact Ms0|]. split; [exact Mrv|].
  intros ops Hops'. rewrite Htop in Hops'. injection Hops' as <-. rewrite Hseq, Hfw.
  rewrite !wd_app, !rd_app, fwk_wd, fwk_rd, (bkdown_wd mx rv Mrv), (bkdown_rd mx rv Mrv).
  rewrite (mem_only_wd _ (shift_mem _ _ Ms0)), (mem_only_rd _ (shift_mem _ _ Ms0)). rewrite !app_nil_r. cbn [app].
  split; [apply map_ext; intros; lia|]. split; [reflexivity|].
  assert (Hlen : length (map inj (fwk mx k 0)) = (2 * k)%nat).
  { rewrite map_length. clear. generalize 0 as c. induction k as [|k IH]; intros c; [reflexivity|]. cbn [fwk app length]. rewrite IH. lia. }
  rewrite <- Hlen, skipn_app, skipn_all, Nat.sub_diag. cbn [app skipn]. rewrite wd_app, (bkdown_wd mx rv Mrv), (mem_only_wd _ (shift_mem _ _ Ms0)). reflexivity.
Qed.
Print Assumptions periodic_shape.
