(* mxrr_close_formula (periodic_disk_revolve.py) and beta (basic_functions.py), in the shape harness/translate.py reads them out of
   the source:  t = 0; while beta(cm + 1, t) <= (wd + rd) / uf: t += 1; return int(beta(cm, t)).
   The reading of the floating-point test is the translator's and is part of the trusted base (DESIGN 10): for a positive uf,
   `a <= b / uf` on exact numbers is `a * uf <= b` (le_div); beta(x, y) = 0 for y < 0, else the binomial coefficient C(x+y, x)
   (factorial(x+y) / (factorial(x) factorial(y)), an exact quotient) -- BinomDef.beta; int(.) of that integer is the identity.
   mxrr_shape_is_model: that shape IS RevSeq.mxrr, the period every theorem about PeriodicDiskRevolve is stated with (C19_period_closed_form).
   Gen/MxrrGen.v re-translates the source on every run and proves the translation equal to mxrr_shape by conversion. *)
From Coq Require Import ZArith List Lia Bool.
Require Import Actions BinomDef RevSeq.
Open Scope Z_scope.

Definition betaZ (x y : Z) : Z := if y <? 0 then 0 else beta (Z.to_nat x) (Z.to_nat y).
Definition le_div (a b c : Z) : bool := a * c <=? b.
Fixpoint while_t (fuel : nat) (cond : Z -> bool) (step : Z -> Z) (t : Z) : Z :=
  match fuel with O => t | S f => if cond t then while_t f cond step (step t) else t end.
Definition mxrr_shape (cm uf rd wd : Z) : Z :=
  let t := 0 in
  let t := while_t (Z.to_nat ((wd + rd) / uf + 2)) (fun t => le_div (betaZ (cm + 1) t) (wd + rd) uf) (fun t => t + 1) t in
  betaZ cm t.

Lemma while_mxrr_t cm uf wrd : 0 <= cm -> forall fuel t,
  while_t fuel (fun t => le_div (betaZ (cm + 1) t) wrd uf) (fun t => t + 1) (Z.of_nat t) = Z.of_nat (mxrr_t fuel (Z.to_nat cm) t uf wrd).
Proof.
  intros Hcm. set (cond := fun t => le_div (betaZ (cm + 1) t) wrd uf).
  assert (Hc : forall t : nat, cond (Z.of_nat t) = (beta (S (Z.to_nat cm)) t * uf <=? wrd)).
  { intros t. unfold cond, le_div, betaZ. replace (Z.of_nat t <? 0) with false by (symmetry; apply Z.ltb_ge; lia).
    replace (Z.to_nat (cm + 1)) with (S (Z.to_nat cm)) by lia. rewrite Nat2Z.id. reflexivity. }
  induction fuel as [|f IH]; intros t; [reflexivity|]. cbn [while_t mxrr_t]. rewrite Hc.
  destruct (_ <=? _); [|reflexivity]. replace (Z.of_nat t + 1) with (Z.of_nat (S t)) by lia. apply IH.
Qed.
Theorem mxrr_shape_is_model cm uf rd wd : 0 <= cm -> mxrr_shape cm uf rd wd = mxrr cm uf rd wd.
Proof.
  intros Hcm. unfold mxrr_shape, mxrr. cbn zeta. change 0 with (Z.of_nat 0) at 1. rewrite (while_mxrr_t cm uf (wd + rd) Hcm).
  unfold betaZ. replace (Z.of_nat _ <? 0) with false by (symmetry; apply Z.ltb_ge; lia). rewrite Nat2Z.id. reflexivity.
Qed.
Print Assumptions mxrr_shape_is_model.
