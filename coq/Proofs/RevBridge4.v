(* Revolve (memory only), end to end on the extracted model: RevolveCheckpointSchedule's Revolve class run by the monitored
   client against the reference executor with RAM budget = snapshots_in_ram and DISK budget 0. *)
From Coq Require Import ZArith List Lia Bool.
Require Import Actions Ops RevSeq RevConv Exec Sched ExecFacts RunFacts MSBridge RevBridge1 RevBridge2 RevBridge3.
Require RevBlk RevGen RevCost MSPot MSTerm.
Import ListNotations.
Open Scope Z_scope.

Lemma Blk_wf wm o l cm ops : RevBlk.Blk wm o l cm ops -> Forall wf ops.
Proof.
  assert (Hadj : forall q, Forall wf (RevBlk.adj q)) by (intros q; unfold RevBlk.adj; repeat constructor; cbn; lia).
  assert (Htail : forall q, Forall wf (RevBlk.tail0 q)) by (intros q; unfold RevBlk.tail0; repeat constructor; cbn; lia).
  assert (Hwm : forall b q, Forall wf (RevBlk.wmop b q)) by (intros [|] q; unfold RevBlk.wmop; repeat constructor).
  assert (Hloop : forall k q, Forall wf (RevBlk.loop1 k q)).
  { induction k as [|k IH]; intros q; cbn [RevBlk.loop1]; [constructor|]. repeat (apply Forall_app; split); auto. repeat constructor; cbn; lia. }
  induction 1; repeat (apply Forall_app; split); auto; try (repeat constructor; cbn; lia).
Qed.

Lemma Blk_nonempty wm o l cm ops : RevBlk.Blk wm o l cm ops -> ops <> [].
Proof. induction 1; destruct wm; cbn; discriminate. Qed.

(* the structural stream theorem, from the grammar *)
Lemma blk_stream_ok N cm ops prev : 1 <= N -> 0 <= cm -> (2 <= N -> 1 <= cm) -> RevBlk.Blk true 0 (N - 1) cm ops ->
  exists acts c' x' lastop,
    RevBlk.conv N 0 prev RevGen.init_c ops = (acts, inl (c', Some lastop, length ops)) /\
    RevBlk.execs N cm RevGen.init_x acts = Some x' /\
    RevBlk.snaps c' = [] /\ RevBlk.store x' = [] /\ RevBlk.rr x' = N /\ RevBlk.endfwd x' = true.
Proof.
  intros HN Hcm Hcm1 HB.
  destruct (RevBlk.blk_ok N cm [] true 0 (N - 1) cm ops HB 0%nat prev RevGen.init_c RevGen.init_x) as (acts & c' & x' & lastop & HR & HX & HEx).
  - unfold RevBlk.Entry, RevGen.init_c, RevGen.init_x, RevBlk.keys, RevBlk.store_ok, RevBlk.sameset.
    cbn [RevBlk.n_ RevBlk.r_ RevBlk.snaps RevBlk.fwd RevBlk.wdeps RevBlk.endfwd RevBlk.store RevBlk.rr map length orb].
    replace (0 + (N - 1) + 1) with N by lia. rewrite Z.eqb_refl. cbn [negb].
    repeat match goal with |- _ /\ _ => split end; try lia; try reflexivity; try tauto.
    + constructor.
    + intros p a b; discriminate.
    + intros p [].
    + intros p [].
  - discriminate.
  - destruct HEx as (Hn & Hr & Hrr & Hf & Hwd & Hwi & Hef & Hst & Hss).
    exists acts, c', x', lastop. specialize (HR []). rewrite app_nil_r in HR. cbn [RevBlk.conv fst snd] in HR.
    rewrite app_nil_r in HR. cbn [Nat.add] in HR.
    cbn [RevBlk.store RevGen.init_x RevBlk.remove] in Hst.
    repeat match goal with |- _ /\ _ => split end; auto; try lia.
    destruct (RevBlk.snaps c') as [|z l] eqn:E; [reflexivity|]. exfalso.
    destruct (proj1 (Hss z) (or_introl eq_refl)) as [Hin|[]].
    unfold RevBlk.keys in Hin. rewrite Hst in Hin. exact Hin.
Qed.

Lemma conv_work N : forall ops i prev c acts r, RevBlk.conv N i prev c ops = (acts, inl r) -> sumflen acts = RevCost.work ops.
Proof.
  induction ops as [|o ops IH]; intros i prev c acts r H; cbn [RevBlk.conv] in H; [injection H as <- _; reflexivity|].
  destruct (RevBlk.conv1 N i prev o ops c) as [[c1 a1]|e] eqn:E1; [|discriminate].
  destruct (RevBlk.conv N (S i) (Some o) c1 ops) as [a2 r2] eqn:E2. injection H as <- ->.
  assert (Happ : forall l1 l2, sumflen (l1 ++ l2) = sumflen l1 + sumflen l2) by (unfold sumflen; induction l1; intros; cbn [app fold_right]; [lia|rewrite IHl1; lia]).
  rewrite Happ, (IH _ _ _ _ _ E2). cbn [RevCost.work].
  assert (H1 : sumflen a1 = match o with RevBlk.OF a b => b - a | _ => 0 end).
  { destruct o; cbn [RevBlk.conv1] in E1;
      repeat match type of E1 with context [match ?x with _ => _ end] => destruct x eqn:? | context [if ?x then _ else _] => destruct x eqn:? end;
      try discriminate; injection E1 as <- <-; cbn; lia. }
  rewrite H1. destruct o; lia.
Qed.

Definition rev_xparams (N ram : Z) : xparams := {| xN := N; keep_all_deps := false; budget_ram := Some ram; budget_disk := Some 0 |}.

Lemma revolve_J0 N ram disk L0 : 1 <= N -> 0 <= ram -> (2 <= N -> 1 <= ram) -> RevBlk.Blk true 0 (N - 1) ram L0 ->
  J N ram (map inj L0) KRevolve ram disk (RevCost.work L0) {| ob := ORevF KRevolve N ram disk (init_r (map inj L0)); started := false |} mon0.
Proof.
  intros HN Hram Hram1 HB. set (L := map inj L0).
  pose proof (Blk_nonempty _ _ _ _ _ HB) as Hne.
  assert (Hprev : exists prev, prevop L0 0 = Some prev).
  { unfold prevop. destruct (rev L0) as [|z r] eqn:E; [|eauto]. apply (f_equal (@rev _)) in E. rewrite rev_involutive in E. contradiction. }
  destruct Hprev as [prev Hprev].
  destruct (blk_stream_ok N ram L0 (Some prev) HN Hram Hram1 HB) as (acts & c' & x' & lastop & Hconv & Hexs & Hsn & Hst & Hrr & Hef).
  pose proof (conv_link N L0 [] prev RevGen.init_c acts c' (Some lastop) (length L0) (Blk_wf _ _ _ _ _ HB) (fun _ => Hprev) Hconv) as Hlink.
  cbn [app length] in Hlink.
  apply (Jrun N ram L KRevolve ram disk (RevCost.work L0) 0%nat init_c [] RevGen.init_x 0 false mon0).
  - lia.
  - reflexivity.
  - unfold Rx, toMS, RevGen.init_x, mon0, x0. cbn. repeat split; reflexivity.
  - unfold NN, RevGen.init_x. cbn. repeat split; try lia; try discriminate. intros f Hf; injection Hf as <-; lia.
  - intros a b Hd; discriminate.
  - cbn [AgP]. split; reflexivity.
  - constructor.
  - exists acts, (cmap c'), x'. unfold L. rewrite map_length, Nat.sub_0_r. cbn [app]. rewrite (conv_work N _ _ _ _ _ _ Hconv). repeat split; auto.
Qed.

Theorem revolve_cfg_run N ram disk L0 k : 1 <= N -> 0 <= ram -> (2 <= N -> 1 <= ram) -> RevBlk.Blk true 0 (N - 1) ram L0 ->
  let '(s', m, ls) := run_ops (rev_xparams N ram) {| ob := ORevF KRevolve N ram disk (init_r (map inj L0)); started := false |} mon0 (repeat Next k) in
  mon_ok m /\ no_raise ls /\ (is_exhausted s' = true -> fwd_total (cnt (mx m)) = RevCost.work L0).
Proof.
  intros HN Hram Hram1 HB.
  pose proof (revolve_J0 N ram disk L0 HN Hram Hram1 HB) as HJ0. set (L := map inj L0) in *.
  pose proof (run_nexts (RevBridge2.pR N ram) (J N ram L KRevolve ram disk (RevCost.work L0)) (J_step N ram Hram L KRevolve ram disk (RevCost.work L0)) k _ _ HJ0 eq_refl) as Hrun.
  change (RevBridge2.pR N ram) with (rev_xparams N ram) in Hrun.
  destruct (run_ops (rev_xparams N ram) _ mon0 (repeat Next k)) as [[s' m'] ls]. destruct Hrun as (HJ & H1 & H2).
  split; [assumption|]. split; [assumption|].
  intros He. inversion HJ as [i c p x d stt m0 Hi Hm HRx HNN HWD HAg Hcl HFut|i c stt m0 Hm Htot]; subst.
  - cbn in He. discriminate.
  - exact Htot.
Qed.

(* the stream is finite: two requests per op at most *)
Theorem revolve_cfg_terminates N ram disk L0 k : 1 <= N -> 0 <= ram -> (2 <= N -> 1 <= ram) -> RevBlk.Blk true 0 (N - 1) ram L0 ->
  (2 * length L0 + 1 < k)%nat ->
  is_exhausted (fst (fst (run_ops (rev_xparams N ram) {| ob := ORevF KRevolve N ram disk (init_r (map inj L0)); started := false |} mon0 (repeat Next k)))) = true.
Proof.
  intros HN Hram Hram1 HB Hk.
  pose proof (revolve_J0 N ram disk L0 HN Hram Hram1 HB) as HJ0. set (L := map inj L0) in *.
  apply (run_nexts_fin (RevBridge2.pR N ram) (J N ram L KRevolve ram disk (RevCost.work L0)) (muS L) is_exhausted
           (J_step N ram Hram L KRevolve ram disk (RevCost.work L0))
           (muS_nonneg N ram L KRevolve ram disk (RevCost.work L0))
           (muS_dec N ram L KRevolve ram disk (RevCost.work L0))
           (exh_stays N ram L KRevolve ram disk (RevCost.work L0)) k _ _ HJ0 eq_refl).
  right. unfold muS. cbn [ob init_r finished idx pend length]. unfold L. rewrite map_length. lia.
Qed.

Theorem revolve_run_of_grammar N ram disk uf ub wd rd L0 k : 1 <= N -> 0 <= ram -> (2 <= N -> 1 <= ram) ->
  RevBlk.Blk true 0 (N - 1) ram L0 -> sequence KRevolve N ram disk uf ub wd rd = Ok (map inj L0) ->
  exists o0 m ls, run_case (PRev KRevolve N ram disk uf ub wd rd) (rev_xparams N ram) (repeat Next k) = Ok (o0, m, ls) /\ mon_ok m /\ no_raise ls.
Proof.
  intros HN Hram Hram1 HB Hseq.
  unfold run_case, Sched.construct, RevConv.construct. rewrite Hseq. cbn [bind].
  destruct (Z.ltb_spec N 1); [lia|]. destruct (Z.ltb_spec ram (Z.min 1 (N - 1))); [lia|]. cbn [bind].
  pose proof (revolve_cfg_run N ram disk L0 k HN Hram Hram1 HB) as Hrun.
  destruct (run_ops (rev_xparams N ram) _ mon0 (repeat Next k)) as [[s' m'] ls]. destruct Hrun as (H1 & H2 & _).
  eexists _, _, _. split; [reflexivity|]. split; assumption.
Qed.
