(* Revolve (memory only), end to end on the extracted model: RevolveCheckpointSchedule's Revolve class run by the monitored
   client against the reference executor with RAM budget = snapshots_in_ram and DISK budget 0. *)
From Coq Require Import ZArith List Lia Bool.
Require Import Actions Ops RevSeq RevConv Exec Sched ExecFacts RunFacts MSBridge RevBridge1 RevBridge2 RevBridge3.
Require RevBlk RevGen MSPot.
Import ListNotations.
Open Scope Z_scope.

Lemma Blk_wf wm o l cm ops : RevBlk.Blk wm o l cm ops -> Forall wf ops.
Proof.
  assert (Hadj : forall q, Forall wf (RevBlk.adj q)) by (intros q; unfold RevBlk.adj; repeat constructor; cbn; lia).
  assert (Htail : forall q, Forall wf (RevBlk.tail0 q)) by (intros q; unfold RevBlk.tail0; repeat constructor; cbn; lia).
  assert (Hwm : forall b q, Forall wf (RevBlk.wmop b q)) by (intros [|] q; unfold RevBlk.wmop; repeat constructor).
  assert (Hloop : forall k q, Forall wf (RevBlk.loop1 k q)).
  { induction k as [|k IH]; intros q; cbn [RevBlk.loop1]; [constructor|]. repeat (apply Forall_app; split); auto. repeat constructor; cbn; lia. }
  induction 1; repeat (apply Forall_app; split); auto; try (repeat constructor; cbn; lia).
Qed.

Lemma Blk_nonempty wm o l cm ops : RevBlk.Blk wm o l cm ops -> ops <> [].
Proof. induction 1; destruct wm; cbn; discriminate. Qed.

(* the structural stream theorem, from the grammar *)
Lemma blk_stream_ok N cm ops prev : 1 <= N -> 0 <= cm -> (2 <= N -> 1 <= cm) -> RevBlk.Blk true 0 (N - 1) cm ops ->
  exists acts c' x' lastop,
    RevBlk.conv N 0 prev RevGen.init_c ops = (acts, inl (c', Some lastop, length ops)) /\
    RevBlk.execs N cm RevGen.init_x acts = Some x' /\
    RevBlk.snaps c' = [] /\ RevBlk.store x' = [] /\ RevBlk.rr x' = N /\ RevBlk.endfwd x' = true.
Proof.
  intros HN Hcm Hcm1 HB.
  destruct (RevBlk.blk_ok N cm true 0 (N - 1) cm ops HB 0%nat prev RevGen.init_c RevGen.init_x) as (acts & c' & x' & lastop & HR & HX & HEx).
  - unfold RevBlk.Entry, RevGen.init_c, RevGen.init_x, RevBlk.keys, RevBlk.store_ok, RevBlk.sameset.
    cbn [RevBlk.n_ RevBlk.r_ RevBlk.snaps RevBlk.fwd RevBlk.wdeps RevBlk.endfwd RevBlk.store RevBlk.rr map length orb].
    replace (0 + (N - 1) + 1) with N by lia. rewrite Z.eqb_refl. cbn [negb].
    repeat match goal with |- _ /\ _ => split end; try lia; try reflexivity; try tauto.
    + constructor.
    + intros p a b; discriminate.
    + intros p [].
  - discriminate.
  - destruct HEx as (Hn & Hr & Hrr & Hf & Hwd & Hwi & Hef & Hst & Hss).
    exists acts, c', x', lastop. specialize (HR []). rewrite app_nil_r in HR. cbn [RevBlk.conv fst snd] in HR.
    rewrite app_nil_r in HR. cbn [Nat.add] in HR.
    cbn [RevBlk.store RevGen.init_x RevBlk.remove] in Hst.
    repeat match goal with |- _ /\ _ => split end; auto; try lia.
    destruct (RevBlk.snaps c') as [|z l] eqn:E; [reflexivity|]. exfalso.
    assert (Hin : In z (RevBlk.keys x')) by (apply Hss; left; reflexivity).
    unfold RevBlk.keys in Hin. rewrite Hst in Hin. exact Hin.
Qed.

Definition rev_xparams (N ram : Z) : xparams := {| xN := N; keep_all_deps := false; budget_ram := Some ram; budget_disk := Some 0 |}.

Theorem revolve_run_of_grammar N ram disk uf ub wd rd L0 k : 1 <= N -> 0 <= ram -> (2 <= N -> 1 <= ram) ->
  RevBlk.Blk true 0 (N - 1) ram L0 -> sequence KRevolve N ram disk uf ub wd rd = Ok (map inj L0) ->
  exists o0 m ls, run_case (PRev KRevolve N ram disk uf ub wd rd) (rev_xparams N ram) (repeat Next k) = Ok (o0, m, ls) /\ mon_ok m /\ no_raise ls.
Proof.
  intros HN Hram Hram1 HB Hseq.
  unfold run_case, Sched.construct, RevConv.construct. rewrite Hseq. cbn [bind].
  destruct (Z.ltb_spec N 1); [lia|]. destruct (Z.ltb_spec ram (Z.min 1 (N - 1))); [lia|]. cbn [bind].
  set (L := map inj L0).
  assert (HJ0 : J N ram L KRevolve ram disk {| ob := ORevF KRevolve N ram disk (init_r L); started := false |} mon0).
  { pose proof (Blk_nonempty _ _ _ _ _ HB) as Hne.
    assert (Hprev : exists prev, prevop L0 0 = Some prev).
    { unfold prevop. destruct (rev L0) as [|z r] eqn:E; [|eauto]. apply (f_equal (@rev _)) in E. rewrite rev_involutive in E. contradiction. }
    destruct Hprev as [prev Hprev].
    destruct (blk_stream_ok N ram L0 (Some prev) HN Hram Hram1 HB) as (acts & c' & x' & lastop & Hconv & Hexs & Hsn & Hst & Hrr & Hef).
    pose proof (conv_link N L0 [] prev RevGen.init_c acts c' (Some lastop) (length L0) (Blk_wf _ _ _ _ _ HB) (fun _ => Hprev) Hconv) as Hlink.
    cbn [app length] in Hlink.
    apply (Jrun N ram L KRevolve ram disk 0%nat init_c [] RevGen.init_x 0 false mon0).
    - lia.
    - reflexivity.
    - unfold Rx, toMS, RevGen.init_x, mon0, x0. cbn. repeat split; reflexivity.
    - unfold NN, RevGen.init_x. cbn. repeat split; try lia; try discriminate. intros f Hf; injection Hf as <-; lia.
    - intros a b Hd; discriminate.
    - cbn [AgP]. split; reflexivity.
    - constructor.
    - exists acts, (cmap c'), x'. unfold L. rewrite map_length, Nat.sub_0_r. cbn [app]. repeat split; auto. }
  pose proof (run_nexts (RevBridge2.pR N ram) (J N ram L KRevolve ram disk) (J_step N ram Hram L KRevolve ram disk) k _ _ HJ0 eq_refl) as Hrun.
  change (RevBridge2.pR N ram) with (rev_xparams N ram) in Hrun.
  destruct (run_ops (rev_xparams N ram) _ mon0 (repeat Next k)) as [[s' m'] ls]. destruct Hrun as (_ & H1 & H2).
  eexists _, _, _. split; [reflexivity|]. split; assumption.
Qed.
