From Coq Require Import ZArith List Lia Bool.
Require Import Actions Mixed.
Import ListNotations.
Open Scope Z_scope.

Notation cost := snd (only parsing).
(* ---- the loop ---- *)
Lemma for_i_spec : forall cnt i0 f m r, for_i cnt i0 f m = Ok r ->
  match r with
  | None => m = None /\ cnt = O
  | Some (k, j, c) => m = Some (k, j, c) \/ (k = KIcs /\ i0 <= j < i0 + Z.of_nat cnt /\ f j = Ok c)
  end.
Proof.
  induction cnt as [|cnt IH]; intros i0 f m r H; cbn [for_i] in H.
  - injection H as <-. destruct m as [[[k j] c]|]; auto.
  - destruct (f i0) as [m1|] eqn:E; cbn [bind] in H; [|discriminate].
    specialize (IH _ _ _ _ H). destruct r as [[[k j] c]|].
    + destruct IH as [IH | (-> & Hj & Hf)].
      * destruct m as [[[k0 j0] c0]|].
        -- destruct (m1 <=? c0); [injection IH as <- <- <-; right; split; [reflexivity|]; split; [lia|exact E] | left; exact IH].
        -- injection IH as <- <- <-. right. split; [reflexivity|]. split; [lia|exact E].
      * right. split; [reflexivity|]. split; [lia|exact Hf].
    + destruct IH as [IH _]. destruct m as [[[k0 j0] c0]|]; [destruct (m1 <=? c0); discriminate|discriminate].
Qed.

(* ---- fuel monotonicity ---- *)
Lemma for_i_ext : forall cnt i0 f g m r, (forall j c, f j = Ok c -> g j = Ok c) -> for_i cnt i0 f m = Ok r -> for_i cnt i0 g m = Ok r.
Proof.
  induction cnt as [|cnt IH]; intros i0 f g m r Hfg H; cbn [for_i] in *; [exact H|].
  destruct (f i0) as [m1|] eqn:E; cbn [bind] in H; [|discriminate]. rewrite (Hfg _ _ E). cbn [bind]. eapply IH; eauto.
Qed.
Lemma memo_mono : forall f n s v, memo f n s = Ok v -> memo (S f) n s = Ok v.
Proof.
  induction f as [|f IH]; intros n s v H; [discriminate|].
  remember (S f) as g. cbn [memo] in *. subst g. cbn [memo] in H. cbn zeta in *.
  set (s' := Z.min s (n - 1)) in *.
  destruct (n <=? 0); [exact H|]. destruct ((s' <? Z.min 1 (n - 1)) || (s' >? n - 1)); [exact H|].
  destruct (n =? 1); [exact H|]. destruct (n <=? s' + 1); [exact H|]. destruct (s' =? 1); [exact H|].
  destruct (for_i _ 2 (fun i => do a <- memo f i s'; do b <- memo f (n - i) (s' - 1); Ok (i + cost a + cost b)) None) as [m|] eqn:Ef;
    cbn [bind] in H; [|discriminate].
  assert (Hext : forall j c, (fun i => do a <- memo f i s'; do b <- memo f (n - i) (s' - 1); Ok (i + cost a + cost b)) j = Ok c ->
                 (fun i => do a <- memo (S f) i s'; do b <- memo (S f) (n - i) (s' - 1); Ok (i + cost a + cost b)) j = Ok c).
  { intros j c Hj. cbv beta in *. destruct (memo f j s') as [a|] eqn:Ea; cbn [bind] in Hj; [|discriminate].
    destruct (memo f (n - j) (s' - 1)) as [b|] eqn:Eb; cbn [bind] in Hj; [|discriminate].
    rewrite (IH _ _ _ Ea), (IH _ _ _ Eb). exact Hj. }
  rewrite (for_i_ext _ _ _ _ _ _ Hext Ef).
  cbn [bind]. destruct m as [[[k i] c0]|]; [|exact H].
  destruct (memo f (n - 1) (s' - 1)) as [a|] eqn:Ea; cbn [bind] in H; [|discriminate].
  rewrite (IH _ _ _ Ea). exact H.
Qed.
Lemma memo_mono_le f f' n s v : (f <= f')%nat -> memo f n s = Ok v -> memo f' n s = Ok v.
Proof. induction 1 as [|f' Hle IH]; [auto|]. intros H0. apply memo_mono. auto. Qed.
Print Assumptions memo_mono_le.

(* ---- totality with fuel n ---- *)
Lemma for_i_total : forall cnt i0 f m, (forall j, i0 <= j < i0 + Z.of_nat cnt -> exists c, f j = Ok c) ->
  exists r, for_i cnt i0 f m = Ok r /\ (cnt <> O \/ m <> None -> r <> None).
Proof.
  induction cnt as [|cnt IH]; intros i0 f m Hf; cbn [for_i].
  - exists m. split; [reflexivity|]. intros [H|H]; congruence.
  - destruct (Hf i0 ltac:(lia)) as (c & Hc). rewrite Hc. cbn [bind].
    destruct (IH (i0 + 1) f (match m with None => Some (KIcs, i0, c) | Some (_, _, c0) => if c <=? c0 then Some (KIcs, i0, c) else m end)) as (r & Hr & Hne).
    { intros j Hj. apply Hf. lia. }
    exists r. split; [exact Hr|]. intros _. apply Hne. right.
    destruct m as [[[k j] c0]|]; [destruct (c <=? c0)|]; congruence.
Qed.

Lemma memo_total : forall f n s, 1 <= n -> (Z.to_nat n <= f)%nat -> Z.min 1 (n - 1) <= s -> exists v, memo f n s = Ok v.
Proof.
  induction f as [|f IH]; intros n s Hn Hf Hs; [lia|].
  cbn [memo]. cbn zeta. set (s' := Z.min s (n - 1)).
  destruct (Z.leb_spec n 0); [lia|].
  replace ((s' <? Z.min 1 (n - 1)) || (s' >? n - 1)) with false.
  2:{ symmetry. apply orb_false_iff. split; [apply Z.ltb_ge; unfold s'; lia|rewrite Z.gtb_ltb; apply Z.ltb_ge; unfold s'; lia]. }
  destruct (Z.eqb_spec n 1); [eexists; reflexivity|].
  destruct (Z.leb_spec n (s' + 1)); [eexists; reflexivity|].
  destruct (Z.eqb_spec s' 1); [eexists; reflexivity|].
  assert (Hs2 : 2 <= s') by (unfold s' in *; lia).
  destruct (for_i_total (Z.to_nat (n - 2)) 2 (fun i => do a <- memo f i s'; do b <- memo f (n - i) (s' - 1); Ok (i + cost a + cost b)) None)
    as (r & Hr & Hne).
  { intros j Hj. destruct (IH j s' ltac:(lia) ltac:(lia) ltac:(lia)) as (a & ->).
    destruct (IH (n - j) (s' - 1) ltac:(lia) ltac:(lia) ltac:(lia)) as (b & ->). cbn [bind]. eexists; reflexivity. }
  rewrite Hr. cbn [bind]. specialize (Hne ltac:(left; lia)).
  destruct r as [[[k i] c0]|]; [|congruence].
  destruct (IH (n - 1) (s' - 1) ltac:(lia) ltac:(lia) ltac:(lia)) as (a & ->). cbn [bind].
  destruct (1 + cost a <? c0); eexists; reflexivity.
Qed.

(* ---- the canonical planner and its cost ---- *)
Definition planC (m k : Z) : plan_t := match memo (Z.to_nat m) m k with Ok v => v | Err _ => (KFR, 0, 0) end.
Definition plan (m k : Z) : kind * Z := fst (planC m k).
Definition C (m k : Z) : Z := cost (planC m k).
Lemma memo_planC f m k : 1 <= m -> (Z.to_nat m <= f)%nat -> Z.min 1 (m - 1) <= k -> memo f m k = Ok (planC m k).
Proof.
  intros Hm Hf Hk. unfold planC. destruct (memo_total (Z.to_nat m) m k Hm ltac:(lia) Hk) as (v & Hv).
  rewrite Hv. apply (memo_mono_le (Z.to_nat m)); assumption.
Qed.

Theorem plan_1 k : 0 <= k -> plan 1 k = (KFR, 1) /\ C 1 k = 1.
Proof.
  intros Hk. unfold plan, C, planC. change (Z.to_nat 1) with 1%nat. cbn [memo].
  replace (Z.min k (1 - 1)) with 0 by lia. split; reflexivity.
Qed.

(* unfolding of one level for m >= 2 *)
Lemma planC_unfold m k : 2 <= m -> 1 <= k ->
  let s := Z.min k (m - 1) in
  (m <= s + 1 /\ planC m k = (KAdj, 1, m)) \/
  (s + 1 < m /\ s = 1 /\ planC m k = (KIcs, m - 1, m*(m+1)/2 - 1)) \/
  (s + 1 < m /\ 2 <= s /\ exists j, 2 <= j <= m - 1 /\
     let cj := j + C j s + C (m - j) (s - 1) in
     let ca := 1 + C (m - 1) (s - 1) in
     planC m k = (if ca <? cj then (KAdj, 1, ca) else (KIcs, j, cj))).
Proof.
  intros Hm Hk. cbn zeta. set (s := Z.min k (m - 1)).
  pose proof (memo_planC (S (Z.to_nat m)) m k ltac:(lia) ltac:(lia) ltac:(lia)) as H.
  cbn [memo] in H. cbn zeta in H. fold s in H.
  destruct (Z.leb_spec m 0); [lia|].
  replace ((s <? Z.min 1 (m - 1)) || (s >? m - 1)) with false in H.
  2:{ symmetry. apply orb_false_iff. split; [apply Z.ltb_ge; unfold s; lia|rewrite Z.gtb_ltb; apply Z.ltb_ge; unfold s; lia]. }
  destruct (Z.eqb_spec m 1); [lia|].
  destruct (Z.leb_spec m (s + 1)).
  { left. split; [lia|]. injection H as <-. reflexivity. }
  destruct (Z.eqb_spec s 1).
  { right. left. split; [lia|]. split; [assumption|]. injection H as <-. reflexivity. }
  right. right. split; [lia|]. split; [unfold s in *; lia|].
  assert (Hs2 : 2 <= s) by (unfold s in *; lia).
  destruct (for_i _ 2 _ None) as [r|] eqn:Ef; cbn [bind] in H; [|discriminate].
  pose proof (for_i_spec _ _ _ _ _ Ef) as Hspec.
  destruct r as [[[kd j] c0]|]; [|destruct Hspec as [_ Hc]; lia].
  destruct Hspec as [Hc | (-> & Hj & Hfj)]; [discriminate|].
  rewrite (memo_planC (Z.to_nat m) j s ltac:(lia) ltac:(lia) ltac:(lia)) in Hfj.
  rewrite (memo_planC (Z.to_nat m) (m - j) (s - 1) ltac:(lia) ltac:(lia) ltac:(lia)) in Hfj. cbn [bind] in Hfj. injection Hfj as <-.
  rewrite (memo_planC (Z.to_nat m) (m - 1) (s - 1) ltac:(lia) ltac:(lia) ltac:(lia)) in H. cbn [bind] in H.
  exists j. split; [lia|]. cbn zeta. unfold C.
  destruct (1 + cost (planC (m - 1) (s - 1)) <? j + cost (planC j s) + cost (planC (m - j) (s - 1))); injection H as <-; reflexivity.
Qed.
Print Assumptions planC_unfold.

(* ---- the clamp makes the unit argument irrelevant beyond m-1 ---- *)
Lemma planC_clamp a k : planC a k = planC a (Z.min k (a - 1)).
Proof.
  unfold planC. destruct (Z.to_nat a) as [|f] eqn:E; [reflexivity|]. cbn [memo]. cbn zeta.
  replace (Z.min (Z.min k (a - 1)) (a - 1)) with (Z.min k (a - 1)) by lia. reflexivity.
Qed.
Lemma C_clamp a k k' : Z.min k (a - 1) = Z.min k' (a - 1) -> C a k = C a k'.
Proof. intros H. unfold C. rewrite (planC_clamp a k), (planC_clamp a k'), H. reflexivity. Qed.
Lemma tri m : 2 * (m * (m + 1) / 2) = m * (m + 1).
Proof.
  assert (H : (m * (m + 1)) mod 2 = 0).
  { rewrite Z.mul_mod by lia. destruct (Z.mod_pos_bound m 2 ltac:(lia)) as [H0 H1].
    assert (Hc : m mod 2 = 0 \/ m mod 2 = 1) by lia. destruct Hc as [E|E]; rewrite E.
    - reflexivity.
    - rewrite Z.add_mod by lia. rewrite E. reflexivity. }
  pose proof (Z.div_mod (m * (m + 1)) 2 ltac:(lia)). lia.
Qed.

(* ---- the five hypotheses of MixInv.v ---- *)
Theorem plan_ge2 m k : 2 <= m -> 1 <= k ->
  (fst (plan m k) = KIcs /\ 2 <= snd (plan m k) <= m - 1 /\ (2 <= k \/ snd (plan m k) = m - 1)) \/
  (fst (plan m k) = KAdj /\ snd (plan m k) = 1 /\ (2 <= k \/ m = 2)).
Proof.
  intros Hm Hk. unfold plan. destruct (planC_unfold m k Hm Hk) as [(H1 & ->) | [(H1 & H2 & ->) | (H1 & H2 & j & Hj & H3)]]; cbn [fst snd].
  - right. repeat split; lia.
  - left. repeat split; lia.
  - cbn zeta in H3. rewrite H3. destruct (_ <? _); cbn [fst snd]; [right|left]; repeat split; lia.
Qed.
Theorem plan_2 k : 1 <= k -> fst (plan 2 k) = KAdj.
Proof.
  intros Hk. unfold plan. destruct (planC_unfold 2 k ltac:(lia) Hk) as [(H1 & ->) | [(H1 & H2 & _) | (H1 & H2 & _)]]; [reflexivity|lia|lia].
Qed.
Theorem C_adj m k : 2 <= m -> 1 <= k -> fst (plan m k) = KAdj -> C m k = 1 + C (m - 1) (k - 1).
Proof.
  intros Hm Hk. unfold plan. destruct (planC_unfold m k Hm Hk) as [(H1 & E) | [(H1 & H2 & E) | (H1 & H2 & j & Hj & E)]].
  - intros _. unfold C at 1. rewrite E. cbn [cost snd].
    destruct (Z.eq_dec m 2) as [->|Hm2].
    + replace (2 - 1) with 1 by lia. rewrite (proj2 (plan_1 (k - 1) ltac:(lia))). lia.
    + destruct (planC_unfold (m - 1) (k - 1) ltac:(lia) ltac:(lia)) as [(G1 & G) | [(G1 & _) | (G1 & _)]]; [|lia|lia].
      unfold C. rewrite G. cbn [cost snd]. lia.
  - rewrite E. cbn [fst]. discriminate.
  - cbn zeta in E. intros Hk'. unfold C at 1. rewrite E in *. destruct (_ <? _); cbn [fst cost snd] in *; [|discriminate].
    f_equal. apply C_clamp. lia.
Qed.
Theorem C_ics m k : 2 <= m -> 1 <= k -> fst (plan m k) = KIcs ->
  C m k = snd (plan m k) + C (m - snd (plan m k)) (k - 1) + C (snd (plan m k)) k.
Proof.
  intros Hm Hk. unfold plan. destruct (planC_unfold m k Hm Hk) as [(H1 & E) | [(H1 & H2 & E) | (H1 & H2 & j & Hj & E)]].
  - rewrite E. cbn [fst]. discriminate.
  - intros _. unfold C at 1. rewrite E. cbn [fst snd cost].
    assert (Hk1 : k = 1) by lia. subst k.
    replace (m - (m - 1)) with 1 by lia. rewrite (proj2 (plan_1 (1 - 1) ltac:(lia))).
    pose proof (tri m) as Tm.
    destruct (planC_unfold (m - 1) 1 ltac:(lia) ltac:(lia)) as [(G1 & G) | [(G1 & G2 & G) | (G1 & G2 & _)]]; [| |lia].
    + unfold C. rewrite G. cbn [cost snd]. assert (m = 3) by lia. subst m. reflexivity.
    + unfold C. rewrite G. cbn [cost snd]. pose proof (tri (m - 1)) as Tm1. replace (m - 1 + 1) with m in * by lia. nia.
  - cbn zeta in E. intros Hk'. unfold C at 1. rewrite E in *. destruct (_ <? _); cbn [fst cost snd] in *; [discriminate|].
    rewrite (C_clamp j (Z.min k (m - 1)) k) by lia.
    rewrite (C_clamp (m - j) (Z.min k (m - 1) - 1) (k - 1)) by lia. lia.
Qed.
Print Assumptions plan_ge2.
Print Assumptions C_ics.
Print Assumptions C_adj.
