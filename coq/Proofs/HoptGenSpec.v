(* get_hopt_table of hrevolve_sequences/hrevolve.py as harness/translate.py renders it (TabTr) for two storage levels: hopt_shape is
   the translator's output on the pinned tree; Gen/HoptGen.v re-translates the current source on every run and proves the result
   equal to it by conversion.  This file proves hopt_shape equal, for all arguments, to HRevSeq.get_hopt_table. *)
From Coq Require Import ZArith List Bool Lia.
Require Import Actions Ops HRevSeq.
Import ListNotations.
Open Scope Z_scope.

Definition cvec2 (a b k : Z) : Z := if k =? 0 then a else b.          (* cvect[k], wvect[k], rvect[k] for two levels *)
(* opt[k][l][m] (p = false) / optp[k][l][m] (p = true) *)
Definition hget (p : bool) (T : tabs) (k l m : Z) : res cost :=
  if k =? 0 then get (if p then optp0 T else opt0 T) l m else if k =? 1 then get (if p then optp1 T else opt1 T) l m else Err IndexError.
Definition hset (p : bool) (T : tabs) (k l m : Z) (v : cost) : res tabs :=
  if k =? 0 then
    (if p then do b <- set (optp0 T) l m v; Ok {| optp0 := b; opt0 := opt0 T; optp1 := optp1 T; opt1 := opt1 T |}
     else do a <- set (opt0 T) l m v; Ok {| optp0 := optp0 T; opt0 := a; optp1 := optp1 T; opt1 := opt1 T |})
  else if k =? 1 then
    (if p then do b <- set (optp1 T) l m v; Ok {| optp0 := optp0 T; opt0 := opt0 T; optp1 := b; opt1 := opt1 T |}
     else do a <- set (opt1 T) l m v; Ok {| optp0 := optp0 T; opt0 := opt0 T; optp1 := optp1 T; opt1 := a |})
  else Err IndexError.

Definition hopt_shape (lmax c0 c1 w0 w1 r0 r1 ub uf : Z) : res tabs :=
  let T := {| optp0 := mk lmax c0; opt0 := mk lmax c0; optp1 := mk lmax c1; opt1 := mk lmax c1 |} in
  do T <- range_for 0 2 T (fun k T => let mmax := (cvec2 c0 c1 k) in do T <- range_for 0 (mmax + 1) T (fun m T => do T <- hset false T k 0 m (Fin ub); do T <- hset true T k 0 m (Fin ub); Ok T); do T <- range_for 0 (mmax + 1) T (fun m T => if (((m =? 0) && (k =? 0)) || (lmax <? 1)) then Ok T else (do T <- hset true T k 1 m (Fin ((uf + (2 * ub)) + (cvec2 r0 r1 0))); do x1_ <- hget true T k 1 m; do T <- hset false T k 1 m (cadd (Fin (cvec2 w0 w1 0)) x1_); Ok T)); Ok T); let mmax := (cvec2 c0 c1 0) in do T <- range_for 2 (lmax + 1) T (fun l T => do T <- hset true T 0 l 1 (Fin ((((l + 1) * ub) + (((l * (l + 1)) / 2) * uf)) + (l * (cvec2 r0 r1 0)))); do x2_ <- hget true T 0 l 1; do T <- hset false T 0 l 1 (cadd (Fin (cvec2 w0 w1 0)) x2_); Ok T); do T <- range_for 2 (mmax + 1) T (fun m T => do T <- range_for 2 (lmax + 1) T (fun l T => do x5_ <- map_res (fun j => do x3_ <- hget false T 0 (l - j) (m - 1); do x4_ <- hget true T 0 (j - 1) m; Ok (cadd (cadd (cadd (Fin (j * uf)) x3_) (Fin (cvec2 r0 r1 0))) x4_)) (zrange 1 l); do x6_ <- hget true T 0 l 1; do T <- hset true T 0 l m (cmin_list (x5_ ++ [x6_]) Inf); do x7_ <- hget true T 0 l m; do T <- hset false T 0 l m (cadd (Fin (cvec2 w0 w1 0)) x7_); Ok T); Ok T); do T <- range_for 1 2 T (fun k T => let mmax := (cvec2 c0 c1 k) in do T <- range_for 2 (lmax + 1) T (fun l T => do x8_ <- hget false T (k - 1) l (cvec2 c0 c1 (k - 1)); do T <- hset false T k l 0 x8_; Ok T); do T <- range_for 1 (mmax + 1) T (fun m T => do T <- range_for 1 (lmax + 1) T (fun l T => do x9_ <- hget false T (k - 1) l (cvec2 c0 c1 (k - 1)); do x12_ <- map_res (fun j => do x10_ <- hget false T k (l - j) (m - 1); do x11_ <- hget true T k (j - 1) m; Ok (cadd (cadd (cadd (Fin (j * uf)) x10_) (Fin (cvec2 r0 r1 k))) x11_)) (zrange 1 l); do T <- hset true T k l m (cmin_list ([x9_] ++ x12_) Inf); do x13_ <- hget false T (k - 1) l (cvec2 c0 c1 (k - 1)); do x14_ <- hget true T k l m; do T <- hset false T k l m (cmin x13_ (cadd (Fin (cvec2 w0 w1 k)) x14_)); Ok T); Ok T); Ok T); Ok T.


Lemma for_ext {S} (f g : Z -> S -> res S) : (forall i s, f i s = g i s) -> forall cnt lo s, for_ lo cnt s f = for_ lo cnt s g.
Proof. intros H. induction cnt as [|c IH]; intros lo s; cbn [for_]; [reflexivity|]. rewrite H. destruct (g lo s); cbn [bind]; [apply IH|reflexivity]. Qed.
Lemma range_ext {S} (f g : Z -> S -> res S) lo hi s : (forall i s, f i s = g i s) -> range_for lo hi s f = range_for lo hi s g.
Proof. intros H. apply for_ext, H. Qed.
Lemma upd_nth {A} (v : A) : forall l i l', upd_list l i v = Some l' -> nth_error l' i = Some v.
Proof.
  induction l as [|x l IH]; intros i l' H; [destruct i; discriminate|]. destruct i as [|i]; cbn in H.
  - injection H as <-. reflexivity.
  - destruct (upd_list l i v) as [r|] eqn:E; [|discriminate]. injection H as <-. cbn. apply IH, E.
Qed.
Lemma get_set t l m v t' : set t l m v = Ok t' -> get t' l m = Ok v.
Proof.
  unfold set, get. destruct ((l <? 0) || (m <? 0)); [discriminate|]. destruct (nth_error t (Z.to_nat l)) as [row|]; [|discriminate].
  destruct (upd_list row (Z.to_nat m) v) as [row'|] eqn:E1; [|discriminate]. destruct (upd_list t (Z.to_nat l) row') as [t2|] eqn:E2; [|discriminate].
  intros H. injection H as <-. rewrite (upd_nth _ _ _ _ E2), (upd_nth _ _ _ _ E1). reflexivity.
Qed.
Lemma range_0_2 {S} (s : S) f : range_for 0 2 s f = (do s1 <- f 0 s; do s2 <- f 1 s1; Ok s2).
Proof. unfold range_for. change (Z.to_nat (2 - 0)) with 2%nat. cbn [for_]. destruct (f 0 s) as [s1|e]; cbn [bind]; [|reflexivity]. change (0 + 1) with 1. destruct (f 1 s1); reflexivity. Qed.
Lemma range_1_2 {S} (s : S) f : range_for 1 2 s f = (do s1 <- f 1 s; Ok s1).
Proof. unfold range_for. change (Z.to_nat (2 - 1)) with 1%nat. cbn [for_]. destruct (f 1 s); reflexivity. Qed.

Ltac crunch :=
  repeat (cbn [bind optp0 opt0 optp1 opt1 app];
    match goal with
    | H : set ?t ?l ?m ?v = Ok ?t' |- context [get ?t' ?l ?m] => rewrite (get_set t l m v t' H)
    | H : ?t = Ok _ |- context [?t] => rewrite H
    | H : ?t = Err _ |- context [?t] => rewrite H
    | |- context [bind (set ?t ?l ?m ?v) _] => destruct (set t l m v) eqn:?
    | |- context [bind (get ?t ?l ?m) _] => destruct (get t l m) eqn:?
    | |- context [bind (map_res ?f ?l) _] => destruct (map_res f l) eqn:?
    | |- ?x = ?x => reflexivity
    end).

Lemma bind_assoc {A B C} (m : res A) (f : A -> res B) (g : B -> res C) : bind (bind m f) g = bind m (fun x => bind (f x) g).
Proof. destruct m; reflexivity. Qed.
Lemma bind_ok_r {A} (m : res A) : bind m (fun x => Ok x) = m.
Proof. destruct m; reflexivity. Qed.
Ltac norm := cbv zeta; rewrite ?bind_assoc; cbn [bind].
Ltac body0 := unfold hset, hget, cvec2; cbn [Z.eqb Pos.eqb Z.sub Z.add Z.opp Z.pos_sub Pos.pred_double]; rewrite ?andb_true_r, ?andb_false_r; cbn [orb];
  repeat match goal with |- context [if ?c then _ else _] => destruct c end; crunch.
Ltac body := first [ rewrite bind_ok_r; apply range_ext; intros ? ?T; body0 | body0 ].
Ltac loop1 :=
  match goal with |- bind ?a _ = bind ?b _ =>
    replace a with b; [destruct b as [?T|?e]; cbn [bind]; [|reflexivity] | symmetry; apply range_ext; intros ? ?T; body ] end.

Theorem hopt_shape_is_model : forall lmax c0 c1 w0 w1 r0 r1 ub uf, hopt_shape lmax c0 c1 w0 w1 r0 r1 ub uf = HRevSeq.get_hopt_table lmax c0 c1 w0 w1 r0 r1 ub uf.
Proof.
  intros. unfold hopt_shape, HRevSeq.get_hopt_table. cbv zeta. rewrite range_0_2. norm.
  change (cvec2 c0 c1 0) with c0. change (cvec2 c0 c1 1) with c1. loop1. norm. loop1. norm. loop1. norm. loop1. norm. loop1. norm. loop1. norm.
  rewrite range_1_2. norm. change (cvec2 c0 c1 1) with c1. loop1. norm.
  rewrite bind_ok_r. apply range_ext. intros m T6. body.
Qed.
Print Assumptions hopt_shape_is_model.
