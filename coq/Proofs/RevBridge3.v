(* Revolve, bridge 3: the step machine of Model/RevConv.v (next / advance / pend) run by the monitored client against
   the reference executor, given that the index-based conversion of the whole op list emits a stream the RAM-only executor
   of RevBlk.v accepts and ends clean. *)
From Coq Require Import ZArith List Lia Bool.
Require Import Actions Ops RevConv Exec Sched ExecFacts RunFacts MSBridge OnlineFlags RevBridge1 RevBridge2.
Require RevBlk MSPot MSTerm.
Import ListNotations.
Open Scope Z_scope.

Ltac brk H := repeat match type of H with
  | context [match ?x with _ => _ end] => let E := fresh "E" in destruct x eqn:E
  | context [if ?x then _ else _] => let E := fresh "E" in destruct x eqn:E
  end.

(* the converter's view of the position agrees with the executor's *)
Definition agree (c : cst) (x : RevBlk.xst) : Prop := RevBlk.fwd x = Some (n_ c) /\ RevBlk.rr x = r_ c.
Definition WD (x : RevBlk.xst) : Prop := forall a b, RevBlk.wdeps x = Some (a, b) -> b = a + 1.
Fixpoint AgP (N R : Z) (c : cst) (x : RevBlk.xst) (p : list action) : Prop :=
  match p with [] => agree c x | a :: rest => forall x1, RevBlk.exec N R x a = Some x1 -> agree c x1 /\ AgP N R c x1 rest end.

Lemma exec_WD N R x a x1 : RevBlk.exec N R x a = Some x1 -> WD x -> WD x1.
Proof.
  unfold WD. intros H Hw.
  destruct a as [n0 n1 wi wa sg|n1 n0 cl|n src dst|n src dst| |]; cbn [RevBlk.exec] in H; brk H; try discriminate; injection H as <-;
    cbn [RevBlk.wdeps]; try (intros; discriminate); auto.
  all: intros a b Hab; injection Hab as <- <-.
  all: repeat match goal with E : negb _ = false |- _ => apply negb_false_iff in E end;
       repeat match goal with E : _ && _ = true |- _ => apply andb_true_iff in E; destruct E end.
  all: match goal with E : (negb true || _) = true |- _ => cbn [negb orb] in E; apply andb_true_iff in E; destruct E as [E _]; apply Z.eqb_eq in E; exact E end.
Qed.

Lemma exec_fwd_pos N R x n0 n1 wi wa sg x1 : RevBlk.exec N R x (Forward n0 n1 wi wa sg) = Some x1 -> RevBlk.fwd x1 = Some n1 /\ RevBlk.rr x1 = RevBlk.rr x.
Proof. cbn [RevBlk.exec]. intros H. brk H; try discriminate; injection H as <-; split; reflexivity. Qed.
Lemma exec_endfwd_pos N R x x1 : RevBlk.exec N R x EndForward = Some x1 -> RevBlk.fwd x1 = RevBlk.fwd x /\ RevBlk.rr x1 = RevBlk.rr x.
Proof. cbn [RevBlk.exec]. intros H. brk H; try discriminate; injection H as <-; split; reflexivity. Qed.
Lemma exec_load_pos N R x (a : action) n s d x1 : a = Copy n s d \/ a = Move n s d -> RevBlk.exec N R x a = Some x1 -> RevBlk.fwd x1 = Some n /\ RevBlk.rr x1 = RevBlk.rr x.
Proof. intros [-> | ->]; cbn [RevBlk.exec]; intros H; brk H; try discriminate; injection H as <-; split; reflexivity. Qed.
Lemma exec_rev_pos N R x n1 n0 cl x1 : RevBlk.exec N R x (Reverse n1 n0 cl) = Some x1 -> WD x -> RevBlk.fwd x1 = RevBlk.fwd x /\ RevBlk.rr x1 = RevBlk.rr x + 1.
Proof.
  cbn [RevBlk.exec]. intros H Hw. destruct (RevBlk.wdeps x) as [[a b]|] eqn:Ed.
  - pose proof (Hw a b Ed) as Hb. subst b. cbn [RevBlk.covers] in H.
    destruct (RevBlk.endfwd x), (Z.eqb_spec n1 (N - RevBlk.rr x)), (Z.ltb_spec n0 n1), (Z.leb_spec a n0), (Z.leb_spec n1 (a + 1)); cbn [andb negb] in H; try discriminate.
    injection H as <-. cbn [RevBlk.fwd RevBlk.rr]. split; [reflexivity|lia].
  - cbn [RevBlk.covers] in H. rewrite !andb_false_r in H. discriminate.
Qed.

Lemma conv1_agree N R L i c c1 l x : conv1 N L i c = Ok (c1, l) -> agree c x -> WD x -> AgP N R c1 x l.
Proof.
  unfold conv1. intros H [Hf Hr] Hw.
  destruct (nth_error L i) as [o|]; [|discriminate]. destruct (conv_n0_st o) as [[n0 sg]|e] eqn:Ec; [|discriminate]. cbn [bind] in H.
  destruct o as [a b|a b|k j|k j|k j|k j|k j|j|j|j|j|j|j|j|j].
  - (* OF *)
    destruct (negb (n0 =? n_ c)); [discriminate|].
    destruct (match i with O => last_op L | S j => nth_error L j end) as [pv|]; [|discriminate].
    destruct (conv_n0_st pv) as [[w ws]|]; [|discriminate]. cbn [bind] in H.
    match type of H with (do c2 <- ?M; _) = _ => destruct M as [c2|] eqn:E2; [|discriminate] end. cbn [bind] in H.
    assert (Hc2 : n_ c2 = b /\ r_ c2 = r_ c) by (destruct pv; brk E2; try discriminate; injection E2 as <-; split; reflexivity).
    destruct Hc2 as [Hn2 Hr2].
    destruct (b =? N).
    + destruct (negb (r_ c2 =? 0)); [discriminate|]. injection H as <- <-. cbn [AgP].
      intros x1 Hx1. destruct (exec_fwd_pos _ _ _ _ _ _ _ _ _ Hx1) as [F1 R1].
      assert (A1 : agree c2 x1) by (split; [rewrite F1, Hn2; reflexivity|rewrite R1, Hr2; exact Hr]).
      split; [exact A1|]. intros x2 Hx2. destruct (exec_endfwd_pos _ _ _ _ Hx2) as [F2 R2].
      assert (A2 : agree c2 x2) by (destruct A1; split; congruence). split; exact A2.
    + injection H as <- <-. cbn [AgP]. intros x1 Hx1. destruct (exec_fwd_pos _ _ _ _ _ _ _ _ _ Hx1) as [F1 R1].
      assert (A1 : agree c2 x1) by (split; [rewrite F1, Hn2; reflexivity|rewrite R1, Hr2; exact Hr]). split; exact A1.
  - (* OB *)
    brk H; try discriminate. injection H as <- <-. cbn [AgP]. intros x1 Hx1. destruct (exec_rev_pos _ _ _ _ _ _ _ Hx1 Hw) as [F1 R1].
    assert (A1 : agree (upd c (n_ c) (r_ c + 1) (snaps c) (w_storage c) (write_ics c) (adj_deps c) (w_n0 c)) x1) by (split; cbn [upd n_ r_]; [congruence|lia]).
    split; exact A1.
  - brk H; try discriminate; injection H as <- <-; cbn [AgP]; intros x1 Hx1;
      (destruct (exec_load_pos _ _ _ _ _ _ _ _ (or_introl eq_refl) Hx1) as [F1 R1] || destruct (exec_load_pos _ _ _ _ _ _ _ _ (or_intror eq_refl) Hx1) as [F1 R1]);
      (assert (A1 : agree (upd c n0 (r_ c) (snaps c) (w_storage c) (write_ics c) (adj_deps c) (w_n0 c)) x1) by (split; cbn [upd n_ r_]; congruence) ||
       assert (A1 : agree (upd c n0 (r_ c) (filter (fun x => negb (x =? n0)) (snaps c)) (w_storage c) (write_ics c) (adj_deps c) (w_n0 c)) x1) by (split; cbn [upd n_ r_]; congruence));
      split; exact A1.
  - brk H; try discriminate; injection H as <- <-; split; assumption.
  - brk H; try discriminate; injection H as <- <-; split; assumption.
  - unfold bind in H; brk H; try discriminate; injection H as <- <-; split; assumption.
  - brk H; try discriminate; injection H as <- <-; split; assumption.
  - brk H; try discriminate; injection H as <- <-; cbn [AgP]; intros x1 Hx1;
      (destruct (exec_load_pos _ _ _ _ _ _ _ _ (or_introl eq_refl) Hx1) as [F1 R1] || destruct (exec_load_pos _ _ _ _ _ _ _ _ (or_intror eq_refl) Hx1) as [F1 R1]);
      (assert (A1 : agree (upd c n0 (r_ c) (snaps c) (w_storage c) (write_ics c) (adj_deps c) (w_n0 c)) x1) by (split; cbn [upd n_ r_]; congruence) ||
       assert (A1 : agree (upd c n0 (r_ c) (filter (fun x => negb (x =? n0)) (snaps c)) (w_storage c) (write_ics c) (adj_deps c) (w_n0 c)) x1) by (split; cbn [upd n_ r_]; congruence));
      split; exact A1.
  - brk H; try discriminate; injection H as <- <-; split; assumption.
  - brk H; try discriminate; injection H as <- <-; split; assumption.
  - brk H; try discriminate; injection H as <- <-; cbn [AgP]; intros x1 Hx1;
      (destruct (exec_load_pos _ _ _ _ _ _ _ _ (or_introl eq_refl) Hx1) as [F1 R1] || destruct (exec_load_pos _ _ _ _ _ _ _ _ (or_intror eq_refl) Hx1) as [F1 R1]);
      (assert (A1 : agree (upd c n0 (r_ c) (snaps c) (w_storage c) (write_ics c) (adj_deps c) (w_n0 c)) x1) by (split; cbn [upd n_ r_]; congruence) ||
       assert (A1 : agree (upd c n0 (r_ c) (filter (fun x => negb (x =? n0)) (snaps c)) (w_storage c) (write_ics c) (adj_deps c) (w_n0 c)) x1) by (split; cbn [upd n_ r_]; congruence));
      split; exact A1.
  - brk H; try discriminate; injection H as <- <-; split; assumption.
  - discriminate.
  - unfold bind in H; brk H; try discriminate; injection H as <- <-; split; assumption.
  - brk H; try discriminate; injection H as <- <-; split; assumption.
Qed.

Lemma conv1_clears N L i c c1 l : conv1 N L i c = Ok (c1, l) -> Forall (RevBridge2.rev_clears) l.
Proof.
  unfold conv1. intros H. destruct (nth_error L i) as [o|]; [|discriminate].
  destruct (conv_n0_st o) as [[n0 sg]|e]; [|discriminate]. cbn [bind] in H.
  destruct o; unfold bind in H; brk H; try discriminate; try (injection H as <- <-; repeat constructor).
Qed.

Section RUN.
Variable N R : Z.
Hypothesis HR : 0 <= R.
Variable L : list Ops.op.
Variable kd : rkind. Variable oram odisk : Z.       (* the fields of the object that the run does not depend on *)
Variable T : Z.                                      (* the forward steps of the whole stream *)
Definition sumflen (l : list action) : Z := fold_right (fun a s => MSTerm.flen a + s) 0 l.

Definition rstate (i : nat) (c : cst) (p : list action) : rst := {| ops := L; idx := i; cs := c; pend := p; exhausted := false; finished := false |}.
Definition rdone (i : nat) (c : cst) : rst := {| ops := L; idx := i; cs := c; pend := []; exhausted := true; finished := true |}.

(* what advance does, read off the index-based conversion of the rest of the list; P is any property of the converter
   state that silent steps (ops emitting nothing) preserve *)
Lemma advance_spec (P : cst -> Prop) :
  (forall i c c1, P c -> conv1 N L i c = Ok (c1, []) -> P c1) ->
  forall f i c acts cf, (length L - i < f)%nat -> (i <= length L)%nat -> P c ->
  convI N (length L - i) L i c = (acts, inl cf) ->
  match acts with
  | [] => P cf /\ advance f N (rstate i c []) =
          (if negb (Nat.eqb (length (snaps cf)) 0) then (fin (rstate (length L) cf []), Raise RuntimeError) else (rdone (length L) cf, Yield EndReverse))
  | a :: tl => exists i' c0 c' rest acts', advance f N (rstate i c []) = (rstate i' c' rest, Yield a) /\ (i < i' <= length L)%nat /\
       tl = rest ++ acts' /\ convI N (length L - i') L i' c' = (acts', inl cf) /\ P c0 /\ conv1 N L (i' - 1) c0 = Ok (c', a :: rest)
  end.
Proof.
  intros Hsilent. induction f as [|f IH]; intros i c acts cf Hf Hi HP Hconv; [lia|].
  cbn [advance rstate idx ops cs]. destruct (Nat.ltb_spec i (length L)) as [Hlt|Hge].
  - destruct (length L - i)%nat as [|k] eqn:Ek; [lia|]. cbn [convI] in Hconv.
    destruct (conv1 N L i c) as [[c1 l]|e] eqn:E1; [|discriminate].
    destruct (convI N k L (S i) c1) as [acts1 r1] eqn:E2. injection Hconv as <- ->.
    assert (Hk : k = (length L - S i)%nat) by lia. rewrite Hk in E2.
    destruct l as [|a rest].
    + cbn [app]. specialize (IH (S i) c1 acts1 cf ltac:(lia) ltac:(lia) (Hsilent i c c1 HP E1) E2).
      change {| ops := L; idx := S i; cs := c1; pend := []; exhausted := false; finished := false |} with (rstate (S i) c1 []).
      destruct acts1 as [|a tl]; [exact IH|]. destruct IH as (i' & c0 & c' & rest & acts' & H1 & H2 & H3). exists i', c0, c', rest, acts'. split; [exact H1|]. split; [lia|exact H3].
    + cbn [app]. exists (S i), c, c1, rest, acts1. replace (S i - 1)%nat with i by lia. repeat split; auto.
  - assert (Hi' : i = length L) by lia. subst i. rewrite Nat.sub_diag in Hconv. cbn [convI] in Hconv. injection Hconv as <- <-.
    split; [exact HP|]. reflexivity.
Qed.

Notation pRp := (RevBridge2.pR N R).
Definition Fut (i : nat) (c : cst) (p : list action) (x : RevBlk.xst) (d : Z) : Prop :=
  exists acts cf xf, convI N (length L - i) L i c = (acts, inl cf) /\ RevBlk.execs N R x (p ++ acts) = Some xf /\ d + sumflen (p ++ acts) = T /\
    snaps cf = [] /\ RevBlk.store xf = [] /\ RevBlk.rr xf = N /\ RevBlk.endfwd xf = true.
Definition rsched (r : rst) (stt : bool) : sched := {| ob := ORevF kd N oram odisk r; started := stt |}.
Inductive J : sched -> mon -> Prop :=
 | Jrun i c p x d stt m : (i <= length L)%nat -> mon_ok m -> Rx (toMS d x) (mx m) -> RevBridge2.NN R x -> WD x ->
     AgP N R c x p -> Forall RevBridge2.rev_clears p -> Fut i c p x d -> J (rsched (rstate i c p) stt) m
 | Jdone i c stt m : mon_ok m -> fwd_total (cnt (mx m)) = T -> J (rsched (rdone i c) stt) m.

(* one emitted action against the monitor *)
Lemma emit_ok i' c' rest x d a x1 m (exh : bool) sch' :
  sch' = rsched (if exh then rdone i' c' else rstate i' c' rest) true ->
  mon_ok m -> Rx (toMS d x) (mx m) -> RevBridge2.NN R x -> RevBridge2.rev_clears a -> RevBlk.exec N R x a = Some x1 -> agree c' x1 ->
  exists m', mon_step pRp sch' a m = m' /\ mon_ok m' /\ Rx (toMS (d + MSTerm.flen a) x1) (mx m') /\ RevBridge2.NN R x1.
Proof.
  intros -> Hm HRx HNN Hcl Hex [Af Ar].
  set (sch' := rsched (if exh then rdone i' c' else rstate i' c' rest) true).
  destruct (rev_exec_agrees N R HR d x (mx m) a x1 (is_exhausted sch') HRx HNN Hcl Hex) as (Hchk & HRx' & HNN').
  assert (Hexec : exec pRp (negb (isnone (get_max_n sch'))) (is_exhausted sch') (mx m) a = inl (apply pRp (is_exhausted sch') (mx m) a)) by (apply exec_ok; exact Hchk).
  exists {| mx := apply pRp (is_exhausted sch') (mx m) a; merr_ := None; mcount := mcount m + 1 |}. split; [|split; [|split; [exact HRx'|exact HNN']]].
  - apply (mon_step_ok pRp sch' a m _ Hm Hexec).
    + destruct HRx' as (Rf & _). rewrite Rf. cbn [toMS MSPot.fwd]. rewrite Af. cbn [get_max_n sch' rsched ob isnone andb].
      unfold get_n. cbn [sch' rsched ob]. destruct exh; cbn [cs rdone rstate]; apply Z.eqb_refl.
    + destruct HRx' as (_ & _ & _ & Rr & _). rewrite Rr. cbn [toMS MSPot.rr]. rewrite Ar.
      unfold get_r. cbn [sch' rsched ob]. destruct exh; reflexivity.
    + cbn [get_max_n sch' rsched ob oz_ok]. apply Z.eqb_refl.
  - reflexivity.
Qed.

Lemma execs_cons x a l xf : RevBlk.execs N R x (a :: l) = Some xf -> exists x1, RevBlk.exec N R x a = Some x1 /\ RevBlk.execs N R x1 l = Some xf.
Proof. cbn [RevBlk.execs]. destruct (RevBlk.exec N R x a) as [x1|]; [|discriminate]. intros H. exists x1. auto. Qed.

Lemma J_step sch m : J sch m -> mon_ok m -> good_step pRp J sch m.
Proof.
  intros HJ _. unfold good_step.
  inversion HJ as [i c p x d stt m0 Hi Hm HRx HNN HWD HAg Hcl HFut|i c stt m0 Hm Htot]; subst; clear HJ.
  - destruct p as [|a rest].
    + (* nothing pending: advance *)
      unfold Sched.next, rsched. cbn [ob]. unfold RevConv.next. cbn [rstate finished pend ops idx].
      change {| ops := L; idx := i; cs := c; pend := []; exhausted := false; finished := false |} with (rstate i c []).
      destruct HFut as (acts & cf & xf & Hconv & Hexs & HT & Hsn & Hst & Hrr & Hef). cbn [app] in Hexs, HT. cbn [AgP] in HAg.
      pose proof (advance_spec (fun c => agree c x)
                    (fun i0 c0 c1 HP E => conv1_agree N R L i0 c0 c1 [] x E HP HWD)
                    (S (length L - i)) i c acts cf ltac:(lia) Hi HAg Hconv) as Hadv.
      destruct acts as [|a tl].
      * destruct Hadv as [HPcf Hadv]. rewrite Hadv, Hsn. cbn [length Nat.eqb negb].
        cbn [RevBlk.execs] in Hexs. injection Hexs as <-.
        destruct (rev_endrev_agrees N R HR d x (mx m) HRx HNN Hst Hrr Hef) as [Hchk HRx'].
        set (sch' := {| ob := ORevF kd N oram odisk (rdone (length L) cf); started := true |}).
        assert (Hexec : exec pRp (negb (isnone (get_max_n sch'))) (is_exhausted sch') (mx m) EndReverse = inl (apply pRp true (mx m) EndReverse)) by (apply exec_ok; exact Hchk).
        rewrite (mon_step_ok pRp sch' EndReverse m _ Hm Hexec).
        -- split; [reflexivity|]. apply (Jdone (length L) cf true); [reflexivity|]. cbn [mx]. destruct HRx' as (_ & _ & _ & _ & _ & _ & _ & Rtot). rewrite Rtot. cbn [toMS MSPot.done sumflen fold_right] in *. lia.
        -- destruct HRx' as (Rf & _). rewrite Rf. cbn [toMS MSPot.fwd]. destruct HPcf as [Af Ar]. rewrite Af.
           cbn [get_max_n sch' ob isnone andb]. unfold get_n. cbn [sch' ob cs rdone]. apply Z.eqb_refl.
        -- destruct HRx' as (_ & _ & _ & Rr & _). rewrite Rr. cbn [toMS MSPot.rr]. destruct HPcf as [Af Ar]. rewrite Ar. reflexivity.
        -- cbn [get_max_n sch' ob oz_ok]. apply Z.eqb_refl.
      * destruct Hadv as (i' & c0 & c' & rest & acts' & Hadv & [Hii' Hi'] & Htl & Hconv' & HP0 & Hc1). rewrite Hadv.
        destruct (execs_cons x a tl xf Hexs) as (x1 & Hex1 & Hexs1).
        pose proof (conv1_agree N R L (i' - 1) c0 c' (a :: rest) x Hc1 HP0 HWD) as HAg'. cbn [AgP] in HAg'. destruct (HAg' x1 Hex1) as [HA1 HAr].
        pose proof (conv1_clears N L (i' - 1) c0 c' (a :: rest) Hc1) as Hcl'. apply Forall_cons_iff in Hcl'. destruct Hcl' as [Hcla Hclr]. rewrite Htl in Hexs1, HT.
        destruct (emit_ok i' c' rest x d a x1 m false _ eq_refl Hm HRx HNN Hcla Hex1 HA1) as (m' & Hms & Hm' & HRx' & HNN').
        cbv iota in Hms. unfold rsched in Hms. rewrite Hms. split; [exact Hm'|].
        apply (Jrun i' c' rest x1 (d + MSTerm.flen a) true m' Hi' Hm' HRx' HNN' (exec_WD N R x a x1 Hex1 HWD) HAr Hclr).
        exists acts', cf, xf. unfold sumflen in *. cbn [fold_right] in HT. repeat split; try assumption. lia.
    + (* an action is pending *)
      unfold Sched.next, rsched. cbn [ob]. unfold RevConv.next. cbn [rstate finished pend ops idx cs exhausted].
      change {| ops := L; idx := i; cs := c; pend := rest; exhausted := false; finished := false |} with (rstate i c rest).
      destruct HFut as (acts & cf & xf & Hconv & Hexs & HT & Hfin). cbn [app] in Hexs, HT.
      destruct (execs_cons x a (rest ++ acts) xf Hexs) as (x1 & Hex1 & Hexs1).
      cbn [AgP] in HAg. destruct (HAg x1 Hex1) as [HA1 HAr]. apply Forall_cons_iff in Hcl. destruct Hcl as [Hcla Hclr].
      destruct (emit_ok i c rest x d a x1 m false _ eq_refl Hm HRx HNN Hcla Hex1 HA1) as (m' & Hms & Hm' & HRx' & HNN').
      cbv iota in Hms. unfold rsched in Hms. rewrite Hms. split; [exact Hm'|].
      apply (Jrun i c rest x1 (d + MSTerm.flen a) true m' Hi Hm' HRx' HNN' (exec_WD N R x a x1 Hex1 HWD) HAr Hclr).
      exists acts, cf, xf. unfold sumflen in *. cbn [fold_right] in HT. split; [exact Hconv|]. split; [exact Hexs1|]. split; [lia|exact Hfin].
  - unfold Sched.next, rsched. cbn [ob]. unfold RevConv.next. cbn [rdone finished]. apply (Jdone i c true); assumption.
Qed.
(* ---- termination: the op list is finite ---- *)
Lemma conv1_len i c c1 l : conv1 N L i c = Ok (c1, l) -> (length l <= 2)%nat.
Proof.
  unfold conv1. intros H. destruct (nth_error L i) as [o|]; [|discriminate].
  destruct (conv_n0_st o) as [[n0 sg]|e]; [|discriminate]. cbn [bind] in H.
  destruct o; unfold bind in H; brk H; try discriminate; injection H as <- <-; cbn [length]; lia.
Qed.
Definition muS (sch : sched) : Z :=
  match ob sch with ORevF _ _ _ _ r => if finished r then 0 else 2 * (Z.of_nat (length L) - Z.of_nat (idx r)) + Z.of_nat (length (pend r)) + 1 | _ => 0 end.
Lemma muS_nonneg sch m : J sch m -> is_exhausted sch = false -> 0 <= muS sch.
Proof. intros HJ _. inversion HJ; subst; unfold muS, rsched; cbn [ob rstate rdone finished idx pend]; lia. Qed.
Lemma muS_dec sch m : J sch m -> is_exhausted sch = false -> muS (fst (Sched.next sch)) < muS sch.
Proof.
  intros HJ He. inversion HJ as [i c p x d stt m0 Hi Hm HRx HNN HWD HAg Hcl HFut|i c stt m0 Hm Htot]; subst; [|cbn in He; discriminate].
  unfold Sched.next, rsched. cbn [ob]. unfold RevConv.next. cbn [rstate finished pend ops idx].
  destruct p as [|a rest].
  - change {| ops := L; idx := i; cs := c; pend := []; exhausted := false; finished := false |} with (rstate i c []).
    destruct HFut as (acts & cf & xf & Hconv & Hexs & HT & Hsn & _). cbn [AgP] in HAg.
    pose proof (advance_spec (fun c => agree c x) (fun i0 c0 c1 HP E => conv1_agree N R L i0 c0 c1 [] x E HP HWD)
                  (S (length L - i)) i c acts cf ltac:(lia) Hi HAg Hconv) as Hadv.
    destruct acts as [|a tl].
    + destruct Hadv as [_ Hadv]. rewrite Hadv, Hsn. cbn [length Nat.eqb negb fst]. unfold muS. cbn [ob rdone rstate finished idx pend length]. lia.
    + destruct Hadv as (i' & c0 & c' & rest & acts' & Hadv & [Hii' Hi'] & _ & _ & _ & Hc1). rewrite Hadv. cbn [fst].
      pose proof (conv1_len _ _ _ _ Hc1) as Hl. cbn [length] in Hl.
      unfold muS. cbn [ob rstate finished idx pend length]. lia.
  - cbn [fst]. unfold muS. cbn [ob rstate finished idx pend length]. lia.
Qed.
Lemma exh_stays sch m : J sch m -> is_exhausted sch = true -> is_exhausted (fst (Sched.next sch)) = true.
Proof.
  intros HJ He. inversion HJ as [i c p x d stt m0 Hi Hm HRx HNN HWD HAg Hcl HFut|i c stt m0 Hm Htot]; subst; [cbn in He; discriminate|].
  unfold Sched.next, rsched. cbn [ob]. unfold RevConv.next. cbn [rdone finished fst ob is_exhausted RevConv.exhausted]. reflexivity.
Qed.
End RUN.
