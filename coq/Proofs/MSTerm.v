From Coq Require Import ZArith List Lia Bool.
Require Import Actions MSPot.
Import ListNotations.
Open Scope Z_scope.

Section TERM.
Variable adv : Z -> Z -> Z.
Hypothesis adv_range : forall m k, 2 <= m -> 1 <= k -> 1 <= adv m k <= m - 1.
Hypothesis adv_one : forall m, 2 <= m -> adv m 1 = m - 1.
Variable T : Z -> Z -> Z.
Hypothesis T_1 : forall k, T 1 k = 1.
Hypothesis T_rec : forall m k, 2 <= m -> 1 <= k -> T m k = adv m k + T (m - adv m k) (k - 1) + T (adv m k) k.
Hypothesis T_nonneg : forall m k, 0 <= T m k.
Variable N S_ : Z.
Hypothesis HN : 1 <= N.
Variable label : nat -> storage.
Hypothesis label_cp : forall d, label d = RAM \/ label d = DISK.

Definition flen (a : action) : Z := match a with Forward n0 n1 _ _ _ => n1 - n0 | _ => 0 end.
Lemma exec_done x a x' : exec N x a = Some x' -> done x' = done x + flen a.
Proof.
  destruct a as [n0 n1 wi wa sg|n1 n0 c|n f t|n f t| |]; cbn [exec flen]; intros H.
  - destruct (fwd x); [|discriminate]. destruct (negb _); [discriminate|].
    destruct (is_cp sg).
    + destruct (_ || _); [discriminate|]. injection H as <-. reflexivity.
    + destruct sg; try discriminate. destruct (_ && _); [discriminate|]. injection H as <-. reflexivity.
  - destruct (negb _); [discriminate|]. injection H as <-. cbn. lia.
  - destruct t; try discriminate. destruct (negb _); [discriminate|]. destruct (lookup n (store x)) as [[sg [a0 b0]]|]; [|discriminate].
    destruct (negb _); [discriminate|]. injection H as <-. cbn. lia.
  - destruct t; try discriminate. destruct (negb _); [discriminate|]. destruct (lookup n (store x)) as [[sg [a0 b0]]|]; [|discriminate].
    destruct (negb _); [discriminate|]. injection H as <-. cbn. lia.
  - destruct (negb _); [discriminate|]. injection H as <-. cbn. lia.
  - destruct (negb _); [discriminate|]. injection H as <-. lia.
Qed.

Definition rank (p : pc) : Z :=
  match p with PFwdLoop => 0 | PInner => 1 | PAfterCopy => 2 | PAdj => 2 | PRevHead => 3 | PEndFwd => 4 | PRevAct => 4 | PFwdLast => 5 | PDone => 0 end.
Definition mu (s : st) : Z := 6 * Phi T N S_ s + rank (pcv s).

Lemma segs_nonneg sn next : 0 <= segs T S_ sn next.
Proof. revert next; induction sn as [|p sn IH]; intro next; cbn [segs]; [lia|]. pose proof (T_nonneg (next - p) (S_ - len sn)). specialize (IH p). lia. Qed.
Lemma Phi_nonneg s : 0 <= Phi T N S_ s.
Proof.
  unfold Phi. destruct (pcv s); try (pose proof (segs_nonneg (snaps s) (N - 1)); lia); try lia.
  - pose proof (T_nonneg (N - n_ s) (free S_ s)). pose proof (segs_nonneg (snaps s) (n_ s)). lia.
  - apply segs_nonneg.
  - apply segs_nonneg.
  - pose proof (T_nonneg (N - r_ s - n_ s) (free S_ s)). pose proof (segs_nonneg (snaps s) (n_ s)). lia.
  - pose proof (segs_nonneg (snaps s) (n_ s)). lia.
  - apply segs_nonneg.
Qed.

(* every resumption that yields an action strictly decreases the measure *)
Theorem mu_decreases s x : Inv T N S_ label s x ->
  match resume adv N S_ label s with
  | (s', Act a) => 0 <= mu s' < mu s
  | _ => True
  end.
Proof.
  intros Hinv. pose proof (step_ok adv adv_range adv_one T T_1 T_rec N S_ HN label label_cp s x Hinv) as Hs.
  destruct (resume adv N S_ label s) as [s' [a| |]] eqn:Er; [|exact I|exact I].
  destruct Hs as (x' & Hex & Hinv').
  pose proof (exec_done _ _ _ Hex) as Hd.
  destruct Hinv as (HPhi & Hrr & Hlen & Hr & Hpc). destruct Hinv' as (HPhi' & _).
  assert (HdPhi : Phi T N S_ s' = Phi T N S_ s - flen a) by lia.
  pose proof (Phi_nonneg s'). unfold mu. split; [destruct (pcv s'); cbn [rank]; lia|].
  unfold resume in Er. unfold free, len in *.
  destruct (pcv s) eqn:Epc; cbn [rank].
  all: repeat match type of Er with
       | context [if ?b then _ else _] => destruct b eqn:?
       | context [match snaps ?z with _ => _ end] => destruct (snaps z)
       end; try discriminate; injection Er as <- <-; cbn [pcv mk flen rank] in *; try lia.
  all: repeat match goal with
       | H : (_ <? _) = true |- _ => apply Z.ltb_lt in H
       | H : (_ <? _) = false |- _ => apply Z.ltb_ge in H
       end.
  - pose proof (adv_range (N - n_ s) (S_ - Z.of_nat (length (snaps s))) ltac:(lia) ltac:(lia)). lia.
  - destruct Hpc as (_ & _ & _ & _ & _ & _ & _ & Hn).
    pose proof (adv_range (N - r_ s - n_ s) (S_ - Z.of_nat (length (snaps s)) + 1) ltac:(lia) ltac:(lia)). lia.
  - pose proof (adv_range (N - r_ s - n_ s) (S_ - Z.of_nat (length (snaps s))) ltac:(lia) ltac:(lia)). lia.
Qed.
End TERM.
Print Assumptions mu_decreases.
