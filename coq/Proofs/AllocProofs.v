(* allocate_snapshots / MultistageCheckpointSchedule.__init__: the storage labels of a constructed schedule.
   Every label is RAM or DISK, there are min(ram + disk, N - 1) of them, at most min(ram, N-1) are RAM and at most
   min(disk, N-1) are DISK (C03 budgets as declared, C14 "at most the declared number of units is labelled RAM"). *)
From Coq Require Import ZArith List Lia Bool Permutation.
Require Import Actions NAdvance Multistage.
Import ListNotations.
Open Scope Z_scope.

Lemma bump_length w i : length (bump w i) = length w.
Proof. revert i; induction w as [|x w IH]; intros [|i]; cbn; auto. Qed.
Lemma weigh_length : forall acts d w w' d', weigh acts d w = Ok (w', d') -> length w' = length w.
Proof.
  induction acts as [|o acts IH]; intros d w w' d' H; cbn [weigh] in H.
  - injection H as <- _. reflexivity.
  - destruct o as [a| |e]; [|eauto|discriminate].
    destruct a as [n0 n1 wi wa sg|? ? ?|n s1 s2|n s1 s2| |]; try (eapply IH; eassumption).
    + destruct wi; [|eauto]. destruct (_ >=? _); [discriminate|]. rewrite <- (bump_length w (Z.to_nat (d + 1))). eauto.
    + destruct (d <? 0); [discriminate|]. rewrite <- (bump_length w (Z.to_nat d)). eauto.
    + destruct (d <? 0); [discriminate|]. rewrite <- (bump_length w (Z.to_nat d)). eauto.
Qed.

Lemma ins_perm x l : Permutation (ins x l) (x :: l).
Proof.
  induction l as [|y l IH]; [reflexivity|]. cbn [ins]. destruct (snd y <=? snd x); [reflexivity|].
  rewrite IH. apply perm_swap.
Qed.
Lemma sort_desc_perm l : Permutation (sort_desc l) l.
Proof. induction l as [|x l IH]; [reflexivity|]. cbn [sort_desc fold_right]. fold (sort_desc l). rewrite ins_perm, IH. reflexivity. Qed.

Lemma map_fst_combine {A B} : forall (l : list A) (l' : list B), length l = length l' -> map fst (combine l l') = l.
Proof. induction l as [|x l IH]; intros [|y l'] H; cbn in *; try discriminate; [reflexivity|]. f_equal. apply IH. lia. Qed.
Lemma firstn_incl {A} n : forall (l : list A) x, In x (firstn n l) -> In x l.
Proof. induction n as [|n IH]; intros [|y l] x H; cbn in *; try tauto. destruct H as [->|H]; [left; reflexivity|right; auto]. Qed.
Lemma NoDup_firstn {A} n : forall (l : list A), NoDup l -> NoDup (firstn n l).
Proof.
  induction n as [|n IH]; intros [|x l] H; cbn [firstn]; try constructor.
  - inversion H; subst. intros Hin. apply H2. eapply firstn_incl; exact Hin.
  - inversion H; subst. apply IH. assumption.
Qed.

Section LABELS.
Variable idx : list nat.
Definition g (i : nat) : bool := existsb (Nat.eqb i) idx.
Definition lbl (i : nat) : storage := if g i then RAM else DISK.
Lemma g_In i : g i = true <-> In i idx.
Proof. unfold g. rewrite existsb_exists. split; [intros (x & Hx & E); apply Nat.eqb_eq in E; subst; exact Hx|intros H; exists i; split; [exact H|apply Nat.eqb_refl]]. Qed.
Lemma count_ram_map l : length (filter (st_eqb RAM) (map lbl l)) = length (filter g l).
Proof. induction l as [|i l IH]; [reflexivity|]. cbn [map filter]. unfold lbl at 1. destruct (g i); cbn [st_eqb length]; rewrite IH; reflexivity. Qed.
Lemma count_disk_map l : length (filter (st_eqb DISK) (map lbl l)) = length (filter (fun i => negb (g i)) l).
Proof. induction l as [|i l IH]; [reflexivity|]. cbn [map filter]. unfold lbl at 1. destruct (g i); cbn [st_eqb length negb]; rewrite IH; reflexivity. Qed.
Lemma filter_split l : (length (filter g l) + length (filter (fun i => negb (g i)) l) = length l)%nat.
Proof. induction l as [|i l IH]; [reflexivity|]. cbn [filter]. destruct (g i); cbn [negb length]; lia. Qed.
Lemma count_le_idx l : NoDup l -> (length (filter g l) <= length idx)%nat.
Proof.
  intros Hn. apply NoDup_incl_length; [apply NoDup_filter; exact Hn|].
  intros i Hi. apply filter_In in Hi. apply g_In. tauto.
Qed.
Lemma count_ge_idx l : NoDup idx -> incl idx l -> (length idx <= length (filter g l))%nat.
Proof.
  intros Hn Hincl. apply NoDup_incl_length; [exact Hn|].
  intros i Hi. apply filter_In. split; [apply Hincl; exact Hi|apply g_In; exact Hi].
Qed.
End LABELS.

(* the allocation computed from any weight vector w and RAM count r *)
Definition alloc_labels (w : list Z) (r : nat) : list storage :=
  let idx := map fst (firstn r (sort_desc (combine (seq 0 (length w)) w))) in
  map (fun i => if existsb (Nat.eqb i) idx then RAM else DISK) (seq 0 (length w)).

Lemma alloc_labels_facts w r :
  Forall (fun l => l = RAM \/ l = DISK) (alloc_labels w r) /\
  length (alloc_labels w r) = length w /\
  (length (filter (st_eqb RAM) (alloc_labels w r)) = Nat.min r (length w)) /\
  (length (filter (st_eqb DISK) (alloc_labels w r)) = length w - Nat.min r (length w))%nat.
Proof.
  unfold alloc_labels. set (n := length w). set (srt := sort_desc (combine (seq 0 n) w)). set (idx := map fst (firstn r srt)).
  change (fun i : nat => if existsb (Nat.eqb i) idx then RAM else DISK) with (lbl idx).
  assert (Hsrt : Permutation (map fst srt) (seq 0 n)).
  { unfold srt. rewrite sort_desc_perm. rewrite map_fst_combine; [reflexivity|]. rewrite seq_length. reflexivity. }
  assert (Hnd : NoDup (map fst srt)) by (eapply Permutation_NoDup; [symmetry; exact Hsrt|apply seq_NoDup]).
  assert (Hidx : idx = firstn r (map fst srt)) by (unfold idx; rewrite firstn_map; reflexivity).
  assert (Hndi : NoDup idx) by (rewrite Hidx; apply NoDup_firstn; exact Hnd).
  assert (Hlen : length idx = Nat.min r n).
  { rewrite Hidx, firstn_length. rewrite (Permutation_length Hsrt), seq_length. reflexivity. }
  assert (Hincl : incl idx (seq 0 n)).
  { intros i Hi. rewrite Hidx in Hi. apply (Permutation_in _ Hsrt). revert Hi; generalize (map fst srt) as l0; clear; induction r as [|r IHr]; intros [|y l0] Hi; cbn in *; try tauto; destruct Hi as [->|Hi]; [left; reflexivity|right; eauto]. }
  assert (Hram : length (filter (g idx) (seq 0 n)) = Nat.min r n).
  { pose proof (count_le_idx idx (seq 0 n) (seq_NoDup n 0)). pose proof (count_ge_idx idx (seq 0 n) Hndi Hincl). lia. }
  split; [|split; [|split]].
  - apply Forall_forall. intros l Hl. apply in_map_iff in Hl. destruct Hl as (i & <- & _). unfold lbl. destruct (g idx i); auto.
  - rewrite map_length, seq_length. reflexivity.
  - rewrite count_ram_map. exact Hram.
  - rewrite count_disk_map. pose proof (filter_split idx (seq 0 n)). rewrite seq_length in H. lia.
Qed.

Lemma count_repeat_same s n : count_st s (repeat s n) = Z.of_nat n.
Proof. unfold count_st. induction n as [|n IH]; [reflexivity|]. cbn [repeat filter]. destruct s; cbn [st_eqb length]; lia. Qed.
Lemma count_repeat_other s s' n : s <> s' -> count_st s (repeat s' n) = 0.
Proof. intros H. unfold count_st. induction n as [|n IH]; [reflexivity|]. cbn [repeat filter]. destruct s, s'; cbn [st_eqb length]; try congruence; exact IH. Qed.
Lemma Forall_repeat {A} (P : A -> Prop) x n : P x -> Forall P (repeat x n).
Proof. intros H. induction n; cbn; constructor; auto. Qed.

Theorem construct_labels N ram disk tj c : 1 <= N -> 0 <= ram -> 0 <= disk ->
  construct N ram disk tj = Ok c ->
  max_n c = N /\ tr c = tj /\ Forall (fun l => l = RAM \/ l = DISK) (labels c) /\
  total c = Z.min (Z.min ram (N - 1) + Z.min disk (N - 1)) (N - 1) /\
  count_st RAM (labels c) <= Z.min ram (N - 1) /\ count_st DISK (labels c) <= Z.min disk (N - 1).
Proof.
  intros HN Hram Hdisk. unfold construct. destruct (Z.ltb_spec N 1); [lia|].
  set (ram' := Z.min ram (N - 1)). set (disk' := Z.min disk (N - 1)).
  destruct (Z.eqb_spec ram' 0) as [E0|E0]; [|destruct (Z.eqb_spec disk' 0) as [E1|E1]].
  - intros Hc; injection Hc as <-. cbn [max_n tr labels]. unfold total. cbn [labels]. rewrite repeat_length.
    repeat split; auto.
    + apply Forall_repeat. auto.
    + rewrite E0. lia.
    + rewrite count_repeat_other by discriminate. lia.
    + rewrite count_repeat_same. lia.
  - intros Hc; injection Hc as <-. cbn [max_n tr labels]. unfold total. cbn [labels]. rewrite repeat_length.
    repeat split; auto.
    + apply Forall_repeat. auto.
    + rewrite E1. lia.
    + rewrite count_repeat_same. lia.
    + rewrite count_repeat_other by discriminate. lia.
  - unfold allocate. fold ram' disk'.
    set (sn := Z.min (ram' + disk') (N - 1)).
    destruct (weigh _ (-1) (repeat 0 (Z.to_nat sn))) as [[w d]|e] eqn:Ew; cbn [bind]; [|discriminate].
    intros Hc; injection Hc as <-. cbn [max_n tr labels snd].
    pose proof (weigh_length _ _ _ _ _ Ew) as Hlw. rewrite repeat_length in Hlw.
    change (map _ (seq 0 (length w))) with (alloc_labels w (Z.to_nat ram')).
    destruct (alloc_labels_facts w (Z.to_nat ram')) as (F1 & F2 & F3 & F4).
    unfold total, count_st. cbn [labels]. rewrite F2, F3, F4, Hlw.
    repeat split; auto; try lia.
Qed.
