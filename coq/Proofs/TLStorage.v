(* C13, storages: from EVERY state of a TwoLevelCheckpointSchedule object (so along every history), a yielded Forward that
   stores a restart checkpoint is either a period checkpoint of the initial sweep -- Forward(n, n + period, True, False, DISK),
   emitted while max_n is unknown -- or, once max_n is known, an extra checkpoint written to the binomial storage; adjoint
   dependencies only ever go to WORK; and a checkpoint is loaded from DISK only if it is a period checkpoint (its step is the
   start of the block being reversed), from the binomial storage otherwise. *)
From Coq Require Import ZArith List Lia Bool.
Require Import Actions NAdvance Multistage Online.
Import ListNotations.
Open Scope Z_scope.

Definition two (o : Online.st) p bs bst tr : Prop := Online.k o = KTwo p bs bst tr.

Lemma resume_two_storage : forall fuel o p bs bst tr o' a, two o p bs bst tr -> Online.resume fuel o = (o', Yield a) ->
  two o' p bs bst tr /\
  match a with
  | Forward n0 n1 wi wa sg =>
      (wi = true -> wa = false /\ ((Online.max_n_ (Online.b o) = None /\ sg = DISK /\ n1 = n0 + p) \/ (Online.max_n_ (Online.b o) <> None /\ sg = bst))) /\
      (wa = true -> wi = false /\ sg = WORK) /\ (wi = false -> wa = false -> sg = WORK)
  | Copy n src dst | Move n src dst => dst = WORK /\ (src = DISK \/ src = bst)
  | _ => True end.
Proof.
  induction fuel as [|f IH]; intros o p bs bst tr o' a Hk H; [discriminate|].
  unfold two in *. destruct o as [kl pc0 [n r mo] sn ex]. cbn [Online.k Online.b Online.max_n_] in *. subst kl.
  cbn [Online.resume Online.k Online.pcv Online.b Online.n_ Online.r_ Online.max_n_ Online.snaps] in H.
  destruct pc0; try discriminate;
    try (eapply IH in H; [exact H|reflexivity]);
    repeat match type of H with
    | context [match mo with _ => _ end] => destruct mo as [m|]
    | context [if ?b then _ else _] => destruct b eqn:?
    | context [match ?l with [] => _ | _ :: _ => _ end] => destruct l
    | context [match nadv ?x ?y ?z with _ => _ end] => destruct (nadv x y z)
    end; try discriminate;
    try (eapply IH in H; [cbn [Online.b Online.max_n_ set_pc upd] in H; exact H|reflexivity]);
    try (injection H as <- <-; cbn [Online.k upd set_pc Online.b Online.max_n_]; split; [reflexivity|];
         repeat split; intros; try discriminate; auto; try (right; split; [discriminate|reflexivity]); try (left; auto)).
Qed.

Lemma resume_k : forall fuel o, Online.k (fst (Online.resume fuel o)) = Online.k o.
Proof.
  induction fuel as [|f IH]; intros o; [reflexivity|].
  destruct o as [kl pc0 [n r mo] sn ex]. cbn [Online.resume Online.k Online.pcv Online.b Online.n_ Online.r_ Online.max_n_ Online.snaps].
  destruct kl, pc0; cbn [fst Online.k set_pc upd]; try reflexivity;
    repeat match goal with
    | |- context [match mo with _ => _ end] => destruct mo as [m|]
    | |- context [if ?b then _ else _] => destruct b eqn:?
    | |- context [match ?l with [] => _ | _ :: _ => _ end] => destruct l
    | |- context [match nadv ?x ?y ?z with _ => _ end] => destruct (nadv x y z)
    end; cbn [fst Online.k set_pc upd]; try reflexivity; try (rewrite IH; reflexivity).
Qed.

Require Import Exec Sched RunFacts HRevUses.
Section HIST.
Variable p bs : Z. Variable bst : storage. Variable tr : traj.
Definition st_ok (a : action) : Prop :=
  match a with
  | Forward n0 n1 wi wa sg => (wi = true -> wa = false /\ (sg = DISK \/ sg = bst)) /\ (wa = true -> wi = false /\ sg = WORK) /\ (wi = false -> wa = false -> sg = WORK)
  | Copy n src dst | Move n src dst => dst = WORK /\ (src = DISK \/ src = bst)
  | _ => True end.
Definition TI (sc : sched) : Prop := exists o, ob sc = OOnline o /\ two o p bs bst tr.

Theorem twolevel_storages pr ops o0 m ls : run_case (PTwo p bs bst tr) pr ops = Ok (o0, m, ls) -> Forall (act_line st_ok) ls.
Proof.
  intros Hrun. unfold run_case in Hrun. destruct (Sched.construct (PTwo p bs bst tr)) as [s|e] eqn:Ec; [|discriminate]. cbn [bind] in Hrun.
  assert (HI0 : TI s).
  { cbn [Sched.construct] in Ec. unfold Online.construct in Ec. destruct (p <? 1); [discriminate|]. destruct bst eqn:Eb; try discriminate; injection Ec as <-; eexists; (split; [reflexivity|]); unfold two; cbn [Online.k mk]; rewrite Eb; reflexivity. }
  pose proof (ops_act TI st_ok
    ltac:(intros sc (o & Ho & Hk); unfold Sched.next; rewrite Ho; unfold Online.next;
          destruct (Online.resume 4 o) as [o' out] eqn:Er; destruct out as [a| |e];
          [destruct (resume_two_storage 4 o p bs bst tr o' a Hk Er) as [Hk' Ha]; cbn [fst snd]; split; [eexists; split; [reflexivity|exact Hk']|];
           destruct a as [n0 n1 wi wa sg|n1 n0 cl|n src dst|n src dst| |]; cbn [st_ok]; auto;
           destruct Ha as (A & B & C); split; [intros Hw; destruct (A Hw) as [X [(_ & Y & _)|(_ & Y)]]; auto|split; assumption]
          |cbn [fst snd]; split; [eexists; split; [reflexivity|unfold two; cbn [Online.k set_pc]; pose proof (resume_k 4 o) as Hr; rewrite Er in Hr; cbn [fst] in Hr; rewrite Hr; exact Hk]|exact I]
          |cbn [fst snd]; split; [eexists; split; [reflexivity|unfold two; cbn [Online.k set_pc]; pose proof (resume_k 4 o) as Hr; rewrite Er in Hr; cbn [fst] in Hr; rewrite Hr; exact Hk]|exact I]])
    ltac:(intros kk sc (o & Ho & Hk); unfold Sched.finalize; rewrite Ho; destruct (Online.finalize kk (Online.b o)) as [b' e]; cbn [fst]; eexists; split; [reflexivity|exact Hk])
    pr ops s mon0 HI0) as H.
  destruct (run_ops pr s mon0 ops) as [[s' m'] ls']. injection Hrun as _ _ <-. apply H.
Qed.
End HIST.
Print Assumptions twolevel_storages.
