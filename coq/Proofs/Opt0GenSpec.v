(* get_opt_0_table of hrevolve_sequences/revolve.py as harness/translate.py renders it: opt is a list of rows (Table objects) that only
   grow by append; opt0_shape is the translator's output on the pinned tree; Gen/Opt0Gen.v re-translates the current source on every
   run and proves the result equal to it by conversion.  This file proves opt0_shape equal to RevSeq.get_opt_0_table for every
   mmax >= 0 (for mmax < 0, never called, Python returns the empty list and the model one row). *)
From Coq Require Import ZArith List Bool Lia.
Require Import Actions Ops RevSeq HRevSeq SeqGenSpec.
Require RevBridge5.
Import ListNotations.
Open Scope Z_scope.

(* opt[m].append(v) *)
Fixpoint app_at (opt : list (list Z)) (i : nat) (v : Z) : option (list (list Z)) :=
  match opt, i with
  | [], _ => None
  | r :: rest, O => Some ((r ++ [v]) :: rest)
  | r :: rest, S i' => match app_at rest i' v with Some o => Some (r :: o) | None => None end
  end.
Definition row_append (opt : list (list Z)) (m v : Z) : res (list (list Z)) :=
  if m <? 0 then Err IndexError else match app_at opt (Z.to_nat m) v with Some o => Ok o | None => Err IndexError end.

Definition opt0_shape (lmax mmax uf ub : Z) : res (list (list Z)) :=
  let opt : list (list Z) := repeat [] (Z.to_nat (mmax + 1)) in
  do opt <- range_for 0 (mmax + 1) opt (fun m opt => do opt <- row_append opt m ub; Ok opt); do opt <- range_for 1 (mmax + 1) opt (fun m opt => do opt <- row_append opt m (uf + (2 * ub)); Ok opt); do opt <- (if (mmax >=? 1) then (do opt <- range_for 2 (lmax + 1) opt (fun l opt => do opt <- row_append opt 1 (((l + 1) * ub) + (((l * (l + 1)) / 2) * uf)); Ok opt); Ok opt) else Ok opt); do opt <- range_for 2 (mmax + 1) opt (fun m opt => do opt <- range_for 2 (lmax + 1) opt (fun l opt => do cands_ <- map_res (fun j => do x1_ <- tget opt (m - 1) (l - j); do x2_ <- tget opt m (j - 1); Ok (((j * uf) + x1_) + x2_)) (zrange 1 l); do value <- py_min cands_; do opt <- row_append opt m value; Ok opt); Ok opt); Ok opt.


Lemma app_mid : forall pre r rest v, app_at (pre ++ r :: rest) (length pre) v = Some (pre ++ (r ++ [v]) :: rest).
Proof. induction pre as [|p pre IH]; intros; cbn [app length app_at]; [reflexivity|]. rewrite IH. reflexivity. Qed.
Lemma row_append_mid pre r rest v : row_append (pre ++ r :: rest) (Z.of_nat (length pre)) v = Ok (pre ++ (r ++ [v]) :: rest).
Proof. unfold row_append. destruct (Z.of_nat (length pre) <? 0) eqn:E; [apply Z.ltb_lt in E; lia|]. rewrite Nat2Z.id, app_mid. reflexivity. Qed.
Lemma fill v : forall rows pre, for_ (Z.of_nat (length pre)) (length rows) (pre ++ rows) (fun m opt => do opt <- row_append opt m v; Ok opt) = Ok (pre ++ map (fun r => r ++ [v]) rows).
Proof.
  induction rows as [|r rows IH]; intros pre; cbn [for_ length map]; [reflexivity|].
  rewrite row_append_mid. cbn [bind]. replace (Z.of_nat (length pre) + 1) with (Z.of_nat (length (pre ++ [r ++ [v]]))) by (rewrite app_length; cbn [length]; lia).
  replace (pre ++ (r ++ [v]) :: rows) with ((pre ++ [r ++ [v]]) ++ rows) by (rewrite <- app_assoc; reflexivity).
  rewrite IH, <- app_assoc. reflexivity.
Qed.
Lemma map_rep {A B} (f : A -> B) x n : map f (repeat x n) = repeat (f x) n.
Proof. induction n; cbn; [reflexivity|]. rewrite IHn. reflexivity. Qed.
Definition zr (lo : Z) (cnt : nat) : list Z := map (fun i => lo + Z.of_nat i) (seq 0 cnt).
Lemma zr_S lo c : zr lo (S c) = lo :: zr (lo + 1) c.
Proof.
  unfold zr. cbn [seq map]. f_equal; [lia|]. rewrite <- seq_shift, map_map. apply map_ext. intros i. lia.
Qed.
Lemma row1_loop f : forall cnt lo a r1 rest,
  for_ lo cnt (a :: r1 :: rest) (fun l opt => do opt <- row_append opt 1 (f l); Ok opt) = Ok (a :: (r1 ++ map f (zr lo cnt)) :: rest).
Proof.
  induction cnt as [|c IH]; intros lo a r1 rest; cbn [for_]; [unfold zr; cbn; rewrite app_nil_r; reflexivity|].
  unfold row_append at 1. change (1 <? 0) with false. change (Z.to_nat 1) with 1%nat. cbn [app_at bind]. rewrite IH, zr_S. cbn [map]. rewrite <- app_assoc. reflexivity.
Qed.
Lemma tget_prev pre (prev : list Z) rest i : tget (pre ++ prev :: rest) (Z.of_nat (length pre)) i = lget prev i.
Proof.
  unfold tget, lget. destruct (Z.of_nat (length pre) <? 0) eqn:E; [apply Z.ltb_lt in E; lia|]. cbn [orb].
  rewrite Nat2Z.id, nth_error_app2, Nat.sub_diag by lia. cbn [nth_error]. reflexivity.
Qed.
Lemma tget_row pre (prev row : list Z) rest i : tget (pre ++ prev :: row :: rest) (Z.of_nat (length pre) + 1) i = lget row i.
Proof.
  replace (pre ++ prev :: row :: rest) with ((pre ++ [prev]) ++ row :: rest) by (rewrite <- app_assoc; reflexivity).
  replace (Z.of_nat (length pre) + 1) with (Z.of_nat (length (pre ++ [prev]))) by (rewrite app_length; cbn [length]; lia). apply tget_prev.
Qed.
Lemma map_res_ext {A B} (f g : A -> res B) l : (forall x, f x = g x) -> map_res f l = map_res g l.
Proof. intros H. induction l as [|x l IH]; cbn [map_res]; [reflexivity|]. rewrite H, IH. reflexivity. Qed.

Lemma inner uf : forall cnt l pre prev row rest, 2 <= l ->
  for_ l cnt (pre ++ prev :: row :: rest)
    (fun l opt => do cands_ <- map_res (fun j => do x1_ <- tget opt (Z.of_nat (length pre) + 1 - 1) (l - j); do x2_ <- tget opt (Z.of_nat (length pre) + 1) (j - 1); Ok (j * uf + x1_ + x2_)) (zrange 1 l);
                     do value <- py_min cands_; do opt <- row_append opt (Z.of_nat (length pre) + 1) value; Ok opt)
  = (do r <- row_ext cnt l uf prev row; Ok (pre ++ prev :: r :: rest)).
Proof.
  induction cnt as [|c IH]; intros l pre prev row rest Hl; cbn [for_ row_ext bind]; [reflexivity|].
  rewrite (map_res_ext _ (fun j => do x <- lget prev (l - j); do y <- lget row (j - 1); Ok (j * uf + x + y))).
  2:{ intros j. replace (Z.of_nat (length pre) + 1 - 1) with (Z.of_nat (length pre)) by lia. rewrite tget_prev, tget_row. reflexivity. }
  destruct (map_res _ (zrange 1 l)) as [lm|e] eqn:E; cbn [bind]; [|reflexivity].
  assert (lm <> []).
  { apply RevBridge5.map_res_length in E. unfold zrange in E. rewrite map_length, seq_length in E. intros ->. cbn in E. lia. }
  destruct lm as [|x lm]; [congruence|]. cbn [py_min bind].
  replace (pre ++ prev :: row :: rest) with ((pre ++ [prev]) ++ row :: rest) by (rewrite <- app_assoc; reflexivity).
  replace (Z.of_nat (length pre) + 1) with (Z.of_nat (length (pre ++ [prev]))) at 1 by (rewrite app_length; cbn [length]; lia).
  rewrite row_append_mid. cbn [bind]. rewrite <- app_assoc. cbn [app]. apply IH. lia.
Qed.
Lemma outer_body uf lmax pre prev row rest :
  (do opt <- range_for 2 (lmax + 1) (pre ++ prev :: row :: rest)
      (fun l opt => do cands_ <- map_res (fun j => do x1_ <- tget opt (Z.of_nat (length pre) + 1 - 1) (l - j); do x2_ <- tget opt (Z.of_nat (length pre) + 1) (j - 1); Ok (j * uf + x1_ + x2_)) (zrange 1 l);
                       do value <- py_min cands_; do opt <- row_append opt (Z.of_nat (length pre) + 1) value; Ok opt); Ok opt)
  = (do r <- row_ext (Z.to_nat (lmax - 1)) 2 uf prev row; Ok (pre ++ prev :: r :: rest)).
Proof.
  unfold range_for. replace (lmax + 1 - 2) with (lmax - 1) by lia. rewrite inner by lia.
  destruct (row_ext _ 2 uf prev row); reflexivity.
Qed.
Lemma outer uf lmax : forall cnt pre prev rest, length rest = cnt ->
  for_ (Z.of_nat (length pre) + 1) cnt (pre ++ prev :: rest)
    (fun m opt => do opt <- range_for 2 (lmax + 1) opt (fun l opt => do cands_ <- map_res (fun j => do x1_ <- tget opt (m - 1) (l - j); do x2_ <- tget opt m (j - 1); Ok (j * uf + x1_ + x2_)) (zrange 1 l);
                                                                       do value <- py_min cands_; do opt <- row_append opt m value; Ok opt); Ok opt)
  = (do rs <- rows_from cnt lmax uf prev rest; Ok (pre ++ prev :: rs)).
Proof.
  induction cnt as [|c IH]; intros pre prev rest Hlen; cbn [for_ rows_from bind].
  - destruct rest; [reflexivity|discriminate].
  - destruct rest as [|row rest]; [discriminate|]. rewrite outer_body.
    destruct (row_ext _ 2 uf prev row) as [r|e]; cbn [bind]; [|reflexivity].
    replace (pre ++ prev :: r :: rest) with ((pre ++ [prev]) ++ r :: rest) by (rewrite <- app_assoc; reflexivity).
    replace (Z.of_nat (length pre) + 1 + 1) with (Z.of_nat (length (pre ++ [prev])) + 1) by (rewrite app_length; cbn [length]; lia).
    rewrite IH by (cbn in Hlen; lia). destruct (rows_from c lmax uf r rest) as [rs|e]; cbn [bind]; [|reflexivity]. rewrite <- app_assoc. reflexivity.
Qed.

Theorem opt0_shape_is_model : forall lmax mmax uf ub, 0 <= mmax -> opt0_shape lmax mmax uf ub = RevSeq.get_opt_0_table lmax mmax uf ub.
Proof.
  intros lmax mmax uf ub Hm. destruct (Z.eq_dec mmax 0) as [->|Hne]; [reflexivity|].
  unfold opt0_shape, RevSeq.get_opt_0_table. cbv zeta.
  destruct (mmax <=? 0) eqn:E; [apply Z.leb_le in E; lia|]. destruct (mmax >=? 1) eqn:E1; [|rewrite Z.geb_leb in E1; apply Z.leb_gt in E1; lia].
  remember (Z.to_nat (mmax - 1)) as n' eqn:En'. assert (Hn : Z.to_nat (mmax + 1) = S (S n')) by lia. rewrite Hn.
  (* loop 1 *)
  unfold range_for at 1. replace (Z.to_nat (mmax + 1 - 0)) with (S (S n')) by lia.
  pose proof (fill ub (repeat [] (S (S n'))) []) as H1. rewrite repeat_length in H1. cbn [length app Z.of_nat] in H1. rewrite H1. clear H1. cbn [bind app]. rewrite map_rep. cbn [app].
  (* loop 2 *)
  unfold range_for at 1. replace (Z.to_nat (mmax + 1 - 1)) with (S n') by lia.
  pose proof (fill (uf + 2 * ub) (repeat [ub] (S n')) [[ub]]) as H2. rewrite repeat_length in H2. cbn [length Z.of_nat Pos.of_succ_nat] in H2. change (repeat [ub] (S (S n'))) with ([[ub]] ++ repeat [ub] (S n')). rewrite H2. clear H2. cbn [bind]. rewrite map_rep. cbn [app repeat].
  (* row 1 *)
  unfold range_for at 1. rewrite row1_loop. cbn [bind].
  (* rows 2 .. mmax *)
  unfold range_for at 1. replace (Z.to_nat (mmax + 1 - 2)) with n' by lia.
  pose proof (outer uf lmax n' [[ub]] ([ub; uf + 2 * ub] ++ map (fun l : Z => (l + 1) * ub + l * (l + 1) / 2 * uf) (zr 2 (Z.to_nat (lmax + 1 - 2)))) (repeat [ub; uf + 2 * ub] n') (repeat_length _ _)) as H4.
  cbn [length Z.of_nat Pos.of_succ_nat app] in H4. change (Z.pos 1 + 1) with 2 in H4. cbn [app]. rewrite H4. clear H4.
  change (zr 2 (Z.to_nat (lmax + 1 - 2))) with (zrange 2 (lmax + 1)).
  destruct (rows_from n' lmax uf _ (repeat [ub; uf + 2 * ub] n')); reflexivity.
Qed.
Print Assumptions opt0_shape_is_model.
