(* C09, "each further calculation is an exact repeat of the first": for the multi-pass classes the stream emitted from the head
   of the adjoint loop does not depend on what the previous pass left in n (nor, for TwoLevel, in the emptied snapshot stack):
   two loop-head states of the same object emit the same outcomes for ever. *)
From Coq Require Import ZArith List Lia Bool.
Require Import Actions NAdvance Multistage Online.
Import ListNotations.
Open Scope Z_scope.

Definition n_free (q : pc) : bool := match q with PTOuter | PTBlock _ | PDiskLoop | PMemRev | PFinished => true | _ => false end.
Definition sn_free (q : pc) : bool := match q with PTOuter | PFinished => true | _ => false end.
Definition eqv (s1 s2 : st) : Prop :=
  k s1 = k s2 /\ pcv s1 = pcv s2 /\ r_ (b s1) = r_ (b s2) /\ max_n_ (b s1) = max_n_ (b s2) /\ exh s1 = exh s2 /\
  (n_free (pcv s1) = false -> n_ (b s1) = n_ (b s2)) /\ (sn_free (pcv s1) = false -> snaps s1 = snaps s2).

Ltac brk2 H := repeat match type of H with
  | context [match ?x with _ => _ end] => let E := fresh "E" in destruct x eqn:E
  | context [if ?x then _ else _] => let E := fresh "E" in destruct x eqn:E
  end.

Lemma resume_eqv : forall f s1 s2, eqv s1 s2 ->
  snd (resume f s1) = snd (resume f s2) /\ eqv (fst (resume f s1)) (fst (resume f s2)).
Proof.
  induction f as [|f IH]; intros s1 s2 He; [split; [reflexivity|exact He]|].
  destruct s1 as [k1 q1 [n1 r1 m1] sn1 e1], s2 as [k2 q2 [n2 r2 m2] sn2 e2].
  destruct He as (Hk & Hq & Hr & Hm & Hex & Hn & Hs). cbn [k pcv b r_ max_n_ exh n_ snaps] in *. subst k2 q2 r2 m2 e2.
  destruct q1; cbn [n_free sn_free] in Hn, Hs; try (specialize (Hn eq_refl)); try (specialize (Hs eq_refl)); subst.
  all: cbn [resume k pcv b n_ r_ max_n_ snaps].
  all: destruct k1 as [| |mv|P bs bst tr]; try (split; [reflexivity|repeat split; auto]).
  all: repeat match goal with
       | |- context [match ?x with _ => _ end] => destruct x eqn:?
       | |- context [if ?x then _ else _] => destruct x eqn:?
       end; cbn [fst snd set_pc upd k pcv b n_ r_ max_n_ snaps exh].
  all: try (split; [reflexivity|repeat split; auto; cbn [n_free sn_free]; intros; try discriminate; try reflexivity; try congruence]).
  all: try (apply IH; repeat split; cbn [k pcv b n_ r_ max_n_ snaps exh set_pc upd n_free sn_free]; auto; intros; try discriminate; try congruence).
Qed.

Lemma next_eqv s1 s2 : eqv s1 s2 -> snd (Online.next s1) = snd (Online.next s2) /\ eqv (fst (Online.next s1)) (fst (Online.next s2)).
Proof.
  intros He. unfold Online.next. destruct (resume_eqv 4 s1 s2 He) as [Ho Hs].
  destruct (resume 4 s1) as [t1 o1], (resume 4 s2) as [t2 o2]. cbn [fst snd] in *. subst o2.
  destruct o1; cbn [fst snd]; [auto| |]; (split; [reflexivity|]);
    destruct Hs as (A & B & C & D & E & F & G); repeat split; cbn [set_pc k pcv b exh snaps n_free sn_free]; auto; intros; discriminate.
Qed.

Fixpoint outs (j : nat) (s : st) : list outcome :=
  match j with O => [] | S j' => let '(s', o) := Online.next s in o :: outs j' s' end.
Theorem eqv_same_stream : forall j s1 s2, eqv s1 s2 -> outs j s1 = outs j s2.
Proof.
  induction j as [|j IH]; intros s1 s2 He; [reflexivity|]. cbn [outs].
  destruct (next_eqv s1 s2 He) as [Ho Hs]. destruct (Online.next s1) as [t1 o1], (Online.next s2) as [t2 o2]. cbn [fst snd] in *. subst o2.
  f_equal. apply IH. exact Hs.
Qed.

(* the state right after EndForward and the state right after any EndReverse of a multi-pass object are loop heads of the
   same object: same outcomes from there on, for ever *)
Definition loop_head (s : st) : Prop := r_ (b s) = 0 /\ exh s = false /\ match pcv s with PMemRev | PDiskLoop | PTOuter => True | _ => False end.
Theorem passes_repeat s1 s2 j : loop_head s1 -> loop_head s2 -> k s1 = k s2 -> pcv s1 = pcv s2 -> max_n_ (b s1) = max_n_ (b s2) ->
  (pcv s1 = PTOuter \/ snaps s1 = snaps s2) -> outs j s1 = outs j s2.
Proof.
  intros (R1 & E1 & P1) (R2 & E2 & P2) Hk Hp Hm Hsn. apply eqv_same_stream.
  repeat split; auto; try congruence.
  - destruct (pcv s1); cbn [n_free]; try contradiction; discriminate.
  - destruct Hsn as [Hq|Hq]; [rewrite Hq; discriminate|intros _; exact Hq].
Qed.
(* and EndReverse of a multi-pass object does lead to such a head *)
Lemma after_endreverse s s' : Online.next s = (s', Yield EndReverse) -> exh s' = false ->
  r_ (b s') = 0 /\ match pcv s' with PMemRev | PDiskLoop | PTOuter => True | _ => False end /\ k s' = k s /\ max_n_ (b s') = max_n_ (b s).
Proof.
  unfold Online.next. destruct (resume 4 s) as [t o] eqn:E. destruct o as [a| |]; intros H; try discriminate. injection H as <- ->.
  revert E. generalize 4%nat. intros f. revert s t. induction f as [|f IH]; intros s t E He; [discriminate|].
  destruct s as [k1 q1 [n1 r1 m1] sn1 e1]. cbn [resume k pcv b n_ r_ max_n_ snaps] in E.
  destruct k1 as [| |mv|P bs bst tr]; destruct q1; brk2 E; try discriminate;
    try (injection E as <-; cbn [upd set_pc k pcv b r_ max_n_ exh] in *; try discriminate; repeat split; auto; fail);
    try (apply IH in E; [|exact He]; cbn [set_pc upd k b max_n_] in E; exact E).
Qed.
Print Assumptions passes_repeat.
