From Coq Require Import ZArith List Lia Bool.
Require Import Actions Mixed MixDP TabEq.
Import ListNotations.
Open Scope Z_scope.

(* cache_step around mixed_step_memoization with the dictionary explicit: Model/Mixed.v (cache, find, add, loopM, memoS) *)
(* ---- coherence ---- *)
Definition validk (n s : Z) := 1 <= n /\ Z.min 1 (n - 1) <= s <= n - 1.
Definition Coh (c : cache) := forall n s v, find n s c = Some v -> validk n s /\ v = planC n s.
Definition Ext (c c' : cache) := forall n s v, find n s c = Some v -> find n s c' = Some v.

Lemma Ext_refl c : Ext c c. Proof. intros n s v H; exact H. Qed.
Lemma Ext_trans a b c : Ext a b -> Ext b c -> Ext a c. Proof. intros H1 H2 n s v H. auto. Qed.
Lemma Ext_add n s v c : find n s c = None -> Ext c (add n s v c).
Proof.
  intros Hn n' s' v' H. unfold add. cbn [find].
  destruct (Z.eqb_spec n' n), (Z.eqb_spec s' s); cbn [andb]; try exact H. subst. congruence.
Qed.
Lemma Coh_add n s v c : Coh c -> validk n s -> v = planC n s -> Coh (add n s v c).
Proof.
  intros Hc Hv -> n' s' v' H. unfold add in H. cbn [find] in H.
  destruct (Z.eqb_spec n' n), (Z.eqb_spec s' s); cbn [andb] in H; try (apply Hc; exact H).
  subst. injection H as <-. split; [exact Hv|reflexivity].
Qed.

(* what a call may do to the cache, and what it may return *)
Definition CallOK (call : cache -> Z -> Z -> cache * res plan_t) :=
  forall c n s c' r, Coh c -> call c n s = (c', r) ->
    Coh c' /\ Ext c c' /\ (forall v, r = Ok v -> 1 <= n /\ Z.min 1 (n - 1) <= s /\ v = planC n s).

Lemma loopM_ok call : CallOK call -> forall cnt i n s c m c' r, Coh c -> 2 <= s -> s + 1 < n -> 2 <= i -> i + Z.of_nat cnt <= n ->
  loopM call cnt i n s c m = (c', r) ->
  Coh c' /\ Ext c c' /\ (forall m', r = Ok m' -> m' = accF (fcand n s) cnt i m).
Proof.
  intros Hcall. induction cnt as [|cnt IH]; intros i n s c m c' r Hc Hs Hn Hi Hb H; cbn [loopM] in H.
  - injection H as <- <-. split; [exact Hc|]. split; [apply Ext_refl|]. intros m' E. injection E as <-. reflexivity.
  - destruct (call c i s) as [c1 ra] eqn:E1. destruct (Hcall _ _ _ _ _ Hc E1) as (Hc1 & Hx1 & Hv1).
    destruct ra as [a|e]; [|injection H as <- <-; split; [exact Hc1|]; split; [exact Hx1|discriminate]].
    destruct (call c1 (n - i) (s - 1)) as [c2 rb] eqn:E2. destruct (Hcall _ _ _ _ _ Hc1 E2) as (Hc2 & Hx2 & Hv2).
    destruct rb as [b|e]; [|injection H as <- <-; split; [exact Hc2|]; split; [eapply Ext_trans; eauto|discriminate]].
    destruct (Hv1 a eq_refl) as (_ & _ & ->). destruct (Hv2 b eq_refl) as (_ & _ & ->).
    destruct (IH (i + 1) n s c2 _ c' r Hc2 Hs Hn ltac:(lia) ltac:(lia) H) as (Hc' & Hx' & Hv').
    split; [exact Hc'|]. split; [eapply Ext_trans; [exact Hx1|eapply Ext_trans; eauto]|].
    intros m' E. rewrite (Hv' m' E). cbn [accF]. unfold fcand, C. reflexivity.
Qed.

Theorem memoS_ok : forall fuel, CallOK (memoS fuel).
Proof.
  induction fuel as [|f IH]; intros c n s c' r Hc H; cbn [memoS] in H.
  - injection H as <- <-. split; [exact Hc|]. split; [apply Ext_refl|discriminate].
  - cbn zeta in H. set (s' := Z.min s (n - 1)) in *.
    destruct (find n s' c) as [v|] eqn:Ef.
    + injection H as <- <-. split; [exact Hc|]. split; [apply Ext_refl|].
      intros v' E. injection E as <-. destruct (Hc _ _ _ Ef) as ((Hn1 & Hs1) & ->).
      split; [lia|]. split; [unfold s' in *; lia|]. rewrite (planC_clamp n s). reflexivity.
    + (* miss: run the body *)
      assert (Hfin : forall cb v, Coh cb -> Ext c cb -> 1 <= n -> Z.min 1 (n - 1) <= s' <= n - 1 -> v = planC n s ->
                (add n s' v cb, Ok v) = (c', r) ->
                Coh c' /\ Ext c c' /\ (forall v0, r = Ok v0 -> 1 <= n /\ Z.min 1 (n - 1) <= s /\ v0 = planC n s)).
      { intros cb v Hcb Hxb Hn1 Hs1 Hv E. injection E as <- <-. split; [|split].
        - apply Coh_add; [exact Hcb|split; assumption|]. rewrite Hv. apply planC_clamp.
        - intros n0 s0 v0 H0. destruct (Z.eq_dec n0 n) as [->|]; [destruct (Z.eq_dec s0 s') as [->|]|].
          + rewrite Ef in H0. discriminate.
          + unfold add. cbn [find]. replace ((n =? n) && (s0 =? s')) with false by (symmetry; apply andb_false_iff; right; apply Z.eqb_neq; lia). auto.
          + unfold add. cbn [find]. replace ((n0 =? n) && (s0 =? s')) with false by (symmetry; apply andb_false_iff; left; apply Z.eqb_neq; lia). auto.
        - intros v0 E. injection E as <-. split; [lia|]. split; [unfold s' in *; lia|exact Hv]. }
      destruct (Z.leb_spec n 0).
      { injection H as <- <-. split; [exact Hc|]. split; [apply Ext_refl|discriminate]. }
      destruct ((s' <? Z.min 1 (n - 1)) || (s' >? n - 1)) eqn:Eg.
      { injection H as <- <-. split; [exact Hc|]. split; [apply Ext_refl|discriminate]. }
      apply orb_false_iff in Eg. destruct Eg as [Eg1 Eg2]. apply Z.ltb_ge in Eg1. rewrite Z.gtb_ltb in Eg2. apply Z.ltb_ge in Eg2.
      destruct (Z.eqb_spec n 1) as [->|Hn1].
      { apply (Hfin c (KFR, 1, 1) Hc (Ext_refl c)); try lia; [|exact H]. symmetry. apply planC_1. unfold s' in *. lia. }
      destruct (Z.leb_spec n (s' + 1)).
      { apply (Hfin c (KAdj, 1, n) Hc (Ext_refl c)); try lia; [|exact H].
        assert (Hk : 1 <= s) by (unfold s' in *; lia).
        destruct (planC_unfold n s ltac:(lia) Hk) as [(_ & ->) | [(G & _) | (G & _)]]; [reflexivity|fold s' in G; lia|fold s' in G; lia]. }
      destruct (Z.eqb_spec s' 1) as [Hs1|Hs1].
      { apply (Hfin c (KIcs, n - 1, n * (n + 1) / 2 - 1) Hc (Ext_refl c)); try lia; [|exact H].
        assert (Hk : 1 <= s) by (unfold s' in *; lia).
        destruct (planC_unfold n s ltac:(lia) Hk) as [(G & _) | [(_ & _ & ->) | (_ & G & _)]]; [fold s' in G; lia|reflexivity|fold s' in G; lia]. }
      destruct (loopM (memoS f) (Z.to_nat (n - 2)) 2 n s' c None) as [c1 rm] eqn:El.
      destruct (loopM_ok (memoS f) IH (Z.to_nat (n - 2)) 2 n s' c None c1 rm Hc ltac:(lia) ltac:(lia) ltac:(lia) ltac:(lia) El) as (Hc1 & Hx1 & Hv1).
      destruct rm as [[[[k i] c0]|]|e].
      * destruct (memoS f c1 (n - 1) (s' - 1)) as [c2 ra] eqn:Ea. destruct (IH _ _ _ _ _ Hc1 Ea) as (Hc2 & Hx2 & Hv2).
        destruct ra as [a|e].
        -- destruct (Hv2 a eq_refl) as (_ & _ & ->).
           refine (Hfin c2 _ Hc2 (Ext_trans _ _ _ Hx1 Hx2) _ _ _ H); try lia.
           assert (Hk : 1 <= s) by (unfold s' in *; lia).
           pose proof (planC_loop n s ltac:(lia) Hk) as Hp. cbn zeta in Hp. fold s' in Hp. specialize (Hp ltac:(lia) ltac:(lia)).
           rewrite <- (Hv1 _ eq_refl) in Hp. rewrite Hp. unfold C. reflexivity.
        -- injection H as <- <-. split; [exact Hc2|]. split; [eapply Ext_trans; eauto|discriminate].
      * injection H as <- <-. split; [exact Hc1|]. split; [exact Hx1|discriminate].
      * injection H as <- <-. split; [exact Hc1|]. split; [exact Hx1|discriminate].
Qed.

(* ---- totality: with enough fuel a call with valid arguments succeeds, whatever (coherent) cache it starts from ---- *)
Definition CallTot (bound : Z) (call : cache -> Z -> Z -> cache * res plan_t) :=
  forall c n s c' r, Coh c -> call c n s = (c', r) -> 1 <= n <= bound -> Z.min 1 (n - 1) <= s -> exists v, r = Ok v.
Lemma loopM_total call bound : CallOK call -> CallTot bound call -> forall cnt i n s c m c' r, Coh c -> 2 <= s -> s + 1 < n -> n - 1 <= bound ->
  2 <= i -> i + Z.of_nat cnt <= n ->
  loopM call cnt i n s c m = (c', r) -> exists m', r = Ok m'.
Proof.
  intros Hok Htot. induction cnt as [|cnt IH]; intros i n s c m c' r Hc Hs Hn Hb Hi Hbd H; cbn [loopM] in H.
  - injection H as <- <-. eauto.
  - destruct (call c i s) as [c1 ra] eqn:E1. destruct (Hok _ _ _ _ _ Hc E1) as (Hc1 & _ & _).
    destruct (Htot _ _ _ _ _ Hc E1 ltac:(lia) ltac:(lia)) as (a & ->).
    destruct (call c1 (n - i) (s - 1)) as [c2 rb] eqn:E2. destruct (Hok _ _ _ _ _ Hc1 E2) as (Hc2 & _ & _).
    destruct (Htot _ _ _ _ _ Hc1 E2 ltac:(lia) ltac:(lia)) as (b & ->).
    exact (IH (i + 1) n s c2 _ c' r Hc2 Hs Hn Hb ltac:(lia) ltac:(lia) H).
Qed.
Theorem memoS_total : forall fuel, CallTot (Z.of_nat fuel) (memoS fuel).
Proof.
  induction fuel as [|f IH]; intros c n s c' r Hc H Hn Hs; [lia|].
  cbn [memoS] in H. cbn zeta in H. set (s' := Z.min s (n - 1)) in *.
  destruct (find n s' c) as [v|] eqn:Ef; [injection H as <- <-; eauto|].
  destruct (Z.leb_spec n 0); [lia|].
  destruct ((s' <? Z.min 1 (n - 1)) || (s' >? n - 1)) eqn:Eg.
  { exfalso. apply orb_true_iff in Eg. destruct Eg as [Eg|Eg]; [apply Z.ltb_lt in Eg|rewrite Z.gtb_ltb in Eg; apply Z.ltb_lt in Eg]; unfold s' in *; lia. }
  destruct (Z.eqb_spec n 1); [injection H as <- <-; eauto|].
  destruct (Z.leb_spec n (s' + 1)); [injection H as <- <-; eauto|].
  destruct (Z.eqb_spec s' 1); [injection H as <- <-; eauto|].
  assert (IH' : CallTot (Z.of_nat f) (memoS f)) by exact IH.
  destruct (loopM (memoS f) (Z.to_nat (n - 2)) 2 n s' c None) as [c1 rm] eqn:El.
  destruct (loopM_ok (memoS f) (memoS_ok f) (Z.to_nat (n - 2)) 2 n s' c None c1 rm Hc ltac:(unfold s' in *; lia) ltac:(lia) ltac:(lia) ltac:(lia) El) as (Hc1 & _ & Hv1).
  destruct (loopM_total (memoS f) (Z.of_nat f) (memoS_ok f) IH' (Z.to_nat (n - 2)) 2 n s' c None c1 rm Hc ltac:(unfold s' in *; lia) ltac:(lia) ltac:(lia) ltac:(lia) ltac:(lia) El) as (m' & ->).
  destruct m' as [[[k i] c0]|].
  - destruct (memoS f c1 (n - 1) (s' - 1)) as [c2 ra] eqn:Ea.
    destruct (IH' _ _ _ _ _ Hc1 Ea ltac:(lia) ltac:(unfold s' in *; lia)) as (a & ->).
    injection H as <- <-. eauto.
  - (* the loop ran at least once (n - 2 >= 1), so it cannot have returned None *)
    exfalso. specialize (Hv1 None eq_refl).
    assert (Hne : accF (fcand n s') (Z.to_nat (n - 2)) 2 None <> None) by (apply accF_some; left; lia).
    congruence.
Qed.
(* the planner as the iterator sees it (Model/Mixed.v memo_warm): for every sub-problem it is the canonical plan *)
Theorem memo_warm_planC n0 s0 m k : 1 <= m <= n0 -> Z.min 1 (m - 1) <= k -> memo_warm n0 s0 m k = Ok (planC m k).
Proof.
  intros Hm Hk. unfold memo_warm. set (fuel := Z.to_nat (2 * n0 + 4)).
  destruct (memoS fuel [] n0 s0) as [warm r0] eqn:E0. cbn [fst].
  assert (Hc0 : Coh []) by (intros n s v H; discriminate).
  destruct (memoS_ok fuel [] n0 s0 warm r0 Hc0 E0) as (Hcw & _ & _).
  destruct (memoS fuel warm m k) as [c' r] eqn:E. cbn [snd].
  destruct (memoS_total fuel warm m k c' r Hcw E ltac:(unfold fuel; lia) Hk) as (v & ->).
  destruct (memoS_ok fuel warm m k c' (Ok v) Hcw E) as (_ & _ & Hv). destruct (Hv v eq_refl) as (_ & _ & ->). reflexivity.
Qed.
Print Assumptions memo_warm_planC.

(* ---- history independence: whatever was called before, a successful call returns the pure planner's value,
        and the cache it leaves is again coherent ---- *)
Definition run_calls (fuel : nat) (c : cache) (qs : list (Z * Z)) : cache :=
  fold_left (fun c q => fst (memoS fuel c (fst q) (snd q))) qs c.
Theorem C15_cache_coherent fuel qs : Coh (run_calls fuel [] qs).
Proof.
  unfold run_calls. assert (H0 : Coh []) by (intros n s v H; discriminate).
  revert H0. generalize (@nil ((Z*Z)*plan_t)). induction qs as [|[n s] qs IH]; intros c Hc; cbn [fold_left]; [exact Hc|].
  apply IH. cbn [fst snd]. destruct (memoS fuel c n s) as [c' r] eqn:E. cbn [fst snd]. exact (proj1 (memoS_ok fuel c n s c' r Hc E)).
Qed.
Theorem C15_history_independent fuel qs n s v :
  snd (memoS fuel (run_calls fuel [] qs) n s) = Ok v -> v = planC n s.
Proof.
  intros H. destruct (memoS fuel (run_calls fuel [] qs) n s) as [c' r] eqn:E. cbn [snd] in H. subst r.
  destruct (memoS_ok fuel _ n s c' _ (C15_cache_coherent fuel qs) E) as (_ & _ & Hv). exact (proj2 (proj2 (Hv v eq_refl))).
Qed.
Print Assumptions C15_history_independent.
