From Coq Require Import ZArith List Lia Bool.
Require Import MixDP TabEq.
Import ListNotations.
Open Scope Z_scope.

(* ---- cache_step (mixed.py:212-223) around mixed_step_memoization, with the dictionary explicit ---- *)
Definition cache := list ((Z * Z) * plan_t).
Fixpoint find (n s : Z) (c : cache) : option plan_t :=
  match c with [] => None | ((n', s'), v) :: r => if (n =? n') && (s =? s') then Some v else find n s r end.
Definition add (n s : Z) (v : plan_t) (c : cache) : cache := ((n, s), v) :: c.

(* the for loop of the body, threading the cache; stops at the first exception *)
Fixpoint loopM (call : cache -> Z -> Z -> cache * res plan_t) (cnt : nat) (i n s : Z) (c : cache) (m : option plan_t)
  : cache * res (option plan_t) :=
  match cnt with O => (c, Ok m) | S k =>
    let '(c1, ra) := call c i s in
    match ra with Err e => (c1, Err e) | Ok a =>
    let '(c2, rb) := call c1 (n - i) (s - 1) in
    match rb with Err e => (c2, Err e) | Ok b =>
    let m1 := i + cost a + cost b in
    let m' := match m with None => Some (KIcs, i, m1) | Some (_, _, c0) => if m1 <=? c0 then Some (KIcs, i, m1) else m end in
    loopM call k (i + 1) n s c2 m' end end end.

Fixpoint memoS (fuel : nat) (c : cache) (n s : Z) : cache * res plan_t :=
  match fuel with O => (c, Err OutOfFuel) | S f =>
  let s := Z.min s (n - 1) in                       (* wrapped_fn: "avoid some cache misses" *)
  match find n s c with
  | Some v => (c, Ok v)
  | None =>
    (* fn(n, s) *)
    let '(c', r) :=
      if n <=? 0 then (c, Err ValueError) else
      if (s <? Z.min 1 (n-1)) || (s >? n - 1) then (c, Err ValueError) else
      if n =? 1 then (c, Ok (KFR, 1, 1)) else
      if n <=? s + 1 then (c, Ok (KAdj, 1, n)) else
      if s =? 1 then (c, Ok (KIcs, n - 1, n*(n+1)/2 - 1)) else
      let '(c1, rm) := loopM (memoS f) (Z.to_nat (n - 2)) 2 n s c None in
      match rm with
      | Err e => (c1, Err e)
      | Ok None => (c1, Err RuntimeError)
      | Ok (Some (k, i, c0)) =>
        let '(c2, ra) := memoS f c1 (n - 1) (s - 1) in
        match ra with Err e => (c2, Err e) | Ok a =>
          let m1 := 1 + cost a in
          (c2, Ok (if m1 <? c0 then (KAdj, 1, m1) else (k, i, c0))) end
      end in
    match r with Ok v => (add n s v c', Ok v) | Err e => (c', Err e) end
  end end.

(* ---- coherence ---- *)
Definition validk (n s : Z) := 1 <= n /\ Z.min 1 (n - 1) <= s <= n - 1.
Definition Coh (c : cache) := forall n s v, find n s c = Some v -> validk n s /\ v = planC n s.
Definition Ext (c c' : cache) := forall n s v, find n s c = Some v -> find n s c' = Some v.

Lemma Ext_refl c : Ext c c. Proof. intros n s v H; exact H. Qed.
Lemma Ext_trans a b c : Ext a b -> Ext b c -> Ext a c. Proof. intros H1 H2 n s v H. auto. Qed.
Lemma Ext_add n s v c : find n s c = None -> Ext c (add n s v c).
Proof.
  intros Hn n' s' v' H. unfold add. cbn [find].
  destruct (Z.eqb_spec n' n), (Z.eqb_spec s' s); cbn [andb]; try exact H. subst. congruence.
Qed.
Lemma Coh_add n s v c : Coh c -> validk n s -> v = planC n s -> Coh (add n s v c).
Proof.
  intros Hc Hv -> n' s' v' H. unfold add in H. cbn [find] in H.
  destruct (Z.eqb_spec n' n), (Z.eqb_spec s' s); cbn [andb] in H; try (apply Hc; exact H).
  subst. injection H as <-. split; [exact Hv|reflexivity].
Qed.

(* what a call may do to the cache, and what it may return *)
Definition CallOK (call : cache -> Z -> Z -> cache * res plan_t) :=
  forall c n s c' r, Coh c -> call c n s = (c', r) ->
    Coh c' /\ Ext c c' /\ (forall v, r = Ok v -> 1 <= n /\ Z.min 1 (n - 1) <= s /\ v = planC n s).

Lemma loopM_ok call : CallOK call -> forall cnt i n s c m c' r, Coh c -> 2 <= s -> s + 1 < n -> 2 <= i -> i + Z.of_nat cnt <= n ->
  loopM call cnt i n s c m = (c', r) ->
  Coh c' /\ Ext c c' /\ (forall m', r = Ok m' -> m' = accF (fcand n s) cnt i m).
Proof.
  intros Hcall. induction cnt as [|cnt IH]; intros i n s c m c' r Hc Hs Hn Hi Hb H; cbn [loopM] in H.
  - injection H as <- <-. split; [exact Hc|]. split; [apply Ext_refl|]. intros m' E. injection E as <-. reflexivity.
  - destruct (call c i s) as [c1 ra] eqn:E1. destruct (Hcall _ _ _ _ _ Hc E1) as (Hc1 & Hx1 & Hv1).
    destruct ra as [a|e]; [|injection H as <- <-; split; [exact Hc1|]; split; [exact Hx1|discriminate]].
    destruct (call c1 (n - i) (s - 1)) as [c2 rb] eqn:E2. destruct (Hcall _ _ _ _ _ Hc1 E2) as (Hc2 & Hx2 & Hv2).
    destruct rb as [b|e]; [|injection H as <- <-; split; [exact Hc2|]; split; [eapply Ext_trans; eauto|discriminate]].
    destruct (Hv1 a eq_refl) as (_ & _ & ->). destruct (Hv2 b eq_refl) as (_ & _ & ->).
    destruct (IH (i + 1) n s c2 _ c' r Hc2 Hs Hn ltac:(lia) ltac:(lia) H) as (Hc' & Hx' & Hv').
    split; [exact Hc'|]. split; [eapply Ext_trans; [exact Hx1|eapply Ext_trans; eauto]|].
    intros m' E. rewrite (Hv' m' E). cbn [accF]. unfold fcand, C. reflexivity.
Qed.

Theorem memoS_ok : forall fuel, CallOK (memoS fuel).
Proof.
  induction fuel as [|f IH]; intros c n s c' r Hc H; cbn [memoS] in H.
  - injection H as <- <-. split; [exact Hc|]. split; [apply Ext_refl|discriminate].
  - cbn zeta in H. set (s' := Z.min s (n - 1)) in *.
    destruct (find n s' c) as [v|] eqn:Ef.
    + injection H as <- <-. split; [exact Hc|]. split; [apply Ext_refl|].
      intros v' E. injection E as <-. destruct (Hc _ _ _ Ef) as ((Hn1 & Hs1) & ->).
      split; [lia|]. split; [unfold s' in *; lia|]. rewrite (planC_clamp n s). reflexivity.
    + (* miss: run the body *)
      assert (Hfin : forall cb v, Coh cb -> Ext c cb -> 1 <= n -> Z.min 1 (n - 1) <= s' <= n - 1 -> v = planC n s ->
                (add n s' v cb, Ok v) = (c', r) ->
                Coh c' /\ Ext c c' /\ (forall v0, r = Ok v0 -> 1 <= n /\ Z.min 1 (n - 1) <= s /\ v0 = planC n s)).
      { intros cb v Hcb Hxb Hn1 Hs1 Hv E. injection E as <- <-. split; [|split].
        - apply Coh_add; [exact Hcb|split; assumption|]. rewrite Hv. apply planC_clamp.
        - intros n0 s0 v0 H0. destruct (Z.eq_dec n0 n) as [->|]; [destruct (Z.eq_dec s0 s') as [->|]|].
          + rewrite Ef in H0. discriminate.
          + unfold add. cbn [find]. replace ((n =? n) && (s0 =? s')) with false by (symmetry; apply andb_false_iff; right; apply Z.eqb_neq; lia). auto.
          + unfold add. cbn [find]. replace ((n0 =? n) && (s0 =? s')) with false by (symmetry; apply andb_false_iff; left; apply Z.eqb_neq; lia). auto.
        - intros v0 E. injection E as <-. split; [lia|]. split; [unfold s' in *; lia|exact Hv]. }
      destruct (Z.leb_spec n 0).
      { injection H as <- <-. split; [exact Hc|]. split; [apply Ext_refl|discriminate]. }
      destruct ((s' <? Z.min 1 (n - 1)) || (s' >? n - 1)) eqn:Eg.
      { injection H as <- <-. split; [exact Hc|]. split; [apply Ext_refl|discriminate]. }
      apply orb_false_iff in Eg. destruct Eg as [Eg1 Eg2]. apply Z.ltb_ge in Eg1. rewrite Z.gtb_ltb in Eg2. apply Z.ltb_ge in Eg2.
      destruct (Z.eqb_spec n 1) as [->|Hn1].
      { apply (Hfin c (KFR, 1, 1) Hc (Ext_refl c)); try lia; [|exact H]. symmetry. apply planC_1. unfold s' in *. lia. }
      destruct (Z.leb_spec n (s' + 1)).
      { apply (Hfin c (KAdj, 1, n) Hc (Ext_refl c)); try lia; [|exact H].
        assert (Hk : 1 <= s) by (unfold s' in *; lia).
        destruct (planC_unfold n s ltac:(lia) Hk) as [(_ & ->) | [(G & _) | (G & _)]]; [reflexivity|fold s' in G; lia|fold s' in G; lia]. }
      destruct (Z.eqb_spec s' 1) as [Hs1|Hs1].
      { apply (Hfin c (KIcs, n - 1, n * (n + 1) / 2 - 1) Hc (Ext_refl c)); try lia; [|exact H].
        assert (Hk : 1 <= s) by (unfold s' in *; lia).
        destruct (planC_unfold n s ltac:(lia) Hk) as [(G & _) | [(_ & _ & ->) | (_ & G & _)]]; [fold s' in G; lia|reflexivity|fold s' in G; lia]. }
      destruct (loopM (memoS f) (Z.to_nat (n - 2)) 2 n s' c None) as [c1 rm] eqn:El.
      destruct (loopM_ok (memoS f) IH (Z.to_nat (n - 2)) 2 n s' c None c1 rm Hc ltac:(lia) ltac:(lia) ltac:(lia) ltac:(lia) El) as (Hc1 & Hx1 & Hv1).
      destruct rm as [[[[k i] c0]|]|e].
      * destruct (memoS f c1 (n - 1) (s' - 1)) as [c2 ra] eqn:Ea. destruct (IH _ _ _ _ _ Hc1 Ea) as (Hc2 & Hx2 & Hv2).
        destruct ra as [a|e].
        -- destruct (Hv2 a eq_refl) as (_ & _ & ->).
           refine (Hfin c2 _ Hc2 (Ext_trans _ _ _ Hx1 Hx2) _ _ _ H); try lia.
           assert (Hk : 1 <= s) by (unfold s' in *; lia).
           pose proof (planC_loop n s ltac:(lia) Hk) as Hp. cbn zeta in Hp. fold s' in Hp. specialize (Hp ltac:(lia) ltac:(lia)).
           rewrite <- (Hv1 _ eq_refl) in Hp. rewrite Hp. unfold C. reflexivity.
        -- injection H as <- <-. split; [exact Hc2|]. split; [eapply Ext_trans; eauto|discriminate].
      * injection H as <- <-. split; [exact Hc1|]. split; [exact Hx1|discriminate].
      * injection H as <- <-. split; [exact Hc1|]. split; [exact Hx1|discriminate].
Qed.

(* ---- history independence: whatever was called before, a successful call returns the pure planner's value,
        and the cache it leaves is again coherent ---- *)
Definition run_calls (fuel : nat) (c : cache) (qs : list (Z * Z)) : cache :=
  fold_left (fun c q => fst (memoS fuel c (fst q) (snd q))) qs c.
Theorem C15_cache_coherent fuel qs : Coh (run_calls fuel [] qs).
Proof.
  unfold run_calls. assert (H0 : Coh []) by (intros n s v H; discriminate).
  revert H0. generalize (@nil ((Z*Z)*plan_t)). induction qs as [|[n s] qs IH]; intros c Hc; cbn [fold_left]; [exact Hc|].
  apply IH. cbn [fst snd]. destruct (memoS fuel c n s) as [c' r] eqn:E. cbn [fst snd]. exact (proj1 (memoS_ok fuel c n s c' r Hc E)).
Qed.
Theorem C15_history_independent fuel qs n s v :
  snd (memoS fuel (run_calls fuel [] qs) n s) = Ok v -> v = planC n s.
Proof.
  intros H. destruct (memoS fuel (run_calls fuel [] qs) n s) as [c' r] eqn:E. cbn [snd] in H. subst r.
  destruct (memoS_ok fuel _ n s c' _ (C15_cache_coherent fuel qs) E) as (_ & _ & Hv). exact (proj2 (proj2 (Hv v eq_refl))).
Qed.
Print Assumptions C15_history_independent.
