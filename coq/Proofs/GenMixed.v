(* MixedCheckpointSchedule, model regenerated from source: mixed_prog_model is the program (generator language GenLang5) that
   harness/translate.py produces from MixedCheckpointSchedule._iterator; Gen/MixedGen.v re-translates the current source on every
   run and proves the result equal to this term by conversion.  This file proves that resuming that program request by request
   does, for every planner function and under every history of next() and finalize(k) calls, what the hand-written machine of
   Model/Mixed.v does -- up to the first exception of the latter. *)
From Coq Require Import ZArith List Bool Lia ZifyBool.
Require Import Actions Mixed GenLang5.
Require Online.
Import ListNotations.
Open Scope Z_scope.

Definition mixed_prog_model : stmt :=
  (SSeq SNewSet (SSeq SNewStack (SSeq (SIf BMaxIsNone (SRaise RuntimeError) SSkip) (SSeq SSkip (SSeq (SWhile BTrue (SSeq (SSetK Lstep_type KNone) (SSeq (SWhile (BLt ZN (ZSub ZMax ZR)) (SSeq (SSetZ Ln0 ZN) (SSeq (SSetB Lreuse (BInSet (ZL Ln0))) (SSeq (SPlan Lstep_type (Some Ln1) (ZSub (ZSub ZMax ZR) (ZL Ln0)) (ZAdd (ZSub ZSnaps ZLenStack) (ZInt Lreuse))) (SSeq (SSetZ Ln1 (ZAdd (ZL Ln1) (ZL Ln0))) (SSeq (SIf (BAnd (BV Lreuse) (BOr (BTopNe Lstep_type (ZL Ln0)) (BTopEndLt (ZL Ln1)))) (SRaise RuntimeError) SSkip) (SIf (BKindIs Lstep_type KFR) (SSeq (SIf (BGt (ZL Ln1) (ZAdd (ZL Ln0) (ZC 1))) (SSeq (SSetN (ZSub (ZL Ln1) (ZC 1))) (SYield (AForward (ZL Ln0) (ZSub (ZL Ln1) (ZC 1)) false false (SC WORK)))) (SIf (BLe (ZL Ln1) (ZL Ln0)) (SRaise InvalidForwardStep) SSkip)) (SSeq (SSetN (ZAdd ZN (ZC 1))) (SYield (AForward (ZSub (ZL Ln1) (ZC 1)) (ZL Ln1) false true (SC WORK))))) (SIf (BKindIs Lstep_type KForward) (SSeq (SIf (BLe (ZL Ln1) (ZL Ln0)) (SRaise InvalidForwardStep) SSkip) (SSeq (SSetN (ZL Ln1)) (SYield (AForward (ZL Ln0) (ZL Ln1) false false (SC WORK))))) (SIf (BKindIs Lstep_type KAdj) (SSeq (SIf (BNe (ZL Ln1) (ZAdd (ZL Ln0) (ZC 1))) (SRaise InvalidForwardStep) SSkip) (SSeq (SIf (BV Lreuse) (SRaise RuntimeError) (SIf (BGt ZLenStack (ZSub ZSnaps (ZC 1))) (SRaise RuntimeError) SSkip)) (SSeq (SSetN (ZL Ln1)) (SSeq (SYield (AForward (ZL Ln0) (ZL Ln1) false true SStg)) (SSeq (SSetAdd (ZL Ln0)) (SPush KAdj (ZL Ln0) (ZL Ln1))))))) (SIf (BKindIs Lstep_type KIcs) (SSeq (SIf (BLe (ZL Ln1) (ZAdd (ZL Ln0) (ZC 1))) (SRaise InvalidActionIndex) SSkip) (SSeq (SSetN (ZL Ln1)) (SIf (BV Lreuse) (SYield (AForward (ZL Ln0) (ZL Ln1) false false (SC WORK))) (SSeq (SYield (AForward (ZL Ln0) (ZL Ln1) true false SStg)) (SSeq (SIf (BGt ZLenStack (ZSub ZSnaps (ZC 1))) (SRaise RuntimeError) SSkip) (SSeq (SSetAdd (ZL Ln0)) (SPush KIcs (ZL Ln0) (ZL Ln1)))))))) (SRaise RuntimeError))))))))))) (SSeq (SIf (BNe ZN (ZSub ZMax ZR)) (SRaise RuntimeError) SSkip) (SSeq (SIf (BNot (BKindIn Lstep_type [KNone; KFR])) (SRaise RuntimeError) SSkip) (SSeq (SIf (BEq ZR (ZC 0)) (SYield AEndForward) SSkip) (SSeq (SSetR (ZAdd ZR (ZC 1))) (SSeq (SYield (AReverse (ZAdd (ZSub ZMax ZR) (ZC 1)) (ZSub ZMax ZR) true)) (SSeq (SIf (BEq ZR ZMax) SBreak SSkip) (SSeq (STop Lcp_step_type Lcp_n) (SSeq (SIf (BNot (BKindIn Lcp_step_type [KIcs; KAdj])) (SRaise RuntimeError) SSkip) (SSeq (SPlan Lnext_step_type None (ZSub (ZSub ZMax ZR) (ZL Lcp_n)) (ZAdd (ZSub ZSnaps ZLenStack) (ZC 1))) (SSeq (SSetB Lcp_delete (BKindNe Lcp_step_type Lnext_step_type)) (SSeq (SIf (BV Lcp_delete) (SSeq (SSetRemove (ZL Lcp_n)) SPop) SSkip) (SSeq (SIf (BKindIs Lcp_step_type KIcs) (SSeq (SIf (BGe (ZAdd (ZL Lcp_n) (ZC 1)) (ZSub ZMax ZR)) (SRaise RuntimeError) SSkip) (SSetN (ZL Lcp_n))) (SIf (BKindIs Lcp_step_type KAdj) (SSeq (SIf (BOr (BNot (BV Lcp_delete)) (BNe (ZAdd (ZL Lcp_n) (ZC 1)) (ZSub ZMax ZR))) (SRaise RuntimeError) SSkip) (SSetN (ZAdd (ZL Lcp_n) (ZC 1)))) SSkip)) (SIf (BV Lcp_delete) (SYield (AMove (ZL Lcp_n) SStg (SC WORK))) (SYield (ACopy (ZL Lcp_n) SStg (SC WORK))))))))))))))))))) (SSeq (SIf (BOr (BGt ZLenSet (ZC 0)) (BGt ZLenStack (ZC 0))) (SRaise RuntimeError) SSkip) (SSeq (SSetX true) (SYield AEndReverse)))))))).

Definition outer_body : stmt := Eval cbv in
  match mixed_prog_model with SSeq _ (SSeq _ (SSeq _ (SSeq _ (SSeq (SWhile _ b) _)))) => b | _ => SSkip end.
Definition tail : stmt := Eval cbv in
  match mixed_prog_model with SSeq _ (SSeq _ (SSeq _ (SSeq _ (SSeq _ t)))) => t | _ => SSkip end.
Definition inner_c : bexp := BLt ZN (ZSub ZMax ZR).
Definition inner_body : stmt := Eval cbv in match outer_body with SSeq _ (SSeq (SWhile _ b) _) => b | _ => SSkip end.
Definition after_inner : stmt := Eval cbv in match outer_body with SSeq _ (SSeq _ a) => a | _ => SSkip end.
Definition dorev : stmt := Eval cbv in match after_inner with SSeq _ (SSeq _ (SSeq _ d)) => d | _ => SSkip end.
Definition after_rev : stmt := Eval cbv in match dorev with SSeq _ (SSeq _ a) => a | _ => SSkip end.
Definition fr2 : stmt := SSeq (SSetN (ZAdd ZN (ZC 1))) (SYield (AForward (ZSub (ZL Ln1) (ZC 1)) (ZL Ln1) false true (SC WORK))).
Definition after_adj : stmt := SSeq (SSetAdd (ZL Ln0)) (SPush KAdj (ZL Ln0) (ZL Ln1)).
Definition after_ics : stmt := SSeq (SIf (BGt ZLenStack (ZSub ZSnaps (ZC 1))) (SRaise RuntimeError) SSkip) (SSeq (SSetAdd (ZL Ln0)) (SPush KIcs (ZL Ln0) (ZL Ln1))).
Definition OUT : list frame := [FLoop BTrue outer_body; FS tail].
Definition INN : list frame := FLoop inner_c inner_body :: FS after_inner :: OUT.
Lemma prog_shape : mixed_prog_model =
  SSeq SNewSet (SSeq SNewStack (SSeq (SIf BMaxIsNone (SRaise RuntimeError) SSkip) (SSeq SSkip (SSeq (SWhile BTrue outer_body) tail)))).
Proof. reflexivity. Qed.
Lemma outer_shape : outer_body = SSeq (SSetK Lstep_type KNone) (SSeq (SWhile inner_c inner_body) after_inner).
Proof. reflexivity. Qed.

(* ---- the interpreter, one statement at a time ---- *)
Lemma run_S f c K g : run (S f) c K g =
  match K with
  | [] => (([], g), StopIteration)
  | FLoop t body :: K' =>
      match beval c t g with Err e => (([], g), Raise e) | Ok true => run f c (FS body :: FLoop t body :: K') g | Ok false => run f c K' g end
  | FS s :: K' =>
      match s with
      | SSkip => run f c K' g
      | SSeq a b => run f c (FS a :: FS b :: K') g
      | SIf t a b => match beval c t g with Err e => (([], g), Raise e) | Ok true => run f c (FS a :: K') g | Ok false => run f c (FS b :: K') g end
      | SWhile t body => run f c (FLoop t body :: K') g
      | SBreak => run f c (break_out K') g
      | SSetN e => match zeval c e g with Err e => (([], g), Raise e) | Ok v => run f c K' (set_n g v) end
      | SSetR e => match zeval c e g with Err e => (([], g), Raise e) | Ok v => run f c K' (set_r g v) end
      | SSetZ x e => match zeval c e g with Err e => (([], g), Raise e) | Ok v => run f c K' (set_z g x v) end
      | SSetB x e => match beval c e g with Err e => (([], g), Raise e) | Ok v => run f c K' (set_bl g x v) end
      | SSetK x k => run f c K' (set_k g x k)
      | SSetX v => run f c K' (set_x g v)
      | SNewSet => run f c K' (set_set g [])
      | SNewStack => run f c K' (set_stack g [])
      | SSetAdd e => match zeval c e g with Err e => (([], g), Raise e) | Ok v => run f c K' (set_set g (set_add v (gset g))) end
      | SSetRemove e => match zeval c e g with Err e => (([], g), Raise e) | Ok v =>
            if existsb (Z.eqb v) (gset g) then run f c K' (set_set g (filter (fun x => negb (x =? v)) (gset g))) else (([], g), Raise KeyError) end
      | SPush k a b => match zeval c a g with Err e => (([], g), Raise e) | Ok x => match zeval c b g with Err e => (([], g), Raise e) | Ok y =>
            run f c K' (set_stack g ((k, x, y) :: gstack g)) end end
      | SPop => match gstack g with _ :: r => run f c K' (set_stack g r) | [] => (([], g), Raise IndexError) end
      | STop k n => match gstack g with (k', p, _) :: _ => run f c K' (set_z (set_k g k k') n p) | [] => (([], g), Raise IndexError) end
      | SPlan k n a b => match zeval c a g with Err e => (([], g), Raise e) | Ok x => match zeval c b g with Err e => (([], g), Raise e) | Ok y =>
            match plan c x y with Err e => (([], g), Raise e) | Ok (k', adv, _) =>
              let g1 := set_k g k k' in run f c K' (match n with Some z => set_z g1 z adv | None => g1 end) end end end
      | SYield a => match aeval c a g with Err e => (([], g), Raise e) | Ok act => ((K', g), Yield act) end
      | SRaise e => (([], g), Raise e)
      end
  end.
Proof. reflexivity. Qed.

(* ---- the set snapshot_n and the stack: the set holds exactly the steps n0 of the stack, which are distinct ---- *)
Definition n0of (e : kind * Z * Z) : Z := snd (fst e).
Definition sinv (st : list Z) (sn : list (kind * Z * Z)) : Prop := (forall x, In x st <-> In x (map n0of sn)) /\ NoDup (map n0of sn).
Lemma in_snaps_In x sn : in_snaps x sn = true <-> In x (map n0of sn).
Proof.
  unfold in_snaps. rewrite existsb_exists, in_map_iff. split.
  - intros (e & He & Hx). exists e. apply Z.eqb_eq in Hx. auto.
  - intros (e & Hx & He). exists e. split; [exact He|]. apply Z.eqb_eq. exact Hx.
Qed.
Lemma existsb_In x st : existsb (Z.eqb x) st = true <-> In x st.
Proof. rewrite existsb_exists. split; [intros (y & Hy & E); apply Z.eqb_eq in E; subst; exact Hy|intros H; exists x; split; [exact H|apply Z.eqb_refl]]. Qed.
Lemma sinv_in st sn x : sinv st sn -> existsb (Z.eqb x) st = in_snaps x sn.
Proof.
  intros [H _]. destruct (in_snaps x sn) eqn:E.
  - apply existsb_In, H, in_snaps_In, E.
  - destruct (existsb (Z.eqb x) st) eqn:E2; [|reflexivity]. apply existsb_In, H, in_snaps_In in E2. congruence.
Qed.
Lemma sinv_push k a b st sn : sinv st sn -> in_snaps a sn = false -> sinv (set_add a st) ((k, a, b) :: sn).
Proof.
  intros [H Hnd] Hn. assert (Hna : ~ In a (map n0of sn)) by (intros Hi; apply in_snaps_In in Hi; congruence).
  split; [|cbn [map n0of fst snd]; constructor; assumption].
  intros x. unfold set_add. rewrite (sinv_in st sn a (conj H Hnd)), Hn. cbn [In map n0of fst snd]. rewrite H. tauto.
Qed.
Lemma sinv_pop k cp e st rest : sinv st ((k, cp, e) :: rest) -> sinv (filter (fun x => negb (x =? cp)) st) rest.
Proof.
  intros [H Hnd]. cbn [map n0of fst snd] in *. inversion Hnd as [|? ? Hni Hnd']; subst. split; [|exact Hnd'].
  intros x. rewrite filter_In, H. cbn [In]. rewrite negb_true_iff, Z.eqb_neq. split.
  - intros [[->|Hi] Hne]; [congruence|exact Hi].
  - intros Hi. split; [right; exact Hi|intros ->; contradiction].
Qed.
Lemma sinv_top k cp e st rest : sinv st ((k, cp, e) :: rest) -> existsb (Z.eqb cp) st = true.
Proof. intros [H _]. apply existsb_In, H. left. reflexivity. Qed.
Lemma sinv_nil st : sinv st [] -> st = [].
Proof. intros [H _]. destruct st as [|x st]; [reflexivity|]. exfalso. apply (H x). left. reflexivity. Qed.

Lemma sinv_nil_nil : sinv [] []. Proof. split; [intros x; cbn; tauto|constructor]. Qed.
Ltac arith_opaque := cbv - [Z.add Z.sub Z.mul Z.eqb Z.ltb Z.gtb Z.geb Z.leb len in_snaps existsb filter set_add plan max_n snapshots stg sinv].
Ltac small00 E := cbn [beval zeval bind aeval sveval zget kget bget set_n set_r set_x set_set set_stack set_z set_k set_bl upd_b gb gx gset gstack gz gk gbl
                        Online.n_ Online.r_ Online.max_n_ zloc_eqb kloc_eqb bloc_eqb negb kind_eqb inner_c fst snd orb andb existsb break_out OUT INN] in E.
Ltac small0 E := small00 E; repeat (progress unfold cmp2, zget, kget, bget in E; small00 E).
Ltac small E := small0 E; repeat (progress (repeat match goal with H : ?L ?x = Some _ |- _ => rewrite H in E | H : ?L ?x = None |- _ => rewrite H in E end); small0 E).
Ltac expose E :=
  match type of E with
  | run _ _ (FS ?h :: _) _ = _ => unfold h in E
  end.
Ltac step E := match type of E with run _ _ _ _ = _ => idtac end; repeat expose E; rewrite run_S in E; small E.
Ltac split1 E :=
  match type of E with
  | (if negb ?x then _ else _) = _ => destruct x eqn:?
  | (if ?x then _ else _) = _ => destruct x eqn:?
  | context [match (if ?x then _ else _) with _ => _ end] => destruct x eqn:?
  | context [bind (if ?x then _ else _) _] => destruct x eqn:?
  | context [match plan ?c ?a ?b with _ => _ end] => let k := fresh "k" in destruct (plan c a b) as [[[k ?] ?]|?] eqn:?; [destruct k|]
  end.
Lemma len_cons_gt0 {A} (x : A) l : (len (x :: l) >? 0) = true.
Proof. unfold len. cbn [length]. apply Z.gtb_lt. lia. Qed.
Lemma len_nil_gt0 {A} : (len (@nil A) >? 0) = false. Proof. reflexivity. Qed.
Lemma in_snaps_nil x : in_snaps x [] = false. Proof. reflexivity. Qed.
Ltac decide1 E :=
  match type of E with
  | context [in_snaps ?x []] => rewrite (in_snaps_nil x) in E
  | context [len (?x :: ?l) >? 0] => rewrite (len_cons_gt0 x l) in E
  | context [len [] >? 0] => rewrite len_nil_gt0 in E
  | context [?x =? ?x] => rewrite (Z.eqb_refl x) in E
  | context [existsb (Z.eqb ?cp) ?st] =>
      match goal with
      | H : sinv st ((?k, cp, ?e) :: ?rest) |- _ => rewrite (sinv_top k cp e st rest H) in E
      | H : sinv st ?sn |- _ => rewrite (sinv_in st sn cp H) in E
      end
  end.
Ltac split_list E :=
  match type of E with
  | context [match ?l with [] => _ | _ :: _ => _ end] => is_var l; destruct l as [|[[? ?] ?] ?]
  end;
  try (exfalso; match goal with H : in_snaps _ [] = true |- _ => discriminate H end).
Ltac drive E := repeat (first [decide1 E; small E | split1 E; small E | split_list E; small E | step E]).
Ltac use_hyps := repeat match goal with H : ?t = _ |- context [?t] => lazymatch t with true => fail | false => fail | _ => rewrite H end end.
Ltac fin1 :=
  match goal with
  | |- ?x = ?x => reflexivity
  | |- sinv _ _ => first [assumption | exact sinv_nil_nil | apply sinv_push; assumption | eapply sinv_pop; eassumption]
  | |- _ \/ _ => first [left; repeat split; reflexivity | right; left; repeat split; (reflexivity || assumption) | right; right; repeat split; reflexivity]
  | |- @eq outcome _ _ => first [reflexivity | repeat f_equal; lia]
  | |- @eq Online.base _ _ => first [reflexivity | f_equal; lia]
  | |- @eq (option Z) _ _ => first [reflexivity | assumption | f_equal; lia]
  | |- @eq bool _ _ => first [reflexivity | assumption]
  | _ => assumption
  end.
Ltac fin := repeat match goal with |- _ /\ _ => split end; try fin1.
#[local] Strategy opaque [run].

Section STEP.
Variable c : cfg.

Definition Rk (p : pc) (g : gst) (K : list frame) : Prop :=
  match p with
  | PInner stype => gx g = false /\
      ((K = [FS mixed_prog_model] /\ stype = KNone /\ gstack g = []) \/ (K = INN /\ gk g Lstep_type = Some stype) \/ (K = OUT /\ stype = KNone))
  | PFR2 n1 => gx g = false /\ K = FS fr2 :: INN /\ gz g Ln1 = Some n1 /\ gk g Lstep_type = Some KFR
  | PAfterAdj n0 n1 => gx g = false /\ K = FS after_adj :: INN /\ gz g Ln0 = Some n0 /\ gz g Ln1 = Some n1 /\ gk g Lstep_type = Some KAdj /\ in_snaps n0 (gstack g) = false
  | PAfterIcs n0 n1 => gx g = false /\ K = FS after_ics :: INN /\ gz g Ln0 = Some n0 /\ gz g Ln1 = Some n1 /\ gk g Lstep_type = Some KIcs /\ in_snaps n0 (gstack g) = false
  | PDoRev => gx g = false /\ K = FS dorev :: OUT
  | PAfterRev => gx g = false /\ K = FS after_rev :: OUT
  | PDone => K = []
  end.
Definition good (s : st) (g : gst) (K : list frame) : Prop :=
  gb g = Online.Build_base (n_ s) (r_ s) (Some (max_n c)) /\ gx g = exhausted s /\ gstack g = snaps s /\ sinv (gset g) (snaps s) /\ Rk (pcv s) g K.
Definition FUEL : nat := 150.
Definition step_ok (s : st) (g : gst) (K : list frame) : Prop :=
  (exists e, snd (resume 3 c s) = Raise e) \/
  (snd (run FUEL c K g) = snd (resume 3 c s) /\
   match snd (resume 3 c s) with
   | Yield _ => good (fst (resume 3 c s)) (snd (fst (run FUEL c K g))) (fst (fst (run FUEL c K g)))
   | _ => fst (fst (run FUEL c K g)) = [] /\ gb (snd (fst (run FUEL c K g))) = Online.Build_base (n_ (fst (resume 3 c s))) (r_ (fst (resume 3 c s))) (Some (max_n c)) /\
          gx (snd (fst (run FUEL c K g))) = exhausted (fst (resume 3 c s))
   end).

Ltac prelude :=
  let HR := fresh "HR" in let Hs := fresh "Hs" in
  intros s g K Hpc; destruct s as [pc0 n r sn ex], g as [gb0 gx0 set0 stack0 Z0 K0 B0]; cbn [pcv] in Hpc; subst pc0;
  unfold step_ok, good; cbn [pcv n_ r_ snaps exhausted gb gx gset gstack]; intros (-> & -> & -> & Hs & HR);
  destruct (run FUEL c K {| gb := Online.Build_base n r (Some (max_n c)); gx := ex; gset := set0; gstack := sn; gz := Z0; gk := K0; gbl := B0 |}) as [[K' g'] o] eqn:E; cbn [fst snd];
  unfold FUEL in E; cbn [Rk] in HR; cbn [gb gx gset gstack gz gk gbl] in HR.

Lemma step_PDone : forall s g K, pcv s = PDone -> good s g K -> step_ok s g K.
Proof. prelude. subst K. drive E. injection E as <- <- <-. right. cbn. auto. Qed.
Lemma step_PDoRev : forall s g K, pcv s = PDoRev -> good s g K -> step_ok s g K.
Proof. prelude. destruct HR as [-> ->]. drive E. injection E as <- <- <-. right. arith_opaque. fin. Qed.
Ltac arith_opaque_in H := cbv - [Z.add Z.sub Z.mul Z.eqb Z.ltb Z.gtb Z.geb Z.leb len in_snaps existsb filter set_add plan max_n snapshots stg sinv] in H.
Ltac norm_hyps := repeat match goal with H : _ = true |- _ => progress arith_opaque_in H | H : _ = false |- _ => progress arith_opaque_in H end.
Ltac close0 := arith_opaque; rewrite ?in_snaps_nil; arith_opaque; norm_hyps; use_hyps; arith_opaque; rewrite ?Z.eqb_refl; first [left; eexists; reflexivity | right; fin].
Ltac absurd_bool := match goal with H : _ = true |- _ => cbv in H; discriminate H | H : _ = false |- _ => cbv in H; discriminate H end.
Ltac close := first [solve [close0] | match goal with k : kind |- _ => destruct k; first [absurd_bool | solve [close0]] end].
Lemma step_PFR2 : forall n1 s g K, pcv s = PFR2 n1 -> good s g K -> step_ok s g K.
Proof. intros n1. prelude. destruct HR as (-> & -> & Hn1 & Hk). drive E. injection E as <- <- <-. close. Qed.
Lemma step_PInner : forall stype s g K, pcv s = PInner stype -> good s g K -> step_ok s g K.
Proof. intros stype. prelude. destruct HR as [-> [(-> & -> & ->) | [(-> & Hk) | (-> & ->)]]].
  - drive E. all: injection E as <- <- <-. all: close.
  - drive E. all: injection E as <- <- <-. all: close.
  - drive E. all: injection E as <- <- <-. all: close.
Qed.
Lemma step_PAfterAdj : forall n0 n1 s g K, pcv s = PAfterAdj n0 n1 -> good s g K -> step_ok s g K.
Proof. intros n0 n1. prelude. destruct HR as (-> & -> & Hn0 & Hn1 & Hk & Hni).
  pose proof (sinv_push KAdj n0 n1 _ _ Hs Hni) as Hs'. drive E. all: injection E as <- <- <-. all: close.
Qed.
Lemma step_PAfterIcs : forall n0 n1 s g K, pcv s = PAfterIcs n0 n1 -> good s g K -> step_ok s g K.
Proof. intros n0 n1. prelude. destruct HR as (-> & -> & Hn0 & Hn1 & Hk & Hni).
  pose proof (sinv_push KIcs n0 n1 _ _ Hs Hni) as Hs'. drive E. all: injection E as <- <- <-. all: close.
Qed.
Lemma step_PAfterRev : forall s g K, pcv s = PAfterRev -> good s g K -> step_ok s g K.
Proof. prelude. destruct HR as (-> & ->). destruct sn as [|[[k0 cp] e0] rest].
  - apply sinv_nil in Hs. subst set0. drive E. all: injection E as <- <- <-. all: close.
  - destruct k0; drive E. all: injection E as <- <- <-. all: close.
Qed.

Theorem mixed_step s g K : good s g K -> step_ok s g K.
Proof.
  intros H. destruct (pcv s) eqn:Ep;
    eauto using step_PInner, step_PFR2, step_PAfterAdj, step_PAfterIcs, step_PDoRev, step_PAfterRev, step_PDone.
Qed.
End STEP.

(* ---- every history, against the schedule object of Model/Sched.v (up to its first exception) ---- *)
Require Import Sched.
Require GenMulti GenConv.
Definition gfinalize (k : Z) (g : gst) : gst * option exn := let '(b', e) := Online.finalize k (gb g) in (upd_b g b', e).
Fixpoint grun_ops_f (fuel : nat) (c : cfg) (K : list frame) (g : gst) (hist : list Online.op) : list Online.obs :=
  match hist with
  | [] => []
  | Online.Next :: rest => let '((K', g'), o) := run fuel c K g in
      Online.ONext o (Online.n_ (gb g')) (Online.r_ (gb g')) (Online.max_n_ (gb g')) (gx g') :: grun_ops_f fuel c K' g' rest          (* is_exhausted: `return self._exhausted` *)
  | Online.Fin kk :: rest => let '(g', e) := gfinalize kk g in
      Online.OFin e (Online.n_ (gb g')) (Online.r_ (gb g')) (Online.max_n_ (gb g')) (gx g') :: grun_ops_f fuel c K g' rest
  end.
Definition grun_ops := grun_ops_f FUEL.

(* the planner the iterator reads: the table of mixed_steps_tabulation, or mixed_step_memoization behind its cache *)
Definition planner (n sn : Z) (tab : bool) : res (Z -> Z -> res plan_t) :=
  if tab then (do t <- tabulate n sn; Ok (tget t)) else Ok (memo_warm n sn).
Definition mcfg (n sn : Z) (sg : storage) (f : Z -> Z -> res plan_t) : cfg := {| max_n := n; snapshots := sn; stg := sg; plan := f |}.
Definition hrel (n sn : Z) (sg : storage) (tab : bool) (f : Z -> Z -> res plan_t) (sch : sched) (g : gst) (K : list frame) : Prop :=
  exists popt m fin b, sch = {| ob := OMixed n sn sg tab popt m fin; started := b |} /\
    (popt = Some f \/ (popt = None /\ planner n sn tab = Ok f)) /\
    ((fin = false /\ good (mcfg n sn sg f) m g K) \/
     (fin = true /\ K = [] /\ gb g = Online.Build_base (n_ m) (r_ m) (Some n) /\ gx g = exhausted m)).

Lemma hrel_obs n sn sg tab f sch g K : hrel n sn sg tab f sch g K ->
  gb g = Online.Build_base (Sched.get_n sch) (Sched.get_r sch) (Sched.get_max_n sch) /\ gx g = Sched.is_exhausted sch /\ Sched.get_max_n sch = Some n.
Proof.
  intros (popt & m & fin & b & -> & _ & [(_ & Hb & Hx & _) | (_ & _ & Hb & Hx)]);
    cbn [Sched.get_n Sched.get_r Sched.get_max_n Sched.is_exhausted ob]; cbn [max_n mcfg] in *; auto.
Qed.

Theorem mixed_history n sn sg tab f : forall hist sch g K, hrel n sn sg tab f sch g K ->
  GenConv.raise_free (GenMulti.srun_ops sch hist) -> grun_ops (mcfg n sn sg f) K g hist = GenMulti.srun_ops sch hist.
Proof.
  induction hist as [|h hist IH]; intros sch g K HR Hrf; [reflexivity|].
  assert (Htl : forall sch' x, GenMulti.srun_ops sch (h :: hist) = x :: GenMulti.srun_ops sch' hist -> GenConv.raise_free (GenMulti.srun_ops sch' hist)).
  { intros sch' x Ex o1 n1 r1 m1 x1 Hin. apply (Hrf o1 n1 r1 m1 x1). rewrite Ex. right. exact Hin. }
  destruct h as [|kk]; unfold grun_ops in *; cbn [grun_ops_f GenMulti.srun_ops] in *.
  - destruct HR as (popt & m & fin & b & -> & Hp & HF). cbn [Sched.next ob] in *.
    destruct HF as [(-> & HG) | (-> & -> & Hb & Hx)].
    + assert (Epl : match popt with Some f0 => Ok f0 | None => if tab then (do t <- tabulate n sn; Ok (tget t)) else Ok (memo_warm n sn) end = Ok f).
      { destruct Hp as [-> | [-> Hp]]; [reflexivity|exact Hp]. }
      rewrite Epl in *. fold (mcfg n sn sg f) in *.
      destruct (mixed_step (mcfg n sn sg f) m g K HG) as [[e He] | [Ho HG']].
      * exfalso. destruct (resume 3 (mcfg n sn sg f) m) as [m' o']. cbn [snd] in He. subst o'. exact (Hrf (Raise e) _ _ _ _ (or_introl eq_refl)).
      * destruct (run FUEL (mcfg n sn sg f) K g) as [[K' g'] o] eqn:Er. destruct (resume 3 (mcfg n sn sg f) m) as [m' o'] eqn:En.
        cbn [fst snd] in *. subst o'.
        assert (HR' : hrel n sn sg tab f {| ob := OMixed n sn sg tab (Some f) m' (match o with Yield _ => false | _ => true end); started := true |} g' K').
        { exists (Some f), m', (match o with Yield _ => false | _ => true end), true. split; [reflexivity|]. split; [left; reflexivity|].
          destruct o as [a| |e]; [left; split; [reflexivity|exact HG'] | right | right]; destruct HG' as (HK & Hb & Hx); auto. }
        destruct (hrel_obs _ _ _ _ _ _ _ _ HR') as (Hb & Hx & Hm). rewrite Hb, Hx. cbn [Online.n_ Online.r_ Online.max_n_]. f_equal.
        apply IH; [exact HR'|]. eapply Htl. reflexivity.
    + unfold FUEL. rewrite run_S. rewrite Hb, Hx. cbn [Online.n_ Online.r_ Online.max_n_ Sched.get_n Sched.get_r Sched.get_max_n Sched.is_exhausted ob]. f_equal.
      apply IH; [|eapply Htl; reflexivity]. exists popt, m, true, true. split; [reflexivity|]. split; [exact Hp|]. right. auto.
  - destruct (hrel_obs _ _ _ _ _ _ _ _ HR) as (Hb & Hx & Hm).
    assert (Ef : Sched.finalize kk sch = (sch, snd (Online.finalize kk (gb g))) /\ fst (Online.finalize kk (gb g)) = gb g).
    { destruct HR as (popt & m & fin & b & -> & _). unfold Sched.finalize, Online.finalize. rewrite Hb. cbn [ob Online.n_ Online.r_ Online.max_n_] in *. rewrite Hm.
      destruct (kk <? 1); [split; reflexivity|]. cbn [Sched.get_n ob]. destruct (negb (n_ m =? kk) || negb (n =? kk)); split; reflexivity. }
    destruct Ef as [Ef Eb]. rewrite Ef in *. unfold gfinalize. destruct (Online.finalize kk (gb g)) as [b' e] eqn:Eo. cbn [fst snd] in *. subst b'.
    assert (Eg : upd_b g (gb g) = g) by (destruct g; reflexivity). rewrite Eg. rewrite Hb, Hx. cbn [Online.n_ Online.r_ Online.max_n_]. f_equal.
    apply IH; [exact HR|]. eapply Htl. reflexivity.
Qed.

Definition g_init (n : Z) : gst :=
  {| gb := Online.Build_base 0 0 (Some n); gx := false; gset := []; gstack := []; gz := fun _ => None; gk := fun _ => None; gbl := fun _ => None |}.
Theorem mixed_from_start n s sg tab hist sch : Sched.construct (PMixed n s sg tab) = Ok sch -> GenConv.raise_free (GenMulti.srun_ops sch hist) ->
  exists s', Mixed.construct n s sg = Ok s' /\
    forall f, planner n s' tab = Ok f -> grun_ops (mcfg n s' sg f) [FS mixed_prog_model] (g_init n) hist = GenMulti.srun_ops sch hist.
Proof.
  cbn [Sched.construct]. destruct (Mixed.construct n s sg) as [s'|e]; cbn [bind]; [|discriminate]. intros H Hrf. injection H as <-.
  exists s'. split; [reflexivity|]. intros f Hf. apply (mixed_history n s' sg tab f); [|exact Hrf].
  exists None, (mk (PInner KNone) 0 0 [] false), false, false. split; [reflexivity|]. split; [right; auto|]. left. split; [reflexivity|].
  unfold good, g_init, mk. cbn [pcv n_ r_ snaps exhausted gb gx gset gstack Rk max_n mcfg]. repeat split; auto; try apply sinv_nil_nil. 
Qed.
Print Assumptions mixed_step.
Print Assumptions mixed_from_start.
