(* The memoised Mixed planner, in the shape harness/translate.py reads it out of mixed.py (mixed_step_memoization behind
   cache_step): a generic Python `for i in range(a, b)` loop over an optional running best, the tuple (step type, advance, cost).
   memo_shape_is_model: that shape IS Model/Mixed.v's memo, for every fuel and argument.  Gen/MemoGen.v re-translates the source on
   every run and proves the translation equal to memo_shape by conversion. *)
From Coq Require Import ZArith List Bool.
Require Import Actions Mixed.
Import ListNotations.
Open Scope Z_scope.

(* for i in range(start, start + cnt): m = body i m *)
Fixpoint py_for {A} (cnt : nat) (i : Z) (body : Z -> A -> res A) (m : A) : res A :=
  match cnt with O => Ok m | S c => do m' <- body i m; py_for c (i + 1) body m' end.
Definition cost_of (p : plan_t) : Z := snd p.                       (* x[2] *)
Definition none_or {A} (m : option A) (f : A -> bool) : bool := match m with None => true | Some x => f x end.   (* m is None or f(m) *)

Fixpoint memo_shape (fuel : nat) (n s : Z) : res plan_t :=
  match fuel with O => Err OutOfFuel | S f =>
  let s := Z.min s (n - 1) in
  if n <=? 0 then Err ValueError else
  if (s <? Z.min 1 (n - 1)) || (s >? n - 1) then Err ValueError else
  if n =? 1 then Ok (KFR, 1, 1) else
  if n <=? s + 1 then Ok (KAdj, 1, n) else
  if s =? 1 then Ok (KIcs, n - 1, n * (n + 1) / 2 - 1) else
  do m <- py_for (Z.to_nat (n - 2)) 2
            (fun i m => do m1 <- (do x <- memo_shape f i s; do y <- memo_shape f (n - i) (s - 1); Ok (i + cost_of x + cost_of y));
                        Ok (if none_or m (fun m => m1 <=? cost_of m) then Some (KIcs, i, m1) else m)) None;
  match m with None => Err RuntimeError | Some m =>
  do m1 <- (do x <- memo_shape f (n - 1) (s - 1); Ok (1 + cost_of x));
  Ok (if m1 <? cost_of m then (KAdj, 1, m1) else m) end
  end.

Lemma for_i_py_for f : forall cnt i m,
  for_i cnt i f m = py_for cnt i (fun i m => do m1 <- f i; Ok (if none_or m (fun m => m1 <=? cost_of m) then Some (KIcs, i, m1) else m)) m.
Proof.
  induction cnt as [|c IH]; intros i m; [reflexivity|]. cbn [for_i py_for]. destruct (f i) as [m1|e]; cbn [bind]; [|reflexivity].
  rewrite IH. f_equal. destruct m as [[[k j] c0]|]; reflexivity.
Qed.
Lemma py_for_ext {A} (b1 b2 : Z -> A -> res A) : (forall i m, b1 i m = b2 i m) -> forall cnt i m, py_for cnt i b1 m = py_for cnt i b2 m.
Proof. intros H. induction cnt as [|c IH]; intros i m; [reflexivity|]. cbn [py_for]. rewrite H. destruct (b2 i m); cbn [bind]; [apply IH|reflexivity]. Qed.

Theorem memo_shape_is_model : forall fuel n s, memo_shape fuel n s = memo fuel n s.
Proof.
  induction fuel as [|f IH]; intros n s; [reflexivity|]. cbn [memo_shape memo].
  destruct (n <=? 0); [reflexivity|]. destruct ((Z.min s (n - 1) <? Z.min 1 (n - 1)) || (Z.min s (n - 1) >? n - 1)); [reflexivity|].
  destruct (n =? 1); [reflexivity|]. destruct (n <=? Z.min s (n - 1) + 1); [reflexivity|]. destruct (Z.min s (n - 1) =? 1); [reflexivity|].
  rewrite for_i_py_for.
  rewrite (py_for_ext _ (fun i m => do m1 <- (do a <- memo f i (Z.min s (n - 1)); do b <- memo f (n - i) (Z.min s (n - 1) - 1); Ok (i + snd a + snd b));
                                   Ok (if none_or m (fun m0 => m1 <=? cost_of m0) then Some (KIcs, i, m1) else m))).
  2:{ intros i m. rewrite !IH. reflexivity. }
  destruct (py_for _ _ _ _) as [[[[k i] c0]|]|e]; cbn [bind]; try reflexivity.
  rewrite IH. destruct (memo f (n - 1) (Z.min s (n - 1) - 1)); cbn [bind cost_of snd]; [|reflexivity]. destruct (_ <? _); reflexivity.
Qed.
Print Assumptions memo_shape_is_model.
