(* Revolve, bridge 2: an action accepted by the RAM-only executor of RevBlk.v (budget R) is accepted by the reference
   executor Exec.check with budgets RAM = R, DISK = 0.  Goes through the single-store executor of MSPot.v (all labels RAM),
   whose bridge to Exec is MSBridge.exec_agrees. *)
From Coq Require Import ZArith List Lia Bool.
Require Import Actions Multistage Exec MSBridge.
Require RevBlk MSPot MSTerm.
Import ListNotations.
Open Scope Z_scope.

Section B2.
Variable N R : Z.
Hypothesis HR : 0 <= R.

Definition encM (e : Z * (Z * Z)) : Z * (storage * (Z * Z)) := (fst e, (RAM, snd e)).
Definition toMS (d : Z) (x : RevBlk.xst) : MSPot.xst :=
  {| MSPot.fwd := RevBlk.fwd x; MSPot.wics := RevBlk.wics x; MSPot.wdeps := RevBlk.wdeps x; MSPot.store := map encM (RevBlk.store x);
     MSPot.rr := RevBlk.rr x; MSPot.endfwd := RevBlk.endfwd x; MSPot.done := d |}.
Definition NN (x : RevBlk.xst) : Prop :=
  (forall f, RevBlk.fwd x = Some f -> 0 <= f) /\ (forall a b, RevBlk.wdeps x = Some (a, b) -> 0 <= a) /\
  (forall k v, RevBlk.lookup k (RevBlk.store x) = Some v -> 0 <= k) /\ 0 <= RevBlk.rr x /\ Z.of_nat (length (RevBlk.store x)) <= R.

Lemma lookup_encM st k : MSPot.lookup k (map encM st) = match RevBlk.lookup k st with Some v => Some (RAM, v) | None => None end.
Proof. induction st as [|[k' v] st IH]; [reflexivity|]. cbn [map encM fst snd MSPot.lookup RevBlk.lookup]. destruct (k =? k'); [reflexivity|exact IH]. Qed.
Lemma remove_encM st k : MSPot.remove k (map encM st) = map encM (RevBlk.remove k st).
Proof. induction st as [|[k' v] st IH]; [reflexivity|]. cbn [map encM fst snd MSPot.remove RevBlk.remove]. destruct (k =? k'); [reflexivity|]. cbn [map encM fst snd]. rewrite IH. reflexivity. Qed.
Lemma lookup_remove_some st n k v : RevBlk.lookup k (RevBlk.remove n st) = Some v -> exists v', RevBlk.lookup k st = Some v'.
Proof.
  induction st as [|[k' w] st IH]; [discriminate|]. cbn [RevBlk.remove RevBlk.lookup]. destruct (Z.eqb_spec n k').
  - intros H. destruct (k =? k'); eauto.
  - cbn [RevBlk.lookup]. destruct (k =? k'); eauto.
Qed.

(* the RevBlk executor is the MSPot executor on stores labelled RAM *)
Definition rev_clears (a : action) : Prop := match a with Reverse _ _ cl => cl = true | _ => True end.
Lemma exec_toMS d x a x' : RevBlk.exec N R x a = Some x' -> NN x -> rev_clears a ->
  MSPot.exec N (toMS d x) a = Some (toMS (d + MSTerm.flen a) x') /\ NN x' /\ emitted a.
Proof.
  intros H (NNf & NNd & NNk & NNr & NNl) Hcl.
  destruct a as [n0 n1 wi wa sg|n1 n0 cl|n src dst|n src dst| |]; cbn [RevBlk.exec] in H; cbn [MSPot.exec toMS MSPot.fwd MSPot.rr MSPot.endfwd MSPot.wics MSPot.wdeps MSPot.store MSTerm.flen].
  - destruct sg; try discriminate.
    + (* RAM *)
      destruct (RevBlk.fwd x) as [f|] eqn:Ef; [|discriminate].
      destruct (Z.eqb_spec f n0), (Z.ltb_spec n0 n1), (Z.leb_spec n1 (N - RevBlk.rr x)), (RevBlk.lookup n0 (RevBlk.store x)) eqn:El, wi, wa,
        (Z.ltb_spec (Z.of_nat (length (RevBlk.store x))) R); cbn [andb negb RevBlk.isnone] in H; try discriminate.
      injection H as <-. subst f. cbn [andb negb MSPot.is_cp orb]. rewrite lookup_encM, El. cbn [MSPot.isnone negb orb].
      split; [reflexivity|]. split.
      * unfold NN. cbn [RevBlk.fwd RevBlk.wdeps RevBlk.store RevBlk.rr RevBlk.lookup length]. repeat split; try lia.
        -- intros f Hf; injection Hf as <-. specialize (NNf n0 eq_refl). lia.
        -- intros a b Hd; discriminate.
        -- intros k v. destruct (Z.eqb_spec k n0); [intros _; subst; apply (NNf n0 eq_refl)|apply NNk].
      * cbn. split; [apply (NNf n0 eq_refl)|left; auto].
    + (* WORK *)
      destruct (RevBlk.fwd x) as [f|] eqn:Ef; [|discriminate].
      destruct (Z.eqb_spec f n0), (Z.ltb_spec n0 n1), (Z.leb_spec n1 (N - RevBlk.rr x)), wi; cbn [andb negb] in H; try discriminate.
      destruct (negb wa || (n1 =? n0 + 1) && (n1 =? N - RevBlk.rr x)) eqn:Ew; cbn [negb] in H; [|discriminate].
      injection H as <-. subst f. cbn [andb negb MSPot.is_cp].
      assert (Ew' : wa && negb ((n1 =? n0 + 1) && (n1 =? N - RevBlk.rr x)) = false) by (destruct wa, ((n1 =? n0 + 1) && (n1 =? N - RevBlk.rr x)); cbn in *; congruence).
      rewrite Ew'. split; [reflexivity|]. split.
      * unfold NN. cbn [RevBlk.fwd RevBlk.wdeps RevBlk.store RevBlk.rr]. repeat split; try lia; auto.
        -- intros f Hf; injection Hf as <-. specialize (NNf n0 eq_refl). lia.
        -- intros a b. destruct wa; [intros Hd; injection Hd as <- <-; apply (NNf n0 eq_refl)|discriminate].
      * cbn. split; [apply (NNf n0 eq_refl)|right; auto].
  - destruct (RevBlk.endfwd x), (Z.eqb_spec n1 (N - RevBlk.rr x)), (Z.ltb_spec n0 n1), (RevBlk.covers (RevBlk.wdeps x) n0 n1) eqn:Ec; cbn [andb negb] in H; try discriminate.
    injection H as <-. cbn [andb negb]. change (MSPot.covers (RevBlk.wdeps x) n0 n1) with (RevBlk.covers (RevBlk.wdeps x) n0 n1). rewrite Ec.
    replace (d + 0) with d by lia. cbn [negb]. split; [reflexivity|]. split.
    + unfold NN. cbn [RevBlk.fwd RevBlk.wdeps RevBlk.store RevBlk.rr]. repeat split; auto; try lia. intros; discriminate.
    + cbn. destruct (RevBlk.wdeps x) as [[a b]|] eqn:Ed; [|discriminate]. cbn [RevBlk.covers] in Ec.
      apply andb_true_iff in Ec. destruct Ec as [E1 _]. apply Z.leb_le in E1. specialize (NNd a b eq_refl). split; [lia|].
      exact Hcl.
  - (* Copy *)
    destruct src; try discriminate. destruct dst; try discriminate.
    destruct (RevBlk.endfwd x), (RevBlk.wics x) eqn:Ei, (RevBlk.wdeps x) eqn:Ed; cbn [andb negb RevBlk.isnone] in H; try discriminate.
    destruct (RevBlk.lookup n (RevBlk.store x)) as [[a0 b0]|] eqn:El; [|discriminate].
    destruct (Z.eqb_spec a0 n), (Z.ltb_spec n (N - RevBlk.rr x)), (Z.leb_spec (N - RevBlk.rr x) b0); cbn [andb negb] in H; try discriminate.
    injection H as <-. subst a0. cbn [andb negb MSPot.isnone]. rewrite lookup_encM, El. cbn [MSPot.st_eqb andb].
    destruct (Z.eqb_spec n n); [|lia]. destruct (Z.ltb_spec n (N - RevBlk.rr x)); [|lia]. destruct (Z.leb_spec (N - RevBlk.rr x) b0); [|lia].
    cbn [andb negb]. replace (d + 0) with d by lia. split; [reflexivity|]. split.
    + unfold NN. cbn [RevBlk.fwd RevBlk.wdeps RevBlk.store RevBlk.rr]. repeat split; auto; try lia;
        try (intros f Hf; injection Hf as <-; exact (NNk n _ El)); try (intros; discriminate).
    + cbn. repeat split; auto. exact (NNk n _ El).
  - (* Move *)
    destruct src; try discriminate. destruct dst; try discriminate.
    destruct (RevBlk.endfwd x), (RevBlk.wics x) eqn:Ei, (RevBlk.wdeps x) eqn:Ed; cbn [andb negb RevBlk.isnone] in H; try discriminate.
    destruct (RevBlk.lookup n (RevBlk.store x)) as [[a0 b0]|] eqn:El; [|discriminate].
    destruct (Z.eqb_spec a0 n), (Z.ltb_spec n (N - RevBlk.rr x)), (Z.leb_spec (N - RevBlk.rr x) b0); cbn [andb negb] in H; try discriminate.
    injection H as <-. subst a0. cbn [andb negb MSPot.isnone]. rewrite lookup_encM, El. cbn [MSPot.st_eqb andb].
    destruct (Z.eqb_spec n n); [|lia]. destruct (Z.ltb_spec n (N - RevBlk.rr x)); [|lia]. destruct (Z.leb_spec (N - RevBlk.rr x) b0); [|lia].
    cbn [andb negb]. replace (d + 0) with d by lia. rewrite remove_encM. split; [reflexivity|]. split.
    + unfold NN. cbn [RevBlk.fwd RevBlk.wdeps RevBlk.store RevBlk.rr]. repeat split; auto; try lia;
        try (intros f Hf; injection Hf as <-; exact (NNk n _ El)); try (intros; discriminate).
      * intros k v Hk. destruct (lookup_remove_some _ _ _ _ Hk) as [v' Hv']. exact (NNk k v' Hv').
      * assert (Hle : (length (RevBlk.remove n (RevBlk.store x)) <= length (RevBlk.store x))%nat).
        { clear. induction (RevBlk.store x) as [|[k' w] st IH]; [cbn; lia|]. cbn [RevBlk.remove]. destruct (n =? k'); cbn [length]; lia. }
        lia.
    + cbn. repeat split; auto. exact (NNk n _ El).
  - (* EndForward *)
    destruct (RevBlk.endfwd x) eqn:Ee; cbn [negb andb] in H; [discriminate|].
    destruct (RevBlk.fwd x) as [f|] eqn:Ef; [|discriminate]. destruct (Z.eqb_spec f N); [|discriminate]. injection H as <-.
    cbn [negb andb]. destruct (Z.eqb_spec f N); [|lia]. cbn [negb]. replace (d + 0) with d by lia.
    split; [reflexivity|]. split; [|exact I].
    unfold NN. cbn [RevBlk.fwd RevBlk.wdeps RevBlk.store RevBlk.rr]. repeat split; auto.
  - discriminate.
Qed.
Definition cR : cfg := {| max_n := N; labels := repeat RAM (Z.to_nat R); tr := NAdvance.TMaximum |}.
Definition pR : xparams := pms cR R 0.
Lemma count_ram_R : count_st RAM (labels cR) <= R.
Proof.
  unfold count_st, cR. cbn [labels].
  assert (H : forall k, length (filter (st_eqb RAM) (repeat RAM k)) = k) by (induction k; cbn [repeat filter st_eqb length]; congruence).
  rewrite H. lia.
Qed.
Lemma count_disk_R : count_st DISK (labels cR) <= 0.
Proof. unfold count_st, cR. cbn [labels]. assert (H : forall k, length (filter (st_eqb DISK) (repeat RAM k)) = O) by (induction k; cbn [repeat filter st_eqb]; auto). rewrite H. lia. Qed.
Lemma labelled_enc st : Z.of_nat (length st) <= R -> labelled (labels cR) (map encM st).
Proof.
  intros Hl. unfold labelled, cR. cbn [labels]. rewrite map_length, <- map_rev, map_map. cbn [encM fst snd].
  assert (H1 : forall l : list (Z * (Z * Z)), map (fun _ => RAM) l = repeat RAM (length l)) by (induction l; cbn; congruence).
  rewrite H1, rev_length.
  assert (H2 : forall k n, (k <= n)%nat -> firstn k (repeat RAM n) = repeat RAM k).
  { induction k; intros [|n] Hk; cbn; try lia; auto. rewrite IHk by lia. reflexivity. }
  rewrite H2 by lia. reflexivity.
Qed.

Lemma rev_exec_agrees d x X a x' exh : Rx (toMS d x) X -> NN x -> rev_clears a -> RevBlk.exec N R x a = Some x' ->
  check pR true exh X a = None /\ Rx (toMS (d + MSTerm.flen a) x') (apply pR exh X a) /\ NN x'.
Proof.
  intros HRx HNN Hcl Hex. destruct (exec_toMS d x a x' Hex HNN Hcl) as (Hms & HNN' & Hem).
  destruct (exec_agrees cR R 0 count_ram_R count_disk_R (toMS d x) X a (toMS (d + MSTerm.flen a) x') exh HRx Hem Hms) as [H1 H2].
  - cbn [toMS MSPot.store]. apply labelled_enc. apply HNN'.
  - cbn [toMS MSPot.rr]. apply HNN.
  - intros ->. discriminate Hex.
  - auto.
Qed.
Lemma rev_endrev_agrees d x X : Rx (toMS d x) X -> NN x -> RevBlk.store x = [] -> RevBlk.rr x = N -> RevBlk.endfwd x = true ->
  check pR true true X EndReverse = None /\ Rx (toMS d x) (apply pR true X EndReverse).
Proof.
  intros HRx HNN Hs Hr He.
  apply (exec_agrees cR R 0 count_ram_R count_disk_R (toMS d x) X EndReverse (toMS d x) true HRx I).
  - cbn [MSPot.exec toMS MSPot.endfwd MSPot.rr MSPot.store max_n cR]. rewrite He, Hr, Hs, Z.eqb_refl. reflexivity.
  - cbn [toMS MSPot.store]. apply labelled_enc. apply HNN.
  - cbn [toMS MSPot.rr]. apply HNN.
  - reflexivity.
Qed.
End B2.
