(* C11 for DiskRevolve and PeriodicDiskRevolve: with at least one RAM snapshot both RAM and DISK are reported as used at every
   observation of every history (requests, finalize calls and Run loops in any order), so an action that touches either finds
   it reported.  (snapshots_in_ram = 0 is accepted by the constructor only for max_n = 1.) *)
From Coq Require Import ZArith List Lia Bool.
Require Import Actions Exec Sched RunFacts RevConv ExecBudget.
Import ListNotations.
Open Scope Z_scope.

Theorem disk_touch_uses kd N ram disk uf ub0 wd rd p ops o0 m ls : kd = KDiskRevolve \/ kd = KPeriodic -> 1 <= ram ->
  run_case (PRev kd N ram disk uf ub0 wd rd) p ops = Ok (o0, m, ls) ->
  Forall touch_uses_line ls /\ Forall (fun l => match l with LNext _ ob | LFin _ ob => o_ur ob = UTrue /\ o_ud ob = UTrue end) ls.
Proof.
  intros Hkd Hram Hrun.
  unfold run_case in Hrun. destruct (Sched.construct (PRev kd N ram disk uf ub0 wd rd)) as [s|e] eqn:Ec; [|discriminate]. cbn [bind] in Hrun.
  destruct (run_ops p s mon0 ops) as [[s' m'] ls'] eqn:Er. injection Hrun as _ <- <-.
  set (I := fun sc : sched => exists r, ob sc = ORevF kd N ram disk r).
  assert (HI0 : I s).
  { cbn [Sched.construct] in Ec. destruct (RevConv.construct kd N ram disk uf ub0 wd rd) as [r|]; [|discriminate]. injection Ec as <-. exists r. reflexivity. }
  pose proof (ops_obs I (fun ob => o_ur ob = UTrue /\ o_ud ob = UTrue)
    ltac:(intros sc [r Hr]; unfold Sched.next; rewrite Hr; destruct (RevConv.next N r) as [r' o]; exists r'; reflexivity)
    ltac:(intros kk sc [r Hr]; unfold Sched.finalize; rewrite Hr; exists r; destruct (kk <? 1); [exact Hr|]; cbn [fst]; destruct (get_max_n sc); [destruct (_ || _)|]; exact Hr)
    ltac:(intros sc [r Hr]; unfold observe, uses; cbn [o_ur o_ud]; rewrite Hr; split; [destruct (Z.ltb_spec 0 ram); [reflexivity|lia]|destruct Hkd as [-> | ->]; reflexivity])
    p ops s mon0 HI0) as Hobs.
  rewrite Er in Hobs. destruct Hobs as [_ Hobs]. split.
  - rewrite Forall_forall in *. intros l Hl. specialize (Hobs l Hl).
    destruct l as [o ob0|e ob0]; [|exact Logic.I]. destruct o as [a| |e]; try exact Logic.I. cbn [touch_uses_line obs_line] in *.
    intros sg _. destruct Hobs as [H1 H2]. destruct sg; auto.
  - eapply Forall_impl; [|exact Hobs]. intros [o ob0|e ob0]; cbn [obs_line]; auto.
Qed.
Print Assumptions disk_touch_uses.
