From Coq Require Import ZArith List Lia Bool Arith.
Require Import Actions BinomDef Binom2 NAdvance NAdv GW2 BinomDP MSPot.
Open Scope Z_scope.

Section INST.
Variable tr : traj.
Definition advC (m k : Z) : Z := match n_advance m k tr with NOk a => a | _ => 0 end.
Lemma advC_spec m k : 1 <= m -> 1 <= k -> n_advance m k tr = NOk (advC m k).
Proof. intros Hm Hk. unfold advC. destruct (n_advance_spec m k tr Hm Hk) as (a & -> & _). reflexivity. Qed.
Lemma advC_range m k : 2 <= m -> 1 <= k -> 1 <= advC m k <= m - 1.
Proof.
  intros Hm Hk. destruct (n_advance_spec m k tr ltac:(lia) Hk) as (a & Ha & _ & Hr & _).
  unfold advC. rewrite Ha. apply Hr. lia.
Qed.
Lemma advC_one m : 2 <= m -> advC m 1 = m - 1.
Proof.
  intros Hm. destruct (n_advance_spec m 1 tr ltac:(lia) ltac:(lia)) as (a & Ha & _ & _ & H1 & _).
  unfold advC. rewrite Ha. apply H1; lia.
Qed.

(* forward work of the schedule's own recursion, as a function *)
Fixpoint Tm (fuel : nat) (m k : Z) : Z :=
  match fuel with O => 1 | S f =>
    if m <=? 1 then 1 else let a := advC m k in a + Tm f (m - a) (k - 1) + Tm f a k end.
Definition TC (m k : Z) : Z := Tm (Z.to_nat m) m k.
Lemma Tm_fuel : forall f f' m k, (Z.to_nat m <= f)%nat -> (Z.to_nat m <= f')%nat -> (1 <= k \/ m <= 1) -> Tm f m k = Tm f' m k.
Proof.
  induction f as [|f IH]; intros f' m k Hf Hf' Hk.
  - destruct f' as [|f']; [reflexivity|]. cbn [Tm]. destruct (Z.leb_spec m 1); [reflexivity|lia].
  - destruct f' as [|f']; cbn [Tm]; destruct (Z.leb_spec m 1); try reflexivity; try lia.
    assert (Hk1 : 1 <= k) by lia.
    pose proof (advC_range m k ltac:(lia) ltac:(lia)) as Ha.
    assert (Hsub : 1 <= k - 1 \/ m - advC m k <= 1).
    { destruct (Z.eq_dec k 1) as [->|]; [right; rewrite advC_one by lia; lia|left; lia]. }
    rewrite (IH f' (m - advC m k) (k - 1)) by (try lia; exact Hsub). rewrite (IH f' (advC m k) k) by lia. reflexivity.
Qed.
Lemma TC_1 k : TC 1 k = 1. Proof. reflexivity. Qed.
Lemma TC_rec m k : 2 <= m -> 1 <= k -> TC m k = advC m k + TC (m - advC m k) (k - 1) + TC (advC m k) k.
Proof.
  intros Hm Hk. unfold TC. pose proof (advC_range m k Hm Hk) as Ha.
  destruct (Z.to_nat m) as [|f] eqn:Ef; [lia|]. cbn [Tm]. destruct (Z.leb_spec m 1); [lia|].
  assert (Hsub : 1 <= k - 1 \/ m - advC m k <= 1).
  { destruct (Z.eq_dec k 1) as [->|]; [right; rewrite advC_one by lia; lia|left; lia]. }
  rewrite (Tm_fuel f (Z.to_nat (m - advC m k)) (m - advC m k) (k - 1)) by (try lia; exact Hsub).
  rewrite (Tm_fuel f (Z.to_nat (advC m k)) (advC m k) k) by lia. reflexivity.
Qed.

Lemma advC_nonneg m k : 0 <= advC m k.
Proof.
  unfold advC. destruct (Z.ltb_spec m 1) as [Hm|Hm]; [unfold n_advance; destruct (Z.ltb_spec m 1); [lia|lia]|].
  destruct (Z.leb_spec k 0) as [Hk|Hk].
  - unfold n_advance. destruct (Z.ltb_spec m 1); [lia|]. destruct (Z.leb_spec k 0); [lia|lia].
  - destruct (n_advance_spec m k tr ltac:(lia) ltac:(lia)) as (a & Ha & H0 & Hr & _). rewrite Ha.
    destruct (Z.eq_dec m 1) as [->|]; [lia|]. specialize (Hr ltac:(lia)). lia.
Qed.
Lemma Tm_nonneg : forall f m k, 0 <= Tm f m k.
Proof.
  induction f as [|f IH]; intros m k; cbn [Tm]; [lia|]. destruct (m <=? 1); [lia|].
  pose proof (advC_nonneg m k). pose proof (IH (m - advC m k) (k - 1)). pose proof (IH (advC m k) k). lia.
Qed.
Lemma TC_nonneg m k : 0 <= TC m k. Proof. apply Tm_nonneg. Qed.

(* the schedule's extra steps *)
Definition EhC (m k : Z) : Z := TC m k - m.
Lemma EhC_1 k : EhC 1 k = 0. Proof. reflexivity. Qed.
Lemma EhC_rec n k : 2 <= n -> 1 <= k -> exists a, n_advance n k tr = NOk a /\ EhC n k = a + EhC a k + EhC (n - a) (k - 1).
Proof.
  intros Hn Hk. exists (advC n k). split; [apply advC_spec; lia|]. unfold EhC. rewrite (TC_rec n k Hn Hk). lia.
Qed.

(* ---- C05, the arithmetic chain, with nothing abstract left:
        work of the Multistage recursion = n + DP value = n + closed form ---- *)
Theorem C05_chain n k t : (2 <= n)%nat -> (1 <= k)%nat ->
  betam (Nat.min k (n - 1)) t <= Z.of_nat n <= beta (Nat.min k (n - 1)) t ->
  TC (Z.of_nat n) (Z.of_nat k) = Z.of_nat n + BinomDP.E n k /\
  BinomDP.E n k = line (Nat.min k (n - 1)) t (Z.of_nat n).
Proof.
  intros Hn Hk Hseg.
  destruct (GW_main tr BinomDP.E BinomDP.E_1 BinomDP.E_s1 BinomDP.E_clamp BinomDP.E_dp BinomDP.E_le EhC EhC_1 EhC_rec
              n k t ltac:(lia) Hk Hseg Hn) as [H1 H2].
  split; [unfold EhC in H1; lia|exact H2].
Qed.

(* ---- and the Multistage machine, run with the concrete n_advance, keeps its invariant and spends exactly TC N S forward steps ---- *)
Theorem C05_multistage_step N S label s x :
  1 <= N -> (forall d, label d = RAM \/ label d = DISK) -> MSPot.Inv TC N S label s x ->
  let (s', o) := MSPot.resume advC N S label s in
  match o with
  | MSPot.Act a => exists x', MSPot.exec N x a = Some x' /\ MSPot.Inv TC N S label s' x'
  | MSPot.Stop => MSPot.pcv s = MSPot.PDone
  | MSPot.Raise => False
  end.
Proof.
  intros HN Hl Hinv. exact (MSPot.step_ok advC advC_range advC_one TC TC_1 TC_rec N S HN label Hl s x Hinv).
Qed.
Theorem C05_multistage_total N S label s x :
  MSPot.Inv TC N S label s x -> MSPot.pcv s = MSPot.PDone -> MSPot.done x = TC N S.
Proof. exact (MSPot.done_total TC N S label s x). Qed.
End INST.
Print Assumptions C05_chain.
Print Assumptions C05_multistage_total.
Check MSPot.step_ok.
