(* argmin of hrevolve_sequences/basic_functions.py as harness/translate.py renders it, once, over any element type with its `<=`
   (Python's function is used on lists of numbers and of float costs that may be infinite): argmin_shape is the translator's output
   on the pinned tree; Gen/ArgminGen.v re-translates the current source on every run and proves the result equal to it by conversion.
   This file proves its two instances equal to RevSeq.argmin and HRevSeq.argmin (IndexError on the empty list: `list[0]`). *)
From Coq Require Import ZArith List Bool Lia.
Require Import Actions Ops RevSeq HRevSeq SeqGenSpec HSeqGenSpec.
Import ListNotations.
Open Scope Z_scope.

Section ARGMIN.
Variable A : Type.
Variable le : A -> A -> bool.
(* list[i] *)
Definition geti (l : list A) (i : Z) : res A :=
  if i <? 0 then Err IndexError else match nth_error l (Z.to_nat i) with Some v => Ok v | None => Err IndexError end.

Definition argmin_shape (list : list A) : res Z :=
  let index := 0 in do m <- geti list 0; do st_ <- for_ 0 (length list) (index, m) (fun i st_ => let index := fst st_ in let m := snd st_ in do x1_ <- geti list i; if le x1_ m then (let index := i in do x2_ <- geti list i; let m := x2_ in Ok (index, m)) else (Ok (index, m))); let index := fst st_ in let m := snd st_ in Ok (1 + index).

Fixpoint scan (l : list A) (i best : Z) (m : A) : Z * A :=
  match l with [] => (best, m) | x :: r => if le x m then scan r (i + 1) i x else scan r (i + 1) best m end.
Lemma geti_mid pre y suf : geti (pre ++ y :: suf) (Z.of_nat (length pre)) = Ok y.
Proof.
  unfold geti. destruct (Z.of_nat (length pre) <? 0) eqn:E; [apply Z.ltb_lt in E; lia|].
  rewrite Nat2Z.id, nth_error_app2, Nat.sub_diag by lia. reflexivity.
Qed.
Lemma loop_scan : forall suf pre best m,
  for_ (Z.of_nat (length pre)) (length suf) (best, m)
    (fun i st_ => let index := fst st_ in let m := snd st_ in do x1_ <- geti (pre ++ suf) i;
                  if le x1_ m then (let index := i in do x2_ <- geti (pre ++ suf) i; let m := x2_ in Ok (index, m)) else (Ok (index, m)))
  = Ok (scan suf (Z.of_nat (length pre)) best m).
Proof.
  induction suf as [|y suf IH]; intros pre best m; cbn [for_ length scan]; [reflexivity|].
  cbv zeta. cbn [fst snd]. rewrite geti_mid. cbn [bind].
  assert (E : forall st, for_ (Z.of_nat (length pre) + 1) (length suf) st
      (fun i st_ => let index := fst st_ in let m := snd st_ in do x1_ <- geti (pre ++ y :: suf) i;
                    if le x1_ m then (let index := i in do x2_ <- geti (pre ++ y :: suf) i; let m := x2_ in Ok (index, m)) else (Ok (index, m)))
      = Ok (scan suf (Z.of_nat (length pre) + 1) (fst st) (snd st))).
  { intros [b0 m0]. replace (Z.of_nat (length pre) + 1) with (Z.of_nat (length (pre ++ [y]))) by (rewrite app_length; cbn [length]; lia).
    replace (pre ++ y :: suf) with ((pre ++ [y]) ++ suf) by (rewrite <- app_assoc; reflexivity). apply IH. }
  destruct (le y m).
  - cbn [bind]. apply E.
  - cbn [bind]. apply E.
Qed.
Theorem argmin_shape_scan l : argmin_shape l = match l with [] => Err IndexError | x :: _ => Ok (1 + fst (scan l 0 0 x)) end.
Proof.
  unfold argmin_shape. cbv zeta. destruct l as [|x r]; [reflexivity|]. change (geti (x :: r) 0) with (Ok x). cbn [bind].
  pose proof (loop_scan (x :: r) [] 0 x) as H. cbn [app length Z.of_nat] in H. cbn [length]. cbv zeta in H. rewrite H. reflexivity.
Qed.
End ARGMIN.

Lemma scan_Z : forall l i best m, RevSeq.argmin_aux l i best m = 1 + fst (scan Z Z.leb l i best m).
Proof. induction l as [|x r IH]; intros; cbn [RevSeq.argmin_aux scan]; [reflexivity|]. destruct (x <=? m); apply IH. Qed.
Lemma scan_cost : forall l i best m, HRevSeq.argmin_aux l i best m = 1 + fst (scan cost cle l i best m).
Proof. induction l as [|x r IH]; intros; cbn [HRevSeq.argmin_aux scan]; [reflexivity|]. destruct (cle x m); apply IH. Qed.
Theorem argmin_shape_is_model l : argmin_shape Z Z.leb l = py_argmin l.
Proof. rewrite argmin_shape_scan. destruct l as [|x r]; [reflexivity|]. unfold py_argmin, RevSeq.argmin. rewrite scan_Z. reflexivity. Qed.
Theorem cargmin_shape_is_model l : argmin_shape cost cle l = py_cargmin l.
Proof. rewrite argmin_shape_scan. destruct l as [|x r]; [reflexivity|]. unfold py_cargmin, HRevSeq.argmin. rewrite scan_cost. reflexivity. Qed.
Print Assumptions argmin_shape_is_model.
Print Assumptions cargmin_shape_is_model.
