(* The published helpers optimal_extra_steps / optimal_steps_binomial (multistage.py, behind cache_step of mixed.py), in the shape
   harness/translate.py reads them out of the source: a generic Python `for i in range(a, b)` loop over an optional running best.
   oes_shape_is_Em: that shape IS BinomDP.Em (the dynamic program the Griewank-Walther chain C05_chain is proved about), for
   every fuel and argument.  Gen/HelperGen.v re-translates the source on every run and proves the translation equal to oes_shape /
   osb_shape by conversion.  helper_value: on its whole domain the helper returns n + E n s = TC n s, the forward total the
   Multistage and Revolve run theorems establish; helper_rejects: outside it raises ValueError. *)
From Coq Require Import ZArith List Lia Bool.
Require Import BinomDP.
Import ListNotations.
Open Scope Z_scope.

(* for i in range(start, start + cnt): m = body i m *)
Fixpoint py_forB {A} (cnt : nat) (i : Z) (body : Z -> A -> res A) (m : A) : res A :=
  match cnt with O => Ok m | S c => do m' <- body i m; py_forB c (i + 1) body m' end.
Definition none_orB {A} (m : option A) (f : A -> bool) : bool := match m with None => true | Some x => f x end.

Fixpoint oes_shape (fuel : nat) (n s : Z) : res Z :=
  match fuel with O => Err OutOfFuel | S f =>
  let s := Z.min s (n - 1) in
  if n <=? 0 then Err ValueError else
  if (s <? Z.min 1 (n - 1)) || (s >? n - 1) then Err ValueError else
  if n =? 1 then Ok 0 else
  if s =? 1 then Ok (n * (n - 1) / 2) else
  do m <- py_forB (Z.to_nat (n - 1)) 1
            (fun i m => do m1 <- (do x <- oes_shape f i s; do y <- oes_shape f (n - i) (s - 1); Ok (i + x + y));
                        Ok (if none_orB m (fun m => m1 <? m) then Some m1 else m)) None;
  match m with None => Err RuntimeError | Some m => Ok m end
  end.
Definition osb_shape (fuel : nat) (n s : Z) : res Z := do x <- oes_shape fuel n s; Ok (n + x).

Lemma loop_py_forB f : forall cnt i m,
  loop cnt i f m = py_forB cnt i (fun i m => do m1 <- f i; Ok (if none_orB m (fun m => m1 <? m) then Some m1 else m)) m.
Proof.
  induction cnt as [|c IH]; intros i m; [reflexivity|]. cbn [loop py_forB]. destruct (f i) as [m1|e]; cbn [bind]; [|reflexivity].
  rewrite IH. f_equal. destruct m as [m0|]; cbn [none_orB]; [destruct (m1 <? m0)|]; reflexivity.
Qed.
Lemma py_forB_ext {A} (b1 b2 : Z -> A -> res A) : (forall i m, b1 i m = b2 i m) -> forall cnt i m, py_forB cnt i b1 m = py_forB cnt i b2 m.
Proof. intros H. induction cnt as [|c IH]; intros i m; [reflexivity|]. cbn [py_forB]. rewrite H. destruct (b2 i m); cbn [bind]; [apply IH|reflexivity]. Qed.

Theorem oes_shape_is_Em : forall fuel n s, oes_shape fuel n s = Em fuel n s.
Proof.
  induction fuel as [|f IH]; intros n s; [reflexivity|]. cbn [oes_shape Em].
  destruct (n <=? 0); [reflexivity|]. destruct ((Z.min s (n - 1) <? Z.min 1 (n - 1)) || (Z.min s (n - 1) >? n - 1)); [reflexivity|].
  destruct (n =? 1); [reflexivity|]. destruct (Z.min s (n - 1) =? 1); [reflexivity|].
  rewrite loop_py_forB.
  rewrite (py_forB_ext _ (fun i m => do m1 <- (do a <- Em f i (Z.min s (n - 1)); do b <- Em f (n - i) (Z.min s (n - 1) - 1); Ok (i + a + b));
                                    Ok (if none_orB m (fun m0 => m1 <? m0) then Some m1 else m))).
  2:{ intros i m. rewrite !IH. reflexivity. }
  reflexivity.
Qed.

(* the value, on the whole documented domain: 1 <= n and min(1, n-1) <= s (any larger s is clamped) *)
Theorem oes_value f n s : 1 <= n -> (Z.to_nat n <= f)%nat -> Z.min 1 (n - 1) <= s -> oes_shape f n s = Ok (EC n s).
Proof. intros Hn Hf Hs. rewrite oes_shape_is_Em. apply Em_EC; assumption. Qed.
Theorem osb_value f n s : 1 <= n -> (Z.to_nat n <= f)%nat -> Z.min 1 (n - 1) <= s -> osb_shape f n s = Ok (n + EC n s).
Proof. intros Hn Hf Hs. unfold osb_shape. rewrite (oes_value f n s Hn Hf Hs). reflexivity. Qed.
(* outside it: ValueError, before any recursion *)
Theorem oes_rejects f n s : n <= 0 \/ s < Z.min 1 (n - 1) -> oes_shape (S f) n s = Err ValueError /\ osb_shape (S f) n s = Err ValueError.
Proof.
  intros H. unfold osb_shape. cbn [oes_shape]. destruct (Z.leb_spec n 0); [split; reflexivity|].
  destruct H as [H|H]; [lia|].
  replace (Z.min s (n - 1) <? Z.min 1 (n - 1)) with true by (symmetry; apply Z.ltb_lt; lia). split; reflexivity.
Qed.
Print Assumptions oes_shape_is_Em.
Print Assumptions osb_value.
Print Assumptions oes_rejects.
