(* DiskRevolve, structural level: the grammar of disk_revolve's op lists (disk checkpoints written during the initial descent,
   each read once, every segment reversed by a memory-only Revolve block) and an executor with a RAM store (budget R, as
   RevBlk.exec) and an unbounded DISK store.  A disk checkpoint whose read was a Copy stays on DISK for ever ("dead"): this is
   the open finding D8 -- the block lemma tracks the dead entries instead of claiming an empty disk. *)
From Coq Require Import ZArith List Lia Bool.
Require Import Actions RevBlk.
Import ListNotations.
Open Scope Z_scope.

Section DISK.
Variable N R cm : Z.

Record dxst := { mx : xst; dk : list (Z * (Z * Z)) }.
Definition dkeys (X : dxst) : list Z := map fst (dk X).
Definition dexec (X : dxst) (a : action) : option dxst :=
  let x := mx X in
  match a with
  | Forward n0 n1 wi wa DISK =>
    match fwd x with Some f =>
      if negb ((f =? n0) && (n0 <? n1) && (n1 <=? N - rr x) && isnone (lookup n0 (dk X)) && wi && negb wa) then None else
      Some {| mx := {| fwd := Some n1; wics := None; wdeps := None; store := store x; rr := rr x; endfwd := endfwd x |};
              dk := (n0, (n0, n1)) :: dk X |}
    | None => None end
  | Copy n DISK WORK | Move n DISK WORK =>
    if negb (endfwd x && isnone (wics x) && isnone (wdeps x)) then None else
    match lookup n (dk X) with
    | Some (a0, b0) =>
      if negb ((a0 =? n) && (n <? N - rr x) && (N - rr x <=? b0)) then None else
      Some {| mx := {| fwd := Some n; wics := Some (a0, b0); wdeps := None; store := store x; rr := rr x; endfwd := true |};
              dk := match a with Move _ _ _ => remove n (dk X) | _ => dk X end |}
    | None => None end
  | _ => match exec N R x a with Some x' => Some {| mx := x'; dk := dk X |} | None => None end
  end.
Fixpoint dexecs (X : dxst) (l : list action) : option dxst :=
  match l with [] => Some X | a :: r => match dexec X a with Some X' => dexecs X' r | None => None end end.
Lemma dexecs_app X l1 l2 : dexecs X (l1 ++ l2) = match dexecs X l1 with Some X' => dexecs X' l2 | None => None end.
Proof. revert X; induction l1 as [|a l1 IH]; intro X; cbn; [reflexivity|]. destruct (dexec X a); auto. Qed.

(* memory actions pass through *)
Lemma lift_exec x d a x' : exec N R x a = Some x' -> dexec {| mx := x; dk := d |} a = Some {| mx := x'; dk := d |}.
Proof.
  intros H. destruct a as [n0 n1 wi wa sg|n1 n0 cl|n src dst|n src dst| |]; cbn [dexec mx dk]; try (rewrite H; reflexivity).
  - destruct sg; try (rewrite H; reflexivity). cbn [exec] in H. destruct (fwd x); discriminate.
  - destruct src; try (rewrite H; reflexivity); destruct dst; try (rewrite H; reflexivity); cbn [exec] in H; discriminate.
  - destruct src; try (rewrite H; reflexivity); destruct dst; try (rewrite H; reflexivity); cbn [exec] in H; discriminate.
Qed.
Lemma lift_execs : forall acts x d x', execs N R x acts = Some x' -> dexecs {| mx := x; dk := d |} acts = Some {| mx := x'; dk := d |}.
Proof.
  induction acts as [|a acts IH]; intros x d x' H; cbn [execs dexecs] in *; [injection H as <-; reflexivity|].
  destruct (exec N R x a) as [x1|] eqn:E; [|discriminate]. rewrite (lift_exec x d a x1 E). apply IH. exact H.
Qed.

(* ---- the grammar ---- *)
Inductive DBlk : Z -> Z -> list op -> Prop :=
 | DZero o : DBlk o 0 (adj o)              (* disk_revolve(0, cm): one step, no trailing Discard_memory *)
 | DMem o l ops : Blk true o l cm ops -> DBlk o l ops
 | DSplit o l j s1 s2 : 2 <= l -> 1 <= j <= l - 1 -> DBlk (o + j) (l - j) s1 -> Blk true o (j - 1) cm s2 ->
     DBlk o l ([OWD o; OF o (o + j)] ++ s1 ++ [ORD o] ++ s2).

Definition dk_ok (d : list (Z * (Z * Z))) : Prop := NoDup (map fst d) /\ forall p a b, lookup p d = Some (a, b) -> a = p.
Definition DEntry (o l : Z) (c : cst) (X : dxst) : Prop := Entry N R (dkeys X) true o l cm c (mx X) /\ dk_ok (dk X) /\ wics (mx X) = None.
Definition DExit (o : Z) (c0 : cst) (X0 : dxst) (c : cst) (X : dxst) : Prop :=
  let x := mx X in
  n_ c = o + 1 /\ r_ c = N - o /\ rr x = N - o /\ fwd x = Some (o + 1) /\ wdeps x = None /\ wics x = None /\ endfwd x = true /\
  store x = store (mx X0) /\ sameset (dkeys X0) (snaps c) (keys x) /\
  exists dead, dk X = dead ++ dk X0 /\ (forall p, In p (map fst dead) -> o <= p).
(* ---- converter steps for the two disk ops ---- *)
Ltac bdz := repeat match goal with
  | |- context [?a =? ?b] => destruct (Z.eqb_spec a b); try lia
  end.
Lemma run_wd i prev c o : n_ c = o -> Runs N i prev c [OWD o] [] c (OWD o).
Proof. intros H. apply Runs_one. intros rest. cbn [conv1]. rewrite H. bdz. reflexivity. Qed.
Definition dwr_state (c : cst) (o n1 : Z) :=
  {| n_ := n1; r_ := r_ c; snaps := if mem o (snaps c) then snaps c else o :: snaps c; w_st := Some DISK; w_ics := true; w_adj := false; w_n0 := Some o |}.
Lemma run_fwd_dwrite i c o n1 : n_ c = o -> n1 <> N ->
  Runs N i (Some (OWD o)) c [OF o n1] [Forward o n1 true false DISK] (dwr_state c o n1) (OF o n1).
Proof. intros H HN. apply Runs_one. intros rest. cbn [conv1]. rewrite H. bdz. reflexivity. Qed.
Lemma run_rd_move i prev c o : o = N - r_ c - 1 -> mem o (snaps c) = true ->
  Runs N i prev c [ORD o] [Move o DISK WORK] (upd c o (r_ c) (del o (snaps c))) (ORD o).
Proof. intros H Hm. apply Runs_one. intros rest. cbn [conv1]. bdz. rewrite Hm. reflexivity. Qed.
Lemma run_rd_copy i prev c o : o <> N - r_ c - 1 ->
  Runs N i prev c [ORD o] [Copy o DISK WORK] (upd c o (r_ c) (snaps c)) (ORD o).
Proof. intros H. apply Runs_one. intros rest. cbn [conv1]. bdz. reflexivity. Qed.

Lemma lookup_app_r (d1 d2 : list (Z * (Z * Z))) p : ~ In p (map fst d1) -> lookup p (d1 ++ d2) = lookup p d2.
Proof.
  induction d1 as [|[k v] d1 IH]; intros H; [reflexivity|]. cbn [app lookup]. cbn [map fst In] in H.
  destruct (Z.eqb_spec p k); [subst; tauto|]. apply IH. tauto.
Qed.
Lemma remove_app_r (d1 d2 : list (Z * (Z * Z))) p : ~ In p (map fst d1) -> remove p (d1 ++ d2) = d1 ++ remove p d2.
Proof.
  induction d1 as [|[k v] d1 IH]; intros H; [reflexivity|]. cbn [app remove]. cbn [map fst In] in H.
  destruct (Z.eqb_spec p k); [subst; tauto|]. rewrite IH by tauto. reflexivity.
Qed.

Theorem dblk_ok : forall o l ops, DBlk o l ops ->
  forall i prev c X, DEntry o l c X ->
  exists acts c' X' lastop, Runs N i prev c ops acts c' lastop /\ dexecs X acts = Some X' /\ DExit o c X c' X'.
Proof.
  induction 1 as [o|o l ops HB|o l j s1 s2 Hl Hj HD IH HB]; intros i prev c X (HE & Hdk & Hwi0).
  - (* a single step *)
    destruct X as [x d]. unfold dkeys in *. cbn [mx dk] in *.
    destruct HE as (Ho & _ & Hh & Hn & Hr & Hrr & Hf & Hwd & Hef & Hso & Hss & Hkeys & Hcp & _ & Hex).
    replace (o + 0 + 1) with (o + 1) in * by lia.
    destruct (adj_runs N i prev c o Hn ltac:(lia)) as (c1 & HR1 & Hn1 & Hr1 & Hs1).
    destruct (adj_exec N R x o Hf ltac:(lia) Hef) as (x1 & HX1 & Hf1 & Hrr1 & Hwd1 & Hwi1 & Hef1 & Hst1).
    exists (adj_acts N o), c1, {| mx := x1; dk := d |}, (ODFM (o + 1)). split; [exact HR1|]. split; [apply lift_execs; exact HX1|].
    unfold DExit, dkeys. cbn [mx dk]. repeat split; auto; try lia.
    + intros Hz. rewrite Hs1 in Hz. unfold keys. rewrite Hst1. apply Hss; [intros _ Hl0; lia|exact Hz].
    + intros Hz. rewrite Hs1. unfold keys in Hz. rewrite Hst1 in Hz. apply Hss; [intros _ Hl0; lia|exact Hz].
    + exists []. split; [reflexivity|]. intros p [].
  - (* memory only *)
    destruct (blk_ok N R (dkeys X) true o l cm ops HB i prev c (mx X) HE ltac:(discriminate)) as (acts & c' & x' & lastop & HR & HX & HEx).
    exists acts, c', {| mx := x'; dk := dk X |}, lastop. split; [exact HR|]. split.
    + destruct X as [x d]. apply lift_execs. exact HX.
    + destruct HEx as (Hn & Hr & Hrr & Hf & Hwd & Hwi & Hef & Hst & Hss).
      destruct HE as (_ & _ & _ & _ & _ & _ & _ & _ & _ & _ & _ & _ & Hcp & _). cbn [orb] in Hcp. destruct Hcp as [Hnotin _].
      unfold DExit. cbn [mx dk]. repeat split; auto.
      * rewrite Hst. apply remove_notin. exact Hnotin.
      * apply Hss.
      * apply Hss.
      * exists []. split; [reflexivity|]. intros p [].
  - (* a disk checkpoint at o, the rest, then the segment [o, o+j) from that checkpoint *)
    destruct X as [x d]. unfold dkeys in *. cbn [mx dk] in *.
    pose proof HE as (Ho & Hl0 & Hh & Hn & Hr & Hrr & Hf & Hwd & Hef & [Hnd Hlk] & Hss & Hkeys & Hcp & Hcm & Hex).
    cbn zeta in *. cbn [orb] in Hcp. destruct Hcp as [Hnotin Hbud]. destruct Hdk as [Hdnd Hdlk].
    assert (Hod : ~ In o (map fst d)) by (intros Hin; specialize (Hex o Hin); lia).
    assert (Hkx : forall p, In p (keys x) -> p < o) by (intros p Hp; destruct (Hkeys p Hp) as [?|(_ & ? & _)]; [assumption|discriminate]).
    (* A: write the disk checkpoint *)
    set (c1 := dwr_state c o (o + j)).
    set (x1 := {| fwd := Some (o + j); wics := None; wdeps := None; store := store x; rr := rr x; endfwd := endfwd x |}).
    set (X1 := {| mx := x1; dk := (o, (o, o + j)) :: d |}).
    assert (HXA : dexec {| mx := x; dk := d |} (Forward o (o + j) true false DISK) = Some X1).
    { cbn [dexec mx dk]. rewrite Hf. rewrite (proj2 (lookup_none_iff d o) Hod). cbn [isnone negb andb].
      replace ((o =? o) && (o <? o + j) && (o + j <=? N - rr x)) with true; [reflexivity|].
      symmetry. rewrite !andb_true_iff, Z.eqb_eq, Z.ltb_lt, Z.leb_le. lia. }
    (* B: the rest of the descent and its reversal *)
    destruct (IH (i + 2)%nat (Some (OF o (o + j))) c1 X1) as (acts2 & c2 & X2 & last2 & HR2 & HX2 & HEx2).
    { unfold DEntry, X1, dkeys. cbn [mx dk map fst]. split; [|split; [|reflexivity]].
      - unfold Entry, x1, c1. replace (o + j + (l - j) + 1) with (o + l + 1) by lia. cbn [orb]. cbn [n_ r_ snaps dwr_state fwd wdeps endfwd store rr keys].
        repeat match goal with |- _ /\ _ => split end; auto; try lia.
        + split; assumption.
        + intros z Hz. destruct (Z.eq_dec z o) as [->|Hzo].
          * split; [intros _; right; left; reflexivity|intros _]. destruct (mem o (snaps c)) eqn:E; [apply mem_true_iff; exact E|left; reflexivity].
          * specialize (Hss z (fun _ _ => Hzo)). assert (Hoz : o <> z) by congruence. destruct (mem o (snaps c)); cbn [In]; tauto.
        + intros p Hp. left. specialize (Hkx p Hp). lia.
        + intros Hin. specialize (Hkx _ Hin). lia.
        + intros p [<-|Hp]; [lia|specialize (Hex p Hp); lia].
      - split; cbn [map fst lookup].
        + constructor; assumption.
        + intros p a b. destruct (Z.eqb_spec p o); [intros E; injection E as <- _; congruence|apply Hdlk]. }
    destruct HEx2 as (Hn2 & Hr2 & Hrr2 & Hf2 & Hwd2 & Hwi2 & Hef2 & Hst2 & Hss2 & dead2 & Hdk2 & Hdead2).
    destruct X2 as [x2 d2]. unfold dkeys in *. cbn [mx dk X1 x1 store map fst] in *.
    assert (Hod2 : ~ In o (map fst dead2)) by (intros Hin; specialize (Hdead2 o Hin); lia).
    assert (Hlk2 : lookup o d2 = Some (o, o + j)) by (rewrite Hdk2, lookup_app_r by exact Hod2; cbn [lookup]; rewrite Z.eqb_refl; reflexivity).
    assert (Hin2 : In o (snaps c2)) by (apply Hss2; right; left; reflexivity).
    (* D, generic in what the read leaves on disk *)
    assert (HDm : forall c3 d3 e3, n_ c3 = o -> r_ c3 = N - (o + j) ->
        (forall z, (1 <= j - 1 -> z <> o) -> (In z (snaps c3) <-> (In z (keys x2) \/ In z (map fst d)))) ->
        exists acts4 c4 x4 last4, Runs N (i + 2 + length s1 + 1) (Some (ORD o)) c3 s2 acts4 c4 last4 /\
          dexecs {| mx := {| fwd := Some o; wics := Some (o, e3); wdeps := None; store := store x2; rr := rr x2; endfwd := true |}; dk := d3 |} acts4 = Some {| mx := x4; dk := d3 |} /\
          Exit N (map fst d) o c3 {| fwd := Some o; wics := Some (o, e3); wdeps := None; store := store x2; rr := rr x2; endfwd := true |} c4 x4).
    { intros c3 d3 e3 Hn3 Hr3 Hss3.
      destruct (blk_ok N R (map fst d) true o (j - 1) cm s2 HB (i + 2 + length s1 + 1)%nat (Some (ORD o)) c3
                 {| fwd := Some o; wics := Some (o, e3); wdeps := None; store := store x2; rr := rr x2; endfwd := true |}) as (acts4 & c4 & x4 & last4 & HR4 & HX4 & HEx4).
      - unfold Entry. replace (o + (j - 1) + 1) with (o + j) by lia. cbn [orb fwd wdeps endfwd store rr].
        rewrite Hst2. repeat match goal with |- _ /\ _ => split end; auto; try lia.
        all: try (symmetry; apply negb_true_iff, Z.eqb_neq; lia).
        all: try (unfold store_ok, keys; cbn [store]; split; assumption).
        all: try (intros p Hp; left; apply Hkx; exact Hp).
        intros z Hz. unfold keys in *. cbn [store]. rewrite Hst2 in Hss3. apply Hss3. intros Hj1. apply Hz; [reflexivity|exact Hj1].
      - discriminate.
      - exists acts4, c4, x4, last4. split; [exact HR4|]. split; [apply lift_execs; exact HX4|exact HEx4]. }
    destruct (Z.eq_dec j 1) as [->|Hj1].
    + (* j = 1: the read is the last use: Move *)
      set (c3 := upd c2 o (r_ c2) (del o (snaps c2))).
      destruct (HDm c3 (dead2 ++ d) (o + 1)) as (acts4 & c4 & x4 & last4 & HR4 & HX4 & HEx4); [reflexivity|cbn [r_ c3 upd]; lia| |].
      { intros z _. cbn [snaps c3 upd]. rewrite in_del. specialize (Hss2 z). cbn [In] in Hss2.
        assert (Hnk : ~ In o (keys x2)) by (unfold keys; rewrite Hst2; exact Hnotin).
        destruct (Z.eq_dec z o) as [->|Hzo]; [tauto|]. assert (o <> z) by congruence. tauto. }
      destruct HEx4 as (Hn4 & Hr4 & Hrr4 & Hf4 & Hwd4 & Hwi4 & Hef4 & Hst4 & Hss4). cbn [store] in Hst4.
      exists ([Forward o (o + 1) true false DISK] ++ acts2 ++ [Move o DISK WORK] ++ acts4), c4, {| mx := x4; dk := dead2 ++ d |}, last4.
      split; [|split].
      * change ([OWD o; OF o (o + 1)] ++ s1 ++ [ORD o] ++ s2) with (([OWD o] ++ [OF o (o + 1)]) ++ s1 ++ [ORD o] ++ s2).
        eapply Runs_app; [change [Forward o (o + 1) true false DISK] with ([] ++ [Forward o (o + 1) true false DISK]); eapply Runs_app; [apply run_wd; exact Hn|apply run_fwd_dwrite; [exact Hn|lia]]|].
        change (i + length ([OWD o] ++ [OF o (o + 1)]))%nat with (i + 2)%nat. eapply Runs_app; [exact HR2|].
        eapply (Runs_app N _ _ _ [ORD o]); [apply run_rd_move; [lia|apply mem_true_iff; exact Hin2]|]. exact HR4.
      * cbn [app dexecs]. rewrite HXA. rewrite dexecs_app, HX2. cbn [app dexecs dexec mx dk].
        rewrite Hef2, Hwi2, Hwd2, Hlk2. cbn [isnone andb negb].
        replace ((o =? o) && (o <? N - rr x2) && (N - rr x2 <=? o + 1)) with true by (symmetry; rewrite !andb_true_iff, Z.eqb_eq, Z.ltb_lt, Z.leb_le; lia).
        cbn [negb]. rewrite Hdk2, remove_app_r by exact Hod2. cbn [remove]. rewrite Z.eqb_refl. exact HX4.
      * unfold DExit, dkeys. cbn [mx dk]. repeat split; auto; try lia.
        -- rewrite Hst4, Hst2. apply remove_notin. exact Hnotin.
        -- apply Hss4.
        -- apply Hss4.
        -- exists dead2. split; [reflexivity|]. intros p Hp. specialize (Hdead2 p Hp). lia.
    + (* j >= 2: the read is a Copy; the checkpoint stays on disk for ever *)
      set (c3 := upd c2 o (r_ c2) (snaps c2)).
      destruct (HDm c3 d2 (o + j)) as (acts4 & c4 & x4 & last4 & HR4 & HX4 & HEx4); [reflexivity|cbn [r_ c3 upd]; lia| |].
      { intros z Hz. specialize (Hz ltac:(lia)). cbn [snaps c3 upd]. specialize (Hss2 z). cbn [In] in Hss2. assert (o <> z) by congruence. tauto. }
      destruct HEx4 as (Hn4 & Hr4 & Hrr4 & Hf4 & Hwd4 & Hwi4 & Hef4 & Hst4 & Hss4). cbn [store] in Hst4.
      exists ([Forward o (o + j) true false DISK] ++ acts2 ++ [Copy o DISK WORK] ++ acts4), c4, {| mx := x4; dk := d2 |}, last4.
      split; [|split].
      * change ([OWD o; OF o (o + j)] ++ s1 ++ [ORD o] ++ s2) with (([OWD o] ++ [OF o (o + j)]) ++ s1 ++ [ORD o] ++ s2).
        eapply Runs_app; [change [Forward o (o + j) true false DISK] with ([] ++ [Forward o (o + j) true false DISK]); eapply Runs_app; [apply run_wd; exact Hn|apply run_fwd_dwrite; [exact Hn|lia]]|].
        change (i + length ([OWD o] ++ [OF o (o + j)]))%nat with (i + 2)%nat. eapply Runs_app; [exact HR2|].
        eapply (Runs_app N _ _ _ [ORD o]); [apply run_rd_copy; lia|]. exact HR4.
      * cbn [app dexecs]. rewrite HXA. rewrite dexecs_app, HX2. cbn [app dexecs dexec mx dk].
        rewrite Hef2, Hwi2, Hwd2, Hlk2. cbn [isnone andb negb].
        replace ((o =? o) && (o <? N - rr x2) && (N - rr x2 <=? o + j)) with true by (symmetry; rewrite !andb_true_iff, Z.eqb_eq, Z.ltb_lt, Z.leb_le; lia).
        cbn [negb]. exact HX4.
      * unfold DExit, dkeys. cbn [mx dk]. repeat split; auto; try lia.
        -- rewrite Hst4, Hst2. apply remove_notin. exact Hnotin.
        -- apply Hss4.
        -- apply Hss4.
        -- exists (dead2 ++ [(o, (o, o + j))]). split; [rewrite Hdk2, <- app_assoc; reflexivity|].
           intros p Hp. rewrite map_app in Hp. cbn [map fst] in Hp. apply in_app_or in Hp. destruct Hp as [Hp|[<-|[]]]; [specialize (Hdead2 p Hp); lia|lia].
Qed.
End DISK.
Print Assumptions dblk_ok.
