(* Generic facts about the monitored client of Model/Sched.v: composition of op lists, and the invariant rule for
   runs of next(). *)
From Coq Require Import ZArith List Lia Bool.
Require Import Actions Exec Sched.
Import ListNotations.
Open Scope Z_scope.

Definition line_ok (l : line) : Prop := match l with LNext (Raise _) _ => False | _ => True end.
Definition no_raise (ls : list line) : Prop := Forall line_ok ls.
Definition mon_ok (m : mon) : Prop := merr_ m = None.

Lemma run_ops_app p : forall a b s m,
  run_ops p s m (a ++ b) =
  let '(s1, m1, l1) := run_ops p s m a in let '(s2, m2, l2) := run_ops p s1 m1 b in (s2, m2, l1 ++ l2).
Proof.
  induction a as [|o a IH]; intros b s m; cbn [app run_ops].
  - destruct (run_ops p s m b) as [[s2 m2] l2]. reflexivity.
  - destruct o as [|k|k lim].
    + destruct (next s) as [s' o]. rewrite IH.
      destruct (run_ops p s' _ a) as [[s1 m1] l1]. destruct (run_ops p s1 m1 b) as [[s2 m2] l2]. reflexivity.
    + destruct (finalize k s) as [s' e]. rewrite IH.
      destruct (run_ops p s' m a) as [[s1 m1] l1]. destruct (run_ops p s1 m1 b) as [[s2 m2] l2]. reflexivity.
    + destruct (run_loop p lim k s m) as [[s' m'] l0]. rewrite IH.
      destruct (run_ops p s' m' a) as [[s1 m1] l1]. destruct (run_ops p s1 m1 b) as [[s2 m2] l2].
      rewrite app_assoc. reflexivity.
Qed.

(* the outcome of one monitored next() *)
Definition good_step (p : xparams) (I : sched -> mon -> Prop) (s : sched) (m : mon) : Prop :=
  match next s with
  | (s', Yield a) => mon_ok (mon_step p s' a m) /\ I s' (mon_step p s' a m)
  | (s', StopIteration) => I s' m
  | (_, Raise _) => False
  end.

Section INV.
Variable p : xparams.
Variable I : sched -> mon -> Prop.
Hypothesis step : forall s m, I s m -> mon_ok m -> good_step p I s m.

Lemma run_nexts : forall k s m, I s m -> mon_ok m ->
  let '(s', m', ls) := run_ops p s m (repeat Next k) in I s' m' /\ mon_ok m' /\ no_raise ls.
Proof.
  induction k as [|k IH]; intros s m HI Hm; cbn [repeat run_ops].
  - repeat split; [assumption|assumption|constructor].
  - pose proof (step s m HI Hm) as Hs. unfold good_step in Hs.
    destruct (next s) as [s' o]. destruct o as [a| |e]; [|idtac|contradiction].
    + destruct Hs as [Hm' HI']. specialize (IH s' _ HI' Hm').
      destruct (run_ops p s' _ (repeat Next k)) as [[s2 m2] ls]. destruct IH as (?&?&?).
      repeat split; try assumption. constructor; [exact Logic.I|assumption].
    + specialize (IH s' m Hs Hm).
      destruct (run_ops p s' m (repeat Next k)) as [[s2 m2] ls]. destruct IH as (?&?&?).
      repeat split; try assumption. constructor; [exact Logic.I|assumption].
Qed.

(* the same for the Run op (stops early, never goes wrong) *)
Lemma run_loop_ok : forall lim k s m, I s m -> mon_ok m ->
  let '(s', m', ls) := run_loop p lim k s m in I s' m' /\ mon_ok m' /\ no_raise ls.
Proof.
  induction lim as [|lim IH]; intros k s m HI Hm; cbn [run_loop].
  - repeat split; [assumption|assumption|constructor].
  - pose proof (step s m HI Hm) as Hs. unfold good_step in Hs.
    destruct (next s) as [s' o]. destruct o as [a| |e]; [|idtac|contradiction].
    + destruct Hs as [Hm' HI'].
      destruct (_ <=? 0).
      * repeat split; try assumption. constructor; [exact Logic.I|constructor].
      * specialize (IH (match a with EndReverse => k - 1 | _ => k end) s' _ HI' Hm').
        destruct (run_loop p lim _ s' _) as [[s2 m2] ls]. destruct IH as (?&?&?).
        repeat split; try assumption. constructor; [exact Logic.I|assumption].
    + repeat split; try assumption. constructor; [exact Logic.I|constructor].
Qed.
End INV.

(* mon_step when the executor accepts and n, r, max_n agree *)
Lemma mon_step_ok p s' a m x' :
  mon_ok m ->
  exec p (negb (isnone (get_max_n s'))) (is_exhausted s') (mx m) a = inl x' ->
  (match fwd x' with
   | Some v => if isnone (get_max_n s') && (v =? xN p) then xN p <=? get_n s' else get_n s' =? v
   | None => true end) = true ->
  get_r s' = rr x' ->
  oz_ok (get_max_n s') (xN p) = true ->
  mon_step p s' a m = {| mx := x'; merr_ := None; mcount := mcount m + 1 |}.
Proof.
  unfold mon_ok, mon_step. intros -> -> H1 H2 H3. rewrite H1. cbn [negb].
  rewrite H2, Z.eqb_refl. cbn [negb]. rewrite H3. reflexivity.
Qed.

(* ---- the same rule, carrying a property of every request's outcome together with the state it leaves (flags: C09) ---- *)
Definition line_fl (Fl : sched -> outcome -> Prop) (l : line) : Prop :=
  match l with LNext o ob => exists s1, ob = observe s1 /\ Fl s1 o | LFin _ _ => True end.
Section INVFL.
Variable p : xparams.
Variable I : sched -> mon -> Prop.
Variable Fl : sched -> outcome -> Prop.
Hypothesis step : forall s m, I s m -> mon_ok m -> good_step p I s m /\ Fl (fst (next s)) (snd (next s)).
Lemma run_nexts_fl : forall k s m, I s m -> mon_ok m ->
  let '(s', m', ls) := run_ops p s m (repeat Next k) in I s' m' /\ mon_ok m' /\ no_raise ls /\ Forall (line_fl Fl) ls.
Proof.
  induction k as [|k IH]; intros s m HI Hm; cbn [repeat run_ops].
  - repeat split; [assumption|assumption|constructor|constructor].
  - destruct (step s m HI Hm) as [Hs Hf]. unfold good_step in Hs.
    destruct (next s) as [s' o]. cbn [fst snd] in Hf. destruct o as [a| |e]; [|idtac|contradiction].
    + destruct Hs as [Hm' HI']. specialize (IH s' _ HI' Hm').
      destruct (run_ops p s' _ (repeat Next k)) as [[s2 m2] ls]. destruct IH as (?&?&?&?).
      repeat split; try assumption; constructor; try assumption; [exact Logic.I|exists s'; auto].
    + specialize (IH s' m Hs Hm).
      destruct (run_ops p s' m (repeat Next k)) as [[s2 m2] ls]. destruct IH as (?&?&?&?).
      repeat split; try assumption; constructor; try assumption; [exact Logic.I|exists s'; auto].
Qed.
End INVFL.

(* is_running is True after every request, whatever the class and the state (schedule.py: the wrapper is created by next) *)
Lemma next_started s : started (fst (next s)) = true.
Proof.
  unfold next. destruct (ob s) as [o|c m ram disk|n sn sg tab plan m fin|k n ram disk r].
  - destruct (Online.next o). reflexivity.
  - destruct (Multistage.next c m). reflexivity.
  - destruct fin; [reflexivity|]. destruct (match plan with Some f => Ok f | None => _ end); [|reflexivity].
    destruct (Mixed.resume 3 _ m). reflexivity.
  - destruct (RevConv.next n r). reflexivity.
Qed.
(* the flag rule of C09 for a class whose final action is recognised by fin_act (fun _ => false for the classes that never conclude) *)
Definition flag_rule (fin_act : action -> bool) (s' : sched) (o : outcome) : Prop :=
  is_running s' = true /\
  match o with Yield a => is_exhausted s' = fin_act a | StopIteration => is_exhausted s' = true | Raise _ => True end.

(* termination along a run: a measure that decreases while the schedule is not exhausted *)
Section TERM.
Variable p : xparams.
Variable I : sched -> mon -> Prop.
Variable mu : sched -> Z.
Variable fin : sched -> bool.
Hypothesis step : forall s m, I s m -> mon_ok m -> good_step p I s m.
Hypothesis mu_nonneg : forall s m, I s m -> fin s = false -> 0 <= mu s.
Hypothesis mu_dec : forall s m, I s m -> fin s = false -> mu (fst (next s)) < mu s.
Hypothesis fin_stays : forall s m, I s m -> fin s = true -> fin (fst (next s)) = true.
Lemma run_nexts_fin : forall k s m, I s m -> mon_ok m -> (fin s = true \/ mu s < Z.of_nat k) ->
  fin (fst (fst (run_ops p s m (repeat Next k)))) = true.
Proof.
  induction k as [|k IH]; intros s m HI Hm Hk; cbn [repeat run_ops].
  - destruct Hk as [Hk|Hk]; [exact Hk|]. cbn [fst]. destruct (fin s) eqn:Ef; [reflexivity|]. pose proof (mu_nonneg s m HI Ef). lia.
  - pose proof (step s m HI Hm) as Hs. unfold good_step in Hs.
    assert (Hk' : fin (fst (next s)) = true \/ mu (fst (next s)) < Z.of_nat k).
    { destruct (fin s) eqn:Ef; [left; exact (fin_stays s m HI Ef)|]. destruct Hk as [Hk|Hk]; [discriminate|].
      right. pose proof (mu_dec s m HI Ef). lia. }
    destruct (next s) as [s' o]. cbn [fst] in Hk'. destruct o as [a| |e]; [|idtac|contradiction].
    + destruct Hs as [Hm' HI']. specialize (IH s' _ HI' Hm' Hk').
      destruct (run_ops p s' _ (repeat Next k)) as [[s2 m2] ls]. exact IH.
    + specialize (IH s' m Hs Hm Hk').
      destruct (run_ops p s' m (repeat Next k)) as [[s2 m2] ls]. exact IH.
Qed.
End TERM.
