(* PeriodicDiskRevolve, generator: the op list of the extracted periodic_top is a nest of disk blocks (DiskBlk.DBlk) that all
   split at the period mx: disk checkpoints at 0, mx, 2 mx, ... written during the forward sweep, a memory-only block for the
   last segment, then one read + one memory-only block per checkpoint, last to first. *)
From Coq Require Import ZArith List Lia Bool.
Require Import Actions Ops RevSeq RevBridge1 RevBridge5 RevBridge6 DiskGen.
Require RevBlk RevGen DiskBlk.
Import ListNotations.
Open Scope Z_scope.

Lemma shift_0 l : shift 0 l = l.
Proof. unfold shift. rewrite <- (map_id l) at 2. apply map_ext. intros []; cbn [shift1]; f_equal; lia. Qed.

Section PER.
Variable mx cm l : Z.
Hypothesis Hmx : 1 <= mx.
Variable rv : list RevBlk.op.                     (* revolve(mx - 1, cm): the block that reverses one period *)
Hypothesis Brv : RevBlk.Blk true 0 (mx - 1) cm rv.

Fixpoint fwk (k : nat) (ct0 : Z) : list RevBlk.op :=
  match k with O => [] | S k' => [RevBlk.OWD ct0; RevBlk.OF ct0 (ct0 + mx)] ++ fwk k' (ct0 + mx) end.
Fixpoint bkup (k : nat) (ct0 : Z) : list RevBlk.op :=
  match k with O => [] | S k' => bkup k' (ct0 + mx) ++ [RevBlk.ORD ct0] ++ RevGen.shift ct0 rv end.
(* the order in which per_back produces it: top checkpoint first *)
Fixpoint bkdown (k : nat) (ct0 : Z) : list RevBlk.op :=
  match k with O => [] | S k' => [RevBlk.ORD (ct0 + Z.of_nat k' * mx)] ++ RevGen.shift (ct0 + Z.of_nat k' * mx) rv ++ bkdown k' ct0 end.

Lemma bkup_cons : forall k ct0, bkup (S k) ct0 = [RevBlk.ORD (ct0 + Z.of_nat k * mx)] ++ RevGen.shift (ct0 + Z.of_nat k * mx) rv ++ bkup k ct0.
Proof.
  induction k as [|k IH]; intros ct0.
  - cbn [bkup app]. replace (ct0 + Z.of_nat 0 * mx) with ct0 by lia. rewrite app_nil_r. reflexivity.
  - change (bkup (S (S k)) ct0) with (bkup (S k) (ct0 + mx) ++ [RevBlk.ORD ct0] ++ RevGen.shift ct0 rv).
    rewrite (IH (ct0 + mx)). replace (ct0 + mx + Z.of_nat k * mx) with (ct0 + Z.of_nat (S k) * mx) by lia.
    cbn [bkup]. rewrite <- !app_assoc. reflexivity.
Qed.
Lemma bkdown_up : forall k ct0, bkdown k ct0 = bkup k ct0.
Proof. induction k as [|k IH]; intros ct0; [reflexivity|]. rewrite bkup_cons. cbn [bkdown]. rewrite IH. reflexivity. Qed.

Lemma nest : forall k ct0 core, (forall i, (i < k)%nat -> mx < l - (ct0 + Z.of_nat i * mx)) ->
  DiskBlk.DBlk cm (ct0 + Z.of_nat k * mx) (l - (ct0 + Z.of_nat k * mx)) core ->
  DiskBlk.DBlk cm ct0 (l - ct0) (fwk k ct0 ++ core ++ bkup k ct0).
Proof.
  induction k as [|k IH]; intros ct0 core Hlev Hcore.
  - cbn [fwk bkup app]. rewrite app_nil_r. replace (ct0 + Z.of_nat 0 * mx) with ct0 in Hcore by lia. exact Hcore.
  - cbn [fwk bkup]. pose proof (Hlev 0%nat ltac:(lia)) as H0. replace (ct0 + Z.of_nat 0 * mx) with ct0 in H0 by lia.
    replace (([RevBlk.OWD ct0; RevBlk.OF ct0 (ct0 + mx)] ++ fwk k (ct0 + mx)) ++ core ++ bkup k (ct0 + mx) ++ [RevBlk.ORD ct0] ++ RevGen.shift ct0 rv)
      with ([RevBlk.OWD ct0; RevBlk.OF ct0 (ct0 + mx)] ++ (fwk k (ct0 + mx) ++ core ++ bkup k (ct0 + mx)) ++ [RevBlk.ORD ct0] ++ RevGen.shift ct0 rv)
      by (rewrite <- !app_assoc; reflexivity).
    apply DiskBlk.DSplit; try lia.
    + replace (l - ct0 - mx) with (l - (ct0 + mx)) by lia. apply IH.
      * intros i Hi. specialize (Hlev (S i) ltac:(lia)). replace (ct0 + mx + Z.of_nat i * mx) with (ct0 + Z.of_nat (S i) * mx) by lia. exact Hlev.
      * replace (ct0 + mx + Z.of_nat k * mx) with (ct0 + Z.of_nat (S k) * mx) by lia. exact Hcore.
    + replace ct0 with (0 + ct0) at 1 by lia. apply RevGen.Blk_shift. exact Brv.
Qed.
End PER.

(* ---- the extracted loops produce these lists ---- *)
Lemma per_fwd_spec mx l : 1 <= mx -> forall cnt ct0 fw ctf, per_fwd cnt l mx ct0 = (fw, ctf) -> (Z.to_nat (l - ct0) <= cnt)%nat ->
  exists k, ctf = ct0 + Z.of_nat k * mx /\ fw = map inj (fwk mx k ct0) /\ (forall i, (i < k)%nat -> mx < l - (ct0 + Z.of_nat i * mx)) /\ l - ctf <= mx.
Proof.
  intros Hmx. induction cnt as [|cnt IH]; intros ct0 fw ctf H Hc; cbn [per_fwd] in H.
  - injection H as <- <-. exists 0%nat. cbn [fwk map Z.of_nat]. split; [lia|]. split; [reflexivity|]. split; [intros i Hi; lia|lia].
  - destruct (Z.gtb_spec (l - ct0) mx) as [Hgt|Hle].
    + destruct (per_fwd cnt l mx (ct0 + mx)) as [r ct'] eqn:E. injection H as <- <-.
      destruct (IH (ct0 + mx) r ct' E ltac:(lia)) as (k & Hct & Hr & Hlev & Hend).
      exists (S k). split; [lia|]. split; [cbn [fwk map app inj]; rewrite Hr; reflexivity|]. split; [|exact Hend].
      intros [|i] Hi; [replace (ct0 + Z.of_nat 0 * mx) with ct0 by lia; lia|].
      specialize (Hlev i ltac:(lia)). replace (ct0 + Z.of_nat (S i) * mx) with (ct0 + mx + Z.of_nat i * mx) by lia. exact Hlev.
    + injection H as <- <-. exists 0%nat. cbn [fwk map Z.of_nat]. split; [lia|]. split; [reflexivity|]. split; [intros i Hi; lia|lia].
Qed.
Lemma per_back_spec t uf mx cm rv : 1 <= mx -> revolve (Z.to_nat (2 * mx + 4)) t uf (mx - 1) cm = Ok (map inj rv) ->
  forall k cnt, (k <= cnt)%nat -> per_back cnt t uf mx cm (Z.of_nat k * mx) = Ok (map inj (bkdown mx rv k 0)).
Proof.
  intros Hmx Hrv. induction k as [|k IH]; intros cnt Hc.
  - destruct cnt; cbn [per_back Z.of_nat Z.mul]; [reflexivity|]. destruct (Z.gtb_spec 0 0); [lia|reflexivity].
  - destruct cnt as [|cnt]; [lia|]. cbn [per_back]. destruct (Z.gtb_spec (Z.of_nat (S k) * mx) 0); [|nia].
    rewrite Hrv. cbn [bind]. replace (Z.of_nat (S k) * mx - mx) with (Z.of_nat k * mx) by lia. rewrite (IH cnt ltac:(lia)). cbn [bind bkdown].
    replace (0 + Z.of_nat k * mx) with (Z.of_nat k * mx) by lia. rewrite shift_inj. cbn [map app inj]. rewrite ?map_app. cbn [map app inj]. reflexivity.
Qed.

Theorem periodic_grammar l cm rd wd uf ub ops mx : 0 <= l -> 1 <= cm -> periodic_top l cm rd wd uf ub = Ok (ops, mx) -> 1 <= mx ->
  exists ops0, ops = map inj ops0 /\ DiskBlk.DBlk cm 0 l ops0.
Proof.
  intros Hl Hcm H Hmx. unfold periodic_top in H. set (m := mxrr cm uf rd wd) in *.
  destruct (get_opt_0_table (Z.max m m + 1) cm uf ub) as [t|] eqn:Et; cbn [bind] in H; [|discriminate].
  destruct (per_fwd (Z.to_nat l) l m 0) as [fw ct] eqn:Ef.
  destruct (revolve _ t uf (l - ct) cm) as [s|] eqn:Es; cbn [bind] in H; [|discriminate].
  destruct (per_back (Z.to_nat l) t uf m cm ct) as [bk|] eqn:Eb; cbn [bind] in H; [|discriminate].
  injection H as <- Em. rewrite Em in *. clear m Em.
  destruct (per_fwd_spec mx l Hmx _ _ _ _ Ef ltac:(lia)) as (k & Hct & Hfw & Hlev & Hend). cbn [Z.add] in Hct.
  destruct (revolve_grammar _ _ _ _ _ _ Es ltac:(destruct k; [lia|specialize (Hlev k ltac:(lia)); nia]) ltac:(lia)) as (s0 & -> & Bs).
  (* the per-period block *)
  assert (Hk : (k <= Z.to_nat l)%nat) by (destruct k; [lia|specialize (Hlev k ltac:(lia)); nia]).
  destruct k as [|k].
  - (* no disk checkpoint at all *)
    cbn [fwk map] in Hfw. subst fw ct. cbn [Z.of_nat Z.mul] in *.
    assert (bk = []) by (destruct (Z.to_nat l); cbn [per_back] in Eb; [injection Eb as <-; reflexivity|destruct (Z.gtb_spec 0 0); [lia|injection Eb as <-; reflexivity]]).
    subst bk. exists s0. split.
    + cbn [app]. rewrite app_nil_r, shift_0. reflexivity.
    + apply DiskBlk.DMem. replace (l - 0) with l in Bs by lia. exact Bs.
  - assert (Hrvx : exists rv, revolve (Z.to_nat (2 * mx + 4)) t uf (mx - 1) cm = Ok (map inj rv) /\ RevBlk.Blk true 0 (mx - 1) cm rv).
    { cbn [per_back] in Eb. destruct (Z.to_nat l) as [|cnt] eqn:El; [lia|]. cbn [per_back] in Eb.
      destruct (Z.gtb_spec ct 0); [|nia]. destruct (revolve (Z.to_nat (2 * mx + 4)) t uf (mx - 1) cm) as [rvm|] eqn:Er; [|discriminate].
      destruct (revolve_grammar _ _ _ _ _ _ Er ltac:(lia) ltac:(lia)) as (rv & -> & Brv). eauto. }
    destruct Hrvx as (rv & Hrv & Brv).
    rewrite Hct, (per_back_spec t uf mx cm rv Hmx Hrv (S k) _ Hk), bkdown_up in Eb. assert (Hbk : bk = map inj (bkup mx rv (S k) 0)) by congruence. clear Eb.
    exists (fwk mx (S k) 0 ++ RevGen.shift ct s0 ++ bkup mx rv (S k) 0). split.
    + rewrite Hfw, Hbk, shift_inj, <- !map_app. reflexivity.
    + replace l with (l - 0) at 1 by lia. apply (nest mx cm l Hmx rv Brv (S k) 0); [exact Hlev|].
      replace (0 + Z.of_nat (S k) * mx) with ct by lia. apply DiskBlk.DMem. replace ct with (0 + ct) at 1 by lia. apply RevGen.Blk_shift. exact Bs.
Qed.

(* ---- totality ---- *)
Require Import BinomDef GW2.
Lemma mxrr_pos cm uf rd wd : 1 <= mxrr cm uf rd wd.
Proof. unfold mxrr. set (t := mxrr_t _ _ _ _ _). pose proof (beta_mono_t_le (Z.to_nat cm) 0 t ltac:(lia)) as H. rewrite Binom2.beta_0_r in H. exact H. Qed.

Theorem periodic_top_total l cm rd wd uf ub : 0 <= l -> 1 <= cm -> exists ops, periodic_top l cm rd wd uf ub = Ok (ops, mxrr cm uf rd wd).
Proof.
  intros Hl Hcm. unfold periodic_top. pose proof (mxrr_pos cm uf rd wd) as Hmx. set (mx := mxrr cm uf rd wd) in *.
  replace (Z.max mx mx) with mx by lia.
  destruct (opt0_ok (mx + 1) cm uf ub ltac:(lia)) as (t & -> & HD). cbn [bind].
  destruct (per_fwd (Z.to_nat l) l mx 0) as [fw ct] eqn:Ef.
  destruct (per_fwd_spec mx l Hmx _ _ _ _ Ef ltac:(lia)) as (k & Hct & Hfw & Hlev & Hend). cbn [Z.add] in Hct.
  assert (Hct0 : 0 <= l - ct) by (destruct k; [lia|specialize (Hlev k ltac:(lia)); nia]).
  destruct (revolve_total t (mx + 1) cm uf HD (Z.to_nat (2 * l + 4)) (l - ct) cm ltac:(lia) ltac:(lia) ltac:(lia) ltac:(lia)) as [s ->]. cbn [bind].
  destruct (revolve_total t (mx + 1) cm uf HD (Z.to_nat (2 * mx + 4)) (mx - 1) cm ltac:(lia) ltac:(lia) ltac:(lia) ltac:(lia)) as [rvm Hrvm].
  destruct (revolve_grammar _ _ _ _ _ _ Hrvm ltac:(lia) ltac:(lia)) as (rv & -> & Brv).
  assert (Hk : (k <= Z.to_nat l)%nat) by (destruct k; [lia|specialize (Hlev k ltac:(lia)); nia]).
  rewrite Hct, (per_back_spec t uf mx cm rv Hmx Hrvm k _ Hk). cbn [bind]. eexists; reflexivity.
Qed.
