(* C17, second clause: parameter tuples outside the documented domain are rejected by the constructor, or -- Multistage with
   no checkpoint unit and more than one step -- by the very first next(); never after an action. *)
From Coq Require Import ZArith List Lia Bool.
Require Import Actions NAdvance Multistage Mixed Online Ops RevConv Exec Sched.
Import ListNotations.
Open Scope Z_scope.

Lemma sched_construct_err pr : (exists e, Sched.construct pr = Err e) -> forall p ops, exists e, run_case pr p ops = Err e.
Proof. intros [e He] p ops. unfold run_case. rewrite He. exists e. reflexivity. Qed.

Theorem multistage_rejects_max_n N ram disk tj : N < 1 -> Sched.construct (PMulti N ram disk tj) = Err ValueError.
Proof. intros H. cbn [Sched.construct]. unfold Multistage.construct. destruct (Z.ltb_spec N 1); [reflexivity|lia]. Qed.

(* no unit at all and more than one step: the constructor returns, the first request raises (n_advance's ValueError) and the
   object is finished: nothing is ever yielded *)
Theorem multistage_no_units N tj : 2 <= N -> exists s,
  Sched.construct (PMulti N 0 0 tj) = Ok s /\ (exists s', Sched.next s = (s', Raise ValueError) /\ snd (Sched.next s') = StopIteration).
Proof.
  intros H. cbn [Sched.construct]. unfold Multistage.construct. destruct (Z.ltb_spec N 1); [lia|].
  replace (Z.min 0 (N - 1)) with 0 by lia. cbn [Z.eqb bind Z.to_nat repeat]. eexists. split; [reflexivity|].
  unfold Sched.next. cbn [ob]. unfold Multistage.next, Multistage.init. cbn [Multistage.resume Multistage.pcv Multistage.n_ Multistage.snaps Multistage.max_n Multistage.mk].
  destruct (Z.ltb_spec 0 (N - 1)); [|lia]. unfold total. cbn [Multistage.labels length len Multistage.tr]. unfold nadv, n_advance.
  replace (N - 0) with N by lia. destruct (Z.ltb_spec N 1); [lia|]. cbn [Z.sub Z.of_nat Z.ltb Z.compare orb].
  eexists. split; [reflexivity|]. reflexivity.
Qed.

Theorem mixed_rejects N s sg : N < 1 \/ s < Z.min 1 (N - 1) \/ sg = WORK \/ sg = NONE -> Sched.construct (PMixed N s sg false) = Err ValueError /\ Sched.construct (PMixed N s sg true) = Err ValueError.
Proof.
  intros H. cbn [Sched.construct]. unfold Mixed.construct.
  destruct (Z.ltb_spec s (Z.min 1 (N - 1))); [split; reflexivity|].
  destruct H as [H|[H|[-> | ->]]]; try lia; try (split; reflexivity).
  destruct (Z.ltb_spec N 1); [|lia]. destruct sg; split; reflexivity.
Qed.

Theorem twolevel_rejects P bs bst tj : P < 1 \/ bst = WORK \/ bst = NONE -> Sched.construct (PTwo P bs bst tj) = Err ValueError.
Proof.
  intros H. cbn [Sched.construct Online.construct]. destruct (Z.ltb_spec P 1); [reflexivity|].
  destruct H as [H|[-> | ->]]; [lia|reflexivity|reflexivity].
Qed.

Theorem revolve_rejects k N ram disk uf ub wd rd : N < 1 \/ ram < Z.min 1 (N - 1) -> exists e, Sched.construct (PRev k N ram disk uf ub wd rd) = Err e.
Proof.
  intros H. cbn [Sched.construct]. unfold RevConv.construct.
  destruct (sequence k N ram disk uf ub wd rd) as [o|e]; [|exists e; reflexivity]. cbn [bind].
  destruct (Z.ltb_spec N 1); [eexists; reflexivity|]. destruct (Z.ltb_spec ram (Z.min 1 (N - 1))); [eexists; reflexivity|]. lia.
Qed.
Print Assumptions multistage_no_units.
Print Assumptions revolve_rejects.
