(* The basic online classes, driven by a client against the reference executor: every action is accepted, n / r / max_n
   agree with the execution, nothing raises -- for every N, every pass, every number of requests.
   SingleDiskStorageSchedule (copy and move), SingleMemoryStorageSchedule, NoneCheckpointSchedule. *)
From Coq Require Import ZArith List Lia Bool.
Require Import Actions NAdvance Multistage Mixed Online Ops RevConv Exec Sched ExecFacts RunFacts.
Import ListNotations.
Open Scope Z_scope.

Definition cpd (i : Z) : cp := {| cp_ics := None; cp_deps := Some (i, i + 1) |}.
Fixpoint dstore (j : nat) : store := match j with O => [] | S j' => (Z.of_nat j', cpd (Z.of_nat j')) :: dstore j' end.

Lemma dstore_lookup_ge j i : Z.of_nat j <= i -> lookup i (dstore j) = None.
Proof.
  induction j as [|j IH]; intros H; [reflexivity|]. cbn [dstore lookup].
  destruct (Z.eqb_spec i (Z.of_nat j)); [lia|]. apply IH. lia.
Qed.
Lemma dstore_lookup_lt j i : 0 <= i < Z.of_nat j -> lookup i (dstore j) = Some (cpd i).
Proof.
  induction j as [|j IH]; intros H; [lia|]. cbn [dstore lookup].
  destruct (Z.eqb_spec i (Z.of_nat j)) as [->|]; [reflexivity|]. apply IH. lia.
Qed.
Lemma dstore_remove_top j : remove (Z.of_nat j) (dstore (S j)) = dstore j.
Proof. cbn [dstore remove]. rewrite Z.eqb_refl. reflexivity. Qed.
Lemma zlist_eqb_refl l : zlist_eqb l l = true.
Proof. induction l as [|x l IH]; [reflexivity|]. cbn. rewrite Z.eqb_refl, IH. reflexivity. Qed.

Lemma check_load_same p k e x n sg (b : bool) :
  check p k e x ((if b then Move else Copy) n sg WORK) = check p k e x (Copy n sg WORK).
Proof. destruct b; reflexivity. Qed.
Lemma apply_load p e x n sg (b : bool) c :
  lookup n (sel x sg) = Some c ->
  apply p e x ((if b then Move else Copy) n sg WORK) =
  let x1 := if b then set_store x sg (remove n (sel x sg)) else x in
  let x2 := set_cnt x1 (count_read (cnt x1) sg) in
  set_work x2 (if match cp_ics c with Some (a0, b0) => (a0 <=? n) && (n <? b0) | None => false end then Some n else None) (cp_ics c) (cp_deps c).
Proof. intros H. destruct b; unfold apply; rewrite H; reflexivity. Qed.

Ltac side := try reflexivity; try (unfold fwd_is; cbn [fwd]); bool_true; try lia; auto.

Section DISK.
Variable mv : bool.
Variable N : Z.
Hypothesis HN : 1 <= N.
Definition pd := {| xN := N; keep_all_deps := false; budget_ram := Some 0; budget_disk := None |}.
Definition dsched (pc : Online.pc) (n r : Z) (m : option Z) (e st : bool) : sched :=
  {| ob := OOnline {| Online.k := KDisk mv; Online.pcv := pc; Online.b := {| Online.n_ := n; Online.r_ := r; Online.max_n_ := m |};
                      Online.snaps := []; Online.exh := e |}; started := st |}.

(* ---- forward phase: j actions requested, schedule not finalised ---- *)
Definition xfwd (j : nat) (c : counters) : xstate :=
  {| fwd := Some (Z.of_nat j); w_ics := None; w_deps := None; ram := []; disk := dstore j; rr := 0; seen_endfwd := false;
     passes := 0; ram0 := []; disk0 := []; cnt := c |}.
Inductive Ifwd : nat -> sched -> mon -> Prop :=
 | Ifwd0 : Ifwd 0 (dsched PStart 0 0 None false false) mon0
 | IfwdS j c cnt : Ifwd (S j) (dsched PFwd (Z.of_nat (S j)) 0 None false true) {| mx := xfwd (S j) c; merr_ := None; mcount := cnt |}.

Lemma fwd_step j s m : Ifwd j s m -> Z.of_nat j < N ->
  exists s' m', run_ops pd s m [Next] = (s', m', [LNext (Yield (Forward (Z.of_nat j) (Z.of_nat j + 1) false true DISK)) (observe s')])
                /\ Ifwd (S j) s' m'.
Proof.
  intros HI Hj.
  assert (Hgen : forall pc st x cnt0, (pc = PStart \/ pc = PFwd) -> x = xfwd j (cnt x) ->
     exists s' m', run_ops pd (dsched pc (Z.of_nat j) 0 None false st) {| mx := x; merr_ := None; mcount := cnt0 |} [Next]
        = (s', m', [LNext (Yield (Forward (Z.of_nat j) (Z.of_nat j + 1) false true DISK)) (observe s')]) /\ Ifwd (S j) s' m').
  { intros pc st x cnt0 Hpc Hx.
    cbn [run_ops]. unfold next, dsched. cbn [ob]. unfold Online.next.
    assert (Hres : Online.resume 4 {| Online.k := KDisk mv; Online.pcv := pc; Online.b := {| Online.n_ := Z.of_nat j; Online.r_ := 0; Online.max_n_ := None |}; Online.snaps := []; Online.exh := false |}
              = ({| Online.k := KDisk mv; Online.pcv := PFwd; Online.b := {| Online.n_ := Z.of_nat j + 1; Online.r_ := 0; Online.max_n_ := None |}; Online.snaps := []; Online.exh := false |},
                 Yield (Forward (Z.of_nat j) (Z.of_nat j + 1) false true DISK))).
    { destruct Hpc as [-> | ->]; reflexivity. }
    rewrite Hres. clear Hres.
    set (s' := {| ob := OOnline _; started := true |}).
    assert (Hex : exec pd (negb (isnone (get_max_n s'))) (is_exhausted s') x (Forward (Z.of_nat j) (Z.of_nat j + 1) false true DISK)
                  = inl (xfwd (S j) (count_fwd (count_put (cnt x) DISK (len (dstore j) + 1)) 1))).
    { rewrite exec_ok.
      - f_equal. rewrite Hx. unfold apply, pd, xfwd. cbn [xN cnt]. rewrite Z.min_l by lia.
        cbn [st_eqb andb put is_cp set_work set_store set_cnt sel disk ram fwd w_ics w_deps rr seen_endfwd passes ram0 disk0 cnt dstore].
        unfold cpd. replace (Z.of_nat (S j)) with (Z.of_nat j + 1) by lia.
        replace (Z.of_nat j + 1 - Z.of_nat j) with 1 by lia. reflexivity.
      - rewrite Hx. unfold check, pd, xfwd. cbn [xN keep_all_deps fwd rr]. rewrite Z.min_l by lia.
        cbn [is_cp st_eqb andb orb negb].
        change (get_max_n s') with (@None Z). cbn [isnone negb orb].
        cbn [app can_put is_cp sel disk budget budget_disk within]. rewrite dstore_lookup_ge by lia.
        repeat (rewrite first_err_ok; [|side]). reflexivity. }
    eexists s', _. split; [reflexivity|].
    rewrite (mon_step_ok pd s' _ {| mx := x; merr_ := None; mcount := cnt0 |} _ eq_refl Hex).
    + subst s'. replace (Z.of_nat j + 1) with (Z.of_nat (S j)) by lia. apply IfwdS.
    + cbn [fwd xfwd get_max_n s' ob Online.max_n_ Online.b isnone andb get_n Online.n_ xN pd].
      destruct (Z.eqb_spec (Z.of_nat (S j)) N); bool_true; lia.
    + reflexivity.
    + reflexivity. }
  inversion HI; subst.
  - apply (Hgen PStart false x0 0); [auto|reflexivity].
  - apply (Hgen PFwd true (xfwd (S j0) c) cnt); [auto|reflexivity].
Qed.

Lemma fwd_phase : forall j, Z.of_nat j <= N ->
  exists s m ls, run_ops pd (dsched PStart 0 0 None false false) mon0 (repeat Next j) = (s, m, ls) /\ Ifwd j s m /\ no_raise ls.
Proof.
  induction j as [|j IH]; intros Hj.
  - exists (dsched PStart 0 0 None false false), mon0, []. repeat split; [constructor|constructor].
  - destruct (IH ltac:(lia)) as (s & m & ls & Hrun & HI & Hnr).
    destruct (fwd_step j s m HI ltac:(lia)) as (s' & m' & Hstep & HI').
    replace (S j) with (j + 1)%nat by lia. rewrite repeat_app. cbn [repeat].
    rewrite run_ops_app, Hrun, Hstep. eexists _, _, _. split; [reflexivity|]. split; [replace (j + 1)%nat with (S j) by lia; exact HI'|].
    apply Forall_app. split; [exact Hnr|]. constructor; [exact Logic.I|constructor].
Qed.

(* ---- after finalisation ---- *)
Definition NN := Z.to_nat N.
Definition xrev (fw : option Z) (wd : option range) (dk : store) (r ps : Z) (c : counters) : xstate :=
  {| fwd := fw; w_ics := None; w_deps := wd; ram := []; disk := dk; rr := r; seen_endfwd := true;
     passes := ps; ram0 := []; disk0 := sort_keys (keys (dstore NN)); cnt := c |}.
Definition dleft (r : Z) : store := if mv then dstore (Z.to_nat (N - r)) else dstore NN.
Inductive Irev : sched -> mon -> Prop :=
 | IrevA c cn : Irev (dsched PFwd N 0 (Some N) false true) {| mx := xfwd NN c; merr_ := None; mcount := cn |}
 | IrevB n r fw ps c cn : 0 <= r <= N -> (fw = None \/ (fw = Some N /\ n = N /\ r = 0)) ->
     Irev (dsched PDiskLoop n r (Some N) false true) {| mx := xrev fw None (dleft r) r ps c; merr_ := None; mcount := cn |}
 | IrevC r ps c cn : 0 <= r < N ->
     Irev (dsched (PDiskAfterLoad (N - r) (N - r - 1)) (N - r - 1) r (Some N) false true)
          {| mx := xrev None (Some (N - r - 1, N - r)) (dleft (r + 1)) r ps c; merr_ := None; mcount := cn |}
 | IrevD n ps c cn : mv = true ->
     Irev (dsched PFinished n N (Some N) true true) {| mx := xrev None None [] N ps c; merr_ := None; mcount := cn |}.

Lemma dleft_lookup r : 0 <= r < N -> lookup (N - r - 1) (dleft r) = Some (cpd (N - r - 1)).
Proof. intros H. unfold dleft, NN. destruct mv; apply dstore_lookup_lt; lia. Qed.
Lemma dleft_remove r : 0 <= r < N -> (if mv then remove (N - r - 1) (dleft r) else dleft r) = dleft (r + 1).
Proof.
  intros H. unfold dleft. destruct mv; [|reflexivity].
  replace (Z.to_nat (N - r)) with (S (Z.to_nat (N - (r + 1)))) by lia.
  replace (N - r - 1) with (Z.of_nat (Z.to_nat (N - (r + 1)))) by lia. apply dstore_remove_top.
Qed.

Lemma rev_step s m : Irev s m -> mon_ok m -> good_step pd Irev s m.
Proof.
  intros HI _. unfold good_step. inversion HI; subst; clear HI.
  - (* EndForward *)
    unfold next, dsched. cbn [ob]. unfold Online.next.
    change (Online.resume 4 _) with
      ({| Online.k := KDisk mv; Online.pcv := PDiskLoop; Online.b := {| Online.n_ := N; Online.r_ := 0; Online.max_n_ := Some N |}; Online.snaps := []; Online.exh := false |}, Yield EndForward).
    cbv beta iota zeta.
    set (s' := {| ob := OOnline _; started := true |}).
    assert (Hex : exec pd (negb (isnone (get_max_n s'))) (is_exhausted s') (xfwd NN c) EndForward = inl (xrev (Some N) None (dleft 0) 0 0 c)).
    { rewrite exec_ok.
      - unfold apply, xfwd, xrev, dleft, NN. cbn [fwd w_ics w_deps ram disk rr passes cnt keys map sort_keys fold_right].
        rewrite Z.sub_0_r. replace (Z.of_nat (Z.to_nat N)) with N by lia. destruct mv; reflexivity.
      - unfold check, xfwd, pd, NN. cbn [xN seen_endfwd negb]. repeat (rewrite first_err_ok; [|side]). reflexivity. }
    rewrite (mon_step_ok pd s' _ {| mx := xfwd NN c; merr_ := None; mcount := cn |} _ eq_refl Hex).
    + split; [reflexivity|]. subst s'. apply IrevB; [lia|right; auto].
    + cbn [fwd xrev get_max_n s' ob Online.max_n_ Online.b isnone andb get_n Online.n_]. bool_true. reflexivity.
    + reflexivity.
    + cbn [get_max_n s' ob Online.max_n_ Online.b oz_ok xN pd]. bool_true. reflexivity.
  - (* loop head *)
    match goal with H : fw = None \/ _ |- _ => rename H into Hfw end.
    unfold next, dsched. cbn [ob]. unfold Online.next.
    destruct (Z.ltb_spec r N) as [Hlt|Hge].
    + (* load *)
      assert (Hres : Online.resume 4 {| Online.k := KDisk mv; Online.pcv := PDiskLoop; Online.b := {| Online.n_ := n; Online.r_ := r; Online.max_n_ := Some N |}; Online.snaps := []; Online.exh := false |}
          = ({| Online.k := KDisk mv; Online.pcv := PDiskAfterLoad (N - r) (N - r - 1); Online.b := {| Online.n_ := N - r - 1; Online.r_ := r; Online.max_n_ := Some N |}; Online.snaps := []; Online.exh := false |},
             Yield ((if mv then Move else Copy) (N - r - 1) DISK WORK))).
      { cbn [Online.resume Online.k Online.pcv Online.b Online.max_n_ Online.r_ Online.n_]. destruct (Z.ltb_spec r N); [|lia]. reflexivity. }
      rewrite Hres. clear Hres. cbv beta iota zeta.
      set (s' := {| ob := OOnline _; started := true |}).
      set (a := (if mv then Move else Copy) (N - r - 1) DISK WORK).
      assert (Hex : exec pd (negb (isnone (get_max_n s'))) (is_exhausted s') (xrev fw None (dleft r) r ps c) a
                    = inl (xrev None (Some (N - r - 1, N - r)) (dleft (r + 1)) r ps (count_read c DISK))).
      { rewrite exec_ok.
        - subst a. rewrite (apply_load _ _ _ _ _ _ (cpd (N - r - 1))) by (cbn [sel xrev disk]; apply dleft_lookup; lia).
          unfold xrev, cpd. cbn [cp_ics cp_deps sel disk]. rewrite <- (dleft_remove r) by lia.
          destruct mv; cbn [set_store set_cnt set_work fwd w_ics w_deps ram disk rr seen_endfwd passes ram0 disk0 cnt];
            replace (N - r - 1 + 1) with (N - r) by lia; reflexivity.
        - subst a. rewrite check_load_same. unfold check, xrev, pd. cbn [xN keep_all_deps sel disk seen_endfwd w_ics w_deps rr].
          rewrite (dleft_lookup r) by lia. unfold cpd. cbn [cp_ics cp_deps wlen app isnone negb andb orb is_cp].
          repeat (rewrite first_err_ok; [|side]). reflexivity. }
      rewrite (mon_step_ok pd s' _ {| mx := xrev fw None (dleft r) r ps c; merr_ := None; mcount := cn |} _ eq_refl Hex).
      * split; [reflexivity|]. subst s'. apply IrevC. lia.
      * reflexivity.
      * reflexivity.
      * cbn [get_max_n s' ob Online.max_n_ Online.b oz_ok xN pd]. bool_true. reflexivity.
    + (* EndReverse *)
      assert (r = N) by lia. subst r.
      destruct mv eqn:Emv.
      * assert (Hres : Online.resume 4 {| Online.k := KDisk true; Online.pcv := PDiskLoop; Online.b := {| Online.n_ := n; Online.r_ := N; Online.max_n_ := Some N |}; Online.snaps := []; Online.exh := false |}
          = ({| Online.k := KDisk true; Online.pcv := PFinished; Online.b := {| Online.n_ := n; Online.r_ := N; Online.max_n_ := Some N |}; Online.snaps := []; Online.exh := true |}, Yield EndReverse)).
        { cbn [Online.resume Online.k Online.pcv Online.b Online.max_n_ Online.r_ Online.n_]. destruct (Z.ltb_spec N N); [lia|].
          destruct (Z.gtb_spec N N); [lia|]. reflexivity. }
        rewrite Hres. clear Hres. cbv beta iota zeta.
        set (s' := {| ob := OOnline _; started := true |}).
        assert (Hd : dleft N = []) by (unfold dleft; rewrite Emv, Z.sub_diag; reflexivity).
        assert (Hex : exec pd (negb (isnone (get_max_n s'))) (is_exhausted s') (xrev fw None (dleft N) N ps c) EndReverse
                      = inl (xrev fw None [] N (ps + 1) c)).
        { rewrite Hd. rewrite exec_ok; [reflexivity|].
          unfold check, xrev, pd. cbn [xN seen_endfwd rr ram disk]. change (is_exhausted s') with true. cbv iota.
          repeat (rewrite first_err_ok; [|side]). reflexivity. }
        rewrite (mon_step_ok pd s' _ {| mx := xrev fw None (dleft N) N ps c; merr_ := None; mcount := cn |} _ eq_refl Hex).
        -- split; [reflexivity|]. subst s'.
           destruct Hfw as [->|(-> & -> & ?)].
           ++ pose proof (IrevD n (ps + 1) c (cn + 1) Emv) as HD. unfold dsched in HD. rewrite Emv in HD. exact HD.
           ++ (* fw = Some N with r = N: impossible only if N = 0; here it is the state right after EndForward with r = 0 = N *) lia.
        -- cbn [fwd xrev get_max_n s' ob Online.max_n_ Online.b isnone andb get_n Online.n_].
           destruct Hfw as [->|(-> & -> & ?)]; [reflexivity|bool_true; reflexivity].
        -- reflexivity.
        -- cbn [get_max_n s' ob Online.max_n_ Online.b oz_ok xN pd]. bool_true. reflexivity.
      * assert (Hres : Online.resume 4 {| Online.k := KDisk false; Online.pcv := PDiskLoop; Online.b := {| Online.n_ := n; Online.r_ := N; Online.max_n_ := Some N |}; Online.snaps := []; Online.exh := false |}
          = ({| Online.k := KDisk false; Online.pcv := PDiskLoop; Online.b := {| Online.n_ := n; Online.r_ := 0; Online.max_n_ := Some N |}; Online.snaps := []; Online.exh := false |}, Yield EndReverse)).
        { cbn [Online.resume Online.k Online.pcv Online.b Online.max_n_ Online.r_ Online.n_]. destruct (Z.ltb_spec N N); [lia|].
          destruct (Z.gtb_spec N N); [lia|]. reflexivity. }
        rewrite Hres. clear Hres. cbv beta iota zeta.
        set (s' := {| ob := OOnline _; started := true |}).
        assert (Hd : forall r', dleft r' = dstore NN) by (intros; unfold dleft; rewrite Emv; reflexivity).
        assert (Hex : exec pd (negb (isnone (get_max_n s'))) (is_exhausted s') (xrev fw None (dleft N) N ps c) EndReverse
                      = inl (xrev fw None (dleft 0) 0 (ps + 1) c)).
        { rewrite !Hd. rewrite exec_ok; [reflexivity|].
          unfold check, xrev, pd. cbn [xN seen_endfwd rr ram disk ram0 disk0 keys map sort_keys fold_right zlist_eqb andb].
          change (is_exhausted s') with false. cbv iota. rewrite zlist_eqb_refl.
          repeat (rewrite first_err_ok; [|side]). reflexivity. }
        rewrite (mon_step_ok pd s' _ {| mx := xrev fw None (dleft N) N ps c; merr_ := None; mcount := cn |} _ eq_refl Hex).
        -- split; [reflexivity|]. subst s'.
           assert (HB : forall fw', (fw' = None \/ fw' = Some N /\ n = N /\ 0 = 0) -> Irev (dsched PDiskLoop n 0 (Some N) false true) {| mx := xrev fw' None (dleft 0) 0 (ps + 1) c; merr_ := None; mcount := cn + 1 |})
             by (intros; apply IrevB; [lia|assumption]).
           unfold dsched in HB. rewrite Emv in HB. apply HB. destruct Hfw as [->|(-> & -> & ?)]; [left; reflexivity|lia].
        -- cbn [fwd xrev get_max_n s' ob Online.max_n_ Online.b isnone andb get_n Online.n_].
           destruct Hfw as [->|(-> & -> & ?)]; [reflexivity|bool_true; reflexivity].
        -- reflexivity.
        -- cbn [get_max_n s' ob Online.max_n_ Online.b oz_ok xN pd]. bool_true. reflexivity.
  - (* Reverse *)
    unfold next, dsched. cbn [ob]. unfold Online.next.
    change (Online.resume 4 _) with
      ({| Online.k := KDisk mv; Online.pcv := PDiskLoop; Online.b := {| Online.n_ := N - r - 1; Online.r_ := N - (N - r - 1); Online.max_n_ := Some N |}; Online.snaps := []; Online.exh := false |},
       Yield (Reverse (N - r) (N - r - 1) true)).
    cbv beta iota zeta.
    set (s' := {| ob := OOnline _; started := true |}).
    assert (Hex : exec pd (negb (isnone (get_max_n s'))) (is_exhausted s') (xrev None (Some (N - r - 1, N - r)) (dleft (r + 1)) r ps c) (Reverse (N - r) (N - r - 1) true)
                  = inl (xrev None None (dleft (r + 1)) (r + 1) ps c)).
    { rewrite exec_ok.
      - unfold apply, xrev, set_rr. cbn [fwd w_ics w_deps ram disk rr seen_endfwd passes ram0 disk0 cnt]. f_equal. f_equal. lia.
      - unfold check, xrev, pd. cbn [xN seen_endfwd rr w_deps covers]. repeat (rewrite first_err_ok; [|side]). reflexivity. }
    rewrite (mon_step_ok pd s' _ {| mx := xrev None (Some (N - r - 1, N - r)) (dleft (r + 1)) r ps c; merr_ := None; mcount := cn |} _ eq_refl Hex).
    + split; [reflexivity|]. subst s'. replace (N - (N - r - 1)) with (r + 1) by lia. apply IrevB; [lia|left; reflexivity].
    + reflexivity.
    + cbn [get_r s' ob Online.r_ Online.b xrev rr]. lia.
    + cbn [get_max_n s' ob Online.max_n_ Online.b oz_ok xN pd]. bool_true. reflexivity.
  - (* finished *)
    unfold next, dsched. cbn [ob]. unfold Online.next. cbn [Online.resume Online.k Online.pcv]. cbv beta iota zeta.
    unfold set_pc. cbn [Online.k Online.pcv Online.b Online.snaps Online.exh]. apply IrevD. assumption.
Qed.

(* the whole client run: N forward actions, finalize(N), then any number of further requests (any number of passes) *)
Theorem single_disk_run : forall k,
  exists o0 m ls, run_case (PDisk mv) pd (repeat Next NN ++ [Fin N] ++ repeat Next k) = Ok (o0, m, ls)
                  /\ mon_ok m /\ no_raise ls.
Proof.
  intros k. unfold run_case. change (construct (PDisk mv)) with (Ok (dsched PStart 0 0 None false false)). cbn [bind].
  destruct (fwd_phase NN ltac:(unfold NN; lia)) as (s & m & ls & Hrun & HI & Hnr).
  rewrite run_ops_app, Hrun.
  assert (HS : exists j, NN = S j) by (exists (Nat.pred NN); unfold NN; lia). destruct HS as [j Hj].
  rewrite Hj in HI. inversion HI; subst. clear HI.
  replace (Z.of_nat (S j)) with N by (unfold NN in *; lia).
  change ([Fin N] ++ repeat Next k) with (Fin N :: repeat Next k). cbn [run_ops].
  assert (Hfin : finalize N (dsched PFwd N 0 None false true) = (dsched PFwd N 0 (Some N) false true, None)).
  { unfold finalize, dsched. cbn [ob Online.b Online.k Online.pcv Online.snaps Online.exh started]. unfold Online.finalize.
    cbn [Online.max_n_ Online.n_ Online.r_]. destruct (Z.ltb_spec N 1); [lia|]. destruct (Z.geb_spec N N); [|lia]. reflexivity. }
  rewrite Hfin.
  pose proof (run_nexts pd Irev rev_step k (dsched PFwd N 0 (Some N) false true) {| mx := xfwd (S j) c; merr_ := None; mcount := cnt |}) as Hr.
  rewrite <- Hj in Hr. specialize (Hr (IrevA c cnt) eq_refl).
  rewrite <- Hj. destruct (run_ops pd _ _ (repeat Next k)) as [[s2 m2] l2]. destruct Hr as (_ & Hm2 & Hl2).
  eexists _, _, _. split; [reflexivity|]. split; [exact Hm2|].
  apply Forall_app. split; [exact Hnr|]. constructor; [exact Logic.I|exact Hl2].
Qed.
End DISK.

(* ================= SingleMemoryStorageSchedule and NoneCheckpointSchedule ================= *)
Section MEMNONE.
Variable N : Z.
Hypothesis HN : 1 <= N.
Hypothesis HNmax : N <= maxsize.     (* the first Forward asks for sys.maxsize steps; the client finalises at N *)

Definition pm := {| xN := N; keep_all_deps := true; budget_ram := Some 0; budget_disk := Some 0 |}.
Definition pn := {| xN := N; keep_all_deps := false; budget_ram := Some 0; budget_disk := Some 0 |}.
Definition osched (kl : kls) (pc : Online.pc) (n r : Z) (m : option Z) (e st : bool) : sched :=
  {| ob := OOnline {| Online.k := kl; Online.pcv := pc; Online.b := {| Online.n_ := n; Online.r_ := r; Online.max_n_ := m |};
                      Online.snaps := []; Online.exh := e |}; started := st |}.
Definition xw (fw : option Z) (wd : option range) (r ps : Z) (se : bool) (c : counters) : xstate :=
  {| fwd := fw; w_ics := None; w_deps := wd; ram := []; disk := []; rr := r; seen_endfwd := se;
     passes := ps; ram0 := []; disk0 := []; cnt := c |}.

(* first action + finalize: common to both classes *)
Lemma first_forward (kl : kls) (wa : bool) (sg : storage) (p : xparams) :
  xN p = N -> budget_ram p = Some 0 -> budget_disk p = Some 0 -> is_cp sg = false -> (st_eqb sg NONE = true -> wa = false) ->
  (st_eqb sg WORK && wa = true -> keep_all_deps p = true) ->
  Online.next {| Online.k := kl; Online.pcv := PStart; Online.b := {| Online.n_ := 0; Online.r_ := 0; Online.max_n_ := None |}; Online.snaps := []; Online.exh := false |}
    = ({| Online.k := kl; Online.pcv := PFwd; Online.b := {| Online.n_ := maxsize; Online.r_ := 0; Online.max_n_ := None |}; Online.snaps := []; Online.exh := false |},
       Yield (Forward 0 maxsize false wa sg)) ->
  run_ops p (osched kl PStart 0 0 None false false) mon0 [Next; Fin N] =
  (osched kl PFwd N 0 (Some N) false true,
   {| mx := xw (Some N) (if st_eqb sg WORK && wa then Some (0, N) else None) 0 0 false (count_fwd c0 N); merr_ := None; mcount := 1 |},
   [LNext (Yield (Forward 0 maxsize false wa sg)) (observe (osched kl PFwd maxsize 0 None false true));
    LFin None (observe (osched kl PFwd N 0 (Some N) false true))]).
Proof.
  intros HpN Hbr Hbd Hsg Hnone Hkeep Hnext. cbn [run_ops]. unfold next at 1. unfold osched at 1. cbn [ob]. rewrite Hnext.
  set (s' := {| ob := OOnline _; started := true |}).
  assert (Hex : exec p (negb (isnone (get_max_n s'))) (is_exhausted s') x0 (Forward 0 maxsize false wa sg)
                = inl (xw (Some N) (if st_eqb sg WORK && wa then Some (0, N) else None) 0 0 false (count_fwd c0 N))).
  { assert (Hmin : Z.min maxsize N = N) by lia.
    rewrite exec_ok.
    - unfold apply. rewrite HpN, Hmin. unfold put. rewrite Hsg. rewrite andb_false_r. rewrite Z.sub_0_r. reflexivity.
    - unfold check. rewrite HpN, Hmin. change (get_max_n s') with (@None Z). cbn [isnone negb orb].
      unfold can_put. rewrite Hsg. rewrite app_nil_r. cbn [andb orb negb].
      rewrite first_err_ok by (unfold maxsize; reflexivity).
      rewrite first_err_ok by (destruct (st_eqb sg NONE) eqn:E; [rewrite (Hnone eq_refl); reflexivity|destruct wa; reflexivity]).
      rewrite first_err_ok by reflexivity. rewrite first_err_ok by reflexivity.
      rewrite first_err_ok by (bool_true; lia). rewrite first_err_ok by reflexivity. rewrite first_err_ok by reflexivity.
      rewrite first_err_ok; [reflexivity|].
      destruct (st_eqb sg WORK && wa) eqn:E; [rewrite (Hkeep eq_refl); reflexivity|reflexivity]. }
  rewrite (mon_step_ok p s' _ mon0 _ eq_refl Hex).
  - assert (Hfin : finalize N s' = (osched kl PFwd N 0 (Some N) false true, None)).
    { subst s'. unfold finalize, osched. cbn [ob Online.b Online.k Online.pcv Online.snaps Online.exh started]. unfold Online.finalize.
      cbn [Online.max_n_ Online.n_ Online.r_]. destruct (Z.ltb_spec N 1); [lia|]. destruct (Z.geb_spec maxsize N); [|lia]. reflexivity. }
    rewrite Hfin. reflexivity.
  - cbn [fwd xw]. change (get_max_n s') with (@None Z). cbn [isnone andb]. rewrite HpN, Z.eqb_refl. subst s'. cbn [get_n ob Online.n_ Online.b]. bool_true. lia.
  - reflexivity.
  - reflexivity.
Qed.

(* ---- NoneCheckpointSchedule: Forward, (finalize), EndForward, then StopIteration for ever; exhausted from EndForward on ---- *)
Inductive Inone : sched -> mon -> Prop :=
 | InoneA c cn : Inone (osched KNone_ PFwd N 0 (Some N) false true) {| mx := xw (Some N) None 0 0 false c; merr_ := None; mcount := cn |}
 | InoneB c cn : Inone (osched KNone_ PFinished N 0 (Some N) true true) {| mx := xw (Some N) None 0 0 true c; merr_ := None; mcount := cn |}.
Lemma none_step s m : Inone s m -> mon_ok m -> good_step pn Inone s m.
Proof.
  intros HI _. unfold good_step. inversion HI; subst; clear HI.
  - unfold next, osched. cbn [ob]. unfold Online.next.
    change (Online.resume 4 _) with
      ({| Online.k := KNone_; Online.pcv := PFinished; Online.b := {| Online.n_ := N; Online.r_ := 0; Online.max_n_ := Some N |}; Online.snaps := []; Online.exh := true |}, Yield EndForward).
    cbv beta iota zeta. set (s' := {| ob := OOnline _; started := true |}).
    assert (Hex : exec pn (negb (isnone (get_max_n s'))) (is_exhausted s') (xw (Some N) None 0 0 false c) EndForward = inl (xw (Some N) None 0 0 true c)).
    { rewrite exec_ok; [reflexivity|]. unfold check, xw, pn. cbn [xN seen_endfwd negb]. repeat (rewrite first_err_ok; [|side]). reflexivity. }
    rewrite (mon_step_ok pn s' _ {| mx := xw (Some N) None 0 0 false c; merr_ := None; mcount := cn |} _ eq_refl Hex).
    + split; [reflexivity|]. apply InoneB.
    + cbn [fwd xw get_max_n s' ob Online.max_n_ Online.b isnone andb get_n Online.n_]. bool_true. reflexivity.
    + reflexivity.
    + cbn [get_max_n s' ob Online.max_n_ Online.b oz_ok xN pn]. bool_true. reflexivity.
  - unfold next, osched. cbn [ob]. unfold Online.next. cbn [Online.resume Online.k Online.pcv]. cbv beta iota zeta. apply InoneB.
Qed.
Theorem none_run : forall k,
  exists o0 m ls, run_case PNone pn ([Next; Fin N] ++ repeat Next k) = Ok (o0, m, ls) /\ mon_ok m /\ no_raise ls.
Proof.
  intros k. unfold run_case. change (construct PNone) with (Ok (osched KNone_ PStart 0 0 None false false)). cbn [bind].
  rewrite run_ops_app. rewrite (first_forward KNone_ false NONE pn) by (try reflexivity; try discriminate; auto).
  cbn [st_eqb andb].
  pose proof (run_nexts pn Inone none_step k _ _ (InoneA (count_fwd c0 N) 1) eq_refl) as Hr.
  destruct (run_ops pn _ _ (repeat Next k)) as [[s2 m2] l2]. destruct Hr as (_ & Hm2 & Hl2).
  eexists _, _, _. split; [reflexivity|]. split; [exact Hm2|].
  constructor; [exact Logic.I|]. constructor; [exact Logic.I|exact Hl2].
Qed.

(* ---- SingleMemoryStorageSchedule: unlimited passes, each pass = Reverse(N, 0, clear_adj_deps=False); EndReverse ---- *)
Inductive Imem : sched -> mon -> Prop :=
 | ImemA c cn : Imem (osched KMem PFwd N 0 (Some N) false true) {| mx := xw (Some N) (Some (0, N)) 0 0 false c; merr_ := None; mcount := cn |}
 | ImemB r ps c cn : (r = 0 \/ r = N) -> Imem (osched KMem PMemRev N r (Some N) false true) {| mx := xw (Some N) (Some (0, N)) r ps true c; merr_ := None; mcount := cn |}.
Lemma mem_step s m : Imem s m -> mon_ok m -> good_step pm Imem s m.
Proof.
  intros HI _. unfold good_step. inversion HI; subst; clear HI.
  - unfold next, osched. cbn [ob]. unfold Online.next.
    change (Online.resume 4 _) with
      ({| Online.k := KMem; Online.pcv := PMemRev; Online.b := {| Online.n_ := N; Online.r_ := 0; Online.max_n_ := Some N |}; Online.snaps := []; Online.exh := false |}, Yield EndForward).
    cbv beta iota zeta. set (s' := {| ob := OOnline _; started := true |}).
    assert (Hex : exec pm (negb (isnone (get_max_n s'))) (is_exhausted s') (xw (Some N) (Some (0, N)) 0 0 false c) EndForward = inl (xw (Some N) (Some (0, N)) 0 0 true c)).
    { rewrite exec_ok; [reflexivity|]. unfold check, xw, pm. cbn [xN seen_endfwd negb]. repeat (rewrite first_err_ok; [|side]). reflexivity. }
    rewrite (mon_step_ok pm s' _ {| mx := xw (Some N) (Some (0, N)) 0 0 false c; merr_ := None; mcount := cn |} _ eq_refl Hex).
    + split; [reflexivity|]. apply ImemB. auto.
    + cbn [fwd xw get_max_n s' ob Online.max_n_ Online.b isnone andb get_n Online.n_]. bool_true. reflexivity.
    + reflexivity.
    + cbn [get_max_n s' ob Online.max_n_ Online.b oz_ok xN pm]. bool_true. reflexivity.
  - match goal with H : r = 0 \/ r = N |- _ => destruct H as [->| ->] end.
    + (* Reverse(N, 0, False) *)
      unfold next, osched. cbn [ob]. unfold Online.next.
      change (Online.resume 4 _) with
        ({| Online.k := KMem; Online.pcv := PMemRev; Online.b := {| Online.n_ := N; Online.r_ := N; Online.max_n_ := Some N |}; Online.snaps := []; Online.exh := false |}, Yield (Reverse N 0 false)).
      cbv beta iota zeta. set (s' := {| ob := OOnline _; started := true |}).
      assert (Hex : exec pm (negb (isnone (get_max_n s'))) (is_exhausted s') (xw (Some N) (Some (0, N)) 0 ps true c) (Reverse N 0 false) = inl (xw (Some N) (Some (0, N)) N ps true c)).
      { rewrite exec_ok.
        - unfold apply, xw, set_rr. cbn [fwd w_ics w_deps ram disk rr seen_endfwd passes ram0 disk0 cnt]. replace (0 + (N - 0)) with N by lia. reflexivity.
        - unfold check, xw, pm. cbn [xN seen_endfwd rr w_deps covers]. repeat (rewrite first_err_ok; [|side]). reflexivity. }
      rewrite (mon_step_ok pm s' _ {| mx := xw (Some N) (Some (0, N)) 0 ps true c; merr_ := None; mcount := cn |} _ eq_refl Hex).
      * split; [reflexivity|]. apply ImemB. auto.
      * cbn [fwd xw get_max_n s' ob Online.max_n_ Online.b isnone andb get_n Online.n_]. bool_true. reflexivity.
      * reflexivity.
      * cbn [get_max_n s' ob Online.max_n_ Online.b oz_ok xN pm]. bool_true. reflexivity.
    + (* EndReverse, r reset *)
      unfold next, osched. cbn [ob]. unfold Online.next.
      assert (Hres : Online.resume 4 {| Online.k := KMem; Online.pcv := PMemRev; Online.b := {| Online.n_ := N; Online.r_ := N; Online.max_n_ := Some N |}; Online.snaps := []; Online.exh := false |}
          = ({| Online.k := KMem; Online.pcv := PMemRev; Online.b := {| Online.n_ := N; Online.r_ := 0; Online.max_n_ := Some N |}; Online.snaps := []; Online.exh := false |}, Yield EndReverse)).
      { cbn [Online.resume Online.k Online.pcv Online.b Online.max_n_ Online.r_ Online.n_]. destruct (Z.eqb_spec N 0); [lia|]. rewrite Z.eqb_refl. reflexivity. }
      rewrite Hres. clear Hres. cbv beta iota zeta. set (s' := {| ob := OOnline _; started := true |}).
      assert (Hex : exec pm (negb (isnone (get_max_n s'))) (is_exhausted s') (xw (Some N) (Some (0, N)) N ps true c) EndReverse = inl (xw (Some N) (Some (0, N)) 0 (ps + 1) true c)).
      { rewrite exec_ok; [reflexivity|]. unfold check, xw, pm. cbn [xN seen_endfwd rr ram disk ram0 disk0 keys map sort_keys fold_right zlist_eqb andb].
        change (is_exhausted s') with false. cbv iota. repeat (rewrite first_err_ok; [|side]). reflexivity. }
      rewrite (mon_step_ok pm s' _ {| mx := xw (Some N) (Some (0, N)) N ps true c; merr_ := None; mcount := cn |} _ eq_refl Hex).
      * split; [reflexivity|]. apply ImemB. auto.
      * cbn [fwd xw get_max_n s' ob Online.max_n_ Online.b isnone andb get_n Online.n_]. bool_true. reflexivity.
      * reflexivity.
      * cbn [get_max_n s' ob Online.max_n_ Online.b oz_ok xN pm]. bool_true. reflexivity.
Qed.
Theorem single_memory_run : forall k,
  exists o0 m ls, run_case PMem pm ([Next; Fin N] ++ repeat Next k) = Ok (o0, m, ls) /\ mon_ok m /\ no_raise ls.
Proof.
  intros k. unfold run_case. change (construct PMem) with (Ok (osched KMem PStart 0 0 None false false)). cbn [bind].
  rewrite run_ops_app. rewrite (first_forward KMem true WORK pm) by (try reflexivity; try discriminate; auto).
  cbn [st_eqb andb].
  pose proof (run_nexts pm Imem mem_step k _ _ (ImemA (count_fwd c0 N) 1) eq_refl) as Hr.
  destruct (run_ops pm _ _ (repeat Next k)) as [[s2 m2] l2]. destruct Hr as (_ & Hm2 & Hl2).
  eexists _, _, _. split; [reflexivity|]. split; [exact Hm2|].
  constructor; [exact Logic.I|]. constructor; [exact Logic.I|exact Hl2].
Qed.
End MEMNONE.
Print Assumptions single_disk_run.
Print Assumptions single_memory_run.
Print Assumptions none_run.
