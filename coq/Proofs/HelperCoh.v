(* cache_step around optimal_extra_steps with the dictionary explicit (Model/Binomial.v: zcache, zfind, loopE, EmS -- the form the
   extracted driver runs and the correspondence compares with multistage.optimal_extra_steps): whatever calls were made before,
   in this process, on the same dictionary, a successful call returns BinomDP.EC n s -- the value of the pure dynamic program
   (BinomDP.Em, which Gen/HelperGen.v proves to be the source) -- and leaves a coherent dictionary.  This is C15 for the second
   process-global cache. *)
From Coq Require Import ZArith List Lia Bool.
Require Import Actions Binomial.
Require BinomDP.
Import ListNotations.
Open Scope Z_scope.

(* ---- the two copies of the pure recursion (Binomial.Em over Actions.res, BinomDP.Em over its own result type) agree ---- *)
Definition cve (e : BinomDP.exn) : exn := match e with BinomDP.ValueError => ValueError | BinomDP.RuntimeError => RuntimeError | BinomDP.OutOfFuel => OutOfFuel end.
Definition cv {A} (r : BinomDP.res A) : res A := match r with BinomDP.Ok a => Ok a | BinomDP.Err e => Err (cve e) end.
Lemma loop_cv : forall cnt i f g m, (forall j, g j = cv (f j)) -> loop cnt i g m = cv (BinomDP.loop cnt i f m).
Proof.
  induction cnt as [|c IH]; intros i f g m H; [reflexivity|]. cbn [loop BinomDP.loop]. rewrite H.
  destruct (f i) as [m1|e]; cbn [cv bind BinomDP.bind]; [|reflexivity]. apply IH. exact H.
Qed.
Lemma Em_cv : forall fuel n s, Em fuel n s = cv (BinomDP.Em fuel n s).
Proof.
  induction fuel as [|f IH]; intros n s; [reflexivity|]. cbn [Em BinomDP.Em]. cbn zeta.
  destruct (n <=? 0); [reflexivity|]. destruct ((Z.min s (n - 1) <? Z.min 1 (n - 1)) || (Z.min s (n - 1) >? n - 1)); [reflexivity|].
  destruct (n =? 1); [reflexivity|]. destruct (Z.min s (n - 1) =? 1); [reflexivity|].
  rewrite (loop_cv _ _ (fun i => BinomDP.bind (BinomDP.Em f i (Z.min s (n - 1))) (fun a => BinomDP.bind (BinomDP.Em f (n - i) (Z.min s (n - 1) - 1)) (fun b => BinomDP.Ok (i + a + b))))).
  2:{ intros j. rewrite !IH. destruct (BinomDP.Em f j _); cbn [cv bind BinomDP.bind]; [|reflexivity]. destruct (BinomDP.Em f (n - j) _); reflexivity. }
  destruct (BinomDP.loop _ _ _ _) as [[v|]|e]; reflexivity.
Qed.
Lemma cv_ok {A} (r : BinomDP.res A) v : cv r = Ok v <-> r = BinomDP.Ok v.
Proof. destruct r; cbn [cv]; split; intros H; try discriminate; injection H as <-; reflexivity. Qed.

Notation EC := BinomDP.EC.
Lemma Em_EC f n s : 1 <= n -> (Z.to_nat n <= f)%nat -> Z.min 1 (n - 1) <= s -> Em f n s = Ok (EC n s).
Proof. intros. rewrite Em_cv. apply cv_ok. apply BinomDP.Em_EC; assumption. Qed.
Lemma Em_dom f n s v : Em f n s = Ok v -> 1 <= n /\ Z.min 1 (n - 1) <= s.
Proof.
  destruct f as [|f]; [discriminate|]. cbn [Em]. cbn zeta. destruct (Z.leb_spec n 0); [discriminate|].
  destruct (Z.ltb_spec (Z.min s (n - 1)) (Z.min 1 (n - 1))); [discriminate|]. intros _. lia.
Qed.
Lemma Em_val f n s v : Em f n s = Ok v -> v = EC n s.
Proof.
  intros H. destruct (Em_dom _ _ _ _ H) as [Hn Hs]. rewrite Em_cv in H. apply cv_ok in H.
  pose proof (BinomDP.Em_mono_le f (Nat.max f (Z.to_nat n)) n s v ltac:(lia) H) as H1.
  rewrite (BinomDP.Em_EC (Nat.max f (Z.to_nat n)) n s Hn ltac:(lia) Hs) in H1. injection H1 as <-. reflexivity.
Qed.

Lemma loop_ext : forall cnt i0 f g m r, (forall j c, f j = Ok c -> g j = Ok c) -> loop cnt i0 f m = Ok r -> loop cnt i0 g m = Ok r.
Proof.
  induction cnt as [|cnt IH]; intros i0 f g m r Hfg H; cbn [loop] in *; [exact H|].
  destruct (f i0) as [m1|] eqn:E; cbn [bind] in H; [|discriminate]. rewrite (Hfg _ _ E). cbn [bind]. eapply IH; eauto.
Qed.

(* one level of the recursion, over the pure values *)
Definition pureF (n s : Z) (i : Z) : res Z := Ok (i + EC i s + EC (n - i) (s - 1)).
Lemma EC_unfold n s : 1 <= n -> Z.min 1 (n - 1) <= s -> let s' := Z.min s (n - 1) in
  (if n =? 1 then Ok 0 else if s' =? 1 then Ok (n * (n - 1) / 2) else
   do m <- loop (Z.to_nat (n - 1)) 1 (pureF n s') None; match m with None => Err RuntimeError | Some v => Ok v end) = Ok (EC n s).
Proof.
  intros Hn Hs s'. pose proof (Em_EC (S (Z.to_nat n)) n s Hn ltac:(lia) Hs) as H. cbn [Em] in H. cbn zeta in H. fold s' in H.
  destruct (Z.leb_spec n 0); [lia|].
  replace ((s' <? Z.min 1 (n - 1)) || (s' >? n - 1)) with false in H.
  2:{ symmetry. apply orb_false_iff. split; [apply Z.ltb_ge; unfold s'; lia|rewrite Z.gtb_ltb; apply Z.ltb_ge; unfold s'; lia]. }
  destruct (n =? 1); [exact H|]. destruct (s' =? 1); [exact H|].
  destruct (loop _ 1 _ None) as [m|] eqn:El; cbn [bind] in H; [|discriminate].
  rewrite (fun Hfg => loop_ext _ _ _ (pureF n s') _ _ Hfg El); [exact H|].
  intros j c Hj. cbv beta in Hj. destruct (Em (Z.to_nat n) j s') as [a|] eqn:Ea; cbn [bind] in Hj; [|discriminate].
  destruct (Em (Z.to_nat n) (n - j) (s' - 1)) as [b|] eqn:Eb; cbn [bind] in Hj; [|discriminate].
  rewrite (Em_val _ _ _ _ Ea), (Em_val _ _ _ _ Eb) in Hj. exact Hj.
Qed.

(* ---- coherence of the dictionary ---- *)
Definition validk (n s : Z) := 1 <= n /\ Z.min 1 (n - 1) <= s <= n - 1.
Definition Coh (c : zcache) := forall n s v, zfind n s c = Some v -> validk n s /\ v = EC n s.
Definition Ext (c c' : zcache) := forall n s v, zfind n s c = Some v -> zfind n s c' = Some v.
Lemma Ext_refl c : Ext c c. Proof. intros n s v H; exact H. Qed.
Lemma Ext_trans a b c : Ext a b -> Ext b c -> Ext a c. Proof. intros H1 H2 n s v H. auto. Qed.

Definition CallOK (call : zcache -> Z -> Z -> zcache * res Z) :=
  forall c n s c' r, Coh c -> call c n s = (c', r) ->
    Coh c' /\ Ext c c' /\ (forall v, r = Ok v -> 1 <= n /\ Z.min 1 (n - 1) <= s /\ v = EC n s).

Lemma loopE_ok call : CallOK call -> forall cnt i n s c m c' r, Coh c -> loopE call cnt i n s c m = (c', r) ->
  Coh c' /\ Ext c c' /\ (forall m', r = Ok m' -> loop cnt i (pureF n s) m = Ok m').
Proof.
  intros Hcall. induction cnt as [|cnt IH]; intros i n s c m c' r Hc H; cbn [loopE] in H.
  - injection H as <- <-. split; [exact Hc|]. split; [apply Ext_refl|]. intros m' E. injection E as <-. reflexivity.
  - destruct (call c i s) as [c1 ra] eqn:E1. destruct (Hcall _ _ _ _ _ Hc E1) as (Hc1 & Hx1 & Hv1).
    destruct ra as [a|e]; [|injection H as <- <-; split; [exact Hc1|]; split; [exact Hx1|discriminate]].
    destruct (call c1 (n - i) (s - 1)) as [c2 rb] eqn:E2. destruct (Hcall _ _ _ _ _ Hc1 E2) as (Hc2 & Hx2 & Hv2).
    destruct rb as [b|e]; [|injection H as <- <-; split; [exact Hc2|]; split; [eapply Ext_trans; eauto|discriminate]].
    destruct (Hv1 a eq_refl) as (_ & _ & ->). destruct (Hv2 b eq_refl) as (_ & _ & ->).
    destruct (IH (i + 1) n s c2 _ c' r Hc2 H) as (Hc' & Hx' & Hv').
    split; [exact Hc'|]. split; [eapply Ext_trans; [exact Hx1|eapply Ext_trans; eauto]|].
    intros m' E. cbn [loop]. unfold pureF at 1. cbn [bind]. exact (Hv' m' E).
Qed.

Theorem EmS_ok : forall fuel, CallOK (EmS fuel).
Proof.
  induction fuel as [|f IH]; intros c n s c' r Hc H; cbn [EmS] in H.
  - injection H as <- <-. split; [exact Hc|]. split; [apply Ext_refl|discriminate].
  - cbn zeta in H. set (s' := Z.min s (n - 1)) in *.
    destruct (zfind n s' c) as [v|] eqn:Ef.
    + injection H as <- <-. split; [exact Hc|]. split; [apply Ext_refl|].
      intros v' E. injection E as <-. destruct (Hc _ _ _ Ef) as ((Hn1 & Hs1) & ->).
      split; [lia|]. split; [unfold s' in *; lia|]. rewrite (BinomDP.EC_clampZ n s). reflexivity.
    + assert (Hfin : forall cb v, Coh cb -> Ext c cb -> 1 <= n -> Z.min 1 (n - 1) <= s' <= n - 1 -> v = EC n s ->
                (((n, s'), v) :: cb, Ok v) = (c', r) ->
                Coh c' /\ Ext c c' /\ (forall v0, r = Ok v0 -> 1 <= n /\ Z.min 1 (n - 1) <= s /\ v0 = EC n s)).
      { intros cb v Hcb Hxb Hn1 Hs1 Hv E. injection E as <- <-. split; [|split].
        - intros n0 s0 v0 H0. cbn [zfind] in H0. destruct (Z.eqb_spec n0 n), (Z.eqb_spec s0 s'); cbn [andb] in H0; try (apply Hcb; exact H0).
          subst. injection H0 as <-. split; [split; assumption|]. apply BinomDP.EC_clampZ.
        - intros n0 s0 v0 H0. cbn [zfind]. destruct (Z.eqb_spec n0 n), (Z.eqb_spec s0 s'); cbn [andb]; try (apply Hxb; exact H0).
          subst. rewrite Ef in H0. discriminate.
        - intros v0 E. injection E as <-. split; [lia|]. split; [unfold s' in *; lia|exact Hv]. }
      destruct (Z.leb_spec n 0).
      { injection H as <- <-. split; [exact Hc|]. split; [apply Ext_refl|discriminate]. }
      destruct ((s' <? Z.min 1 (n - 1)) || (s' >? n - 1)) eqn:Eg.
      { injection H as <- <-. split; [exact Hc|]. split; [apply Ext_refl|discriminate]. }
      apply orb_false_iff in Eg. destruct Eg as [Eg1 Eg2]. apply Z.ltb_ge in Eg1. rewrite Z.gtb_ltb in Eg2. apply Z.ltb_ge in Eg2.
      assert (Hs0 : Z.min 1 (n - 1) <= s) by (unfold s' in *; lia).
      pose proof (EC_unfold n s ltac:(lia) Hs0) as HU. cbn zeta in HU. fold s' in HU.
      destruct (n =? 1).
      { injection HU as HU. apply (Hfin c 0 Hc (Ext_refl c)); [lia|lia|exact HU|exact H]. }
      destruct (s' =? 1).
      { injection HU as HU. apply (Hfin c (n * (n - 1) / 2) Hc (Ext_refl c)); [lia|lia|exact HU|exact H]. }
      destruct (loopE (EmS f) (Z.to_nat (n - 1)) 1 n s' c None) as [c1 rm] eqn:El.
      destruct (loopE_ok (EmS f) IH _ _ _ _ _ _ _ _ Hc El) as (Hc1 & Hx1 & Hv1).
      destruct rm as [[v|]|e].
      * rewrite (Hv1 _ eq_refl) in HU. cbn [bind] in HU. injection HU as HU. apply (Hfin c1 v Hc1 Hx1); [lia|lia|exact HU|exact H].
      * injection H as <- <-. split; [exact Hc1|]. split; [exact Hx1|discriminate].
      * injection H as <- <-. split; [exact Hc1|]. split; [exact Hx1|discriminate].
Qed.

(* ---- history independence of optimal_extra_steps / optimal_steps_binomial behind cache_step ---- *)
Definition run_callsE (fuel : nat) (c : zcache) (qs : list (Z * Z)) : zcache :=
  fold_left (fun c q => fst (EmS fuel c (fst q) (snd q))) qs c.
Theorem helper_cache_coherent fuel qs : Coh (run_callsE fuel [] qs).
Proof.
  unfold run_callsE. assert (H0 : Coh []) by (intros n s v H; discriminate).
  revert H0. generalize (@nil ((Z*Z)*Z)). induction qs as [|[n s] qs IH]; intros c Hc; cbn [fold_left]; [exact Hc|].
  apply IH. cbn [fst snd]. destruct (EmS fuel c n s) as [c' r] eqn:E. cbn [fst snd]. exact (proj1 (EmS_ok fuel c n s c' r Hc E)).
Qed.
Theorem helper_history_independent fuel qs n s v :
  snd (EmS fuel (run_callsE fuel [] qs) n s) = Ok v -> v = EC n s /\ Em (Z.to_nat n) n s = Ok v.
Proof.
  intros H. destruct (EmS fuel (run_callsE fuel [] qs) n s) as [c' r] eqn:E. cbn [snd] in H. subst r.
  destruct (EmS_ok fuel _ n s c' _ (helper_cache_coherent fuel qs) E) as (_ & _ & Hv). destruct (Hv v eq_refl) as (Hn & Hs & ->).
  split; [reflexivity|]. apply Em_EC; [exact Hn|lia|exact Hs].
Qed.
Print Assumptions helper_history_independent.

(* ---- totality: with enough fuel a call with valid arguments succeeds, whatever (coherent) dictionary it starts from ---- *)
Definition CallTot (bound : Z) (call : zcache -> Z -> Z -> zcache * res Z) :=
  forall c n s c' r, Coh c -> call c n s = (c', r) -> 1 <= n <= bound -> Z.min 1 (n - 1) <= s -> exists v, r = Ok v.
Lemma loopE_total call bound : CallOK call -> CallTot bound call -> forall cnt i n s c m c' r, Coh c -> 2 <= s -> n - 1 <= bound ->
  1 <= i -> i + Z.of_nat cnt <= n ->
  loopE call cnt i n s c m = (c', r) -> exists m', r = Ok m' /\ (cnt <> O \/ m <> None -> m' <> None).
Proof.
  intros Hok Htot. induction cnt as [|cnt IH]; intros i n s c m c' r Hc Hs Hb Hi Hbd H; cbn [loopE] in H.
  - injection H as <- <-. exists m. split; [reflexivity|]. intros [E|E]; congruence.
  - destruct (call c i s) as [c1 ra] eqn:E1. destruct (Hok _ _ _ _ _ Hc E1) as (Hc1 & _ & _).
    destruct (Htot _ _ _ _ _ Hc E1 ltac:(lia) ltac:(lia)) as (a & ->).
    destruct (call c1 (n - i) (s - 1)) as [c2 rb] eqn:E2. destruct (Hok _ _ _ _ _ Hc1 E2) as (Hc2 & _ & _).
    destruct (Htot _ _ _ _ _ Hc1 E2 ltac:(lia) ltac:(lia)) as (b & ->).
    destruct (IH (i + 1) n s c2 _ c' r Hc2 Hs Hb ltac:(lia) ltac:(lia) H) as (m' & Hm & Hne).
    exists m'. split; [exact Hm|]. intros _. apply Hne. right. destruct m as [m0|]; [destruct (_ <? _)|]; congruence.
Qed.
Theorem EmS_total : forall fuel, CallTot (Z.of_nat fuel) (EmS fuel).
Proof.
  induction fuel as [|f IH]; intros c n s c' r Hc H Hn Hs; [lia|].
  cbn [EmS] in H. cbn zeta in H. set (s' := Z.min s (n - 1)) in *.
  destruct (zfind n s' c) as [v|] eqn:Ef; [injection H as <- <-; eauto|].
  destruct (Z.leb_spec n 0); [lia|].
  destruct ((s' <? Z.min 1 (n - 1)) || (s' >? n - 1)) eqn:Eg.
  { exfalso. apply orb_true_iff in Eg. destruct Eg as [Eg|Eg]; [apply Z.ltb_lt in Eg|rewrite Z.gtb_ltb in Eg; apply Z.ltb_lt in Eg]; unfold s' in *; lia. }
  destruct (Z.eqb_spec n 1); [injection H as <- <-; eauto|].
  destruct (Z.eqb_spec s' 1); [injection H as <- <-; eauto|].
  destruct (loopE (EmS f) (Z.to_nat (n - 1)) 1 n s' c None) as [c1 rm] eqn:El.
  destruct (loopE_total (EmS f) (Z.of_nat f) (EmS_ok f) IH (Z.to_nat (n - 1)) 1 n s' c None c1 rm Hc ltac:(unfold s' in *; lia) ltac:(lia) ltac:(lia) ltac:(lia) El) as (m' & -> & Hne).
  destruct m' as [v|]; [injection H as <- <-; eauto|]. exfalso. apply Hne; [left; lia|reflexivity].
Qed.
(* the published helpers exactly as the extracted driver evaluates them (a fresh dictionary, fuel n + 2) *)
Theorem optimal_extra_steps_value n s : 1 <= n -> Z.min 1 (n - 1) <= s -> optimal_extra_steps n s = Ok (EC n s).
Proof.
  intros Hn Hs. unfold optimal_extra_steps. destruct (EmS (Z.to_nat (n + 2)) [] n s) as [c' r] eqn:E. cbn [snd].
  assert (H0 : Coh []) by (intros a b v H; discriminate).
  assert (Hb : 1 <= n <= Z.of_nat (Z.to_nat (n + 2))) by lia.
  destruct (EmS_total _ _ _ _ _ _ H0 E Hb Hs) as (v & ->).
  destruct (EmS_ok _ _ _ _ _ _ H0 E) as (_ & _ & Hv). destruct (Hv v eq_refl) as (_ & _ & ->). reflexivity.
Qed.
Theorem optimal_steps_binomial_value n s : 1 <= n -> Z.min 1 (n - 1) <= s -> optimal_steps_binomial n s = Ok (n + EC n s).
Proof. intros Hn Hs. unfold optimal_steps_binomial. rewrite (optimal_extra_steps_value n s Hn Hs). reflexivity. Qed.
Print Assumptions optimal_steps_binomial_value.
