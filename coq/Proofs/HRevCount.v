(* C07 at the level of the stream, for HRevolve: once the schedule is exhausted the executor has carried out exactly work L0
   forward steps, written nWD L0 checkpoints to DISK and loaded nRD L0 from DISK, L0 the generated operation list; so the cost of
   the stream (uf per forward step, ub per reversed step, wd per DISK write, rd per DISK load) is the cost of the list, which
   HRevCost.v shows to be C(disk, N-1) + N uf, the value of the H-Revolve recurrence and the minimum over the grammar HBd. *)
From Coq Require Import ZArith List Lia Bool.
Require Import Actions Ops HRevSeq RevConv Exec Sched ExecFacts RunFacts RevBridge1 RevBridge3 RevBridge4 DiskBridge2 DiskBridge3 HRevBridge1 DiskRun DiskCost DiskCount.
Require Import HRevTotal HRevTable HRevGen HRevRun HRevCost.
Require RevBlk RevGen RevCost HRevBlk.
Import ListNotations.
Open Scope Z_scope.

Definition extra (prev : option RevBlk.op) (s : list RevBlk.op) : Z :=
  match prev, s with Some (RevBlk.OWD _), RevBlk.OF _ _ :: _ => 1 | _, _ => 0 end.

Lemma HBd_pw c0 d m o l s : HBd c0 d m o l s -> (m = HRevBlk.MTop -> nof s) /\ forall prev, pw prev s = nWD s + extra prev s.
Proof.
  induction 1 as [d m o Hm|d m o l ops Hm HB|d o Hd|d o l j s1 s2 Hd Hl2 Hj _ IH1 _ IH2|d o l j s1 s2 Hd Hl2 Hj _ IH1 _ IH2|d m o l s Hd _ IH].
  - split; [intros _; exact I|]. intros prev. unfold RevBlk.adj. destruct prev as [[]|]; reflexivity.
  - pose proof (Blk_true_nof _ _ _ _ HB) as Hnof. split; [intros _; exact Hnof|]. intros prev.
    destruct (Blk_counts _ _ _ _ _ HB) as (_ & -> & _).
    rewrite pw_nowd; [|eapply Blk_nowd; eauto|destruct prev as [[]|]; try exact I; exact Hnof].
    unfold extra. destruct prev as [[]|]; try reflexivity. destruct ops as [|[] ?]; try reflexivity. contradiction.
  - split; [discriminate|]. intros prev. unfold RevBlk.adj. destruct prev as [[]|]; reflexivity.
  - split; [discriminate|]. intros prev. destruct IH1 as [Hn1 IH1]. destruct IH2 as [_ IH2]. specialize (Hn1 eq_refl).
    cbn [app pw nWD extra]. rewrite nWD_app, pw_app, IH1. cbn [app pw nWD]. rewrite IH2.
    assert (extra (Some (RevBlk.OF o (o + j))) s1 = 0) as -> by reflexivity.
    assert (extra (Some (RevBlk.ORD o)) s2 = 0) as -> by reflexivity.
    destruct (rev s1) as [|[] ?]; destruct prev as [[]|]; cbn [extra]; lia.
  - split; [intros _; exact I|]. intros prev. destruct IH1 as [Hn1 IH1]. destruct IH2 as [_ IH2]. specialize (Hn1 eq_refl).
    cbn [app pw nWD extra]. rewrite nWD_app, pw_app, IH1. cbn [app pw nWD]. rewrite IH2.
    assert (extra (Some (RevBlk.OF o (o + j))) s1 = 0) as -> by reflexivity.
    assert (extra (Some (RevBlk.ORD o)) s2 = 0) as -> by reflexivity.
    destruct (rev s1) as [|[] ?]; destruct prev as [[]|]; cbn [extra]; lia.
  - exact IH.
Qed.

Lemma HBd_nB c0 d m o l s : HBd c0 d m o l s -> nB s = l + 1.
Proof.
  induction 1 as [d m o Hm|d m o l ops Hm HB|d o Hd|d o l j s1 s2 Hd Hl2 Hj _ IH1 _ IH2|d o l j s1 s2 Hd Hl2 Hj _ IH1 _ IH2|d m o l s Hd _ IH].
  - reflexivity.
  - exact (proj1 (Blk_counts _ _ _ _ _ HB)).
  - reflexivity.
  - cbn [app nB]. rewrite nB_app, IH1. cbn [app nB]. rewrite IH2. lia.
  - cbn [app nB]. rewrite nB_app, IH1. cbn [app nB]. rewrite IH2. lia.
  - exact IH.
Qed.

Theorem hrev_stream_counts N ram disk d L0 k : 1 <= N -> 0 <= ram -> HBd ram d HRevBlk.MTop 0 (N - 1) L0 ->
  let '(s', m, ls) := run_ops (disk_xparams N ram) {| ob := ORevF KHRevolve N ram disk (init_r (map injH L0)); started := false |} mon0 (repeat Next k) in
  is_exhausted s' = true ->
  fwd_total (cnt (mx m)) = RevCost.work L0 /\ disk_writes (cnt (mx m)) = nWD L0 /\ disk_reads (cnt (mx m)) = nRD L0.
Proof.
  intros HN Hram HB.
  destruct (hrev_J0 N ram disk L0 HN Hram (HBd_HB _ _ _ _ _ _ HB)) as (prev & acts & r & Hprev & Hconv & HJ0).
  pose proof (conv_work N _ _ _ _ _ _ Hconv) as Hw. destruct (conv_counts N _ _ _ _ _ _ Hconv) as [Hdw Hdr].
  destruct (HBd_pw _ _ _ _ _ _ HB) as [Hnof Hpw]. specialize (Hnof eq_refl). rewrite Hpw in Hdw.
  assert (extra (Some prev) L0 = 0) as He0 by (unfold extra; destruct prev; try reflexivity; destruct L0 as [|[] ?]; try reflexivity; contradiction).
  rewrite He0 in Hdw.
  pose proof (DiskBridge3.run_nexts2 N ram ltac:(lia) (map injH L0) KHRevolve ram disk _ _ _ k _ _ HJ0) as Hrun.
  change (DiskBridge2.pD N ram) with (disk_xparams N ram) in Hrun.
  destruct (run_ops (disk_xparams N ram) _ mon0 (repeat Next k)) as [[s' m'] ls]. destruct Hrun as [HJ _]. intros He.
  inversion HJ as [i c p x dd wc rc stt m0 Hi Hm HRx HCn HNN HNd HWD HAg Hcl HFut|i c stt m0 Hm Htot [HCw HCr]]; subst; [cbn in He; discriminate|].
  rewrite Htot, HCw, HCr, Hw, Hdw, Hdr. split; [reflexivity|]. split; [lia|reflexivity].
Qed.
Print Assumptions hrev_stream_counts.

(* HRevolve: the cost of the stream is C(disk, N-1) + N uf, the minimum over the grammar *)
Theorem hrevolve_stream_cost N ram disk uf ub wd rd k : 1 <= N -> 1 <= ram -> 0 <= disk -> 0 < uf -> 0 <= wd -> 0 <= rd ->
  exists L0, sequence KHRevolve N ram disk uf ub wd rd = Ok (map injH L0) /\
  let '(s', m, ls) := run_ops (disk_xparams N ram) {| ob := ORevF KHRevolve N ram disk (init_r (map injH L0)); started := false |} mon0 (repeat Next k) in
  is_exhausted s' = true ->
  let c := uf * fwd_total (cnt (mx m)) + ub * N + wd * disk_writes (cnt (mx m)) + rd * disk_reads (cnt (mx m)) in
  c = Cm uf ub wd rd ram (Z.to_nat disk) (N - 1) + N * uf /\ forall s, HBd ram disk HRevBlk.MTop 0 (N - 1) s -> c <= cost uf ub wd rd s.
Proof.
  intros HN Hram Hdisk Huf Hwd Hrd.
  destruct (hrevolve_total (N - 1) ram disk wd rd uf ub ltac:(lia) ltac:(lia) ltac:(lia) Hdisk) as [L HL].
  destruct (hrevolve_optimal uf ub wd rd Huf Hwd Hrd (N - 1) ram disk L ltac:(lia) Hram Hdisk HL) as (L0 & -> & HB & HC & Hopt).
  exists L0. split; [exact HL|].
  pose proof (hrev_stream_counts N ram disk disk L0 k HN ltac:(lia) HB) as Hs.
  destruct (run_ops (disk_xparams N ram) _ mon0 (repeat Next k)) as [[s' m'] ls]. intros He. destruct (Hs He) as (Hf & Hw & Hr). cbn zeta.
  rewrite Hf, Hw, Hr. pose proof (HBd_nB _ _ _ _ _ _ HB) as HnB. unfold cost in HC, Hopt. rewrite HnB in *. replace (N - 1 + 1) with N in * by lia.
  split; [lia|]. intros s Hs'. specialize (Hopt s Hs'). unfold cost. lia.
Qed.
Print Assumptions hrevolve_stream_cost.
