(* The sequence generators of hrevolve_sequences/{revolve,disk_revolve}.py as harness/translate.py renders them (SeqTr): the shapes
   below are the translator's output on the pinned tree; Gen/SeqGen.v re-translates the current source on every run and proves the
   result equal to them by conversion.  This file proves the shapes equal, for all arguments, to the functions of Model/RevSeq.v
   the theorems are stated on. *)
From Coq Require Import ZArith List Bool Lia.
Require Import Actions Ops RevSeq.
Require PeriodGen.
Import ListNotations.
Open Scope Z_scope.

(* for index in range(start, stop, -1): body -- the loop threads the operation list built so far *)
Fixpoint for_down (cnt : nat) (i : Z) (body : Z -> list op -> res (list op)) (acc : list op) : res (list op) :=
  match cnt with O => Ok acc | S c => do acc' <- body i acc; for_down c (i - 1) body acc' end.
(* argmin(list) of basic_functions.py reads list[0] first: IndexError on an empty list; min([]) is a ValueError *)
(* while cond: body -- threading the one integer variable the body updates and the operation list; `fuel` bounds the iterations *)
Fixpoint while_ (fuel : nat) (c : Z -> bool) (body : Z -> list op -> res (Z * list op)) (v : Z) (acc : list op) : res (Z * list op) :=
  match fuel with
  | O => if c v then Err OutOfFuel else Ok (v, acc)
  | S f => if c v then (do st <- body v acc; while_ f c body (fst st) (snd st)) else Ok (v, acc)
  end.
Definition py_argmin (l : list Z) : res Z := match l with [] => Err IndexError | _ => Ok (argmin l) end.
Definition py_min (l : list Z) : res Z := match l with [] => Err ValueError | _ => Ok (zmin_list l 0) end.

Fixpoint revolve_shape (fuel : nat) (opt_0 : list (list Z)) (uf l cm : Z) : res (list op) :=
  match fuel with O => Err OutOfFuel | S f =>
  let sequence : list op := [] in
  if (l =? 0) then (let sequence := sequence ++ [OWFM 1] in let sequence := sequence ++ [OF 0 1] in let sequence := sequence ++ [OB 1 0] in let sequence := sequence ++ [ODFM 1] in let sequence := sequence ++ [ODM 0] in Ok sequence) else (if (cm =? 0) then (Err ValueError) else (if (l =? 1) then (let sequence := sequence ++ [OWM 0] in let sequence := sequence ++ [OF 0 1] in let sequence := sequence ++ [OWFM 2] in let sequence := sequence ++ [OF 1 2] in let sequence := sequence ++ [OB 2 1] in let sequence := sequence ++ [ODFM 2] in let sequence := sequence ++ [ORM 0] in let sequence := sequence ++ [OWFM 1] in let sequence := sequence ++ [OF 0 1] in let sequence := sequence ++ [OB 1 0] in let sequence := sequence ++ [ODFM 1] in let sequence := sequence ++ [ODM 0] in Ok sequence) else (if (cm =? 1) then (let sequence := sequence ++ [OWM 0] in do sequence <- for_down (Z.to_nat ((l - 1) - (-1))) (l - 1) (fun index sequence => if negb (index =? (l - 1)) then (let sequence := sequence ++ [ORM 0] in if negb ((index + 1) =? 0) then (let sequence := sequence ++ [OF 0 (index + 1)] in let sequence := sequence ++ [OWFM (index + 2)] in let sequence := sequence ++ [OF (index + 1) (index + 2)] in let sequence := sequence ++ [OB (index + 2) (index + 1)] in let sequence := sequence ++ [ODFM (index + 2)] in Ok sequence) else (let sequence := sequence ++ [OWFM (index + 2)] in let sequence := sequence ++ [OF (index + 1) (index + 2)] in let sequence := sequence ++ [OB (index + 2) (index + 1)] in let sequence := sequence ++ [ODFM (index + 2)] in Ok sequence)) else (if negb ((index + 1) =? 0) then (let sequence := sequence ++ [OF 0 (index + 1)] in let sequence := sequence ++ [OWFM (index + 2)] in let sequence := sequence ++ [OF (index + 1) (index + 2)] in let sequence := sequence ++ [OB (index + 2) (index + 1)] in let sequence := sequence ++ [ODFM (index + 2)] in Ok sequence) else (let sequence := sequence ++ [OWFM (index + 2)] in let sequence := sequence ++ [OF (index + 1) (index + 2)] in let sequence := sequence ++ [OB (index + 2) (index + 1)] in let sequence := sequence ++ [ODFM (index + 2)] in Ok sequence))) sequence; let sequence := sequence ++ [ORM 0] in let sequence := sequence ++ [OWFM 1] in let sequence := sequence ++ [OF 0 1] in let sequence := sequence ++ [OB 1 0] in let sequence := sequence ++ [ODFM 1] in let sequence := sequence ++ [ODM 0] in Ok sequence) else (do list_mem <- map_res (fun j => do x1_ <- tget opt_0 (cm - 1) (l - j); do x2_ <- tget opt_0 cm (j - 1); Ok (((j * uf) + x1_) + x2_)) (zrange 1 l); do jmin <- py_argmin list_mem; let sequence := sequence ++ [OWM 0] in let sequence := sequence ++ [OF 0 jmin] in do x3_ <- revolve_shape f opt_0 uf (l - jmin) (cm - 1); let sequence := sequence ++ (shift jmin x3_) in let sequence := sequence ++ [ORM 0] in do x4_ <- revolve_shape f opt_0 uf (jmin - 1) cm; let sequence := sequence ++ (remove_useless_wm x4_) in Ok sequence))))
  end.

Fixpoint disk_revolve_shape (fuel : nat) (opt_0 : list (list Z)) (opt_inf : list Z) (uf rd wd l cm : Z) : res (list op) :=
  match fuel with O => Err OutOfFuel | S f =>
  let sequence : list op := [] in
  if (l =? 0) then (let sequence := sequence ++ [OWFM 1] in let sequence := sequence ++ [OF 0 1] in let sequence := sequence ++ [OB 1 0] in let sequence := sequence ++ [ODFM 1] in Ok sequence) else (if (l =? 1) then (if (cm =? 0) then (let sequence := sequence ++ [OWD 0] in let sequence := sequence ++ [OF 0 1] in let sequence := sequence ++ [OWFM 2] in let sequence := sequence ++ [OF 1 2] in let sequence := sequence ++ [OB 2 1] in let sequence := sequence ++ [ODFM 2] in let sequence := sequence ++ [ORD 0] in let sequence := sequence ++ [OWFM 1] in let sequence := sequence ++ [OF 0 1] in let sequence := sequence ++ [OB 1 0] in let sequence := sequence ++ [ODFM 1] in let sequence := sequence ++ [ODD 0] in Ok sequence) else (let sequence := sequence ++ [OWM 0] in let sequence := sequence ++ [OF 0 1] in let sequence := sequence ++ [OWFM 2] in let sequence := sequence ++ [OF 1 2] in let sequence := sequence ++ [OB 2 1] in let sequence := sequence ++ [ODFM 2] in let sequence := sequence ++ [ORM 0] in let sequence := sequence ++ [OWFM 1] in let sequence := sequence ++ [OF 0 1] in let sequence := sequence ++ [OB 1 0] in let sequence := sequence ++ [ODFM 1] in let sequence := sequence ++ [ODM 0] in Ok sequence)) else (do list_mem <- map_res (fun j => do x1_ <- lget opt_inf (l - j); do x2_ <- tget opt_0 cm (j - 1); Ok ((((wd + (j * uf)) + x1_) + rd) + x2_)) (zrange 1 l); do x3_ <- py_min list_mem; do x4_ <- tget opt_0 cm l; if (x3_ <? x4_) then (do jmin <- py_argmin list_mem; let sequence := sequence ++ [OWD 0] in let sequence := sequence ++ [OF 0 jmin] in do x5_ <- disk_revolve_shape f opt_0 opt_inf uf rd wd (l - jmin) cm; let sequence := sequence ++ (shift jmin x5_) in let sequence := sequence ++ [ORD 0] in do x6_ <- revolve_shape (Z.to_nat (2 * l + 4)) opt_0 uf (jmin - 1) cm; let sequence := sequence ++ x6_ in Ok sequence) else (do x7_ <- revolve_shape (Z.to_nat (2 * l + 4)) opt_0 uf l cm; let sequence := sequence ++ x7_ in Ok sequence)))
  end.


Lemma cm1_for l body : (forall i acc, body i acc = Ok (acc ++ (if i =? l - 1 then [] else [ORM 0]) ++ (if i + 1 =? 0 then [] else [OF 0 (i+1)])
     ++ [OWFM (i+2); OF (i+1) (i+2); OB (i+2) (i+1); ODFM (i+2)])) ->
  forall cnt i acc, for_down cnt i body acc = Ok (acc ++ cm1_loop cnt l i).
Proof.
  intros Hb. induction cnt as [|c IH]; intros i acc; cbn [for_down cm1_loop]; [rewrite app_nil_r; reflexivity|].
  rewrite Hb. cbn [bind]. rewrite IH. f_equal. rewrite <- !app_assoc. reflexivity.
Qed.

Theorem revolve_shape_is_model : forall fuel opt_0 uf l cm, revolve_shape fuel opt_0 uf l cm = RevSeq.revolve fuel opt_0 uf l cm.
Proof.
  induction fuel as [|f IH]; intros opt_0 uf l cm; [reflexivity|]. cbn [revolve_shape RevSeq.revolve].
  destruct (l =? 0); [reflexivity|]. destruct (cm =? 0); [reflexivity|]. destruct (l =? 1); [reflexivity|].
  destruct (cm =? 1).
  - cbn [app]. replace (l - 1 - -1) with l by lia. rewrite (cm1_for l).
    + cbn [bind]. rewrite <- !app_assoc. reflexivity.
    + intros i acc. destruct (i =? l - 1), (i + 1 =? 0); cbn [negb app]; rewrite <- ?app_assoc; reflexivity.
  - destruct (map_res _ (zrange 1 l)) as [lm|e]; cbn [bind]; [|reflexivity].
    destruct lm as [|x lm]; cbn [py_argmin bind]; [reflexivity|]. rewrite !IH.
    destruct (RevSeq.revolve f opt_0 uf (l - argmin (x :: lm)) (cm - 1)) as [s1|e]; cbn [bind]; [|reflexivity].
    destruct (RevSeq.revolve f opt_0 uf (argmin (x :: lm) - 1) cm) as [s2|e]; cbn [bind]; [|reflexivity].
    cbn [app]. rewrite <- !app_assoc. reflexivity.
Qed.

Theorem disk_revolve_shape_is_model : forall fuel opt_0 opt_inf uf rd wd l cm,
  disk_revolve_shape fuel opt_0 opt_inf uf rd wd l cm = RevSeq.disk_revolve fuel opt_0 opt_inf uf rd wd l cm.
Proof.
  induction fuel as [|f IH]; intros opt_0 opt_inf uf rd wd l cm; [reflexivity|]. cbn [disk_revolve_shape RevSeq.disk_revolve].
  destruct (l =? 0); [reflexivity|]. destruct (l =? 1); [destruct (cm =? 0); reflexivity|].
  destruct (map_res _ (zrange 1 l)) as [lm|e]; cbn [bind]; [|reflexivity].
  destruct lm as [|x lm]; cbn [py_min py_argmin bind]; [reflexivity|].
  destruct (tget opt_0 cm l) as [o|e]; cbn [bind]; [|reflexivity].
  rewrite !revolve_shape_is_model, !IH.
  destruct (zmin_list (x :: lm) 0 <? o).
  - destruct (RevSeq.disk_revolve f opt_0 opt_inf uf rd wd (l - argmin (x :: lm)) cm) as [s1|e]; cbn [bind]; [|reflexivity].
    destruct (RevSeq.revolve _ opt_0 uf (argmin (x :: lm) - 1) cm) as [s2|e]; cbn [bind]; [|reflexivity].
    cbn [app]. rewrite <- !app_assoc. reflexivity.
  - destruct (RevSeq.revolve _ opt_0 uf l cm) as [s2|e]; cbn [bind]; reflexivity.
Qed.

(* ---- periodic_disk_revolve ---- *)
Definition periodic_shape (opt_0 : list (list Z)) (uf mx l cm : Z) : res (list op) :=
  let sequence : list op := [] in
  let current_task := 0 in do st_ <- while_ (Z.to_nat l) (fun current_task => ((l - current_task) >? mx)) (fun current_task sequence => let sequence := sequence ++ [OWD current_task] in let sequence := sequence ++ [OF current_task (current_task + mx)] in let current_task := current_task + mx in Ok (current_task, sequence)) current_task sequence; let current_task := fst st_ in let sequence := snd st_ in do x1_ <- revolve_shape (Z.to_nat (2 * l + 4)) opt_0 uf (l - current_task) cm; let sequence := sequence ++ (shift current_task x1_) in do st_ <- while_ (Z.to_nat l) (fun current_task => (current_task >? 0)) (fun current_task sequence => let current_task := current_task - mx in let sequence := sequence ++ [ORD current_task] in do x2_ <- revolve_shape (Z.to_nat (2 * mx + 4)) opt_0 uf (mx - 1) cm; let sequence := sequence ++ (shift current_task x2_) in Ok (current_task, sequence)) current_task sequence; let current_task := fst st_ in let sequence := snd st_ in Ok sequence.


(* the body of RevSeq.periodic_top after its preamble (period, table) *)
Definition periodic_body (opt0 : list (list Z)) (uf mx l cm : Z) : res (list op) :=
  let '(fw, ct) := per_fwd (Z.to_nat l) l mx 0 in
  do s <- revolve (Z.to_nat (2*l+4)) opt0 uf (l - ct) cm;
  do bk <- per_back (Z.to_nat l) opt0 uf mx cm ct;
  Ok (fw ++ shift ct s ++ bk).
Lemma periodic_top_body l cm rd wd uf ub : periodic_top l cm rd wd uf ub =
  let mx := mxrr cm uf rd wd in do t <- get_opt_0_table (Z.max mx mx + 1) cm uf ub; do o <- periodic_body t uf mx l cm; Ok (o, mx).
Proof.
  unfold periodic_top, periodic_body. cbv zeta. destruct (get_opt_0_table _ cm uf ub) as [t|e]; cbn [bind]; [|reflexivity].
  destruct (per_fwd (Z.to_nat l) l (mxrr cm uf rd wd) 0) as [fw ct]. destruct (revolve _ t uf (l - ct) cm) as [s|e]; cbn [bind]; [|reflexivity].
  destruct (per_back _ t uf _ cm ct) as [bk|e]; reflexivity.
Qed.

Lemma fwd_while l mx body : 1 <= mx ->
  (forall ct acc, body ct acc = Ok (ct + mx, acc ++ [OWD ct; OF ct (ct + mx)])) ->
  forall cnt ct acc, l - ct <= Z.of_nat cnt -> 
    while_ cnt (fun ct => l - ct >? mx) body ct acc = Ok (snd (per_fwd cnt l mx ct), acc ++ fst (per_fwd cnt l mx ct)).
Proof.
  intros Hmx Hb. induction cnt as [|c IH]; intros ct acc Hc; cbn [while_ per_fwd].
  - destruct (l - ct >? mx) eqn:E; [apply Z.gtb_lt in E; lia|]. cbn [fst snd]. rewrite app_nil_r. reflexivity.
  - destruct (l - ct >? mx) eqn:E; [|cbn [fst snd]; rewrite app_nil_r; reflexivity].
    rewrite Hb. cbn [bind fst snd]. rewrite IH by lia. destruct (per_fwd c l mx (ct + mx)) as [r ct']. cbn [fst snd]. rewrite <- app_assoc. reflexivity.
Qed.
Lemma back_while opt0 uf mx cm body : 1 <= mx ->
  (forall ct acc, body ct acc = do x <- revolve (Z.to_nat (2 * mx + 4)) opt0 uf (mx - 1) cm; Ok (ct - mx, acc ++ [ORD (ct - mx)] ++ shift (ct - mx) x)) ->
  forall cnt ct acc, ct <= Z.of_nat cnt ->
    (do st <- while_ cnt (fun ct => ct >? 0) body ct acc; Ok (snd st)) = (do r <- per_back cnt opt0 uf mx cm ct; Ok (acc ++ r)).
Proof.
  intros Hmx Hb. induction cnt as [|c IH]; intros ct acc Hc; cbn [while_ per_back].
  - destruct (ct >? 0) eqn:E; [apply Z.gtb_lt in E; lia|]. cbn [bind snd]. rewrite app_nil_r. reflexivity.
  - destruct (ct >? 0) eqn:E; [|cbn [bind snd]; rewrite app_nil_r; reflexivity].
    rewrite Hb. destruct (revolve _ opt0 uf (mx - 1) cm) as [x|e]; cbn [bind fst snd]; [|reflexivity].
    rewrite IH by lia. destruct (per_back c opt0 uf mx cm (ct - mx)) as [r|e]; cbn [bind]; [|reflexivity]. rewrite <- !app_assoc. reflexivity.
Qed.

Lemma per_fwd_le l mx : 0 <= mx -> forall cnt ct, ct <= l -> snd (per_fwd cnt l mx ct) <= l.
Proof.
  intros Hmx. induction cnt as [|c IH]; intros ct Hc; cbn [per_fwd]; [exact Hc|].
  destruct (l - ct >? mx) eqn:E; [|exact Hc]. apply Z.gtb_lt in E. specialize (IH (ct + mx) ltac:(lia)).
  destruct (per_fwd c l mx (ct + mx)) as [r ct']. exact IH.
Qed.
Theorem periodic_shape_is_model opt0 uf mx l cm : 1 <= mx -> 0 <= l -> periodic_shape opt0 uf mx l cm = periodic_body opt0 uf mx l cm.
Proof.
  intros Hmx Hl. unfold periodic_shape, periodic_body. cbv zeta.
  rewrite (fwd_while l mx) by (try lia; intros; cbn [app]; rewrite <- ?app_assoc; reflexivity).
  pose proof (per_fwd_le l mx ltac:(lia) (Z.to_nat l) 0 Hl) as Hct.
  destruct (per_fwd (Z.to_nat l) l mx 0) as [fw ct]. cbn [bind fst snd app] in *. rewrite revolve_shape_is_model.
  destruct (revolve _ opt0 uf (l - ct) cm) as [s|e]; cbn [bind]; [|reflexivity].
  pose proof (back_while opt0 uf mx cm
    (fun current_task sequence => let current_task := current_task - mx in let sequence := sequence ++ [ORD current_task] in
       do x2_ <- revolve_shape (Z.to_nat (2 * mx + 4)) opt0 uf (mx - 1) cm; let sequence := sequence ++ shift current_task x2_ in Ok (current_task, sequence))
    Hmx) as HB.
  match goal with |- (do st_ <- ?W; _) = _ => specialize (HB ltac:(intros ct0 acc; cbv zeta; rewrite revolve_shape_is_model; destruct (revolve _ opt0 uf (mx - 1) cm); cbn [bind]; rewrite <- ?app_assoc; reflexivity) (Z.to_nat l) ct (fw ++ shift ct s) ltac:(lia)) end.
  cbv zeta in HB. 
  rewrite HB. destruct (per_back _ opt0 uf mx cm ct) as [bk|e]; cbn [bind]; [|reflexivity]. rewrite <- app_assoc. reflexivity.
Qed.
Print Assumptions periodic_shape_is_model.
(* the three top-level calls of the constructors (RevConv.sequence), read on the translated source *)
Theorem periodic_top_is_source l cm rd wd uf ub : 0 <= l -> periodic_top l cm rd wd uf ub =
  let mx := mxrr cm uf rd wd in do t <- get_opt_0_table (Z.max mx mx + 1) cm uf ub; do o <- periodic_shape t uf mx l cm; Ok (o, mx).
Proof.
  intros Hl. rewrite periodic_top_body. cbv zeta. destruct (get_opt_0_table _ cm uf ub) as [t|e]; cbn [bind]; [|reflexivity].
  rewrite periodic_shape_is_model; [reflexivity|apply PeriodGen.mxrr_pos|exact Hl].
Qed.
Theorem revolve_top_is_source l cm uf ub : revolve_top l cm uf ub = do t <- get_opt_0_table l cm uf ub; revolve_shape (Z.to_nat (2*l+4)) t uf l cm.
Proof. unfold revolve_top. destruct (get_opt_0_table l cm uf ub); cbn [bind]; [apply eq_sym, revolve_shape_is_model|reflexivity]. Qed.
Theorem disk_revolve_top_is_source l cm rd wd uf ub : disk_revolve_top l cm rd wd uf ub =
  do t <- get_opt_0_table l cm uf ub; do ti <- get_opt_inf_table l cm uf ub rd wd t; disk_revolve_shape (Z.to_nat (l+2)) t ti uf rd wd l cm.
Proof.
  unfold disk_revolve_top. destruct (get_opt_0_table l cm uf ub) as [t|]; cbn [bind]; [|reflexivity].
  destruct (get_opt_inf_table l cm uf ub rd wd t); cbn [bind]; [apply eq_sym, disk_revolve_shape_is_model|reflexivity].
Qed.
Print Assumptions periodic_top_is_source.
Print Assumptions revolve_shape_is_model.
Print Assumptions disk_revolve_shape_is_model.
