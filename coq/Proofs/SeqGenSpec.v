(* The sequence generators of hrevolve_sequences/{revolve,disk_revolve}.py as harness/translate.py renders them (SeqTr): the shapes
   below are the translator's output on the pinned tree; Gen/SeqGen.v re-translates the current source on every run and proves the
   result equal to them by conversion.  This file proves the shapes equal, for all arguments, to the functions of Model/RevSeq.v
   the theorems are stated on. *)
From Coq Require Import ZArith List Bool Lia.
Require Import Actions Ops RevSeq.
Import ListNotations.
Open Scope Z_scope.

(* for index in range(start, stop, -1): body -- the loop threads the operation list built so far *)
Fixpoint for_down (cnt : nat) (i : Z) (body : Z -> list op -> res (list op)) (acc : list op) : res (list op) :=
  match cnt with O => Ok acc | S c => do acc' <- body i acc; for_down c (i - 1) body acc' end.
(* argmin(list) of basic_functions.py reads list[0] first: IndexError on an empty list; min([]) is a ValueError *)
Definition py_argmin (l : list Z) : res Z := match l with [] => Err IndexError | _ => Ok (argmin l) end.
Definition py_min (l : list Z) : res Z := match l with [] => Err ValueError | _ => Ok (zmin_list l 0) end.

Fixpoint revolve_shape (fuel : nat) (opt_0 : list (list Z)) (uf l cm : Z) : res (list op) :=
  match fuel with O => Err OutOfFuel | S f =>
  let sequence : list op := [] in
  if (l =? 0) then (let sequence := sequence ++ [OWFM 1] in let sequence := sequence ++ [OF 0 1] in let sequence := sequence ++ [OB 1 0] in let sequence := sequence ++ [ODFM 1] in let sequence := sequence ++ [ODM 0] in Ok sequence) else (if (cm =? 0) then (Err ValueError) else (if (l =? 1) then (let sequence := sequence ++ [OWM 0] in let sequence := sequence ++ [OF 0 1] in let sequence := sequence ++ [OWFM 2] in let sequence := sequence ++ [OF 1 2] in let sequence := sequence ++ [OB 2 1] in let sequence := sequence ++ [ODFM 2] in let sequence := sequence ++ [ORM 0] in let sequence := sequence ++ [OWFM 1] in let sequence := sequence ++ [OF 0 1] in let sequence := sequence ++ [OB 1 0] in let sequence := sequence ++ [ODFM 1] in let sequence := sequence ++ [ODM 0] in Ok sequence) else (if (cm =? 1) then (let sequence := sequence ++ [OWM 0] in do sequence <- for_down (Z.to_nat ((l - 1) - (-1))) (l - 1) (fun index sequence => if negb (index =? (l - 1)) then (let sequence := sequence ++ [ORM 0] in if negb ((index + 1) =? 0) then (let sequence := sequence ++ [OF 0 (index + 1)] in let sequence := sequence ++ [OWFM (index + 2)] in let sequence := sequence ++ [OF (index + 1) (index + 2)] in let sequence := sequence ++ [OB (index + 2) (index + 1)] in let sequence := sequence ++ [ODFM (index + 2)] in Ok sequence) else (let sequence := sequence ++ [OWFM (index + 2)] in let sequence := sequence ++ [OF (index + 1) (index + 2)] in let sequence := sequence ++ [OB (index + 2) (index + 1)] in let sequence := sequence ++ [ODFM (index + 2)] in Ok sequence)) else (if negb ((index + 1) =? 0) then (let sequence := sequence ++ [OF 0 (index + 1)] in let sequence := sequence ++ [OWFM (index + 2)] in let sequence := sequence ++ [OF (index + 1) (index + 2)] in let sequence := sequence ++ [OB (index + 2) (index + 1)] in let sequence := sequence ++ [ODFM (index + 2)] in Ok sequence) else (let sequence := sequence ++ [OWFM (index + 2)] in let sequence := sequence ++ [OF (index + 1) (index + 2)] in let sequence := sequence ++ [OB (index + 2) (index + 1)] in let sequence := sequence ++ [ODFM (index + 2)] in Ok sequence))) sequence; let sequence := sequence ++ [ORM 0] in let sequence := sequence ++ [OWFM 1] in let sequence := sequence ++ [OF 0 1] in let sequence := sequence ++ [OB 1 0] in let sequence := sequence ++ [ODFM 1] in let sequence := sequence ++ [ODM 0] in Ok sequence) else (do list_mem <- map_res (fun j => do x1_ <- tget opt_0 (cm - 1) (l - j); do x2_ <- tget opt_0 cm (j - 1); Ok (((j * uf) + x1_) + x2_)) (zrange 1 l); do jmin <- py_argmin list_mem; let sequence := sequence ++ [OWM 0] in let sequence := sequence ++ [OF 0 jmin] in do x3_ <- revolve_shape f opt_0 uf (l - jmin) (cm - 1); let sequence := sequence ++ (shift jmin x3_) in let sequence := sequence ++ [ORM 0] in do x4_ <- revolve_shape f opt_0 uf (jmin - 1) cm; let sequence := sequence ++ (remove_useless_wm x4_) in Ok sequence))))
  end.

Fixpoint disk_revolve_shape (fuel : nat) (opt_0 : list (list Z)) (opt_inf : list Z) (uf rd wd l cm : Z) : res (list op) :=
  match fuel with O => Err OutOfFuel | S f =>
  let sequence : list op := [] in
  if (l =? 0) then (let sequence := sequence ++ [OWFM 1] in let sequence := sequence ++ [OF 0 1] in let sequence := sequence ++ [OB 1 0] in let sequence := sequence ++ [ODFM 1] in Ok sequence) else (if (l =? 1) then (if (cm =? 0) then (let sequence := sequence ++ [OWD 0] in let sequence := sequence ++ [OF 0 1] in let sequence := sequence ++ [OWFM 2] in let sequence := sequence ++ [OF 1 2] in let sequence := sequence ++ [OB 2 1] in let sequence := sequence ++ [ODFM 2] in let sequence := sequence ++ [ORD 0] in let sequence := sequence ++ [OWFM 1] in let sequence := sequence ++ [OF 0 1] in let sequence := sequence ++ [OB 1 0] in let sequence := sequence ++ [ODFM 1] in let sequence := sequence ++ [ODD 0] in Ok sequence) else (let sequence := sequence ++ [OWM 0] in let sequence := sequence ++ [OF 0 1] in let sequence := sequence ++ [OWFM 2] in let sequence := sequence ++ [OF 1 2] in let sequence := sequence ++ [OB 2 1] in let sequence := sequence ++ [ODFM 2] in let sequence := sequence ++ [ORM 0] in let sequence := sequence ++ [OWFM 1] in let sequence := sequence ++ [OF 0 1] in let sequence := sequence ++ [OB 1 0] in let sequence := sequence ++ [ODFM 1] in let sequence := sequence ++ [ODM 0] in Ok sequence)) else (do list_mem <- map_res (fun j => do x1_ <- lget opt_inf (l - j); do x2_ <- tget opt_0 cm (j - 1); Ok ((((wd + (j * uf)) + x1_) + rd) + x2_)) (zrange 1 l); do x3_ <- py_min list_mem; do x4_ <- tget opt_0 cm l; if (x3_ <? x4_) then (do jmin <- py_argmin list_mem; let sequence := sequence ++ [OWD 0] in let sequence := sequence ++ [OF 0 jmin] in do x5_ <- disk_revolve_shape f opt_0 opt_inf uf rd wd (l - jmin) cm; let sequence := sequence ++ (shift jmin x5_) in let sequence := sequence ++ [ORD 0] in do x6_ <- revolve_shape (Z.to_nat (2 * l + 4)) opt_0 uf (jmin - 1) cm; let sequence := sequence ++ x6_ in Ok sequence) else (do x7_ <- revolve_shape (Z.to_nat (2 * l + 4)) opt_0 uf l cm; let sequence := sequence ++ x7_ in Ok sequence)))
  end.


Lemma cm1_for l body : (forall i acc, body i acc = Ok (acc ++ (if i =? l - 1 then [] else [ORM 0]) ++ (if i + 1 =? 0 then [] else [OF 0 (i+1)])
     ++ [OWFM (i+2); OF (i+1) (i+2); OB (i+2) (i+1); ODFM (i+2)])) ->
  forall cnt i acc, for_down cnt i body acc = Ok (acc ++ cm1_loop cnt l i).
Proof.
  intros Hb. induction cnt as [|c IH]; intros i acc; cbn [for_down cm1_loop]; [rewrite app_nil_r; reflexivity|].
  rewrite Hb. cbn [bind]. rewrite IH. f_equal. rewrite <- !app_assoc. reflexivity.
Qed.

Theorem revolve_shape_is_model : forall fuel opt_0 uf l cm, revolve_shape fuel opt_0 uf l cm = RevSeq.revolve fuel opt_0 uf l cm.
Proof.
  induction fuel as [|f IH]; intros opt_0 uf l cm; [reflexivity|]. cbn [revolve_shape RevSeq.revolve].
  destruct (l =? 0); [reflexivity|]. destruct (cm =? 0); [reflexivity|]. destruct (l =? 1); [reflexivity|].
  destruct (cm =? 1).
  - cbn [app]. replace (l - 1 - -1) with l by lia. rewrite (cm1_for l).
    + cbn [bind]. rewrite <- !app_assoc. reflexivity.
    + intros i acc. destruct (i =? l - 1), (i + 1 =? 0); cbn [negb app]; rewrite <- ?app_assoc; reflexivity.
  - destruct (map_res _ (zrange 1 l)) as [lm|e]; cbn [bind]; [|reflexivity].
    destruct lm as [|x lm]; cbn [py_argmin bind]; [reflexivity|]. rewrite !IH.
    destruct (RevSeq.revolve f opt_0 uf (l - argmin (x :: lm)) (cm - 1)) as [s1|e]; cbn [bind]; [|reflexivity].
    destruct (RevSeq.revolve f opt_0 uf (argmin (x :: lm) - 1) cm) as [s2|e]; cbn [bind]; [|reflexivity].
    cbn [app]. rewrite <- !app_assoc. reflexivity.
Qed.

Theorem disk_revolve_shape_is_model : forall fuel opt_0 opt_inf uf rd wd l cm,
  disk_revolve_shape fuel opt_0 opt_inf uf rd wd l cm = RevSeq.disk_revolve fuel opt_0 opt_inf uf rd wd l cm.
Proof.
  induction fuel as [|f IH]; intros opt_0 opt_inf uf rd wd l cm; [reflexivity|]. cbn [disk_revolve_shape RevSeq.disk_revolve].
  destruct (l =? 0); [reflexivity|]. destruct (l =? 1); [destruct (cm =? 0); reflexivity|].
  destruct (map_res _ (zrange 1 l)) as [lm|e]; cbn [bind]; [|reflexivity].
  destruct lm as [|x lm]; cbn [py_min py_argmin bind]; [reflexivity|].
  destruct (tget opt_0 cm l) as [o|e]; cbn [bind]; [|reflexivity].
  rewrite !revolve_shape_is_model, !IH.
  destruct (zmin_list (x :: lm) 0 <? o).
  - destruct (RevSeq.disk_revolve f opt_0 opt_inf uf rd wd (l - argmin (x :: lm)) cm) as [s1|e]; cbn [bind]; [|reflexivity].
    destruct (RevSeq.revolve _ opt_0 uf (argmin (x :: lm) - 1) cm) as [s2|e]; cbn [bind]; [|reflexivity].
    cbn [app]. rewrite <- !app_assoc. reflexivity.
  - destruct (RevSeq.revolve _ opt_0 uf l cm) as [s2|e]; cbn [bind]; reflexivity.
Qed.
Print Assumptions revolve_shape_is_model.
Print Assumptions disk_revolve_shape_is_model.
