(* Multistage: the extracted machine (Model/Multistage.v) run against the reference executor (Model/Exec.v) by the
   monitored client (Model/Sched.v).  The invariant + potential theorem of MSPot.v is transported along two bridges:
   (1) under the invariant, Multistage.next takes exactly the step of MSPot.resume with the concrete n_advance;
   (2) an action accepted by MSPot's single-store executor is accepted by Exec.exec with the declared RAM/DISK budgets. *)
From Coq Require Import ZArith List Lia Bool.
Require Import Actions BinomDef Binom2 NAdvance NAdv Multistage Exec Sched ExecFacts RunFacts.
Require MSPot Inst MSTerm.
Import ListNotations.
Open Scope Z_scope.

(* ---------- projections of the single store of MSPot onto the RAM and DISK stores of Exec ---------- *)
Definition sentry := (Z * (storage * (Z * Z)))%type.
Definition to_cp (e : sentry) : Z * cp := (fst e, {| cp_ics := Some (snd (snd e)); cp_deps := None |}).
Definition proj (sg : storage) (st : list sentry) : store := map to_cp (filter (fun e => st_eqb (fst (snd e)) sg) st).

Lemma proj_lookup_none sg st n : MSPot.lookup n st = None -> lookup n (proj sg st) = None.
Proof.
  induction st as [|[k [l rg]] st IH]; [reflexivity|]. cbn [MSPot.lookup]. unfold proj. cbn [filter fst snd].
  destruct (Z.eqb_spec n k); [discriminate|]. intros H. destruct (st_eqb l sg); cbn [map to_cp lookup fst]; [destruct (Z.eqb_spec n k); [lia|]|]; apply IH; exact H.
Qed.
Lemma proj_lookup_some sg st n rg : MSPot.lookup n st = Some (sg, rg) ->
  lookup n (proj sg st) = Some {| cp_ics := Some rg; cp_deps := None |}.
Proof.
  induction st as [|[k [l rg0]] st IH]; [discriminate|]. cbn [MSPot.lookup]. unfold proj. cbn [filter fst snd].
  destruct (Z.eqb_spec n k) as [->|Hn].
  - intros H; injection H as -> ->. assert (E : st_eqb sg sg = true) by (destruct sg; reflexivity). rewrite E.
    cbn [map to_cp lookup fst snd]. rewrite Z.eqb_refl. reflexivity.
  - intros H. destruct (st_eqb l sg); cbn [map to_cp lookup fst]; [destruct (Z.eqb_spec n k); [lia|]|]; apply IH; exact H.
Qed.
Lemma st_eqb_refl s : st_eqb s s = true. Proof. destruct s; reflexivity. Qed.
Lemma st_eqb_eq a b : st_eqb a b = true -> a = b. Proof. destruct a, b; cbn; congruence. Qed.
Lemma st_eqb_neq a b : a <> b -> st_eqb a b = false. Proof. destruct a, b; cbn; congruence. Qed.
Lemma proj_remove_same sg st n rg : MSPot.lookup n st = Some (sg, rg) -> proj sg (MSPot.remove n st) = remove n (proj sg st).
Proof.
  induction st as [|[k [l rg0]] st IH]; [discriminate|]. cbn [MSPot.lookup MSPot.remove]. unfold proj. cbn [filter fst snd].
  destruct (Z.eqb_spec n k) as [->|Hn].
  - intros H; injection H as -> ->. rewrite st_eqb_refl. cbn [map to_cp remove fst]. rewrite Z.eqb_refl. reflexivity.
  - intros H. cbn [filter fst snd]. destruct (st_eqb l sg); cbn [map to_cp remove fst].
    + destruct (Z.eqb_spec n k); [lia|]. f_equal. apply IH. exact H.
    + apply IH. exact H.
Qed.
Lemma proj_remove_other sg sg' st n rg : MSPot.lookup n st = Some (sg, rg) -> sg' <> sg -> proj sg' (MSPot.remove n st) = proj sg' st.
Proof.
  induction st as [|[k [l rg0]] st IH]; [discriminate|]. cbn [MSPot.lookup MSPot.remove]. unfold proj. cbn [filter fst snd].
  destruct (Z.eqb_spec n k) as [->|Hn].
  - intros H Hne; injection H as -> ->. rewrite (st_eqb_neq sg sg') by congruence. reflexivity.
  - intros H Hne. cbn [filter fst snd]. destruct (st_eqb l sg'); cbn [map]; [f_equal|]; apply IH; assumption.
Qed.
Lemma proj_cons_same sg k rg st : proj sg ((k, (sg, rg)) :: st) = (k, {| cp_ics := Some rg; cp_deps := None |}) :: proj sg st.
Proof. unfold proj. cbn [filter fst snd]. rewrite st_eqb_refl. reflexivity. Qed.
Lemma proj_cons_other sg sg' k rg st : sg' <> sg -> proj sg' ((k, (sg, rg)) :: st) = proj sg' st.
Proof. intros H. unfold proj. cbn [filter fst snd]. rewrite (st_eqb_neq sg sg') by congruence. reflexivity. Qed.

(* ---------- labels by stack position ---------- *)
Section LABELS.
Variable labels : list storage.
Definition lab (d : nat) : storage := nth d labels DISK.
(* the store, bottom first, carries the labels of positions 0, 1, 2, ... *)
Definition labelled (st : list sentry) : Prop := map (fun e => fst (snd e)) (rev st) = firstn (length st) labels.
Lemma labelled_nil : labelled []. Proof. reflexivity. Qed.
Lemma firstn_snoc {A} (d : A) : forall n (l : list A), (n < length l)%nat -> firstn (S n) l = firstn n l ++ [nth n l d].
Proof.
  induction n as [|n IH]; intros [|x l] Hl; cbn in Hl; try lia; [reflexivity|].
  cbn [firstn nth app]. f_equal. apply IH. lia.
Qed.
Lemma labelled_push st k rg : labelled st -> (length st < length labels)%nat -> labelled ((k, (lab (length st), rg)) :: st).
Proof.
  unfold labelled. intros H Hl. cbn [rev length]. rewrite map_app. cbn [map fst snd].
  rewrite (firstn_snoc DISK) by exact Hl. f_equal. exact H.
Qed.
Lemma labelled_pop e st : labelled (e :: st) -> labelled st /\ fst (snd e) = lab (length st) /\ (length st < length labels)%nat.
Proof.
  unfold labelled. cbn [rev length]. rewrite map_app. cbn [map]. intros H.
  assert (Hlen : (length st < length labels)%nat).
  { apply (f_equal (@length _)) in H. rewrite app_length, map_length, rev_length, firstn_length in H. cbn [length] in H.
    pose proof (Nat.le_min_r (S (length st)) (length labels)). lia. }
  rewrite (firstn_snoc DISK) in H by exact Hlen.
  apply app_inj_tail in H. destruct H as [H1 H2]. repeat split; assumption.
Qed.
Lemma count_firstn sg n : (n <= length labels)%nat ->
  Z.of_nat (length (filter (st_eqb sg) (firstn n labels))) <= count_st sg labels.
Proof.
  unfold count_st. revert n. induction labels as [|l lb IH]; intros n Hn; [rewrite firstn_nil; cbn; lia|].
  destruct n as [|n]; [cbn; lia|]. cbn [firstn filter]. cbn in Hn. specialize (IH n ltac:(lia)).
  destruct (st_eqb sg l); cbn [length]; lia.
Qed.
Lemma st_eqb_sym a b : st_eqb a b = st_eqb b a. Proof. destruct a, b; reflexivity. Qed.
Lemma filter_length_rev {A} (f : A -> bool) : forall l, length (filter f (rev l)) = length (filter f l).
Proof.
  induction l as [|x l IH]; [reflexivity|]. cbn [rev filter]. rewrite filter_app, app_length, IH. cbn [filter].
  destruct (f x); cbn [length]; lia.
Qed.
Lemma filter_length_rev_map sg (st : list sentry) :
  length (filter (st_eqb sg) (map (fun e : sentry => fst (snd e)) (rev st))) = length (filter (fun e : sentry => st_eqb (fst (snd e)) sg) st).
Proof.
  rewrite map_rev, filter_length_rev.
  induction st as [|e st IH]; [reflexivity|]. cbn [map filter]. rewrite (st_eqb_sym sg).
  destruct (st_eqb (fst (snd e)) sg); cbn [length]; rewrite IH; reflexivity.
Qed.
Lemma len_proj_labelled sg st : labelled st ->
  len (proj sg st) = Z.of_nat (length (filter (st_eqb sg) (firstn (length st) labels))).
Proof.
  unfold labelled, proj, len. intros H. rewrite <- H, map_length. f_equal.
  rewrite filter_length_rev_map. reflexivity.
Qed.
End LABELS.

Lemma fwd_total_read c s : fwd_total (count_read c s) = fwd_total c. Proof. destruct s; reflexivity. Qed.
Lemma fwd_total_put c s n : fwd_total (count_put c s n) = fwd_total c. Proof. destruct s; reflexivity. Qed.
Ltac tot := cbn [cnt set_cnt set_work set_store set_rr count_fwd fwd_total MSPot.done]; rewrite ?fwd_total_read, ?fwd_total_put;
            cbn [cnt set_cnt set_work set_store set_rr count_fwd fwd_total MSPot.done]; try congruence; try lia.

(* ---------- what MSPot's executor does, action by action ---------- *)
Section PEXEC.
Variable N : Z.
Notation pexec := (MSPot.exec N).
Lemma pexec_fwd_cp x n0 n1 sg x' : is_cp sg = true -> pexec x (Forward n0 n1 true false sg) = Some x' ->
  MSPot.fwd x = Some n0 /\ n0 < n1 <= N - MSPot.rr x /\ MSPot.lookup n0 (MSPot.store x) = None /\
  x' = {| MSPot.fwd := Some n1; MSPot.wics := None; MSPot.wdeps := None; MSPot.store := (n0, (sg, (n0, n1))) :: MSPot.store x;
          MSPot.rr := MSPot.rr x; MSPot.endfwd := MSPot.endfwd x; MSPot.done := MSPot.done x + (n1 - n0) |}.
Proof.
  intros Hcp. cbn [MSPot.exec]. destruct (MSPot.fwd x) as [f|]; [|discriminate].
  destruct (Z.eqb_spec f n0), (Z.ltb_spec n0 n1), (Z.leb_spec n1 (N - MSPot.rr x)); cbn [andb negb]; try discriminate.
  unfold MSPot.is_cp. replace (match sg with RAM | DISK => true | _ => false end) with true by (destruct sg; cbn in Hcp; congruence).
  destruct (MSPot.lookup n0 (MSPot.store x)); cbn [MSPot.isnone negb orb andb]; [discriminate|].
  intros Hq; injection Hq as <-. subst f. repeat split; auto; lia.
Qed.
Lemma pexec_fwd_work x n0 n1 wa x' : pexec x (Forward n0 n1 false wa WORK) = Some x' ->
  MSPot.fwd x = Some n0 /\ n0 < n1 <= N - MSPot.rr x /\ (wa = true -> n1 = n0 + 1 /\ n1 = N - MSPot.rr x) /\
  x' = {| MSPot.fwd := Some n1; MSPot.wics := None; MSPot.wdeps := if wa then Some (n0, n1) else None; MSPot.store := MSPot.store x;
          MSPot.rr := MSPot.rr x; MSPot.endfwd := MSPot.endfwd x; MSPot.done := MSPot.done x + (n1 - n0) |}.
Proof.
  cbn [MSPot.exec]. destruct (MSPot.fwd x) as [f|]; [|discriminate].
  destruct (Z.eqb_spec f n0), (Z.ltb_spec n0 n1), (Z.leb_spec n1 (N - MSPot.rr x)); cbn [andb negb MSPot.is_cp]; try discriminate.
  destruct wa; cbn [andb negb].
  - destruct (Z.eqb_spec n1 (n0 + 1)), (Z.eqb_spec n1 (N - MSPot.rr x)); cbn [andb negb]; try discriminate.
    intros Hq; injection Hq as <-. subst f. repeat split; auto; lia.
  - intros Hq; injection Hq as <-. subst f. repeat split; auto; try lia; try discriminate.
Qed.
Lemma pexec_rev x n1 n0 cl x' : pexec x (Reverse n1 n0 cl) = Some x' ->
  MSPot.endfwd x = true /\ n1 = N - MSPot.rr x /\ n0 < n1 /\ MSPot.covers (MSPot.wdeps x) n0 n1 = true /\
  x' = {| MSPot.fwd := MSPot.fwd x; MSPot.wics := MSPot.wics x; MSPot.wdeps := None; MSPot.store := MSPot.store x;
          MSPot.rr := MSPot.rr x + (n1 - n0); MSPot.endfwd := true; MSPot.done := MSPot.done x |}.
Proof.
  cbn [MSPot.exec]. destruct (MSPot.endfwd x), (Z.eqb_spec n1 (N - MSPot.rr x)), (Z.ltb_spec n0 n1), (MSPot.covers (MSPot.wdeps x) n0 n1);
    cbn [andb negb]; try discriminate.
  intros Hq; injection Hq as <-. repeat split; auto.
Qed.
Lemma pexec_load x (mv : bool) n sg x' : pexec x ((if mv then Move else Copy) n sg WORK) = Some x' ->
  MSPot.endfwd x = true /\ MSPot.wics x = None /\ MSPot.wdeps x = None /\
  exists b0, MSPot.lookup n (MSPot.store x) = Some (sg, (n, b0)) /\ n < N - MSPot.rr x <= b0 /\
  x' = {| MSPot.fwd := Some n; MSPot.wics := Some (n, b0); MSPot.wdeps := None;
          MSPot.store := if mv then MSPot.remove n (MSPot.store x) else MSPot.store x;
          MSPot.rr := MSPot.rr x; MSPot.endfwd := true; MSPot.done := MSPot.done x |}.
Proof.
  assert (H : forall a, (a = Move n sg WORK \/ a = Copy n sg WORK) -> pexec x a = Some x' ->
     MSPot.endfwd x = true /\ MSPot.wics x = None /\ MSPot.wdeps x = None /\
     exists b0, MSPot.lookup n (MSPot.store x) = Some (sg, (n, b0)) /\ n < N - MSPot.rr x <= b0 /\
     x' = {| MSPot.fwd := Some n; MSPot.wics := Some (n, b0); MSPot.wdeps := None;
             MSPot.store := match a with Move _ _ _ => MSPot.remove n (MSPot.store x) | _ => MSPot.store x end;
             MSPot.rr := MSPot.rr x; MSPot.endfwd := true; MSPot.done := MSPot.done x |}).
  { intros a Ha He.
    assert (He' : (if negb (MSPot.endfwd x && MSPot.isnone (MSPot.wics x) && MSPot.isnone (MSPot.wdeps x)) then None else
        match MSPot.lookup n (MSPot.store x) with
        | Some (stg, (a0, b0)) =>
          if negb (MSPot.st_eqb stg sg && (a0 =? n) && (n <? N - MSPot.rr x) && (N - MSPot.rr x <=? b0)) then None else
          Some {| MSPot.fwd := Some n; MSPot.wics := Some (a0, b0); MSPot.wdeps := None;
                  MSPot.store := match a with Move _ _ _ => MSPot.remove n (MSPot.store x) | _ => MSPot.store x end;
                  MSPot.rr := MSPot.rr x; MSPot.endfwd := true; MSPot.done := MSPot.done x |}
        | None => None end) = Some x') by (destruct Ha as [-> | ->]; exact He).
    clear He. destruct (MSPot.endfwd x), (MSPot.wics x), (MSPot.wdeps x); cbn [andb negb MSPot.isnone] in He'; try discriminate.
    destruct (MSPot.lookup n (MSPot.store x)) as [[stg [a0 b0]]|]; [|discriminate].
    destruct (MSPot.st_eqb stg sg) eqn:Est, (Z.eqb_spec a0 n), (Z.ltb_spec n (N - MSPot.rr x)), (Z.leb_spec (N - MSPot.rr x) b0);
      cbn [andb negb] in He'; try discriminate.
    injection He' as <-. subst a0. assert (stg = sg) by (destruct stg, sg; cbn in Est; congruence). subst stg.
    repeat split; auto. exists b0. repeat split; auto; lia. }
  intros He. destruct mv; [apply (H _ (or_introl eq_refl) He)|apply (H _ (or_intror eq_refl) He)].
Qed.
Lemma pexec_endfwd x x' : pexec x EndForward = Some x' ->
  MSPot.endfwd x = false /\ MSPot.fwd x = Some N /\
  x' = {| MSPot.fwd := MSPot.fwd x; MSPot.wics := MSPot.wics x; MSPot.wdeps := MSPot.wdeps x; MSPot.store := MSPot.store x;
          MSPot.rr := MSPot.rr x; MSPot.endfwd := true; MSPot.done := MSPot.done x |}.
Proof.
  cbn [MSPot.exec]. destruct (MSPot.endfwd x); cbn [negb andb]; [discriminate|].
  destruct (MSPot.fwd x) as [f|]; [|discriminate]. destruct (Z.eqb_spec f N); [|discriminate].
  intros Hq; injection Hq as <-. subst f. auto.
Qed.
Lemma pexec_endrev x x' : pexec x EndReverse = Some x' ->
  MSPot.endfwd x = true /\ MSPot.rr x = N /\ MSPot.store x = [] /\ x' = x.
Proof.
  cbn [MSPot.exec]. destruct (MSPot.endfwd x), (Z.eqb_spec (MSPot.rr x) N), (MSPot.store x); cbn [negb andb]; try discriminate.
  intros Hq; injection Hq as <-. auto.
Qed.
End PEXEC.

(* ---------- the bridge ---------- *)
Section BRIDGE.
Variable c : cfg.
Variable br bd : Z.                                  (* the declared budgets handed to the reference executor *)
Let N := max_n c.
Let S_ := total c.
Let tj := tr c.
Hypothesis HN : 1 <= N.
Hypothesis HS : 2 <= N -> 1 <= S_.
Hypothesis Hlab : Forall (fun l => l = RAM \/ l = DISK) (labels c).
Hypothesis Hbr : count_st RAM (labels c) <= br.
Hypothesis Hbd : count_st DISK (labels c) <= bd.

Definition pms : xparams := {| xN := N; keep_all_deps := false; budget_ram := Some br; budget_disk := Some bd |}.
Definition lb : nat -> storage := lab (labels c).
Lemma lb_cp d : lb d = RAM \/ lb d = DISK.
Proof.
  unfold lb, lab. destruct (Nat.lt_ge_cases d (length (labels c))) as [Hd|Hd].
  - rewrite Forall_forall in Hlab. apply Hlab. apply nth_In. exact Hd.
  - rewrite nth_overflow by exact Hd. auto.
Qed.
Lemma lb_is_cp d : is_cp (lb d) = true.
Proof. destruct (lb_cp d) as [-> | ->]; reflexivity. Qed.
Lemma label_ok d : (d < length (labels c))%nat -> label c d = Ok (lb d).
Proof.
  intros Hd. unfold label, lb, lab. destruct (nth_error (labels c) d) eqn:E.
  - rewrite (nth_error_nth _ _ _ E). reflexivity.
  - apply nth_error_None in E. lia.
Qed.
Lemma S_nonneg : 0 <= S_. Proof. unfold S_, total. lia. Qed.

Definition pcP (q : Multistage.pc) : MSPot.pc :=
  match q with
  | PFwdLoop => MSPot.PFwdLoop | PFwdLast => MSPot.PFwdLast | PEndFwd => MSPot.PEndFwd | PRevHead => MSPot.PRevHead
  | PAfterCopy => MSPot.PAfterCopy | PInner => MSPot.PInner | PAdj => MSPot.PAdj | PRevAct => MSPot.PRevAct
  | PDone | PFinished => MSPot.PDone end.
Definition toP (s : st) : MSPot.st := {| MSPot.pcv := pcP (pcv s); MSPot.n_ := n_ s; MSPot.r_ := r_ s; MSPot.snaps := snaps s |}.
Notation PInv := (MSPot.Inv (Inst.TC tj) N S_ lb).
Notation Pres := (MSPot.resume (Inst.advC tj) N S_ lb).

Lemma nadv_ok m k : 1 <= m -> 1 <= k -> nadv m k tj = Ok (Inst.advC tj m k).
Proof. intros Hm Hk. unfold nadv. rewrite (Inst.advC_spec tj m k Hm Hk). reflexivity. Qed.

Lemma Pstep_ok s x : PInv (toP s) x ->
  match Pres (toP s) with
  | (s', MSPot.Act a) => exists x', MSPot.exec N x a = Some x' /\ PInv s' x'
  | (s', MSPot.Stop) => MSPot.pcv (toP s) = MSPot.PDone
  | (_, MSPot.Raise) => False
  end.
Proof.
  intros HI. exact (MSPot.step_ok (Inst.advC tj) (Inst.advC_range tj) (Inst.advC_one tj) (Inst.TC tj) (Inst.TC_1 tj) (Inst.TC_rec tj)
                      N S_ HN lb lb_cp (toP s) x HI).
Qed.

(* the shapes of the actions the machine emits, with the position they name *)
Definition emitted (a : action) : Prop :=
  match a with
  | Forward n0 n1 wi wa sg => 0 <= n0 /\ ((wi = true /\ wa = false /\ is_cp sg = true) \/ (wi = false /\ sg = WORK))
  | Reverse n1 n0 cl => 0 <= n0 /\ cl = true
  | Copy n sg dst | Move n sg dst => 0 <= n /\ is_cp sg = true /\ dst = WORK
  | EndForward | EndReverse => True end.
Definition n_after (a : action) (n : Z) : Z :=
  match a with Forward _ n1 _ _ _ => n1 | Copy k _ _ | Move k _ _ => k | _ => n end.

(* (1) the extracted machine takes the step of the proved machine *)
Lemma next_agrees s x : PInv (toP s) x -> pcv s <> PDone -> pcv s <> PFinished ->
  exists s' a, Multistage.next c s = (s', Yield a) /\ Pres (toP s) = (toP s', MSPot.Act a) /\ pcv s' <> PFinished /\
               exhausted s' = (match a with EndReverse => true | _ => false end) /\
               (exhausted s' = true <-> pcv s' = PDone) /\
               emitted a /\ n_ s' = n_after a (n_ s).
Proof.
  intros HI Hd Hf. pose proof (Pstep_ok s x HI) as Hstep.
  destruct HI as (HPhi & Hrr & Hlen & Hr & Hpc).
  destruct s as [q n r sn e]. unfold toP in *. cbn [pcv n_ r_ snaps MSPot.pcv MSPot.n_ MSPot.r_ MSPot.snaps] in *.
  assert (HlenS : len sn <= S_) by (unfold MSPot.len in Hlen; unfold len; exact Hlen).
  unfold Multistage.next. cbn [Multistage.resume pcv n_ r_ snaps].
  destruct q; cbn [pcP] in *; try congruence.
  - (* PFwdLoop *)
    destruct Hpc as (Hr0 & Hef & Hfw & Hwi & Hwd & Hn & Hfree & _).
    unfold MSPot.resume in *. cbn [MSPot.pcv MSPot.n_ MSPot.r_ MSPot.snaps] in *.
    fold N. destruct (Z.ltb_spec n (N - 1)) as [Hlt|Hge].
    + specialize (Hfree Hlt). unfold MSPot.free, MSPot.len in *. cbn [MSPot.snaps] in *.
      destruct (Z.ltb_spec (S_ - Z.of_nat (length sn)) 1); [lia|].
      fold S_. unfold len. rewrite nadv_ok by lia.
      destruct (Z.geb_spec (Z.of_nat (length sn)) S_); [lia|].
      rewrite label_ok by (unfold S_, total in *; lia).
      eexists _, _. split; [reflexivity|]. split; [reflexivity|]. split; [discriminate|]. split; [reflexivity|]. split; [split; discriminate|].
      split; [|reflexivity]. cbn. split; [lia|]. left. auto using lb_is_cp.
    + destruct (Z.eqb_spec n (N - 1)); [|lia]. cbn [negb].
      eexists _, _. split; [reflexivity|]. split; [reflexivity|]. split; [discriminate|]. split; [reflexivity|]. split; [split; discriminate|].
      split; [|reflexivity]. cbn. split; [lia|]. right. auto.
  - eexists _, _. split; [reflexivity|]. split; [reflexivity|]. split; [discriminate|]. split; [reflexivity|]. split; [split; discriminate|].
    split; [exact I|reflexivity].
  - destruct Hpc as (Hr0 & Hn & _).
    eexists _, _. split; [reflexivity|]. split; [reflexivity|]. split; [discriminate|]. split; [reflexivity|]. split; [split; discriminate|].
    split; [|reflexivity]. cbn. split; [lia|reflexivity].
  - (* PRevHead *)
    destruct Hpc as (Hr1 & Hef & Hwi & Hwd & Hm & Hb).
    unfold MSPot.resume in *. cbn [MSPot.pcv MSPot.n_ MSPot.r_ MSPot.snaps] in *. fold N.
    destruct (Z.ltb_spec r N) as [Hlt|Hge].
    + destruct sn as [|cp rest]; [contradiction|].
      pose proof (MSPot.mirror_lt _ _ _ _ Hm cp (or_introl eq_refl)) as Hcp.
      rewrite label_ok by (unfold S_, total, len in *; cbn [length] in *; lia).
      destruct (Z.eqb_spec cp (N - r - 1));
        (eexists _, _; split; [reflexivity|]; split; [reflexivity|]; split; [discriminate|]; split; [reflexivity|]; split; [split; discriminate|];
         split; [|reflexivity]; cbn; split; [lia|]; split; [apply lb_is_cp|reflexivity]).
    + destruct (Z.eqb_spec r N); cbn [negb] in *; [|contradiction].
      destruct sn; [|contradiction].
      eexists _, _. split; [reflexivity|]. split; [reflexivity|]. split; [discriminate|]. split; [reflexivity|]. split; [split; reflexivity|].
      split; [exact I|reflexivity].
  - (* PAfterCopy *)
    destruct Hpc as (Hr1 & Hef & Hwd & Hfw & Hm & Hb & (r1 & Hsn) & Hlt).
    pose proof (MSPot.mirror_lt _ _ _ _ Hm n ltac:(rewrite Hsn; left; reflexivity)) as Hn0.
    unfold MSPot.resume in *. cbn [MSPot.pcv MSPot.n_ MSPot.r_ MSPot.snaps] in *. fold N S_.
    unfold MSPot.free, MSPot.len in *. cbn [MSPot.snaps] in *. unfold len.
    destruct (Z.ltb_spec (S_ - Z.of_nat (length sn) + 1) 1); [contradiction|].
    rewrite nadv_ok by lia.
    eexists _, _. split; [reflexivity|]. split; [reflexivity|]. split; [discriminate|]. split; [reflexivity|]. split; [split; discriminate|].
    split; [|reflexivity]. cbn. split; [lia|]. right. auto.
  - (* PInner *)
    destruct Hpc as (Hr1 & Hef & Hwi & Hwd & Hfw & Hn & Hfree & _).
    unfold MSPot.resume in *. cbn [MSPot.pcv MSPot.n_ MSPot.r_ MSPot.snaps] in *. fold N.
    destruct (Z.ltb_spec n (N - r - 1)) as [Hlt|Hge].
    + specialize (Hfree Hlt). unfold MSPot.free, MSPot.len in *. cbn [MSPot.snaps] in *.
      destruct (Z.ltb_spec (S_ - Z.of_nat (length sn)) 1); [lia|].
      fold S_. unfold len. rewrite nadv_ok by lia.
      destruct (Z.geb_spec (Z.of_nat (length sn)) S_); [lia|].
      rewrite label_ok by (unfold S_, total in *; lia).
      eexists _, _. split; [reflexivity|]. split; [reflexivity|]. split; [discriminate|]. split; [reflexivity|]. split; [split; discriminate|].
      split; [|reflexivity]. cbn. split; [lia|]. left. auto using lb_is_cp.
    + destruct (Z.eqb_spec n (N - r - 1)); [|lia]. cbn [negb Multistage.resume pcv n_ r_ snaps].
      eexists _, _. split; [reflexivity|]. split; [reflexivity|]. split; [discriminate|]. split; [reflexivity|]. split; [split; discriminate|].
      split; [|reflexivity]. cbn. split; [lia|]. right. auto.
  - destruct Hpc as (Hr1 & Hef & Hwd & Hfw & Hn0 & _).
    eexists _, _. split; [reflexivity|]. split; [reflexivity|]. split; [discriminate|]. split; [reflexivity|]. split; [split; discriminate|].
    split; [|reflexivity]. cbn. split; [lia|]. right. auto.
  - destruct Hpc as (Hr1 & Hef & Hwi & Hwd & Hn1 & _).
    eexists _, _. split; [reflexivity|]. split; [reflexivity|]. split; [discriminate|]. split; [reflexivity|]. split; [split; discriminate|].
    split; [|reflexivity]. cbn. split; [lia|reflexivity].
Qed.

(* (2) the stores: MSPot's single store, labelled by stack position, against the RAM and DISK stores of Exec *)
Definition Rx (x : MSPot.xst) (X : xstate) : Prop :=
  fwd X = MSPot.fwd x /\ w_ics X = MSPot.wics x /\ w_deps X = MSPot.wdeps x /\ rr X = MSPot.rr x /\
  seen_endfwd X = MSPot.endfwd x /\ ram X = proj RAM (MSPot.store x) /\ disk X = proj DISK (MSPot.store x) /\
  fwd_total (cnt X) = MSPot.done x.

Lemma mirror_labelled : forall sn stv a, MSPot.mirror lb sn stv a -> (length sn <= length (labels c))%nat -> labelled (labels c) stv.
Proof.
  induction sn as [|p sn IH]; intros [|[k [l [a0 e]]] stv] a Hm Hl; cbn [MSPot.mirror] in Hm; try contradiction; [apply labelled_nil|].
  destruct Hm as (-> & -> & -> & _ & _ & _ & Hm). cbn [length] in Hl.
  pose proof (MSPot.mirror_len _ _ _ _ Hm) as Hlen. rewrite Hlen.
  apply labelled_push; [apply (IH _ _ Hm); lia|unfold sentry in *; lia].
Qed.
Lemma PInv_labelled q x : PInv q x -> labelled (labels c) (MSPot.store x).
Proof.
  intros (_ & _ & Hlen & _ & Hpc). unfold MSPot.len in Hlen.
  assert (Hl : (length (MSPot.snaps q) <= length (labels c))%nat) by (unfold S_, total in Hlen; lia).
  destruct (MSPot.pcv q).
  - destruct Hpc as (_ & _ & _ & _ & _ & _ & _ & _ & _ & [[_ ->]|(_ & Hm & _)]); [apply labelled_nil|eapply mirror_labelled; eauto].
  - destruct Hpc as (_ & _ & _ & _ & _ & _ & Hm & _). eapply mirror_labelled; eauto.
  - destruct Hpc as (_ & _ & _ & _ & _ & _ & Hm & _). eapply mirror_labelled; eauto.
  - destruct Hpc as (_ & _ & _ & _ & Hm & _). eapply mirror_labelled; eauto.
  - destruct Hpc as (_ & _ & _ & _ & Hm & _). eapply mirror_labelled; eauto.
  - destruct Hpc as (_ & _ & _ & _ & _ & _ & _ & Hm & _). eapply mirror_labelled; eauto.
  - destruct Hpc as (_ & _ & _ & _ & _ & _ & Hm & _). eapply mirror_labelled; eauto.
  - destruct Hpc as (_ & _ & _ & _ & _ & _ & Hm & _). eapply mirror_labelled; eauto.
  - destruct Hpc as (_ & _ & ->). apply labelled_nil.
Qed.
Lemma budget_ok sg (st : list sentry) : sg = RAM \/ sg = DISK -> labelled (labels c) st -> (length st < length (labels c))%nat ->
  sg = lb (length st) -> within (budget pms sg) (len (proj sg st) + 1) = true.
Proof.
  intros Hsg Hl Hlt Heq. rewrite (len_proj_labelled _ sg st Hl).
  pose proof (count_firstn (labels c) sg (S (length st)) ltac:(lia)) as Hc.
  rewrite (firstn_snoc DISK) in Hc by exact Hlt. rewrite filter_app, app_length in Hc. cbn [filter] in Hc.
  change (nth (length st) (labels c) DISK) with (lb (length st)) in Hc. rewrite <- Heq, st_eqb_refl in Hc. cbn [length] in Hc.
  destruct Hsg as [-> | ->]; cbn [budget pms budget_ram budget_disk within]; apply Z.leb_le; lia.
Qed.

Lemma exec_agrees x X a x' exh : Rx x X -> emitted a -> MSPot.exec N x a = Some x' ->
  labelled (labels c) (MSPot.store x') -> 0 <= MSPot.rr x ->
  (a = EndReverse -> exh = true) ->
  check pms true exh X a = None /\ Rx x' (apply pms exh X a).
Proof.
  intros (Rf & Rwi & Rwd & Rrr & Rse & Rram & Rdisk & Rtot) Hem Hex Hlab' Hrr0 Hexh.
  destruct a as [n0 n1 wi wa sg|n1 n0 cl|n src dst|n src dst| |]; cbn [emitted] in Hem.
  - destruct Hem as [Hn0 [(-> & -> & Hcp)|(-> & ->)]].
    + (* write a restart checkpoint *)
      destruct (pexec_fwd_cp N x n0 n1 sg x' Hcp Hex) as (Hf & Hn & Hlk & ->). cbn [MSPot.store] in Hlab'.
      destruct (labelled_pop _ _ _ Hlab') as (Hl0 & Hsg & Hlt). cbn [fst snd] in Hsg.
      assert (Hsgcp : sg = RAM \/ sg = DISK) by (destruct sg; cbn in Hcp; auto; discriminate).
      assert (Hmin : Z.min n1 N = n1) by lia.
      split.
      * unfold check. cbn [xN pms keep_all_deps]. rewrite Hmin, Rrr. unfold fwd_is. rewrite Rf, Hf, Hcp.
        assert (Ew : st_eqb sg WORK = false) by (destruct Hsgcp as [-> | ->]; reflexivity).
        assert (En : st_eqb sg NONE = false) by (destruct Hsgcp as [-> | ->]; reflexivity).
        rewrite Ew, En. cbn [andb orb negb].
        unfold can_put. rewrite Hcp.
        assert (Hsel : sel X sg = proj sg (MSPot.store x)) by (destruct Hsgcp as [-> | ->]; cbn [sel]; assumption).
        rewrite Hsel, (proj_lookup_none _ _ _ Hlk), (budget_ok sg _ Hsgcp Hl0 Hlt Hsg). cbn [isnone app].
        repeat (rewrite first_err_ok; [|bool_true; try lia; auto]). reflexivity.
      * unfold apply. cbn [xN pms]. rewrite Hmin.
        assert (Ew : st_eqb sg WORK = false) by (destruct Hsgcp as [-> | ->]; reflexivity). rewrite Ew. cbn [andb].
        unfold put. rewrite Hcp. unfold Rx.
        cbn [set_cnt set_store set_work fwd w_ics w_deps rr seen_endfwd ram disk MSPot.fwd MSPot.wics MSPot.wdeps MSPot.rr MSPot.endfwd MSPot.store sel].
        destruct Hsgcp as [-> | ->]; cbn [sel set_work ram disk];
          rewrite ?proj_cons_same, ?(proj_cons_other RAM DISK), ?(proj_cons_other DISK RAM) by discriminate;
          repeat split; auto; rewrite ?Rram, ?Rdisk; try reflexivity; tot.
    + (* advance in WORK *)
      destruct (pexec_fwd_work N x n0 n1 wa x' Hex) as (Hf & Hn & Hwa & ->).
      assert (Hmin : Z.min n1 N = n1) by lia.
      split.
      * unfold check. cbn [xN pms keep_all_deps]. rewrite Hmin, Rrr. unfold fwd_is. rewrite Rf, Hf.
        cbn [is_cp st_eqb andb orb negb can_put app].
        repeat (rewrite first_err_ok; [|bool_true; try lia; auto]).
        all: try reflexivity.
        destruct wa; [|reflexivity]. destruct (Hwa eq_refl) as [E1 E2]. rewrite <- E2, E1, !Z.eqb_refl. reflexivity.
      * unfold apply. cbn [xN pms]. rewrite Hmin. cbn [st_eqb andb put is_cp]. unfold Rx.
        cbn [set_cnt set_work fwd w_ics w_deps rr seen_endfwd ram disk MSPot.fwd MSPot.wics MSPot.wdeps MSPot.rr MSPot.endfwd MSPot.store].
        repeat split; auto; try congruence; tot.
  - destruct Hem as [Hn0 ->]. destruct (pexec_rev N x n1 n0 true x' Hex) as (Hse & Hn1 & Hlt & Hcov & ->).
    split.
    + unfold check. cbn [xN pms]. rewrite Rse, Hse, Rrr, Rwd.
      assert (Hcov' : covers (MSPot.wdeps x) n0 n1 = true) by exact Hcov. rewrite Hcov'.
      repeat (rewrite first_err_ok; [|bool_true; try lia; auto]). reflexivity.
    + unfold apply, set_rr, Rx. cbn [fwd w_ics w_deps rr seen_endfwd ram disk MSPot.fwd MSPot.wics MSPot.wdeps MSPot.rr MSPot.endfwd MSPot.store].
      repeat split; auto; try congruence; tot.
  - (* Copy *)
    destruct Hem as (Hn & Hcp & ->).
    destruct (pexec_load N x false n src x' Hex) as (Hse & Hwi & Hwd & b0 & Hlk & Hb & ->).
    assert (Hsgcp : src = RAM \/ src = DISK) by (destruct src; cbn in Hcp; auto; discriminate).
    assert (Hsel : sel X src = proj src (MSPot.store x)) by (destruct Hsgcp as [-> | ->]; cbn [sel]; assumption).
    split.
    + unfold check. cbn [xN pms keep_all_deps]. rewrite Hcp, Rse, Hse, Rwi, Hwi, Rwd, Hwd, Rrr, Hsel, (proj_lookup_some _ _ _ _ Hlk).
      cbn [cp_ics cp_deps wlen isnone negb andb orb covers app].
      repeat (rewrite first_err_ok; [|bool_true; try lia; auto]).
      all: try reflexivity.
      all: try (right; bool_true; lia).
    + unfold apply. rewrite Hsel, (proj_lookup_some _ _ _ _ Hlk). cbn [cp_ics cp_deps].
      assert (Hr : (n <=? n) && (n <? b0) = true) by (bool_true; lia). rewrite Hr. unfold Rx.
      cbn [set_cnt set_work fwd w_ics w_deps rr seen_endfwd ram disk MSPot.fwd MSPot.wics MSPot.wdeps MSPot.rr MSPot.endfwd MSPot.store].
      repeat split; auto; try congruence; tot.
  - (* Move *)
    destruct Hem as (Hn & Hcp & ->).
    destruct (pexec_load N x true n src x' Hex) as (Hse & Hwi & Hwd & b0 & Hlk & Hb & ->).
    assert (Hsgcp : src = RAM \/ src = DISK) by (destruct src; cbn in Hcp; auto; discriminate).
    assert (Hsel : sel X src = proj src (MSPot.store x)) by (destruct Hsgcp as [-> | ->]; cbn [sel]; assumption).
    split.
    + unfold check. cbn [xN pms keep_all_deps]. rewrite Hcp, Rse, Hse, Rwi, Hwi, Rwd, Hwd, Rrr, Hsel, (proj_lookup_some _ _ _ _ Hlk).
      cbn [cp_ics cp_deps wlen isnone negb andb orb covers app].
      repeat (rewrite first_err_ok; [|bool_true; try lia; auto]).
      all: try reflexivity.
      all: try (right; bool_true; lia).
    + unfold apply. rewrite Hsel, (proj_lookup_some _ _ _ _ Hlk). cbn [cp_ics cp_deps].
      assert (Hr : (n <=? n) && (n <? b0) = true) by (bool_true; lia). rewrite Hr. unfold Rx.
      destruct Hsgcp as [-> | ->];
        cbn [set_cnt set_store set_work fwd w_ics w_deps rr seen_endfwd ram disk MSPot.fwd MSPot.wics MSPot.wdeps MSPot.rr MSPot.endfwd MSPot.store];
        rewrite ?(proj_remove_same _ _ _ _ Hlk), ?(proj_remove_other _ DISK _ _ _ Hlk), ?(proj_remove_other _ RAM _ _ _ Hlk) by discriminate;
        repeat split; auto; try congruence; tot.
  - destruct (pexec_endfwd N x x' Hex) as (Hse & Hf & ->).
    split.
    + unfold check. cbn [xN pms]. unfold fwd_is. rewrite Rse, Hse, Rf, Hf, Z.eqb_refl. reflexivity.
    + unfold apply, Rx. cbn [fwd w_ics w_deps rr seen_endfwd ram disk MSPot.fwd MSPot.wics MSPot.wdeps MSPot.rr MSPot.endfwd MSPot.store]. repeat split; auto; try congruence; tot.
  - destruct (pexec_endrev N x x' Hex) as (Hse & Hrr & Hst & ->). rewrite (Hexh eq_refl).
    split.
    + unfold check. cbn [xN pms]. rewrite Rse, Hse, Rrr, Hrr, Z.eqb_refl, Rram, Rdisk, Hst. reflexivity.
    + unfold apply, Rx. cbn [fwd w_ics w_deps rr seen_endfwd ram disk]. repeat split; auto; try congruence; tot.
Qed.

Lemma pexec_fwd_after x a x' n : emitted a -> MSPot.exec N x a = Some x' -> MSPot.fwd x = Some n -> MSPot.fwd x' = Some (n_after a n).
Proof.
  intros Hem Hex Hf. destruct a as [n0 n1 wi wa sg|n1 n0 cl|k src dst|k src dst| |]; cbn [emitted n_after] in *.
  - destruct Hem as [_ [(-> & -> & Hcp)|(-> & ->)]].
    + destruct (pexec_fwd_cp N x n0 n1 sg x' Hcp Hex) as (_ & _ & _ & ->). reflexivity.
    + destruct (pexec_fwd_work N x n0 n1 wa x' Hex) as (_ & _ & _ & ->). reflexivity.
  - destruct Hem as [_ ->]. destruct (pexec_rev N x n1 n0 true x' Hex) as (_ & _ & _ & _ & ->). exact Hf.
  - destruct Hem as (_ & _ & ->). destruct (pexec_load N x false k src x' Hex) as (_ & _ & _ & b0 & _ & _ & ->). reflexivity.
  - destruct Hem as (_ & _ & ->). destruct (pexec_load N x true k src x' Hex) as (_ & _ & _ & b0 & _ & _ & ->). reflexivity.
  - destruct (pexec_endfwd N x x' Hex) as (_ & _ & ->). exact Hf.
  - destruct (pexec_endrev N x x' Hex) as (_ & _ & _ & ->). exact Hf.
Qed.

(* ---------- the monitored client ---------- *)
Variable cr cd : Z.                 (* the unit counts the object reports through uses_storage_type *)
Definition msched (s : st) (stt : bool) : sched := {| ob := OMulti c s cr cd; started := stt |}.
Inductive J : sched -> mon -> Prop :=
 | Jrun s stt m x : pcv s <> PDone -> pcv s <> PFinished -> mon_ok m -> PInv (toP s) x -> Rx x (mx m) ->
     MSPot.fwd x = Some (n_ s) -> exhausted s = false -> J (msched s stt) m
 | Jdone s stt m : (pcv s = PDone \/ pcv s = PFinished) -> exhausted s = true -> mon_ok m -> fwd_total (cnt (mx m)) = Inst.TC tj N S_ -> J (msched s stt) m.

Lemma J_step sch m : J sch m -> mon_ok m -> good_step pms J sch m.
Proof.
  intros HJ _. unfold good_step. inversion HJ as [s stt m0 x Hd Hf Hm HI HR Hfw Hex|s stt m0 Hpc Hexd Hm Htot]; subst; clear HJ.
  - destruct (next_agrees s x HI Hd Hf) as (s' & a & Hnext & Hres & Hf' & Hexh & Hexd & Hem & Hn').
    pose proof (Pstep_ok s x HI) as Hstep. rewrite Hres in Hstep. destruct Hstep as (x' & Hpex & HI').
    unfold Sched.next, msched. cbn [ob]. rewrite Hnext.
    set (sch' := {| ob := OMulti c s' cr cd; started := true |}).
    assert (Hrr0 : 0 <= MSPot.rr x) by (destruct HI as (_ & Hrrx & _ & Hr0 & _); rewrite Hrrx; cbn [toP MSPot.r_] in *; lia).
    destruct (exec_agrees x (mx m) a x' (is_exhausted sch') HR Hem Hpex (PInv_labelled _ _ HI') Hrr0) as (Hchk & HR').
    { intros ->. subst sch'. cbn [is_exhausted ob]. exact Hexh. }
    assert (Hexec : exec pms (negb (isnone (get_max_n sch'))) (is_exhausted sch') (mx m) a = inl (apply pms (is_exhausted sch') (mx m) a))
      by (apply exec_ok; exact Hchk).
    pose proof (pexec_fwd_after x a x' (n_ s) Hem Hpex Hfw) as Hfw'. rewrite <- Hn' in Hfw'.
    destruct HR' as (Rf & Rwi & Rwd & Rrr & Rse & Rram & Rdisk & Rtot).
    destruct HI' as (HPhi' & Hrr' & HI'rest).
    destruct m as [X merr cnt0]. unfold mon_ok in Hm. cbn [merr_] in Hm. subst merr.
    rewrite (mon_step_ok pms sch' a {| mx := X; merr_ := None; mcount := cnt0 |} _ eq_refl Hexec).
    + split; [reflexivity|].
      destruct (exhausted s') eqn:Ee.
      * apply Jdone; [left; apply Hexd; reflexivity|exact Ee|reflexivity|].
        cbn [mx] in Rtot |- *. rewrite Rtot. apply (MSPot.done_total (Inst.TC tj) N S_ lb (toP s') x'); [split; [exact HPhi'|split; [exact Hrr'|exact HI'rest]]|].
        cbn [toP MSPot.pcv]. rewrite (proj1 Hexd eq_refl). reflexivity.
      * eapply (Jrun s' true _ x'); try assumption.
        -- intros Hp. apply Hexd in Hp. congruence.
        -- reflexivity.
        -- split; [exact HPhi'|]. split; [exact Hrr'|exact HI'rest].
        -- cbn [mx]. repeat split; assumption.
    + rewrite Rf, Hfw'. cbn [get_max_n sch' ob isnone andb get_n]. apply Z.eqb_refl.
    + cbn [get_r sch' ob]. rewrite Rrr. cbn [toP MSPot.r_] in Hrr'. symmetry. exact Hrr'.
    + cbn [get_max_n sch' ob oz_ok xN pms]. apply Z.eqb_refl.
  - unfold Sched.next, msched. cbn [ob]. unfold Multistage.next.
    assert (Hr : Multistage.resume 3 c s = (s, StopIteration)) by (destruct s as [q n r sn e]; cbn [pcv] in Hpc; destruct Hpc as [-> | ->]; reflexivity).
    rewrite Hr. apply (Jdone _ true); [right; reflexivity|exact Hexd|exact Hm|exact Htot].
Qed.

(* every run of next() on a Multistage object built on this configuration: no executor error, n / r / max_n agree, no exception;
   and once the schedule reports exhaustion, exactly TC N S forward steps have been executed *)
Theorem multistage_cfg_run : forall k,
  let '(s', m, ls) := run_ops pms (msched init false) mon0 (repeat Next k) in
  mon_ok m /\ no_raise ls /\ (is_exhausted s' = true -> fwd_total (cnt (mx m)) = Inst.TC tj N S_).
Proof.
  intros k.
  assert (HJ0 : J (msched init false) mon0).
  { apply (Jrun init false mon0 (MSPot.init_x)); try discriminate; try reflexivity.
    - pose proof (MSPot.inv_init (Inst.TC tj) N S_ HN) as H0. exact (H0 HS S_nonneg lb).
    - repeat split; reflexivity. }
  pose proof (run_nexts pms J J_step k _ _ HJ0 eq_refl) as H.
  destruct (run_ops pms (msched init false) mon0 (repeat Next k)) as [[s' m'] ls]. destruct H as (HJ & H1 & H2).
  split; [assumption|]. split; [assumption|].
  intros He. inversion HJ as [s stt m0 x Hd Hf Hm HI HR Hfw Hex|s stt m0 Hpc Hexd Hm Htot]; subst.
  - cbn [is_exhausted msched ob] in He. congruence.
  - exact Htot.
Qed.

(* C09 flags: is_running True after every request; is_exhausted True exactly from EndReverse on *)
Definition is_endrev (a : action) : bool := match a with EndReverse => true | _ => false end.
Lemma J_flags sch m : J sch m -> flag_rule is_endrev (fst (Sched.next sch)) (snd (Sched.next sch)).
Proof.
  intros HJ. split; [apply next_started|].
  inversion HJ as [s stt m0 x Hd Hf Hm HI HR Hfw Hex|s stt m0 Hpc Hexd Hm Htot]; subst; clear HJ.
  - destruct (next_agrees s x HI Hd Hf) as (s' & a & Hnext & _ & _ & Hexh & _).
    unfold Sched.next, msched. cbn [ob]. rewrite Hnext. cbn [fst snd is_exhausted ob]. rewrite Hexh. destruct a; reflexivity.
  - unfold Sched.next, msched. cbn [ob]. unfold Multistage.next.
    assert (Hr : Multistage.resume 3 c s = (s, StopIteration)) by (destruct s as [q n r sn e]; cbn [pcv] in Hpc; destruct Hpc as [-> | ->]; reflexivity).
    rewrite Hr. cbn [fst snd is_exhausted ob mk exhausted]. exact Hexd.
Qed.
Theorem multistage_cfg_flags : forall k,
  let '(_, _, ls) := run_ops pms (msched init false) mon0 (repeat Next k) in Forall (line_fl (flag_rule is_endrev)) ls.
Proof.
  intros k.
  assert (HJ0 : J (msched init false) mon0).
  { apply (Jrun init false mon0 (MSPot.init_x)); try discriminate; try reflexivity.
    - pose proof (MSPot.inv_init (Inst.TC tj) N S_ HN) as H0. exact (H0 HS S_nonneg lb).
    - repeat split; reflexivity. }
  pose proof (run_nexts_fl pms J (flag_rule is_endrev) (fun s m HJ Hm => conj (J_step s m HJ Hm) (J_flags s m HJ)) k _ _ HJ0 eq_refl) as H.
  destruct (run_ops pms (msched init false) mon0 (repeat Next k)) as [[s' m'] ls]. destruct H as (_ & _ & _ & H). exact H.
Qed.
(* C02 / C09, termination: the measure of MSTerm decreases along the extracted run, so the schedule is exhausted after at
   most 6 * TC N S + 6 requests (and stays so) *)
Definition muS (sch : sched) : Z := match ob sch with OMulti _ s _ _ => MSTerm.mu (Inst.TC tj) N S_ (toP s) | _ => 0 end.
Lemma muS_nonneg sch m : J sch m -> is_exhausted sch = false -> 0 <= muS sch.
Proof.
  intros HJ _. assert (H : forall s stt, 0 <= muS (msched s stt)).
  { intros s stt. unfold muS, msched. cbn [ob]. unfold MSTerm.mu.
    pose proof (MSTerm.Phi_nonneg (Inst.TC tj) (Inst.TC_nonneg tj) N S_ (toP s)).
    assert (0 <= MSTerm.rank (MSPot.pcv (toP s))) by (destruct (MSPot.pcv (toP s)); cbn; lia). lia. }
  inversion HJ; subst; apply H.
Qed.
Lemma muS_dec sch m : J sch m -> is_exhausted sch = false -> muS (fst (Sched.next sch)) < muS sch.
Proof.
  intros HJ He. inversion HJ as [s stt m0 x Hd Hf Hm HI HR Hfw Hex|s stt m0 Hpc Hexd Hm Htot]; subst; clear HJ.
  - destruct (next_agrees s x HI Hd Hf) as (s' & a & Hnext & Hres & _).
    pose proof (MSTerm.mu_decreases (Inst.advC tj) (Inst.advC_range tj) (Inst.advC_one tj) (Inst.TC tj) (Inst.TC_1 tj) (Inst.TC_rec tj) (Inst.TC_nonneg tj)
                  N S_ HN lb lb_cp (toP s) x HI) as Hmu.
    rewrite Hres in Hmu. unfold Sched.next, msched, muS. cbn [ob]. rewrite Hnext. cbn [fst ob]. lia.
  - unfold is_exhausted, msched in He. cbn [ob] in He. congruence.
Qed.
Lemma exh_stays sch m : J sch m -> is_exhausted sch = true -> is_exhausted (fst (Sched.next sch)) = true.
Proof.
  intros HJ He. inversion HJ as [s stt m0 x Hd Hf Hm HI HR Hfw Hex|s stt m0 Hpc Hexd Hm Htot]; subst; clear HJ.
  - unfold is_exhausted, msched in He. cbn [ob] in He. congruence.
  - unfold Sched.next, msched. cbn [ob]. unfold Multistage.next.
    assert (Hr : Multistage.resume 3 c s = (s, StopIteration)) by (destruct s as [q n r sn e]; cbn [pcv] in Hpc; destruct Hpc as [-> | ->]; reflexivity).
    rewrite Hr. cbn [fst snd is_exhausted ob mk exhausted]. exact Hexd.
Qed.
Theorem multistage_cfg_terminates : forall k, 6 * Inst.TC tj N S_ < Z.of_nat k ->
  is_exhausted (fst (fst (run_ops pms (msched init false) mon0 (repeat Next k)))) = true.
Proof.
  intros k Hk.
  assert (HJ0 : J (msched init false) mon0).
  { apply (Jrun init false mon0 (MSPot.init_x)); try discriminate; try reflexivity.
    - pose proof (MSPot.inv_init (Inst.TC tj) N S_ HN) as H0. exact (H0 HS S_nonneg lb).
    - repeat split; reflexivity. }
  apply (run_nexts_fin pms J muS is_exhausted J_step muS_nonneg muS_dec exh_stays k _ _ HJ0 eq_refl).
  right. unfold muS, msched. cbn [ob]. unfold MSTerm.mu, MSPot.Phi. cbn [toP init mk pcv pcP MSPot.pcv MSPot.n_ MSPot.snaps MSPot.segs MSTerm.rank n_ snaps].
  unfold MSPot.free, MSPot.len. change (MSPot.snaps (toP init)) with (@nil Z). cbn [length]. replace (N - 0) with N by lia. replace (S_ - Z.of_nat 0) with S_ by lia. lia.
Qed.
End BRIDGE.
Print Assumptions multistage_cfg_run.
