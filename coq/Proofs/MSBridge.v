(* Multistage: the extracted machine (Model/Multistage.v) run against the reference executor (Model/Exec.v) by the
   monitored client (Model/Sched.v).  The invariant + potential theorem of MSPot.v is transported along two bridges:
   (1) under the invariant, Multistage.next takes exactly the step of MSPot.resume with the concrete n_advance;
   (2) an action accepted by MSPot's single-store executor is accepted by Exec.exec with the declared RAM/DISK budgets. *)
From Coq Require Import ZArith List Lia Bool.
Require Import Actions BinomDef Binom2 NAdvance NAdv Multistage Exec Sched ExecFacts RunFacts.
Require MSPot Inst.
Import ListNotations.
Open Scope Z_scope.

(* ---------- projections of the single store of MSPot onto the RAM and DISK stores of Exec ---------- *)
Definition sentry := (Z * (storage * (Z * Z)))%type.
Definition to_cp (e : sentry) : Z * cp := (fst e, {| cp_ics := Some (snd (snd e)); cp_deps := None |}).
Definition proj (sg : storage) (st : list sentry) : store := map to_cp (filter (fun e => st_eqb (fst (snd e)) sg) st).

Lemma proj_lookup_none sg st n : MSPot.lookup n st = None -> lookup n (proj sg st) = None.
Proof.
  induction st as [|[k [l rg]] st IH]; [reflexivity|]. cbn [MSPot.lookup]. unfold proj. cbn [filter fst snd].
  destruct (Z.eqb_spec n k); [discriminate|]. intros H. destruct (st_eqb l sg); cbn [map to_cp lookup fst]; [destruct (Z.eqb_spec n k); [lia|]|]; apply IH; exact H.
Qed.
Lemma proj_lookup_some sg st n rg : MSPot.lookup n st = Some (sg, rg) ->
  lookup n (proj sg st) = Some {| cp_ics := Some rg; cp_deps := None |}.
Proof.
  induction st as [|[k [l rg0]] st IH]; [discriminate|]. cbn [MSPot.lookup]. unfold proj. cbn [filter fst snd].
  destruct (Z.eqb_spec n k) as [->|Hn].
  - intros H; injection H as -> ->. assert (E : st_eqb sg sg = true) by (destruct sg; reflexivity). rewrite E.
    cbn [map to_cp lookup fst snd]. rewrite Z.eqb_refl. reflexivity.
  - intros H. destruct (st_eqb l sg); cbn [map to_cp lookup fst]; [destruct (Z.eqb_spec n k); [lia|]|]; apply IH; exact H.
Qed.
Lemma st_eqb_refl s : st_eqb s s = true. Proof. destruct s; reflexivity. Qed.
Lemma st_eqb_eq a b : st_eqb a b = true -> a = b. Proof. destruct a, b; cbn; congruence. Qed.
Lemma st_eqb_neq a b : a <> b -> st_eqb a b = false. Proof. destruct a, b; cbn; congruence. Qed.
Lemma proj_remove_same sg st n rg : MSPot.lookup n st = Some (sg, rg) -> proj sg (MSPot.remove n st) = remove n (proj sg st).
Proof.
  induction st as [|[k [l rg0]] st IH]; [discriminate|]. cbn [MSPot.lookup MSPot.remove]. unfold proj. cbn [filter fst snd].
  destruct (Z.eqb_spec n k) as [->|Hn].
  - intros H; injection H as -> ->. rewrite st_eqb_refl. cbn [map to_cp remove fst]. rewrite Z.eqb_refl. reflexivity.
  - intros H. cbn [filter fst snd]. destruct (st_eqb l sg); cbn [map to_cp remove fst].
    + destruct (Z.eqb_spec n k); [lia|]. f_equal. apply IH. exact H.
    + apply IH. exact H.
Qed.
Lemma proj_remove_other sg sg' st n rg : MSPot.lookup n st = Some (sg, rg) -> sg' <> sg -> proj sg' (MSPot.remove n st) = proj sg' st.
Proof.
  induction st as [|[k [l rg0]] st IH]; [discriminate|]. cbn [MSPot.lookup MSPot.remove]. unfold proj. cbn [filter fst snd].
  destruct (Z.eqb_spec n k) as [->|Hn].
  - intros H Hne; injection H as -> ->. rewrite (st_eqb_neq sg sg') by congruence. reflexivity.
  - intros H Hne. cbn [filter fst snd]. destruct (st_eqb l sg'); cbn [map]; [f_equal|]; apply IH; assumption.
Qed.
Lemma proj_cons_same sg k rg st : proj sg ((k, (sg, rg)) :: st) = (k, {| cp_ics := Some rg; cp_deps := None |}) :: proj sg st.
Proof. unfold proj. cbn [filter fst snd]. rewrite st_eqb_refl. reflexivity. Qed.
Lemma proj_cons_other sg sg' k rg st : sg' <> sg -> proj sg' ((k, (sg, rg)) :: st) = proj sg' st.
Proof. intros H. unfold proj. cbn [filter fst snd]. rewrite (st_eqb_neq sg sg') by congruence. reflexivity. Qed.

(* ---------- labels by stack position ---------- *)
Section LABELS.
Variable labels : list storage.
Definition lab (d : nat) : storage := nth d labels DISK.
(* the store, bottom first, carries the labels of positions 0, 1, 2, ... *)
Definition labelled (st : list sentry) : Prop := map (fun e => fst (snd e)) (rev st) = firstn (length st) labels.
Lemma labelled_nil : labelled []. Proof. reflexivity. Qed.
Lemma firstn_snoc {A} (d : A) : forall n (l : list A), (n < length l)%nat -> firstn (S n) l = firstn n l ++ [nth n l d].
Proof.
  induction n as [|n IH]; intros [|x l] Hl; cbn in Hl; try lia; [reflexivity|].
  cbn [firstn nth app]. f_equal. apply IH. lia.
Qed.
Lemma labelled_push st k rg : labelled st -> (length st < length labels)%nat -> labelled ((k, (lab (length st), rg)) :: st).
Proof.
  unfold labelled. intros H Hl. cbn [rev length]. rewrite map_app. cbn [map fst snd].
  rewrite (firstn_snoc DISK) by exact Hl. f_equal. exact H.
Qed.
Lemma labelled_pop e st : labelled (e :: st) -> labelled st /\ fst (snd e) = lab (length st) /\ (length st < length labels)%nat.
Proof.
  unfold labelled. cbn [rev length]. rewrite map_app. cbn [map]. intros H.
  assert (Hlen : (length st < length labels)%nat).
  { apply (f_equal (@length _)) in H. rewrite app_length, map_length, rev_length, firstn_length in H. cbn [length] in H.
    pose proof (Nat.le_min_r (S (length st)) (length labels)). lia. }
  rewrite (firstn_snoc DISK) in H by exact Hlen.
  apply app_inj_tail in H. destruct H as [H1 H2]. repeat split; assumption.
Qed.
Lemma count_firstn sg n : (n <= length labels)%nat ->
  Z.of_nat (length (filter (st_eqb sg) (firstn n labels))) <= count_st sg labels.
Proof.
  unfold count_st. revert n. induction labels as [|l lb IH]; intros n Hn; [rewrite firstn_nil; cbn; lia|].
  destruct n as [|n]; [cbn; lia|]. cbn [firstn filter]. cbn in Hn. specialize (IH n ltac:(lia)).
  destruct (st_eqb sg l); cbn [length]; lia.
Qed.
Lemma st_eqb_sym a b : st_eqb a b = st_eqb b a. Proof. destruct a, b; reflexivity. Qed.
Lemma filter_length_rev {A} (f : A -> bool) : forall l, length (filter f (rev l)) = length (filter f l).
Proof.
  induction l as [|x l IH]; [reflexivity|]. cbn [rev filter]. rewrite filter_app, app_length, IH. cbn [filter].
  destruct (f x); cbn [length]; lia.
Qed.
Lemma filter_length_rev_map sg (st : list sentry) :
  length (filter (st_eqb sg) (map (fun e : sentry => fst (snd e)) (rev st))) = length (filter (fun e : sentry => st_eqb (fst (snd e)) sg) st).
Proof.
  rewrite map_rev, filter_length_rev.
  induction st as [|e st IH]; [reflexivity|]. cbn [map filter]. rewrite (st_eqb_sym sg).
  destruct (st_eqb (fst (snd e)) sg); cbn [length]; rewrite IH; reflexivity.
Qed.
Lemma len_proj_labelled sg st : labelled st ->
  len (proj sg st) = Z.of_nat (length (filter (st_eqb sg) (firstn (length st) labels))).
Proof.
  unfold labelled, proj, len. intros H. rewrite <- H, map_length. f_equal.
  rewrite filter_length_rev_map. reflexivity.
Qed.
End LABELS.

(* ---------- what MSPot's executor does, action by action ---------- *)
Section PEXEC.
Variable N : Z.
Notation pexec := (MSPot.exec N).
Lemma pexec_fwd_cp x n0 n1 sg x' : is_cp sg = true -> pexec x (Forward n0 n1 true false sg) = Some x' ->
  MSPot.fwd x = Some n0 /\ n0 < n1 <= N - MSPot.rr x /\ MSPot.lookup n0 (MSPot.store x) = None /\
  x' = {| MSPot.fwd := Some n1; MSPot.wics := None; MSPot.wdeps := None; MSPot.store := (n0, (sg, (n0, n1))) :: MSPot.store x;
          MSPot.rr := MSPot.rr x; MSPot.endfwd := MSPot.endfwd x; MSPot.done := MSPot.done x + (n1 - n0) |}.
Proof.
  intros Hcp. cbn [MSPot.exec]. destruct (MSPot.fwd x) as [f|]; [|discriminate].
  destruct (Z.eqb_spec f n0), (Z.ltb_spec n0 n1), (Z.leb_spec n1 (N - MSPot.rr x)); cbn [andb negb]; try discriminate.
  unfold MSPot.is_cp. replace (match sg with RAM | DISK => true | _ => false end) with true by (destruct sg; cbn in Hcp; congruence).
  destruct (MSPot.lookup n0 (MSPot.store x)); cbn [MSPot.isnone negb orb andb]; [discriminate|].
  intros Hq; injection Hq as <-. subst f. repeat split; auto; lia.
Qed.
Lemma pexec_fwd_work x n0 n1 wa x' : pexec x (Forward n0 n1 false wa WORK) = Some x' ->
  MSPot.fwd x = Some n0 /\ n0 < n1 <= N - MSPot.rr x /\ (wa = true -> n1 = n0 + 1 /\ n1 = N - MSPot.rr x) /\
  x' = {| MSPot.fwd := Some n1; MSPot.wics := None; MSPot.wdeps := if wa then Some (n0, n1) else None; MSPot.store := MSPot.store x;
          MSPot.rr := MSPot.rr x; MSPot.endfwd := MSPot.endfwd x; MSPot.done := MSPot.done x + (n1 - n0) |}.
Proof.
  cbn [MSPot.exec]. destruct (MSPot.fwd x) as [f|]; [|discriminate].
  destruct (Z.eqb_spec f n0), (Z.ltb_spec n0 n1), (Z.leb_spec n1 (N - MSPot.rr x)); cbn [andb negb MSPot.is_cp]; try discriminate.
  destruct wa; cbn [andb negb].
  - destruct (Z.eqb_spec n1 (n0 + 1)), (Z.eqb_spec n1 (N - MSPot.rr x)); cbn [andb negb]; try discriminate.
    intros Hq; injection Hq as <-. subst f. repeat split; auto; lia.
  - intros Hq; injection Hq as <-. subst f. repeat split; auto; try lia; try discriminate.
Qed.
Lemma pexec_rev x n1 n0 cl x' : pexec x (Reverse n1 n0 cl) = Some x' ->
  MSPot.endfwd x = true /\ n1 = N - MSPot.rr x /\ n0 < n1 /\ MSPot.covers (MSPot.wdeps x) n0 n1 = true /\
  x' = {| MSPot.fwd := MSPot.fwd x; MSPot.wics := MSPot.wics x; MSPot.wdeps := None; MSPot.store := MSPot.store x;
          MSPot.rr := MSPot.rr x + (n1 - n0); MSPot.endfwd := true; MSPot.done := MSPot.done x |}.
Proof.
  cbn [MSPot.exec]. destruct (MSPot.endfwd x), (Z.eqb_spec n1 (N - MSPot.rr x)), (Z.ltb_spec n0 n1), (MSPot.covers (MSPot.wdeps x) n0 n1);
    cbn [andb negb]; try discriminate.
  intros Hq; injection Hq as <-. repeat split; auto.
Qed.
Lemma pexec_load x (mv : bool) n sg x' : pexec x ((if mv then Move else Copy) n sg WORK) = Some x' ->
  MSPot.endfwd x = true /\ MSPot.wics x = None /\ MSPot.wdeps x = None /\
  exists b0, MSPot.lookup n (MSPot.store x) = Some (sg, (n, b0)) /\ n < N - MSPot.rr x <= b0 /\
  x' = {| MSPot.fwd := Some n; MSPot.wics := Some (n, b0); MSPot.wdeps := None;
          MSPot.store := if mv then MSPot.remove n (MSPot.store x) else MSPot.store x;
          MSPot.rr := MSPot.rr x; MSPot.endfwd := true; MSPot.done := MSPot.done x |}.
Proof.
  assert (H : forall a, (a = Move n sg WORK \/ a = Copy n sg WORK) -> pexec x a = Some x' ->
     MSPot.endfwd x = true /\ MSPot.wics x = None /\ MSPot.wdeps x = None /\
     exists b0, MSPot.lookup n (MSPot.store x) = Some (sg, (n, b0)) /\ n < N - MSPot.rr x <= b0 /\
     x' = {| MSPot.fwd := Some n; MSPot.wics := Some (n, b0); MSPot.wdeps := None;
             MSPot.store := match a with Move _ _ _ => MSPot.remove n (MSPot.store x) | _ => MSPot.store x end;
             MSPot.rr := MSPot.rr x; MSPot.endfwd := true; MSPot.done := MSPot.done x |}).
  { intros a Ha He.
    assert (He' : (if negb (MSPot.endfwd x && MSPot.isnone (MSPot.wics x) && MSPot.isnone (MSPot.wdeps x)) then None else
        match MSPot.lookup n (MSPot.store x) with
        | Some (stg, (a0, b0)) =>
          if negb (MSPot.st_eqb stg sg && (a0 =? n) && (n <? N - MSPot.rr x) && (N - MSPot.rr x <=? b0)) then None else
          Some {| MSPot.fwd := Some n; MSPot.wics := Some (a0, b0); MSPot.wdeps := None;
                  MSPot.store := match a with Move _ _ _ => MSPot.remove n (MSPot.store x) | _ => MSPot.store x end;
                  MSPot.rr := MSPot.rr x; MSPot.endfwd := true; MSPot.done := MSPot.done x |}
        | None => None end) = Some x') by (destruct Ha as [-> | ->]; exact He).
    clear He. destruct (MSPot.endfwd x), (MSPot.wics x), (MSPot.wdeps x); cbn [andb negb MSPot.isnone] in He'; try discriminate.
    destruct (MSPot.lookup n (MSPot.store x)) as [[stg [a0 b0]]|]; [|discriminate].
    destruct (MSPot.st_eqb stg sg) eqn:Est, (Z.eqb_spec a0 n), (Z.ltb_spec n (N - MSPot.rr x)), (Z.leb_spec (N - MSPot.rr x) b0);
      cbn [andb negb] in He'; try discriminate.
    injection He' as <-. subst a0. assert (stg = sg) by (destruct stg, sg; cbn in Est; congruence). subst stg.
    repeat split; auto. exists b0. repeat split; auto; lia. }
  intros He. destruct mv; [apply (H _ (or_introl eq_refl) He)|apply (H _ (or_intror eq_refl) He)].
Qed.
Lemma pexec_endfwd x x' : pexec x EndForward = Some x' ->
  MSPot.endfwd x = false /\ MSPot.fwd x = Some N /\
  x' = {| MSPot.fwd := MSPot.fwd x; MSPot.wics := MSPot.wics x; MSPot.wdeps := MSPot.wdeps x; MSPot.store := MSPot.store x;
          MSPot.rr := MSPot.rr x; MSPot.endfwd := true; MSPot.done := MSPot.done x |}.
Proof.
  cbn [MSPot.exec]. destruct (MSPot.endfwd x); cbn [negb andb]; [discriminate|].
  destruct (MSPot.fwd x) as [f|]; [|discriminate]. destruct (Z.eqb_spec f N); [|discriminate].
  intros Hq; injection Hq as <-. subst f. auto.
Qed.
Lemma pexec_endrev x x' : pexec x EndReverse = Some x' ->
  MSPot.endfwd x = true /\ MSPot.rr x = N /\ MSPot.store x = [] /\ x' = x.
Proof.
  cbn [MSPot.exec]. destruct (MSPot.endfwd x), (Z.eqb_spec (MSPot.rr x) N), (MSPot.store x); cbn [negb andb]; try discriminate.
  intros Hq; injection Hq as <-. auto.
Qed.
End PEXEC.
