(* get_opt_inf_table of hrevolve_sequences/disk_revolve.py (one_read_disk = True) as harness/translate.py renders it: optinf_shape is
   the translator's output on the pinned tree; Gen/OptInfGen.v re-translates the current source on every run and proves the result
   equal to it by conversion.  This file proves optinf_shape equal, for all arguments, to RevSeq.get_opt_inf_table. *)
From Coq Require Import ZArith List Bool Lia.
Require Import Actions Ops RevSeq HRevSeq SeqGenSpec.
Require RevBridge5.
Import ListNotations.
Open Scope Z_scope.

Definition optinf_shape (lmax cm uf ub rd wd : Z) (opt_0 : list (list Z)) : res (list Z) :=
  let opt_inf : list Z := [] in
  let opt_inf := opt_inf ++ [ub] in let opt_inf := if (cm =? 0) then opt_inf ++ [(((wd + uf) + (2 * ub)) + rd)] else opt_inf ++ [(uf + (2 * ub))] in do opt_inf <- range_for 2 (lmax + 1) opt_inf (fun l opt_inf => do cands_ <- map_res (fun j => do x2_ <- lget opt_inf (l - j); do x3_ <- tget opt_0 cm (j - 1); Ok ((((wd + (j * uf)) + x2_) + rd) + x3_)) (zrange 1 l); do min_aux <- py_min cands_; do x1_ <- tget opt_0 cm l; let opt_inf := opt_inf ++ [(Z.min x1_ min_aux)] in Ok opt_inf); Ok opt_inf.


Lemma inf_loop opt_0 cm uf rd wd body :
  (forall l tab, body l tab = (do cands_ <- map_res (fun j => do x2_ <- lget tab (l - j); do x3_ <- RevSeq.tget opt_0 cm (j - 1); Ok (wd + j * uf + x2_ + rd + x3_)) (zrange 1 l);
                               do min_aux <- py_min cands_; do x1_ <- RevSeq.tget opt_0 cm l; Ok (tab ++ [Z.min x1_ min_aux]))) ->
  forall cnt l tab, 2 <= l -> for_ l cnt tab body = inf_ext cnt l opt_0 cm uf rd wd tab.
Proof.
  intros Hb. induction cnt as [|c IH]; intros l tab Hl; cbn [for_ inf_ext]; [reflexivity|]. rewrite Hb.
  destruct (map_res _ (zrange 1 l)) as [lm|e] eqn:E; cbn [bind]; [|reflexivity].
  assert (lm <> []).
  { apply RevBridge5.map_res_length in E. unfold zrange in E. rewrite map_length, seq_length in E. intros ->. cbn in E. lia. }
  destruct lm as [|x lm]; [congruence|]. cbn [py_min bind]. destruct (RevSeq.tget opt_0 cm l) as [o|e]; cbn [bind]; [|reflexivity]. apply IH. lia.
Qed.
Theorem optinf_shape_is_model : forall lmax cm uf ub rd wd opt_0, optinf_shape lmax cm uf ub rd wd opt_0 = RevSeq.get_opt_inf_table lmax cm uf ub rd wd opt_0.
Proof.
  intros. unfold optinf_shape, RevSeq.get_opt_inf_table, range_for. cbv zeta. cbn [app]. replace (lmax + 1 - 2) with (lmax - 1) by lia.
  rewrite (inf_loop opt_0 cm uf rd wd) by (try lia; intros; reflexivity).
  destruct (cm =? 0); cbn [app]; destruct (inf_ext _ 2 opt_0 cm uf rd wd _); reflexivity.
Qed.
Print Assumptions optinf_shape_is_model.
