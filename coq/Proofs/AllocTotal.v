(* C17 for Multistage: allocate_snapshots (the dry run + weighing + top-k) never fails on the documented domain, so the
   constructor returns a schedule for every max_n >= 1 and every unit split with at least one unit when max_n > 1;
   with it the Multistage run theorem needs no hypothesis about the constructor. *)
From Coq Require Import ZArith List Lia Bool.
Require Import Actions NAdvance Multistage Exec Sched ExecFacts RunFacts AllocProofs MSBridge MultistageRun OnlineFlags.
Require MSPot Inst.
Import ListNotations.
Open Scope Z_scope.

Lemma pc_eq_dec (a b : Multistage.pc) : {a = b} + {a <> b}. Proof. decide equality. Defined.
Definition not_raise (o : outcome) : Prop := match o with Raise _ => False | _ => True end.

(* what a yielded action does to the stack of snapshots -- for every state, no invariant *)
Definition stack_rel (c : cfg) (s s' : st) (a : action) : Prop :=
  match a with
  | Forward _ _ true _ _ => length (snaps s') = S (length (snaps s)) /\ len (snaps s) < total c
  | Forward _ _ false _ _ => snaps s' = snaps s
  | Copy _ _ _ => snaps s' = snaps s /\ snaps s <> []
  | Move _ _ t => t = WORK /\ exists cp, snaps s = cp :: snaps s'
  | _ => snaps s' = snaps s end.
Lemma resume_stack : forall f c s s' a, Multistage.resume f c s = (s', Yield a) -> stack_rel c s s' a.
Proof.
  induction f as [|f IH]; intros c s s' a H; cbn [Multistage.resume] in H; [discriminate|].
  destruct s as [q n r sn e]. cbn [pcv n_ r_ snaps] in H.
  destruct q; brk H; try discriminate;
    try (injection H as <- <-; unfold stack_rel; cbn [mk snaps length]; repeat split; auto; try discriminate; try (eexists; reflexivity); fail).
  - injection H as <- <-. unfold stack_rel. cbn [mk snaps length]. split; [reflexivity|].
    match goal with E : (_ >=? _) = false |- _ => rewrite Z.geb_leb in E; apply Z.leb_gt in E; exact E end.
  - injection H as <- <-. unfold stack_rel. cbn [mk snaps length]. split; [reflexivity|].
    match goal with E : (_ >=? _) = false |- _ => rewrite Z.geb_leb in E; apply Z.leb_gt in E; exact E end.
  - apply IH in H. exact H.
Qed.
Lemma next_stack c s s' a : Multistage.next c s = (s', Yield a) -> stack_rel c s s' a.
Proof.
  unfold Multistage.next. destruct (Multistage.resume 3 c s) as [s1 o] eqn:E. destruct o; intros H; try discriminate.
  injection H as <- <-. exact (resume_stack 3 c s s1 a0 E).
Qed.

Lemma weigh_run c : forall fuel s w, Z.of_nat (length w) = total c -> Forall not_raise (run fuel c s) ->
  exists w' d', weigh (run fuel c s) (len (snaps s) - 1) w = Ok (w', d').
Proof.
  induction fuel as [|f IH]; intros s w Hw Hnr; cbn [run] in *; [eexists _, _; reflexivity|].
  destruct (Multistage.next c s) as [s' o] eqn:En.
  destruct o as [a| |e].
  - pose proof (next_stack c s s' a En) as Hst. inversion Hnr as [|? ? _ Hnr']; subst.
    destruct a as [n0 n1 wi wa sg|n1 n0 cl|k src dst|k src dst| |]; cbn [stack_rel] in Hst; cbn [weigh].
    + destruct wi.
      * destruct Hst as [Hl Hlt]. unfold len in *.
        replace (Z.of_nat (length (snaps s)) - 1 + 1) with (Z.of_nat (length (snaps s))) by lia.
        destruct (Z.geb_spec (Z.of_nat (length (snaps s))) (Z.of_nat (length w))); [lia|].
        specialize (IH s' (bump w (Z.to_nat (Z.of_nat (length (snaps s))))) ltac:(rewrite bump_length; exact Hw) Hnr').
        unfold len in IH. rewrite Hl in IH. replace (Z.of_nat (S (length (snaps s))) - 1) with (Z.of_nat (length (snaps s))) in IH by lia. exact IH.
      * rewrite <- Hst. apply IH; assumption.
    + rewrite <- Hst. apply IH; assumption.
    + destruct Hst as [Hst Hne]. unfold len in *. destruct (snaps s) as [|p rest] eqn:Es; [congruence|].
      cbn [length]. destruct (Z.ltb_spec (Z.of_nat (S (length rest)) - 1) 0); [lia|].
      specialize (IH s' (bump w (Z.to_nat (Z.of_nat (S (length rest)) - 1))) ltac:(rewrite bump_length; exact Hw) Hnr').
      unfold len in IH. rewrite Hst in IH. exact IH.
    + destruct Hst as [-> [cp Hst]]. unfold len in *. rewrite Hst. cbn [length].
      destruct (Z.ltb_spec (Z.of_nat (S (length (snaps s'))) - 1) 0); [lia|].
      specialize (IH s' (bump w (Z.to_nat (Z.of_nat (S (length (snaps s'))) - 1))) ltac:(rewrite bump_length; exact Hw) Hnr').
      unfold len in IH. replace (Z.of_nat (S (length (snaps s'))) - 1 - 1) with (Z.of_nat (length (snaps s')) - 1) by lia. exact IH.
    + rewrite <- Hst. apply IH; assumption.
    + rewrite <- Hst. apply IH; assumption.
  - cbn [weigh]. eexists _, _; reflexivity.
  - inversion Hnr as [|? ? Hr _]; subst. contradiction.
Qed.

(* under the invariant of MSPot the extracted machine never raises *)
Section NORAISE.
Variable c : cfg.
Hypothesis HN : 1 <= max_n c.
Hypothesis Hlab : Forall (fun l => l = RAM \/ l = DISK) (labels c).
Lemma run_no_raise : forall fuel s x, MSPot.Inv (Inst.TC (tr c)) (max_n c) (total c) (lb c) (toP s) x -> pcv s <> PFinished ->
  Forall not_raise (run fuel c s).
Proof.
  induction fuel as [|f IH]; intros s x HI Hf; cbn [run]; [constructor|].
  destruct (pc_eq_dec (pcv s) PDone) as [Hd|Hd].
  - unfold Multistage.next. assert (Hr : Multistage.resume 3 c s = (s, StopIteration)) by (destruct s as [q n r sn e]; cbn [pcv] in Hd; subst q; reflexivity).
    rewrite Hr. repeat constructor.
  - destruct (next_agrees c HN Hlab s x HI Hd Hf) as (s' & a & Hn & Hres & Hf' & _).
    rewrite Hn. constructor; [exact I|].
    pose proof (Pstep_ok c HN Hlab s x HI) as Hstep. rewrite Hres in Hstep. destruct Hstep as (x' & _ & HI').
    exact (IH s' x' HI' Hf').
Qed.
End NORAISE.

Theorem allocate_total N ram disk t : 1 <= N -> 0 <= ram -> 0 <= disk -> (2 <= N -> 1 <= ram + disk) ->
  exists al, allocate N ram disk t = Ok al.
Proof.
  intros HN Hram Hdisk Hu. unfold allocate.
  set (sn := Z.min (Z.min ram (N - 1) + Z.min disk (N - 1)) (N - 1)).
  set (c0 := {| max_n := N; labels := repeat DISK (Z.to_nat sn); tr := t |}).
  assert (Hsn0 : 0 <= sn) by (unfold sn; lia).
  assert (Htot : total c0 = sn) by (unfold total, c0; cbn [labels]; rewrite repeat_length; lia).
  assert (Hlab : Forall (fun l => l = RAM \/ l = DISK) (labels c0)) by (apply Forall_repeat; auto).
  assert (HI : MSPot.Inv (Inst.TC (tr c0)) (max_n c0) (total c0) (lb c0) (toP init) MSPot.init_x).
  { apply (MSPot.inv_init (Inst.TC (tr c0)) (max_n c0) (total c0)); cbn [max_n c0]; rewrite ?Htot; try lia; unfold sn; lia. }
  pose proof (run_no_raise c0 HN Hlab (fuel_for N) init MSPot.init_x HI ltac:(discriminate)) as Hnr.
  destruct (weigh_run c0 (fuel_for N) init (repeat 0 (Z.to_nat sn)) ltac:(rewrite repeat_length, Htot; lia) Hnr) as (w' & d' & Hw).
  change (len (snaps init) - 1) with (-1) in Hw. rewrite Hw. eexists; reflexivity.
Qed.

Theorem construct_total N ram disk tj : 1 <= N -> 0 <= ram -> 0 <= disk -> (2 <= N -> 1 <= ram + disk) ->
  exists c, Multistage.construct N ram disk tj = Ok c.
Proof.
  intros HN Hram Hdisk Hu. unfold Multistage.construct. destruct (Z.ltb_spec N 1); [lia|].
  destruct (_ =? 0); [eexists; reflexivity|]. destruct (_ =? 0); [eexists; reflexivity|].
  destruct (allocate_total N ram disk tj HN Hram Hdisk Hu) as [al ->]. eexists; reflexivity.
Qed.

(* the Multistage run theorem with no hypothesis on the constructor *)
Theorem multistage_run_total N ram disk tj k : 1 <= N -> 0 <= ram -> 0 <= disk -> (2 <= N -> 1 <= ram + disk) ->
  exists o0 m ls, run_case (PMulti N ram disk tj) (ms_params N ram disk) (repeat Next k) = Ok (o0, m, ls) /\ mon_ok m /\ no_raise ls.
Proof.
  intros HN Hram Hdisk Hu. destruct (construct_total N ram disk tj HN Hram Hdisk Hu) as [c Hc].
  destruct (multistage_run N ram disk tj c k HN Hram Hdisk Hu Hc) as (o0 & m & ls & E & Hm & Hl & _). exists o0, m, ls. auto.
Qed.
Print Assumptions multistage_run_total.

(* C02 / C09: the stream is complete -- EndReverse is emitted within 6 * TC N S + 1 requests, and by then the reference
   executor has carried out exactly TC N S forward steps *)
Require Import Flags.
Theorem multistage_terminates N ram disk tj k : 1 <= N -> 0 <= ram -> 0 <= disk -> (2 <= N -> 1 <= ram + disk) ->
  let S_ := Z.min (Z.min ram (N - 1) + Z.min disk (N - 1)) (N - 1) in
  6 * Inst.TC tj N S_ < Z.of_nat k ->
  exists o0 m ls, run_case (PMulti N ram disk tj) (ms_params N ram disk) (repeat Next k) = Ok (o0, m, ls) /\ mon_ok m /\ no_raise ls /\
     (exists ob, In (LNext (Yield EndReverse) ob) ls) /\ fwd_total (cnt (mx m)) = Inst.TC tj N S_.
Proof.
  intros HN Hram Hdisk Hu S_ Hk. destruct (construct_total N ram disk tj HN Hram Hdisk Hu) as [c Hc].
  destruct (construct_labels N ram disk tj c HN Hram Hdisk Hc) as (HmaxN & Htr & Hlab & Htot & Hcr & Hcd).
  unfold run_case, Sched.construct. rewrite Hc. cbn [bind].
  assert (HN' : 1 <= max_n c) by lia.
  assert (HS : 2 <= max_n c -> 1 <= total c) by (intros; rewrite Htot; lia).
  pose proof (multistage_cfg_run c (Z.min ram (N - 1)) (Z.min disk (N - 1)) HN' HS Hlab Hcr Hcd (count_st RAM (labels c)) (count_st DISK (labels c)) k) as Hrun.
  pose proof (multistage_cfg_terminates c (Z.min ram (N - 1)) (Z.min disk (N - 1)) HN' HS Hlab Hcr Hcd (count_st RAM (labels c)) (count_st DISK (labels c)) k) as Hterm.
  rewrite Htr, HmaxN, Htot in Hterm. specialize (Hterm Hk).
  unfold pms, msched in *. rewrite HmaxN in *. unfold ms_params.
  set (s0 := {| ob := OMulti c init (count_st RAM (labels c)) (count_st DISK (labels c)); started := false |}) in *.
  assert (HI0 : MsI s0) by (eexists _, _, _, _; split; [reflexivity|intros E; discriminate E]).
  pose proof (ops_flags_full MsI is_endrev ms_sched_next ms_sched_fin
               {| xN := N; keep_all_deps := false; budget_ram := Some (Z.min ram (N - 1)); budget_disk := Some (Z.min disk (N - 1)) |}
               (repeat Next k) s0 mon0 HI0) as Hfl.
  destruct (run_ops _ s0 mon0 (repeat Next k)) as [[s' m'] ls]. cbn [fst] in Hterm. destruct Hrun as (H1 & H2 & H3). destruct Hfl as [_ Hfl].
  eexists _, _, _. split; [reflexivity|]. split; [assumption|]. split; [assumption|]. split.
  - rewrite Hterm in Hfl. change (is_exhausted s0) with false in Hfl. symmetry in Hfl.
    destruct (seen_after_witness is_endrev ls Hfl) as (a & ob & Hin & Ha). destruct a; try discriminate. exists ob. exact Hin.
  - rewrite (H3 Hterm), Htr, Htot. reflexivity.
Qed.
Print Assumptions multistage_terminates.
