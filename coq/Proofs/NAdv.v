From Coq Require Import ZArith List Lia Arith Bool.
Require Import BinomDef Binom2 NAdvance.
Open Scope Z_scope.

(* ---------- more facts on beta ---------- *)
Lemma beta_pos s t : 0 < beta s t.
Proof.
  revert t; induction s as [|s IHs]; intro t; [rewrite beta_0_l; lia|].
  induction t as [|t IHt]; [rewrite beta_0_r; lia|].
  rewrite beta_SS. specialize (IHs (S t)). lia.
Qed.
Lemma beta_mono_t s t : beta s t <= beta s (S t).
Proof.
  destruct s as [|s]; [rewrite !beta_0_l; lia|]. rewrite beta_SS. pose proof (beta_pos s (S t)). lia.
Qed.
Lemma beta_mono_s s t : beta s t <= beta (S s) t.
Proof. rewrite (beta_sym s t), (beta_sym (S s) t). apply beta_mono_t. Qed.
Lemma beta_1 t : beta 1 t = Z.of_nat t + 1.
Proof. induction t as [|t IH]; [reflexivity|]. rewrite beta_SS, beta_0_l, IH. lia. Qed.
Lemma beta_ge s t : Z.of_nat t + 1 <= beta (S s) t.
Proof.
  induction s as [|s IH]; [rewrite beta_1; lia|]. pose proof (beta_mono_s (S s) t). lia.
Qed.
Lemma beta_s1 s : beta s 1 = Z.of_nat s + 1.
Proof. rewrite beta_sym. apply beta_1. Qed.
Lemma beta_s2 s : 2 * beta s 2 = (Z.of_nat s + 1) * (Z.of_nat s + 2).
Proof. pose proof (beta_mul_t s 1). rewrite beta_s1 in H. cbn [Z.of_nat] in H. lia. Qed.

(* ---------- the loop ---------- *)
Lemma find_t_spec : forall fuel n sn tn,
  (1 <= sn)%nat -> (2 <= tn)%nat ->
  beta sn (tn - 1) < n -> n <= Z.of_nat fuel + Z.of_nat tn ->
  exists tn', (tn <= tn')%nat /\
    find_t fuel n (Z.of_nat sn) (Z.of_nat tn) (beta sn (tn-2)) (beta sn (tn-1)) (beta sn tn)
      = Some (Z.of_nat tn', beta sn (tn'-2), beta sn (tn'-1), beta sn tn') /\
    beta sn (tn'-1) < n <= beta sn tn'.
Proof.
  induction fuel as [|f IH]; intros n sn tn Hs Ht Hlt Hfuel.
  - cbn [find_t]. destruct (Z.geb_spec (beta sn (tn-1)) n); [lia|].
    destruct sn as [|sn']; [lia|]. pose proof (beta_ge sn' tn).
    destruct (Z.gtb_spec n (beta (S sn') tn)); [lia|]. cbn [orb].
    exists tn. split; [lia|]. split; [reflexivity|lia].
  - cbn [find_t]. destruct (Z.geb_spec (beta sn (tn-1)) n); [lia|].
    destruct (Z.gtb_spec n (beta sn tn)) as [Hgt|Hle]; cbn [orb].
    + replace (Z.of_nat tn + 1) with (Z.of_nat (S tn)) by lia.
      replace ((beta sn tn * (Z.of_nat sn + Z.of_nat (S tn))) / Z.of_nat (S tn)) with (beta sn (S tn)).
      2:{ symmetry. rewrite Nat2Z.inj_succ. unfold Z.succ. apply update_exact. }
      destruct (IH n sn (S tn) Hs ltac:(lia)) as (tn' & Hle' & Heq & Hb).
      { replace (S tn - 1)%nat with tn by lia. lia. }
      { lia. }
      exists tn'. split; [lia|]. split; [|exact Hb].
      replace (S tn - 2)%nat with (tn - 1)%nat in Heq by lia.
      replace (S tn - 1)%nat with tn in Heq by lia. exact Heq.
    + exists tn. split; [lia|]. split; [reflexivity|lia].
Qed.

(* ---------- the optimal region (Fig. 4 of Griewank & Walther 2000) ---------- *)
Definition region (sn tn : nat) (n a : Z) : Prop :=
  beta sn (tn-2) <= a <= beta sn (tn-1) /\ beta (sn-1) (tn-1) <= n - a <= beta (sn-1) tn.

Theorem n_advance_spec : forall n snaps tr, 1 <= n -> 1 <= snaps ->
  let s := Z.max (Z.min snaps (n-1)) 1 in
  exists a, n_advance n snaps tr = NOk a /\
    (n = 1 -> a = 0) /\
    (2 <= n -> 1 <= a <= n - 1) /\
    (2 <= n -> s = 1 -> a = n - 1) /\
    (2 <= n -> s = n - 1 -> 2 <= s -> a = 1) /\
    (2 <= s <= n - 2 -> exists sn tn, s = Z.of_nat sn /\ (2 <= tn)%nat /\ beta sn (tn-1) < n <= beta sn tn
                                   /\ region sn tn n a).
Proof.
  intros n snaps tr Hn Hsn s. unfold n_advance.
  destruct (Z.ltb_spec n 1); [lia|]. destruct (Z.leb_spec snaps 0); [lia|].
  fold s. destruct (Z.eqb_spec s 1) as [Hs1|Hs1].
  { exists (n-1). repeat split; intros; try lia. }
  destruct (Z.eqb_spec s (n-1)) as [Hsn1|Hsn1].
  { exists 1. repeat split; intros; try lia. }
  assert (Hs : 2 <= s <= n - 2) by lia.
  set (sn := Z.to_nat s). assert (Hsz : s = Z.of_nat sn) by lia.
  (* initial loop state *)
  assert (Hb1 : beta sn 1 = s + 1) by (rewrite beta_s1; lia).
  assert (Hb2 : ((s+1)*(s+2))/2 = beta sn 2).
  { pose proof (beta_s2 sn). apply div_exact; [lia|]. lia. }
  destruct (find_t_spec (Z.to_nat n) n sn 2 ltac:(lia) ltac:(lia)) as (tn & Htn & Hft & Hbnd).
  { cbn. rewrite Hb1. lia. } { lia. }
  cbn [Nat.sub] in Hft. rewrite beta_0_r, Hb1 in Hft. rewrite <- Hsz, <- Hb2 in Hft. 
  change (Z.of_nat 2) with 2 in Hft. rewrite Hft.
  (* name the binomials *)
  destruct sn as [|[|s2]] eqn:Esn; [lia|lia|]. destruct tn as [|[|t2]] eqn:Etn; [lia|lia|].
  cbn [Nat.sub] in *. rewrite ?Nat.sub_0_r in *.
  set (t := Z.of_nat (S (S t2))) in *.
  (* exact divisions *)
  assert (D1 : (beta (S (S s2)) t2 * s) / (s + t - 2) = beta (S s2) t2).
  { pose proof (down_exact (S s2) t2) as H1. rewrite <- H1. f_equal; lia. }
  assert (D2 : (beta (S (S s2)) (S t2) * s) / (s + t - 1) = beta (S s2) (S t2)).
  { pose proof (down_exact (S s2) (S t2)) as H1. rewrite <- H1. f_equal; lia. }
  assert (D3 : (beta (S s2) (S t2) * (s - 1)) / (s + t - 2) = beta s2 (S t2)).
  { pose proof (down_exact s2 (S t2)) as H1. rewrite <- H1. f_equal; lia. }
  (* Pascal instances and monotonicity *)
  pose proof (beta_SS (S s2) t2) as P1.          (* beta s (t-1) = beta (s-1) (t-1) + beta s (t-2) *)
  pose proof (beta_SS (S s2) (S t2)) as P2.      (* beta s t = beta (s-1) t + beta s (t-1) *)
  pose proof (beta_SS s2 (S t2)) as P3.          (* beta (s-1) t = beta (s-2) t + beta (s-1) (t-1) *)
  pose proof (beta_SS s2 t2) as P4.              (* beta (s-1) (t-1) = beta (s-2) (t-1) + beta (s-1) (t-2) *)
  pose proof (beta_mono_t s2 (S t2)) as M1. pose proof (beta_mono_t (S s2) t2) as M2.
  pose proof (beta_pos s2 (S t2)). pose proof (beta_pos (S s2) t2). pose proof (beta_pos (S (S s2)) t2).
  assert (Hreg : forall a, region (S (S s2)) (S (S t2)) n a -> 1 <= a <= n - 1).
  { unfold region. cbn [Nat.sub]. rewrite ?Nat.sub_0_r. intros a [[? ?] [? ?]].
    pose proof (beta_pos (S s2) (S t2)). lia. }
  assert (Hfin : forall a, region (S (S s2)) (S (S t2)) n a ->
     (n = 1 -> a = 0) /\ (2 <= n -> 1 <= a <= n - 1) /\ (2 <= n -> s = 1 -> a = n - 1) /\
     (2 <= n -> s = n - 1 -> 2 <= s -> a = 1) /\
     (2 <= s <= n - 2 -> exists sn tn, s = Z.of_nat sn /\ (2 <= tn)%nat /\ beta sn (tn-1) < n <= beta sn tn
                                   /\ region sn tn n a)).
  { intros a Ha. pose proof (Hreg a Ha). repeat split; intros; try lia.
    exists (S (S s2)), (S (S t2)). cbn [Nat.sub]. rewrite ?Nat.sub_0_r.
    split; [lia|]. split; [lia|]. split; [lia|]. exact Ha. }
  destruct tr.
  - (* maximum *)
    rewrite D1. destruct (Z.leb_spec n (beta (S (S s2)) (S t2) + beta (S s2) t2)).
    { eexists; split; [reflexivity|]. apply Hfin. unfold region. cbn [Nat.sub]. rewrite ?Nat.sub_0_r. lia. }
    rewrite D2, D3.
    destruct (Z.leb_spec n (beta (S (S s2)) (S t2) + beta s2 (S t2) + beta (S s2) t2)).
    { eexists; split; [reflexivity|]. apply Hfin. unfold region. cbn [Nat.sub]. rewrite ?Nat.sub_0_r. lia. }
    destruct (Z.leb_spec n (beta (S (S s2)) (S t2) + beta (S s2) (S t2) + beta s2 (S t2))).
    { eexists; split; [reflexivity|]. apply Hfin. unfold region. cbn [Nat.sub]. rewrite ?Nat.sub_0_r. lia. }
    { eexists; split; [reflexivity|]. apply Hfin. unfold region. cbn [Nat.sub]. rewrite ?Nat.sub_0_r. lia. }
  - (* revolve *)
    rewrite D2, D3.
    destruct (Z.leb_spec n (beta (S (S s2)) (S t2) + beta s2 (S t2))).
    { eexists; split; [reflexivity|]. apply Hfin. unfold region. cbn [Nat.sub]. rewrite ?Nat.sub_0_r. lia. }
    destruct (Z.ltb_spec n (beta (S (S s2)) (S t2) + beta (S s2) (S t2) + beta s2 (S t2))).
    { eexists; split; [reflexivity|]. apply Hfin. unfold region. cbn [Nat.sub]. rewrite ?Nat.sub_0_r. lia. }
    { eexists; split; [reflexivity|]. apply Hfin. unfold region. cbn [Nat.sub]. rewrite ?Nat.sub_0_r. lia. }
Qed.
Print Assumptions n_advance_spec.
