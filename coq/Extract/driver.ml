(* Line-oriented driver around the extracted model.  Hand-written glue: parsing of case lines, Z <-> decimal,
   printing in the canonical form shared with harness/canon.py.  No model logic lives here. *)
open BinNums
open Datatypes
open Actions

module L = Stdlib.List
module S = Stdlib.String

(* ---- Z <-> decimal strings (arbitrary size) ---- *)
let rec pos_of_int (n : int) : positive =
  if n = 1 then Coq_xH else if n land 1 = 0 then Coq_xO (pos_of_int (n lsr 1)) else Coq_xI (pos_of_int (n lsr 1))
let z_of_small (n : int) : coq_Z = if n = 0 then Z0 else if n > 0 then Zpos (pos_of_int n) else Zneg (pos_of_int (-n))
let z10 = z_of_small 10
let z_of_string (s : string) : coq_Z =
  let neg = S.length s > 0 && S.get s 0 = '-' in
  let acc = ref Z0 in
  S.iteri (fun i c -> if i = 0 && neg then () else begin
    if c < '0' || c > '9' then failwith ("bad integer: " ^ s);
    acc := BinInt.Z.add (BinInt.Z.mul !acc z10) (z_of_small (Char.code c - 48)) end) s;
  if neg then BinInt.Z.opp !acc else !acc
(* decimal digits, least significant first, as an int list *)
let dbl_add (ds : int list) (bit : int) : int list =
  let rec go ds carry = match ds with
    | [] -> if carry = 0 then [] else [carry]
    | d :: r -> let v = 2 * d + carry in (v mod 10) :: go r (v / 10) in
  go ds bit
let rec pos_bits (p : positive) (acc : int list) : int list = (* most significant first *)
  match p with Coq_xH -> 1 :: acc | Coq_xO q -> pos_bits q (0 :: acc) | Coq_xI q -> pos_bits q (1 :: acc)
let string_of_pos (p : positive) : string =
  let bits = pos_bits p [] in
  let ds = L.fold_left dbl_add [] bits in
  S.concat "" (L.rev_map string_of_int ds)
let string_of_z (z : coq_Z) : string = match z with Z0 -> "0" | Zpos p -> string_of_pos p | Zneg p -> "-" ^ string_of_pos p
let rec int_of_nat (n : nat) : int = match n with O -> 0 | S m -> 1 + int_of_nat m
let rec nat_of_int (n : int) : nat = if n <= 0 then O else S (nat_of_int (n - 1))

(* ---- canonical printing ---- *)
let b2s b = if b then "T" else "F"
let st2s = function RAM -> "RAM" | DISK -> "DISK" | WORK -> "WORK" | NONE -> "NONE"
let exn2s = function ValueError -> "ValueError" | RuntimeError -> "RuntimeError" | TypeError -> "TypeError"
  | IndexError -> "IndexError" | KeyError -> "KeyError" | AssertionError -> "AssertionError"
  | InvalidForwardStep -> "InvalidForwardStep" | InvalidReverseStep -> "InvalidReverseStep"
  | InvalidActionIndex -> "InvalidActionIndex" | InvalidRevolverAction -> "InvalidRevolverAction"
  | UnboundLocalError -> "UnboundLocalError" | OutOfFuel -> "OutOfFuel"
let act2s = function
  | Forward (a, b, wi, wa, s) -> Printf.sprintf "F(%s,%s,%s,%s,%s)" (string_of_z a) (string_of_z b) (b2s wi) (b2s wa) (st2s s)
  | Reverse (a, b, c) -> Printf.sprintf "R(%s,%s,%s)" (string_of_z a) (string_of_z b) (b2s c)
  | Copy (n, a, b) -> Printf.sprintf "C(%s,%s,%s)" (string_of_z n) (st2s a) (st2s b)
  | Move (n, a, b) -> Printf.sprintf "M(%s,%s,%s)" (string_of_z n) (st2s a) (st2s b)
  | EndForward -> "EF" | EndReverse -> "ER"
let out2s = function Yield a -> "Y:" ^ act2s a | StopIteration -> "STOP" | Raise e -> "EXC:" ^ exn2s e
let u2s = function Sched.UTrue -> "T" | Sched.UFalse -> "F" | Sched.UNoneVal -> "N" | Sched.URaise e -> "E" ^ exn2s e
let oz2s = function None -> "None" | Some z -> string_of_z z
let obs2s (o : Sched.obs) =
  Printf.sprintf "n=%s r=%s m=%s x=%s run=%s u=%s,%s,%s,%s" (string_of_z o.Sched.o_n) (string_of_z o.Sched.o_r) (oz2s o.Sched.o_max_n)
    (b2s o.Sched.o_exh) (b2s o.Sched.o_run) (u2s o.Sched.o_ur) (u2s o.Sched.o_ud) (u2s o.Sched.o_uw) (u2s o.Sched.o_un)
let xerr2s = function
  | Exec.E_fwd_start -> "E_fwd_start" | Exec.E_missing_cp -> "E_missing_cp" | Exec.E_cp_not_covering -> "E_cp_not_covering"
  | Exec.E_rev_no_deps -> "E_rev_no_deps" | Exec.E_overwrite -> "E_overwrite" | Exec.E_rev_order -> "E_rev_order"
  | Exec.E_end_fwd_early -> "E_end_fwd_early" | Exec.E_end_rev_early -> "E_end_rev_early" | Exec.E_before_endfwd -> "E_before_endfwd"
  | Exec.E_budget s -> "E_budget_" ^ st2s s | Exec.E_mixed_content -> "E_mixed_content" | Exec.E_leftover -> "E_leftover"
  | Exec.E_load_work_nonempty -> "E_load_work_nonempty" | Exec.E_deps_not_last_step -> "E_deps_not_last_step"
  | Exec.E_overshoot -> "E_overshoot" | Exec.E_deps_many -> "E_deps_many" | Exec.E_malformed -> "E_malformed"
let merr2s = function Sched.MX e -> xerr2s e | Sched.M_n -> "M_n" | Sched.M_r -> "M_r" | Sched.M_max_n -> "M_max_n"
let zl2s l = "[" ^ S.concat "," (L.map string_of_z l) ^ "]"
let mon2s (m : Sched.mon) =
  let x = m.Sched.mx in
  Printf.sprintf "MON %s fwd=%s rp=%s dp=%s dw=%s dr=%s ram=%s disk=%s passes=%s acts=%s"
    (match m.Sched.merr_ with None -> "ok" | Some (e, i) -> merr2s e ^ "@" ^ string_of_z i)
    (string_of_z x.Exec.cnt.Exec.fwd_total) (string_of_z x.Exec.cnt.Exec.ram_peak) (string_of_z x.Exec.cnt.Exec.disk_peak)
    (string_of_z x.Exec.cnt.Exec.disk_writes) (string_of_z x.Exec.cnt.Exec.disk_reads)
    (zl2s (Exec.sort_keys (Exec.keys x.Exec.ram))) (zl2s (Exec.sort_keys (Exec.keys x.Exec.disk)))
    (string_of_z x.Exec.passes) (string_of_z m.Sched.mcount)
let op2s = function
  | Ops.OF (a, b) -> Printf.sprintf "F_%s->%s" (string_of_z a) (string_of_z b)
  | Ops.OB (a, b) -> Printf.sprintf "B_%s->%s" (string_of_z a) (string_of_z b)
  | Ops.OR (k, i) -> Printf.sprintf "R^%s_%s" (string_of_z k) (string_of_z i)
  | Ops.OW (k, i) -> Printf.sprintf "W^%s_%s" (string_of_z k) (string_of_z i)
  | Ops.OD (k, i) -> Printf.sprintf "D^%s_%s" (string_of_z k) (string_of_z i)
  | Ops.OWF (k, i) -> Printf.sprintf "WF^%s_%s" (string_of_z k) (string_of_z i)
  | Ops.ODF (k, i) -> Printf.sprintf "DF^%s_%s" (string_of_z k) (string_of_z i)
  | Ops.ORM i -> "RM_" ^ string_of_z i | Ops.OWM i -> "WM_" ^ string_of_z i | Ops.ODM i -> "DM_" ^ string_of_z i
  | Ops.ORD i -> "RD_" ^ string_of_z i | Ops.OWD i -> "WD_" ^ string_of_z i | Ops.ODD i -> "DD_" ^ string_of_z i
  | Ops.OWFM i -> "WFM_" ^ string_of_z i | Ops.ODFM i -> "DFM_" ^ string_of_z i

(* ---- parsing ---- *)
let st_of = function "RAM" -> RAM | "DISK" -> DISK | "WORK" -> WORK | "NONE" -> NONE | s -> failwith ("storage " ^ s)
let traj_of = function "max" -> NAdvance.TMaximum | "rev" -> NAdvance.TRevolve | s -> failwith ("traj " ^ s)
let rk_of = function "revolve" -> RevConv.KRevolve | "disk" -> RevConv.KDiskRevolve | "periodic" -> RevConv.KPeriodic
  | "hrevolve" -> RevConv.KHRevolve | s -> failwith ("rkind " ^ s)
let z = z_of_string
let params_of (t : string list) : Sched.params = match t with
  | ["none"] -> Sched.PNone | ["mem"] -> Sched.PMem
  | ["disk"; mv] -> Sched.PDisk (mv = "1")
  | ["two"; p; bs; sg; tr] -> Sched.PTwo (z p, z bs, st_of sg, traj_of tr)
  | ["multi"; n; r; d; tr] -> Sched.PMulti (z n, z r, z d, traj_of tr)
  | ["mixed"; n; s; sg; path] -> Sched.PMixed (z n, z s, st_of sg, path = "tab")
  | ["rev"; k; n; r; d; uf; ub; wd; rd] | ["rev"; k; n; r; d; uf; ub; wd; rd; _] ->   (* 10th token: cost divisor, implementation side only *)
      Sched.PRev (rk_of k, z n, z r, z d, z uf, z ub, z wd, z rd)
  | _ -> failwith ("params: " ^ S.concat " " t)
let optz = function "-" -> None | s -> Some (z s)
let op_of (s : string) : Sched.op =
  if s = "n" then Sched.Next
  else if S.get s 0 = 'f' || S.get s 0 = 'g' then Sched.Fin (z (S.sub s 1 (S.length s - 1)))   (* 'g': the implementation is handed a numpy integer *)
  else if S.get s 0 = 'r' || S.get s 0 = 'l' || S.get s 0 = 'L' then begin   (* 'l': the implementation is driven by for-loops with break; the model's Run is the same thing *)
    match S.split_on_char ':' (S.sub s 1 (S.length s - 1)) with
    | [k; lim] -> Sched.Run (z k, nat_of_int (int_of_string lim))
    | _ -> failwith ("op " ^ s) end
  else failwith ("op " ^ s)
let split_bar (t : string list) : string list list =
  let rec go cur acc = function
    | [] -> L.rev (L.rev cur :: acc)
    | "|" :: r -> go [] (L.rev cur :: acc) r
    | x :: r -> go (x :: cur) acc r in
  go [] [] t
let res2s f = function Ok v -> f v | Err e -> "EXC:" ^ exn2s e
let kind2s = function Mixed.KNone -> "0" | Mixed.KForward -> "1" | Mixed.KFR -> "2" | Mixed.KAdj -> "3" | Mixed.KIcs -> "4"
let plan2s ((k, a), c) = Printf.sprintf "(%s,%s,%s)" (kind2s k) (string_of_z a) (string_of_z c)
let cost2s = function HRevSeq.Fin v -> string_of_z v | HRevSeq.Inf -> "inf"

let run_sched (id : string) (t : string list) =
  print_string ("#" ^ id ^ "\n");
  match split_bar t with
  | [ps; [n; keep; br; bd]; ops] ->
    let xp = { Exec.xN = z n; Exec.keep_all_deps = (keep = "1"); Exec.budget_ram = optz br; Exec.budget_disk = optz bd } in
    let ops = L.concat_map (fun o -> if o = "c" then [] (* the implementation continues with copy.copy of the schedule: the same object to the model *) else if S.length o > 1 && S.get o 0 = 'b' then L.init (int_of_string (S.sub o 1 (S.length o - 1))) (fun _ -> "n") else [o]) ops in
    begin match Sched.run_case (params_of ps) xp (L.map op_of ops) with
    | Err e -> print_string ("CTOR EXC:" ^ exn2s e ^ "\n")
    | Ok ((o0, m), lines) ->
      print_string ("O " ^ obs2s o0 ^ "\n");
      L.iter (function
        | Sched.LNext (o, ob) -> print_string ("N " ^ out2s o ^ " | " ^ obs2s ob ^ "\n")
        | Sched.LFin (e, ob) -> print_string ("F " ^ (match e with None -> "ok" | Some e -> "EXC:" ^ exn2s e) ^ " | " ^ obs2s ob ^ "\n")) lines;
      print_string (mon2s m ^ "\n") end
  | _ -> failwith "sched case"

(* ---- Coq strings <-> OCaml strings (ActVal) ---- *)
let ascii_of_char (c : char) : Ascii.ascii =
  let n = Char.code c in let b i = (n lsr i) land 1 = 1 in Ascii.Ascii (b 0, b 1, b 2, b 3, b 4, b 5, b 6, b 7)
let char_of_ascii (Ascii.Ascii (b0, b1, b2, b3, b4, b5, b6, b7)) : char =
  let v b i = if b then 1 lsl i else 0 in Char.chr (v b0 0 + v b1 1 + v b2 2 + v b3 3 + v b4 4 + v b5 5 + v b6 6 + v b7 7)
let rec ostr (s : String.string) : string = match s with String.EmptyString -> "" | String.String (c, r) -> S.make 1 (char_of_ascii c) ^ ostr r
let cstr (s : string) : String.string = S.fold_right (fun c acc -> String.String (ascii_of_char c, acc)) s String.EmptyString
let bool_of = function "T" -> true | "F" -> false | s -> failwith ("bool " ^ s)
let act_of (t : string list) : action = match t with
  | ["F"; a; b; wi; wa; st] -> Forward (z_of_string a, z_of_string b, bool_of wi, bool_of wa, (function "RAM" -> RAM | "DISK" -> DISK | "WORK" -> WORK | _ -> NONE) st)
  | ["R"; a; b; c] -> Reverse (z_of_string a, z_of_string b, bool_of c)
  | ["C"; n; a; b] -> let f = (function "RAM" -> RAM | "DISK" -> DISK | "WORK" -> WORK | _ -> NONE) in Copy (z_of_string n, f a, f b)
  | ["M"; n; a; b] -> let f = (function "RAM" -> RAM | "DISK" -> DISK | "WORK" -> WORK | _ -> NONE) in Move (z_of_string n, f a, f b)
  | ["EF"] -> EndForward | ["ER"] -> EndReverse
  | _ -> failwith ("action " ^ S.concat " " t)
let rec split_slash (t : string list) (cur : string list) : string list list = match t with
  | [] -> [L.rev cur] | "/" :: r -> L.rev cur :: split_slash r [] | x :: r -> split_slash r (x :: cur)
(* V <id> act <a> / <b> / <k> / <text> : repr(a), a == b, len(a), list(a) (short spans only), k in a, eval(repr(a)) == a, and what the
   model reads out of <text> (an action text as Python printed it, with '_' for ' ') *)
let act_case (t : string list) : string =
  match split_slash t [] with
  | [ta; tb; [k]; [txt]] ->
    let a = act_of ta and b = act_of tb in
    let r2s f = function Actions.Ok v -> f v | Actions.Err e -> "EXC:" ^ exn2s e in
    let span = match a with Forward (n0, n1, _, _, _) | Reverse (n1, n0, _) -> Some (BinInt.Z.sub n1 n0) | _ -> None in
    let small = match span with Some d -> BinInt.Z.ltb d (z_of_small 65) | None -> true in
    let txt' = S.map (fun c -> if c = '_' then ' ' else c) txt in
    S.concat ";" [
      "repr=" ^ ostr (ActVal.act_repr a);
      "eq=" ^ b2s (act_eqb a b);
      "len=" ^ r2s string_of_z (ActVal.act_len a);
      "iter=" ^ (if small then r2s (fun l -> S.concat "," (L.map string_of_z l)) (ActVal.act_iter a) else "skip");
      "mem=" ^ r2s b2s (ActVal.act_mem a (z_of_string k));
      "rt=" ^ (match ActVal.act_parse (ActVal.act_repr a) with Some a' -> b2s (act_eqb a a') | None -> "none");
      "read=" ^ (match ActVal.act_parse (cstr txt') with Some c -> act2s c | None -> "none") ]
  | _ -> failwith ("act case: " ^ S.concat " " t)

let run_val (id : string) (t : string list) =
  print_string ("#" ^ id ^ "\n");
  let out = match t with
  | ["nadv"; n; s; tr] -> (match NAdvance.n_advance (z n) (z s) (traj_of tr) with
      | NAdvance.NOk a -> string_of_z a | NAdvance.NValueError -> "EXC:ValueError" | NAdvance.NOutOfFuel -> "EXC:OutOfFuel")
  | ["oes"; n; s] -> res2s string_of_z (Binomial.optimal_extra_steps (z n) (z s))
  | ["osb"; n; s] -> res2s string_of_z (Binomial.optimal_steps_binomial (z n) (z s))
  | ["osm"; n; s] -> res2s string_of_z (Binomial.optimal_steps_mixed (z n) (z s))
  | ["memo"; n; s] -> res2s plan2s (Mixed.memo_warm (z n) (z s) (z n) (z s))
  | ["memosweep"; lo; hi; s] ->   (* mixed_step_memoization(n, s) for every n in lo..hi, summarised; Mixed.memo with the fuel the closed-form column needs *)
      let kz = function Mixed.KNone -> 0 | Mixed.KForward -> 1 | Mixed.KFR -> 2 | Mixed.KAdj -> 3 | Mixed.KIcs -> 4 in
      let fuel = nat_of_int 6 in
      let rec go n cnt tot kinds =
        if n > int_of_string hi then Printf.sprintf "ok=%d sum=%s kinds=%d err=none" cnt (string_of_z tot) kinds
        else match Mixed.memo fuel (z_of_small n) (z s) with
          | Err e -> Printf.sprintf "ok=%d sum=%s kinds=%d err=%d:%s" cnt (string_of_z tot) kinds n (exn2s e)
          | Ok ((k, a), c) -> go (n + 1) (cnt + 1) (BinInt.Z.add tot (BinInt.Z.add a c)) (kinds + kz k) in
      go (int_of_string lo) 0 Z0 0
  | ["tabmemo"; n; s] ->   (* entry (n, s) of the tabulated planner next to the memoised one: equal by theorem C16 (MixPaths / MixDP), so the
                             model prints the memoised entry for both *)
      res2s (fun p -> plan2s p ^ " " ^ plan2s p) (Mixed.memo_warm (z n) (z s) (z n) (z s))
  | ["tab"; n; s] -> res2s (fun tb -> S.concat ";" (L.map (fun row -> S.concat "," (L.map plan2s row)) tb)) (Mixed.tabulate (z n) (z s))
  | ["alloc"; n; r; d; tr] -> res2s (fun (w, a) -> zl2s w ^ " " ^ S.concat "," (L.map st2s a)) (Multistage.allocate (z n) (z r) (z d) (traj_of tr))
  | ["opt0"; l; m; uf; ub] -> res2s (fun tb -> S.concat ";" (L.map zl2s tb)) (RevSeq.get_opt_0_table (z l) (z m) (z uf) (z ub))
  | ["optinf"; l; cm; uf; ub; rd; wd] ->
      res2s zl2s (match RevSeq.get_opt_0_table (z l) (z cm) (z uf) (z ub) with Err e -> Err e
                  | Ok t0 -> RevSeq.get_opt_inf_table (z l) (z cm) (z uf) (z ub) (z rd) (z wd) t0)
  | ["hopt"; l; c0; c1; w0; w1; r0; r1; ub; uf] ->
      let tab2s tb = S.concat ";" (L.map (fun row -> S.concat "," (L.map cost2s row)) tb) in
      res2s (fun tt -> S.concat " / " [tab2s tt.HRevSeq.optp0; tab2s tt.HRevSeq.opt0; tab2s tt.HRevSeq.optp1; tab2s tt.HRevSeq.opt1])
        (HRevSeq.get_hopt_table (z l) (z c0) (z c1) (z w0) (z w1) (z r0) (z r1) (z ub) (z uf))
  | ["seq"; k; n; r; d; uf; ub; wd; rd] -> res2s (fun o -> S.concat " " (L.map op2s o)) (RevConv.sequence (rk_of k) (z n) (z r) (z d) (z uf) (z ub) (z wd) (z rd))
  | ["mxrr"; cm; uf; rd; wd] -> string_of_z (RevSeq.mxrr (z cm) (z uf) (z rd) (z wd))
  | "argmin" :: l -> string_of_z (RevSeq.argmin (L.map z l))
  | "act" :: rest -> act_case rest
  | ["collect"; _; _] -> "ok"   (* the same laws on actions that are kept and compared afterwards: decided on the implementation *)
  | ["pairs"; _; _] -> "ok"   (* equality laws of directly constructed actions: decided on the implementation; the model's act_eqb is characterised in Props/C18 *)
  | ["beta"; x; y] -> string_of_z (BinomDef.beta (nat_of_int (int_of_string x)) (nat_of_int (int_of_string y)))
  | _ -> failwith ("val case: " ^ S.concat " " t) in
  print_string (out ^ "\n")

let () =
  try while true do
    let line = input_line stdin in
    let toks = L.filter (fun s -> s <> "") (S.split_on_char ' ' (S.trim line)) in
    match toks with
    | [] -> ()
    | "S" :: id :: rest -> run_sched id rest
    | "V" :: id :: rest -> run_val id rest
    | _ -> failwith ("bad line: " ^ line)
  done with End_of_file -> ()
