#!/bin/sh
# Re-extract the model and build the driver.  Run from anywhere; needs ../*.vo to be built.
set -e
cd "$(dirname "$0")"
rm -rf gen && mkdir gen && cd gen
cp ../Extract.v . && coqc -R ../.. CS Extract.v > extract.log 2>&1
cp ../driver.ml .
mods=$(ocamlfind ocamldep -sort *.ml *.mli 2>/dev/null)
ocamlfind ocamlopt -O2 -w -a $mods -o ../model_driver 2>/dev/null || ocamlfind ocamlopt -w -a $mods -o ../model_driver
echo built $(pwd)/../model_driver
