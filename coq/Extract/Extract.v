(* Extraction of the executable model.  Only ExtrOcamlBasic is used: Z, positive and nat stay the extracted inductive types. *)
Require Extraction.
Require Import ExtrOcamlBasic.
From CS Require Import Actions BinomDef NAdvance Multistage Mixed Online Ops RevSeq HRevSeq RevConv Exec Sched Binomial ActVal.
Extraction Language OCaml.
Separate Extraction
  Actions Sched.run_case Sched.construct
  NAdvance.n_advance Multistage.allocate Multistage.construct
  Binomial.optimal_extra_steps Binomial.optimal_steps_binomial Binomial.optimal_steps_mixed
  Mixed.memo Mixed.memo_warm Mixed.tabulate Mixed.tget
  RevSeq.get_opt_0_table RevSeq.get_opt_inf_table RevSeq.argmin RevSeq.mxrr RevSeq.revolve_top RevSeq.disk_revolve_top RevSeq.periodic_top
  HRevSeq.get_hopt_table HRevSeq.hrevolve HRevSeq.argmin RevConv.sequence BinomDef.beta
  ActVal.act_repr ActVal.act_parse ActVal.act_len ActVal.act_iter ActVal.act_mem.
