(* CheckpointAction as a value (schedule.py:87-370): __repr__ (with the sys.maxsize special case), the reading back of that
   text (the model of eval(repr(a)) in the namespace of the package), __eq__ (Actions.act_eqb), and __len__ / __iter__ /
   __contains__ of Forward and Reverse.  Integers are Z, flags bool, storages the four StorageType members. *)
From Coq Require Import ZArith String Ascii List Bool DecimalString Decimal DecimalZ.
Require Import Actions.
Import ListNotations.
Open Scope Z_scope.

(* ---- repr ---- *)
Definition z_dec (z : Z) : string := NilZero.string_of_int (Z.to_int z).
Definition z_repr (z : Z) : string := if z =? maxsize then "sys.maxsize"%string else z_dec z.
Definition b_repr (b : bool) : string := if b then "True"%string else "False"%string.
Definition st_repr (s : storage) : string :=
  match s with RAM => "StorageType.RAM" | DISK => "StorageType.DISK" | WORK => "StorageType.WORK" | NONE => "StorageType.NONE" end%string.
Definition args_of (a : action) : string * list string :=
  match a with
  | Forward n0 n1 wi wa st => ("Forward", [z_repr n0; z_repr n1; b_repr wi; b_repr wa; st_repr st])
  | Reverse n1 n0 c => ("Reverse", [z_repr n1; z_repr n0; b_repr c])
  | Copy n s d => ("Copy", [z_repr n; st_repr s; st_repr d])
  | Move n s d => ("Move", [z_repr n; st_repr s; st_repr d])
  | EndForward => ("EndForward", [])
  | EndReverse => ("EndReverse", [])
  end%string.
Fixpoint join (l : list string) : string :=            (* ', '.join(l) *)
  match l with [] => EmptyString | [x] => x | x :: r => (x ++ String "," (String " " (join r)))%string end.
Definition act_repr (a : action) : string := let (nm, args) := args_of a in (nm ++ String "(" (join args ++ String ")" EmptyString))%string.

(* ---- reading the text back ---- *)
Fixpoint split_on (c : ascii) (s : string) : list string :=          (* s.split(c): never empty *)
  match s with
  | EmptyString => [EmptyString]
  | String x r => if Ascii.eqb x c then EmptyString :: split_on c r
                  else match split_on c r with h :: t => String x h :: t | [] => [String x EmptyString] end
  end.
Definition strip_sp (s : string) : option string := match s with String x r => if Ascii.eqb x " " then Some r else None | EmptyString => None end.
Fixpoint all_some {A} (l : list (option A)) : option (list A) :=
  match l with [] => Some [] | None :: _ => None | Some x :: r => match all_some r with Some t => Some (x :: t) | None => None end end.
Definition args_split (s : string) : option (list string) :=
  match s with EmptyString => Some [] | _ =>
    match split_on "," s with h :: t => match all_some (map strip_sp t) with Some t' => Some (h :: t') | None => None end | [] => None end end.
Definition z_parse (s : string) : option Z :=
  if String.eqb s "sys.maxsize" then Some maxsize else option_map Z.of_int (NilZero.int_of_string s).
Definition b_parse (s : string) : option bool := if String.eqb s "True" then Some true else if String.eqb s "False" then Some false else None.
Definition st_parse (s : string) : option storage :=
  if String.eqb s "StorageType.RAM" then Some RAM else if String.eqb s "StorageType.DISK" then Some DISK else
  if String.eqb s "StorageType.WORK" then Some WORK else if String.eqb s "StorageType.NONE" then Some NONE else None.
Definition build (nm : string) (args : list string) : option action :=
  if String.eqb nm "Forward" then
    match args with [a; b; c; d; e] =>
      match z_parse a, z_parse b, b_parse c, b_parse d, st_parse e with Some a, Some b, Some c, Some d, Some e => Some (Forward a b c d e) | _, _, _, _, _ => None end
    | _ => None end
  else if String.eqb nm "Reverse" then
    match args with [a; b; c] => match z_parse a, z_parse b, b_parse c with Some a, Some b, Some c => Some (Reverse a b c) | _, _, _ => None end | _ => None end
  else if String.eqb nm "Copy" then
    match args with [a; b; c] => match z_parse a, st_parse b, st_parse c with Some a, Some b, Some c => Some (Copy a b c) | _, _, _ => None end | _ => None end
  else if String.eqb nm "Move" then
    match args with [a; b; c] => match z_parse a, st_parse b, st_parse c with Some a, Some b, Some c => Some (Move a b c) | _, _, _ => None end | _ => None end
  else if String.eqb nm "EndForward" then match args with [] => Some EndForward | _ => None end
  else if String.eqb nm "EndReverse" then match args with [] => Some EndReverse | _ => None end
  else None.
Definition act_parse (s : string) : option action :=
  match split_on "(" s with
  | [nm; rest] => match split_on ")" rest with
                  | [inner; EmptyString] => match args_split inner with Some args => build nm args | None => None end
                  | _ => None end
  | _ => None end.

(* ---- len / iteration / membership (Forward, Reverse; the other classes define none of them: TypeError) ---- *)
Definition py_range (lo hi : Z) : list Z := map (fun i => lo + Z.of_nat i) (seq 0 (Z.to_nat (hi - lo))).          (* range(lo, hi) *)
Definition py_range_down (hi lo : Z) : list Z := map (fun i => hi - Z.of_nat i) (seq 0 (Z.to_nat (hi - lo))).     (* range(hi, lo, -1) *)
Definition zrange := py_range.
Definition len_result (v : Z) : res Z := if v <? 0 then Err ValueError (* len(): __len__() should return >= 0 *) else Ok v.
Definition act_len (a : action) : res Z :=
  match a with
  | Forward n0 n1 _ _ _ => len_result (n1 - n0)
  | Reverse n1 n0 _ => len_result (n1 - n0)
  | _ => Err TypeError end.
Definition act_iter (a : action) : res (list Z) :=
  match a with
  | Forward n0 n1 _ _ _ => Ok (py_range n0 n1)                       (* range(n0, n1) *)
  | Reverse n1 n0 _ => Ok (py_range_down (n1 - 1) (n0 - 1))          (* range(n1 - 1, n0 - 1, -1) *)
  | _ => Err TypeError end.
Definition act_mem (a : action) (k : Z) : res bool :=
  match a with
  | Forward n0 n1 _ _ _ => Ok ((n0 <=? k) && (k <? n1))
  | Reverse n1 n0 _ => Ok ((n0 <=? k) && (k <? n1))
  | _ => Err TypeError end.

(* __eq__: type(self) is type(other) and self.args == other.args *)
Definition same_kind (a b : action) : bool :=
  match a, b with Forward _ _ _ _ _, Forward _ _ _ _ _ | Reverse _ _ _, Reverse _ _ _ | Copy _ _ _, Copy _ _ _ | Move _ _ _, Move _ _ _
                | EndForward, EndForward | EndReverse, EndReverse => true | _, _ => false end.
Inductive arg := AZ (z : Z) | AB (b : bool) | AS (s : storage).
Definition arg_eqb (x y : arg) : bool := match x, y with AZ a, AZ b => a =? b | AB a, AB b => Bool.eqb a b | AS a, AS b => st_eqb a b | _, _ => false end.
Definition args (a : action) : list arg :=
  match a with Forward a0 a1 a2 a3 a4 => [AZ a0; AZ a1; AB a2; AB a3; AS a4] | Reverse a0 a1 a2 => [AZ a0; AZ a1; AB a2]
             | Copy a0 a1 a2 | Move a0 a1 a2 => [AZ a0; AS a1; AS a2] | EndForward | EndReverse => [] end.
Fixpoint tuple_eqb (l1 l2 : list arg) : bool :=
  match l1, l2 with [], [] => true | x :: r1, y :: r2 => arg_eqb x y && tuple_eqb r1 r2 | _, _ => false end.
Definition py_eq (a b : action) : bool := same_kind a b && tuple_eqb (args a) (args b).

(* __repr__, in the shape of the source: f"{type(self).__name__}({', '.join(strargs)})" with
   strargs = tuple("sys.maxsize" if arg == sys.maxsize else repr(arg) for arg in self.args) *)
Definition type_name (a : action) : string :=
  match a with Forward _ _ _ _ _ => "Forward" | Reverse _ _ _ => "Reverse" | Copy _ _ _ => "Copy" | Move _ _ _ => "Move"
             | EndForward => "EndForward" | EndReverse => "EndReverse" end%string.
Definition st_name (s : storage) : string := match s with RAM => "RAM" | DISK => "DISK" | WORK => "WORK" | NONE => "NONE" end%string.
Definition py_repr (x : arg) : string := match x with AZ z => z_dec z | AB b => b_repr b | AS s => st_repr s end.     (* repr(arg) *)
Definition arg_eq_maxsize (x : arg) : bool := match x with AZ z => z =? maxsize | _ => false end.                       (* arg == sys.maxsize *)
Fixpoint py_join (sep : string) (l : list string) : string :=
  match l with [] => EmptyString | [x] => x | x :: r => (x ++ sep ++ py_join sep r)%string end.
