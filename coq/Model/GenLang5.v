(* The generator language for MixedCheckpointSchedule._iterator (mixed.py): the stack `snapshots` of triples (step type, n0, n1),
   the set `snapshot_n`, the planner read through a function of the configuration (mixed_step_memoization or the table of
   mixed_steps_tabulation: whichever `schedule` selects), step-type / integer / boolean locals, `break`.  `run` resumes a
   suspended generator up to its next yield, exception or end. *)
From Coq Require Import ZArith List Bool.
Require Import Actions Mixed.
Require Online.
Import ListNotations.
Open Scope Z_scope.

Inductive zloc := Ln0 | Ln1 | Lcp_n.
Inductive kloc := Lstep_type | Lcp_step_type | Lnext_step_type.
Inductive bloc := Lreuse | Lcp_delete.
Definition zloc_eqb (a b : zloc) := match a, b with Ln0, Ln0 | Ln1, Ln1 | Lcp_n, Lcp_n => true | _, _ => false end.
Definition kloc_eqb (a b : kloc) := match a, b with Lstep_type, Lstep_type | Lcp_step_type, Lcp_step_type | Lnext_step_type, Lnext_step_type => true | _, _ => false end.
Definition bloc_eqb (a b : bloc) := match a, b with Lreuse, Lreuse | Lcp_delete, Lcp_delete => true | _, _ => false end.

Inductive zexp :=
 | ZC (z : Z) | ZN | ZR | ZMax | ZSnaps                       (* literal, self._n, self._r, self._max_n, self._snapshots *)
 | ZL (x : zloc) | ZLenStack | ZLenSet | ZInt (x : bloc)     (* a local, len(snapshots), len(snapshot_n), int(b) *)
 | ZAdd (a b : zexp) | ZSub (a b : zexp).
Inductive bexp :=
 | BTrue | BMaxIsNone | BV (x : bloc) | BNot (b : bexp)
 | BEq (a b : zexp) | BNe (a b : zexp) | BLt (a b : zexp) | BGt (a b : zexp) | BLe (a b : zexp) | BGe (a b : zexp)
 | BKindIs (x : kloc) (k : kind) | BKindIn (x : kloc) (ks : list kind) | BKindNe (x y : kloc)
 | BInSet (e : zexp)                                          (* e in snapshot_n *)
 | BTopNe (x : kloc) (e : zexp)                               (* snapshots[-1][:2] != (x, e) *)
 | BTopEndLt (e : zexp)                                       (* snapshots[-1][2] < e *)
 | BOr (a b : bexp) | BAnd (a b : bexp).
Inductive sval := SC (s : storage) | SStg.                    (* StorageType.X, self._storage *)
Inductive aexp :=
 | AForward (n0 n1 : zexp) (wi wa : bool) (st : sval) | AReverse (n1 n0 : zexp) (c : bool)
 | ACopy (n : zexp) (src dst : sval) | AMove (n : zexp) (src dst : sval) | AEndForward | AEndReverse.
Inductive stmt :=
 | SSkip | SSeq (a b : stmt) | SIf (c : bexp) (a b : stmt) | SWhile (c : bexp) (body : stmt) | SBreak
 | SSetN (e : zexp) | SSetR (e : zexp) | SSetZ (x : zloc) (e : zexp) | SSetB (x : bloc) (e : bexp) | SSetK (x : kloc) (k : kind) | SSetX (v : bool)
 | SNewSet | SNewStack
 | SSetAdd (e : zexp) | SSetRemove (e : zexp) | SPush (k : kind) (a b : zexp) | SPop
 | STop (k : kloc) (n : zloc)                                 (* k, n, _ = snapshots[-1] *)
 | SPlan (k : kloc) (n : option zloc) (a b : zexp)            (* k, n | _, _ = <planner>(a, b) *)
 | SYield (a : aexp) | SRaise (e : exn).

Record gst := { gb : Online.base; gx : bool; gset : list Z; gstack : list (kind * Z * Z); gz : zloc -> option Z; gk : kloc -> option kind; gbl : bloc -> option bool }.

Definition zget (g : gst) (x : zloc) : res Z := match gz g x with Some v => Ok v | None => Err UnboundLocalError end.
Definition kget (g : gst) (x : kloc) : res kind := match gk g x with Some v => Ok v | None => Err UnboundLocalError end.
Definition bget (g : gst) (x : bloc) : res bool := match gbl g x with Some v => Ok v | None => Err UnboundLocalError end.
Fixpoint zeval (c : cfg) (e : zexp) (g : gst) : res Z :=
  match e with
  | ZC z => Ok z | ZN => Ok (Online.n_ (gb g)) | ZR => Ok (Online.r_ (gb g))
  | ZMax => match Online.max_n_ (gb g) with Some m => Ok m | None => Err TypeError end
  | ZSnaps => Ok (snapshots c)
  | ZL x => zget g x | ZLenStack => Ok (len (gstack g)) | ZLenSet => Ok (len (gset g))
  | ZInt x => do b <- bget g x; Ok (if b then 1 else 0)
  | ZAdd a b => do x <- zeval c a g; do y <- zeval c b g; Ok (x + y)
  | ZSub a b => do x <- zeval c a g; do y <- zeval c b g; Ok (x - y)
  end.
Definition cmp2 (c : cfg) (f : Z -> Z -> bool) (a b : zexp) (g : gst) : res bool := do x <- zeval c a g; do y <- zeval c b g; Ok (f x y).
Fixpoint beval (c : cfg) (t : bexp) (g : gst) : res bool :=
  match t with
  | BTrue => Ok true
  | BMaxIsNone => Ok (match Online.max_n_ (gb g) with None => true | Some _ => false end)
  | BV x => bget g x
  | BNot b => do v <- beval c b g; Ok (negb v)
  | BEq a b => cmp2 c Z.eqb a b g | BNe a b => cmp2 c (fun x y => negb (x =? y)) a b g
  | BLt a b => cmp2 c Z.ltb a b g | BGt a b => cmp2 c Z.gtb a b g | BLe a b => cmp2 c Z.leb a b g | BGe a b => cmp2 c Z.geb a b g
  | BKindIs x k => do v <- kget g x; Ok (kind_eqb v k)
  | BKindIn x ks => do v <- kget g x; Ok (existsb (kind_eqb v) ks)
  | BKindNe x y => do v <- kget g x; do w <- kget g y; Ok (negb (kind_eqb v w))
  | BInSet e => do v <- zeval c e g; Ok (existsb (Z.eqb v) (gset g))
  | BTopNe x e => match gstack g with [] => Err IndexError | (k', p, _) :: _ => do k <- kget g x; do v <- zeval c e g; Ok (negb (kind_eqb k' k && (p =? v))) end
  | BTopEndLt e => match gstack g with [] => Err IndexError | (_, _, en) :: _ => do v <- zeval c e g; Ok (en <? v) end
  | BOr a b => do x <- beval c a g; if x then Ok true else beval c b g
  | BAnd a b => do x <- beval c a g; if x then beval c b g else Ok false
  end.
Definition sveval (c : cfg) (v : sval) : storage := match v with SC s => s | SStg => stg c end.
Definition aeval (c : cfg) (a : aexp) (g : gst) : res action :=
  match a with
  | AForward a0 a1 wi wa st => do x <- zeval c a0 g; do y <- zeval c a1 g; Ok (Forward x y wi wa (sveval c st))
  | AReverse a1 a0 cl => do x <- zeval c a1 g; do y <- zeval c a0 g; Ok (Reverse x y cl)
  | ACopy n s d => do x <- zeval c n g; Ok (Copy x (sveval c s) (sveval c d))
  | AMove n s d => do x <- zeval c n g; Ok (Move x (sveval c s) (sveval c d))
  | AEndForward => Ok EndForward | AEndReverse => Ok EndReverse
  end.

Definition upd_b (g : gst) (b : Online.base) : gst := {| gb := b; gx := gx g; gset := gset g; gstack := gstack g; gz := gz g; gk := gk g; gbl := gbl g |}.
Definition set_n (g : gst) (v : Z) : gst := upd_b g (Online.Build_base v (Online.r_ (gb g)) (Online.max_n_ (gb g))).
Definition set_r (g : gst) (v : Z) : gst := upd_b g (Online.Build_base (Online.n_ (gb g)) v (Online.max_n_ (gb g))).
Definition set_x (g : gst) (v : bool) : gst := {| gb := gb g; gx := v; gset := gset g; gstack := gstack g; gz := gz g; gk := gk g; gbl := gbl g |}.
Definition set_set (g : gst) (l : list Z) : gst := {| gb := gb g; gx := gx g; gset := l; gstack := gstack g; gz := gz g; gk := gk g; gbl := gbl g |}.
Definition set_stack (g : gst) (l : list (kind * Z * Z)) : gst := {| gb := gb g; gx := gx g; gset := gset g; gstack := l; gz := gz g; gk := gk g; gbl := gbl g |}.
Definition set_z (g : gst) (x : zloc) (v : Z) : gst := {| gb := gb g; gx := gx g; gset := gset g; gstack := gstack g; gz := fun y => if zloc_eqb y x then Some v else gz g y; gk := gk g; gbl := gbl g |}.
Definition set_k (g : gst) (x : kloc) (v : kind) : gst := {| gb := gb g; gx := gx g; gset := gset g; gstack := gstack g; gz := gz g; gk := fun y => if kloc_eqb y x then Some v else gk g y; gbl := gbl g |}.
Definition set_bl (g : gst) (x : bloc) (v : bool) : gst := {| gb := gb g; gx := gx g; gset := gset g; gstack := gstack g; gz := gz g; gk := gk g; gbl := fun y => if bloc_eqb y x then Some v else gbl g y |}.
Definition set_add (w : Z) (l : list Z) := if existsb (Z.eqb w) l then l else w :: l.

Inductive frame := FS (s : stmt) | FLoop (c : bexp) (body : stmt).
Fixpoint break_out (K : list frame) : list frame := match K with [] => [] | FLoop _ _ :: K' => K' | FS _ :: K' => break_out K' end.

Fixpoint run (fuel : nat) (c : cfg) (K : list frame) (g : gst) : (list frame * gst) * outcome :=
  match fuel with O => (([], g), Raise OutOfFuel) | S f =>
  match K with
  | [] => (([], g), StopIteration)
  | FLoop t body :: K' =>
      match beval c t g with Err e => (([], g), Raise e) | Ok true => run f c (FS body :: FLoop t body :: K') g | Ok false => run f c K' g end
  | FS s :: K' =>
      match s with
      | SSkip => run f c K' g
      | SSeq a b => run f c (FS a :: FS b :: K') g
      | SIf t a b => match beval c t g with Err e => (([], g), Raise e) | Ok true => run f c (FS a :: K') g | Ok false => run f c (FS b :: K') g end
      | SWhile t body => run f c (FLoop t body :: K') g
      | SBreak => run f c (break_out K') g
      | SSetN e => match zeval c e g with Err e => (([], g), Raise e) | Ok v => run f c K' (set_n g v) end
      | SSetR e => match zeval c e g with Err e => (([], g), Raise e) | Ok v => run f c K' (set_r g v) end
      | SSetZ x e => match zeval c e g with Err e => (([], g), Raise e) | Ok v => run f c K' (set_z g x v) end
      | SSetB x e => match beval c e g with Err e => (([], g), Raise e) | Ok v => run f c K' (set_bl g x v) end
      | SSetK x k => run f c K' (set_k g x k)
      | SSetX v => run f c K' (set_x g v)
      | SNewSet => run f c K' (set_set g [])
      | SNewStack => run f c K' (set_stack g [])
      | SSetAdd e => match zeval c e g with Err e => (([], g), Raise e) | Ok v => run f c K' (set_set g (set_add v (gset g))) end
      | SSetRemove e => match zeval c e g with Err e => (([], g), Raise e) | Ok v =>
            if existsb (Z.eqb v) (gset g) then run f c K' (set_set g (filter (fun x => negb (x =? v)) (gset g))) else (([], g), Raise KeyError) end
      | SPush k a b => match zeval c a g with Err e => (([], g), Raise e) | Ok x => match zeval c b g with Err e => (([], g), Raise e) | Ok y =>
            run f c K' (set_stack g ((k, x, y) :: gstack g)) end end
      | SPop => match gstack g with _ :: r => run f c K' (set_stack g r) | [] => (([], g), Raise IndexError) end
      | STop k n => match gstack g with (k', p, _) :: _ => run f c K' (set_z (set_k g k k') n p) | [] => (([], g), Raise IndexError) end
      | SPlan k n a b => match zeval c a g with Err e => (([], g), Raise e) | Ok x => match zeval c b g with Err e => (([], g), Raise e) | Ok y =>
            match plan c x y with Err e => (([], g), Raise e) | Ok (k', adv, _) =>
              let g1 := set_k g k k' in run f c K' (match n with Some z => set_z g1 z adv | None => g1 end) end end end
      | SYield a => match aeval c a g with Err e => (([], g), Raise e) | Ok act => ((K', g), Yield act) end
      | SRaise e => (([], g), Raise e)
      end
  end end.
