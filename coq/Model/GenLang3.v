(* The generator language for MultistageCheckpointSchedule._iterator (multistage.py): integer locals, the stack `snapshots`, one
   storage-valued local (cp_storage, read from the tuple self._storage), the attribute sum _snapshots_in_ram + _snapshots_on_disk,
   calls of n_advance, `assert`, the flag _exhausted.  `run` resumes a suspended generator up to its next yield, exception or end. *)
From Coq Require Import ZArith List Bool.
Require Import Actions NAdvance Multistage Online.
Import ListNotations.
Open Scope Z_scope.

Inductive loc := Lcp | Lns | Ln0 | Ln1.          (* cp_n, n_snapshots, n0, n1 *)
Definition loc_eqb (a b : loc) : bool :=
  match a, b with Lcp, Lcp | Lns, Lns | Ln0, Ln0 | Ln1, Ln1 => true | _, _ => false end.

Inductive zexp :=
 | ZC (z : Z) | ZN | ZR | ZMax | ZTotal                     (* literal, self._n, self._r, self._max_n, self._snapshots_in_ram + self._snapshots_on_disk *)
 | ZL (x : loc) | ZLen | ZTop                               (* a local, len(snapshots), snapshots[-1] *)
 | ZAdd (a b : zexp) | ZSub (a b : zexp)
 | ZNadv (a b : zexp).                                      (* n_advance(a, b, trajectory=self._trajectory) *)
Inductive bexp :=
 | BTrue | BMaxIsNone | BMaxNotNone
 | BEq (a b : zexp) | BNe (a b : zexp) | BLt (a b : zexp) | BGt (a b : zexp) | BGe (a b : zexp).
Inductive sexp := SC (s : storage) | SCp.                   (* StorageType.X, the local cp_storage *)
Inductive aexp :=
 | AForward (n0 n1 : zexp) (wi wa : bool) (st : sexp) | AReverse (n1 n0 : zexp) (c : bool)
 | ACopy (n : zexp) (src dst : sexp) | AMove (n : zexp) (src dst : sexp) | AEndForward | AEndReverse.
Inductive stmt :=
 | SSkip | SSeq (a b : stmt) | SIf (c : bexp) (a b : stmt) | SWhile (c : bexp) (body : stmt)
 | SSetN (e : zexp) | SSetR (e : zexp) | SSetL (x : loc) (e : zexp) | SSetX (v : bool)
 | SListNew | SListPop | SListPush (e : zexp) | SSetCp            (* snapshots = []; .pop(); .append(e); cp_storage = self._storage[len(snapshots) - 1] *)
 | SAssert (c : bexp) | SYield (a : aexp) | SRaise (e : exn).

Record cfg := { total : Z; labels : list storage; trj : traj }.
Record gst := { gb : base; gx : bool; gsn : list Z; gl : loc -> option Z; gcp : option storage }.   (* attributes, the stack (top first), the locals *)

Fixpoint zeval (c : cfg) (e : zexp) (g : gst) : res Z :=
  match e with
  | ZC z => Ok z | ZN => Ok (n_ (gb g)) | ZR => Ok (r_ (gb g))
  | ZMax => match max_n_ (gb g) with Some m => Ok m | None => Err TypeError end
  | ZTotal => Ok (total c)
  | ZL x => match gl g x with Some v => Ok v | None => Err UnboundLocalError end
  | ZLen => Ok (len (gsn g))
  | ZTop => match gsn g with v :: _ => Ok v | [] => Err IndexError end
  | ZAdd a b => do x <- zeval c a g; do y <- zeval c b g; Ok (x + y)
  | ZSub a b => do x <- zeval c a g; do y <- zeval c b g; Ok (x - y)
  | ZNadv a b => do x <- zeval c a g; do y <- zeval c b g; nadv x y (trj c)
  end.
Definition cmp2 (c : cfg) (f : Z -> Z -> bool) (a b : zexp) (g : gst) : res bool := do x <- zeval c a g; do y <- zeval c b g; Ok (f x y).
Definition beval (c : cfg) (t : bexp) (g : gst) : res bool :=
  match t with
  | BTrue => Ok true
  | BMaxIsNone => Ok (match max_n_ (gb g) with None => true | Some _ => false end)
  | BMaxNotNone => Ok (match max_n_ (gb g) with None => false | Some _ => true end)
  | BEq a b => cmp2 c Z.eqb a b g | BNe a b => cmp2 c (fun x y => negb (x =? y)) a b g
  | BLt a b => cmp2 c Z.ltb a b g | BGt a b => cmp2 c Z.gtb a b g | BGe a b => cmp2 c Z.geb a b g
  end.
Definition seval (g : gst) (s : sexp) : res storage := match s with SC x => Ok x | SCp => match gcp g with Some x => Ok x | None => Err UnboundLocalError end end.
Definition aeval (c : cfg) (a : aexp) (g : gst) : res action :=
  match a with
  | AForward a0 a1 wi wa st => do x <- zeval c a0 g; do y <- zeval c a1 g; do z <- seval g st; Ok (Forward x y wi wa z)
  | AReverse a1 a0 cl => do x <- zeval c a1 g; do y <- zeval c a0 g; Ok (Reverse x y cl)
  | ACopy n s d => do x <- zeval c n g; do y <- seval g s; do z <- seval g d; Ok (Copy x y z)
  | AMove n s d => do x <- zeval c n g; do y <- seval g s; do z <- seval g d; Ok (Move x y z)
  | AEndForward => Ok EndForward | AEndReverse => Ok EndReverse
  end.

Definition set_n (g : gst) (v : Z) : gst := {| gb := {| n_ := v; r_ := r_ (gb g); max_n_ := max_n_ (gb g) |}; gx := gx g; gsn := gsn g; gl := gl g; gcp := gcp g |}.
Definition set_r (g : gst) (v : Z) : gst := {| gb := {| n_ := n_ (gb g); r_ := v; max_n_ := max_n_ (gb g) |}; gx := gx g; gsn := gsn g; gl := gl g; gcp := gcp g |}.
Definition set_l (g : gst) (x : loc) (v : option Z) : gst := {| gb := gb g; gx := gx g; gsn := gsn g; gl := fun y => if loc_eqb y x then v else gl g y; gcp := gcp g |}.
Definition set_sn (g : gst) (l : list Z) : gst := {| gb := gb g; gx := gx g; gsn := l; gl := gl g; gcp := gcp g |}.
Definition set_x (g : gst) (v : bool) : gst := {| gb := gb g; gx := v; gsn := gsn g; gl := gl g; gcp := gcp g |}.
Definition set_cp (g : gst) (v : storage) : gst := {| gb := gb g; gx := gx g; gsn := gsn g; gl := gl g; gcp := Some v |}.
(* self._storage[len(snapshots) - 1]: a tuple index; -1 would wrap around to the last label *)
Definition label_at (c : cfg) (g : gst) : res storage :=
  match gsn g with
  | [] => match rev (labels c) with x :: _ => Ok x | [] => Err IndexError end
  | _ :: r => match nth_error (labels c) (length r) with Some x => Ok x | None => Err IndexError end
  end.

Inductive frame := FS (s : stmt) | FLoop (c : bexp) (body : stmt).

Fixpoint run (fuel : nat) (c : cfg) (K : list frame) (g : gst) : (list frame * gst) * outcome :=
  match fuel with O => (([], g), Raise OutOfFuel) | S f =>
  match K with
  | [] => (([], g), StopIteration)
  | FLoop t body :: K' =>
      match beval c t g with Err e => (([], g), Raise e) | Ok true => run f c (FS body :: FLoop t body :: K') g | Ok false => run f c K' g end
  | FS s :: K' =>
      match s with
      | SSkip => run f c K' g
      | SSeq a b => run f c (FS a :: FS b :: K') g
      | SIf t a b => match beval c t g with Err e => (([], g), Raise e) | Ok true => run f c (FS a :: K') g | Ok false => run f c (FS b :: K') g end
      | SWhile t body => run f c (FLoop t body :: K') g
      | SSetN e => match zeval c e g with Err e => (([], g), Raise e) | Ok v => run f c K' (set_n g v) end
      | SSetR e => match zeval c e g with Err e => (([], g), Raise e) | Ok v => run f c K' (set_r g v) end
      | SSetL x e => match zeval c e g with Err e => (([], g), Raise e) | Ok v => run f c K' (set_l g x (Some v)) end
      | SSetX v => run f c K' (set_x g v)
      | SListNew => run f c K' (set_sn g [])
      | SSetCp => match label_at c g with Err e => (([], g), Raise e) | Ok v => run f c K' (set_cp g v) end
      | SListPop => match gsn g with _ :: r => run f c K' (set_sn g r) | [] => (([], g), Raise IndexError) end
      | SListPush e => match zeval c e g with Err e => (([], g), Raise e) | Ok v => run f c K' (set_sn g (v :: gsn g)) end
      | SAssert t => match beval c t g with Err e => (([], g), Raise e) | Ok true => run f c K' g | Ok false => (([], g), Raise AssertionError) end
      | SYield a => match aeval c a g with Err e => (([], g), Raise e) | Ok act => ((K', g), Yield act) end
      | SRaise e => (([], g), Raise e)
      end
  end end.

Definition gfinalize (k : Z) (g : gst) : gst * option exn :=
  let '(b', e) := finalize k (gb g) in ({| gb := b'; gx := gx g; gsn := gsn g; gl := gl g; gcp := gcp g |}, e).
