(* The schedule object seen through its public API: next(), finalize(k), n, r, max_n, is_exhausted, is_running,
   uses_storage_type -- for every class, plus the client that drives a schedule against the reference executor. *)
From Coq Require Import ZArith List Bool.
Require Import Actions NAdvance Multistage Mixed Online Ops RevConv Exec.
Import ListNotations.
Open Scope Z_scope.

Inductive params :=
 | PNone | PMem | PDisk (move : bool) | PTwo (period bs : Z) (bst : storage) (tr : traj)
 | PMulti (n ram disk : Z) (tr : traj)
 | PMixed (n s : Z) (sg : storage) (tab : bool)
 | PRev (k : rkind) (n ram disk uf ub wd rd : Z).

Inductive obj :=
 | OOnline (s : Online.st)
 | OMulti (c : Multistage.cfg) (s : Multistage.st) (ram disk : Z)
 | OMixed (n s : Z) (sg : storage) (tab : bool) (plan : option (Z -> Z -> res Mixed.plan_t)) (s : Mixed.st) (fin : bool)
 | ORevF (k : rkind) (max_n ram disk : Z) (s : rst).
Record sched := { ob : obj; started : bool }.

Definition construct (p : params) : res sched :=
  match p with
  | PNone => do s <- Online.construct KNone_; Ok {| ob := OOnline s; started := false |}
  | PMem => do s <- Online.construct KMem; Ok {| ob := OOnline s; started := false |}
  | PDisk mv => do s <- Online.construct (KDisk mv); Ok {| ob := OOnline s; started := false |}
  | PTwo p bs bst tr => do s <- Online.construct (KTwo p bs bst tr); Ok {| ob := OOnline s; started := false |}
  | PMulti n ram disk tr =>
      do c <- Multistage.construct n ram disk tr;
      Ok {| ob := OMulti c Multistage.init (count_st RAM (labels c)) (count_st DISK (labels c)); started := false |}
  | PMixed n s sg tab =>
      do s' <- Mixed.construct n s sg;
      Ok {| ob := OMixed n s' sg tab None (Mixed.mk (Mixed.PInner KNone) 0 0 [] false) false; started := false |}
  | PRev k n ram disk uf ub wd rd =>
      do s <- RevConv.construct k n ram disk uf ub wd rd; Ok {| ob := ORevF k n ram disk s; started := false |}
  end.

Definition get_n (s : sched) : Z := match ob s with
  | OOnline s => Online.n_ (Online.b s) | OMulti _ s _ _ => Multistage.n_ s | OMixed _ _ _ _ _ s _ => Mixed.n_ s
  | ORevF _ _ _ _ s => RevConv.n_ (cs s) end.
Definition get_r (s : sched) : Z := match ob s with
  | OOnline s => Online.r_ (Online.b s) | OMulti _ s _ _ => Multistage.r_ s | OMixed _ _ _ _ _ s _ => Mixed.r_ s
  | ORevF _ _ _ _ s => RevConv.r_ (cs s) end.
Definition get_max_n (s : sched) : option Z := match ob s with
  | OOnline s => Online.max_n_ (Online.b s) | OMulti c _ _ _ => Some (Multistage.max_n c) | OMixed n _ _ _ _ _ _ => Some n
  | ORevF _ n _ _ _ => Some n end.
Definition is_exhausted (s : sched) : bool := match ob s with
  | OOnline s => Online.is_exhausted s | OMulti _ s _ _ => Multistage.exhausted s | OMixed _ _ _ _ _ s _ => Mixed.exhausted s
  | ORevF _ _ _ _ s => RevConv.exhausted s end.
Definition is_running (s : sched) : bool := started s.

(* uses_storage_type: True / False / None (a fall-through return) / an exception *)
Inductive ures := UTrue | UFalse | UNoneVal | URaise (e : exn).
Definition ub (b : bool) := if b then UTrue else UFalse.
Definition uses (s : sched) (x : storage) : ures := match ob s with
  | OOnline o => match Online.k o with
      | KNone_ => UFalse
      | KMem => ub (st_eqb x WORK)
      | KDisk _ => ub (st_eqb x DISK || st_eqb x WORK)
      | KTwo _ _ bst _ => ub (st_eqb x DISK || st_eqb x bst) end
  | OMulti _ _ ram disk => match x with DISK => ub (0 <? disk) | RAM => ub (0 <? ram) | _ => UNoneVal end
  | OMixed _ _ sg _ _ _ _ => ub (st_eqb sg x)
  | ORevF k _ ram disk _ => match x with
      | DISK => match k with KDiskRevolve | KPeriodic => UTrue | KRevolve => UFalse | KHRevolve => ub (0 <? disk) end
      | RAM => ub (0 <? ram) | _ => UFalse end
  end.

(* finalize (schedule.py:493-512) *)
Definition finalize (k : Z) (s : sched) : sched * option exn :=
  match ob s with
  | OOnline o =>
      let '(b', e) := Online.finalize k (Online.b o) in
      ({| ob := OOnline {| Online.k := Online.k o; Online.pcv := Online.pcv o; Online.b := b'; Online.snaps := Online.snaps o; Online.exh := Online.exh o |};
          started := started s |}, e)
  | _ =>
      if k <? 1 then (s, Some ValueError) else
      match get_max_n s with
      | Some m => if negb (get_n s =? k) || negb (m =? k) then (s, Some RuntimeError) else (s, None)
      | None => (s, Some RuntimeError) end
  end.

(* next(): a generator that raised or returned is finished *)
Definition next (s : sched) : sched * outcome :=
  match ob s with
  | OOnline o => let '(o', out) := Online.next o in ({| ob := OOnline o'; started := true |}, out)
  | OMulti c m ram disk => let '(m', out) := Multistage.next c m in ({| ob := OMulti c m' ram disk; started := true |}, out)
  | OMixed n sn sg tab plan m fin =>
      if fin then ({| ob := ob s; started := true |}, StopIteration) else
      let planr : res (Z -> Z -> res Mixed.plan_t) := match plan with Some f => Ok f | None =>
          if tab then (do t <- Mixed.tabulate n sn; Ok (Mixed.tget t)) else Ok (Mixed.memo_warm n sn) end in
      match planr with
      | Err e => ({| ob := OMixed n sn sg tab plan m true; started := true |}, Raise e)
      | Ok f =>
        let '(m', out) := Mixed.resume 3 {| Mixed.max_n := n; Mixed.snapshots := sn; Mixed.stg := sg; Mixed.plan := f |} m in
        ({| ob := OMixed n sn sg tab (Some f) m' (match out with Yield _ => false | _ => true end); started := true |}, out)
      end
  | ORevF k n ram disk r => let '(r', out) := RevConv.next n r in ({| ob := ORevF k n ram disk r'; started := true |}, out)
  end.

(* ---- observations ---- *)
Record obs := { o_n : Z; o_r : Z; o_max_n : option Z; o_exh : bool; o_run : bool; o_ur : ures; o_ud : ures; o_uw : ures; o_un : ures }.
Definition observe (s : sched) : obs :=
  {| o_n := get_n s; o_r := get_r s; o_max_n := get_max_n s; o_exh := is_exhausted s; o_run := is_running s;
     o_ur := uses s RAM; o_ud := uses s DISK; o_uw := uses s WORK; o_un := uses s NONE |}.

(* ---- the monitored client ---- *)
Inductive merr := MX (e : xerr) | M_n | M_r | M_max_n.      (* executor error, or n / r / max_n disagree with the execution (C08) *)
Record mon := { mx : xstate; merr_ : option (merr * Z); mcount : Z }.   (* first error with the index of the action *)
Definition mon0 := {| mx := x0; merr_ := None; mcount := 0 |}.
Definition oz_ok (m : option Z) (N : Z) := match m with None => true | Some v => v =? N end.
Definition mon_step (p : xparams) (s' : sched) (a : action) (m : mon) : mon :=
  match merr_ m with Some _ => {| mx := mx m; merr_ := merr_ m; mcount := mcount m + 1 |} | None =>
  match exec p (negb (isnone (get_max_n s'))) (is_exhausted s') (mx m) a with
  | inr e => {| mx := mx m; merr_ := Some (MX e, mcount m); mcount := mcount m + 1 |}
  | inl x' =>
    let bad := if negb (match fwd x' with
                           | Some v => if isnone (get_max_n s') && (v =? xN p) then xN p <=? get_n s'   (* the client finalises next *)
                                       else get_n s' =? v
                           | None => true end) then Some M_n
               else if negb (get_r s' =? rr x') then Some M_r
               else if negb (oz_ok (get_max_n s') (xN p)) then Some M_max_n else None in
    {| mx := x'; merr_ := match bad with Some e => Some (e, mcount m) | None => None end; mcount := mcount m + 1 |}
  end end.

Inductive op := Next | Fin (k : Z) | Run (passes : Z) (limit : nat).
Inductive line := LNext (o : outcome) (ob : obs) | LFin (e : option exn) (ob : obs).

(* Run k limit: request actions until k EndReverse actions have been seen, or a non-action outcome, or `limit` requests *)
Fixpoint run_loop (p : xparams) (limit : nat) (k : Z) (s : sched) (m : mon) : sched * mon * list line :=
  match limit with O => (s, m, []) | S l =>
    let '(s', o) := next s in
    let ln := LNext o (observe s') in
    match o with
    | Yield a =>
      let m' := mon_step p s' a m in
      let k' := match a with EndReverse => k - 1 | _ => k end in
      if k' <=? 0 then (s', m', [ln]) else
      let '(s2, m2, ls) := run_loop p l k' s' m' in (s2, m2, ln :: ls)
    | _ => (s', m, [ln])
    end end.
Fixpoint run_ops (p : xparams) (s : sched) (m : mon) (ops : list op) : sched * mon * list line :=
  match ops with [] => (s, m, [])
  | Next :: rest =>
      let '(s', o) := next s in
      let m' := match o with Yield a => mon_step p s' a m | _ => m end in
      let '(s2, m2, ls) := run_ops p s' m' rest in (s2, m2, LNext o (observe s') :: ls)
  | Fin k :: rest =>
      let '(s', e) := finalize k s in
      let '(s2, m2, ls) := run_ops p s' m rest in (s2, m2, LFin e (observe s') :: ls)
  | Run k limit :: rest =>
      let '(s', m', l1) := run_loop p limit k s m in
      let '(s2, m2, ls) := run_ops p s' m' rest in (s2, m2, l1 ++ ls)
  end.

(* a complete case: construct (or the constructor's exception), the observation before any action, then the ops *)
Definition run_case (pr : params) (p : xparams) (ops : list op) : res (obs * mon * list line) :=
  do s <- construct pr;
  let '(_, m, ls) := run_ops p s mon0 ops in Ok (observe s, m, ls).
