(* revolve.py (get_opt_0_table, revolve), disk_revolve.py (get_opt_inf_table, disk_revolve; one_read_disk = True),
   periodic_disk_revolve.py (mxrr_close_formula, periodic_disk_revolve).  Costs are integers (DESIGN 10). *)
From Coq Require Import ZArith List Bool.
Require Import Actions BinomDef Ops.
Import ListNotations.
Open Scope Z_scope.

Definition zmin_list (l : list Z) (d : Z) : Z := match l with [] => d | x :: r => fold_left Z.min r x end.
(* argmin: last minimum, 1-based *)
Fixpoint argmin_aux (l : list Z) (i best m : Z) : Z :=
  match l with [] => 1 + best | x :: r => if x <=? m then argmin_aux r (i+1) i x else argmin_aux r (i+1) best m end.
Definition argmin (l : list Z) : Z := match l with [] => 1 | x :: _ => argmin_aux l 0 0 x end.

(* Table.__getitem__ : IndexError out of range *)
Definition tget (t : list (list Z)) (m l : Z) : res Z :=
  if (m <? 0) || (l <? 0) then Err IndexError else
  match nth_error t (Z.to_nat m) with None => Err IndexError
  | Some row => match nth_error row (Z.to_nat l) with None => Err IndexError | Some v => Ok v end end.
Definition lget (t : list Z) (l : Z) : res Z :=
  if l <? 0 then Err IndexError else match nth_error t (Z.to_nat l) with None => Err IndexError | Some v => Ok v end.

(* get_opt_0_table(lmax, mmax, uf, ub)  (revolve.py:16-58) *)
Fixpoint row_ext (cnt : nat) (l : Z) (uf : Z) (prev row : list Z) : res (list Z) :=
  match cnt with O => Ok row | S c =>
    do cands <- map_res (fun j => do x <- lget prev (l-j); do y <- lget row (j-1); Ok (j*uf + x + y)) (zrange 1 l);
    row_ext c (l+1) uf prev (row ++ [zmin_list cands 0]) end.
Fixpoint rows_from (cnt : nat) (lmax uf : Z) (prev : list Z) (rest : list (list Z)) : res (list (list Z)) :=
  match cnt, rest with
  | O, _ => Ok []
  | S c, row :: rest' => do r <- row_ext (Z.to_nat (lmax - 1)) 2 uf prev row; do rs <- rows_from c lmax uf r rest'; Ok (r :: rs)
  | S _, [] => Err IndexError end.
Definition get_opt_0_table (lmax mmax uf ub : Z) : res (list (list Z)) :=
  let row0 := [ub] in
  let rowm := [ub; uf + 2*ub] in
  if mmax <=? 0 then Ok [row0]     (* only row 0 exists; the single-slot fill is guarded by mmax >= 1 *)
  else
    let row1 := rowm ++ map (fun l => (l+1)*ub + (l*(l+1)/2)*uf) (zrange 2 (lmax+1)) in
    do rs <- rows_from (Z.to_nat (mmax - 1)) lmax uf row1 (repeat rowm (Z.to_nat (mmax - 1)));
    Ok (row0 :: row1 :: rs).

Definition l1_mem := [OWM 0; OF 0 1; OWFM 2; OF 1 2; OB 2 1; ODFM 2; ORM 0; OWFM 1; OF 0 1; OB 1 0; ODFM 1; ODM 0].
Fixpoint cm1_loop (cnt : nat) (l index : Z) : list op :=
  match cnt with O => [] | S c =>
    (if index =? l - 1 then [] else [ORM 0]) ++ (if index + 1 =? 0 then [] else [OF 0 (index+1)])
     ++ [OWFM (index+2); OF (index+1) (index+2); OB (index+2) (index+1); ODFM (index+2)] ++ cm1_loop c l (index-1) end.

Fixpoint revolve (fuel : nat) (opt0 : list (list Z)) (uf l cm : Z) : res (list op) :=
  match fuel with O => Err OutOfFuel | S f =>
  if l =? 0 then Ok [OWFM 1; OF 0 1; OB 1 0; ODFM 1; ODM 0] else
  if cm =? 0 then Err ValueError else
  if l =? 1 then Ok l1_mem else
  if cm =? 1 then Ok ([OWM 0] ++ cm1_loop (Z.to_nat l) l (l-1) ++ [ORM 0; OWFM 1; OF 0 1; OB 1 0; ODFM 1; ODM 0]) else
  do lm <- map_res (fun j => do x <- tget opt0 (cm-1) (l-j); do y <- tget opt0 cm (j-1); Ok (j*uf + x + y)) (zrange 1 l);
  if match lm with [] => true | _ => false end then Err IndexError (* argmin([]) : list[0] *) else
  let jmin := argmin lm in
  do s1 <- revolve f opt0 uf (l - jmin) (cm - 1);
  do s2 <- revolve f opt0 uf (jmin - 1) cm;
  Ok ([OWM 0; OF 0 jmin] ++ shift jmin s1 ++ [ORM 0] ++ remove_useless_wm s2)
  end.
Definition revolve_top (l cm uf ub : Z) : res (list op) :=
  do t <- get_opt_0_table l cm uf ub; revolve (Z.to_nat (2*l+4)) t uf l cm.

(* get_opt_inf_table (disk_revolve.py:18-85), one_read_disk = True *)
Fixpoint inf_ext (cnt : nat) (l : Z) (opt0 : list (list Z)) (cm uf rd wd : Z) (tab : list Z) : res (list Z) :=
  match cnt with O => Ok tab | S c =>
    do cands <- map_res (fun j => do x <- lget tab (l-j); do y <- tget opt0 cm (j-1); Ok (wd + j*uf + x + rd + y)) (zrange 1 l);
    do o <- tget opt0 cm l;
    inf_ext c (l+1) opt0 cm uf rd wd (tab ++ [Z.min o (zmin_list cands 0)]) end.
Definition get_opt_inf_table (lmax cm uf ub rd wd : Z) (opt0 : list (list Z)) : res (list Z) :=
  inf_ext (Z.to_nat (lmax - 1)) 2 opt0 cm uf rd wd [ub; if cm =? 0 then wd + uf + 2*ub + rd else uf + 2*ub].

Fixpoint disk_revolve (fuel : nat) (opt0 : list (list Z)) (optinf : list Z) (uf rd wd l cm : Z) : res (list op) :=
  match fuel with O => Err OutOfFuel | S f =>
  if l =? 0 then Ok [OWFM 1; OF 0 1; OB 1 0; ODFM 1] else
  if l =? 1 then
    (if cm =? 0 then Ok [OWD 0; OF 0 1; OWFM 2; OF 1 2; OB 2 1; ODFM 2; ORD 0; OWFM 1; OF 0 1; OB 1 0; ODFM 1; ODD 0] else Ok l1_mem)
  else
  do lm <- map_res (fun j => do x <- lget optinf (l-j); do y <- tget opt0 cm (j-1); Ok (wd + j*uf + x + rd + y)) (zrange 1 l);
  if match lm with [] => true | _ => false end then Err ValueError (* min([]) *) else
  do o <- tget opt0 cm l;
  if zmin_list lm 0 <? o then
    let jmin := argmin lm in
    do s1 <- disk_revolve f opt0 optinf uf rd wd (l - jmin) cm;
    do s2 <- revolve (Z.to_nat (2*l+4)) opt0 uf (jmin - 1) cm;
    Ok ([OWD 0; OF 0 jmin] ++ shift jmin s1 ++ [ORD 0] ++ s2)
  else revolve (Z.to_nat (2*l+4)) opt0 uf l cm
  end.
(* DiskRevolve.__init__ calls disk_revolve(max_n-1, ram, wd, rd, uf, ub) against signature (l, cm, rd, wd, ...) *)
Definition disk_revolve_top (l cm rd wd uf ub : Z) : res (list op) :=
  do t <- get_opt_0_table l cm uf ub;
  do ti <- get_opt_inf_table l cm uf ub rd wd t;
  disk_revolve (Z.to_nat (l+2)) t ti uf rd wd l cm.

(* mxrr_close_formula(cm, uf, rd, wd) (periodic_disk_revolve.py:177-200) *)
Fixpoint mxrr_t (fuel : nat) (cm : nat) (t : nat) (uf wrd : Z) : nat :=
  match fuel with O => t | S f => if beta (S cm) t * uf <=? wrd then mxrr_t f cm (S t) uf wrd else t end.
Definition mxrr (cm uf rd wd : Z) : Z :=
  let t := mxrr_t (Z.to_nat ((wd+rd)/uf + 2)) (Z.to_nat cm) 0 uf (wd+rd) in beta (Z.to_nat cm) t.

Fixpoint per_fwd (cnt : nat) (l mx ct : Z) : list op * Z :=
  match cnt with O => ([], ct) | S c =>
    if l - ct >? mx then let '(r, ct') := per_fwd c l mx (ct + mx) in ([OWD ct; OF ct (ct + mx)] ++ r, ct') else ([], ct) end.
Fixpoint per_back (cnt : nat) (opt0 : list (list Z)) (uf mx cm ct : Z) : res (list op) :=
  match cnt with O => Ok [] | S c =>
    if ct >? 0 then
      let ct' := ct - mx in
      do s <- revolve (Z.to_nat (2*mx+4)) opt0 uf (mx - 1) cm;
      do r <- per_back c opt0 uf mx cm ct';
      Ok ([ORD ct'] ++ shift ct' s ++ r)
    else Ok [] end.
Definition periodic_top (l cm rd wd uf ub : Z) : res (list op * Z) :=
  let mx := mxrr cm uf rd wd in
  let mmax := Z.max mx mx + 1 in
  do t <- get_opt_0_table mmax cm uf ub;
  let '(fw, ct) := per_fwd (Z.to_nat l) l mx 0 in
  do s <- revolve (Z.to_nat (2*l+4)) t uf (l - ct) cm;
  do bk <- per_back (Z.to_nat l) t uf mx cm ct;
  Ok (fw ++ shift ct s ++ bk, mx).

