(* A small imperative language with `yield`, deep-embedded: the target of harness/translate.py for the generator bodies
   (`_iterator`) of the basic schedule classes.  A program is a statement over the attributes _n, _r, _max_n (None or an int),
   _exhausted, _move_data and two integer locals; `run` resumes a suspended generator (a stack of frames) up to its next
   yield, exception or end, exactly as next() does on a Python generator. *)
From Coq Require Import ZArith List Bool.
Require Import Actions Online.
Import ListNotations.
Open Scope Z_scope.

Inductive zexp :=
 | ZC (z : Z) | ZMaxsize                       (* literal, sys.maxsize *)
 | ZN | ZR | ZMax                              (* self._n, self._r, self._max_n *)
 | ZL (i : bool)                               (* a local: false = n0, true = n1 *)
 | ZAdd (a b : zexp) | ZSub (a b : zexp).
Inductive bexp :=
 | BTrue | BMaxIsNone | BMaxNotNone | BMove    (* True, self._max_n is None, ... is not None, self._move_data *)
 | BEq (a b : zexp) | BLt (a b : zexp) | BGt (a b : zexp).
Inductive aexp :=
 | AForward (n0 n1 : zexp) (wi wa : bool) (st : storage) | AReverse (n1 n0 : zexp) (c : bool)
 | ACopy (n : zexp) (src dst : storage) | AMove (n : zexp) (src dst : storage) | AEndForward | AEndReverse.
Inductive stmt :=
 | SSkip | SSeq (a b : stmt) | SIf (c : bexp) (a b : stmt) | SWhile (c : bexp) (body : stmt) | SBreak
 | SSetN (e : zexp) | SSetR (e : zexp) | SSetExh (v : bool) | SSetL (i : bool) (e : zexp)
 | SYield (a : aexp) | SRaise (e : exn).

Record gst := { gb : base; gx : bool; gmv : bool; l0 : option Z; l1 : option Z }.
Inductive verr := VType | VUnbound.            (* None in arithmetic / a comparison: TypeError; a local read before assignment *)
Definition vexn (e : verr) : exn := match e with VType => TypeError | VUnbound => UnboundLocalError end.

Fixpoint zeval (e : zexp) (g : gst) : verr + Z :=
  match e with
  | ZC z => inr z | ZMaxsize => inr maxsize
  | ZN => inr (n_ (gb g)) | ZR => inr (r_ (gb g))
  | ZMax => match max_n_ (gb g) with Some m => inr m | None => inl VType end
  | ZL i => match (if i then l1 g else l0 g) with Some v => inr v | None => inl VUnbound end
  | ZAdd a b => match zeval a g, zeval b g with inr x, inr y => inr (x + y) | inl e, _ => inl e | _, inl e => inl e end
  | ZSub a b => match zeval a g, zeval b g with inr x, inr y => inr (x - y) | inl e, _ => inl e | _, inl e => inl e end
  end.
Definition cmp2 (f : Z -> Z -> bool) (a b : zexp) (g : gst) : verr + bool :=
  match zeval a g, zeval b g with inr x, inr y => inr (f x y) | inl e, _ => inl e | _, inl e => inl e end.
Definition beval (c : bexp) (g : gst) : verr + bool :=
  match c with
  | BTrue => inr true
  | BMaxIsNone => inr (match max_n_ (gb g) with None => true | Some _ => false end)
  | BMaxNotNone => inr (match max_n_ (gb g) with None => false | Some _ => true end)
  | BMove => inr (gmv g)
  | BEq a b => cmp2 Z.eqb a b g | BLt a b => cmp2 Z.ltb a b g | BGt a b => cmp2 Z.gtb a b g
  end.
Definition aeval (a : aexp) (g : gst) : verr + action :=
  match a with
  | AForward a0 a1 wi wa st => match zeval a0 g, zeval a1 g with inr x, inr y => inr (Forward x y wi wa st) | inl e, _ => inl e | _, inl e => inl e end
  | AReverse a1 a0 c => match zeval a1 g, zeval a0 g with inr x, inr y => inr (Reverse x y c) | inl e, _ => inl e | _, inl e => inl e end
  | ACopy n s d => match zeval n g with inr x => inr (Copy x s d) | inl e => inl e end
  | AMove n s d => match zeval n g with inr x => inr (Move x s d) | inl e => inl e end
  | AEndForward => inr EndForward | AEndReverse => inr EndReverse
  end.

Definition set_n (g : gst) (v : Z) : gst := {| gb := {| n_ := v; r_ := r_ (gb g); max_n_ := max_n_ (gb g) |}; gx := gx g; gmv := gmv g; l0 := l0 g; l1 := l1 g |}.
Definition set_r (g : gst) (v : Z) : gst := {| gb := {| n_ := n_ (gb g); r_ := v; max_n_ := max_n_ (gb g) |}; gx := gx g; gmv := gmv g; l0 := l0 g; l1 := l1 g |}.
Definition set_x (g : gst) (v : bool) : gst := {| gb := gb g; gx := v; gmv := gmv g; l0 := l0 g; l1 := l1 g |}.
Definition set_l (g : gst) (i : bool) (v : Z) : gst :=
  if i then {| gb := gb g; gx := gx g; gmv := gmv g; l0 := l0 g; l1 := Some v |} else {| gb := gb g; gx := gx g; gmv := gmv g; l0 := Some v; l1 := l1 g |}.

(* a suspended generator: the statements still to run, innermost first; FLoop marks a loop to re-test (and the target of break) *)
Inductive frame := FS (s : stmt) | FLoop (c : bexp) (body : stmt).
Fixpoint break_out (K : list frame) : list frame := match K with [] => [] | FLoop _ _ :: K' => K' | FS _ :: K' => break_out K' end.

Fixpoint run (fuel : nat) (K : list frame) (g : gst) : (list frame * gst) * outcome :=
  match fuel with O => (([], g), Raise OutOfFuel) | S f =>
  match K with
  | [] => (([], g), StopIteration)                                           (* the generator returned *)
  | FLoop c body :: K' =>
      match beval c g with inl e => (([], g), Raise (vexn e)) | inr true => run f (FS body :: FLoop c body :: K') g | inr false => run f K' g end
  | FS s :: K' =>
      match s with
      | SSkip => run f K' g
      | SSeq a b => run f (FS a :: FS b :: K') g
      | SIf c a b => match beval c g with inl e => (([], g), Raise (vexn e)) | inr true => run f (FS a :: K') g | inr false => run f (FS b :: K') g end
      | SWhile c body => run f (FLoop c body :: K') g
      | SBreak => run f (break_out K') g
      | SSetN e => match zeval e g with inl e => (([], g), Raise (vexn e)) | inr v => run f K' (set_n g v) end
      | SSetR e => match zeval e g with inl e => (([], g), Raise (vexn e)) | inr v => run f K' (set_r g v) end
      | SSetExh v => run f K' (set_x g v)
      | SSetL i e => match zeval e g with inl e => (([], g), Raise (vexn e)) | inr v => run f K' (set_l g i v) end
      | SYield a => match aeval a g with inl e => (([], g), Raise (vexn e)) | inr act => ((K', g), Yield act) end
      | SRaise e => (([], g), Raise e)                                       (* an exception finishes the generator *)
      end
  end end.

(* the object: generator state + attributes; finalize is the base-class method (Online.finalize) on the attributes *)
Definition gnext (fuel : nat) (K : list frame) (g : gst) := run fuel K g.
Definition gfinalize (k : Z) (g : gst) : gst * option exn :=
  let '(b', e) := finalize k (gb g) in ({| gb := b'; gx := gx g; gmv := gmv g; l0 := l0 g; l1 := l1 g |}, e).
