(* The reference executor: the formal meaning of "the stream is carried out literally by a solver".
   It is the executor of tests/test_validity.py made total, with every failed requirement a named error,
   plus the requirements the property texts add (marked (+)). *)
From Coq Require Import ZArith List Bool.
Require Import Actions.
Import ListNotations.
Open Scope Z_scope.

Definition range := (Z * Z)%type.                       (* half-open step range [a, b) *)
Record cp := { cp_ics : option range; cp_deps : option range }.
Definition store := list (Z * cp).                      (* keyed by step; most recent first *)

Inductive xerr :=
 | E_fwd_start | E_missing_cp | E_cp_not_covering | E_rev_no_deps | E_overwrite                 (* C01 *)
 | E_rev_order | E_end_fwd_early | E_end_rev_early | E_before_endfwd       (* C02 *)
 | E_budget (s : storage) | E_mixed_content                                                    (* C03 *)
 | E_leftover                                                                                  (* C04 *)
 | E_load_work_nonempty | E_deps_not_last_step | E_overshoot | E_deps_many                     (* C12 *)
 | E_malformed.                                                                                (* C18 *)

Record xparams := { xN : Z;                               (* the true number of steps *)
                    keep_all_deps : bool;                 (* SingleMemoryStorageSchedule exemption of C12 *)
                    budget_ram : option Z; budget_disk : option Z }.
Record xstate := { fwd : option Z; w_ics : option range; w_deps : option range;
                   ram : store; disk : store; rr : Z; seen_endfwd : bool; passes : Z;
                   ram0 : list Z; disk0 : list Z;         (* keys held at EndForward *)
                   fwd_total : Z; ram_peak : Z; disk_peak : Z; disk_writes : Z; disk_reads : Z }.
Definition x0 : xstate := {| fwd := Some 0; w_ics := None; w_deps := None; ram := []; disk := []; rr := 0; seen_endfwd := false;
   passes := 0; ram0 := []; disk0 := []; fwd_total := 0; ram_peak := 0; disk_peak := 0; disk_writes := 0; disk_reads := 0 |}.

Fixpoint lookup (k : Z) (l : store) : option cp := match l with [] => None | (k', v) :: r => if k =? k' then Some v else lookup k r end.
Fixpoint remove (k : Z) (l : store) : store := match l with [] => [] | (k', v) :: r => if k =? k' then r else (k', v) :: remove k r end.
Definition covers (o : option range) (a b : Z) := match o with Some (x, y) => (x <=? a) && (b <=? y) | None => false end.
Definition isnone {A} (o : option A) := match o with None => true | _ => false end.
Definition keys (l : store) : list Z := map fst l.
Fixpoint insert_sorted (k : Z) (l : list Z) := match l with [] => [k] | x :: r => if k <=? x then k :: l else x :: insert_sorted k r end.
Definition sort_keys (l : list Z) := fold_right insert_sorted [] l.
Fixpoint zlist_eqb (a b : list Z) := match a, b with [], [] => true | x :: r, y :: s => (x =? y) && zlist_eqb r s | _, _ => false end.
Definition over (b : option Z) (l : store) := match b with Some m => m <? len l | None => false end.
Definition wlen (o : option range) := match o with Some (a, b) => b - a | None => 0 end.

Definition put (p : xparams) (x : xstate) (sg : storage) (k : Z) (c : cp) (fw : option Z) (wi wd : option range) (adv : Z)
  : xstate + xerr :=
  match sg with
  | RAM => if negb (isnone (lookup k (ram x))) then inr E_overwrite else
           let r' := (k, c) :: ram x in
           if over (budget_ram p) r' then inr (E_budget RAM) else
           inl {| fwd := fw; w_ics := wi; w_deps := wd; ram := r'; disk := disk x; rr := rr x; seen_endfwd := seen_endfwd x;
                  passes := passes x; ram0 := ram0 x; disk0 := disk0 x; fwd_total := fwd_total x + adv;
                  ram_peak := Z.max (ram_peak x) (len r'); disk_peak := disk_peak x; disk_writes := disk_writes x; disk_reads := disk_reads x |}
  | DISK => if negb (isnone (lookup k (disk x))) then inr E_overwrite else
           let d' := (k, c) :: disk x in
           if over (budget_disk p) d' then inr (E_budget DISK) else
           inl {| fwd := fw; w_ics := wi; w_deps := wd; ram := ram x; disk := d'; rr := rr x; seen_endfwd := seen_endfwd x;
                  passes := passes x; ram0 := ram0 x; disk0 := disk0 x; fwd_total := fwd_total x + adv;
                  ram_peak := ram_peak x; disk_peak := Z.max (disk_peak x) (len d'); disk_writes := disk_writes x + 1; disk_reads := disk_reads x |}
  | _ => inl {| fwd := fw; w_ics := wi; w_deps := wd; ram := ram x; disk := disk x; rr := rr x; seen_endfwd := seen_endfwd x;
                  passes := passes x; ram0 := ram0 x; disk0 := disk0 x; fwd_total := fwd_total x + adv;
                  ram_peak := ram_peak x; disk_peak := disk_peak x; disk_writes := disk_writes x; disk_reads := disk_reads x |}
  end.

(* known = the schedule's max_n is known when the action is carried out; exhausted = the schedule reports exhaustion
   (read after the action was emitted, as a client does) *)
Definition exec (p : xparams) (known exhausted : bool) (x : xstate) (a : action) : xstate + xerr :=
  let N := xN p in
  match a with
  | Forward n0 n1 wi wa sg =>
    if negb ((0 <=? n0) && (n0 <? n1)) then inr E_malformed else
    if (is_cp sg && negb (wi || wa)) || (st_eqb sg NONE && (wi || wa)) then inr E_malformed else
    match fwd x with None => inr E_fwd_start | Some f =>
    if negb (f =? n0) then inr E_fwd_start else
    if known && negb (n1 <=? N - rr x) then inr E_overshoot else
    let n1' := Z.min n1 N in
    if n1' <=? n0 then inr E_overshoot else
    match sg with
    | RAM | DISK =>
      if wi && wa then inr E_mixed_content else                                                 (* (+) *)
      if wa && negb (n1' =? n0 + 1) then inr E_mixed_content else                               (* (+) one step's dependencies *)
      put p x sg n0 {| cp_ics := if wi then Some (n0, n1') else None; cp_deps := if wa then Some (n0, n1') else None |}
          (Some n1') None None (n1' - n0)
    | WORK =>
      if wa && negb (keep_all_deps p) && negb ((n1' =? n0 + 1) && (n1' =? N - rr x)) then inr E_deps_not_last_step else  (* (+) *)
      put p x WORK n0 {| cp_ics := None; cp_deps := None |} (Some n1')
          (if wi then Some (n0, n1') else None) (if wa then Some (n0, n1') else None) (n1' - n0)
    | NONE => put p x NONE n0 {| cp_ics := None; cp_deps := None |} (Some n1') None None (n1' - n0)
    end end
  | Reverse n1 n0 clear =>
    if negb ((0 <=? n0) && (n0 <? n1)) then inr E_malformed else
    if negb (seen_endfwd x) then inr E_before_endfwd else
    if negb (n1 =? N - rr x) then inr E_rev_order else
    if negb (covers (w_deps x) n0 n1) then inr E_rev_no_deps else
    inl {| fwd := fwd x; w_ics := w_ics x; w_deps := if clear then None else w_deps x; ram := ram x; disk := disk x;
           rr := rr x + (n1 - n0); seen_endfwd := true; passes := passes x; ram0 := ram0 x; disk0 := disk0 x;
           fwd_total := fwd_total x; ram_peak := ram_peak x; disk_peak := disk_peak x; disk_writes := disk_writes x; disk_reads := disk_reads x |}
  | Copy n src dst | Move n src dst =>
    if negb (is_cp src) || negb (0 <=? n) then inr E_malformed else
    if negb (seen_endfwd x) then inr E_before_endfwd else
    if negb (isnone (w_ics x) && isnone (w_deps x)) then inr E_load_work_nonempty else
    let src_store := match src with RAM => ram x | _ => disk x end in
    match lookup n src_store with None => inr E_missing_cp | Some c =>
    if negb (n <? N - rr x) then inr E_cp_not_covering else
    let is_move := match a with Move _ _ _ => true | _ => false end in
    let x1 := {| fwd := fwd x; w_ics := w_ics x; w_deps := w_deps x;
                 ram := match src with RAM => if is_move then remove n (ram x) else ram x | _ => ram x end;
                 disk := match src with DISK => if is_move then remove n (disk x) else disk x | _ => disk x end;
                 rr := rr x; seen_endfwd := true; passes := passes x; ram0 := ram0 x; disk0 := disk0 x; fwd_total := fwd_total x;
                 ram_peak := ram_peak x; disk_peak := disk_peak x; disk_writes := disk_writes x;
                 disk_reads := disk_reads x + (match src with DISK => 1 | _ => 0 end) |} in
    match dst with
    | WORK =>
      let restart := match cp_ics c with Some (a0, b0) => (a0 <=? n) && (n <? b0) | None => false end in
      if restart && negb (covers (cp_ics c) n (N - rr x)) then inr E_cp_not_covering else
      if negb (keep_all_deps p) && (1 <? wlen (cp_deps c)) then inr E_deps_many else
      put p x1 WORK n c (if restart then Some n else None) (cp_ics c) (cp_deps c) 0
    | RAM | DISK => put p x1 dst n c (fwd x) None None 0
    | NONE => inl x1
    end end
  | EndForward =>
    if seen_endfwd x then inr E_end_fwd_early else
    match fwd x with Some f =>
      if negb (f =? N) then inr E_end_fwd_early else
      inl {| fwd := fwd x; w_ics := w_ics x; w_deps := w_deps x; ram := ram x; disk := disk x; rr := rr x; seen_endfwd := true;
             passes := passes x; ram0 := sort_keys (keys (ram x)); disk0 := sort_keys (keys (disk x)); fwd_total := fwd_total x;
             ram_peak := ram_peak x; disk_peak := disk_peak x; disk_writes := disk_writes x; disk_reads := disk_reads x |}
    | None => inr E_end_fwd_early end
  | EndReverse =>
    if negb (seen_endfwd x) then inr E_before_endfwd else
    if negb (rr x =? N) then inr E_end_rev_early else
    if exhausted && negb (match ram x, disk x with [], [] => true | _, _ => false end) then inr E_leftover else
    if negb exhausted && negb (zlist_eqb (sort_keys (keys (ram x))) (ram0 x) && zlist_eqb (sort_keys (keys (disk x))) (disk0 x)) then inr E_leftover else
    inl {| fwd := fwd x; w_ics := w_ics x; w_deps := w_deps x; ram := ram x; disk := disk x; rr := if exhausted then rr x else 0;
           seen_endfwd := true; passes := passes x + 1; ram0 := ram0 x; disk0 := disk0 x; fwd_total := fwd_total x;
           ram_peak := ram_peak x; disk_peak := disk_peak x; disk_writes := disk_writes x; disk_reads := disk_reads x |}
  end.
