(* The reference executor: the formal meaning of "the stream is carried out literally by a solver".
   It is the executor of tests/test_validity.py made total, with every failed requirement a named error,
   plus the requirements the property texts add (marked (+)).
   Shape: exec = check (first failing requirement, in a fixed order) ; apply (total state update). *)
From Coq Require Import ZArith List Bool.
Require Import Actions.
Import ListNotations.
Open Scope Z_scope.

Definition range := (Z * Z)%type.                       (* half-open step range [a, b) *)
Record cp := { cp_ics : option range; cp_deps : option range }.
Definition store := list (Z * cp).                      (* keyed by step; most recent first *)

Inductive xerr :=
 | E_fwd_start | E_missing_cp | E_cp_not_covering | E_rev_no_deps | E_overwrite                 (* C01 *)
 | E_rev_order | E_end_fwd_early | E_end_rev_early | E_before_endfwd                            (* C02 *)
 | E_budget (s : storage) | E_mixed_content                                                    (* C03 *)
 | E_leftover                                                                                  (* C04 *)
 | E_load_work_nonempty | E_deps_not_last_step | E_overshoot | E_deps_many                     (* C12 *)
 | E_malformed.                                                                                (* C18 *)

Record xparams := { xN : Z;                               (* the true number of steps *)
                    keep_all_deps : bool;                 (* SingleMemoryStorageSchedule exemption of C12 *)
                    budget_ram : option Z; budget_disk : option Z }.
Record counters := { fwd_total : Z; ram_peak : Z; disk_peak : Z; disk_writes : Z; disk_reads : Z }.
Record xstate := { fwd : option Z; w_ics : option range; w_deps : option range;
                   ram : store; disk : store; rr : Z; seen_endfwd : bool; passes : Z;
                   ram0 : list Z; disk0 : list Z;         (* keys held at EndForward *)
                   cnt : counters }.
Definition c0 := {| fwd_total := 0; ram_peak := 0; disk_peak := 0; disk_writes := 0; disk_reads := 0 |}.
Definition x0 : xstate := {| fwd := Some 0; w_ics := None; w_deps := None; ram := []; disk := []; rr := 0; seen_endfwd := false;
   passes := 0; ram0 := []; disk0 := []; cnt := c0 |}.

Fixpoint lookup (k : Z) (l : store) : option cp := match l with [] => None | (k', v) :: r => if k =? k' then Some v else lookup k r end.
Fixpoint remove (k : Z) (l : store) : store := match l with [] => [] | (k', v) :: r => if k =? k' then r else (k', v) :: remove k r end.
Definition covers (o : option range) (a b : Z) := match o with Some (x, y) => (x <=? a) && (b <=? y) | None => false end.
Definition isnone {A} (o : option A) := match o with None => true | _ => false end.
Definition keys (l : store) : list Z := map fst l.
Fixpoint insert_sorted (k : Z) (l : list Z) := match l with [] => [k] | x :: r => if k <=? x then k :: l else x :: insert_sorted k r end.
Definition sort_keys (l : list Z) := fold_right insert_sorted [] l.
Fixpoint zlist_eqb (a b : list Z) := match a, b with [], [] => true | x :: r, y :: s => (x =? y) && zlist_eqb r s | _, _ => false end.
Definition within (b : option Z) (n : Z) := match b with Some m => n <=? m | None => true end.
Definition wlen (o : option range) := match o with Some (a, b) => b - a | None => 0 end.
Definition sel (x : xstate) (s : storage) : store := match s with RAM => ram x | DISK => disk x | _ => [] end.
Definition budget (p : xparams) (s : storage) : option Z := match s with RAM => budget_ram p | DISK => budget_disk p | _ => None end.

(* ---- state updates ---- *)
Definition set_work (x : xstate) (f : option Z) (wi wd : option range) : xstate :=
  {| fwd := f; w_ics := wi; w_deps := wd; ram := ram x; disk := disk x; rr := rr x; seen_endfwd := seen_endfwd x;
     passes := passes x; ram0 := ram0 x; disk0 := disk0 x; cnt := cnt x |}.
Definition set_store (x : xstate) (s : storage) (l : store) : xstate :=
  {| fwd := fwd x; w_ics := w_ics x; w_deps := w_deps x;
     ram := match s with RAM => l | _ => ram x end; disk := match s with DISK => l | _ => disk x end;
     rr := rr x; seen_endfwd := seen_endfwd x; passes := passes x; ram0 := ram0 x; disk0 := disk0 x; cnt := cnt x |}.
Definition set_rr (x : xstate) (r : Z) (wd : option range) : xstate :=
  {| fwd := fwd x; w_ics := w_ics x; w_deps := wd; ram := ram x; disk := disk x; rr := r; seen_endfwd := seen_endfwd x;
     passes := passes x; ram0 := ram0 x; disk0 := disk0 x; cnt := cnt x |}.
Definition set_cnt (x : xstate) (c : counters) : xstate :=
  {| fwd := fwd x; w_ics := w_ics x; w_deps := w_deps x; ram := ram x; disk := disk x; rr := rr x; seen_endfwd := seen_endfwd x;
     passes := passes x; ram0 := ram0 x; disk0 := disk0 x; cnt := c |}.
Definition count_put (c : counters) (s : storage) (n : Z) : counters :=
  match s with
  | RAM => {| fwd_total := fwd_total c; ram_peak := Z.max (ram_peak c) n; disk_peak := disk_peak c; disk_writes := disk_writes c; disk_reads := disk_reads c |}
  | DISK => {| fwd_total := fwd_total c; ram_peak := ram_peak c; disk_peak := Z.max (disk_peak c) n; disk_writes := disk_writes c + 1; disk_reads := disk_reads c |}
  | _ => c end.
Definition count_fwd (c : counters) (adv : Z) : counters :=
  {| fwd_total := fwd_total c + adv; ram_peak := ram_peak c; disk_peak := disk_peak c; disk_writes := disk_writes c; disk_reads := disk_reads c |}.
Definition count_read (c : counters) (s : storage) : counters :=
  match s with DISK => {| fwd_total := fwd_total c; ram_peak := ram_peak c; disk_peak := disk_peak c; disk_writes := disk_writes c; disk_reads := disk_reads c + 1 |}
  | _ => c end.
(* store checkpoint c under key k in storage s (RAM/DISK; other storages: nothing is stored) *)
Definition put (x : xstate) (s : storage) (k : Z) (c : cp) : xstate :=
  if is_cp s then set_cnt (set_store x s ((k, c) :: sel x s)) (count_put (cnt x) s (len (sel x s) + 1)) else x.

(* ---- requirements, in the order in which they are checked ---- *)
Definition chk (b : bool) (e : xerr) : option xerr := if b then None else Some e.
Fixpoint first_err (l : list (option xerr)) : option xerr :=
  match l with [] => None | Some e :: _ => Some e | None :: r => first_err r end.
Definition fwd_is (x : xstate) (n : Z) := match fwd x with Some f => f =? n | None => false end.
Definition can_put (p : xparams) (x : xstate) (s : storage) (k : Z) : list (option xerr) :=
  if is_cp s then [chk (isnone (lookup k (sel x s))) E_overwrite; chk (within (budget p s) (len (sel x s) + 1)) (E_budget s)] else [].

(* known = the schedule's max_n is known when the action is carried out; exhausted = the schedule reports exhaustion
   (both read after the action was emitted, as a client does) *)
Definition check (p : xparams) (known exhausted : bool) (x : xstate) (a : action) : option xerr :=
  let N := xN p in
  match a with
  | Forward n0 n1 wi wa sg =>
    let n1' := Z.min n1 N in
    first_err ([ chk ((0 <=? n0) && (n0 <? n1)) E_malformed;
                 chk (negb ((is_cp sg && negb (wi || wa)) || (st_eqb sg NONE && (wi || wa)))) E_malformed;
                 chk (fwd_is x n0) E_fwd_start;
                 chk (negb known || (n1 <=? N - rr x)) E_overshoot;
                 chk (n0 <? n1') E_overshoot;
                 chk (negb (is_cp sg && wi && wa)) E_mixed_content;                                        (* (+) *)
                 chk (negb (is_cp sg && wa && negb (n1' =? n0 + 1))) E_mixed_content;                      (* (+) one step's dependencies *)
                 chk (negb (st_eqb sg WORK && wa && negb (keep_all_deps p) && negb ((n1' =? n0 + 1) && (n1' =? N - rr x))))
                     E_deps_not_last_step ]                                                                (* (+) *)
               ++ can_put p x sg n0)
  | Reverse n1 n0 _ =>
    first_err [ chk ((0 <=? n0) && (n0 <? n1)) E_malformed;
                chk (seen_endfwd x) E_before_endfwd;
                chk (n1 =? N - rr x) E_rev_order;
                chk (covers (w_deps x) n0 n1) E_rev_no_deps ]
  | Copy n src dst | Move n src dst =>
    let is_move := match a with Move _ _ _ => true | _ => false end in
    first_err ([ chk (is_cp src && (0 <=? n)) E_malformed;
                 chk (seen_endfwd x) E_before_endfwd;
                 chk (isnone (w_ics x) && isnone (w_deps x)) E_load_work_nonempty;
                 chk (negb (isnone (lookup n (sel x src)))) E_missing_cp;
                 chk (n <? N - rr x) E_cp_not_covering ]
               ++ match lookup n (sel x src), dst with
                  | Some c, WORK =>
                    let restart := match cp_ics c with Some (a0, b0) => (a0 <=? n) && (n <? b0) | None => false end in
                    [ chk (negb restart || covers (cp_ics c) n (N - rr x)) E_cp_not_covering;
                      chk (keep_all_deps p || (wlen (cp_deps c) <=? 1)) E_deps_many ]
                  | Some c, _ => can_put p (if is_move then set_store x src (remove n (sel x src)) else x) dst n
                  | None, _ => [] end)
  | EndForward =>
    first_err [ chk (negb (seen_endfwd x)) E_end_fwd_early; chk (fwd_is x N) E_end_fwd_early ]
  | EndReverse =>
    first_err [ chk (seen_endfwd x) E_before_endfwd;
                chk (rr x =? N) E_end_rev_early;
                chk (if exhausted then match ram x, disk x with [], [] => true | _, _ => false end
                     else zlist_eqb (sort_keys (keys (ram x))) (ram0 x) && zlist_eqb (sort_keys (keys (disk x))) (disk0 x)) E_leftover ]
  end.

Definition apply (p : xparams) (exhausted : bool) (x : xstate) (a : action) : xstate :=
  let N := xN p in
  match a with
  | Forward n0 n1 wi wa sg =>
    let n1' := Z.min n1 N in
    let work := st_eqb sg WORK in
    let x1 := set_work x (Some n1') (if work && wi then Some (n0, n1') else None) (if work && wa then Some (n0, n1') else None) in
    let x2 := put x1 sg n0 {| cp_ics := if wi then Some (n0, n1') else None; cp_deps := if wa then Some (n0, n1') else None |} in
    set_cnt x2 (count_fwd (cnt x2) (n1' - n0))
  | Reverse n1 n0 clear => set_rr x (rr x + (n1 - n0)) (if clear then None else w_deps x)
  | Copy n src dst | Move n src dst =>
    let is_move := match a with Move _ _ _ => true | _ => false end in
    match lookup n (sel x src) with
    | None => x
    | Some c =>
      let x1 := if is_move then set_store x src (remove n (sel x src)) else x in
      let x2 := set_cnt x1 (count_read (cnt x1) src) in
      match dst with
      | WORK => let restart := match cp_ics c with Some (a0, b0) => (a0 <=? n) && (n <? b0) | None => false end in
                set_work x2 (if restart then Some n else None) (cp_ics c) (cp_deps c)
      | _ => put x2 dst n c
      end
    end
  | EndForward =>
    {| fwd := fwd x; w_ics := w_ics x; w_deps := w_deps x; ram := ram x; disk := disk x; rr := rr x; seen_endfwd := true;
       passes := passes x; ram0 := sort_keys (keys (ram x)); disk0 := sort_keys (keys (disk x)); cnt := cnt x |}
  | EndReverse =>
    {| fwd := fwd x; w_ics := w_ics x; w_deps := w_deps x; ram := ram x; disk := disk x; rr := if exhausted then rr x else 0;
       seen_endfwd := seen_endfwd x; passes := passes x + 1; ram0 := ram0 x; disk0 := disk0 x; cnt := cnt x |}
  end.

Definition exec (p : xparams) (known exhausted : bool) (x : xstate) (a : action) : xstate + xerr :=
  match check p known exhausted x a with Some e => inr e | None => inl (apply p exhausted x a) end.
