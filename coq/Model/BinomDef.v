(* beta s t = C(s+t, t) by Pascal's rule (basic_functions.beta on integers; Griewank-Walther's beta) *)
From Coq Require Import ZArith.
Open Scope Z_scope.
Fixpoint beta (s t : nat) : Z :=
  match s with
  | O => 1
  | S s' => (fix go (t : nat) : Z :=
              match t with O => 1 | S t' => beta s' (S t') + go t' end) t
  end.
