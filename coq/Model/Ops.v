(* hrevolve_sequences: Operation values (type name + index), flattened Sequence (concat = 0), shift, remove_useless_wm. *)
From Coq Require Import ZArith List Bool.
Require Import Actions.
Import ListNotations.
Open Scope Z_scope.

Inductive op :=
 | OF (a b : Z) | OB (a b : Z)                                                   (* Forward [a,b], Backward [a,b] *)
 | OR (k i : Z) | OW (k i : Z) | OD (k i : Z) | OWF (k i : Z) | ODF (k i : Z)    (* Read/Write/Discard/Write_Forward/Discard_Forward [k,i] *)
 | ORM (i : Z) | OWM (i : Z) | ODM (i : Z)                                       (* *_memory i *)
 | ORD (i : Z) | OWD (i : Z) | ODD (i : Z)                                       (* *_disk i *)
 | OWFM (i : Z) | ODFM (i : Z).                                                  (* Write_Forward_memory, Discard_Forward_memory *)

Definition shift1 (s : Z) (o : op) : op :=
  match o with OF a b => OF (a+s) (b+s) | OB a b => OB (a+s) (b+s)
  | OR k i => OR k (i+s) | OW k i => OW k (i+s) | OD k i => OD k (i+s) | OWF k i => OWF k (i+s) | ODF k i => ODF k (i+s)
  | ORM i => ORM (i+s) | OWM i => OWM (i+s) | ODM i => ODM (i+s) | ORD i => ORD (i+s) | OWD i => OWD (i+s) | ODD i => ODD (i+s)
  | OWFM i => OWFM (i+s) | ODFM i => ODFM (i+s) end.
Definition shift (s : Z) := map (shift1 s).
Definition remove_useless_wm (l : list op) := match l with OWM _ :: r => r | _ => l end.
Definition last_op (l : list op) : option op := match rev l with [] => None | x :: _ => Some x end.

Fixpoint map_res {A B} (f : A -> res B) (l : list A) : res (list B) :=
  match l with [] => Ok [] | x :: r => do y <- f x; do ys <- map_res f r; Ok (y :: ys) end.
Definition zrange (lo hi : Z) : list Z := map (fun i => lo + Z.of_nat i) (seq 0 (Z.to_nat (hi - lo))).
