(* hrevolve.py: _convert_action and RevolveCheckpointSchedule._iterator as a step machine; the four constructors. *)
From Coq Require Import ZArith List Bool.
Require Import Actions Ops RevSeq HRevSeq.
Import ListNotations.
Open Scope Z_scope.

(* _convert_action: (n_0, storage); the storage level map {0: RAM, 1: DISK} raises KeyError on other keys *)
Definition lvl (k : Z) : res storage := if k =? 0 then Ok RAM else if k =? 1 then Ok DISK else Err KeyError.
Definition conv_n0_st (o : op) : res (Z * option storage) :=
  match o with
  | OF a b => if b <=? a then Err RuntimeError else Ok (a, None)
  | OB a b => if a <=? b then Err RuntimeError else Ok (a, None)
  | OR k i | OW k i | OD k i => do s <- lvl k; Ok (i, Some s)
  | OWF _ i | ODF _ i | OWFM i | ODFM i => Ok (i, Some WORK)
  | ORD i | OWD i | ODD i => Ok (i, Some DISK)
  | ORM i | OWM i | ODM i => Ok (i, Some RAM)
  end.

Record cst := { n_ : Z; r_ : Z; snaps : list Z; w_storage : option storage; write_ics : bool; adj_deps : bool; w_n0 : option Z }.
Definition upd (c : cst) n r sn ws wi wa w0 := {| n_ := n; r_ := r; snaps := sn; w_storage := ws; write_ics := wi; adj_deps := wa; w_n0 := w0 |}.
Definition st_opt_eqb (a b : option storage) := match a, b with Some x, Some y => st_eqb x y | None, None => true | _, _ => false end.
Definition set_add (w : Z) (l : list Z) := if existsb (Z.eqb w) l then l else w :: l.

(* one iteration of `while i < len(self._schedule)`: converts ops[i], emitting 0..2 actions *)
Definition conv1 (max_n : Z) (ops : list op) (i : nat) (c : cst) : res (cst * list action) :=
  match nth_error ops i with None => Err IndexError | Some o =>
  do ns <- conv_n0_st o;
  let '(n0, storage) := ns in
  match o with
  | OF _ n1 =>
    if negb (n0 =? n_ c) then Err InvalidForwardStep else
    match (match i with O => last_op ops | S j => nth_error ops j end) with None => Err IndexError | Some prev =>
    do pw <- conv_n0_st prev;
    let '(w, ws) := pw in
    do c2 <- match prev with
       | OW _ _ | OWD _ | OWM _ => if negb (w =? n0) then Err InvalidActionIndex else
           Ok (upd c n1 (r_ c) (set_add w (snaps c)) ws true false (Some w))
       | OWF _ _ | OWFM _ => if negb (w =? n1) then Err InvalidActionIndex else Ok (upd c n1 (r_ c) (snaps c) ws false true (Some w))
       | _ => Ok (upd c n1 (r_ c) (snaps c) (Some WORK) false false (Some w)) end;
    let a := Forward n0 n1 (write_ics c2) (adj_deps c2) (match w_storage c2 with Some s => s | None => NONE end) in
    if n1 =? max_n then (if negb (r_ c2 =? 0) then Err InvalidReverseStep else Ok (c2, [a; EndForward])) else Ok (c2, [a]) end
  | OB _ n1 =>
    if negb (n0 =? n_ c) then Err InvalidActionIndex else
    if negb (n0 =? max_n - r_ c) then Err InvalidForwardStep else
    Ok (upd c (n_ c) (r_ c + 1) (snaps c) (w_storage c) (write_ics c) (adj_deps c) (w_n0 c), [Reverse n0 n1 true])
  | OR _ _ | ORM _ | ORD _ =>
    let sg := match storage with Some s => s | None => NONE end in
    if n0 =? max_n - r_ c - 1 then
      if negb (existsb (Z.eqb n0) (snaps c)) then Err KeyError else
      Ok (upd c n0 (r_ c) (filter (fun x => negb (x =? n0)) (snaps c)) (w_storage c) (write_ics c) (adj_deps c) (w_n0 c), [Move n0 sg WORK])
    else Ok (upd c n0 (r_ c) (snaps c) (w_storage c) (write_ics c) (adj_deps c) (w_n0 c), [Copy n0 sg WORK])
  | OW _ _ | OWD _ | OWM _ => if negb (n0 =? n_ c) then Err InvalidActionIndex else Ok (c, [])
  | OWF _ _ | OWFM _ =>
    if negb (n0 =? n_ c + 1) then Err InvalidActionIndex else
    match nth_error ops (i + 3) with None => Err IndexError
    | Some d =>
      do dn <- conv_n0_st d;
      let '(d0, dst) := dn in
      let same_kind := match o, d with OWF _ _, ODF _ _ => true | OWFM _, ODFM _ => true | _, _ => false end in
      let ok := same_kind && (d0 =? n0) && st_opt_eqb dst storage in
      let c' := upd c (n_ c) (r_ c) (snaps c) dst (write_ics c) (adj_deps c) (w_n0 c) in
      if ok then Ok (c', []) else
      match w_n0 c with None => Err UnboundLocalError
      | Some w => if negb (w =? n0) then Err InvalidActionIndex else
         match o with
         | OWF _ _ => Ok (upd c (n_ c) (r_ c) (snaps c) dst true false (w_n0 c), [])
         | _ => Ok (c', []) end end
    end
  | OD _ _ | ODM _ => if (Nat.ltb i 2) then Err InvalidRevolverAction else Ok (c, [])
  | ODF _ _ | ODFM _ => if negb (n0 =? n_ c) then Err InvalidActionIndex else Ok (c, [])
  | ODD _ => Err InvalidRevolverAction
  end end.

(* the generator as a step machine: `pend` holds an EndForward still to be yielded after the Forward reaching max_n *)
Record rst := { ops : list op; idx : nat; cs : cst; pend : list action; exhausted : bool; finished : bool }.
Definition init_c := {| n_ := 0; r_ := 0; snaps := []; w_storage := None; write_ics := false; adj_deps := false; w_n0 := None |}.
Definition init_r (o : list op) := {| ops := o; idx := 0%nat; cs := init_c; pend := []; exhausted := false; finished := false |}.
Definition fin (s : rst) := {| ops := ops s; idx := idx s; cs := cs s; pend := []; exhausted := exhausted s; finished := true |}.
Fixpoint advance (fuel : nat) (max_n : Z) (s : rst) : rst * outcome :=
  match fuel with O => (fin s, Raise OutOfFuel) | S f =>
  if Nat.ltb (idx s) (length (ops s)) then
    match conv1 max_n (ops s) (idx s) (cs s) with
    | Err e => (fin s, Raise e)
    | Ok (c', []) => advance f max_n {| ops := ops s; idx := S (idx s); cs := c'; pend := []; exhausted := false; finished := false |}
    | Ok (c', a :: rest) => ({| ops := ops s; idx := S (idx s); cs := c'; pend := rest; exhausted := false; finished := false |}, Yield a)
    end
  else if negb (Nat.eqb (length (snaps (cs s))) 0) then (fin s, Raise RuntimeError)
  else ({| ops := ops s; idx := idx s; cs := cs s; pend := []; exhausted := true; finished := true |}, Yield EndReverse)
  end.
Definition next (max_n : Z) (s : rst) : rst * outcome :=
  if finished s then (s, StopIteration) else
  match pend s with
  | a :: rest => ({| ops := ops s; idx := idx s; cs := cs s; pend := rest; exhausted := exhausted s; finished := finished s |}, Yield a)
  | [] => advance (S (length (ops s) - idx s)) max_n s
  end.

(* constructors: the sequence is computed first (call-site argument order of hrevolve.py reproduced), then
   CheckpointSchedule.__init__ (max_n < 1 -> ValueError), then the assertion on snapshots_in_ram *)
Inductive rkind := KRevolve | KDiskRevolve | KPeriodic | KHRevolve.
Definition sequence (k : rkind) (max_n ram disk uf ub wd rd : Z) : res (list op) :=
  match k with
  | KRevolve => revolve_top (max_n - 1) ram uf ub
  | KDiskRevolve => disk_revolve_top (max_n - 1) ram (*rd:=*) wd (*wd:=*) rd uf ub
  | KPeriodic => do p <- periodic_top (max_n - 1) ram (*rd:=*) wd (*wd:=*) rd uf ub; Ok (fst p)
  | KHRevolve => hrevolve (max_n - 1) ram disk wd rd uf ub
  end.
Definition construct (k : rkind) (max_n ram disk uf ub wd rd : Z) : res rst :=
  do o <- sequence k max_n ram disk uf ub wd rd;
  if max_n <? 1 then Err ValueError else
  if ram <? Z.min 1 (max_n - 1) then Err AssertionError else
  Ok (init_r o).
